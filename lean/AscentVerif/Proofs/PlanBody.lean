import AscentVerif.Proofs.PlanPair
/-!
# Plan proofs, part 7: whole bodies

The body of a rule compiled with a simple join at position `k` is `pre ++ c1 :: c2 :: rest` with no clause in `pre`:
`pre` is evaluated exactly as `evalBody` does, the join by `joinStep_sem`, and `rest` by `evalFrom_eq_evalBody` from an
environment that is look-up-equal to `evalBody`'s.
-/
namespace AscentVerif.Plan
open AscentVerif AscentVerif.Engine AscentVerif.Hir

variable {E B G P A : Type}

theorem evalFrom_join (I : Interp E B G P A) (cfg : Config) (p : Program E B G P A) (s : SccSt) (h : HRule)
    (swap : Bool) (i : Nat) (r : RelId) (args : List (Arg E)) (conds : List (Cond E B P)) (r2 : RelId)
    (args2 : List (Arg E)) (conds2 : List (Cond E B P)) (rest2 : List (Item E B G P A)) (vs : List (Option Ver)) (ρ : Env)
    (hsj : h.simpleJoinStart = some i) :
    evalFrom I cfg p s h swap i (.clause r args conds :: .clause r2 args2 conds2 :: rest2) vs ρ =
      if swap = true then
        joinStep I (relSt s.rels r2).rows (clauseRows cfg p s r2 (vs.tail.headD none)) (colsAt h (i + 1)) args2 conds2
          (relSt s.rels r).rows (clauseRows cfg p s r (vs.headD none)) (colsAt h i) args conds
          (preVars h i ++ h.bound.getD (i + 1) []) ρ fun ρ' => evalFrom I cfg p s h swap (i + 2) rest2 vs.tail.tail ρ'
      else
        joinStep I (relSt s.rels r).rows (clauseRows cfg p s r (vs.headD none)) (colsAt h i) args conds
          (relSt s.rels r2).rows (clauseRows cfg p s r2 (vs.tail.headD none)) (colsAt h (i + 1)) args2 conds2
          (preVars h (i + 1)) ρ fun ρ' => evalFrom I cfg p s h swap (i + 2) rest2 vs.tail.tail ρ' := by
  simp [evalFrom, hsj]

theorem DomEq.of_envEq {ρ ρ' : Env} {g : List Var} (h : DomEq ρ' g) (he : EnvEq ρ ρ') : DomEq ρ g := by
  intro v
  rw [← h v, ← get?_isSome_iff, ← get?_isSome_iff, he v]

/-- the items before the first clause are evaluated as `evalBody` evaluates them -/
theorem evalFrom_prefix (I : Interp E B G P A) (cfg : Config) (p : Program E B G P A) (s : SccSt) (V : VarsOf E B)
    (h : HRule) (swap : Bool) (suf : List (Item E B G P A)) :
    ∀ (pre : List (Item E B G P A)) (i : Nat) (gd : List Var × List Var) (vs : List (Option Ver)) (ρ : Env),
      (∀ it ∈ pre, isClause it = false) → GdOk gd → DomEq ρ gd.1 →
      (∀ vs' ρ', DomEq ρ' (gdFold V gd pre).1 →
        PermEq (evalFrom I cfg p s h swap (i + pre.length) suf vs' ρ') (evalBody I cfg p s suf vs' ρ')) →
      PermEq (evalFrom I cfg p s h swap i (pre ++ suf) vs ρ) (evalBody I cfg p s (pre ++ suf) vs ρ)
  | [], i, gd, vs, ρ, _, _, hdom, hsuf => by simpa using hsuf vs ρ hdom
  | .clause r a c :: pre, _, _, _, _, hno, _, _, _ => by
    have := hno _ List.mem_cons_self
    simp [isClause] at this
  | .cond c :: pre, i, gd, vs, ρ, hno, hgd, hdom, hsuf => by
    obtain ⟨hgd', hg'⟩ := gdStep_spec V gd hgd (.cond c : Item E B G P A) rfl
    simp only [List.cons_append, evalFrom, evalBody]
    cases hc : satCond I c ρ with
    | none => exact PermEq.refl _
    | some ρ₁ =>
      dsimp only
      apply evalFrom_prefix I cfg p s V h swap suf pre (i + 1) _ vs.tail ρ₁
        (fun it hit => hno it (List.mem_cons_of_mem _ hit)) hgd'
      · intro v
        obtain ⟨bl, e, k⟩ := satCond_form I c ρ ρ₁ hc
        rw [e, keys_append, List.mem_append, k, hg' v, hdom v]
        simp only [itemBound]
        exact Or.comm
      · intro vs' ρ' hd'
        have := hsuf vs' ρ' hd'
        rwa [show i + (Item.cond c :: pre).length = i + 1 + pre.length from by simp; omega] at this
  | .gen w g :: pre, i, gd, vs, ρ, hno, hgd, hdom, hsuf => by
    obtain ⟨hgd', hg'⟩ := gdStep_spec V gd hgd (.gen w g : Item E B G P A) rfl
    simp only [List.cons_append, evalFrom, evalBody]
    apply PermEq.flatMap
    intro x _
    apply evalFrom_prefix I cfg p s V h swap suf pre (i + 1) _ vs.tail _
      (fun it hit => hno it (List.mem_cons_of_mem _ hit)) hgd'
    · intro v
      rw [hg' v, ← hdom v]
      simp only [keys, List.map_cons, List.mem_cons, itemBound, List.not_mem_nil, or_false]
      exact Or.comm
    · intro vs' ρ' hd'
      have := hsuf vs' ρ' hd'
      rwa [show i + (Item.gen w g :: pre).length = i + 1 + pre.length from by simp; omega] at this
  | .agg a :: pre, i, gd, vs, ρ, hno, hgd, hdom, hsuf => by
    obtain ⟨hgd', hg'⟩ := gdStep_spec V gd hgd (.agg a : Item E B G P A) rfl
    simp only [List.cons_append, evalFrom, evalBody]
    apply PermEq.flatMap
    intro ρ₁ hρ₁
    apply evalFrom_prefix I cfg p s V h swap suf pre (i + 1) _ vs.tail _
      (fun it hit => hno it (List.mem_cons_of_mem _ hit)) hgd'
    · intro v
      rw [aggEnvs_keys I a ρ _ ρ₁ hρ₁ v, hg' v, hdom v]
      simp only [itemBound]
    · intro vs' ρ' hd'
      have := hsuf vs' ρ' hd'
      rwa [show i + (Item.agg a :: pre).length = i + 1 + pre.length from by simp; omega] at this

/-- what `compile_join` gives, in the form the evaluation proofs use -/
structure JoinSetup (V : VarsOf E B) (h : HRule) (pre : List (Item E B G P A))
    (r1 : RelId) (a1 : List (Arg E)) (c1 : List (Cond E B P)) (r2 : RelId) (a2 : List (Arg E)) (c2 : List (Cond E B P))
    (rest : List (Item E B G P A)) (gdk gdk1 gdk2 : List Var × List Var) : Prop where
  gok : GdOk gdk
  gok2 : GdOk gdk2
  hgk : ∀ v, v ∈ gdk.1 ↔ v ∈ pre.flatMap itemBound
  ctx : JoinCtx gdk.1 gdk1.1 a1 c1 a2 (colsAt h pre.length) (colsAt h (pre.length + 1)) (preVars h (pre.length + 1))
  hgk2 : ∀ v, v ∈ gdk2.1 ↔ v ∈ gdk1.1 ∨ v ∈ a2.filterMap argVar? ∨ v ∈ c2.flatMap Cond.boundVars
  desug : desugFrom V gdk2 rest = true
  agree : Agree V h (pre.length + 2) gdk2 rest
  preK : ∀ v, v ∈ preVars h pre.length ↔ v ∈ gdk.1
  bound2 : h.bound.getD (pre.length + 1) [] = a2.filterMap argVar? ++ c2.flatMap Cond.boundVars
  nd2all : (a2.filterMap argVar?).Nodup
  conds2 : condsIn V (a2.filterMap argVar?) c2 = true

theorem nodup_of_filter_parts {α : Type} (p : α → Bool) :
    ∀ l : List α, (l.filter p).Nodup → (l.filter fun a => !p a).Nodup → l.Nodup
  | [], _, _ => List.nodup_nil
  | a :: l, h1, h2 => by
    rw [List.nodup_cons]
    cases hp : p a with
    | true =>
      rw [List.filter_cons, hp, if_pos rfl, List.nodup_cons] at h1
      rw [List.filter_cons, hp] at h2
      simp only [Bool.not_true, Bool.false_eq_true, if_false] at h2
      exact ⟨fun hm => h1.1 (List.mem_filter.2 ⟨hm, hp⟩), nodup_of_filter_parts p l h1.2 h2⟩
    | false =>
      rw [List.filter_cons, hp] at h1
      simp only [Bool.false_eq_true, if_false] at h1
      rw [List.filter_cons, hp] at h2
      simp only [Bool.not_false, if_true, List.nodup_cons] at h2
      exact ⟨fun hm => h2.1 (List.mem_filter.2 ⟨hm, by rw [hp]; rfl⟩), nodup_of_filter_parts p l h1 h2.2⟩

theorem mem_indicesGiven (args : List (Arg E)) (vars : List Var) (j : Nat) :
    j ∈ indicesGiven args vars ↔ ∃ a, args[j]? = some a ∧ isIdx vars a = true := by
  unfold indicesGiven
  rw [List.mem_filter, List.mem_range]
  constructor
  · rintro ⟨hlt, h⟩
    rw [List.getElem?_eq_getElem hlt] at h
    refine ⟨args[j], List.getElem?_eq_getElem hlt, ?_⟩
    cases ha : args[j] with
    | var v => rw [ha] at h; exact h
    | expr e => rfl
  · rintro ⟨a, ha, hi⟩
    refine ⟨(List.getElem?_eq_some_iff.1 ha).1, ?_⟩
    rw [ha]
    cases a with
    | var v => exact hi
    | expr e => rfl

theorem join_setup (V : VarsOf E B) (r : Rule E B G P A) (hd : Desugared V r = true) (pre : List (Item E B G P A))
    (r1 : RelId) (a1 : List (Arg E)) (c1 : List (Cond E B P)) (r2 : RelId) (a2 : List (Arg E)) (c2 : List (Cond E B P))
    (rest : List (Item E B G P A)) (jf : JoinFacts V r pre r1 a1 c1 r2 a2 c2 rest) :
    JoinSetup V (compileRule V r) pre r1 a1 c1 r2 a2 c2 rest (gdFold V ([], []) pre)
      (gdStep V (gdFold V ([], []) pre) (.clause r1 a1 c1 : Item E B G P A))
      (gdStep V (gdStep V (gdFold V ([], []) pre) (.clause r1 a1 c1 : Item E B G P A)) (.clause r2 a2 c2 : Item E B G P A)) := by
  have hd' : desugFrom V ([], []) (pre ++ Item.clause r1 a1 c1 :: Item.clause r2 a2 c2 :: rest) = true := by
    rw [← jf.body]; exact hd
  obtain ⟨gok, hdk, hgk⟩ := gdFold_spec V pre ([], []) _ gdOk_nil hd'
  simp only [desugFrom, Bool.and_eq_true] at hdk
  obtain ⟨hok1, hok2, hdrest⟩ := hdk
  obtain ⟨gok1, hg1⟩ := gdStep_spec V _ gok (.clause r1 a1 c1 : Item E B G P A) hok1
  obtain ⟨gok2, hg2⟩ := gdStep_spec V _ gok1 (.clause r2 a2 c2 : Item E B G P A) hok2
  have hbound := compile_bound V r
  rw [jf.body] at hbound
  have hits := jf.items
  have ja1 := jf.args1
  have jnr := jf.noRep
  generalize compileRule V r = h at hbound hits ⊢
  generalize hgdk : gdFold V ([], []) pre = gdk at *
  generalize hgdk1 : gdStep V gdk (.clause r1 a1 c1 : Item E B G P A) = gdk1 at *
  generalize hgdk2 : gdStep V gdk1 (.clause r2 a2 c2 : Item E B G P A) = gdk2 at *
  have hgk' : ∀ v, v ∈ gdk.1 ↔ v ∈ pre.flatMap itemBound := fun v => by
    rw [hgk v]; simp
  have hL : (hitems V ([], []) pre).length = pre.length := hitems_length V pre _
  -- positions k and k + 1
  have hik : h.items[pre.length]? = some (HItem.clause r1 (indicesGiven a1 (a2.filterMap argVar?)) false) := by
    rw [hits, List.getElem?_append_right (Nat.le_of_eq hL), hL, Nat.sub_self]; rfl
  have hik1 : h.items[pre.length + 1]? = some (hitemOf V gdk1 (.clause r2 a2 c2 : Item E B G P A)) := by
    rw [hits, List.getElem?_append_right (by rw [hL]; omega), hL]
    rw [show pre.length + 1 - pre.length = 1 from by omega]; rfl
  have hdrop : h.items.drop (pre.length + 2) = hitems V gdk2 rest := by
    rw [hits]
    have : hitems V ([], []) pre ++ HItem.clause r1 (indicesGiven a1 (a2.filterMap argVar?)) false ::
        hitemOf V gdk1 (.clause r2 a2 c2 : Item E B G P A) ::
          hitems V (gdFold V ([], []) (pre ++ [.clause r1 a1 c1, .clause r2 a2 c2])) rest =
        (hitems V ([], []) pre ++ [HItem.clause r1 (indicesGiven a1 (a2.filterMap argVar?)) false,
          hitemOf V gdk1 (.clause r2 a2 c2 : Item E B G P A)]) ++
          hitems V (gdFold V ([], []) (pre ++ [.clause r1 a1 c1, .clause r2 a2 c2])) rest := by simp
    rw [this, List.drop_left' (by simp [hL])]
    congr 1
    simp only [gdFold, List.foldl_append, List.foldl_cons, List.foldl_nil]
    have e0 : List.foldl (gdStep V) ([], []) pre = gdk := hgdk
    rw [e0, hgdk1, hgdk2]
  -- bound variables
  have hb1 : h.bound.take (pre.length + 1) = pre.map itemBound ++ [itemBound (.clause r1 a1 c1 : Item E B G P A)] := by
    rw [hbound]
    have : (pre ++ Item.clause r1 a1 c1 :: Item.clause r2 a2 c2 :: rest).map itemBound =
        (pre.map itemBound ++ [itemBound (.clause r1 a1 c1 : Item E B G P A)]) ++
          (Item.clause r2 a2 c2 :: rest).map itemBound := by simp
    rw [this, List.take_left' (by simp)]
  have hb0 : h.bound.take pre.length = pre.map itemBound := by
    rw [hbound, List.map_append, List.take_left' (by simp)]
  have hb2 : h.bound.take (pre.length + 2) = pre.map itemBound ++
      [itemBound (.clause r1 a1 c1 : Item E B G P A), itemBound (.clause r2 a2 c2 : Item E B G P A)] := by
    rw [hbound]
    have : (pre ++ Item.clause r1 a1 c1 :: Item.clause r2 a2 c2 :: rest).map itemBound =
        (pre.map itemBound ++ [itemBound (.clause r1 a1 c1 : Item E B G P A),
          itemBound (.clause r2 a2 c2 : Item E B G P A)]) ++ rest.map itemBound := by simp
    rw [this, List.take_left' (by simp)]
  have hbd : h.bound.drop (pre.length + 2) = rest.map itemBound := by
    rw [hbound]
    have : (pre ++ Item.clause r1 a1 c1 :: Item.clause r2 a2 c2 :: rest).map itemBound =
        (pre.map itemBound ++ [itemBound (.clause r1 a1 c1 : Item E B G P A),
          itemBound (.clause r2 a2 c2 : Item E B G P A)]) ++ rest.map itemBound := by simp
    rw [this, List.drop_left' (by simp)]
  have hbg : h.bound.getD (pre.length + 1) [] = itemBound (.clause r2 a2 c2 : Item E B G P A) := by
    rw [hbound, List.getD_eq_getElem?_getD, List.map_append, List.getElem?_append_right (by simp)]
    simp
  have hfl : (pre.map itemBound).flatten = pre.flatMap itemBound := rfl
  have hpre0 : ∀ v, v ∈ preVars h pre.length ↔ v ∈ gdk.1 := fun v => by
    unfold preVars
    rw [hb0, hgk' v, hfl]
  have hpre1 : ∀ v, v ∈ preVars h (pre.length + 1) ↔ v ∈ gdk1.1 := fun v => by
    unfold preVars
    rw [hb1, hg1 v, hgk' v, List.flatten_append, List.mem_append, hfl]
    simp
  have hpre2 : ∀ v, v ∈ preVars h (pre.length + 2) ↔ v ∈ gdk2.1 := fun v => by
    unfold preVars
    rw [hb2, hg2 v, hg1 v, hgk' v, List.flatten_append, List.mem_append, hfl]
    simp [or_assoc]
  obtain ⟨hc2, _, _⟩ := scanOf_spec V gdk1 gok1 a2 hok2
  have hnd2 : (a2.filterMap argVar?).Nodup :=
    nodup_of_filter_parts (fun v => gdk1.2.contains v) _ jnr (argsOk_nodup V gdk1.2 a2 [] hok2).2
  refine ⟨gok, gok2, hgk', ?_, ?_, hdrest, ⟨hdrop, hpre2, hbd⟩, hpre0, ?_, hnd2, jf.conds2⟩
  · refine ⟨ja1, freshVars_nodup V gdk gok a1 hok1, ?_, jf.args2, ?_, ?_, freshVars_nodup V gdk1 gok1 a2 hok2, hpre1⟩
    · intro j
      rw [colsAt_of hik, mem_indicesGiven]
      constructor
      · rintro ⟨a, ha, hi⟩
        obtain ⟨v, rfl, _⟩ := ja1 a (List.mem_of_getElem? ha)
        exact ⟨v, ha, List.contains_iff_mem.1 hi⟩
      · rintro ⟨v, ha, hv⟩
        exact ⟨_, ha, List.contains_iff_mem.2 hv⟩
    · intro v
      rw [hg1 v]
      simp only [itemBound, List.mem_append]
    · intro j
      rw [colsAt_of hik1]
      exact hc2 j
  · intro v
    rw [hg2 v]
    simp only [itemBound, List.mem_append]
  · rw [hbg]; rfl

/-- **index selection, whole bodies**: the plan evaluation in the original order is a permutation of the filter
evaluation, up to look-up equality of the environments -/
theorem plan_permEq (I : Interp E B G P A) (hI : Ext I) (cfg : Config) (p : Program E B G P A) (s : SccSt)
    (V : VarsOf E B) (r : Rule E B G P A) (hd : Desugared V r = true) (vs : List (Option Ver)) :
    PermEq (evalBodyPlan I cfg p s (compileRule V r) false r.body vs []) (evalBody I cfg p s r.body vs []) := by
  unfold evalBodyPlan
  cases hsj : (compileRule V r).simpleJoinStart with
  | none =>
    apply PermEq.of_eq
    apply evalFrom_eq_evalBody I cfg p s V _ false r.body 0 ([], []) vs [] gdOk_nil hd
    · intro v; simp [keys]
    · exact ⟨by rw [compile_nojoin V r hsj]; rfl, by intro v; simp [preVars], by rw [compile_bound]; rfl⟩
    · intro j _; rw [hsj]; exact fun h => by cases h
  | some k =>
    obtain ⟨pre, r1, a1, c1, r2, a2, c2, rest, hk, jf⟩ := compile_join V r k hd hsj
    have js := join_setup V r hd pre r1 a1 c1 r2 a2 c2 rest jf
    rw [jf.body]
    apply evalFrom_prefix I cfg p s V _ false _ pre 0 ([], []) vs [] jf.noClause gdOk_nil (by intro v; simp [keys])
    intro vs' ρ' hdom'
    rw [Nat.zero_add, evalFrom_join I cfg p s _ false pre.length r1 a1 c1 r2 a2 c2 rest vs' ρ' (by rw [hsj, hk]),
      evalBody_clause]
    simp only [Bool.false_eq_true, if_false]
    have hcl : ∀ ρ₂, evalBody I cfg p s (Item.clause r2 a2 c2 :: rest) vs'.tail ρ₂ =
        semClause I (relSt s.rels r2).rows (clauseRows cfg p s r2 (vs'.tail.headD none)) a2 c2 ρ₂
          fun ρ'' => evalBody I cfg p s rest vs'.tail.tail ρ'' := fun ρ₂ => evalBody_clause ..
    simp only [hcl]
    apply joinStep_sem I hI js.ctx c2 _ js.hgk2 _ _ _ _ ρ' hdom'
    intro ρp ρs heq hdoms
    rw [evalFrom_eq_evalBody I cfg p s V _ false rest (pre.length + 2) _ vs'.tail.tail ρp js.gok2 js.desug
      (hdoms.of_envEq heq) js.agree (fun j hj => by rw [hsj]; intro h; cases h; omega)]
    exact PermEq.of_envsEq (evalBody_envEq I hI cfg p s rest _ heq)

end AscentVerif.Plan
