import AscentVerif.Proofs.AggEvalBody
import AscentVerif.Proofs.Pass
/-!
# Head update and one pass over the rules, with aggregation items (step 3 of the C04 proof)

Generalisation of `Proofs/Head.lean` and `Proofs/Pass.lean`: derivability is `DerA … aggv` for an
arbitrary per-item aggregation view `aggv`; the pass assumes that the aggregation items of the
rules range over non-dynamic relations and that what they read at the start of the pass is `aggv`.
Additionally tracked (under a switch `K`): index entries are duplicate-free (`ND`), which is what
"each tuple exactly once" needs.
-/
namespace AscentVerif.Engine.Agg
open AscentVerif AscentVerif.Engine

variable {E B G P A : Type}

theorem findDyn_none_of_not_dyn {n : Nat} {dynR : List RelId} {s : SccSt} (hwf : WF n dynR s) {r : RelId}
    (hr : dynR.contains r = false) : findDyn s.dyn r = none := by
  have := hwf.dyn_iff r
  rw [hr] at this
  cases h' : findDyn s.dyn r with
  | none => rfl
  | some d => rw [h'] at this; cases this

theorem not_dyn_of_findDyn_none {n : Nat} {dynR : List RelId} {s : SccSt} (hwf : WF n dynR s) {r : RelId}
    (hd : findDyn s.dyn r = none) : dynR.contains r = false := by
  have := hwf.dyn_iff r
  rw [hd] at this; exact this.symm

theorem aggTuples_congr (cfg : Config) (p : Program E B G P A) {s s' : SccSt} (a : AggClause E A)
    (h : relSt s.rels a.rel = relSt s'.rels a.rel) : aggTuples cfg p s a = aggTuples cfg p s' a := by
  simp only [aggTuples, h]

section Good
variable (I : Interp E B G P A) (p : Program E B G P A) (inp : RelId → List Tuple)
  (aggv : AggClause E A → List Tuple)

def GoodRows (r : RelId) (rows : List Tuple) : Prop :=
  (∀ t ∈ rows, DerA I p.rules aggv (inDB p inp) ⟨r, t⟩) ∧
  ∃ derived, rows = inp r ++ derived ∧ derived.Nodup ∧ ∀ t ∈ derived, t ∉ inp r

theorem GoodRows.append {r : RelId} {rows : List Tuple} {t : Tuple} (h : GoodRows I p inp aggv r rows)
    (hn : t ∉ rows) (hd : DerA I p.rules aggv (inDB p inp) ⟨r, t⟩) : GoodRows I p inp aggv r (rows ++ [t]) := by
  obtain ⟨h1, derived, rfl, hnd, hdis⟩ := h
  refine ⟨?_, derived ++ [t], by simp, ?_, ?_⟩
  · intro x hx
    rcases List.mem_append.mp hx with hx | hx
    · exact h1 x hx
    · simp at hx; subst hx; exact hd
  · rw [List.nodup_append]
    refine ⟨hnd, by simp, ?_⟩
    intro a ha b hb
    simp at hb; subst hb
    intro hab; subst hab
    exact hn (List.mem_append_right _ ha)
  · intro x hx
    rcases List.mem_append.mp hx with hx | hx
    · exact hdis x hx
    · simp at hx; subst hx
      intro hin; exact hn (List.mem_append_left _ hin)

def Good (n : Nat) (s : SccSt) : Prop := ∀ r, r < n → GoodRows I p inp aggv r (rowsOf s r)

end Good

/-! ## duplicate-free index entries -/

structure ND (s : SccSt) : Prop where
  dyn : ∀ r d, findDyn s.dyn r = some d → (d.total ++ d.delta ++ d.new).Nodup
  nondyn : ∀ r, findDyn s.dyn r = none → (relSt s.rels r).idx.Nodup

theorem ND_pushRow {n : Nat} {dynR : List RelId} {s : SccSt} {r : RelId} {d : Dyn} {row : Tuple}
    (hwf : WF n dynR s) (hd : findDyn s.dyn r = some d) (hnd : ND s) :
    ND (pushRow s r d row) := by
  refine ⟨?_, ?_⟩
  · intro r' d' hd'
    by_cases hne : r' = r
    · subst hne
      rw [pushRow_dyn_self hd] at hd'
      cases hd'
      show (d.total ++ d.delta ++ (d.new ++ [(rowsOf s r').length])).Nodup
      rw [← List.append_assoc, List.nodup_append]
      refine ⟨hnd.dyn r' d hd, by simp, ?_⟩
      intro a ha b hb
      simp only [List.mem_singleton] at hb
      subst hb
      have hlt : a < (rowsOf s r').length := by
        apply (hwf.cover r' d hd a).mpr
        simp only [List.mem_append] at ha
        rcases ha with (h | h) | h
        · exact .inl h
        · exact .inr (.inl h)
        · exact .inr (.inr h)
      omega
    · rw [pushRow_dyn_ne hd hne] at hd'
      exact hnd.dyn r' d' hd'
  · intro r' hd'
    have hne : r' ≠ r := by
      intro h; subst h
      rw [pushRow_dyn_self hd] at hd'; cases hd'
    rw [pushRow_dyn_ne hd hne] at hd'
    rw [pushRow_relSt_ne hne]
    exact hnd.nondyn r' hd'

/-! ## one head update -/

section Step
variable (I : Interp E B G P A) (cfg : Config) (p : Program E B G P A) (inp : RelId → List Tuple)
  (aggv : AggClause E A → List Tuple) (K : Prop)
  (n : Nat) (dynR : List RelId) (hlt : ∀ r, dynR.contains r = true → r < n)

/-- the invariant of a pass, relative to the state `s₀` at its start -/
structure Post (s₀ s : SccSt) : Prop where
  wf : WF n dynR s
  ext : Ext s₀ s
  good : Good I p inp aggv n s
  nd : K → ND s

include hlt in
theorem headRel_step {s₀ s : SccSt} (hpost : Post I p inp aggv K n dynR s₀ s) (r : RelId) (row : Tuple)
    (hder : DerA I p.rules aggv (inDB p inp) ⟨r, row⟩) :
    Post I p inp aggv K n dynR s₀ (headRel s r row) ∧ Le s (headRel s r row) ∧
      (dynR.contains r = true → row ∈ rowsOf (headRel s r row) r) := by
  rw [headRel_eq]
  cases hd : findDyn s.dyn r with
  | none =>
    refine ⟨hpost, Le.refl s, ?_⟩
    intro hdy
    have := hpost.wf.dyn_iff r
    rw [hd, hdy] at this; cases this
  | some d =>
    have hdy : dynR.contains r = true := by
      have := hpost.wf.dyn_iff r
      rw [hd] at this; exact this.symm
    have hr : r < n := hlt r hdy
    have hr' : r < s.rels.length := by rw [hpost.wf.len]; exact hr
    have hmem : ((bagTuples (rowsOf s r) d.total).contains row || (bagTuples (rowsOf s r) d.delta).contains row
            || (bagTuples (rowsOf s r) d.new).contains row) = true ↔ row ∈ rowsOf s r := by
      rw [Bool.or_eq_true, Bool.or_eq_true, mem_bagTuples, mem_bagTuples, mem_bagTuples, mem_iff_rowAt]
      constructor
      · rintro ((⟨i, hi, h⟩ | ⟨i, hi, h⟩) | ⟨i, hi, h⟩)
        · exact ⟨i, (hpost.wf.cover r d hd i).mpr (.inl hi), h⟩
        · exact ⟨i, (hpost.wf.cover r d hd i).mpr (.inr (.inl hi)), h⟩
        · exact ⟨i, (hpost.wf.cover r d hd i).mpr (.inr (.inr hi)), h⟩
      · rintro ⟨i, hi, h⟩
        rcases (hpost.wf.cover r d hd i).mp hi with hi | hi | hi
        · exact .inl (.inl ⟨i, hi, h⟩)
        · exact .inl (.inr ⟨i, hi, h⟩)
        · exact .inr ⟨i, hi, h⟩
    simp only []
    split
    · rename_i hc
      exact ⟨hpost, Le.refl s, fun _ => hmem.mp hc⟩
    · rename_i hc
      have hnot : row ∉ rowsOf s r := fun h => hc (hmem.mpr h)
      refine ⟨⟨WF_pushRow hpost.wf hd hr, Ext_pushRow hpost.wf hpost.ext hd hr, ?_,
        fun hk => ND_pushRow hpost.wf hd (hpost.nd hk)⟩, ?_, ?_⟩
      · intro r' hr'n
        by_cases hne : r' = r
        · subst hne
          rw [pushRow_rows_self hr']
          exact (hpost.good r' hr'n).append I p inp aggv hnot hder
        · rw [pushRow_rows_ne hne]; exact hpost.good r' hr'n
      · intro r' t ht
        by_cases hne : r' = r
        · subst hne
          rw [pushRow_rows_self hr']; exact List.mem_append_left _ ht
        · rw [pushRow_rows_ne hne]; exact ht
      · intro _
        rw [pushRow_rows_self hr']; simp

end Step

/-! ## the four nested folds of `evalRules` -/

section Pass
variable (I : Interp E B G P A) (cfg : Config) (p : Program E B G P A) (inp : RelId → List Tuple)
  (aggv : AggClause E A → List Tuple) (K : Prop)
  (n : Nat) (dynR : List RelId) (hlt : ∀ r, dynR.contains r = true → r < n)
  (hl : ∀ d ∈ p.rels, d.lat = false)

include hlt hl in
theorem heads_step {s₀ : SccSt} (heads : List (HeadClause E)) (ρ : Env)
    (hder : ∀ h ∈ heads, DerA I p.rules aggv (inDB p inp) (headFact I h ρ))
    (hdyn : ∀ h ∈ heads, dynR.contains h.rel = true) (s : SccSt) (hpost : Post I p inp aggv K n dynR s₀ s) :
    Post I p inp aggv K n dynR s₀ (heads.foldl (fun s h => headUpdate I cfg p s h ρ) s) ∧
      Le s (heads.foldl (fun s h => headUpdate I cfg p s h ρ) s) ∧
      ∀ h ∈ heads, FactsS (heads.foldl (fun s h => headUpdate I cfg p s h ρ) s) (headFact I h ρ) := by
  refine foldl_track (fun s h => headUpdate I cfg p s h ρ) (Post I p inp aggv K n dynR s₀) Le
    (fun h s => FactsS s (headFact I h ρ)) Le.refl (fun _ _ _ => Le.trans)
    (fun h s s' hd hle => hle _ _ hd) heads ?_ s hpost
  intro s h hh hs
  have hupd : headUpdate I cfg p s h ρ = headRel s h.rel (h.args.map fun e => I.expr e ρ) := by
    simp [headUpdate, declOf_lat p hl]
  rw [hupd]
  obtain ⟨h1, h2, h3⟩ := headRel_step I p inp aggv K n dynR hlt hs h.rel (h.args.map fun e => I.expr e ρ) (hder h hh)
  exact ⟨h1, h2, h3 (hdyn h hh)⟩

include hlt hl in
theorem envs_step {s₀ : SccSt} (heads : List (HeadClause E)) (l : List Env)
    (hder : ∀ ρ ∈ l, ∀ h ∈ heads, DerA I p.rules aggv (inDB p inp) (headFact I h ρ))
    (hdyn : ∀ h ∈ heads, dynR.contains h.rel = true) (s : SccSt) (hpost : Post I p inp aggv K n dynR s₀ s) :
    Post I p inp aggv K n dynR s₀ (l.foldl (fun s ρ => heads.foldl (fun s h => headUpdate I cfg p s h ρ) s) s) ∧
      Le s (l.foldl (fun s ρ => heads.foldl (fun s h => headUpdate I cfg p s h ρ) s) s) ∧
      ∀ ρ ∈ l, ∀ h ∈ heads,
        FactsS (l.foldl (fun s ρ => heads.foldl (fun s h => headUpdate I cfg p s h ρ) s) s) (headFact I h ρ) := by
  refine foldl_track (fun s ρ => heads.foldl (fun s h => headUpdate I cfg p s h ρ) s)
    (Post I p inp aggv K n dynR s₀) Le
    (fun ρ s => ∀ h ∈ heads, FactsS s (headFact I h ρ)) Le.refl (fun _ _ _ => Le.trans)
    (fun ρ s s' hd hle h hh => hle _ _ (hd h hh)) l ?_ s hpost
  intro s ρ hρ hs
  exact heads_step I cfg p inp aggv K n dynR hlt hl heads ρ (hder ρ hρ) hdyn s hs

/-- what the aggregation items of a rule read in state `s`: non-dynamic relations, and exactly `aggv` -/
def AggOK (rule : Rule E B G P A) (s : SccSt) : Prop :=
  ∀ a, Item.agg a ∈ rule.body → dynR.contains a.rel = false ∧ aggTuples cfg p s a = aggv a

theorem AggOK.ext {rule : Rule E B G P A} {s₀ s : SccSt} (hwf0 : WF n dynR s₀) (hext : Ext s₀ s)
    (h : AggOK cfg p aggv dynR rule s₀) : AggOK cfg p aggv dynR rule s := by
  intro a ha
  obtain ⟨h1, h2⟩ := h a ha
  refine ⟨h1, ?_⟩
  rw [← h2]
  exact aggTuples_congr cfg p a (hext.nondyn a.rel (findDyn_none_of_not_dyn hwf0 h1)).2

include hlt hl in
theorem evalVariant_step {s₀ : SccSt} (hwf0 : WF n dynR s₀) (rule : Rule E B G P A) (hrule : rule ∈ p.rules)
    (hagg : AggOK cfg p aggv dynR rule s₀) (hdyn : ∀ h ∈ rule.heads, dynR.contains h.rel = true)
    (vs : List (Option Ver)) (s : SccSt) (hpost : Post I p inp aggv K n dynR s₀ s) :
    Post I p inp aggv K n dynR s₀ (evalVariant I cfg p s rule vs) ∧ Le s (evalVariant I cfg p s rule vs) ∧
      ∀ ρ, SatV I (viewOf cfg p s₀) aggv rule.body vs [] ρ →
        ∀ h ∈ rule.heads, FactsS (evalVariant I cfg p s rule vs) (headFact I h ρ) := by
  have hagg' := hagg.ext cfg p aggv n dynR hwf0 hpost.ext
  have hder : ∀ ρ ∈ evalBody I cfg p s rule.body vs [], ∀ h ∈ rule.heads,
      DerA I p.rules aggv (inDB p inp) (headFact I h ρ) := by
    intro ρ hρ h hh
    have hsv := SatV.congr_agg (SatV_of_evalBody I cfg p s rule.body vs [] ρ hρ) (fun a ha => (hagg' a ha).2)
    have hsat : SatA I (DerA I p.rules aggv (inDB p inp)) aggv rule.body [] ρ := by
      refine SatV.toSatA ?_ hsv
      intro r v t hv
      have hmem := view_sub_rows cfg p hl hpost.wf hv
      have hr : r < n := by
        have := lt_of_mem_rows s.rels r t hmem
        rw [hpost.wf.len] at this; exact this
      exact (hpost.good r hr).1 t hmem
    exact derA_cons ⟨rule, hrule, ρ, hsat, h, hh, rfl⟩
  obtain ⟨h1, h2, h3⟩ := envs_step I cfg p inp aggv K n dynR hlt hl rule.heads (evalBody I cfg p s rule.body vs [])
    hder hdyn s hpost
  refine ⟨h1, h2, ?_⟩
  intro ρ hρ h hh
  have hρ' : SatV I (viewOf cfg p s) (aggTuples cfg p s) rule.body vs [] ρ :=
    SatV.congr_agg (SatV.mono (fun r v t hv => view_mono cfg p hl hwf0 hpost.ext hv) hρ)
      (fun a ha => (hagg' a ha).2.symm)
  exact h3 ρ (evalBody_of_SatV I cfg p s hρ') h hh

include hlt hl in
theorem evalRule_step {s₀ : SccSt} (hwf0 : WF n dynR s₀) (rule : Rule E B G P A) (hrule : rule ∈ p.rules)
    (hagg : AggOK cfg p aggv dynR rule s₀) (hdyn : ∀ h ∈ rule.heads, dynR.contains h.rel = true)
    (vss : List (List (Option Ver))) (s : SccSt) (hpost : Post I p inp aggv K n dynR s₀ s) :
    Post I p inp aggv K n dynR s₀ (vss.foldl (fun s vs => evalVariant I cfg p s rule vs) s) ∧
      Le s (vss.foldl (fun s vs => evalVariant I cfg p s rule vs) s) ∧
      ∀ vs ∈ vss, ∀ ρ, SatV I (viewOf cfg p s₀) aggv rule.body vs [] ρ →
        ∀ h ∈ rule.heads, FactsS (vss.foldl (fun s vs => evalVariant I cfg p s rule vs) s) (headFact I h ρ) := by
  refine foldl_track (fun s vs => evalVariant I cfg p s rule vs) (Post I p inp aggv K n dynR s₀) Le
    (fun vs s => ∀ ρ, SatV I (viewOf cfg p s₀) aggv rule.body vs [] ρ → ∀ h ∈ rule.heads, FactsS s (headFact I h ρ))
    Le.refl (fun _ _ _ => Le.trans) (fun vs s s' hd hle ρ hρ h hh => hle _ _ (hd ρ hρ h hh)) vss ?_ s hpost
  intro s vs _ hs
  exact evalVariant_step I cfg p inp aggv K n dynR hlt hl hwf0 rule hrule hagg hdyn vs s hs

include hlt hl in
/-- **one pass**: the invariants are kept and every variant instance over the view at the start of
the pass has all its head facts stored afterwards -/
theorem evalRules_spec {s₀ : SccSt} (hwf0 : WF n dynR s₀) (rules : List (Rule E B G P A))
    (hrules : ∀ rule ∈ rules, rule ∈ p.rules) (hagg : ∀ rule ∈ rules, AggOK cfg p aggv dynR rule s₀)
    (hdyn : ∀ rule ∈ rules, ∀ h ∈ rule.heads, dynR.contains h.rel = true)
    (s : SccSt) (hpost : Post I p inp aggv K n dynR s₀ s) :
    Post I p inp aggv K n dynR s₀ (evalRules I cfg p dynR rules s) ∧ Le s (evalRules I cfg p dynR rules s) ∧
      ∀ rule ∈ rules, ∀ vs ∈ variants dynR rule, ∀ ρ, SatV I (viewOf cfg p s₀) aggv rule.body vs [] ρ →
        ∀ h ∈ rule.heads, FactsS (evalRules I cfg p dynR rules s) (headFact I h ρ) := by
  unfold evalRules
  refine foldl_track (fun s r => (variants dynR r).foldl (fun s vs => evalVariant I cfg p s r vs) s)
    (Post I p inp aggv K n dynR s₀) Le
    (fun rule s => ∀ vs ∈ variants dynR rule, ∀ ρ, SatV I (viewOf cfg p s₀) aggv rule.body vs [] ρ →
      ∀ h ∈ rule.heads, FactsS s (headFact I h ρ))
    Le.refl (fun _ _ _ => Le.trans) (fun rule s s' hd hle vs hvs ρ hρ h hh => hle _ _ (hd vs hvs ρ hρ h hh))
    rules ?_ s hpost
  intro s rule hr hs
  exact evalRule_step I cfg p inp aggv K n dynR hlt hl hwf0 rule (hrules rule hr) (hagg rule hr) (hdyn rule hr)
    (variants dynR rule) s hs

end Pass

end AscentVerif.Engine.Agg
