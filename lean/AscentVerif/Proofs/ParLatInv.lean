import AscentVerif.Proofs.ParLat
/-!
# The structural invariant of the parallel lattice head update, and its consequences
-/
namespace AscentVerif.ParLat

variable {V : Type}

structure Inv (vs : List V) (s : State V) : Prop where
  vals : s.workers.map (·.v) = vs
  lockLt : ∀ i, s.lock = some i → i < s.workers.length
  lockIff : ∀ (i : Nat) (w : Worker V), s.workers[i]? = some w → (w.pc.crit = true ↔ s.lock = some i)
  len : s.rows.length ≤ 1
  inNewLen : s.inNew = true → s.rows.length = 1
  freeEmpty : s.lock = none → s.inNew = false → s.rows = []
  holdEmpty : ∀ (i : Nat) (w : Worker V), s.workers[i]? = some w → w.pc = .holding → s.inNew = false → s.rows = []
  unlockIn : ∀ (i : Nat) (w : Worker V), s.workers[i]? = some w → w.pc = .unlock → s.inNew = true
  afterLen : ∀ (i : Nat) (w : Worker V), s.workers[i]? = some w → w.pc.after = true → s.rows.length = 1

theorem Inv.init (vs : List V) : Inv vs (init vs) := by
  constructor
  · simp [ParLat.init, List.map_map, Function.comp_def]
  · intro i h; simp [ParLat.init] at h
  · intro i w h
    simp only [ParLat.init, List.getElem?_map, Option.map_eq_some_iff] at h
    obtain ⟨v, _, rfl⟩ := h
    simp [PC.crit, ParLat.init]
  · simp [ParLat.init]
  · simp [ParLat.init]
  · simp [ParLat.init]
  · simp [ParLat.init]
  · intro i w h
    simp only [ParLat.init, List.getElem?_map, Option.map_eq_some_iff] at h
    obtain ⟨v, _, rfl⟩ := h
    simp
  · intro i w h
    simp only [ParLat.init, List.getElem?_map, Option.map_eq_some_iff] at h
    obtain ⟨v, _, rfl⟩ := h
    simp [PC.after]

/-- closes one field of the invariant after a step of worker `i` -/
macro "inv_field" hw:ident h1:ident : tactic => `(tactic|
  first
    | (rw [map_v_setWorker _ _ _ _ $hw]; exact $h1)
    | (intro j x hx; rcases getElem?_setWorker hx with ⟨rfl, rfl⟩ | ⟨hne, hx'⟩ <;>
        grind [PC.crit, PC.after, length_joinRow0, length_setWorker])
    | grind [PC.crit, PC.after, length_joinRow0, length_setWorker])

theorem Inv.step_startHit {join : V → V → V} {vs : List V} {s : State V} {i : Nat} {w : Worker V}
    (hI : Inv vs s) (hw : s.workers[i]? = some w) (hpc : w.pc = .start) (hin : s.inNew = true) :
    Inv vs { s with rows := joinRow0 join s.rows w.v, workers := setWorker s.workers i { w with pc := .done } } := by
  obtain ⟨h1, h2, h3, h4, h5, h6, h7, h8, h9⟩ := hI
  have hlt : i < s.workers.length := (List.getElem?_eq_some_iff.1 hw).1
  have h3i := h3 i w hw
  have h7i := h7 i w hw
  have h8i := h8 i w hw
  have h9i := h9 i w hw
  constructor <;> simp only [] <;> inv_field hw h1

theorem Inv.step_startMiss {vs : List V} {s : State V} {i : Nat} {w : Worker V}
    (hI : Inv vs s) (hw : s.workers[i]? = some w) (hpc : w.pc = .start) (hin : s.inNew = false) :
    Inv vs { s with workers := setWorker s.workers i { w with pc := .wantLock } } := by
  obtain ⟨h1, h2, h3, h4, h5, h6, h7, h8, h9⟩ := hI
  have hlt : i < s.workers.length := (List.getElem?_eq_some_iff.1 hw).1
  have h3i := h3 i w hw
  have h7i := h7 i w hw
  have h8i := h8 i w hw
  have h9i := h9 i w hw
  constructor <;> simp only [] <;> inv_field hw h1

theorem Inv.step_lock {vs : List V} {s : State V} {i : Nat} {w : Worker V}
    (hI : Inv vs s) (hw : s.workers[i]? = some w) (_hpc : w.pc = .wantLock) (hl : s.lock = none) :
    Inv vs { s with lock := some i, workers := setWorker s.workers i { w with pc := .holding } } := by
  obtain ⟨h1, h2, h3, h4, h5, h6, h7, h8, h9⟩ := hI
  have hlt : i < s.workers.length := (List.getElem?_eq_some_iff.1 hw).1
  have h3i := h3 i w hw
  have h7i := h7 i w hw
  have h8i := h8 i w hw
  have h9i := h9 i w hw
  constructor <;> simp only [] <;> inv_field hw h1

theorem Inv.step_recheckHit {join : V → V → V} {vs : List V} {s : State V} {i : Nat} {w : Worker V}
    (hI : Inv vs s) (hw : s.workers[i]? = some w) (hpc : w.pc = .holding) (hin : s.inNew = true) :
    Inv vs { s with rows := joinRow0 join s.rows w.v, workers := setWorker s.workers i { w with pc := .unlock } } := by
  obtain ⟨h1, h2, h3, h4, h5, h6, h7, h8, h9⟩ := hI
  have hlt : i < s.workers.length := (List.getElem?_eq_some_iff.1 hw).1
  have h3i := h3 i w hw
  have h7i := h7 i w hw
  have h8i := h8 i w hw
  have h9i := h9 i w hw
  constructor <;> simp only [] <;> inv_field hw h1

theorem Inv.step_push {vs : List V} {s : State V} {i : Nat} {w : Worker V}
    (hI : Inv vs s) (hw : s.workers[i]? = some w) (hpc : w.pc = .holding) (hin : s.inNew = false) :
    Inv vs { s with rows := s.rows ++ [w.v], workers := setWorker s.workers i { w with pc := .pushed } } := by
  obtain ⟨h1, h2, h3, h4, h5, h6, h7, h8, h9⟩ := hI
  have hlt : i < s.workers.length := (List.getElem?_eq_some_iff.1 hw).1
  have h3i := h3 i w hw
  have h7i := h7 i w hw
  have h8i := h8 i w hw
  have h9i := h9 i w hw
  constructor <;> simp only [] <;> inv_field hw h1

theorem Inv.step_insert {vs : List V} {s : State V} {i : Nat} {w : Worker V}
    (hI : Inv vs s) (hw : s.workers[i]? = some w) (hpc : w.pc = .pushed) :
    Inv vs { s with inNew := true, workers := setWorker s.workers i { w with pc := .unlock } } := by
  obtain ⟨h1, h2, h3, h4, h5, h6, h7, h8, h9⟩ := hI
  have hlt : i < s.workers.length := (List.getElem?_eq_some_iff.1 hw).1
  have h3i := h3 i w hw
  have h7i := h7 i w hw
  have h8i := h8 i w hw
  have h9i := h9 i w hw
  constructor <;> simp only [] <;> inv_field hw h1

theorem Inv.step_unlock {vs : List V} {s : State V} {i : Nat} {w : Worker V}
    (hI : Inv vs s) (hw : s.workers[i]? = some w) (hpc : w.pc = .unlock) :
    Inv vs { s with lock := none, workers := setWorker s.workers i { w with pc := .done } } := by
  obtain ⟨h1, h2, h3, h4, h5, h6, h7, h8, h9⟩ := hI
  have hlt : i < s.workers.length := (List.getElem?_eq_some_iff.1 hw).1
  have h3i := h3 i w hw
  have h7i := h7 i w hw
  have h8i := h8 i w hw
  have h9i := h9 i w hw
  constructor <;> simp only [] <;> inv_field hw h1

theorem Inv.step {join : V → V → V} {vs : List V} {s s' : State V} {i : Nat} {w : Worker V}
    (hI : Inv vs s) (hw : s.workers[i]? = some w) (hc : StepCase join s i w s') : Inv vs s' := by
  cases hc with
  | startHit hpc hin => exact Inv.step_startHit hI hw hpc hin
  | startMiss hpc hin => exact Inv.step_startMiss hI hw hpc hin
  | lock hpc hl => exact Inv.step_lock hI hw hpc hl
  | recheckHit hpc hin => exact Inv.step_recheckHit hI hw hpc hin
  | push hpc hin => exact Inv.step_push hI hw hpc hin
  | insert hpc => exact Inv.step_insert hI hw hpc
  | unlock hpc => exact Inv.step_unlock hI hw hpc

theorem Reachable.inv {join : V → V → V} {vs : List V} {s : State V} (h : Reachable join vs s) : Inv vs s := by
  induction h with
  | init => exact Inv.init vs
  | step i _ hs ih =>
    obtain ⟨w, hw, hc⟩ := step_cases hs
    exact ih.step hw hc

/-! ## progress -/

theorem step_enabled (join : V → V → V) (s : State V) (i : Nat) (w : Worker V) (hw : s.workers[i]? = some w)
    (hnd : w.pc ≠ .done) (hlk : w.pc = .wantLock → s.lock = none) : ∃ s', step join s i = some s' := by
  unfold step
  simp only [hw]
  cases hpc : w.pc with
  | start => simp only []; split <;> exact ⟨_, rfl⟩
  | wantLock => simp only [hlk hpc]; exact ⟨_, rfl⟩
  | holding => simp only []; split <;> exact ⟨_, rfl⟩
  | pushed => exact ⟨_, rfl⟩
  | unlock => exact ⟨_, rfl⟩
  | done => exact absurd hpc hnd

theorem no_stuck_of_inv {join : V → V → V} {vs : List V} {s : State V} (hI : Inv vs s) (hnd : ¬ allDone s) :
    ∃ i s', step join s i = some s' := by
  cases hl : s.lock with
  | none =>
    have : ∃ w ∈ s.workers, w.pc ≠ .done := by
      apply Classical.byContradiction
      intro hno
      apply hnd
      intro w hw
      apply Classical.byContradiction
      intro hpc
      exact hno ⟨w, hw, hpc⟩
    obtain ⟨w, hmem, hpc⟩ := this
    obtain ⟨j, hj⟩ := List.getElem?_of_mem hmem
    exact ⟨j, step_enabled join s j w hj hpc (fun _ => hl)⟩
  | some k =>
    have hk := hI.lockLt k hl
    have hwk : s.workers[k]? = some s.workers[k] := List.getElem?_eq_getElem hk
    have hcrit := (hI.lockIff k _ hwk).2 hl
    refine ⟨k, step_enabled join s k _ hwk ?_ ?_⟩
    · intro h; rw [h] at hcrit; simp [PC.crit] at hcrit
    · intro h; rw [h] at hcrit; simp [PC.crit] at hcrit

/-! ## termination measure -/

def measure' (s : State V) : Nat := (s.workers.map fun w => w.pc.rank).sum

theorem StepCase.workers_eq {join : V → V → V} {s s' : State V} {i : Nat} {w : Worker V} (hc : StepCase join s i w s') :
    ∃ pc', s'.workers = s.workers.set i { w with pc := pc' } ∧ pc'.rank < w.pc.rank := by
  cases hc with
  | startHit hpc _ => exact ⟨_, rfl, by rw [hpc]; decide⟩
  | startMiss hpc _ => exact ⟨_, rfl, by rw [hpc]; decide⟩
  | lock hpc _ => exact ⟨_, rfl, by rw [hpc]; decide⟩
  | recheckHit hpc _ => exact ⟨_, rfl, by rw [hpc]; decide⟩
  | push hpc _ => exact ⟨_, rfl, by rw [hpc]; decide⟩
  | insert hpc => exact ⟨_, rfl, by rw [hpc]; decide⟩
  | unlock hpc => exact ⟨_, rfl, by rw [hpc]; decide⟩

theorem measure'_decreases (join : V → V → V) (s s' : State V) (i : Nat) (h : step join s i = some s') :
    measure' s' < measure' s := by
  obtain ⟨w, hw, hc⟩ := step_cases h
  obtain ⟨pc', hws, hlt⟩ := hc.workers_eq
  unfold measure'
  rw [hws]
  have := sum_map_set (fun w : Worker V => w.pc.rank) s.workers i w { w with pc := pc' } hw
  simp only at this
  omega

/-! ## the single row dominates every value that has been put in -/

def Dom (le : V → V → Prop) (s : State V) : Prop :=
  ∀ (i : Nat) (w : Worker V), s.workers[i]? = some w → w.pc.after = true → ∀ r ∈ s.rows, le w.v r

theorem Dom.of_rows_eq {le : V → V → Prop} {s : State V} {i : Nat} {w : Worker V} (hD : Dom le s)
    (hw : s.workers[i]? = some w) (pc' : PC) (hafter : pc'.after = true → w.pc.after = true)
    (s' : State V) (hrows : s'.rows = s.rows) (hws : s'.workers = setWorker s.workers i { w with pc := pc' }) :
    Dom le s' := by
  intro j x hx ha r hr
  rw [hrows] at hr
  rw [hws] at hx
  rcases getElem?_setWorker hx with ⟨rfl, rfl⟩ | ⟨_, hx'⟩
  · exact hD j w hw (hafter ha) r hr
  · exact hD j x hx' ha r hr

theorem Dom.of_join {join : V → V → V} {le : V → V → Prop}
    (htrans : ∀ a b c, le a b → le b c → le a c)
    (hl : ∀ a b, le a (join a b)) (hr : ∀ a b, le b (join a b))
    {s : State V} {i : Nat} {w : Worker V} (hD : Dom le s) (hlen : s.rows.length = 1)
    (pc' : PC) (s' : State V) (hrows : s'.rows = joinRow0 join s.rows w.v)
    (hws : s'.workers = setWorker s.workers i { w with pc := pc' }) :
    Dom le s' := by
  intro j x hx ha r' hr'
  rw [hrows] at hr'
  rw [hws] at hx
  obtain ⟨r, hr0, rfl⟩ := mem_joinRow0_single hlen hr'
  rcases getElem?_setWorker hx with ⟨rfl, rfl⟩ | ⟨_, hx'⟩
  · exact hr r w.v
  · exact htrans _ _ _ (hD j x hx' ha r (by simp [hr0])) (hl r w.v)

theorem Dom.step {join : V → V → V} {le : V → V → Prop}
    (hrefl : ∀ a, le a a) (htrans : ∀ a b c, le a b → le b c → le a c)
    (hl : ∀ a b, le a (join a b)) (hr : ∀ a b, le b (join a b))
    {vs : List V} {s s' : State V} {i : Nat} {w : Worker V}
    (hI : Inv vs s) (hD : Dom le s) (hw : s.workers[i]? = some w) (hc : StepCase join s i w s') : Dom le s' := by
  cases hc with
  | startHit hpc hin => exact hD.of_join htrans hl hr (hI.inNewLen hin) _ _ rfl rfl
  | recheckHit hpc hin => exact hD.of_join htrans hl hr (hI.inNewLen hin) _ _ rfl rfl
  | startMiss hpc _ => exact hD.of_rows_eq hw _ (by simp [PC.after]) _ rfl rfl
  | lock hpc _ => exact hD.of_rows_eq hw _ (by simp [PC.after]) _ rfl rfl
  | insert hpc => exact hD.of_rows_eq hw _ (by simp [hpc, PC.after]) _ rfl rfl
  | unlock hpc => exact hD.of_rows_eq hw _ (by simp [hpc, PC.after]) _ rfl rfl
  | push hpc hin =>
    have hemp : s.rows = [] := hI.holdEmpty i w hw hpc hin
    intro j x hx ha r hr
    simp only [hemp, List.nil_append, List.mem_singleton] at hr
    subst hr
    rcases getElem?_setWorker hx with ⟨rfl, rfl⟩ | ⟨_, hx'⟩
    · exact hrefl _
    · have := hI.afterLen j x hx' ha
      simp [hemp] at this

theorem Reachable.dom {join : V → V → V} {le : V → V → Prop}
    (hrefl : ∀ a, le a a) (htrans : ∀ a b c, le a b → le b c → le a c)
    (hl : ∀ a b, le a (join a b)) (hr : ∀ a b, le b (join a b))
    {vs : List V} {s : State V} (h : Reachable join vs s) : Dom le s := by
  induction h with
  | init => intro i w _ _ r hr; simp [ParLat.init] at hr
  | step i hreach hs ih =>
    obtain ⟨w, hw, hc⟩ := step_cases hs
    exact Dom.step hrefl htrans hl hr hreach.inv ih hw hc

theorem final_dominates {join : V → V → V} {le : V → V → Prop}
    (hrefl : ∀ a, le a a) (htrans : ∀ a b c, le a b → le b c → le a c)
    (hl : ∀ a b, le a (join a b)) (hr : ∀ a b, le b (join a b))
    {vs : List V} (hne : vs ≠ []) {s : State V} (h : Reachable join vs s) (hd : allDone s) :
    ∃ r, s.rows = [r] ∧ ∀ v ∈ vs, le v r := by
  have hI := h.inv
  have hD := h.dom hrefl htrans hl hr
  have hall : ∀ (j : Nat) (x : Worker V), s.workers[j]? = some x → x.pc.after = true := by
    intro j x hx
    rw [hd x (List.mem_of_getElem? hx)]
    rfl
  have hwne : s.workers ≠ [] := by
    intro he
    have := hI.vals
    rw [he] at this
    exact hne this.symm
  obtain ⟨w0, ws, hws⟩ := List.exists_cons_of_ne_nil hwne
  have h0 : s.workers[0]? = some w0 := by rw [hws]; rfl
  have hlen := hI.afterLen 0 w0 h0 (hall 0 w0 h0)
  match hrows : s.rows, hlen with
  | [r], _ =>
    refine ⟨r, rfl, ?_⟩
    intro v hv
    rw [← hI.vals] at hv
    obtain ⟨x, hxm, rfl⟩ := List.mem_map.1 hv
    obtain ⟨j, hj⟩ := List.getElem?_of_mem hxm
    exact hD j x hj (hall j x hj) r (by rw [hrows]; simp)

/-! ## every row stays below any upper bound of all values -/

theorem Inv.mem_vs {vs : List V} {s : State V} (hI : Inv vs s) {i : Nat} {w : Worker V} (hw : s.workers[i]? = some w) :
    w.v ∈ vs := by
  rw [← hI.vals]
  exact List.mem_map.2 ⟨w, List.mem_of_getElem? hw, rfl⟩

theorem least_step {join : V → V → V} {le : V → V → Prop}
    (hleast : ∀ a b c, le a c → le b c → le (join a b) c)
    {s s' : State V} {i : Nat} {w : Worker V} (ub : V) (hv : le w.v ub)
    (hL : ∀ r ∈ s.rows, le r ub) (hc : StepCase join s i w s') : ∀ r ∈ s'.rows, le r ub := by
  have hjoin : ∀ r' ∈ joinRow0 join s.rows w.v, le r' ub := by
    intro r' hr'
    rcases mem_joinRow0 hr' with ⟨r, hr, rfl⟩ | hr
    · exact hleast _ _ _ (hL r hr) hv
    · exact hL r' hr
  cases hc with
  | startHit _ _ => exact hjoin
  | recheckHit _ _ => exact hjoin
  | startMiss _ _ => exact hL
  | lock _ _ => exact hL
  | insert _ => exact hL
  | unlock _ => exact hL
  | push _ _ =>
    intro r hr
    simp only [List.mem_append, List.mem_singleton] at hr
    rcases hr with hr | rfl
    · exact hL r hr
    · exact hv

theorem Reachable.least {join : V → V → V} {le : V → V → Prop}
    (hleast : ∀ a b c, le a c → le b c → le (join a b) c)
    {vs : List V} {s : State V} (h : Reachable join vs s) (ub : V) (hub : ∀ v ∈ vs, le v ub) :
    ∀ r ∈ s.rows, le r ub := by
  induction h with
  | init => intro r hr; simp [ParLat.init] at hr
  | step i hreach hs ih =>
    obtain ⟨w, hw, hc⟩ := step_cases hs
    exact least_step hleast ub (hub _ (hreach.inv.mem_vs hw)) ih hc

/-! ## running an explicit schedule (for non-vacuity examples) -/

def runSched (join : V → V → V) (s : State V) : List Nat → Option (State V)
  | [] => some s
  | i :: is => (step join s i).bind fun s' => runSched join s' is

theorem reachable_runSched {join : V → V → V} {vs : List V} {s s' : State V} (sched : List Nat)
    (h : Reachable join vs s) (hr : runSched join s sched = some s') : Reachable join vs s' := by
  induction sched generalizing s with
  | nil =>
    simp only [runSched, Option.some.injEq] at hr
    exact hr ▸ h
  | cons i is ih =>
    simp only [runSched, Option.bind_eq_some_iff] at hr
    obtain ⟨s1, hs1, hrest⟩ := hr
    exact ih (Reachable.step i h hs1) hrest

end AscentVerif.ParLat
