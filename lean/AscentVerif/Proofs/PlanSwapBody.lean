import AscentVerif.Proofs.PlanSwapPair
/-!
# Plan proofs, part 10: the swapped simple join is a permutation of the filter evaluation
-/
namespace AscentVerif.Plan
open AscentVerif AscentVerif.Engine AscentVerif.Hir

variable {E B G P A : Type}

theorem matchArgs_none (I : Interp E B G P A) (ρ₀ : Env) (as : List (Arg E)) (xs : Tuple) (acc : Env)
    (h : xs.length ≠ as.length) : matchArgs I ρ₀ as xs acc = none := by
  cases hb : matchArgs I ρ₀ as xs acc with
  | none => rfl
  | some ρ' => exact absurd (matchArgs_length I ρ₀ as xs acc ρ' hb) h

section
variable {V : VarsOf E B} {gk gk1 : List Var} {a1 : List (Arg E)} {c1 : List (Cond E B P)} {a2 : List (Arg E)}
  {c2 : List (Cond E B P)} {cols1 cols2 : List Nat} {pre2 preSw : List Var}

/-- the swapped copy on one pair of rows, in closed form -/
theorem planS_nf (I : Interp E B G P A) (ρ : Env) (row1 row2 : Tuple) (hl1 : row1.length = a1.length)
    (hl2 : row2.length = a2.length) :
    planPair I cols2 a2 c2 cols1 a1 c1 preSw ρ row2 row1 =
      if proj cols1 row1 == keyOf I ((kb a2 row2 cols2).reverse ++ ρ) a1 cols1 then
        (condBlock I c2 ((bl (fun j _ => cols2.contains j) 0 a2 row2).reverse ++ ((kb a2 row2 cols2).reverse ++ ρ))).bind
          fun C2 =>
            (condBlock I c1 ((bl (fun _ v => preSw.contains v) 0 a1 row1).reverse ++
              (C2 ++ ((bl (fun j _ => cols2.contains j) 0 a2 row2).reverse ++ ((kb a2 row2 cols2).reverse ++ ρ))))).map
              fun C1 => C1 ++ ((bl (fun _ v => preSw.contains v) 0 a1 row1).reverse ++
                (C2 ++ ((bl (fun j _ => cols2.contains j) 0 a2 row2).reverse ++ ((kb a2 row2 cols2).reverse ++ ρ))))
      else none := by
  unfold planPair
  rw [bindKey_closed, bindArgs_closed _ a2 row2 0 _ hl2]
  simp only [Option.bind_some, satConds_eq]
  congr 1
  cases condBlock I c2 ((bl (fun j _ => cols2.contains j) 0 a2 row2).reverse ++ ((kb a2 row2 cols2).reverse ++ ρ)) with
  | none => rfl
  | some C2 =>
    simp only [Option.map_some, Option.bind_some]
    rw [bindArgs_closed _ a1 row1 0 _ hl1]
    simp only [Option.bind_some]

/-- `evalBody` on one pair of rows, in closed form -/
theorem sem_nf (I : Interp E B G P A) (jc : JoinCtx gk gk1 a1 c1 a2 cols1 cols2 pre2) (ρ : Env) (hdom : DomEq ρ gk)
    (row1 row2 : Tuple) (hl1 : row1.length = a1.length) (hl2 : row2.length = a2.length) :
    semPair I ρ a1 c1 a2 c2 row1 row2 =
      (condBlock I c1 ((bl (fun _ v => gk.contains v) 0 a1 row1).reverse ++ ρ)).bind fun C1 =>
        if proj cols2 row2 == keyOf I (C1 ++ ((bl (fun _ v => gk.contains v) 0 a1 row1).reverse ++ ρ)) a2 cols2 then
          (condBlock I c2 ((bl (fun _ v => pre2.contains v) 0 a2 row2).reverse ++
            (C1 ++ ((bl (fun _ v => gk.contains v) 0 a1 row1).reverse ++ ρ)))).map
            fun C2 => C2 ++ ((bl (fun _ v => pre2.contains v) 0 a2 row2).reverse ++
              (C1 ++ ((bl (fun _ v => gk.contains v) 0 a1 row1).reverse ++ ρ)))
        else none := by
  unfold semPair
  rw [matchArgs_allNew I ρ gk hdom a1 jc.a1vars jc.nd1 row1, bindArgs_closed _ a1 row1 0 _ hl1]
  simp only [Option.bind_some, satConds_eq]
  cases hX : condBlock I c1 ((bl (fun _ v => gk.contains v) 0 a1 row1).reverse ++ ρ) with
  | none => rfl
  | some C1 =>
    simp only [Option.map_some, Option.bind_some]
    have hdom2 : DomEq (C1 ++ ((bl (fun _ v => gk.contains v) 0 a1 row1).reverse ++ ρ)) gk1 := by
      intro v
      rw [keys_append, keys_append, List.mem_append, List.mem_append, condBlock_keys I c1 _ C1 hX v, keys_reverse,
        keys_bl gk a1 row1 0 hl1, freshVars_allNew jc.a1vars, jc.hgk1 v, hdom v]
      constructor
      · rintro (h | h | h)
        · exact .inr (.inr h)
        · exact .inr (.inl h)
        · exact .inl h
      · rintro (h | h | h)
        · exact .inr (.inr h)
        · exact .inr (.inl h)
        · exact .inl h
    rw [← clause_row_eq I _ gk1 pre2 hdom2 jc.hpre2 a2 cols2 jc.hcols2 jc.nd2 row2]
    by_cases hc : (proj cols2 row2 ==
        keyOf I (C1 ++ ((bl (fun _ v => gk.contains v) 0 a1 row1).reverse ++ ρ)) a2 cols2) = true
    · rw [if_pos hc, if_pos hc, bindArgs_closed _ a2 row2 0 _ hl2]
      simp only [Option.bind_some]
    · rw [if_neg hc, if_neg hc]; rfl

/-- **the pair lemma, swapped order** -/
theorem pairS (I : Interp E B G P A) (hS : Supp I V) (sc : SwapCtx V gk gk1 a1 c1 a2 c2 cols1 cols2 pre2 preSw)
    (ρ : Env) (hdom : DomEq ρ gk) (row1 row2 : Tuple) :
    OptEnvEq (planPair I cols2 a2 c2 cols1 a1 c1 preSw ρ row2 row1) (semPair I ρ a1 c1 a2 c2 row1 row2) := by
  by_cases hl2 : row2.length = a2.length
  case neg =>
    have h1 : planPair I cols2 a2 c2 cols1 a1 c1 preSw ρ row2 row1 = none := by
      rw [planPair_inner, bindArgs_none _ a2 row2 0 _ hl2]; rfl
    have h2 : semPair I ρ a1 c1 a2 c2 row1 row2 = none := by
      unfold semPair
      cases matchArgs I ρ a1 row1 ρ with
      | none => rfl
      | some ρ₁ =>
        simp only [Option.bind_some]
        cases satConds I c1 ρ₁ with
        | none => rfl
        | some ρ₂ =>
          simp only [Option.bind_some]
          rw [matchArgs_none I ρ₂ a2 row2 ρ₂ hl2]; rfl
    rw [h1, h2]; trivial
  by_cases hl1 : row1.length = a1.length
  case neg =>
    have h2 : semPair I ρ a1 c1 a2 c2 row1 row2 = none := by
      unfold semPair
      rw [matchArgs_none I ρ a1 row1 ρ hl1]; rfl
    have h1 : planPair I cols2 a2 c2 cols1 a1 c1 preSw ρ row2 row1 = none := by
      unfold planPair
      split
      · cases bindArgs (fun j _ => cols2.contains j) 0 a2 row2 (bindKey a2 cols2 (proj cols2 row2) ρ) with
        | none => rfl
        | some ρ₁ =>
          simp only [Option.bind_some]
          cases satConds I c2 ρ₁ with
          | none => rfl
          | some ρ₂ =>
            simp only [Option.bind_some]
            rw [bindArgs_none _ a1 row1 0 _ hl1]; rfl
      · rfl
    rw [h1, h2]; trivial
  have bk := blocks_of sc ρ row1 row2 hl1 hl2
  rw [planS_nf I ρ row1 row2 hl1 hl2, sem_nf I sc.base ρ hdom row1 row2 hl1 hl2]
  by_cases hJ : RowsJoin a1 a2 row1 row2
  · -- the rows join
    rw [if_pos ((condS_iff I sc ρ row1 row2 hl1 hl2 bk).2 hJ)]
    cases hX1 : condBlock I c1 ((bl (fun _ v => gk.contains v) 0 a1 row1).reverse ++ ρ) with
    | none =>
      simp only [Option.bind_none]
      cases hX2 : condBlock I c2 ((bl (fun j _ => cols2.contains j) 0 a2 row2).reverse ++ ((kb a2 row2 cols2).reverse ++ ρ)) with
      | none => trivial
      | some C2 =>
        simp only [Option.bind_some]
        have hC2 := condBlock_keys I c2 _ C2 hX2
        rw [condBlock_congr I V hS c1 _ _ _ sc.s1 (agree_c1 sc ρ row1 row2 bk hJ C2 hC2), hX1]
        trivial
    | some C1 =>
      have hC1 := condBlock_keys I c1 _ C1 hX1
      simp only [Option.bind_some]
      rw [if_pos ((condN_iff I sc ρ row1 row2 hl1 hl2 bk C1 hC1).2 hJ),
        condBlock_congr I V hS c2 _ _ _ sc.s2 (agree_c2 sc ρ row1 row2 bk hJ C1 hC1)]
      cases hX2 : condBlock I c2 ((bl (fun j _ => cols2.contains j) 0 a2 row2).reverse ++ ((kb a2 row2 cols2).reverse ++ ρ)) with
      | none => trivial
      | some C2 =>
        have hC2 := condBlock_keys I c2 _ C2 hX2
        simp only [Option.bind_some, Option.map_some]
        rw [condBlock_congr I V hS c1 _ _ _ sc.s1 (agree_c1 sc ρ row1 row2 bk hJ C2 hC2), hX1]
        simp only [Option.map_some]
        exact final_envEq sc ρ row1 row2 bk hJ C1 C2 hC1 hC2
  · -- they do not: neither side yields an environment
    have hc : ¬ (proj cols1 row1 == keyOf I ((kb a2 row2 cols2).reverse ++ ρ) a1 cols1) = true :=
      fun h => hJ ((condS_iff I sc ρ row1 row2 hl1 hl2 bk).1 h)
    rw [if_neg hc]
    cases hX1 : condBlock I c1 ((bl (fun _ v => gk.contains v) 0 a1 row1).reverse ++ ρ) with
    | none => trivial
    | some C1 =>
      have hC1 := condBlock_keys I c1 _ C1 hX1
      simp only [Option.bind_some]
      rw [if_neg fun h => hJ ((condN_iff I sc ρ row1 row2 hl1 hl2 bk C1 hC1).1 h)]
      trivial

/-- **the simple-join step, swapped order** -/
theorem joinStep_semS (I : Interp E B G P A) (hS : Supp I V) (sc : SwapCtx V gk gk1 a1 c1 a2 c2 cols1 cols2 pre2 preSw)
    (gk2 : List Var) (hgk2 : ∀ v, v ∈ gk2 ↔ v ∈ gk1 ∨ v ∈ a2.filterMap argVar? ∨ v ∈ c2.flatMap Cond.boundVars)
    (rows1 : List Tuple) (bag1 : List Nat) (rows2 : List Tuple) (bag2 : List Nat) (ρ : Env) (hdom : DomEq ρ gk)
    (k k' : Env → List Env) (hk : ∀ ρp ρs, EnvEq ρp ρs → DomEq ρs gk2 → PermEq (k ρp) (k' ρs)) :
    PermEq (joinStep I rows2 bag2 cols2 a2 c2 rows1 bag1 cols1 a1 c1 preSw ρ k)
      (semClause I rows1 bag1 a1 c1 ρ fun ρ₂ => semClause I rows2 bag2 a2 c2 ρ₂ k') := by
  refine (PermEq.of_perm (joinStep_perm I rows2 bag2 cols2 a2 c2 rows1 bag1 cols1 a1 c1 preSw ρ k)).trans ?_
  refine (PermEq.of_perm (flatMap_comm_perm bag2 bag1 _)).trans ?_
  rw [semJoin_eq]
  apply PermEq.flatMap
  intro i1 _
  apply PermEq.flatMap
  intro i2 _
  have hp := pairS I hS sc ρ hdom (rowAt rows1 i1) (rowAt rows2 i2)
  cases hs : semPair I ρ a1 c1 a2 c2 (rowAt rows1 i1) (rowAt rows2 i2) with
  | none =>
    cases hq : planPair I cols2 a2 c2 cols1 a1 c1 preSw ρ (rowAt rows2 i2) (rowAt rows1 i1) with
    | none => exact PermEq.refl _
    | some a => rw [hs, hq] at hp; exact hp.elim
  | some b =>
    cases hq : planPair I cols2 a2 c2 cols1 a1 c1 preSw ρ (rowAt rows2 i2) (rowAt rows1 i1) with
    | none => rw [hs, hq] at hp; exact hp.elim
    | some a =>
      rw [hs, hq] at hp
      exact hk a b hp (semPair_dom I ρ hdom c2 gk2 sc.base.hgk1 hgk2 _ _ b hs)

end


/-! ## rules whose clause conditions are well scoped -/

/-- the conditions attached to a clause only mention variables in scope (grounded before the clause, arguments of the
clause, bound by an earlier condition of the clause), and bind no variable that is grounded before the clause.  The
front end guarantees more: `extend_grounded_vars` rejects a condition that binds ANY grounded variable ("variable being
shadowed"), and an expression mentioning a variable that is not in scope does not compile. -/
def clauseScoped (V : VarsOf E B) (g : List Var) (args : List (Arg E)) (conds : List (Cond E B P)) : Bool :=
  condsIn V (g ++ args.filterMap argVar?) conds && (conds.flatMap Cond.boundVars).all fun v => !g.contains v

def scopedFrom (V : VarsOf E B) : List Var → List (Item E B G P A) → Bool
  | _, [] => true
  | g, it :: rest =>
    (match it with
      | .clause _ args conds => clauseScoped V g args conds
      | _ => true) && scopedFrom V (g ++ itemBound it) rest

/-- every clause of the rule has well-scoped, non-rebinding conditions -/
def WellScoped (V : VarsOf E B) (r : Rule E B G P A) : Bool := scopedFrom V [] r.body

theorem scopedFrom_append (V : VarsOf E B) : ∀ (l₁ l₂ : List (Item E B G P A)) (g : List Var),
    scopedFrom V g (l₁ ++ l₂) = true → scopedFrom V (g ++ l₁.flatMap itemBound) l₂ = true
  | [], _, g, h => by simpa using h
  | it :: l₁, l₂, g, h => by
    simp only [List.cons_append, scopedFrom, Bool.and_eq_true] at h
    have := scopedFrom_append V l₁ l₂ _ h.2
    simpa [List.append_assoc] using this

/-- **reordering, whole bodies**: when the rule is `reorderable`, the plan evaluation with the two clauses of the
simple join swapped is a permutation of the filter evaluation, up to look-up equality of the environments -/
theorem planSwap_permEq (I : Interp E B G P A) (hI : Ext I) (cfg : Config) (p : Program E B G P A) (s : SccSt)
    (V : VarsOf E B) (hS : Supp I V) (r : Rule E B G P A) (hd : Desugared V r = true) (hw : WellScoped V r = true)
    (hr : reorderable (compileRule V r) = true) (vs : List (Option Ver)) :
    PermEq (evalBodyPlan I cfg p s (compileRule V r) true r.body vs []) (evalBody I cfg p s r.body vs []) := by
  unfold evalBodyPlan
  cases hsj : (compileRule V r).simpleJoinStart with
  | none => unfold reorderable at hr; rw [hsj] at hr; cases hr
  | some k =>
    obtain ⟨pre, r1, a1, c1, r2, a2, c2, rest, hk, jf⟩ := compile_join V r k hd hsj
    have js := join_setup V r hd pre r1 a1 c1 r2 a2 c2 rest jf
    -- the guard
    have hguard : ∀ v ∈ a2.filterMap argVar? ++ c2.flatMap Cond.boundVars, v ∉ (gdFold V ([], []) pre).1 := by
      unfold reorderable at hr
      rw [hsj] at hr
      simp only [Bool.not_eq_true', List.any_eq_false] at hr
      intro v hv hg
      have hb := js.bound2
      rw [hk] at hb
      rw [hb] at hr
      apply hr v hv
      have hpk := (js.preK v).2 hg
      unfold preVars at hpk
      rw [hk] at hpk
      exact List.contains_iff_mem.2 hpk
    -- scoping of the two clauses
    have hw' : scopedFrom V [] (pre ++ Item.clause r1 a1 c1 :: Item.clause r2 a2 c2 :: rest) = true := by
      rw [← jf.body]; exact hw
    have hsc := scopedFrom_append V pre _ [] hw'
    simp only [scopedFrom, clauseScoped, Bool.and_eq_true, List.nil_append] at hsc
    obtain ⟨⟨hs1, _⟩, ⟨_, hd2⟩, _⟩ := hsc
    have sc : SwapCtx V (gdFold V ([], []) pre).1
        (gdStep V (gdFold V ([], []) pre) (.clause r1 a1 c1 : Item E B G P A)).1 a1 c1 a2 c2
        (colsAt (compileRule V r) pre.length) (colsAt (compileRule V r) (pre.length + 1))
        (preVars (compileRule V r) (pre.length + 1))
        (preVars (compileRule V r) pre.length ++ (compileRule V r).bound.getD (pre.length + 1) []) := by
      refine ⟨js.ctx, fun v hv => hguard v (List.mem_append_left _ hv), fun v hv => hguard v (List.mem_append_right _ hv),
        ?_, ?_, js.conds2, js.nd2all, ?_⟩
      · intro v hv
        have := List.all_eq_true.1 hd2 v hv
        simp only [Bool.not_eq_true', itemBound] at this
        have hn : v ∉ pre.flatMap itemBound ++ (a1.filterMap argVar? ++ c1.flatMap Cond.boundVars) := fun hm => by
          rw [List.contains_iff_mem.2 hm] at this; cases this
        exact ⟨fun h => hn (List.mem_append_right _ (List.mem_append_left _ h)),
          fun h => hn (List.mem_append_right _ (List.mem_append_right _ h))⟩
      · rw [← hs1]
        apply condsIn_congr
        intro v
        simp only [List.mem_append, js.hgk v]
      · intro v
        rw [List.mem_append, js.preK v, js.bound2, List.mem_append]
    rw [jf.body]
    apply evalFrom_prefix I cfg p s V _ true _ pre 0 ([], []) vs [] jf.noClause gdOk_nil (by intro v; simp [keys])
    intro vs' ρ' hdom'
    rw [Nat.zero_add, evalFrom_join I cfg p s _ true pre.length r1 a1 c1 r2 a2 c2 rest vs' ρ' (by rw [hsj, hk]),
      evalBody_clause]
    simp only [if_true]
    have hcl : ∀ ρ₂, evalBody I cfg p s (Item.clause r2 a2 c2 :: rest) vs'.tail ρ₂ =
        semClause I (relSt s.rels r2).rows (clauseRows cfg p s r2 (vs'.tail.headD none)) a2 c2 ρ₂
          fun ρ'' => evalBody I cfg p s rest vs'.tail.tail ρ'' := fun ρ₂ => evalBody_clause ..
    simp only [hcl]
    apply joinStep_semS I hS sc _ js.hgk2 _ _ _ _ ρ' hdom'
    intro ρp ρs heq hdoms
    rw [evalFrom_eq_evalBody I cfg p s V _ true rest (pre.length + 2) _ vs'.tail.tail ρp js.gok2 js.desug
      (hdoms.of_envEq heq) js.agree (fun j hj => by rw [hsj]; intro h; cases h; omega)]
    exact PermEq.of_envsEq (evalBody_envEq I hI cfg p s rest _ heq)

end AscentVerif.Plan
