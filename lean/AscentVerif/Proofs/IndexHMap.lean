import AscentVerif.Model.Index
/-!
# Basic lemmas about association-list hash maps (`HMap.get?`, `HMap.upsert`) and folds of upserts
-/
namespace AscentVerif.Index

variable {K V W : Type} [DecidableEq K]

theorem HMap.get?_nil (k : K) : HMap.get? ([] : HMap K V) k = none := rfl

theorem HMap.get?_cons (a : K) (b : V) (m : HMap K V) (k : K) :
    HMap.get? ((a, b) :: m) k = if a = k then some b else HMap.get? m k := rfl

theorem HMap.upsert_nil (k : K) (f : Option V → V) : HMap.upsert ([] : HMap K V) k f = [(k, f none)] := rfl

theorem HMap.upsert_cons (a : K) (b : V) (m : HMap K V) (k : K) (f : Option V → V) :
    HMap.upsert ((a, b) :: m) k f = if a = k then (a, f (some b)) :: m else (a, b) :: HMap.upsert m k f := rfl

theorem HMap.get?_upsert (m : HMap K V) (k k' : K) (f : Option V → V) :
    HMap.get? (HMap.upsert m k f) k' = if k' = k then some (f (HMap.get? m k)) else HMap.get? m k' := by
  induction m with
  | nil =>
    simp only [HMap.upsert_nil, HMap.get?_cons, HMap.get?_nil]
    by_cases h : k = k' <;> simp [h, eq_comm]
  | cons hd tl ih =>
    obtain ⟨a, b⟩ := hd
    rw [HMap.upsert_cons]
    by_cases h : a = k
    · subst h
      simp only [if_true, HMap.get?_cons]
      by_cases h2 : a = k' <;> simp [h2, eq_comm]
      intro h3; exact absurd h3.symm h2
    · simp only [h, if_false, HMap.get?_cons, ih]
      by_cases h2 : a = k'
      · subst h2; simp [h]
      · simp [h2]

theorem HMap.get?_eq_none_iff (m : HMap K V) (k : K) : HMap.get? m k = none ↔ k ∉ HMap.keys m := by
  induction m with
  | nil => simp [HMap.get?_nil, HMap.keys]
  | cons hd tl ih =>
    obtain ⟨a, b⟩ := hd
    rw [HMap.get?_cons]
    by_cases h : a = k
    · simp [h, HMap.keys]
    · simp only [h, if_false, ih, HMap.keys, List.map_cons, List.mem_cons, not_or]
      constructor
      · intro h2; exact ⟨fun h3 => h h3.symm, h2⟩
      · intro h2; exact h2.2

theorem HMap.get?_isSome_iff (m : HMap K V) (k : K) : (HMap.get? m k).isSome = true ↔ k ∈ HMap.keys m := by
  have := HMap.get?_eq_none_iff m k
  cases h : HMap.get? m k with
  | none => simp [h] at this; simp [this]
  | some x => simp [h] at this; simp [this]

theorem HMap.upsert_of_get?_none (m : HMap K V) (k : K) (f : Option V → V) (h : HMap.get? m k = none) :
    HMap.upsert m k f = m ++ [(k, f none)] := by
  induction m with
  | nil => rfl
  | cons hd tl ih =>
    obtain ⟨a, b⟩ := hd
    rw [HMap.get?_cons] at h
    by_cases h2 : a = k
    · simp [h2] at h
    · simp only [h2, if_false] at h
      rw [HMap.upsert_cons]; simp [h2, ih h]

theorem HMap.keys_upsert (m : HMap K V) (k : K) (f : Option V → V) :
    HMap.keys (HMap.upsert m k f) = if k ∈ HMap.keys m then HMap.keys m else HMap.keys m ++ [k] := by
  induction m with
  | nil => simp [HMap.upsert_nil, HMap.keys]
  | cons hd tl ih =>
    obtain ⟨a, b⟩ := hd
    rw [HMap.upsert_cons]
    by_cases h : a = k
    · simp [h, HMap.keys]
    · have h' : ¬ k = a := fun h3 => h h3.symm
      simp only [HMap.keys] at ih
      simp only [h, if_false, HMap.keys, List.map_cons, List.mem_cons, h', false_or, ih]
      split <;> simp [*]

theorem HMap.mem_keys_upsert (m : HMap K V) (k k' : K) (f : Option V → V) :
    k' ∈ HMap.keys (HMap.upsert m k f) ↔ k' = k ∨ k' ∈ HMap.keys m := by
  rw [HMap.keys_upsert]
  split
  · constructor
    · intro h; exact Or.inr h
    · rintro (h | h)
      · subst h; assumption
      · exact h
  · simp [or_comm]

theorem HMap.nodup_keys_upsert (m : HMap K V) (k : K) (f : Option V → V) (h : (HMap.keys m).Nodup) :
    (HMap.keys (HMap.upsert m k f)).Nodup := by
  rw [HMap.keys_upsert]
  split
  · exact h
  · rename_i hk
    rw [List.nodup_append]
    refine ⟨h, by simp, ?_⟩
    intro a ha b hb
    simp at hb; subst hb
    intro hab; subst hab; exact hk ha

/-! ## folds of upserts (the drain loops of `move_index_contents`) -/

/-- the generic drain loop: every entry of `frm` is upserted into `to` with combiner `g` -/
def drainInto (g : W → Option V → V) (frm : HMap K W) (to : HMap K V) : HMap K V :=
  frm.foldl (fun acc kv => HMap.upsert acc kv.1 (g kv.2)) to

theorem drainInto_nil (g : W → Option V → V) (to : HMap K V) : drainInto g ([] : HMap K W) to = to := rfl

theorem drainInto_cons (g : W → Option V → V) (a : K) (w : W) (frm : HMap K W) (to : HMap K V) :
    drainInto g ((a, w) :: frm) to = drainInto g frm (HMap.upsert to a (g w)) := rfl

theorem nodup_keys_drainInto (g : W → Option V → V) (frm : HMap K W) (to : HMap K V) (h : (HMap.keys to).Nodup) :
    (HMap.keys (drainInto g frm to)).Nodup := by
  induction frm generalizing to with
  | nil => exact h
  | cons hd tl ih =>
    obtain ⟨a, w⟩ := hd
    rw [drainInto_cons]
    exact ih _ (HMap.nodup_keys_upsert _ _ _ h)

theorem get?_drainInto (g : W → Option V → V) (frm : HMap K W) (to : HMap K V) (h : (HMap.keys frm).Nodup) (k : K) :
    HMap.get? (drainInto g frm to) k =
      match HMap.get? frm k with
      | none => HMap.get? to k
      | some w => some (g w (HMap.get? to k)) := by
  induction frm generalizing to with
  | nil => rfl
  | cons hd tl ih =>
    obtain ⟨a, w⟩ := hd
    have hnd : a ∉ HMap.keys tl ∧ (HMap.keys tl).Nodup := by
      simpa [HMap.keys] using h
    rw [drainInto_cons, ih _ hnd.2, HMap.get?_cons]
    by_cases hak : a = k
    · subst hak
      have : HMap.get? tl a = none := (HMap.get?_eq_none_iff tl a).2 hnd.1
      simp [this, HMap.get?_upsert]
    · have hka : ¬ k = a := fun h3 => hak h3.symm
      simp [hak, HMap.get?_upsert, hka]

theorem mem_keys_drainInto (g : W → Option V → V) (frm : HMap K W) (to : HMap K V) (k : K) :
    k ∈ HMap.keys (drainInto g frm to) ↔ k ∈ HMap.keys to ∨ k ∈ HMap.keys frm := by
  induction frm generalizing to with
  | nil => simp [drainInto_nil, HMap.keys]
  | cons hd tl ih =>
    obtain ⟨a, w⟩ := hd
    rw [drainInto_cons, ih, HMap.mem_keys_upsert]
    simp only [HMap.keys, List.map_cons, List.mem_cons]
    constructor
    · rintro ((h | h) | h)
      · exact Or.inr (Or.inl h)
      · exact Or.inl h
      · exact Or.inr (Or.inr h)
    · rintro (h | h | h)
      · exact Or.inl (Or.inr h)
      · exact Or.inl (Or.inl h)
      · exact Or.inr h

/-! ## lists: `modifyNth`, `getD`, `shardOf` -/

theorem length_modifyNth {α : Type} (l : List α) (i : Nat) (f : α → α) : (modifyNth l i f).length = l.length := by
  induction l generalizing i with
  | nil => rfl
  | cons x xs ih =>
    cases i with
    | zero => rfl
    | succ i => simp [modifyNth, ih]

theorem getD_modifyNth {α : Type} (l : List α) (i j : Nat) (f : α → α) (d : α) :
    (modifyNth l i f).getD j d = if j = i ∧ i < l.length then f (l.getD i d) else l.getD j d := by
  induction l generalizing i j with
  | nil => simp [modifyNth]
  | cons x xs ih =>
    cases i with
    | zero =>
      cases j with
      | zero => simp [modifyNth]
      | succ j => simp [modifyNth]
    | succ i =>
      cases j with
      | zero => simp [modifyNth]
      | succ j =>
        have := ih i j
        simp only [List.getD_eq_getElem?_getD] at this
        simp [modifyNth, this]

theorem shardOf_lt (k : Int) (n : Nat) (h : 0 < n) : shardOf k n < n := by
  unfold shardOf
  have : n ≠ 0 := by omega
  simp only [this, if_false]
  exact Nat.mod_lt _ h

theorem getD_replicate_nil {α : Type} (n i : Nat) : (List.replicate n ([] : List α)).getD i [] = [] := by
  rw [List.getD_eq_getElem?_getD, List.getElem?_replicate]
  split <;> rfl

theorem getD_of_forall {α : Type} (P : α → Prop) (l : List α) (i : Nat) (d : α) (h : ∀ x ∈ l, P x) (hd : P d) :
    P (l.getD i d) := by
  rw [List.getD_eq_getElem?_getD]
  cases hh : l[i]? with
  | none => exact hd
  | some x => exact h x (List.mem_of_getElem? hh)

theorem getD_map_zip {α β γ : Type} (G : α × β → γ) (fs : List α) (ts : List β) (i : Nat) (dA : α) (dB : β) (dC : γ)
    (hlen : fs.length = ts.length) (hd : G (dA, dB) = dC) :
    ((fs.zip ts).map G).getD i dC = G (fs.getD i dA, ts.getD i dB) := by
  induction fs generalizing ts i with
  | nil =>
    cases ts with
    | nil => simp [hd]
    | cons t ts => simp at hlen
  | cons f fs ih =>
    cases ts with
    | nil => simp at hlen
    | cons t ts =>
      cases i with
      | zero => simp
      | succ i =>
        simp only [List.length_cons, Nat.add_right_cancel_iff] at hlen
        simpa using ih ts i hlen

end AscentVerif.Index
