import AscentVerif.Proofs.Head
/-!
# One pass over the rules of an SCC (`evalRules`) — step 3/4 of the C01 proof
-/
namespace AscentVerif.Engine
open AscentVerif

variable {E B G P A : Type}

/-- folding a step function that keeps an invariant, is monotone, and "completes" each element -/
theorem foldl_track {σ α : Type} (f : σ → α → σ) (Inv : σ → Prop) (R : σ → σ → Prop) (Done : α → σ → Prop)
    (r_refl : ∀ s, R s s) (r_trans : ∀ a b c, R a b → R b c → R a c)
    (done_mono : ∀ a s s', Done a s → R s s' → Done a s') :
    ∀ (l : List α), (∀ s a, a ∈ l → Inv s → Inv (f s a) ∧ R s (f s a) ∧ Done a (f s a)) →
      ∀ s, Inv s → Inv (l.foldl f s) ∧ R s (l.foldl f s) ∧ ∀ a ∈ l, Done a (l.foldl f s) := by
  intro l
  induction l with
  | nil => intro _ s hs; exact ⟨hs, r_refl s, fun a ha => by simp at ha⟩
  | cons a l ih =>
    intro step s hs
    obtain ⟨h1, h2, h3⟩ := step s a (by simp) hs
    obtain ⟨g1, g2, g3⟩ := ih (fun s b hb => step s b (List.mem_cons_of_mem _ hb)) (f s a) h1
    refine ⟨g1, r_trans _ _ _ h2 g2, ?_⟩
    intro b hb
    rcases List.mem_cons.mp hb with rfl | hb
    · exact done_mono _ _ _ h3 g2
    · exact g3 b hb

/-! ## views of a well-formed state -/

section View
variable (cfg : Config) (p : Program E B G P A) (hl : ∀ d ∈ p.rels, d.lat = false)

include hl in
theorem clauseRows_none {s : SccSt} {r : RelId} (v : Option Ver) (h : findDyn s.dyn r = none) :
    clauseRows cfg p s r v = (relSt s.rels r).idx := by
  simp only [clauseRows, h, readBag_id cfg p hl]

include hl in
theorem clauseRows_some {s : SccSt} {r : RelId} {d : Dyn} (v : Option Ver) (h : findDyn s.dyn r = some d) :
    clauseRows cfg p s r v =
      match v with
      | some .total => d.total
      | some .delta => d.delta
      | some .totalDelta => d.total ++ d.delta
      | none => d.total := by
  simp only [clauseRows, h, readBag_id cfg p hl]
  cases v with
  | none => rfl
  | some v => cases v <;> rfl

include hl in
theorem mem_clauseRows_some {s : SccSt} {r : RelId} {d : Dyn} {v : Option Ver} (h : findDyn s.dyn r = some d) {i : Nat}
    (hi : i ∈ clauseRows cfg p s r v) : i ∈ d.total ∨ i ∈ d.delta := by
  rw [clauseRows_some cfg p hl v h] at hi
  cases v with
  | none => exact .inl hi
  | some v =>
    cases v with
    | total => exact .inl hi
    | delta => exact .inr hi
    | totalDelta => exact List.mem_append.mp hi

include hl in
theorem view_sub_rows {n : Nat} {dynR : List RelId} {s : SccSt} (hwf : WF n dynR s) {r : RelId} {v : Option Ver} {t : Tuple}
    (h : viewOf cfg p s r v t) : t ∈ rowsOf s r := by
  obtain ⟨i, hi, rfl⟩ := h
  apply rowAt_mem
  cases hd : findDyn s.dyn r with
  | none =>
    rw [clauseRows_none cfg p hl v hd] at hi
    exact (hwf.cover_nd r hd i).mpr hi
  | some d =>
    rcases mem_clauseRows_some cfg p hl hd hi with h | h
    · exact (hwf.cover r d hd i).mpr (.inl h)
    · exact (hwf.cover r d hd i).mpr (.inr (.inl h))

include hl in
theorem view_mono {n : Nat} {dynR : List RelId} {s₀ s : SccSt} (hwf : WF n dynR s₀) (hext : Ext s₀ s)
    {r : RelId} {v : Option Ver} {t : Tuple} (h : viewOf cfg p s₀ r v t) : viewOf cfg p s r v t := by
  obtain ⟨i, hi, rfl⟩ := h
  cases hd : findDyn s₀.dyn r with
  | none =>
    obtain ⟨h1, h2⟩ := hext.nondyn r hd
    refine ⟨i, ?_, by rw [h2]⟩
    rw [clauseRows_none cfg p hl v h1, h2]
    rw [clauseRows_none cfg p hl v hd] at hi
    exact hi
  | some d₀ =>
    obtain ⟨d, h1, h2, h3⟩ := hext.td r d₀ hd
    refine ⟨i, ?_, ?_⟩
    · rw [clauseRows_some cfg p hl v h1, h2, h3]
      rw [clauseRows_some cfg p hl v hd] at hi
      exact hi
    · obtain ⟨ex, hex⟩ := hext.rows r
      have hlt : i < (rowsOf s₀ r).length := by
        rcases mem_clauseRows_some cfg p hl hd hi with h | h
        · exact (hwf.cover r d₀ hd i).mpr (.inl h)
        · exact (hwf.cover r d₀ hd i).mpr (.inr (.inl h))
      show rowAt (rowsOf s r) i = rowAt (rowsOf s₀ r) i
      rw [hex, rowAt_append_left _ _ _ hlt]

include hl in
/-- non-dynamic relations are read through their stored index whatever the version -/
theorem view_nd {n : Nat} {dynR : List RelId} {s : SccSt} (hwf : WF n dynR s) {r : RelId}
    (hr : dynR.contains r = false) (v v' : Option Ver) (t : Tuple) (h : viewOf cfg p s r v t) :
    viewOf cfg p s r v' t := by
  have hd : findDyn s.dyn r = none := by
    have := hwf.dyn_iff r
    rw [hr] at this
    cases h' : findDyn s.dyn r with
    | none => rfl
    | some d => rw [h'] at this; cases this
  obtain ⟨i, hi, rfl⟩ := h
  refine ⟨i, ?_, rfl⟩
  rw [clauseRows_none cfg p hl v' hd]
  rw [clauseRows_none cfg p hl v hd] at hi
  exact hi

include hl in
theorem view_split {n : Nat} {dynR : List RelId} {s : SccSt} (hwf : WF n dynR s) (r : RelId) (t : Tuple)
    (h : viewOf cfg p s r (some .totalDelta) t) :
    viewOf cfg p s r (some .total) t ∨ viewOf cfg p s r (some .delta) t := by
  cases hd : findDyn s.dyn r with
  | none =>
    have hr : dynR.contains r = false := by
      have := hwf.dyn_iff r
      rw [hd] at this; exact this.symm
    exact .inl (view_nd cfg p hl hwf hr _ _ t h)
  | some d =>
    obtain ⟨i, hi, rfl⟩ := h
    rw [clauseRows_some cfg p hl _ hd] at hi
    rcases List.mem_append.mp hi with h | h
    · exact .inl ⟨i, by rw [clauseRows_some cfg p hl _ hd]; exact h, rfl⟩
    · exact .inr ⟨i, by rw [clauseRows_some cfg p hl _ hd]; exact h, rfl⟩

end View

/-! ## the four nested folds of `evalRules` -/

section Pass
variable (I : Interp E B G P A) (cfg : Config) (p : Program E B G P A) (inp : RelId → List Tuple)
  (n : Nat) (dynR : List RelId) (hlt : ∀ r, dynR.contains r = true → r < n)
  (hl : ∀ d ∈ p.rels, d.lat = false)

include hlt hl in
theorem heads_step {s₀ : SccSt} (heads : List (HeadClause E)) (ρ : Env)
    (hder : ∀ h ∈ heads, Derivable I p.rules nAgg (inDB p inp) (headFact I h ρ))
    (hdyn : ∀ h ∈ heads, dynR.contains h.rel = true) (s : SccSt) (hpost : Post I p inp n dynR s₀ s) :
    Post I p inp n dynR s₀ (heads.foldl (fun s h => headUpdate I cfg p s h ρ) s) ∧
      Le s (heads.foldl (fun s h => headUpdate I cfg p s h ρ) s) ∧
      ∀ h ∈ heads, FactsS (heads.foldl (fun s h => headUpdate I cfg p s h ρ) s) (headFact I h ρ) := by
  refine foldl_track (fun s h => headUpdate I cfg p s h ρ) (Post I p inp n dynR s₀) Le
    (fun h s => FactsS s (headFact I h ρ)) Le.refl (fun _ _ _ => Le.trans)
    (fun h s s' hd hle => hle _ _ hd) heads ?_ s hpost
  intro s h hh hs
  have hupd : headUpdate I cfg p s h ρ = headRel s h.rel (h.args.map fun e => I.expr e ρ) := by
    simp [headUpdate, declOf_lat p hl]
  rw [hupd]
  obtain ⟨h1, h2, h3⟩ := headRel_step I p inp n dynR hlt hs h.rel (h.args.map fun e => I.expr e ρ) (hder h hh)
  exact ⟨h1, h2, h3 (hdyn h hh)⟩

include hlt hl in
theorem envs_step {s₀ : SccSt} (heads : List (HeadClause E)) (l : List Env)
    (hder : ∀ ρ ∈ l, ∀ h ∈ heads, Derivable I p.rules nAgg (inDB p inp) (headFact I h ρ))
    (hdyn : ∀ h ∈ heads, dynR.contains h.rel = true) (s : SccSt) (hpost : Post I p inp n dynR s₀ s) :
    Post I p inp n dynR s₀ (l.foldl (fun s ρ => heads.foldl (fun s h => headUpdate I cfg p s h ρ) s) s) ∧
      Le s (l.foldl (fun s ρ => heads.foldl (fun s h => headUpdate I cfg p s h ρ) s) s) ∧
      ∀ ρ ∈ l, ∀ h ∈ heads,
        FactsS (l.foldl (fun s ρ => heads.foldl (fun s h => headUpdate I cfg p s h ρ) s) s) (headFact I h ρ) := by
  refine foldl_track (fun s ρ => heads.foldl (fun s h => headUpdate I cfg p s h ρ) s) (Post I p inp n dynR s₀) Le
    (fun ρ s => ∀ h ∈ heads, FactsS s (headFact I h ρ)) Le.refl (fun _ _ _ => Le.trans)
    (fun ρ s s' hd hle h hh => hle _ _ (hd h hh)) l ?_ s hpost
  intro s ρ hρ hs
  exact heads_step I cfg p inp n dynR hlt hl heads ρ (hder ρ hρ) hdyn s hs

include hlt hl in
theorem evalVariant_step {s₀ : SccSt} (hwf0 : WF n dynR s₀) (rule : Rule E B G P A) (hrule : rule ∈ p.rules)
    (haf : rule.aggFree = true) (hdyn : ∀ h ∈ rule.heads, dynR.contains h.rel = true)
    (vs : List (Option Ver)) (s : SccSt) (hpost : Post I p inp n dynR s₀ s) :
    Post I p inp n dynR s₀ (evalVariant I cfg p s rule vs) ∧ Le s (evalVariant I cfg p s rule vs) ∧
      ∀ ρ, SatV I (viewOf cfg p s₀) rule.body vs [] ρ →
        ∀ h ∈ rule.heads, FactsS (evalVariant I cfg p s rule vs) (headFact I h ρ) := by
  have hder : ∀ ρ ∈ evalBody I cfg p s rule.body vs [], ∀ h ∈ rule.heads,
      Derivable I p.rules nAgg (inDB p inp) (headFact I h ρ) := by
    intro ρ hρ h hh
    have hsv := SatV_of_evalBody I cfg p s rule.body vs [] ρ haf hρ
    have hsat : Sat I (Derivable I p.rules nAgg (inDB p inp)) nAgg rule.body [] ρ := by
      refine SatV.toSat ?_ hsv
      intro r v t hv
      have hmem := view_sub_rows cfg p hl hpost.wf hv
      have hr : r < n := by
        have := lt_of_mem_rows s.rels r t hmem
        rw [hpost.wf.len] at this; exact this
      exact (hpost.good r hr).1 t hmem
    exact derivable_cons ⟨rule, hrule, ρ, hsat, h, hh, rfl⟩
  obtain ⟨h1, h2, h3⟩ := envs_step I cfg p inp n dynR hlt hl rule.heads (evalBody I cfg p s rule.body vs [])
    hder hdyn s hpost
  refine ⟨h1, h2, ?_⟩
  intro ρ hρ h hh
  have hρ' : SatV I (viewOf cfg p s) rule.body vs [] ρ :=
    SatV.mono (fun r v t hv => view_mono cfg p hl hwf0 hpost.ext hv) hρ
  exact h3 ρ (evalBody_of_SatV I cfg p s hρ') h hh

include hlt hl in
theorem evalRule_step {s₀ : SccSt} (hwf0 : WF n dynR s₀) (rule : Rule E B G P A) (hrule : rule ∈ p.rules)
    (haf : rule.aggFree = true) (hdyn : ∀ h ∈ rule.heads, dynR.contains h.rel = true)
    (vss : List (List (Option Ver))) (s : SccSt) (hpost : Post I p inp n dynR s₀ s) :
    Post I p inp n dynR s₀ (vss.foldl (fun s vs => evalVariant I cfg p s rule vs) s) ∧
      Le s (vss.foldl (fun s vs => evalVariant I cfg p s rule vs) s) ∧
      ∀ vs ∈ vss, ∀ ρ, SatV I (viewOf cfg p s₀) rule.body vs [] ρ →
        ∀ h ∈ rule.heads, FactsS (vss.foldl (fun s vs => evalVariant I cfg p s rule vs) s) (headFact I h ρ) := by
  refine foldl_track (fun s vs => evalVariant I cfg p s rule vs) (Post I p inp n dynR s₀) Le
    (fun vs s => ∀ ρ, SatV I (viewOf cfg p s₀) rule.body vs [] ρ → ∀ h ∈ rule.heads, FactsS s (headFact I h ρ))
    Le.refl (fun _ _ _ => Le.trans) (fun vs s s' hd hle ρ hρ h hh => hle _ _ (hd ρ hρ h hh)) vss ?_ s hpost
  intro s vs _ hs
  exact evalVariant_step I cfg p inp n dynR hlt hl hwf0 rule hrule haf hdyn vs s hs

include hlt hl in
/-- **one pass**: the invariants are kept and every variant instance over the view at the start of
the pass has all its head facts stored afterwards -/
theorem evalRules_spec {s₀ : SccSt} (hwf0 : WF n dynR s₀) (rules : List (Rule E B G P A))
    (hrules : ∀ rule ∈ rules, rule ∈ p.rules) (haf : ∀ rule ∈ rules, rule.aggFree = true)
    (hdyn : ∀ rule ∈ rules, ∀ h ∈ rule.heads, dynR.contains h.rel = true)
    (s : SccSt) (hpost : Post I p inp n dynR s₀ s) :
    Post I p inp n dynR s₀ (evalRules I cfg p dynR rules s) ∧ Le s (evalRules I cfg p dynR rules s) ∧
      ∀ rule ∈ rules, ∀ vs ∈ variants dynR rule, ∀ ρ, SatV I (viewOf cfg p s₀) rule.body vs [] ρ →
        ∀ h ∈ rule.heads, FactsS (evalRules I cfg p dynR rules s) (headFact I h ρ) := by
  unfold evalRules
  refine foldl_track (fun s r => (variants dynR r).foldl (fun s vs => evalVariant I cfg p s r vs) s)
    (Post I p inp n dynR s₀) Le
    (fun rule s => ∀ vs ∈ variants dynR rule, ∀ ρ, SatV I (viewOf cfg p s₀) rule.body vs [] ρ →
      ∀ h ∈ rule.heads, FactsS s (headFact I h ρ))
    Le.refl (fun _ _ _ => Le.trans) (fun rule s s' hd hle vs hvs ρ hρ h hh => hle _ _ (hd vs hvs ρ hρ h hh))
    rules ?_ s hpost
  intro s rule hr hs
  exact evalRule_step I cfg p inp n dynR hlt hl hwf0 rule (hrules rule hr) (haf rule hr) (hdyn rule hr)
    (variants dynR rule) s hs

end Pass

end AscentVerif.Engine
