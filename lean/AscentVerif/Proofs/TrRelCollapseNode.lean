import AscentVerif.Proofs.TrRelCollapseInv
/-!
# `add_node_new` on states with subsumptions

`add_node_new(x)` never panics under `Core` (the fuel of `get_dominant_id_mut` suffices and
`assert_disjoint_invariant` holds), keeps `Core` for the same history, and returns the dominant
set that contains `x`: either after path compression (`x` known) or a fresh singleton (`x` new).
-/
namespace AscentVerif.TrRel
open TrRel (getDominantIdAux getDominantIdMutAux)

theorem reach_from_unmentioned {ps : List (Int × Int)} {x y : Int} (h : ¬ Mentioned ps x) (r : Reach ps x y) : x = y := by
  induction r with
  | refl => rfl
  | tail _ hbc ih => subst ih; exact absurd ⟨_, hbc, Or.inl rfl⟩ h

theorem reach_to_unmentioned {ps : List (Int × Int)} {x y : Int} (h : ¬ Mentioned ps y) (r : Reach ps x y) : x = y := by
  cases r with
  | refl => rfl
  | tail _ hbc => exact absurd ⟨_, hbc, Or.inr rfl⟩ h

theorem isSome_alSet {κ β : Type} [DecidableEq κ] (m : List (κ × β)) (k : κ) (v : β) (k' : κ) :
    (alGet (alSet m k v) k').isSome = true ↔ ((alGet m k').isSome = true ∨ k' = k) := by
  rw [alGet_alSet]
  by_cases h : k = k'
  · subst h; simp
  · have : ¬ k' = k := fun e => h e.symm
    simp [h, this]

/-- path compression keeps the invariant -/
theorem Core.compress {t : TrRel} {ps : List (Int × Int)} (C : Core t ps) {subs' : List (Nat × Nat)}
    (hc : Compress t.subs subs') : Core { t with subs := subs' } ps := by
  have hdom : ∀ d, IsDom t d → IsDom { t with subs := subs' } d :=
    fun d h => ⟨h.1, (hc.none_iff d).mpr h.2⟩
  refine ⟨?_, ?_, ?_, ?_, C.disjoint, ?_, C.elem_of_mem, C.known, ?_, ?_, C.conn_iff, C.rconn_iff, C.same, C.scc,
    C.conn_keys, C.rconn_keys, C.conn_vals, C.rconn_vals, C.elem_keys, C.sets_nodup⟩
  · intro i
    obtain ⟨d, hd⟩ := C.forest i
    refine ⟨d, ?_⟩
    show getDominantIdAux subs' i (subs'.length + 1) = .ok d
    rw [hc.length_eq]; exact hc.walk _ _ _ hd
  · intro i p h
    have h : alGet subs' i = some p := h
    have hi : i < t.sets.length := by
      cases h0 : alGet t.subs i with
      | none => rw [(hc.none_iff i).mpr h0] at h; cases h
      | some p0 => exact (C.subs_lt i p0 h0).1
    refine ⟨hi, ?_⟩
    rcases hc.val i p h with h' | ⟨k, hk⟩
    · exact (C.subs_lt i p h').2
    · exact aux_lt (fun i p h => (C.subs_lt i p h).2) hi hk
  · intro i p x h
    have h : alGet subs' i = some p := h
    cases h0 : alGet t.subs i with
    | none => rw [(hc.none_iff i).mpr h0] at h; cases h
    | some p0 => exact C.dominated_empty i p0 x h0
  · rintro d ⟨hlt, hn⟩
    exact C.nonempty d ⟨hlt, (hc.none_iff d).mp hn⟩
  · intro x id h
    obtain ⟨d, ⟨k, hk⟩, hm⟩ := C.elem x id h
    exact ⟨d, ⟨k, hc.walk _ _ _ hk⟩, hm⟩
  · intro a b h
    obtain ⟨ha, hb⟩ := C.conn_dom a b h
    exact ⟨hdom a ha, hdom b hb⟩
  · intro a b h
    obtain ⟨ha, hb⟩ := C.rconn_dom a b h
    exact ⟨hdom a ha, hdom b hb⟩

/-- pointing an element straight at its dominant set keeps the invariant -/
theorem Core.set_elem {t : TrRel} {ps : List (Int × Int)} (C : Core t ps) {x : Int} {id dom : Nat}
    (hx : alGet t.elemIds x = some id) (hr : Rt t.subs id dom) :
    Core { t with elemIds := alSet t.elemIds x dom } ps := by
  refine ⟨C.forest, C.subs_lt, C.dominated_empty, C.nonempty, C.disjoint, ?_, ?_, ?_, C.conn_dom, C.rconn_dom, C.conn_iff,
    C.rconn_iff, C.same, C.scc, C.conn_keys, C.rconn_keys, C.conn_vals, C.rconn_vals, C.elem_keys.alSet _ _, C.sets_nodup⟩
  · intro z id' h
    have h : alGet (alSet t.elemIds x dom) z = some id' := h
    rw [alGet_alSet] at h
    by_cases hz : x = z
    · subst hz
      rw [if_pos rfl] at h; cases h
      obtain ⟨d, hr', hm⟩ := C.elem x id hx
      have := hr.unique hr'; subst this
      exact ⟨dom, rt_of_none hr.root_none, hm⟩
    · rw [if_neg hz] at h; exact C.elem z id' h
  · intro d z hm
    exact (isSome_alSet _ _ _ _).mpr (Or.inl (C.elem_of_mem d z hm))
  · intro z hm
    exact (isSome_alSet _ _ _ _).mpr (Or.inl (C.known z hm))

theorem mem_withNew (t : TrRel) (x : Int) (d : Nat) (z : Int) :
    Mem (withNew t x) d z ↔ Mem t d z ∨ (d = t.sets.length ∧ z = x) := by
  unfold Mem withNew
  simp only
  by_cases hlt : d < t.sets.length
  · rw [List.getElem?_append_left hlt]
    constructor
    · exact Or.inl
    · rintro (h | ⟨h, _⟩)
      · exact h
      · omega
  · have hge : t.sets.length ≤ d := by omega
    rw [List.getElem?_append_right hge, List.getElem?_eq_none (l := t.sets) (by omega)]
    by_cases he : d = t.sets.length
    · subst he; simp
    · have : d - t.sets.length ≠ 0 := by omega
      constructor
      · rintro ⟨s, hs, _⟩
        rw [List.getElem?_eq_none (by simp; omega)] at hs; cases hs
      · rintro (⟨s, hs, _⟩ | ⟨h, _⟩)
        · cases hs
        · exact absurd h he

/-- a fresh singleton set for an unknown element keeps the invariant -/
theorem Core.push_new {t : TrRel} {ps : List (Int × Int)} (C : Core t ps) {x : Int} (hx : alGet t.elemIds x = none) :
    Core (withNew t x) ps := by
  have hnm : ¬ Mentioned ps x := by
    intro h; have := C.known x h; simp [hx] at this
  have hnomem : ∀ d, ¬ Mem t d x := by
    intro d h; have := C.elem_of_mem d x h; simp [hx] at this
  have hlen : alGet t.subs t.sets.length = none := by
    cases h : alGet t.subs t.sets.length with
    | none => rfl
    | some p => have := (C.subs_lt _ _ h).1; omega
  have hmono : ∀ d z, Mem t d z → Mem (withNew t x) d z := fun d z h => (mem_withNew t x d z).mpr (Or.inl h)
  have hlen' : (withNew t x).sets.length = t.sets.length + 1 := by simp [withNew]
  have hdom : ∀ d, IsDom t d → IsDom (withNew t x) d := fun d h => ⟨by rw [hlen']; exact Nat.lt_succ_of_lt h.1, h.2⟩
  have hsem : ∀ a b, a ≠ b → (Sem (withNew t x) ps a b ↔ Sem t ps a b) := by
    intro a b hab
    constructor
    · rintro ⟨u, v, hu, hv, hr⟩
      rcases (mem_withNew t x a u).mp hu with hu' | ⟨rfl, rfl⟩
      · rcases (mem_withNew t x b v).mp hv with hv' | ⟨rfl, rfl⟩
        · exact ⟨u, v, hu', hv', hr⟩
        · have := reach_to_unmentioned hnm hr; subst this
          exact absurd hu' (hnomem a)
      · have := reach_from_unmentioned hnm hr; subst this
        rcases (mem_withNew t u b u).mp hv with hv' | ⟨rfl, _⟩
        · exact absurd hv' (hnomem b)
        · exact absurd rfl hab
    · rintro ⟨u, v, hu, hv, hr⟩
      exact ⟨u, v, hmono _ _ hu, hmono _ _ hv, hr⟩
  refine ⟨C.forest, ?_, ?_, ?_, ?_, ?_, ?_, ?_, ?_, ?_, ?_, ?_, ?_, ?_, C.conn_keys, C.rconn_keys, C.conn_vals, C.rconn_vals,
    C.elem_keys.alSet _ _, ?_⟩
  rotate_right
  · intro d s hs
    have hs : (t.sets ++ [[x]])[d]? = some s := hs
    by_cases hd : d < t.sets.length
    · rw [List.getElem?_append_left hd] at hs; exact C.sets_nodup d s hs
    · rw [List.getElem?_append_right (by omega)] at hs
      have : s = [x] := by
        cases hk : d - t.sets.length with
        | zero => rw [hk] at hs; simpa using hs.symm
        | succ k => rw [hk] at hs; simp at hs
      subst this; simp
  · intro i p h
    obtain ⟨h1, h2⟩ := C.subs_lt i p h
    rw [hlen']; exact ⟨by omega, by omega⟩
  · intro i p z h hm
    rcases (mem_withNew t x i z).mp hm with hm' | ⟨rfl, _⟩
    · exact C.dominated_empty i p z h hm'
    · have h : alGet t.subs t.sets.length = some p := h
      rw [hlen] at h; cases h
  · rintro d ⟨hlt, hn⟩
    by_cases hd : d < t.sets.length
    · obtain ⟨z, hz⟩ := C.nonempty d ⟨hd, hn⟩
      exact ⟨z, hmono _ _ hz⟩
    · rw [hlen'] at hlt
      exact ⟨x, (mem_withNew t x d x).mpr (Or.inr ⟨by omega, rfl⟩)⟩
  · intro d d' z h h'
    rcases (mem_withNew t x d z).mp h with h1 | ⟨rfl, rfl⟩
    · rcases (mem_withNew t x d' z).mp h' with h2 | ⟨rfl, rfl⟩
      · exact C.disjoint d d' z h1 h2
      · exact absurd h1 (hnomem d)
    · rcases (mem_withNew t z d' z).mp h' with h2 | ⟨rfl, _⟩
      · exact absurd h2 (hnomem d')
      · rfl
  · intro z id h
    have h : alGet (alSet t.elemIds x t.sets.length) z = some id := h
    rw [alGet_alSet] at h
    by_cases hz : x = z
    · subst hz
      rw [if_pos rfl] at h; cases h
      exact ⟨t.sets.length, rt_of_none hlen, (mem_withNew t x _ x).mpr (Or.inr ⟨rfl, rfl⟩)⟩
    · rw [if_neg hz] at h
      obtain ⟨d, hr, hm⟩ := C.elem z id h
      exact ⟨d, hr, hmono _ _ hm⟩
  · intro d z hm
    apply (isSome_alSet _ _ _ _).mpr
    rcases (mem_withNew t x d z).mp hm with hm' | ⟨_, rfl⟩
    · exact Or.inl (C.elem_of_mem d z hm')
    · exact Or.inr rfl
  · intro z hm
    exact (isSome_alSet _ _ _ _).mpr (Or.inl (C.known z hm))
  · intro a b h
    obtain ⟨ha, hb⟩ := C.conn_dom a b h
    exact ⟨hdom a ha, hdom b hb⟩
  · intro a b h
    obtain ⟨ha, hb⟩ := C.rconn_dom a b h
    exact ⟨hdom a ha, hdom b hb⟩
  · intro a b hab
    rw [hsem a b hab]; exact C.conn_iff a b hab
  · intro a b hab
    rw [hsem a b hab]; exact C.rconn_iff a b hab
  · intro d u v hu hv
    rcases (mem_withNew t x d u).mp hu with hu' | ⟨rfl, rfl⟩
    · rcases (mem_withNew t x d v).mp hv with hv' | ⟨rfl, rfl⟩
      · exact C.same d u v hu' hv'
      · exact absurd hu' (Mem.lt · |> Nat.lt_irrefl _)
    · rcases (mem_withNew t u _ v).mp hv with hv' | ⟨_, rfl⟩
      · exact absurd hv' (Mem.lt · |> Nat.lt_irrefl _)
      · exact .refl _
  · intro a b u v hu hv hr hr'
    rcases (mem_withNew t x a u).mp hu with hu' | ⟨rfl, rfl⟩
    · rcases (mem_withNew t x b v).mp hv with hv' | ⟨rfl, rfl⟩
      · exact C.scc a b u v hu' hv' hr hr'
      · have := reach_to_unmentioned hnm hr; subst this
        exact absurd hu' (hnomem a)
    · have := reach_from_unmentioned hnm hr; subst this
      rcases (mem_withNew t u b u).mp hv with hv' | ⟨rfl, _⟩
      · exact absurd hv' (hnomem b)
      · rfl

/-- everything `add` needs to know about one `add_node_new` -/
structure NodePost (t t' : TrRel) (x : Int) (id : Nat) (isNew : Bool) : Prop where
  mem : Mem t' id x
  conn_eq : t'.conn = t.conn
  rconn_eq : t'.rconn = t.rconn
  mono : ∀ d z, Mem t d z → Mem t' d z
  ids : ∀ z, (alGet t'.elemIds z).isSome = true ↔ ((alGet t.elemIds z).isSome = true ∨ z = x)
  new_iff : isNew = true ↔ alGet t.elemIds x = none
  fresh : isNew = true → id = t.sets.length
  len_le : t.sets.length ≤ t'.sets.length

/-- `add_node_new` never panics under the invariant, and keeps it -/
theorem addNodeNew_core {t : TrRel} {ps : List (Int × Int)} (C : Core t ps) (x : Int) :
    ∃ t' id isNew, t.addNodeNew x = .ok (t', id, isNew) ∧ Core t' ps ∧ NodePost t t' x id isNew := by
  unfold TrRel.addNodeNew TrRel.elemSetUpdate
  cases hx : alGet t.elemIds x with
  | none =>
    have C' := C.push_new hx
    have hd := C'.disjointInvariant
    simp only [withNew] at hd
    refine ⟨withNew t x, t.sets.length, true, by simp [withNew, hd], C', ?_⟩
    refine ⟨(mem_withNew t x _ x).mpr (Or.inr ⟨rfl, rfl⟩), rfl, rfl, fun d z h => (mem_withNew t x d z).mpr (Or.inl h), ?_,
      by simp [hx], fun _ => rfl, by simp [withNew]⟩
    intro z
    exact isSome_alSet _ _ _ _
  | some id =>
    obtain ⟨dom, hdom⟩ := C.forest id
    obtain ⟨subs', hmut, hcomp⟩ := mutAux_spec hdom
    have C1 := C.compress hcomp
    have hr1 : Rt subs' id dom := ⟨_, hcomp.walk _ _ _ hdom⟩
    have hmem : Mem t dom x := by
      obtain ⟨d, hr, hm⟩ := C.elem x id hx
      have := hr.unique ⟨_, hdom⟩; subst this; exact hm
    simp only [TrRel.getDominantIdMut, hmut, Res.bind_ok, Res.pure_eq]
    by_cases hne : id ≠ dom
    · have C2 := C1.set_elem (x := x) (id := id) (dom := dom) hx hr1
      have hd := C2.disjointInvariant
      simp only [if_pos hne]
      refine ⟨_, dom, false, by simp [hd], C2, ?_⟩
      refine ⟨hmem, rfl, rfl, fun d z h => h, ?_, by simp [hx], by simp, Nat.le_refl _⟩
      intro z
      show (alGet (alSet t.elemIds x dom) z).isSome = true ↔ _
      rw [isSome_alSet]
    · have hd := C1.disjointInvariant
      simp only [if_neg hne]
      refine ⟨_, dom, false, by simp [hd], C1, ?_⟩
      refine ⟨hmem, rfl, rfl, fun d z h => h, ?_, by simp [hx], by simp, Nat.le_refl _⟩
      intro z
      constructor
      · exact Or.inl
      · rintro (h | rfl)
        · exact h
        · show (alGet t.elemIds z).isSome = true
          simp [hx]

end AscentVerif.TrRel
