import AscentVerif.Model.EnginePhysLat
import AscentVerif.Proofs.PhysIdx
import AscentVerif.Proofs.LatBasics
/-!
# The physical indices of a lattice relation against the bag of row numbers of the engine model

`LOk kc rows bag cols x`: the index `x` of a lattice relation (the key index `.key`, iff `cols = kc`, or a set-valued index
`.rows`) files exactly the row numbers of `bag` under the projection of their rows on `cols`.  Established by
`update_indices` (`buildX`), kept by the head update (`XIx.insert`: the overwrite of the key index re-inserts the same row
number; the set insert is idempotent), by in-place joins of the value column (the projections only involve key columns) and
by the merge (`shiftX`); and what `XIx.get` / `XIx.all` / `XIx.size` return under it.
-/
namespace AscentVerif.PhysLat
open AscentVerif AscentVerif.Engine AscentVerif.Index AscentVerif.Phys

/-- row number `i` is filed under key `k` -/
def XHas : XIx → List Val → Nat → Prop
  | .vals _, _, _ => False
  | .rows m, k, i => i ∈ (HMap.get? m k).getD []
  | .key m, k, i => HMap.get? m k = some i

/-- shape of an index of a lattice: the key index exactly for the key columns; no duplicate keys; sets -/
def XWf (kc cols : List Nat) : XIx → Prop
  | .vals _ => False
  | .rows m => cols ≠ kc ∧ NoDupKeys m ∧ ∀ k s, HMap.get? m k = some s → s.Nodup
  | .key m => cols = kc ∧ NoDupKeys m

def LOk (kc : List Nat) (rows : List Tuple) (bag cols : List Nat) (x : XIx) : Prop :=
  XWf kc cols x ∧ ∀ k i, XHas x k i ↔ i ∈ bag ∧ Plan.proj cols (rowAt rows i) = k

theorem LOk_empty (kc : List Nat) (rows : List Tuple) (cols : List Nat) :
    LOk kc rows [] cols (XIx.empty true (cols == kc)) := by
  unfold XIx.empty
  by_cases h : cols = kc
  · subst h
    simp only [Bool.not_true, Bool.false_eq_true, if_false, beq_self_eq_true, if_true]
    refine ⟨⟨rfl, List.nodup_nil⟩, fun k i => ?_⟩
    simp [XHas, HMap.get?_nil]
  · have hb : (cols == kc) = false := by simpa using h
    simp only [Bool.not_true, Bool.false_eq_true, if_false, hb]
    refine ⟨⟨h, List.nodup_nil, fun k s hs => by simp [HMap.get?_nil] at hs⟩, fun k i => ?_⟩
    simp [XHas, HMap.get?_nil]

theorem LOk_emptyLike {kc : List Nat} {rows : List Tuple} {bag cols : List Nat} {x : XIx} (h : LOk kc rows bag cols x)
    (rows' : List Tuple) : LOk kc rows' [] cols (emptyLike x) := by
  obtain ⟨hw, _⟩ := h
  cases x with
  | vals m => exact absurd hw id
  | rows m =>
    refine ⟨⟨hw.1, List.nodup_nil, fun k s hs => by simp [HMap.get?_nil] at hs⟩, fun k i => ?_⟩
    simp [emptyLike, XHas, HMap.get?_nil]
  | key m =>
    refine ⟨⟨hw.1, List.nodup_nil⟩, fun k i => ?_⟩
    simp [emptyLike, XHas, HMap.get?_nil]

/-- only membership in the bag and the projections of its rows matter -/
theorem LOk_congr {kc : List Nat} {rows rows' : List Tuple} {bag bag' cols : List Nat} {x : XIx}
    (h : LOk kc rows bag cols x) (hb : ∀ i, i ∈ bag' ↔ i ∈ bag)
    (hr : ∀ i ∈ bag, Plan.proj cols (rowAt rows' i) = Plan.proj cols (rowAt rows i)) : LOk kc rows' bag' cols x := by
  refine ⟨h.1, fun k i => ?_⟩
  rw [h.2 k i, hb i]
  constructor
  · rintro ⟨hi, hk⟩; exact ⟨hi, by rw [hr i hi]; exact hk⟩
  · rintro ⟨hi, hk⟩; exact ⟨hi, by rw [← hr i hi]; exact hk⟩

/-- `index_insert` of row number `i` under the projection of `row` (= the projection of row `i`) -/
theorem LOk_insert {kc : List Nat} {rows : List Tuple} {bag bag' cols : List Nat} {x : XIx} (row : Tuple) (i : Nat)
    (h : LOk kc rows bag cols x) (hrow : Plan.proj cols (rowAt rows i) = Plan.proj cols row)
    (hb : ∀ j, j ∈ bag' ↔ j ∈ bag ∨ j = i)
    (hu : cols = kc → ∀ j ∈ bag, Plan.proj cols (rowAt rows j) = Plan.proj cols row → j = i) :
    LOk kc rows bag' cols (x.insert cols row i) := by
  obtain ⟨hw, hh⟩ := h
  cases x with
  | vals m => exact absurd hw id
  | rows m =>
    obtain ⟨hne, hnd, hs⟩ := hw
    refine ⟨⟨hne, HMap.nodup_keys_upsert _ _ _ hnd, ?_⟩, ?_⟩
    · intro k s hks
      rw [LatIdx.get_insert] at hks
      split at hks
      · cases hks
        apply setAdd_nodup
        cases hg : HMap.get? m (Plan.proj cols row) with
        | none => exact List.nodup_nil
        | some s' => exact hs _ _ hg
      · exact hs k s hks
    · intro k j
      show j ∈ (HMap.get? (LatIdx.insert m (Plan.proj cols row) i) k).getD [] ↔ _
      rw [LatIdx.get_insert, hb j]
      have hh' : ∀ k j, j ∈ (HMap.get? m k).getD [] ↔ j ∈ bag ∧ Plan.proj cols (rowAt rows j) = k := hh
      by_cases hk : k = Plan.proj cols row
      · subst hk
        simp only [if_true, Option.getD_some, mem_setAdd, hh']
        constructor
        · rintro (⟨h1, h2⟩ | h1)
          · exact ⟨.inl h1, h2⟩
          · subst h1; exact ⟨.inr rfl, hrow⟩
        · rintro ⟨h1 | h1, h2⟩
          · exact .inl ⟨h1, h2⟩
          · exact .inr h1
      · simp only [hk, if_false, hh']
        constructor
        · rintro ⟨h1, h2⟩; exact ⟨.inl h1, h2⟩
        · rintro ⟨h1 | h1, h2⟩
          · exact ⟨h1, h2⟩
          · subst h1; exact absurd (h2.symm.trans hrow) hk
  | key m =>
    obtain ⟨he, hnd⟩ := hw
    refine ⟨⟨he, HMap.nodup_keys_upsert _ _ _ hnd⟩, ?_⟩
    intro k j
    show HMap.get? (FullIdx.insert m (Plan.proj cols row) i) k = some j ↔ _
    rw [FullIdx.get_insert, hb j]
    have hh' : ∀ k j, HMap.get? m k = some j ↔ j ∈ bag ∧ Plan.proj cols (rowAt rows j) = k := hh
    by_cases hk : k = Plan.proj cols row
    · subst hk
      simp only [if_true, Option.some.injEq]
      constructor
      · intro h1; subst h1; exact ⟨.inr rfl, hrow⟩
      · rintro ⟨h1 | h1, h2⟩
        · exact (hu he j h1 h2).symm
        · exact h1.symm
    · simp only [hk, if_false, hh']
      constructor
      · rintro ⟨h1, h2⟩; exact ⟨.inl h1, h2⟩
      · rintro ⟨h1 | h1, h2⟩
        · exact ⟨h1, h2⟩
        · subst h1; exact absurd (h2.symm.trans hrow) hk

/-! ## the merge -/

theorem fullMerge_get {K V : Type} [DecidableEq K] (new delta total : FullIdx K V) (hd : NoDupKeys delta)
    (ht : NoDupKeys total) (hag : ∀ k v w, HMap.get? total k = some v → HMap.get? delta k = some w → v = w) (k : K) (v : V) :
    HMap.get? (FullIdx.mergeStep new delta total).2.2 k = some v ↔
      (HMap.get? total k = some v ∨ HMap.get? delta k = some v) := by
  have hd' : (HMap.keys delta).Nodup := hd
  have ht' : (HMap.keys total).Nodup := ht
  have hag' := hag k
  simp only [FullIdx.mergeStep, FullIdx.moveContents_eq]
  split
  · rw [get?_drainInto _ _ _ ht']
    cases h1 : HMap.get? total k with
    | none => simp
    | some a =>
      cases h2 : HMap.get? delta k with
      | none => simp
      | some b =>
        have := hag' a b h1 h2
        subst this
        simp
  · rw [get?_drainInto _ _ _ hd']
    cases h2 : HMap.get? delta k with
    | none => simp
    | some b =>
      cases h1 : HMap.get? total k with
      | none => simp
      | some a =>
        have := hag' a b h1 h2
        subst this
        simp

/-- `merge_delta_to_total_new_to_delta` on one index of a lattice -/
theorem LOk_shift {kc : List Nat} {rows : List Tuple} {bt bd bn cols : List Nat} {t : Tri XIx}
    (ht : LOk kc rows bt cols t.total) (hd : LOk kc rows bd cols t.delta) (hn : LOk kc rows bn cols t.new)
    (hu : cols = kc → ∀ i ∈ bt, ∀ j ∈ bd, Plan.proj cols (rowAt rows i) = Plan.proj cols (rowAt rows j) → i = j) :
    LOk kc rows (bt ++ bd) cols (shiftX t).total ∧ LOk kc rows bn cols (shiftX t).delta ∧
      LOk kc rows [] cols (shiftX t).new := by
  obtain ⟨tt, td, tn⟩ := t
  obtain ⟨wt, ht2⟩ := ht
  obtain ⟨wd, hd2⟩ := hd
  obtain ⟨wn, hn2⟩ := hn
  cases tt with
  | vals _ => exact absurd wt id
  | rows mt =>
    cases td with
    | vals _ => exact absurd wd id
    | key _ => exact absurd wd.1 wt.1
    | rows md =>
      cases tn with
      | vals _ => exact absurd wn id
      | key _ => exact absurd wn.1 wt.1
      | rows mn =>
        obtain ⟨s1, s2, s3, s4, s5⟩ := LatIdx.mergeStep_spec mn md mt wd.2.1 wt.2.1 wt.2.2
        refine ⟨⟨⟨wt.1, s3, s4⟩, ?_⟩, ?_, ?_⟩
        · intro k i
          show i ∈ (HMap.get? (LatIdx.mergeStep mn md mt).2.2 k).getD [] ↔ _
          have h1 : ∀ k i, i ∈ (HMap.get? mt k).getD [] ↔ i ∈ bt ∧ Plan.proj cols (rowAt rows i) = k := ht2
          have h2 : ∀ k i, i ∈ (HMap.get? md k).getD [] ↔ i ∈ bd ∧ Plan.proj cols (rowAt rows i) = k := hd2
          rw [s5 k i, h1, h2, List.mem_append]
          constructor
          · rintro (⟨a, b⟩ | ⟨a, b⟩)
            · exact ⟨.inl a, b⟩
            · exact ⟨.inr a, b⟩
          · rintro ⟨a | a, b⟩
            · exact .inl ⟨a, b⟩
            · exact .inr ⟨a, b⟩
        · show LOk kc rows bn cols (.rows (LatIdx.mergeStep mn md mt).2.1)
          rw [s2]; exact ⟨wn, hn2⟩
        · show LOk kc rows [] cols (.rows (LatIdx.mergeStep mn md mt).1)
          rw [s1]
          refine ⟨⟨wt.1, List.nodup_nil, fun k s hs => by simp [HMap.get?_nil] at hs⟩, fun k i => ?_⟩
          simp [XHas, HMap.get?_nil]
  | key mt =>
    cases td with
    | vals _ => exact absurd wd id
    | rows _ => exact absurd wt.1 wd.1
    | key md =>
      cases tn with
      | vals _ => exact absurd wn id
      | rows _ => exact absurd wt.1 wn.1
      | key mn =>
        have h1 : ∀ k i, HMap.get? mt k = some i ↔ i ∈ bt ∧ Plan.proj cols (rowAt rows i) = k := ht2
        have h2 : ∀ k i, HMap.get? md k = some i ↔ i ∈ bd ∧ Plan.proj cols (rowAt rows i) = k := hd2
        obtain ⟨s1, s2, s3, _, _⟩ := FullIdx.mergeStep_spec mn md mt wd.2 wt.2
        have hag : ∀ k v w, HMap.get? mt k = some v → HMap.get? md k = some w → v = w := by
          intro k v w hv hw
          obtain ⟨a1, a2⟩ := (h1 k v).mp hv
          obtain ⟨b1, b2⟩ := (h2 k w).mp hw
          exact hu wt.1 v a1 w b1 (a2.trans b2.symm)
        refine ⟨⟨⟨wt.1, s3⟩, ?_⟩, ?_, ?_⟩
        · intro k i
          show HMap.get? (FullIdx.mergeStep mn md mt).2.2 k = some i ↔ _
          rw [fullMerge_get mn md mt wd.2 wt.2 hag k i, h1, h2, List.mem_append]
          constructor
          · rintro (⟨a, b⟩ | ⟨a, b⟩)
            · exact ⟨.inl a, b⟩
            · exact ⟨.inr a, b⟩
          · rintro ⟨a | a, b⟩
            · exact .inl ⟨a, b⟩
            · exact .inr ⟨a, b⟩
        · show LOk kc rows bn cols (.key (FullIdx.mergeStep mn md mt).2.1)
          rw [s2]; exact ⟨wn, hn2⟩
        · show LOk kc rows [] cols (.key (FullIdx.mergeStep mn md mt).1)
          rw [s1]
          refine ⟨⟨wt.1, List.nodup_nil⟩, fun k i => ?_⟩
          simp [XHas, HMap.get?_nil]

/-! ## `update_indices` -/

theorem zip_range_rows (rows : List Tuple) :
    (List.range rows.length).zip rows = (List.range rows.length).map fun i => (i, rowAt rows i) := by
  apply List.ext_getElem
  · simp
  · intro i h1 h2
    have hi : i < rows.length := by simpa using h2
    simp [rowAt_eq_getElem rows i hi]

theorem LOk_foldl_insert {kc : List Nat} {rows : List Tuple} {cols : List Nat}
    (hu : cols = kc → ∀ i j, i < rows.length → j < rows.length →
      Plan.proj cols (rowAt rows i) = Plan.proj cols (rowAt rows j) → i = j) :
    ∀ (l : List (Nat × Tuple)) (bag : List Nat) (x : XIx), (∀ it ∈ l, it.1 < rows.length ∧ it.2 = rowAt rows it.1) →
      (∀ i ∈ bag, i < rows.length) → LOk kc rows bag cols x →
      LOk kc rows (bag ++ l.map (·.1)) cols (l.foldl (fun x ir => x.insert cols ir.2 ir.1) x)
  | [], bag, x, _, _, h => by simpa using h
  | it :: tl, bag, x, hl, hb, h => by
    obtain ⟨h1, h2⟩ := hl it (by simp)
    have hstep : LOk kc rows (bag ++ [it.1]) cols (x.insert cols it.2 it.1) := by
      apply LOk_insert it.2 it.1 h (by rw [h2]) (by intro j; simp)
      intro hc j hj hp
      exact hu hc j it.1 (hb j hj) h1 (by rw [hp, h2])
    have := LOk_foldl_insert hu tl (bag ++ [it.1]) _ (fun it' hit' => hl it' (List.mem_cons_of_mem _ hit'))
      (by
        intro i hi
        rcases List.mem_append.mp hi with hi | hi
        · exact hb i hi
        · simp only [List.mem_singleton] at hi; subst hi; exact h1) hstep
    simpa [List.append_assoc] using this

theorem LOk_build {E B G P A : Type} (p : Program E B G P A) (r : RelId) (hl : isLatRel p r = true) (cols : List Nat)
    (rows : List Tuple)
    (hu : cols = keyCols p r → ∀ i j, i < rows.length → j < rows.length →
      Plan.proj cols (rowAt rows i) = Plan.proj cols (rowAt rows j) → i = j) :
    LOk (keyCols p r) rows (List.range rows.length) cols (buildX p r cols rows) := by
  unfold buildX
  rw [zip_range_rows, hl]
  have := LOk_foldl_insert hu ((List.range rows.length).map fun i => (i, rowAt rows i)) [] _
    (by
      intro it hit
      obtain ⟨i, hi, rfl⟩ := List.mem_map.mp hit
      exact ⟨List.mem_range.mp hi, rfl⟩)
    (by intro i hi; cases hi) (LOk_empty (keyCols p r) rows cols)
  simpa [List.map_map, Function.comp_def] using this

/-! ## reading -/

theorem XIx_get_spec {kc : List Nat} {rows : List Tuple} {bag cols : List Nat} {x : XIx} (h : LOk kc rows bag cols x)
    (arity : Nat) (key : List Val) (t : Tuple) :
    t ∈ x.get rows arity cols key ↔ ∃ i ∈ bag, rowAt rows i = t ∧ Plan.proj cols t = key := by
  obtain ⟨hw, hh⟩ := h
  have hgen : (∃ i, XHas x key i ∧ rowAt rows i = t) ↔ ∃ i ∈ bag, rowAt rows i = t ∧ Plan.proj cols t = key := by
    constructor
    · rintro ⟨i, hi, rfl⟩
      obtain ⟨a, b⟩ := (hh key i).mp hi
      exact ⟨i, a, rfl, b⟩
    · rintro ⟨i, hi, rfl, hk⟩
      exact ⟨i, (hh key i).mpr ⟨hi, hk⟩, rfl⟩
  rw [← hgen]
  cases x with
  | vals m => exact absurd hw id
  | rows m =>
    simp only [XIx.get, List.mem_map, XHas]
  | key m =>
    simp only [XIx.get, List.mem_map, XHas, Option.mem_toList]

theorem XIx_all_spec {kc : List Nat} {rows : List Tuple} {bag cols : List Nat} {x : XIx} (h : LOk kc rows bag cols x)
    (arity : Nat) (k : List Val) (t : Tuple) :
    (∃ kr ∈ x.all rows arity cols, kr.1 = k ∧ t ∈ kr.2) ↔ ∃ i ∈ bag, rowAt rows i = t ∧ Plan.proj cols t = k := by
  obtain ⟨hw, hh⟩ := h
  have hgen : (∃ i, XHas x k i ∧ rowAt rows i = t) ↔ ∃ i ∈ bag, rowAt rows i = t ∧ Plan.proj cols t = k := by
    constructor
    · rintro ⟨i, hi, rfl⟩
      obtain ⟨a, b⟩ := (hh k i).mp hi
      exact ⟨i, a, rfl, b⟩
    · rintro ⟨i, hi, rfl, hk⟩
      exact ⟨i, (hh k i).mpr ⟨hi, hk⟩, rfl⟩
  rw [← hgen]
  cases x with
  | vals m => exact absurd hw id
  | rows m =>
    obtain ⟨_, hnd, _⟩ := hw
    simp only [XIx.all, List.mem_map, XHas]
    constructor
    · rintro ⟨kr, ⟨kv, hkv, rfl⟩, rfl, ht⟩
      obtain ⟨i, hi, rfl⟩ := List.mem_map.mp ht
      refine ⟨i, ?_, rfl⟩
      rw [get?_eq_some_of_mem m kv.1 kv.2 hnd hkv]
      exact hi
    · rintro ⟨i, hi, rfl⟩
      cases hg : HMap.get? m k with
      | none => rw [hg] at hi; cases hi
      | some s =>
        rw [hg] at hi
        exact ⟨_, ⟨(k, s), mem_of_get?_eq_some m k s hg, rfl⟩, rfl, List.mem_map.mpr ⟨i, hi, rfl⟩⟩
  | key m =>
    obtain ⟨_, hnd⟩ := hw
    simp only [XIx.all, List.mem_map, XHas]
    constructor
    · rintro ⟨kr, ⟨kv, hkv, rfl⟩, rfl, ht⟩
      simp only [List.mem_singleton] at ht
      exact ⟨kv.2, get?_eq_some_of_mem m kv.1 kv.2 hnd hkv, ht.symm⟩
    · rintro ⟨i, hi, rfl⟩
      exact ⟨_, ⟨(k, i), mem_of_get?_eq_some m k i hi, rfl⟩, rfl, List.mem_singleton.mpr rfl⟩

theorem XIx_size_spec {kc : List Nat} {rows : List Tuple} {bag cols : List Nat} {x : XIx} (h : LOk kc rows bag cols x)
    (hz : x.size = 0) : bag = [] := by
  obtain ⟨hw, hh⟩ := h
  cases bag with
  | nil => rfl
  | cons i b =>
    exfalso
    have := (hh _ i).mpr ⟨List.mem_cons_self, rfl⟩
    cases x with
    | vals m => exact hw
    | rows m =>
      have hm : m = [] := List.length_eq_zero_iff.mp hz
      subst hm
      simp [XHas, HMap.get?_nil] at this
    | key m =>
      have hm : m = [] := List.length_eq_zero_iff.mp hz
      subst hm
      simp [XHas, HMap.get?_nil] at this

end AscentVerif.PhysLat
