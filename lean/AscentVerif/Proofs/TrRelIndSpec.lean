import AscentVerif.Model.TrRelInd
/-!
# Specification of the binary trrel provider (definitions moved verbatim from `Props/C11Provider.lean`)
and set-level lemmas about `Reach`, `DeltaSpec`, `Spec.run`.
-/
namespace AscentVerif.TrRelInd

/-- non-empty chains of `R`-steps -/
inductive Reach (R : Int → Int → Prop) : Int → Int → Prop where
  | one {x y : Int} : R x y → Reach R x y
  | cons {x y z : Int} : R x y → Reach R y z → Reach R x z

/-- membership of a pair in a copy, as `contains_key` sees it -/
def Common.Has (c : Common) (x y : Int) : Prop := c.containsKey x y = true

/-! ## the specification -/

/-- the delta a merge must produce from `T = total ∪ delta` and the freshly inserted `N` (anti-reflexive reading) -/
def DeltaSpec (T N : Int → Int → Prop) (x y : Int) : Prop :=
  (N x y ∨ (x ≠ y ∧ Reach (fun a b => T a b ∨ N a b) x y)) ∧ ¬ T x y

structure Spec where
  N : Int → Int → Prop
  D : Int → Int → Prop
  T : Int → Int → Prop

def Spec.init : Spec := ⟨fun _ _ => False, fun _ _ => False, fun _ _ => False⟩

/-- what generated code does with the provider -/
inductive Op where
  | add (x y : Int)      -- head update: skipped if total or delta has the pair, else insert_if_not_present(new)
  | merge                -- merge_delta_to_total_new_to_delta

def Spec.step (a : Spec) : Op → Spec
  | .add x y => { a with N := fun p q => a.N p q ∨ (p = x ∧ q = y ∧ ¬ a.T x y ∧ ¬ a.D x y) }
  | .merge => { N := fun _ _ => False,
                T := fun p q => a.T p q ∨ a.D p q,
                D := DeltaSpec (fun p q => a.T p q ∨ a.D p q) a.N }

def Spec.run (a : Spec) : List Op → Spec
  | [] => a
  | o :: rest => Spec.run (a.step o) rest

/-! ## the model, driven the same way -/

structure St where
  nw : Common
  dl : Common
  tt : Common

/-- stratum entry of a fresh program value: three `Default`s, then `init` -/
def St.init : Res St :=
  match Common.init Common.default Common.default Common.default with
  | .ok (n, d, t) => .ok ⟨n, d, t⟩
  | .panic => .panic

def St.step (s : St) : Op → Res St
  | .add x y =>
    if s.tt.containsKey x y || s.dl.containsKey x y then .ok s
    else match s.nw.insertIfNotPresent x y with
      | .ok (n', _) => .ok { s with nw := n' }
      | .panic => .panic
  | .merge =>
    match Common.merge s.nw s.dl s.tt with
    | .ok (n, d, t) => .ok ⟨n, d, t⟩
    | .panic => .panic

def St.run (s : St) : List Op → Res St
  | [] => .ok s
  | o :: rest =>
    match s.step o with
    | .ok s' => St.run s' rest
    | .panic => .panic

/-- the three copies hold exactly the pairs of the specification -/
def Sim (s : St) (a : Spec) : Prop :=
  (∀ x y, s.nw.Has x y ↔ a.N x y) ∧ (∀ x y, s.dl.Has x y ↔ a.D x y) ∧ (∀ x y, s.tt.Has x y ↔ a.T x y)

/-! ## lemmas about `Reach` -/

theorem Reach.mono {R S : Int → Int → Prop} (h : ∀ a b, R a b → S a b) {x y : Int} (r : Reach R x y) : Reach S x y := by
  induction r with
  | one h1 => exact .one (h _ _ h1)
  | cons h1 _ ih => exact .cons (h _ _ h1) ih

theorem Reach.trans {R : Int → Int → Prop} {x y z : Int} (r1 : Reach R x y) (r2 : Reach R y z) : Reach R x z := by
  induction r1 with
  | one h1 => exact .cons h1 r2
  | cons h1 _ ih => exact .cons h1 (ih r2)

theorem Reach.snoc {R : Int → Int → Prop} {x y z : Int} (r1 : Reach R x y) (h : R y z) : Reach R x z :=
  r1.trans (.one h)

/-- chains of chains are chains -/
theorem Reach.flatten {R S : Int → Int → Prop} (h : ∀ a b, R a b → S a b ∨ Reach S a b) {x y : Int}
    (r : Reach R x y) : Reach S x y := by
  induction r with
  | one h1 =>
    rcases h _ _ h1 with h2 | h2
    · exact .one h2
    · exact h2
  | cons h1 _ ih =>
    rcases h _ _ h1 with h2 | h2
    · exact .cons h2 ih
    · exact h2.trans ih

private theorem Reach.snoc_aux {R : Int → Int → Prop} {P : Int → Int → Prop}
    (h2 : ∀ x y z, Reach R x y → P x y → R y z → P x z) {y z : Int} (r : Reach R y z) :
    ∀ x, Reach R x y → P x y → P x z := by
  induction r with
  | one h1 => intro x rx px; exact h2 _ _ _ rx px h1
  | cons h1 _ ih => intro x rx px; exact ih x (rx.snoc h1) (h2 _ _ _ rx px h1)

/-- induction from the right end of the chain -/
theorem Reach.snoc_induction {R : Int → Int → Prop} {P : Int → Int → Prop} (h1 : ∀ x y, R x y → P x y)
    (h2 : ∀ x y z, Reach R x y → P x y → R y z → P x z) {x y : Int} (r : Reach R x y) : P x y := by
  cases r with
  | one h => exact h1 _ _ h
  | cons h r' => exact Reach.snoc_aux h2 r' x (.one h) (h1 _ _ h)

/-! ## invariants of the specification -/

/-- what `Spec.run` maintains: `T ∪ D` is closed under composition when the end points differ; the three sets are disjoint -/
structure SpecInv (a : Spec) : Prop where
  closed : ∀ x y z, (a.T x y ∨ a.D x y) → (a.T y z ∨ a.D y z) → x ≠ z → (a.T x z ∨ a.D x z)
  disjDT : ∀ x y, a.D x y → ¬ a.T x y
  disjN : ∀ x y, a.N x y → ¬ a.T x y ∧ ¬ a.D x y

theorem SpecInv.init : SpecInv Spec.init :=
  ⟨fun _ _ _ h => (by cases h <;> contradiction), fun _ _ h => (by cases h), fun _ _ h => (by cases h)⟩

theorem deltaSpec_reach {T N : Int → Int → Prop} {x y : Int} (h : T x y ∨ DeltaSpec T N x y) :
    Reach (fun a b => T a b ∨ N a b) x y := by
  rcases h with h | ⟨h | h, _⟩
  · exact .one (Or.inl h)
  · exact .one (Or.inr h)
  · exact h.2

theorem SpecInv.step {a : Spec} (h : SpecInv a) (o : Op) : SpecInv (a.step o) := by
  cases o with
  | add x y =>
    refine ⟨h.closed, h.disjDT, ?_⟩
    intro p q hn
    rcases hn with hn | ⟨rfl, rfl, h1, h2⟩
    · exact h.disjN _ _ hn
    · exact ⟨h1, h2⟩
  | merge =>
    refine ⟨?_, ?_, ?_⟩
    · intro x y z h1 h2 hne
      have r : Reach (fun p q => (a.T p q ∨ a.D p q) ∨ a.N p q) x z := (deltaSpec_reach h1).trans (deltaSpec_reach h2)
      by_cases ht : a.T x z ∨ a.D x z
      · exact Or.inl ht
      · exact Or.inr ⟨Or.inr ⟨hne, r⟩, ht⟩
    · intro x y hd; exact hd.2
    · intro x y hn; cases hn

theorem SpecInv.run {a : Spec} (h : SpecInv a) (ops : List Op) : SpecInv (a.run ops) := by
  induction ops generalizing a with
  | nil => exact h
  | cons o rest ih => exact ih (h.step o)

/-! ## the specification against the pairs ever inserted -/

/-- the pair an operation inserts -/
def Op.ins : Op → Int → Int → Prop
  | .add x y, p, q => p = x ∧ q = y
  | .merge, _, _ => False

/-- `I` = pairs inserted so far: everything held is inserted or derived from inserted pairs, and every inserted pair is held -/
structure InsInv (a : Spec) (I : Int → Int → Prop) : Prop where
  sound : ∀ x y, (a.N x y ∨ a.D x y ∨ a.T x y) → (I x y ∨ (x ≠ y ∧ Reach I x y))
  compl : ∀ x y, I x y → (a.N x y ∨ a.D x y ∨ a.T x y)

theorem InsInv.init : InsInv Spec.init (fun _ _ => False) :=
  ⟨fun _ _ h => (by rcases h with h | h | h <;> cases h), fun _ _ h => (by cases h)⟩

theorem InsInv.reach {a : Spec} {I : Int → Int → Prop} (h : InsInv a I) {x y : Int}
    (r : Reach (fun p q => (a.T p q ∨ a.D p q) ∨ a.N p q) x y) : Reach I x y := by
  refine Reach.flatten ?_ r
  intro p q hpq
  have : a.N p q ∨ a.D p q ∨ a.T p q := by
    rcases hpq with (h1 | h1) | h1
    · exact Or.inr (Or.inr h1)
    · exact Or.inr (Or.inl h1)
    · exact Or.inl h1
  rcases h.sound _ _ this with h2 | h2
  · exact Or.inl h2
  · exact Or.inr h2.2

theorem InsInv.step {a : Spec} {I : Int → Int → Prop} (h : InsInv a I) (o : Op) :
    InsInv (a.step o) (fun p q => I p q ∨ o.ins p q) := by
  have lift : ∀ x y, (I x y ∨ (x ≠ y ∧ Reach I x y)) →
      ((I x y ∨ o.ins x y) ∨ (x ≠ y ∧ Reach (fun p q => I p q ∨ o.ins p q) x y)) := by
    intro x y hh
    rcases hh with hh | hh
    · exact Or.inl (Or.inl hh)
    · exact Or.inr ⟨hh.1, hh.2.mono (fun _ _ => Or.inl)⟩
  cases o with
  | add x y =>
    constructor
    · intro p q hh
      rcases hh with (hn | ⟨rfl, rfl, _⟩) | hh
      · exact lift _ _ (h.sound _ _ (Or.inl hn))
      · exact Or.inl (Or.inr ⟨rfl, rfl⟩)
      · exact lift _ _ (h.sound _ _ (Or.inr hh))
    · intro p q hh
      rcases hh with hh | ⟨rfl, rfl⟩
      · rcases h.compl _ _ hh with h1 | h1
        · exact Or.inl (Or.inl h1)
        · exact Or.inr h1
      · by_cases ht : a.T p q
        · exact Or.inr (Or.inr ht)
        · by_cases hd : a.D p q
          · exact Or.inr (Or.inl hd)
          · exact Or.inl (Or.inr ⟨rfl, rfl, ht, hd⟩)
  | merge =>
    constructor
    · intro p q hh
      apply lift
      rcases hh with hn | hd | ht
      · cases hn
      · rcases hd with ⟨hd | hd, _⟩
        · exact h.sound _ _ (Or.inl hd)
        · exact Or.inr ⟨hd.1, h.reach hd.2⟩
      · rcases ht with ht | ht
        · exact h.sound _ _ (Or.inr (Or.inr ht))
        · exact h.sound _ _ (Or.inr (Or.inl ht))
    · intro p q hh
      rcases hh with hh | hh
      · by_cases ht : a.T p q ∨ a.D p q
        · exact Or.inr (Or.inr ht)
        · rcases h.compl _ _ hh with h1 | h1 | h1
          · exact Or.inr (Or.inl ⟨Or.inl h1, ht⟩)
          · exact absurd (Or.inr h1) ht
          · exact absurd (Or.inl h1) ht
      · cases hh

/-- after a merge, `T ∪ D` is: inserted, or derived with distinct end points -/
theorem InsInv.after_merge {a : Spec} {I : Int → Int → Prop} (h : InsInv a I) (x y : Int) :
    (((a.step .merge).T x y ∨ (a.step .merge).D x y) ↔ (I x y ∨ (x ≠ y ∧ Reach I x y))) := by
  have h' := h.step .merge
  constructor
  · intro hh
    rcases h'.sound x y (by rcases hh with hh | hh; exact Or.inr (Or.inr hh); exact Or.inr (Or.inl hh)) with h1 | h1
    · rcases h1 with h1 | h1
      · exact Or.inl h1
      · cases h1
    · refine Or.inr ⟨h1.1, h1.2.mono ?_⟩
      intro p q hpq
      rcases hpq with hpq | hpq
      · exact hpq
      · cases hpq
  · intro hh
    by_cases ht : a.T x y ∨ a.D x y
    · exact Or.inl ht
    · right
      refine ⟨?_, ht⟩
      rcases hh with hh | hh
      · rcases h.compl _ _ hh with h1 | h1 | h1
        · exact Or.inl h1
        · exact absurd (Or.inr h1) ht
        · exact absurd (Or.inl h1) ht
      · refine Or.inr ⟨hh.1, hh.2.mono ?_⟩
        intro p q hpq
        rcases h.compl _ _ hpq with h1 | h1 | h1
        · exact Or.inr h1
        · exact Or.inl (Or.inr h1)
        · exact Or.inl (Or.inl h1)

theorem Spec.run_append (a : Spec) (l1 l2 : List Op) : a.run (l1 ++ l2) = (a.run l1).run l2 := by
  induction l1 generalizing a with
  | nil => rfl
  | cons o rest ih => exact ih _

end AscentVerif.TrRelInd
