import AscentVerif.Model.Plan
/-!
# Plan proofs, part 1: environments up to look-up equality, lists up to permutation, `idxGet` / `iterAll`

`EnvEq ρ ρ'`: the two environments give every variable the same value (the order in which distinct variables were
`let`-bound is not observable).  `EnvsEq` is `Forall₂ EnvEq`; `PermEq l l'` is "a permutation of `l` is pointwise
`EnvEq` to `l'`".  Core Lean only.
-/
namespace AscentVerif.Plan
open AscentVerif AscentVerif.Engine

variable {E B G P A : Type}

/-! ## environments -/

def EnvEq (ρ ρ' : Env) : Prop := ∀ v, ρ.get? v = ρ'.get? v

theorem EnvEq.refl (ρ : Env) : EnvEq ρ ρ := fun _ => rfl
theorem EnvEq.symm {ρ ρ' : Env} (h : EnvEq ρ ρ') : EnvEq ρ' ρ := fun v => (h v).symm
theorem EnvEq.trans {a b c : Env} (h : EnvEq a b) (h' : EnvEq b c) : EnvEq a c := fun v => (h v).trans (h' v)

@[simp] theorem get?_nil (v : Var) : Env.get? [] v = none := rfl
theorem get?_cons (w : Var) (x : Val) (ρ : Env) (v : Var) :
    Env.get? ((w, x) :: ρ) v = if w = v then some x else Env.get? ρ v := rfl

theorem get?_append (a b : Env) (v : Var) :
    Env.get? (a ++ b) v = match Env.get? a v with | some x => some x | none => Env.get? b v := by
  induction a with
  | nil => rfl
  | cons wx a ih =>
    obtain ⟨w, x⟩ := wx
    simp only [List.cons_append, get?_cons]
    by_cases h : w = v
    · simp [h]
    · simp [h, ih]

/-- the variables bound by a list of bindings -/
def keys (ρ : Env) : List Var := ρ.map (·.1)

theorem get?_eq_none_iff (ρ : Env) (v : Var) : Env.get? ρ v = none ↔ v ∉ keys ρ := by
  induction ρ with
  | nil => simp [keys]
  | cons wx ρ ih =>
    obtain ⟨w, x⟩ := wx
    simp only [get?_cons, keys, List.map_cons, List.mem_cons, not_or]
    by_cases h : w = v
    · simp [h]
    · simp only [h, if_false]
      rw [ih]; simp only [keys]
      constructor
      · intro h2; exact ⟨fun e => h e.symm, h2⟩
      · intro h2; exact h2.2

theorem get?_isSome_iff (ρ : Env) (v : Var) : (Env.get? ρ v).isSome ↔ v ∈ keys ρ := by
  cases hg : Env.get? ρ v with
  | none => simp [(get?_eq_none_iff ρ v).1 hg]
  | some x =>
    simp only [Option.isSome_some, true_iff]
    apply Classical.byContradiction; intro hn
    rw [(get?_eq_none_iff ρ v).2 hn] at hg; cases hg

theorem get?_mem {ρ : Env} {v : Var} {x : Val} (h : Env.get? ρ v = some x) : (v, x) ∈ ρ := by
  induction ρ with
  | nil => cases h
  | cons wx ρ ih =>
    obtain ⟨w, y⟩ := wx
    rw [get?_cons] at h
    by_cases hw : w = v
    · simp only [hw, if_true, Option.some.injEq] at h; subst h; subst hw; exact List.mem_cons_self
    · simp only [hw, if_false] at h; exact List.mem_cons_of_mem _ (ih h)

theorem get?_of_mem_nodup {ρ : Env} {v : Var} {x : Val} (hn : (keys ρ).Nodup) (h : (v, x) ∈ ρ) :
    Env.get? ρ v = some x := by
  induction ρ with
  | nil => cases h
  | cons wx ρ ih =>
    obtain ⟨w, y⟩ := wx
    simp only [keys, List.map_cons, List.nodup_cons] at hn
    rw [get?_cons]
    rcases List.mem_cons.1 h with he | hm
    · cases he; simp
    · have : w ≠ v := by
        intro e; subst e
        exact hn.1 (List.mem_map.2 ⟨(w, x), hm, rfl⟩)
      simp only [this, if_false]
      exact ih hn.2 hm

theorem EnvEq.append_left (a : Env) {b c : Env} (h : EnvEq b c) : EnvEq (a ++ b) (a ++ c) := by
  intro v; rw [get?_append, get?_append, h v]

theorem EnvEq.cons (w : Var) (x : Val) {b c : Env} (h : EnvEq b c) : EnvEq ((w, x) :: b) ((w, x) :: c) :=
  EnvEq.append_left [(w, x)] h

/-- two blocks of bindings with the same content (the second without duplicate names) are interchangeable -/
theorem EnvEq.of_subset {a z : Env} (ρ : Env) (hsub : ∀ p ∈ a, p ∈ z) (hkeys : ∀ v ∈ keys z, v ∈ keys a)
    (hn : (keys z).Nodup) : EnvEq (a ++ ρ) (z ++ ρ) := by
  intro v
  rw [get?_append, get?_append]
  cases ha : Env.get? a v with
  | some x => rw [get?_of_mem_nodup hn (hsub _ (get?_mem ha))]
  | none =>
    have hv : v ∉ keys z := fun hz => (get?_eq_none_iff a v).1 ha (hkeys v hz)
    rw [(get?_eq_none_iff z v).2 hv]

/-- blocks binding disjoint sets of names commute -/
theorem EnvEq.swap_blocks (a b ρ : Env) (hd : ∀ v ∈ keys a, v ∉ keys b) : EnvEq (a ++ (b ++ ρ)) (b ++ (a ++ ρ)) := by
  intro v
  simp only [get?_append]
  cases ha : Env.get? a v with
  | none => rfl
  | some x =>
    have : v ∈ keys a := (get?_isSome_iff a v).1 (by simp [ha])
    rw [(get?_eq_none_iff b v).2 (hd v this)]

/-! ## lists of environments -/

inductive EnvsEq : List Env → List Env → Prop where
  | nil : EnvsEq [] []
  | cons {a b : Env} {l l' : List Env} : EnvEq a b → EnvsEq l l' → EnvsEq (a :: l) (b :: l')

theorem EnvsEq.refl : ∀ l : List Env, EnvsEq l l
  | [] => .nil
  | a :: l => .cons (EnvEq.refl a) (EnvsEq.refl l)

theorem EnvsEq.symm {l l' : List Env} (h : EnvsEq l l') : EnvsEq l' l := by
  induction h with
  | nil => exact .nil
  | cons h _ ih => exact .cons h.symm ih

theorem EnvsEq.trans {a b c : List Env} (h : EnvsEq a b) (h' : EnvsEq b c) : EnvsEq a c := by
  induction h generalizing c with
  | nil => cases h'; exact .nil
  | cons h _ ih => cases h' with | cons h2 t2 => exact .cons (h.trans h2) (ih t2)

theorem EnvsEq.append {a b c d : List Env} (h : EnvsEq a b) (h' : EnvsEq c d) : EnvsEq (a ++ c) (b ++ d) := by
  induction h with
  | nil => exact h'
  | cons h _ ih => exact .cons h ih

theorem EnvsEq.flatMap {ι : Type} (l : List ι) {f g : ι → List Env} (h : ∀ i ∈ l, EnvsEq (f i) (g i)) :
    EnvsEq (l.flatMap f) (l.flatMap g) := by
  induction l with
  | nil => exact .nil
  | cons i l ih =>
    simp only [List.flatMap_cons]
    exact (h i List.mem_cons_self).append (ih fun j hj => h j (List.mem_cons_of_mem _ hj))

/-- `Forall₂` slides under a permutation -/
theorem EnvsEq.perm_comm {m l' : List Env} (h : EnvsEq m l') {l'' : List Env} (hp : l'.Perm l'') :
    ∃ m', m.Perm m' ∧ EnvsEq m' l'' := by
  induction hp generalizing m with
  | nil => cases h; exact ⟨[], .nil, .nil⟩
  | cons x _ ih =>
    cases h with
    | cons hab t =>
      obtain ⟨m', hp', he'⟩ := ih t
      exact ⟨_ :: m', hp'.cons _, .cons hab he'⟩
  | swap x y l =>
    cases h with
    | cons h1 t =>
      cases t with
      | cons h2 t2 => exact ⟨_ :: _ :: _, .swap _ _ _, .cons h2 (.cons h1 t2)⟩
  | trans _ _ ih1 ih2 =>
    obtain ⟨m1, hp1, he1⟩ := ih1 h
    obtain ⟨m2, hp2, he2⟩ := ih2 he1
    exact ⟨m2, hp1.trans hp2, he2⟩

/-- a permutation of `l` is pointwise look-up-equal to `l'` -/
def PermEq (l l' : List Env) : Prop := ∃ m, l.Perm m ∧ EnvsEq m l'

theorem PermEq.refl (l : List Env) : PermEq l l := ⟨l, .refl l, .refl l⟩
theorem PermEq.of_eq {l l' : List Env} (h : l = l') : PermEq l l' := h ▸ PermEq.refl l
theorem PermEq.of_perm {l l' : List Env} (h : l.Perm l') : PermEq l l' := ⟨l', h, .refl l'⟩
theorem PermEq.of_envsEq {l l' : List Env} (h : EnvsEq l l') : PermEq l l' := ⟨l, .refl l, h⟩

theorem PermEq.trans {a b c : List Env} (h : PermEq a b) (h' : PermEq b c) : PermEq a c := by
  obtain ⟨m, hp, he⟩ := h
  obtain ⟨m', hp', he'⟩ := h'
  obtain ⟨m'', hp'', he''⟩ := he.perm_comm hp'
  exact ⟨m'', hp.trans hp'', he''.trans he'⟩

theorem PermEq.symm {a b : List Env} (h : PermEq a b) : PermEq b a := by
  obtain ⟨m, hp, he⟩ := h
  obtain ⟨m', hp', he'⟩ := he.symm.perm_comm hp.symm
  exact ⟨m', hp', he'⟩

theorem PermEq.append {a b c d : List Env} (h : PermEq a b) (h' : PermEq c d) : PermEq (a ++ c) (b ++ d) := by
  obtain ⟨m, hp, he⟩ := h
  obtain ⟨m', hp', he'⟩ := h'
  exact ⟨m ++ m', hp.append hp', he.append he'⟩

theorem PermEq.flatMap {ι : Type} (l : List ι) {f g : ι → List Env} (h : ∀ i ∈ l, PermEq (f i) (g i)) :
    PermEq (l.flatMap f) (l.flatMap g) := by
  induction l with
  | nil => exact PermEq.refl _
  | cons i l ih =>
    simp only [List.flatMap_cons]
    exact (h i List.mem_cons_self).append (ih fun j hj => h j (List.mem_cons_of_mem _ hj))

theorem PermEq.length_eq {a b : List Env} (h : PermEq a b) : a.length = b.length := by
  obtain ⟨m, hp, he⟩ := h
  rw [hp.length_eq]
  clear hp
  induction he with
  | nil => rfl
  | cons _ _ ih => simp [ih]

/-! ## list lemmas -/

theorem flatMap_congr' {α β : Type} {l : List α} {f g : α → List β} (h : ∀ a ∈ l, f a = g a) :
    l.flatMap f = l.flatMap g := by
  induction l with
  | nil => rfl
  | cons a l ih =>
    simp only [List.flatMap_cons]
    rw [h a List.mem_cons_self, ih fun b hb => h b (List.mem_cons_of_mem _ hb)]

theorem filter_flatMap_eq {α β : Type} (l : List α) (p : α → Bool) (f : α → List β) :
    (l.filter p).flatMap f = l.flatMap fun a => if p a then f a else [] := by
  induction l with
  | nil => rfl
  | cons a l ih =>
    by_cases h : p a
    · simp [h, ih]
    · simp [h, ih]

theorem flatMap_nil_fun {α β : Type} (l : List α) : l.flatMap (fun _ => ([] : List β)) = [] := by
  induction l with
  | nil => rfl
  | cons a l ih => simp [ih]

theorem flatMap_append_perm {α β : Type} (l : List α) (f g : α → List β) :
    (l.flatMap fun a => f a ++ g a).Perm (l.flatMap f ++ l.flatMap g) := by
  induction l with
  | nil => exact .refl _
  | cons a l ih =>
    simp only [List.flatMap_cons]
    -- f a ++ g a ++ X  ~  f a ++ F ++ (g a ++ Gs)
    refine ((List.Perm.refl (f a ++ g a)).append ih).trans ?_
    simp only [List.append_assoc]
    refine List.Perm.append_left (f a) ?_
    rw [← List.append_assoc, ← List.append_assoc]
    exact List.Perm.append_right _ List.perm_append_comm

theorem flatMap_comm_perm {α β γ : Type} (l₁ : List α) (l₂ : List β) (f : α → β → List γ) :
    (l₁.flatMap fun a => l₂.flatMap fun b => f a b).Perm (l₂.flatMap fun b => l₁.flatMap fun a => f a b) := by
  induction l₁ with
  | nil => simp
  | cons a l₁ ih =>
    simp only [List.flatMap_cons]
    exact ((List.Perm.refl _).append ih).trans (flatMap_append_perm l₂ _ _).symm

theorem perm_flatMap_of_forall {α β : Type} (l : List α) {f g : α → List β} (h : ∀ a ∈ l, (f a).Perm (g a)) :
    (l.flatMap f).Perm (l.flatMap g) := by
  induction l with
  | nil => exact .refl _
  | cons a l ih =>
    simp only [List.flatMap_cons]
    exact (h a List.mem_cons_self).append (ih fun b hb => h b (List.mem_cons_of_mem _ hb))

/-! ## `idxGet`, `iterAll` -/

/-- `index_get` returns exactly the rows of the version whose projection is the key, each as often as the version
holds it, in the version's order -/
theorem idxGet_spec_aux (rows : List Tuple) (bag : List Nat) (cols : List Nat) (key : List Val) :
    idxGet rows bag cols key = bag.filter (fun i => proj cols (rowAt rows i) = key) ∧
    (∀ i, i ∈ idxGet rows bag cols key ↔ i ∈ bag ∧ proj cols (rowAt rows i) = key) ∧
    (∀ i, proj cols (rowAt rows i) = key → (idxGet rows bag cols key).count i = bag.count i) := by
  refine ⟨?_, ?_, ?_⟩
  · unfold idxGet; apply List.filter_congr; intro i _
    by_cases h : proj cols (rowAt rows i) = key <;> simp [h]
  · intro i; simp [idxGet]
  · intro i hi
    unfold idxGet
    rw [List.count_filter]
    simp [hi]

/-- grouping a list by a key function: the groups of the distinct keys, concatenated, are a permutation of the list -/
theorem group_perm {κ : Type} [BEq κ] [LawfulBEq κ] (f : Nat → κ) :
    ∀ (n : Nat) (bag : List Nat), bag.length ≤ n →
      (((bag.map f).eraseDups).flatMap fun k => bag.filter fun i => f i == k).Perm bag := by
  intro n
  induction n with
  | zero =>
    intro bag h
    have : bag = [] := List.eq_nil_of_length_eq_zero (Nat.le_zero.1 h)
    subst this; simp
  | succ n ih =>
    intro bag h
    cases bag with
    | nil => simp
    | cons i bag' =>
      let bagN := bag'.filter fun j => !(f j == f i)
      have hlen : bagN.length ≤ n := by
        have := List.length_filter_le (fun j => !(f j == f i)) bag'
        simp only [List.length_cons] at h
        exact Nat.le_trans this (Nat.le_of_succ_le_succ h)
      have hmap : (bag'.map f).filter (fun b => !(b == f i)) = bagN.map f := by
        simp only [bagN, List.filter_map]; rfl
      simp only [List.map_cons, List.eraseDups_cons, List.flatMap_cons, hmap]
      have hk : ∀ k ∈ (bagN.map f).eraseDups,
          ((i :: bag').filter fun j => f j == k) = bagN.filter fun j => f j == k := by
        intro k hk
        rw [List.mem_eraseDups, List.mem_map] at hk
        obtain ⟨j, hj, rfl⟩ := hk
        have hne : (f j == f i) = false := by
          have := (List.mem_filter.1 hj).2
          simpa using this
        have hne' : (f i == f j) = false := by
          rw [beq_eq_false_iff_ne] at hne ⊢; exact fun e => hne e.symm
        simp only [List.filter_cons, hne', bagN, List.filter_filter]
        simp only [Bool.false_eq_true, if_false]
        apply List.filter_congr
        intro x _
        by_cases hx : f x = f j
        · simp [hx, hne]
        · simp [hx]
      rw [flatMap_congr' hk]
      refine ((List.Perm.refl _).append (ih bagN hlen)).trans ?_
      have h1 : ((i :: bag').filter fun j => f j == f i) = i :: bag'.filter fun j => f j == f i := by
        simp
      rw [h1]
      simp only [List.cons_append]
      exact (List.filter_append_perm (fun j => f j == f i) bag').cons i

theorem eraseDups_nodup {κ : Type} [BEq κ] [LawfulBEq κ] : ∀ (n : Nat) (l : List κ), l.length ≤ n → l.eraseDups.Nodup := by
  intro n
  induction n with
  | zero =>
    intro l h
    have : l = [] := List.eq_nil_of_length_eq_zero (Nat.le_zero.1 h)
    subst this; simp
  | succ n ih =>
    intro l h
    cases l with
    | nil => simp
    | cons a l =>
      rw [List.eraseDups_cons, List.nodup_cons]
      refine ⟨?_, ih _ ?_⟩
      · rw [List.mem_eraseDups, List.mem_filter]; simp
      · have := List.length_filter_le (fun b => !(b == a)) l
        simp only [List.length_cons] at h
        exact Nat.le_trans this (Nat.le_of_succ_le_succ h)

/-- `iter_all`: the keys are distinct; every group is the `index_get` of its key and is not empty; every row of the
version appears exactly once (with its multiplicity in the version), under the key equal to its projection -/
theorem iterAll_spec_aux (rows : List Tuple) (bag : List Nat) (cols : List Nat) :
    ((iterAll rows bag cols).map (·.1)).Nodup ∧
    (∀ kr ∈ iterAll rows bag cols, kr.2 = idxGet rows bag cols kr.1 ∧ kr.2 ≠ [] ∧
      ∀ i ∈ kr.2, i ∈ bag ∧ proj cols (rowAt rows i) = kr.1) ∧
    ((iterAll rows bag cols).flatMap (·.2)).Perm bag ∧
    (∀ i ∈ bag, ∃ rs, (proj cols (rowAt rows i), rs) ∈ iterAll rows bag cols ∧ i ∈ rs) := by
  refine ⟨?_, ?_, ?_, ?_⟩
  · simp only [iterAll, List.map_map]
    have : ((fun x : List Val × List Nat => x.1) ∘ fun key => (key, idxGet rows bag cols key)) = id := rfl
    rw [this, List.map_id]
    exact eraseDups_nodup _ _ (Nat.le_refl _)
  · intro kr hkr
    simp only [iterAll, List.mem_map] at hkr
    obtain ⟨k, hk, rfl⟩ := hkr
    rw [List.mem_eraseDups, List.mem_map] at hk
    obtain ⟨i, hi, rfl⟩ := hk
    refine ⟨rfl, ?_, ?_⟩
    · intro he
      have : i ∈ idxGet rows bag cols (proj cols (rowAt rows i)) := by simp [idxGet, hi]
      simp only at he
      rw [he] at this; cases this
    · intro j hj
      simpa [idxGet] using hj
  · simp only [iterAll, List.flatMap_map, idxGet]
    exact group_perm (fun i => proj cols (rowAt rows i)) _ bag (Nat.le_refl _)

  · intro i hi
    refine ⟨idxGet rows bag cols (proj cols (rowAt rows i)), ?_, by simp [idxGet, hi]⟩
    simp only [iterAll, List.mem_map]
    exact ⟨_, by rw [List.mem_eraseDups]; exact List.mem_map.2 ⟨i, hi, rfl⟩, rfl⟩

/-- regrouping a loop over the version by `iter_all` -/
theorem iterAll_flatMap_perm {β : Type} (rows : List Tuple) (bag : List Nat) (cols : List Nat) (F : Nat → List β) :
    ((iterAll rows bag cols).flatMap fun kr => kr.2.flatMap F).Perm (bag.flatMap F) := by
  have h := (iterAll_spec_aux rows bag cols).2.2.1
  have := List.Perm.flatMap_right F h
  rwa [List.flatMap_assoc] at this

end AscentVerif.Plan
