import AscentVerif.Proofs.LatStep
/-!
# One pass over the rules of an SCC, with lattice relations (C03)

`PView s`: the *stable* part of the state — the rows a clause of a given version may use such that
the claim "this instance has been processed" survives later updates: rows of dynamic relations
that are not queued in `new` (for version `total`: in `total` and not in `delta`).  A later state
of the same pass has a smaller stable part, with the same row values (`PView_anti`), and the
stable part is included in what `evalBody` enumerates (`PView_sub_view`).
-/
namespace AscentVerif.Engine
open AscentVerif

variable {E B G P A : Type}

def verMem (d : Dyn) (v : Option Ver) (i : Nat) : Prop :=
  match v with
  | some .delta => i ∈ d.delta
  | some .totalDelta => i ∈ d.total ∨ i ∈ d.delta
  | _ => i ∈ d.total ∧ i ∉ d.delta

def PMem (s : SccSt) (r : RelId) (v : Option Ver) (i : Nat) : Prop :=
  match findDyn s.dyn r with
  | none => i ∈ (relSt s.rels r).idx
  | some d => i ∉ d.new ∧ verMem d v i

def PView (s : SccSt) (r : RelId) (v : Option Ver) (t : Tuple) : Prop :=
  ∃ i, rowAt (rowsOf s r) i = t ∧ PMem s r v i

theorem PMem_none {s : SccSt} {r : RelId} {v : Option Ver} {i : Nat} (h : findDyn s.dyn r = none) :
    PMem s r v i ↔ i ∈ (relSt s.rels r).idx := by
  unfold PMem; rw [h]

theorem PMem_some {s : SccSt} {r : RelId} {v : Option Ver} {i : Nat} {d : Dyn} (h : findDyn s.dyn r = some d) :
    PMem s r v i ↔ i ∉ d.new ∧ verMem d v i := by
  unfold PMem; rw [h]

theorem verMem_congr {d d' : Dyn} (ht : d'.total = d.total) (hdl : d'.delta = d.delta) (v : Option Ver) (i : Nat) :
    verMem d' v i ↔ verMem d v i := by
  unfold verMem
  rw [ht, hdl]

theorem verMem_td {d : Dyn} {v : Option Ver} {i : Nat} (h : verMem d v i) : i ∈ d.total ∨ i ∈ d.delta := by
  unfold verMem at h
  cases v with
  | none => exact .inl h.1
  | some v =>
    cases v with
    | total => exact .inl h.1
    | delta => exact .inr h
    | totalDelta => exact h

theorem mem_readBag (cfg : Config) (d : RelDecl) (bag : List Nat) (i : Nat) : i ∈ readBag cfg d bag ↔ i ∈ bag := by
  unfold readBag
  split
  · exact mem_eraseDups' i bag
  · rfl

section Views
variable (cfg : Config) (p : Program E B G P A)

theorem mem_clauseRows_none' {s : SccSt} {r : RelId} (v : Option Ver) (h : findDyn s.dyn r = none) (i : Nat) :
    i ∈ clauseRows cfg p s r v ↔ i ∈ (relSt s.rels r).idx := by
  simp only [clauseRows, h, mem_readBag]

theorem mem_clauseRows_some' {s : SccSt} {r : RelId} {d : Dyn} (v : Option Ver) (h : findDyn s.dyn r = some d) (i : Nat) :
    i ∈ clauseRows cfg p s r v ↔
      match v with
      | some .delta => i ∈ d.delta
      | some .totalDelta => i ∈ d.total ∨ i ∈ d.delta
      | _ => i ∈ d.total := by
  simp only [clauseRows, h]
  cases v with
  | none => simp only [mem_readBag]
  | some v => cases v <;> simp only [mem_readBag, List.mem_append]

theorem PView_sub_view {s : SccSt} {r : RelId} {v : Option Ver} {t : Tuple} (h : PView s r v t) :
    viewOf cfg p s r v t := by
  obtain ⟨i, hrow, hm⟩ := h
  refine ⟨i, ?_, hrow⟩
  cases hd : findDyn s.dyn r with
  | none => exact (mem_clauseRows_none' cfg p v hd i).mpr ((PMem_none hd).mp hm)
  | some d =>
    have hv := ((PMem_some hd).mp hm).2
    rw [mem_clauseRows_some' cfg p v hd i]
    unfold verMem at hv
    cases v with
    | none => exact hv.1
    | some v =>
      cases v with
      | total => exact hv.1
      | delta => exact hv
      | totalDelta => exact hv

theorem view_sub_rows' {n : Nat} {dynR : List RelId} {s : SccSt} (hwf : WF n dynR s) {r : RelId} {v : Option Ver}
    {t : Tuple} (h : viewOf cfg p s r v t) : t ∈ rowsOf s r := by
  obtain ⟨i, hi, rfl⟩ := h
  apply rowAt_mem
  cases hd : findDyn s.dyn r with
  | none =>
    exact (hwf.cover_nd r hd i).mpr ((mem_clauseRows_none' cfg p v hd i).mp hi)
  | some d =>
    have := (mem_clauseRows_some' cfg p v hd i).mp hi
    apply (hwf.cover r d hd i).mpr
    cases v with
    | none => exact .inl this
    | some v =>
      cases v with
      | total => exact .inl this
      | delta => exact .inr (.inl this)
      | totalDelta =>
        rcases this with h | h
        · exact .inl h
        · exact .inr (.inl h)

end Views

section Anti
variable {I : Interp E B G P A} {L : LatOrder I} {p : Program E B G P A}

/-- the stable part shrinks along a pass, and stable rows keep their values -/
theorem PView_anti {s s' : SccSt} (hext : LExt I L p s s') {r : RelId} {v : Option Ver} {t : Tuple}
    (h : PView s' r v t) : PView s r v t := by
  obtain ⟨i, hrow, hm⟩ := h
  cases hd : findDyn s.dyn r with
  | none =>
    obtain ⟨h1, h2⟩ := hext.nondyn r hd
    refine ⟨i, ?_, (PMem_none hd).mpr ?_⟩
    · rw [← hrow]; simp only [rowsOf, h2]
    · rw [← h2]; exact (PMem_none h1).mp hm
  | some d =>
    obtain ⟨d', hd', ht, hdl, hn, hc⟩ := hext.td r d hd
    obtain ⟨hnn, hv⟩ := (PMem_some hd').mp hm
    refine ⟨i, ?_, (PMem_some hd).mpr ⟨fun hi => hnn (hn i hi), (verMem_congr ht hdl v i).mp hv⟩⟩
    rw [← hrow]
    apply Classical.byContradiction
    intro hne
    exact hnn (hc i (fun h => hne h.symm))

end Anti

/-! ## the conditions of the semi-naive covering lemma -/

theorem PView_nd {n : Nat} {dynR : List RelId} {s : SccSt} (hwf : WF n dynR s) {r : RelId}
    (hr : dynR.contains r = false) (v v' : Option Ver) (t : Tuple) (h : PView s r v t) : PView s r v' t := by
  have hd : findDyn s.dyn r = none := by
    have := hwf.dyn_iff r
    rw [hr] at this
    cases h' : findDyn s.dyn r with
    | none => rfl
    | some d => rw [h'] at this; cases this
  obtain ⟨i, hrow, hm⟩ := h
  exact ⟨i, hrow, (PMem_none hd).mpr ((PMem_none hd).mp hm)⟩

theorem PView_split {s : SccSt} (r : RelId) (t : Tuple) (h : PView s r (some .totalDelta) t) :
    PView s r (some .total) t ∨ PView s r (some .delta) t := by
  obtain ⟨i, hrow, hm⟩ := h
  cases hd : findDyn s.dyn r with
  | none => exact .inl ⟨i, hrow, (PMem_none hd).mpr ((PMem_none hd).mp hm)⟩
  | some d =>
    obtain ⟨hnn, hv⟩ := (PMem_some hd).mp hm
    by_cases hdl : i ∈ d.delta
    · exact .inr ⟨i, hrow, (PMem_some hd).mpr ⟨hnn, hdl⟩⟩
    · refine .inl ⟨i, hrow, (PMem_some hd).mpr ⟨hnn, ?_, hdl⟩⟩
      rcases hv with h | h
      · exact h
      · exact absurd h hdl

/-! ## the four nested folds of `evalRules` -/

section Pass
variable {I : Interp E B G P A} {L : LatOrder I} {p : Program E B G P A} {inp : RelId → List Tuple}
  {dynR : List RelId}

theorem heads_step' (heads : List (HeadClause E)) (ρ : Env)
    (hbf : ∀ h ∈ heads, BelowF I L p inp (headFact I h ρ))
    (hdyn : ∀ h ∈ heads, dynR.contains h.rel = true) (s : SccSt) (hinv : LInv I L p inp dynR s) :
    LInv I L p inp dynR (heads.foldl (fun s h => headUpdate I {} p s h ρ) s) ∧
      LExt I L p s (heads.foldl (fun s h => headUpdate I {} p s h ρ) s) ∧
      ∀ h ∈ heads, Dominated I L p (FactsS (heads.foldl (fun s h => headUpdate I {} p s h ρ) s)) (headFact I h ρ) := by
  refine foldl_track (fun s h => headUpdate I {} p s h ρ) (LInv I L p inp dynR) (LExt I L p)
    (fun h s => Dominated I L p (FactsS s) (headFact I h ρ)) (LExt.refl I L p) (fun _ _ _ => LExt.trans)
    (fun h s s' hd hle => Dominated.mono hd hle.dble) heads ?_ s hinv
  intro s h hh hs
  exact headUpdate_step hs h ρ (hdyn h hh) (hbf h hh)

theorem envs_step' (heads : List (HeadClause E)) (l : List Env)
    (hbf : ∀ ρ ∈ l, ∀ h ∈ heads, BelowF I L p inp (headFact I h ρ))
    (hdyn : ∀ h ∈ heads, dynR.contains h.rel = true) (s : SccSt) (hinv : LInv I L p inp dynR s) :
    LInv I L p inp dynR (l.foldl (fun s ρ => heads.foldl (fun s h => headUpdate I {} p s h ρ) s) s) ∧
      LExt I L p s (l.foldl (fun s ρ => heads.foldl (fun s h => headUpdate I {} p s h ρ) s) s) ∧
      ∀ ρ ∈ l, ∀ h ∈ heads, Dominated I L p
        (FactsS (l.foldl (fun s ρ => heads.foldl (fun s h => headUpdate I {} p s h ρ) s) s)) (headFact I h ρ) := by
  refine foldl_track (fun s ρ => heads.foldl (fun s h => headUpdate I {} p s h ρ) s) (LInv I L p inp dynR) (LExt I L p)
    (fun ρ s => ∀ h ∈ heads, Dominated I L p (FactsS s) (headFact I h ρ)) (LExt.refl I L p) (fun _ _ _ => LExt.trans)
    (fun ρ s s' hd hle h hh => Dominated.mono (hd h hh) hle.dble) l ?_ s hinv
  intro s ρ hρ hs
  exact heads_step' heads ρ (hbf ρ hρ) hdyn s hs

/-- what a pass establishes for variant `vs` of `rule`: every instance over the stable part of the
state has its heads dominated -/
def DoneV (I : Interp E B G P A) (L : LatOrder I) (p : Program E B G P A) (rule : Rule E B G P A)
    (vs : List (Option Ver)) (s : SccSt) : Prop :=
  ∀ ρ, SatV I (PView s) rule.body vs [] ρ → ∀ h ∈ rule.heads, Dominated I L p (FactsS s) (headFact I h ρ)

theorem DoneV.mono {rule : Rule E B G P A} {vs : List (Option Ver)} {s s' : SccSt} (h : DoneV I L p rule vs s)
    (hext : LExt I L p s s') : DoneV I L p rule vs s' := by
  intro ρ hρ hd hhd
  exact Dominated.mono (h ρ (SatV.mono (fun r v t hv => PView_anti hext hv) hρ) hd hhd) hext.dble

theorem evalVariant_step' (rule : Rule E B G P A) (hrule : rule ∈ p.rules)
    (haf : rule.aggFree = true) (hdyn : ∀ h ∈ rule.heads, dynR.contains h.rel = true)
    (vs : List (Option Ver)) (s : SccSt) (hinv : LInv I L p inp dynR s) :
    LInv I L p inp dynR (evalVariant I {} p s rule vs) ∧ LExt I L p s (evalVariant I {} p s rule vs) ∧
      DoneV I L p rule vs (evalVariant I {} p s rule vs) := by
  have hbf : ∀ ρ ∈ evalBody I {} p s rule.body vs [], ∀ h ∈ rule.heads, BelowF I L p inp (headFact I h ρ) := by
    intro ρ hρ h hh M hM
    have hsv := SatV_of_evalBody I {} p s rule.body vs [] ρ haf hρ
    have hsat : Sat I (FactsS s) (fun _ => []) rule.body [] ρ :=
      SatV.toSat (fun r v t hv => view_sub_rows' {} p hinv.wf hv) hsv
    obtain ⟨ρ', hsat', hdom⟩ := hM.1 (FactsS s) M hinv.keyUnique hM.2.1 (hinv.below M hM) rule hrule ρ hsat
    exact Dominated.single (hdom h hh) (hM.2.2.2 rule hrule ρ' hsat' h hh)
  obtain ⟨h1, h2, h3⟩ := envs_step' rule.heads (evalBody I {} p s rule.body vs []) hbf hdyn s hinv
  refine ⟨h1, h2, ?_⟩
  intro ρ hρ h hh
  have hρ' : SatV I (viewOf {} p s) rule.body vs [] ρ :=
    SatV.mono (fun r v t hv => PView_sub_view {} p (PView_anti h2 hv)) hρ
  exact h3 ρ (evalBody_of_SatV I {} p s hρ') h hh

theorem evalRule_step' (rule : Rule E B G P A) (hrule : rule ∈ p.rules)
    (haf : rule.aggFree = true) (hdyn : ∀ h ∈ rule.heads, dynR.contains h.rel = true)
    (vss : List (List (Option Ver))) (s : SccSt) (hinv : LInv I L p inp dynR s) :
    LInv I L p inp dynR (vss.foldl (fun s vs => evalVariant I {} p s rule vs) s) ∧
      LExt I L p s (vss.foldl (fun s vs => evalVariant I {} p s rule vs) s) ∧
      ∀ vs ∈ vss, DoneV I L p rule vs (vss.foldl (fun s vs => evalVariant I {} p s rule vs) s) := by
  refine foldl_track (fun s vs => evalVariant I {} p s rule vs) (LInv I L p inp dynR) (LExt I L p)
    (fun vs s => DoneV I L p rule vs s) (LExt.refl I L p) (fun _ _ _ => LExt.trans)
    (fun vs s s' hd hle => hd.mono hle) vss ?_ s hinv
  intro s vs _ hs
  exact evalVariant_step' rule hrule haf hdyn vs s hs

/-- **one pass**: the invariants are kept and every variant instance over the stable part of the
final state has its heads dominated by the final state -/
theorem evalRules_spec' (rules : List (Rule E B G P A))
    (hrules : ∀ rule ∈ rules, rule ∈ p.rules) (haf : ∀ rule ∈ rules, rule.aggFree = true)
    (hdyn : ∀ rule ∈ rules, ∀ h ∈ rule.heads, dynR.contains h.rel = true)
    (s : SccSt) (hinv : LInv I L p inp dynR s) :
    LInv I L p inp dynR (evalRules I {} p dynR rules s) ∧ LExt I L p s (evalRules I {} p dynR rules s) ∧
      ∀ rule ∈ rules, ∀ vs ∈ variants dynR rule, DoneV I L p rule vs (evalRules I {} p dynR rules s) := by
  unfold evalRules
  refine foldl_track (fun s r => (variants dynR r).foldl (fun s vs => evalVariant I {} p s r vs) s)
    (LInv I L p inp dynR) (LExt I L p)
    (fun rule s => ∀ vs ∈ variants dynR rule, DoneV I L p rule vs s)
    (LExt.refl I L p) (fun _ _ _ => LExt.trans) (fun rule s s' hd hle vs hvs => (hd vs hvs).mono hle)
    rules ?_ s hinv
  intro s rule hr hs
  exact evalRule_step' rule (hrules rule hr) (haf rule hr) (hdyn rule hr) (variants dynR rule) s hs

end Pass

end AscentVerif.Engine
