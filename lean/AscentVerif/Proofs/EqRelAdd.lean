import AscentVerif.Proofs.EqRelForest
import AscentVerif.Spec.EqClosure
/-!
# `EqRel` (union_find.rs): the invariant and what each operation does to the denoted relation

`Root e x d`: element `x` is known and its set's dominant id is `d`.  `rel e x y`: same dominant id —
the equivalence the structure denotes.  `WF e`: the invariant (rank of the subsumption forest; dominant
ids and subsumed ids are set indices; `sets[d]` holds exactly the elements whose dominant id is `d`, so a
subsumed set is empty).  Main results: `add_spec` (`add x y` never panics, keeps `WF`, and denotes the
equivalence closure of the old relation plus the pair; its flag is `false` iff the pair was already
related), `combine_spec`, `contains_spec`, `iterAll_spec`, `setOf_spec`.
-/
namespace AscentVerif.EqRelM
open AscentVerif.TrRel (Res unwrap alGet alSet mergeSets setNth alGet_alSet)

def Root (e : EqRel) (x : Int) (d : Nat) : Prop := ∃ i, alGet e.elemIds x = some i ∧ Dom e.subs i d

/-- the relation an `EqRel` denotes -/
def rel (e : EqRel) (x y : Int) : Prop := ∃ d, Root e x d ∧ Root e y d

structure WF (e : EqRel) : Prop where
  ranked : ∃ r, Ranked e.subs r
  root_lt : ∀ x d, Root e x d → d < e.sets.length
  key_lt : ∀ i j, alGet e.subs i = some j → i < e.sets.length
  mem_iff : ∀ d s y, e.sets[d]? = some s → (y ∈ s ↔ Root e y d)

theorem Root.functional {e : EqRel} {x : Int} {d d' : Nat} (h : Root e x d) (h' : Root e x d') : d = d' := by
  obtain ⟨i, hi, hd⟩ := h
  obtain ⟨i', hi', hd'⟩ := h'
  rw [hi] at hi'; cases hi'
  exact hd.functional hd'

theorem Root.is_root {e : EqRel} {x : Int} {d : Nat} (h : Root e x d) : alGet e.subs d = none := by
  obtain ⟨_, _, hd⟩ := h
  exact hd.is_root

theorem rel_isPER (e : EqRel) : EqClosure.IsPER (rel e) := by
  constructor
  · rintro x y ⟨d, h1, h2⟩; exact ⟨d, h2, h1⟩
  · rintro x y z ⟨d, h1, h2⟩ ⟨d', h3, h4⟩
    have := h2.functional h3
    subst this
    exact ⟨d, h1, h4⟩

theorem wf_empty : WF {} := by
  refine ⟨⟨_, ranked_nil⟩, ?_, ?_, ?_⟩
  · rintro x d ⟨i, hi, _⟩; simp [alGet] at hi
  · intro i j h; simp [alGet] at h
  · intro d s y h; simp at h

theorem rel_empty (x y : Int) : ¬ rel {} x y := by
  rintro ⟨d, ⟨i, hi, _⟩, _⟩; simp [alGet] at hi

/-- an invariant phrased through `Dom` only survives any change of `set_subsumptions` that keeps dominant ids -/
theorem WF.congr {e e' : EqRel} (h : WF e) (hs : e'.sets = e.sets) (hi : e'.elemIds = e.elemIds)
    (hd : SameDom e.subs e'.subs) (hr : ∃ r, Ranked e'.subs r) : WF e' := by
  have hroot : ∀ x d, Root e' x d ↔ Root e x d := by
    intro x d
    constructor
    · rintro ⟨i, h1, h2⟩; exact ⟨i, hi ▸ h1, (hd.1 _ _).1 h2⟩
    · rintro ⟨i, h1, h2⟩; exact ⟨i, hi ▸ h1, (hd.1 _ _).2 h2⟩
  refine ⟨hr, ?_, ?_, ?_⟩
  · intro x d hx; rw [hs]; exact h.root_lt x d ((hroot x d).1 hx)
  · intro i j hij
    rw [hs]
    cases hq : alGet e.subs i with
    | none => rw [(hd.roots i).2 hq] at hij; cases hij
    | some j' => exact h.key_lt i j' hq
  · intro d s y hds
    rw [hs] at hds
    rw [hroot]
    exact h.mem_iff d s y hds

theorem root_congr {e e' : EqRel} (hi : e'.elemIds = e.elemIds) (hd : SameDom e.subs e'.subs) (x : Int) (d : Nat) :
    Root e' x d ↔ Root e x d := by
  constructor
  · rintro ⟨i, h1, h2⟩; exact ⟨i, hi ▸ h1, (hd.1 _ _).1 h2⟩
  · rintro ⟨i, h1, h2⟩; exact ⟨i, hi ▸ h1, (hd.1 _ _).2 h2⟩

/-! ## `elem_set`, `elem_set_update` -/

theorem elemSet_none {e : EqRel} {x : Int} (h : alGet e.elemIds x = none) : e.elemSet x = .ok none := by
  unfold EqRel.elemSet; rw [h]

theorem elemSet_some {e : EqRel} (hw : WF e) {x : Int} {d : Nat} (h : Root e x d) : e.elemSet x = .ok (some d) := by
  obtain ⟨i, hi, hd⟩ := h
  obtain ⟨r, hr⟩ := hw.ranked
  unfold EqRel.elemSet
  rw [hi]
  simp only
  rw [getDominantId_eq hr hd]

theorem root_total {e : EqRel} (hw : WF e) {x : Int} {i : Nat} (h : alGet e.elemIds x = some i) : ∃ d, Root e x d := by
  obtain ⟨r, hr⟩ := hw.ranked
  obtain ⟨d, _, hd⟩ := getDominantId_spec hr i
  exact ⟨d, i, h, hd⟩

/-- result of `elem_set_update`: same sets and elements, same dominant ids (only compressed), and the answer of `elem_set` -/
theorem elemSetUpdate_spec {e : EqRel} (hw : WF e) (x : Int) :
    ∃ e' od, e.elemSetUpdate x = .ok (e', od) ∧ WF e' ∧ e'.sets = e.sets ∧ e'.elemIds = e.elemIds ∧
      SameDom e.subs e'.subs ∧ (od = none → alGet e.elemIds x = none) ∧ (∀ d, od = some d → Root e x d) := by
  unfold EqRel.elemSetUpdate
  cases hx : alGet e.elemIds x with
  | none => exact ⟨e, none, rfl, hw, rfl, rfl, SameDom.refl _, fun _ => rfl, fun d h => (by cases h)⟩
  | some i =>
    obtain ⟨r, hr⟩ := hw.ranked
    obtain ⟨subs', d, he, hd, hs, hr'⟩ := getDomMutAux_spec hr (e.subs.length + 1) i (by omega)
    simp only [EqRel.getDominantIdUpdate, he]
    refine ⟨{ e with subs := subs' }, some d, rfl, hw.congr rfl rfl hs ⟨r, hr'⟩, rfl, rfl, hs, fun h => (by cases h), ?_⟩
    intro d' h
    cases h
    exact ⟨i, hx, hd⟩

/-! ## set primitives -/

theorem mem_hsInsert (s : List Int) (x y : Int) : y ∈ hsInsert s x ↔ y ∈ s ∨ y = x := by
  by_cases h : x ∈ s
  · have hc : s.contains x = true := by simpa using h
    simp only [hsInsert, hc, if_true]
    constructor
    · exact .inl
    · rintro (h' | rfl)
      · exact h'
      · exact h
  · simp [hsInsert, h]

theorem mem_foldl_insert (b a : List Int) (y : Int) :
    y ∈ b.foldl (fun acc x => if acc.contains x then acc else acc ++ [x]) a ↔ y ∈ a ∨ y ∈ b := by
  induction b generalizing a with
  | nil => simp
  | cons x t ih =>
    simp only [List.foldl_cons]
    rw [ih]
    by_cases h : x ∈ a
    · have hc : a.contains x = true := by simpa using h
      simp only [hc, if_true, List.mem_cons]
      constructor
      · rintro (h' | h')
        · exact .inl h'
        · exact .inr (.inr h')
      · rintro (h' | rfl | h')
        · exact .inl h'
        · exact .inl h
        · exact .inr h'
    · have hc : a.contains x = false := by simpa using h
      simp only [hc, Bool.false_eq_true, if_false, List.mem_append, List.mem_cons, List.not_mem_nil, or_false]
      constructor
      · rintro ((h' | rfl) | h')
        · exact .inl h'
        · exact .inr (.inl rfl)
        · exact .inr (.inr h')
      · rintro (h' | rfl | h')
        · exact .inl (.inl h')
        · exact .inl (.inr rfl)
        · exact .inr h'

theorem mem_mergeSets (s1 s2 : List Int) (y : Int) : y ∈ mergeSets s1 s2 ↔ y ∈ s1 ∨ y ∈ s2 := by
  unfold mergeSets
  by_cases h : s1.length < s2.length
  · simp only [if_pos h]
    rw [mem_foldl_insert]
    exact Or.comm
  · simp only [if_neg h]
    rw [mem_foldl_insert]

/-! ## the four cases of `add` as a re-rooting of a block of elements

`Moved R R' J t`: the elements of `J` now have root `t`, every other element keeps its root. -/

def Moved (R R' : Int → Nat → Prop) (J : Int → Prop) (t : Nat) : Prop :=
  ∀ a d, R' a d ↔ (R a d ∧ ¬ J a) ∨ (J a ∧ d = t)

/-- if a block `J` that is a union of classes (and possibly unknown elements) is re-rooted at `t`, and nobody outside
`J` had root `t`, the new relation is the old one plus all pairs over `J` -/
theorem rel_of_moved {R R' : Int → Nat → Prop} {J : Int → Prop} {t : Nat}
    (hm : Moved R R' J t)
    (hJ : ∀ a c d, J a → R a d → R c d → J c) (ht : ∀ a, R a t → J a) (a c : Int) :
    (∃ d, R' a d ∧ R' c d) ↔ (∃ d, R a d ∧ R c d) ∨ (J a ∧ J c) := by
  constructor
  · rintro ⟨d, ha, hc⟩
    rcases (hm a d).1 ha with ⟨ha, hna⟩ | ⟨hja, rfl⟩
    · rcases (hm c d).1 hc with ⟨hc, _⟩ | ⟨hjc, rfl⟩
      · exact .inl ⟨d, ha, hc⟩
      · exact absurd (ht a ha) hna
    · rcases (hm c d).1 hc with ⟨hc, hnc⟩ | ⟨hjc, _⟩
      · exact absurd (ht c hc) hnc
      · exact .inr ⟨hja, hjc⟩
  · rintro (⟨d, ha, hc⟩ | ⟨hja, hjc⟩)
    · by_cases hja : J a
      · have hjc := hJ a c d hja ha hc
        exact ⟨t, (hm a t).2 (.inr ⟨hja, rfl⟩), (hm c t).2 (.inr ⟨hjc, rfl⟩)⟩
      · have hjc : ¬ J c := fun h => hja (hJ c a d h hc ha)
        exact ⟨d, (hm a d).2 (.inl ⟨ha, hja⟩), (hm c d).2 (.inl ⟨hc, hjc⟩)⟩
    · exact ⟨t, (hm a t).2 (.inr ⟨hja, rfl⟩), (hm c t).2 (.inr ⟨hjc, rfl⟩)⟩

/-- the block that `add x y` merges: `x`, `y` and their classes -/
def Block (e : EqRel) (x y a : Int) : Prop := EqClosure.Cls (rel e) x a ∨ EqClosure.Cls (rel e) y a

theorem block_closed {e : EqRel} {x y a c : Int} {d : Nat} (h : Block e x y a) (ha : Root e a d) (hc : Root e c d) :
    Block e x y c := by
  have hac : rel e a c := ⟨d, ha, hc⟩
  rcases h with (rfl | h) | (rfl | h)
  · exact .inl (.inr hac)
  · exact .inl (.inr ((rel_isPER e).trans h hac))
  · exact .inr (.inr hac)
  · exact .inr (.inr ((rel_isPER e).trans h hac))

/-- what `add` must achieve, in terms of roots -/
structure AddOk (e e' : EqRel) (x y : Int) : Prop where
  wf : WF e'
  moved : ∃ t, Moved (Root e) (Root e') (Block e x y) t ∧ ∀ a, Root e a t → Block e x y a

theorem AddOk.rel_iff {e e' : EqRel} {x y : Int} (h : AddOk e e' x y) (a c : Int) :
    rel e' a c ↔ rel e a c ∨ (Block e x y a ∧ Block e x y c) := by
  obtain ⟨t, hm, ht⟩ := h.moved
  exact rel_of_moved hm (fun _ _ _ hj h1 h2 => block_closed hj h1 h2) ht a c

/-- … which is the equivalence closure of the old relation plus the pair -/
theorem AddOk.rel_closure {e e' : EqRel} {x y : Int} (h : AddOk e e' x y) (a c : Int) :
    rel e' a c ↔ EqClosure (fun p q => rel e p q ∨ (p = x ∧ q = y)) a c :=
  (h.rel_iff a c).trans (EqClosure.add_pair (rel_isPER e) x y).symm

/-! ## helpers about roots under the invariant -/

theorem root_set {e : EqRel} (hw : WF e) {a : Int} {d : Nat} (h : Root e a d) : ∃ s, e.sets[d]? = some s ∧ a ∈ s := by
  have hlt := hw.root_lt a d h
  refine ⟨e.sets[d], List.getElem?_eq_getElem hlt, ?_⟩
  exact (hw.mem_iff d _ a (List.getElem?_eq_getElem hlt)).2 h

theorem not_root_of_unknown {e : EqRel} {x : Int} (h : alGet e.elemIds x = none) (d : Nat) : ¬ Root e x d := by
  rintro ⟨i, hi, _⟩; rw [h] at hi; cases hi

theorem not_rel_of_unknown {e : EqRel} {x : Int} (h : alGet e.elemIds x = none) (a : Int) : ¬ rel e x a := by
  rintro ⟨d, hx, _⟩; exact not_root_of_unknown h d hx

theorem rel_iff_root {e : EqRel} {w : Int} {t : Nat} (hw : Root e w t) (a : Int) : rel e w a ↔ Root e a t := by
  constructor
  · rintro ⟨d, h1, h2⟩
    rw [hw.functional h1]; exact h2
  · intro h; exact ⟨t, hw, h⟩

theorem root_dom_self {e : EqRel} {w : Int} {t : Nat} (hw : Root e w t) {d : Nat} (h : Dom e.subs t d) : d = t :=
  Dom.of_root hw.is_root h

/-! ## case 1 of `add`: both elements unknown -/

theorem addCore_nn {e : EqRel} (hw : WF e) {x y : Int} (hx : alGet e.elemIds x = none) (hy : alGet e.elemIds y = none) :
    ∃ e', e.addCore x y none none = .ok (e', true) ∧ AddOk e e' x y ∧ ¬ rel e x y := by
  let n := e.sets.length
  let e' : EqRel := { e with sets := e.sets ++ [hsInsert [x] y], elemIds := alSet (alSet e.elemIds x n) y n }
  have hn : alGet e.subs n = none := by
    cases hq : alGet e.subs n with
    | none => rfl
    | some j => exact absurd (hw.key_lt n j hq) (Nat.lt_irrefl _)
  have hroot : ∀ a d, Root e' a d ↔ Root e a d ∨ ((a = x ∨ a = y) ∧ d = n) := by
    intro a d
    constructor
    · rintro ⟨i, hi, hd⟩
      have hi' : (if y = a then some n else if x = a then some n else alGet e.elemIds a) = some i := by
        rw [← hi]; show _ = alGet (alSet (alSet e.elemIds x n) y n) a
        rw [alGet_alSet, alGet_alSet]
      by_cases hya : y = a
      · rw [if_pos hya] at hi'
        cases hi'
        exact .inr ⟨.inr hya.symm, Dom.of_root hn hd⟩
      · rw [if_neg hya] at hi'
        by_cases hxa : x = a
        · rw [if_pos hxa] at hi'
          cases hi'
          exact .inr ⟨.inl hxa.symm, Dom.of_root hn hd⟩
        · rw [if_neg hxa] at hi'
          exact .inl ⟨i, hi', hd⟩
    · rintro (⟨i, hi, hd⟩ | ⟨ha, rfl⟩)
      · have hxa : x ≠ a := by intro h; subst h; rw [hx] at hi; cases hi
        have hya : y ≠ a := by intro h; subst h; rw [hy] at hi; cases hi
        refine ⟨i, ?_, hd⟩
        show alGet (alSet (alSet e.elemIds x n) y n) a = some i
        rw [alGet_alSet, alGet_alSet, if_neg hya, if_neg hxa]; exact hi
      · refine ⟨n, ?_, .root hn⟩
        show alGet (alSet (alSet e.elemIds x n) y n) a = some n
        rw [alGet_alSet, alGet_alSet]
        rcases ha with rfl | rfl
        · by_cases h : y = a
          · rw [if_pos h]
          · rw [if_neg h, if_pos rfl]
        · rw [if_pos rfl]
  have hblock : ∀ a, Block e x y a ↔ (a = x ∨ a = y) := by
    intro a
    constructor
    · rintro ((h | h) | (h | h))
      · exact .inl h
      · exact absurd h (not_rel_of_unknown hx a)
      · exact .inr h
      · exact absurd h (not_rel_of_unknown hy a)
    · rintro (h | h)
      · exact .inl (.inl h)
      · exact .inr (.inl h)
  refine ⟨e', rfl, ⟨?_, n, ?_, ?_⟩, not_rel_of_unknown hx y⟩
  · refine ⟨hw.ranked, ?_, ?_, ?_⟩
    · intro a d h
      show d < (e.sets ++ [hsInsert [x] y]).length
      rw [List.length_append]
      rcases (hroot a d).1 h with h | ⟨_, rfl⟩
      · have := hw.root_lt a d h; simp; omega
      · simp [n]
    · intro i j h
      show i < (e.sets ++ [hsInsert [x] y]).length
      have := hw.key_lt i j h
      rw [List.length_append]; simp; omega
    · intro d s a hds
      have hds : (e.sets ++ [hsInsert [x] y])[d]? = some s := hds
      rw [hroot]
      by_cases hd : d < e.sets.length
      · rw [List.getElem?_append_left hd] at hds
        rw [hw.mem_iff d s a hds]
        constructor
        · exact .inl
        · rintro (h | ⟨_, rfl⟩)
          · exact h
          · exact absurd hd (Nat.lt_irrefl _)
      · have hd' : e.sets.length ≤ d := Nat.le_of_not_lt hd
        rw [List.getElem?_append_right hd'] at hds
        have hdn : d = n := by
          cases hq : d - e.sets.length with
          | zero => omega
          | succ k => rw [hq] at hds; simp at hds
        subst hdn
        simp only [n, Nat.sub_self, List.getElem?_cons_zero, Option.some.injEq] at hds
        subst hds
        rw [mem_hsInsert]
        constructor
        · intro h
          refine .inr ⟨?_, rfl⟩
          simpa using h
        · rintro (h | ⟨h, _⟩)
          · exact absurd (hw.root_lt a _ h) (Nat.lt_irrefl _)
          · simpa using h
  · intro a d
    rw [hroot, hblock]
    constructor
    · rintro (h | ⟨h, rfl⟩)
      · refine .inl ⟨h, ?_⟩
        rintro (rfl | rfl)
        · exact not_root_of_unknown hx d h
        · exact not_root_of_unknown hy d h
      · exact .inr ⟨h, rfl⟩
    · rintro (⟨h, _⟩ | ⟨h, rfl⟩)
      · exact .inl h
      · exact .inr ⟨h, rfl⟩
  · intro a h
    exact absurd (hw.root_lt a _ h) (Nat.lt_irrefl _)

/-! ## cases 2 and 3: one element unknown, it joins the other one's set -/

/-- inserting the unknown element `z` into the set with dominant id `t` -/
theorem insert_into_set {e : EqRel} (hw : WF e) {z w : Int} {t : Nat} {s : List Int} (hz : alGet e.elemIds z = none)
    (hwt : Root e w t) (hs : e.sets[t]? = some s) :
    let e' : EqRel := { e with sets := setNth e.sets t (hsInsert s z), elemIds := alSet e.elemIds z t }
    WF e' ∧ ∀ a d, Root e' a d ↔ Root e a d ∨ (a = z ∧ d = t) := by
  intro e'
  have ht : alGet e.subs t = none := hwt.is_root
  have htl : t < e.sets.length := hw.root_lt w t hwt
  have hroot : ∀ a d, Root e' a d ↔ Root e a d ∨ (a = z ∧ d = t) := by
    intro a d
    constructor
    · rintro ⟨i, hi, hd⟩
      have hi' : (if z = a then some t else alGet e.elemIds a) = some i := by
        rw [← hi]; show _ = alGet (alSet e.elemIds z t) a
        rw [alGet_alSet]
      by_cases hza : z = a
      · rw [if_pos hza] at hi'
        cases hi'
        exact .inr ⟨hza.symm, Dom.of_root ht hd⟩
      · rw [if_neg hza] at hi'
        exact .inl ⟨i, hi', hd⟩
    · rintro (⟨i, hi, hd⟩ | ⟨haz, hdt⟩)
      · have hza : z ≠ a := by intro h; subst h; rw [hz] at hi; cases hi
        refine ⟨i, ?_, hd⟩
        show alGet (alSet e.elemIds z t) a = some i
        rw [alGet_alSet, if_neg hza]; exact hi
      · rw [hdt, haz]
        refine ⟨t, ?_, .root ht⟩
        show alGet (alSet e.elemIds z t) z = some t
        rw [alGet_alSet, if_pos rfl]
  refine ⟨⟨hw.ranked, ?_, ?_, ?_⟩, hroot⟩
  · intro a d h
    show d < (e.sets.set t (hsInsert s z)).length
    rw [List.length_set]
    rcases (hroot a d).1 h with h | ⟨_, rfl⟩
    · exact hw.root_lt a d h
    · exact htl
  · intro i j h
    show i < (e.sets.set t (hsInsert s z)).length
    rw [List.length_set]; exact hw.key_lt i j h
  · intro d s' a hds
    have hds : (e.sets.set t (hsInsert s z))[d]? = some s' := hds
    rw [hroot]
    by_cases htd : t = d
    · subst htd
      rw [List.getElem?_set_self htl] at hds
      cases hds
      rw [mem_hsInsert, hw.mem_iff t s a hs]
      constructor
      · rintro (h | h)
        · exact .inl h
        · exact .inr ⟨h, rfl⟩
      · rintro (h | ⟨h, _⟩)
        · exact .inl h
        · exact .inr h
    · rw [List.getElem?_set_ne htd] at hds
      rw [hw.mem_iff d s' a hds]
      constructor
      · exact .inl
      · rintro (h | ⟨_, h⟩)
        · exact h
        · exact absurd h.symm htd

/-- the block of `add` when exactly one element is known: the unknown one and the class of the known one -/
theorem moved_one_known {e e' : EqRel} {z : Int} {t : Nat} {B : Int → Prop} (hz : alGet e.elemIds z = none)
    (hB : ∀ a, B a ↔ a = z ∨ Root e a t) (hroot : ∀ a d, Root e' a d ↔ Root e a d ∨ (a = z ∧ d = t)) :
    Moved (Root e) (Root e') B t ∧ ∀ a, Root e a t → B a := by
  refine ⟨fun a d => ?_, fun a h => (hB a).2 (.inr h)⟩
  rw [hroot, hB]
  constructor
  · rintro (h | ⟨rfl, rfl⟩)
    · by_cases hat : Root e a t
      · exact .inr ⟨.inr hat, h.functional hat⟩
      · refine .inl ⟨h, ?_⟩
        rintro (rfl | h')
        · exact not_root_of_unknown hz d h
        · exact hat h'
    · exact .inr ⟨.inl rfl, rfl⟩
  · rintro (⟨h, _⟩ | ⟨h | h, rfl⟩)
    · exact .inl h
    · exact .inr ⟨h, rfl⟩
    · exact .inl h

theorem addCore_ns {e : EqRel} (hw : WF e) {x y : Int} {ys : Nat} (hx : alGet e.elemIds x = none) (hy : Root e y ys) :
    ∃ e', e.addCore x y none (some ys) = .ok (e', true) ∧ AddOk e e' x y ∧ ¬ rel e x y := by
  obtain ⟨s, hs, _⟩ := root_set hw hy
  obtain ⟨hwf, hroot⟩ := insert_into_set hw hx hy hs
  refine ⟨_, by simp only [EqRel.addCore, hs], ⟨hwf, ys, ?_⟩, not_rel_of_unknown hx y⟩
  refine moved_one_known hx (fun a => ?_) hroot
  constructor
  · rintro ((h | h) | (h | h))
    · exact .inl h
    · exact absurd h (not_rel_of_unknown hx a)
    · exact .inr (h ▸ hy)
    · exact .inr ((rel_iff_root hy a).1 h)
  · rintro (h | h)
    · exact .inl (.inl h)
    · exact .inr (.inr ((rel_iff_root hy a).2 h))

theorem addCore_sn {e : EqRel} (hw : WF e) {x y : Int} {xs : Nat} (hx : Root e x xs) (hy : alGet e.elemIds y = none) :
    ∃ e', e.addCore x y (some xs) none = .ok (e', true) ∧ AddOk e e' x y ∧ ¬ rel e x y := by
  obtain ⟨s, hs, _⟩ := root_set hw hx
  obtain ⟨hwf, hroot⟩ := insert_into_set hw hy hx hs
  refine ⟨_, by simp only [EqRel.addCore, hs], ⟨hwf, xs, ?_⟩, fun h => not_rel_of_unknown hy x ((rel_isPER e).symm h)⟩
  refine moved_one_known hy (fun a => ?_) hroot
  constructor
  · rintro ((h | h) | (h | h))
    · exact .inr (h ▸ hx)
    · exact .inr ((rel_iff_root hx a).1 h)
    · exact .inl h
    · exact absurd h (not_rel_of_unknown hy a)
  · rintro (h | h)
    · exact .inr (.inl h)
    · exact .inl (.inr ((rel_iff_root hx a).2 h))

/-! ## case 4: both elements known -/

theorem block_both_known {e : EqRel} {x y : Int} {xs ys : Nat} (hx : Root e x xs) (hy : Root e y ys) (a : Int) :
    Block e x y a ↔ Root e a xs ∨ Root e a ys := by
  constructor
  · rintro ((h | h) | (h | h))
    · exact .inl (h ▸ hx)
    · exact .inl ((rel_iff_root hx a).1 h)
    · exact .inr (h ▸ hy)
    · exact .inr ((rel_iff_root hy a).1 h)
  · rintro (h | h)
    · exact .inl (.inr ((rel_iff_root hx a).2 h))
    · exact .inr (.inr ((rel_iff_root hy a).2 h))

theorem addCore_ss_same {e : EqRel} (hw : WF e) {x y : Int} {xs : Nat} (hx : Root e x xs) (hy : Root e y xs) :
    e.addCore x y (some xs) (some xs) = .ok (e, false) ∧ AddOk e e x y ∧ rel e x y := by
  refine ⟨by simp [EqRel.addCore], ⟨hw, xs, fun a d => ?_, fun a h => (block_both_known hx hy a).2 (.inl h)⟩, ⟨xs, hx, hy⟩⟩
  rw [block_both_known hx hy]
  constructor
  · intro h
    by_cases hat : Root e a xs
    · exact .inr ⟨.inl hat, h.functional hat⟩
    · exact .inl ⟨h, fun h' => hat (h'.elim id id)⟩
  · rintro (⟨h, _⟩ | ⟨h, rfl⟩)
    · exact h
    · exact h.elim id id

theorem addCore_ss_diff {e : EqRel} (hw : WF e) {x y : Int} {xs ys : Nat} (hx : Root e x xs) (hy : Root e y ys)
    (hne : xs ≠ ys) : ∃ e', e.addCore x y (some xs) (some ys) = .ok (e', true) ∧ AddOk e e' x y ∧ ¬ rel e x y := by
  obtain ⟨sy, hsy, _⟩ := root_set hw hy
  obtain ⟨sx, hsx, _⟩ := root_set hw hx
  have hxl : xs < e.sets.length := hw.root_lt x xs hx
  have hyl : ys < e.sets.length := hw.root_lt y ys hy
  have hxr : alGet e.subs xs = none := hx.is_root
  have hyr : alGet e.subs ys = none := hy.is_root
  have hsx' : (setNth e.sets ys [])[xs]? = some sx := by
    show (e.sets.set ys [])[xs]? = some sx
    rw [List.getElem?_set_ne (Ne.symm hne)]; exact hsx
  let e' : EqRel := { e with sets := setNth (setNth e.sets ys []) xs (mergeSets sx sy), subs := alSet e.subs ys xs }
  have hcore : e.addCore x y (some xs) (some ys) = .ok (e', true) := by
    simp only [EqRel.addCore, if_pos hne, hsy, hsx']
    rfl
  have hroot : ∀ a d, Root e' a d ↔ (Root e a d ∧ d ≠ ys) ∨ (Root e a ys ∧ d = xs) := by
    intro a d
    constructor
    · rintro ⟨i, hi, hd⟩
      rcases (dom_link hxr hyr hne i d).1 hd with ⟨h1, h2⟩ | ⟨h1, h2⟩
      · exact .inl ⟨⟨i, hi, h1⟩, h2⟩
      · exact .inr ⟨⟨i, hi, h1⟩, h2⟩
    · rintro (⟨⟨i, hi, hd⟩, h2⟩ | ⟨⟨i, hi, hd⟩, h2⟩)
      · exact ⟨i, hi, (dom_link hxr hyr hne i d).2 (.inl ⟨hd, h2⟩)⟩
      · exact ⟨i, hi, (dom_link hxr hyr hne i d).2 (.inr ⟨hd, h2⟩)⟩
  refine ⟨e', hcore, ⟨?_, xs, fun a d => ?_, fun a h => (block_both_known hx hy a).2 (.inl h)⟩, ?_⟩
  · obtain ⟨r, hr⟩ := hw.ranked
    refine ⟨⟨_, ranked_link hr hxr hyr hne⟩, ?_, ?_, ?_⟩
    · intro a d h
      show d < ((e.sets.set ys []).set xs (mergeSets sx sy)).length
      rw [List.length_set, List.length_set]
      rcases (hroot a d).1 h with ⟨h, _⟩ | ⟨_, rfl⟩
      · exact hw.root_lt a d h
      · exact hxl
    · intro i j h
      show i < ((e.sets.set ys []).set xs (mergeSets sx sy)).length
      rw [List.length_set, List.length_set]
      have h : alGet (alSet e.subs ys xs) i = some j := h
      rw [alGet_alSet] at h
      by_cases hyi : ys = i
      · exact hyi ▸ hyl
      · rw [if_neg hyi] at h; exact hw.key_lt i j h
    · intro d s a hds
      have hds : ((e.sets.set ys []).set xs (mergeSets sx sy))[d]? = some s := hds
      rw [hroot]
      by_cases hxd : xs = d
      · subst hxd
        rw [List.getElem?_set_self (by rw [List.length_set]; exact hxl)] at hds
        cases hds
        rw [mem_mergeSets, hw.mem_iff xs sx a hsx, hw.mem_iff ys sy a hsy]
        constructor
        · rintro (h | h)
          · exact .inl ⟨h, hne⟩
          · exact .inr ⟨h, rfl⟩
        · rintro (⟨h, _⟩ | ⟨h, _⟩)
          · exact .inl h
          · exact .inr h
      · rw [List.getElem?_set_ne hxd] at hds
        by_cases hyd : ys = d
        · subst hyd
          rw [List.getElem?_set_self hyl] at hds
          cases hds
          constructor
          · intro h; cases h
          · rintro (⟨_, h⟩ | ⟨_, h⟩)
            · exact absurd rfl h
            · exact absurd h.symm hne
        · rw [List.getElem?_set_ne hyd] at hds
          rw [hw.mem_iff d s a hds]
          constructor
          · intro h; exact .inl ⟨h, Ne.symm hyd⟩
          · rintro (⟨h, _⟩ | ⟨_, h⟩)
            · exact h
            · exact absurd h.symm hxd
  · rw [hroot, block_both_known hx hy]
    constructor
    · rintro (⟨h, hd⟩ | ⟨h, rfl⟩)
      · by_cases hat : Root e a xs
        · exact .inr ⟨.inl hat, h.functional hat⟩
        · refine .inl ⟨h, ?_⟩
          rintro (h' | h')
          · exact hat h'
          · exact hd (h.functional h')
      · exact .inr ⟨.inr h, rfl⟩
    · rintro (⟨h, hn⟩ | ⟨h | h, rfl⟩)
      · exact .inl ⟨h, fun hd => hn (.inr (hd ▸ h))⟩
      · exact .inl ⟨h, hne⟩
      · exact .inr ⟨h, rfl⟩
  · rintro ⟨d, h1, h2⟩
    exact hne ((hx.functional h1).trans (hy.functional h2).symm)

/-! ## `add` -/

theorem rel_congr {e e' : EqRel} (h : ∀ a d, Root e' a d ↔ Root e a d) : rel e' = rel e := by
  funext a c
  apply propext
  constructor
  · rintro ⟨d, h1, h2⟩; exact ⟨d, (h _ _).1 h1, (h _ _).1 h2⟩
  · rintro ⟨d, h1, h2⟩; exact ⟨d, (h _ _).2 h1, (h _ _).2 h2⟩

theorem AddOk.congr {e0 e e' : EqRel} {x y : Int} (h : ∀ a d, Root e a d ↔ Root e0 a d) (hk : AddOk e e' x y) :
    AddOk e0 e' x y := by
  have h1 : Root e = Root e0 := by funext a d; exact propext (h a d)
  have h2 : rel e = rel e0 := rel_congr h
  obtain ⟨hw, t, hm, ht⟩ := hk
  refine ⟨hw, t, ?_, ?_⟩
  · unfold Block at hm ⊢; rw [← h1, ← h2]; exact hm
  · unfold Block at ht ⊢; rw [← h1, ← h2]; exact ht

/-- **`add`**: never panics on a well-formed relation, keeps the invariant, denotes the closure of the old relation
plus the pair; the flag says whether the pair was new -/
theorem add_spec {e : EqRel} (hw : WF e) (x y : Int) :
    ∃ e' b, e.add x y = .ok (e', b) ∧ AddOk e e' x y ∧ (b = false ↔ rel e x y) := by
  obtain ⟨e1, ox, h1, hw1, _, hi1, hd1, hxn, hxs⟩ := elemSetUpdate_spec hw x
  obtain ⟨e2, oy, h2, hw2, _, hi2, hd2, hyn, hys⟩ := elemSetUpdate_spec hw1 y
  have hr1 : ∀ a d, Root e1 a d ↔ Root e a d := root_congr hi1 hd1
  have hr2 : ∀ a d, Root e2 a d ↔ Root e a d := fun a d => (root_congr hi2 hd2 a d).trans (hr1 a d)
  have hrel : rel e2 = rel e := rel_congr hr2
  have hadd : e.add x y = e2.addCore x y ox oy := by
    unfold EqRel.add; rw [h1]; simp only; rw [h2]
  rw [hadd]
  -- facts about x and y in e2
  have hx2 : ∀ d, ox = some d → Root e2 x d := fun d h => (hr2 x d).2 (hxs d h)
  have hy2 : ∀ d, oy = some d → Root e2 y d := fun d h => (root_congr hi2 hd2 y d).2 (hys d h)
  have hxn2 : ox = none → alGet e2.elemIds x = none := fun h => by rw [hi2, hi1]; exact hxn h
  have hyn2 : oy = none → alGet e2.elemIds y = none := fun h => by rw [hi2]; exact hyn h
  cases ox with
  | none =>
    cases oy with
    | none =>
      obtain ⟨e', he, hk, hn⟩ := addCore_nn hw2 (hxn2 rfl) (hyn2 rfl)
      exact ⟨e', true, he, hk.congr hr2, by rw [← hrel]; simp [hn]⟩
    | some ys =>
      obtain ⟨e', he, hk, hn⟩ := addCore_ns hw2 (hxn2 rfl) (hy2 ys rfl)
      exact ⟨e', true, he, hk.congr hr2, by rw [← hrel]; simp [hn]⟩
  | some xs =>
    cases oy with
    | none =>
      obtain ⟨e', he, hk, hn⟩ := addCore_sn hw2 (hx2 xs rfl) (hyn2 rfl)
      exact ⟨e', true, he, hk.congr hr2, by rw [← hrel]; simp [hn]⟩
    | some ys =>
      by_cases hne : xs = ys
      · subst hne
        obtain ⟨he, hk, hn⟩ := addCore_ss_same hw2 (hx2 xs rfl) (hy2 xs rfl)
        exact ⟨e2, false, he, hk.congr hr2, by rw [← hrel]; simp [hn]⟩
      · obtain ⟨e', he, hk, hn⟩ := addCore_ss_diff hw2 (hx2 xs rfl) (hy2 ys rfl) hne
        exact ⟨e', true, he, hk.congr hr2, by rw [← hrel]; simp [hn]⟩

end AscentVerif.EqRelM
