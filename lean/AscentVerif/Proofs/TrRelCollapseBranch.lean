import AscentVerif.Proofs.TrRelCollapseRel
/-!
# The back-edge branch of `add`: class collapse through `merge_multiple`

`collapseBranch` is the text of the branch (so that it can be reasoned about separately; `add_eq`
shows by `rfl` that `add` is built from it).

The intermediate states:
* `PrepPost` — after the four de-mirroring statements (`keep_difference` / `remove` on
  `reverse_set_connections[x_set]` and `set_connections[y_set]`): deliberately NOT mirrored;
* `ConnPost` — after `add_set_connection(x_set, y_set)` on that state;
* `MergePost` — after `merge_multiple`.
-/
namespace AscentVerif.TrRel
open TrRel (getDominantIdAux getDominantIdMutAux)

/-- the collapse branch of `add`, verbatim -/
def collapseBranch (t : TrRel) (x y : Int) (xSet ySet : Nat) : Res (TrRel × Bool) := do
  let ySetConn ← unwrap (alGet t.conn ySet)
  let xSetRev ← unwrap (alGet t.rconn xSet)
  let toBeMerged := nsInter ySetConn xSetRev
  let toBeMerged := nsRemove toBeMerged xSet
  let toBeMerged := (nsInsert toBeMerged ySet).1
  let t := { t with rconn := alSet t.rconn xSet (keepDifference xSetRev toBeMerged) }
  let t := { t with conn := alSet t.conn ySet (keepDifference ySetConn toBeMerged) }
  let ySetConn ← unwrap (alGet t.conn ySet)
  let t := { t with conn := alSet t.conn ySet (nsRemove ySetConn xSet) }
  let xSetRev ← unwrap (alGet t.rconn xSet)
  let t := { t with rconn := alSet t.rconn xSet (nsRemove xSetRev ySet) }
  let (t, _) ← t.addSetConnection xSet ySet
  let toBeMerged := nsRemove toBeMerged ySet
  let (t, merged) ← t.mergeMultiple xSet ySet toBeMerged
  if (alGet t.elemIds x).isNone then .panic
  let t := { t with elemIds := alSet t.elemIds x merged }
  if (alGet t.elemIds y).isNone then .panic
  let t := { t with elemIds := alSet t.elemIds y merged }
  return (t, true)

/-- `add`, with the collapse branch factored out -/
theorem add_eq (t : TrRel) (x y : Int) :
    t.add x y = (do
      let (t, xSet, xNew) ← t.addNodeNew x
      let (t, ySet, yNew) ← t.addNodeNew y
      if xNew || yNew then
        let (t, _) ← t.addSetConnection xSet ySet
        return (t, true)
      if xSet = ySet then return (t, false)
      if (alGet t.conn ySet).any fun s => s.contains xSet then
        collapseBranch t x y xSet ySet
      else
        let (t, _) ← t.addSetConnection xSet ySet
        return (t, true)) := rfl

/-- walking the subsumptions after absorbing the dominant ids `l` into the dominant id `frm` -/
theorem rt_after {s s' : List (Nat × Nat)} {l : List Nat} {frm : Nat}
    (hget : ∀ j, alGet s' j = if j ∈ l then some frm else alGet s j) (hl : ∀ j ∈ l, alGet s j = none)
    (hfrm : alGet s frm = none) (hfl : frm ∉ l) {i e : Nat} (h : Rt s i e) : Rt s' i (if e ∈ l then frm else e) := by
  obtain ⟨k, hk⟩ := h
  induction k generalizing i with
  | zero => simp [getDominantIdAux] at hk
  | succ k ih =>
    unfold getDominantIdAux at hk
    split at hk
    · next q hq =>
      have hil : i ∉ l := fun hi => by rw [hl i hi] at hq; cases hq
      have : alGet s' i = some q := by rw [hget, if_neg hil]; exact hq
      exact (rt_some_iff this).mpr (ih hk)
    · next hq =>
      cases hk
      by_cases hil : e ∈ l
      · rw [if_pos hil]
        have h1 : alGet s' e = some frm := by rw [hget, if_pos hil]
        have h2 : alGet s' frm = none := by rw [hget, if_neg hfl]; exact hfrm
        exact (rt_some_iff h1).mpr (rt_of_none h2)
      · rw [if_neg hil]
        exact rt_of_none (by rw [hget, if_neg hil]; exact hq)

/-- the state after the four de-mirroring statements -/
structure PrepPost (t ta : TrRel) (X Y : Nat) (tm : NSet) : Prop where
  core : SameCore t ta
  conn_iff : ∀ a c, rel ta.conn a c ↔ (rel t.conn a c ∧ (a = Y → c ∉ tm ∧ c ≠ X))
  rconn_iff : ∀ c a, rel ta.rconn c a ↔ (rel t.rconn c a ∧ (c = X → a ∉ tm ∧ a ≠ Y))
  keys : KeysOk t → KeysOk ta

theorem prep_post (t : TrRel) (X Y : Nat) (tm yc xr : NSet) (hyc : alGet t.conn Y = some yc) (hxr : alGet t.rconn X = some xr) :
    PrepPost t { t with rconn := alSet (alSet t.rconn X (keepDifference xr tm)) X (nsRemove (keepDifference xr tm) Y),
                        conn := alSet (alSet t.conn Y (keepDifference yc tm)) Y (nsRemove (keepDifference yc tm) X) } X Y tm := by
  refine ⟨⟨rfl, rfl, rfl⟩, ?_, ?_, fun h =>
    ⟨(h.1.alSet _ (nodup_keepDifference (h.1.2 _ _ hyc) tm)).alSet _ (nodup_nsRemove (nodup_keepDifference (h.1.2 _ _ hyc) tm) X),
     (h.2.alSet _ (nodup_keepDifference (h.2.2 _ _ hxr) tm)).alSet _ (nodup_nsRemove (nodup_keepDifference (h.2.2 _ _ hxr) tm) Y)⟩⟩
  · intro a c
    show rel (alSet (alSet t.conn Y (keepDifference yc tm)) Y (nsRemove (keepDifference yc tm) X)) a c ↔ _
    rw [rel_alSet]
    by_cases ha : Y = a
    · subst ha
      rw [if_pos rfl, mem_nsRemove, mem_keepDifference, mem_of_alGet hyc]
      simp only [true_imp_iff]
      constructor
      · rintro ⟨⟨h1, h2⟩, h3⟩; exact ⟨h1, h2, h3⟩
      · rintro ⟨h1, h2, h3⟩; exact ⟨⟨h1, h2⟩, h3⟩
    · have ha' : ¬ a = Y := fun e => ha e.symm
      rw [if_neg ha, rel_alSet, if_neg ha]
      simp [ha']
  · intro c a
    show rel (alSet (alSet t.rconn X (keepDifference xr tm)) X (nsRemove (keepDifference xr tm) Y)) c a ↔ _
    rw [rel_alSet]
    by_cases hc : X = c
    · subst hc
      rw [if_pos rfl, mem_nsRemove, mem_keepDifference, mem_of_alGet hxr]
      simp only [true_imp_iff]
      constructor
      · rintro ⟨⟨h1, h2⟩, h3⟩; exact ⟨h1, h2, h3⟩
      · rintro ⟨h1, h2, h3⟩; exact ⟨⟨h1, h2⟩, h3⟩
    · have hc' : ¬ c = X := fun e => hc e.symm
      rw [if_neg hc, rel_alSet, if_neg hc]
      simp [hc']


/-- `to_be_merged` as first computed (with `y_set`, without `x_set`) -/
def tmOf (yc xr : NSet) (X Y : Nat) : NSet := (nsInsert (nsRemove (nsInter yc xr) X) Y).1

/-- the de-mirrored state on which `add_set_connection(x_set, y_set)` is called -/
def prepState (t : TrRel) (X Y : Nat) (yc xr : NSet) : TrRel :=
  { t with rconn := alSet (alSet t.rconn X (keepDifference xr (tmOf yc xr X Y))) X (nsRemove (keepDifference xr (tmOf yc xr X Y)) Y),
           conn := alSet (alSet t.conn Y (keepDifference yc (tmOf yc xr X Y))) Y (nsRemove (keepDifference yc (tmOf yc xr X Y)) X) }

theorem collapseBranch_eq {t : TrRel} {x y : Int} {X Y : Nat} {yc xr : NSet} (hyc : alGet t.conn Y = some yc)
    (hxr : alGet t.rconn X = some xr) :
    collapseBranch t x y X Y = (do
      let (t, _) ← (prepState t X Y yc xr).addSetConnection X Y
      let (t, merged) ← t.mergeMultiple X Y (nsRemove (tmOf yc xr X Y) Y)
      if (alGet t.elemIds x).isNone then .panic
      let t := { t with elemIds := alSet t.elemIds x merged }
      if (alGet t.elemIds y).isNone then .panic
      let t := { t with elemIds := alSet t.elemIds y merged }
      return (t, true)) := by
  unfold collapseBranch
  simp only [hyc, hxr, unwrap, Res.bind_ok, alGet_alSet, if_true]
  rfl


theorem Core.reach_of_conn {t : TrRel} {ps : List (Int × Int)} (C : Core t ps) {a b : Nat} {u v : Int}
    (h : rel t.conn a b) (hu : Mem t a u) (hv : Mem t b v) : Reach ps u v := by
  by_cases hab : a = b
  · subst hab; exact C.same a u v hu hv
  · obtain ⟨u', v', hu', hv', hr⟩ := (C.conn_iff a b hab).mp h
    exact reach_trans _ _ _ _ (C.same a u u' hu hu') (reach_trans _ _ _ _ hr (C.same b v' v hv' hv))

theorem Core.conn_of_reach {t : TrRel} {ps : List (Int × Int)} (C : Core t ps) {a b : Nat} {u v : Int}
    (hu : Mem t a u) (hv : Mem t b v) (hr : Reach ps u v) (hab : a ≠ b) : rel t.conn a b :=
  (C.conn_iff a b hab).mpr ⟨u, v, hu, hv, hr⟩

/-- the situation in which `add(x0, y0)` takes the collapse branch -/
structure CollapseCtx (t : TrRel) (ps : List (Int × Int)) (x0 y0 : Int) (X Y : Nat) : Prop where
  C : Core t ps
  hX : Mem t X x0
  hY : Mem t Y y0
  hne : X ≠ Y
  hback : rel t.conn Y X

/-- the sets strictly between `y_set` and `x_set` (`in_between`) -/
def InM (t : TrRel) (X Y m : Nat) : Prop := rel t.conn Y m ∧ rel t.rconn X m ∧ m ≠ X ∧ m ≠ Y
/-- the sets on a cycle through the new edge -/
def InCyc (t : TrRel) (X Y m : Nat) : Prop := m = X ∨ m = Y ∨ InM t X Y m

theorem mem_tmOf {t : TrRel} {X Y : Nat} {yc xr : NSet} (hyc : alGet t.conn Y = some yc) (hxr : alGet t.rconn X = some xr)
    (m : Nat) : m ∈ tmOf yc xr X Y ↔ InM t X Y m ∨ m = Y := by
  unfold tmOf InM
  rw [mem_nsInsert, mem_nsRemove, mem_nsInter, mem_of_alGet hyc, mem_of_alGet hxr]
  by_cases hm : m = Y
  · simp [hm]
  · simp only [hm, or_false, ne_eq, not_false_eq_true, and_true]
    constructor
    · rintro ⟨⟨h1, h2⟩, h3⟩; exact ⟨h1, h2, h3⟩
    · rintro ⟨h1, h2, h3⟩; exact ⟨⟨h1, h2⟩, h3⟩

theorem mem_mlOf {t : TrRel} {X Y : Nat} {yc xr : NSet} (hyc : alGet t.conn Y = some yc) (hxr : alGet t.rconn X = some xr)
    (m : Nat) : m ∈ nsRemove (tmOf yc xr X Y) Y ↔ InM t X Y m := by
  rw [mem_nsRemove, mem_tmOf hyc hxr]
  constructor
  · rintro ⟨h | h, h'⟩
    · exact h
    · exact absurd h h'
  · intro h; exact ⟨Or.inl h, h.2.2.2⟩

section
variable {t : TrRel} {ps : List (Int × Int)} {x0 y0 : Int} {X Y : Nat}

theorem CollapseCtx.reach_yx (K : CollapseCtx t ps x0 y0 X Y) : Reach ps y0 x0 := K.C.reach_of_conn K.hback K.hY K.hX

theorem CollapseCtx.cyc_reach (K : CollapseCtx t ps x0 y0 X Y) {m : Nat} {v : Int} (hm : InCyc t X Y m) (hv : Mem t m v) :
    Reach ps y0 v ∧ Reach ps v x0 := by
  rcases hm with rfl | rfl | ⟨h1, h2, h3, _⟩
  · exact ⟨reach_trans _ _ _ _ K.reach_yx (K.C.same _ x0 v K.hX hv), K.C.same _ v x0 hv K.hX⟩
  · exact ⟨K.C.same _ y0 v K.hY hv, reach_trans _ _ _ _ (K.C.same _ v y0 hv K.hY) K.reach_yx⟩
  · exact ⟨K.C.reach_of_conn h1 K.hY hv, K.C.reach_of_conn ((K.C.offMirror h3).mpr h2) hv K.hX⟩

theorem CollapseCtx.cyc_of_reach (K : CollapseCtx t ps x0 y0 X Y) {m : Nat} {v : Int} (hv : Mem t m v)
    (h1 : Reach ps y0 v) (h2 : Reach ps v x0) : InCyc t X Y m := by
  by_cases hX : m = X
  · exact Or.inl hX
  · by_cases hY : m = Y
    · exact Or.inr (Or.inl hY)
    · exact Or.inr (Or.inr ⟨K.C.conn_of_reach K.hY hv h1 (Ne.symm hY),
        (K.C.offMirror hX).mp (K.C.conn_of_reach hv K.hX h2 hX), hX, hY⟩)

theorem CollapseCtx.not_xy (K : CollapseCtx t ps x0 y0 X Y) : ¬ rel t.conn X Y := by
  intro h
  exact K.hne (K.C.scc X Y x0 y0 K.hX K.hY (K.C.reach_of_conn h K.hX K.hY) K.reach_yx)

/-- the collapse branch never panics, and its intermediate states are as described -/
theorem collapse_run (K : CollapseCtx t ps x0 y0 X Y) :
    ∃ ta t3 t9 ml tm, (∀ m, m ∈ ml ↔ InM t X Y m) ∧ (∀ m, m ∈ tm ↔ InM t X Y m ∨ m = Y) ∧
      PrepPost t ta X Y tm ∧ ConnPost ta t3 X Y ∧ ConnLe (GSem t (ps ++ [(x0, y0)])) t3 ∧ MergePost t3 t9 X Y ml ∧
      collapseBranch t x0 y0 X Y = .ok ({ t9 with elemIds := alSet (alSet t9.elemIds x0 X) y0 X }, true) := by
  have C := K.C
  obtain ⟨yc, hyc, _⟩ := K.hback
  obtain ⟨xr, hxr, _⟩ := (C.offMirror (Ne.symm K.hne)).mp K.hback
  have prep : PrepPost t (prepState t X Y yc xr) X Y (tmOf yc xr X Y) := prep_post t X Y _ yc xr hyc hxr
  have hnotyet : ¬ rel (prepState t X Y yc xr).conn X Y := fun h => K.not_xy ((prep.conn_iff X Y).mp h).1
  obtain ⟨t3, b3, he3⟩ := addSetConnection_ok (prepState t X Y yc xr) X Y
  have post := addSetConnection_post K.hne hnotyet he3
  have hmono : ∀ u v, Reach ps u v → Reach (ps ++ [(x0, y0)]) u v :=
    fun u v h => (reach_append_iff ps x0 y0 u v).mpr (Or.inl h)
  have hsame' : ∀ d u v, Mem t d u → Mem t d v → Reach (ps ++ [(x0, y0)]) u v :=
    fun d u v hu hv => hmono _ _ (C.same d u v hu hv)
  have hGXY : GSem t (ps ++ [(x0, y0)]) X Y :=
    ⟨C.mem_dom K.hX, C.mem_dom K.hY, Or.inr ⟨x0, y0, K.hX, K.hY, ReflTransGen.single (by simp)⟩⟩
  have upa : ConnLe (GSem t (ps ++ [(x0, y0)])) (prepState t X Y yc xr) :=
    ⟨fun a c h => (C.connLe hmono).conn a c ((prep.conn_iff a c).mp h).1,
     fun c a h => (C.connLe hmono).rconn c a ((prep.rconn_iff c a).mp h).1⟩
  have up := (addSetConnection_le (GSem.trans hsame') upa hGXY he3).1
  have hsets : t3.sets = t.sets := post.core.1.trans prep.core.1
  have hsubs : t3.subs = t.subs := post.core.2.2.trans prep.core.2.2
  have helem : t3.elemIds = t.elemIds := post.core.2.1.trans prep.core.2.1
  have hml := mem_mlOf (X := X) (Y := Y) hyc hxr
  have hdomM : ∀ s ∈ nsRemove (tmOf yc xr X Y) Y ++ [Y], IsDom t s := by
    intro s hs
    rcases List.mem_append.mp hs with hs | hs
    · exact (C.conn_dom Y s ((hml s).mp hs).1).2
    · simp at hs; subst hs; exact C.mem_dom K.hY
  obtain ⟨t9, he9, merge⟩ := mergeMultiple_spec (t := t3) (frm := X) (to := Y) (ib := nsRemove (tmOf yc xr X Y) Y) K.hne
    (fun h => ((hml X).mp h).2.2.1 rfl)
    (fun s hs => by rw [hsets]; exact (hdomM s hs).1) (by rw [hsets]; exact K.hX.lt)
    (fun s hs => by rw [hsubs]; exact (hdomM s hs).2) (by rw [hsubs]; exact (C.mem_dom K.hX).2)
    post.conn_key post.rconn_key
    (by intro d d' v h h'; unfold Mem at h h'; rw [hsets] at h h'; exact C.disjoint d d' v h h')
  refine ⟨_, t3, t9, _, _, hml, mem_tmOf hyc hxr, prep, post, up, merge, ?_⟩
  rw [collapseBranch_eq hyc hxr]
  simp only [he3, he9, Res.bind_ok]
  have he : t9.elemIds = t.elemIds := merge.elemIds.trans helem
  have hx0 : (alGet t9.elemIds x0).isNone = false := by
    rw [he]; have := C.elem_of_mem X x0 K.hX
    cases h : alGet t.elemIds x0 <;> simp_all
  have hy0 : (alGet (alSet t9.elemIds x0 X) y0).isNone = false := by
    have : (alGet (alSet t9.elemIds x0 X) y0).isSome = true :=
      (isSome_alSet _ _ _ _).mpr (Or.inl (by rw [he]; exact C.elem_of_mem Y y0 K.hY))
    cases h : alGet (alSet t9.elemIds x0 X) y0 <;> simp_all
  simp only [hx0, hy0, Bool.false_eq_true, if_false, Res.pure_eq]

end

end AscentVerif.TrRel
