import AscentVerif.Props.C19
/-!
# Shard-level merge laws for the concurrent lattice index and the concurrent full index
-/
set_option linter.unusedSectionVars false
namespace AscentVerif.Index

variable {V : Type} [DecidableEq V]

/-- the per-key combiner of `latShardMove` -/
def latShardFn (v : List V) : Option (List V) → List V
  | some occ => if v.length > occ.length then occ.foldl setAdd v else v.foldl setAdd occ
  | none => v

theorem latShardMove_eq (frm to : LatIdx Int V) :
    latShardMove frm to =
      ([], if frm.length > to.length then drainInto latShardFn to frm else drainInto latShardFn frm to) := by
  have hG : ∀ (m : LatIdx Int V) (acc : LatIdx Int V),
      m.foldl (fun acc kv => HMap.upsert acc kv.1 fun
        | some occ => if kv.2.length > occ.length then occ.foldl setAdd kv.2 else kv.2.foldl setAdd occ
        | none => kv.2) acc = drainInto latShardFn m acc := by
    intro m acc
    rfl
  unfold latShardMove
  by_cases h : frm.length > to.length
  · simp only [if_pos h]; exact congrArg (Prod.mk []) (hG _ _)
  · simp only [if_neg h]; exact congrArg (Prod.mk []) (hG _ _)

theorem mem_latShardFn (v : List V) (o : Option (List V)) (x : V) :
    x ∈ latShardFn v o ↔ (x ∈ o.getD [] ∨ x ∈ v) := by
  cases o with
  | none => simp [latShardFn]
  | some occ =>
    simp only [latShardFn, Option.getD_some]
    split
    · rw [mem_foldl_setAdd]; exact or_comm
    · rw [mem_foldl_setAdd]

theorem mem_drainInto_latShardFn (frm to : LatIdx Int V) (h : (HMap.keys frm).Nodup) (k : Int) (x : V) :
    x ∈ (HMap.get? (drainInto latShardFn frm to) k).getD [] ↔
      (x ∈ (HMap.get? to k).getD [] ∨ x ∈ (HMap.get? frm k).getD []) := by
  rw [get?_drainInto _ _ _ h]
  cases hf : HMap.get? frm k with
  | none => simp
  | some w => simp [mem_latShardFn]

/-- per-shard law of `latShardMove`: as sets, the union, through both swap branches -/
theorem mem_latShardMove (f t : LatIdx Int V) (hf : NoDupKeys f) (ht : NoDupKeys t) (k : Int) (x : V) :
    x ∈ (HMap.get? (latShardMove f t).2 k).getD [] ↔
      (x ∈ (HMap.get? t k).getD [] ∨ x ∈ (HMap.get? f k).getD []) := by
  rw [latShardMove_eq]
  dsimp only
  split
  · rw [mem_drainInto_latShardFn t f ht]; exact or_comm
  · rw [mem_drainInto_latShardFn f t hf]

/-- the shard list after a shard-wise move: `to` side -/
theorem getD_zip_move {A : Type} (M : A → A → A × A) (fs ts : List A) (i : Nat) (d : A)
    (hlen : fs.length = ts.length) (hd : (M d d).2 = d) :
    (((fs.zip ts).map fun (f, t) => M f t).map (·.2)).getD i d = (M (fs.getD i d) (ts.getD i d)).2 := by
  have : ((fs.zip ts).map fun (f, t) => M f t).map (·.2) = (fs.zip ts).map (fun p => (M p.1 p.2).2) := by
    rw [List.map_map]; rfl
  rw [this]
  exact getD_map_zip (fun p : A × A => (M p.1 p.2).2) fs ts i d d d hlen hd

theorem length_zip_move {A : Type} (M : A → A → A × A) (fs ts : List A) (hlen : fs.length = ts.length) :
    (((fs.zip ts).map fun (f, t) => M f t).map (·.2)).length = ts.length := by
  simp [List.length_zip, hlen]

/-- the shard list after a shard-wise move: `from` side, when every shard move empties `from` -/
theorem getD_zip_move_fst {A : Type} (M : A → A → A × A) (fs ts : List A) (i : Nat) (d : A)
    (hM : ∀ f t, (M f t).1 = d) :
    (((fs.zip ts).map fun (f, t) => M f t).map (·.1)).getD i d = d := by
  apply getD_of_forall (fun x => x = d)
  · intro x hx
    simp only [List.mem_map] at hx
    obtain ⟨y, ⟨p, _, hp⟩, hy⟩ := hx
    subst hp; subst hy
    exact hM _ _
  · rfl

/-! ## lattice index -/

theorem CLatIdx.moveContents_shards (frm to frm' to' : CLatIdx V) (h : CLatIdx.moveContents frm to = .ok (frm', to')) :
    frm.shards.length = to.shards.length ∧
    frm'.shards = ((frm.shards.zip to.shards).map fun (f, t) => latShardMove f t).map (·.1) ∧
    to'.shards = ((frm.shards.zip to.shards).map fun (f, t) => latShardMove f t).map (·.2) := by
  unfold CLatIdx.moveContents at h
  split at h
  · cases h
  split at h
  · cases h
  rename_i hfz hlen
  have hlen : frm.shards.length = to.shards.length := by simpa using hlen
  injection h with h
  injection h with h1 h2
  subst h1; subst h2
  exact ⟨hlen, rfl, rfl⟩

theorem CLatIdx.moveContents_law (frm to frm' to' : CLatIdx V) (h : CLatIdx.moveContents frm to = .ok (frm', to'))
    (hf : ∀ s ∈ frm.shards, NoDupKeys s) (ht : ∀ s ∈ to.shards, NoDupKeys s) :
    to'.shards.length = to.shards.length ∧
    (∀ k, (HMap.get? (frm'.shards.getD (shardOf k frm'.shards.length) []) k).getD [] = []) ∧
    (∀ k x, x ∈ (HMap.get? (to'.shards.getD (shardOf k to'.shards.length) []) k).getD [] ↔
      (x ∈ (HMap.get? (to.shards.getD (shardOf k to.shards.length) []) k).getD [] ∨
       x ∈ (HMap.get? (frm.shards.getD (shardOf k frm.shards.length) []) k).getD [])) := by
  obtain ⟨hlen, h1, h2⟩ := CLatIdx.moveContents_shards frm to frm' to' h
  have hl2 : to'.shards.length = to.shards.length := by rw [h2]; exact length_zip_move _ _ _ hlen
  refine ⟨hl2, ?_, ?_⟩
  · intro k
    rw [h1, getD_zip_move_fst latShardMove _ _ _ [] (fun f t => by rw [latShardMove_eq])]
    rfl
  · intro k x
    rw [hl2, hlen, h2, getD_zip_move latShardMove _ _ _ [] hlen (by rw [latShardMove_eq]; rfl)]
    apply mem_latShardMove
    · exact getD_of_forall _ _ _ _ hf (by simp [NoDupKeys])
    · exact getD_of_forall _ _ _ _ ht (by simp [NoDupKeys])

/-! ## full index -/

theorem CFullIdx.moveContents_shards (frm to frm' to' : CFullIdx V) (h : CFullIdx.moveContents frm to = .ok (frm', to')) :
    frm.shards.length = to.shards.length ∧
    frm'.shards = ((frm.shards.zip to.shards).map fun (f, t) => FullIdx.moveContents f t).map (·.1) ∧
    to'.shards = ((frm.shards.zip to.shards).map fun (f, t) => FullIdx.moveContents f t).map (·.2) := by
  unfold CFullIdx.moveContents at h
  split at h
  · cases h
  split at h
  · cases h
  rename_i hfz hlen
  have hlen : frm.shards.length = to.shards.length := by simpa using hlen
  injection h with h
  injection h with h1 h2
  subst h1; subst h2
  exact ⟨hlen, rfl, rfl⟩

/-- per-shard, per-key law of `FullIdx.moveContents` -/
theorem FullIdx.get?_moveContents (f t : FullIdx Int V) (hf : NoDupKeys f) (ht : NoDupKeys t) (k : Int) :
    HMap.get? (FullIdx.moveContents f t).2 k =
      if f.length > t.length then (HMap.get? t k).orElse (fun _ => HMap.get? f k)
      else (HMap.get? f k).orElse (fun _ => HMap.get? t k) := by
  rw [FullIdx.moveContents_eq]
  dsimp only
  split
  · rw [get?_drainInto _ _ _ ht]
    cases HMap.get? t k <;> rfl
  · rw [get?_drainInto _ _ _ hf]
    cases HMap.get? f k <;> rfl

theorem CFullIdx.moveContents_law (frm to frm' to' : CFullIdx V) (h : CFullIdx.moveContents frm to = .ok (frm', to'))
    (hf : ∀ s ∈ frm.shards, NoDupKeys s) (ht : ∀ s ∈ to.shards, NoDupKeys s) :
    to'.shards.length = to.shards.length ∧ (∀ k, frm'.getCloned k = none) ∧
    (∀ k, (to'.getCloned k).isSome = ((to.getCloned k).isSome || (frm.getCloned k).isSome)) ∧
    (∀ k, ¬ ((to.getCloned k).isSome ∧ (frm.getCloned k).isSome) →
      to'.getCloned k = (to.getCloned k).orElse (fun _ => frm.getCloned k)) := by
  obtain ⟨hlen, h1, h2⟩ := CFullIdx.moveContents_shards frm to frm' to' h
  have hl2 : to'.shards.length = to.shards.length := by rw [h2]; exact length_zip_move _ _ _ hlen
  have hkey : ∀ k, to'.getCloned k =
      if (frm.shards.getD (shardOf k to.shards.length) []).length > (to.shards.getD (shardOf k to.shards.length) []).length
      then (to.getCloned k).orElse (fun _ => frm.getCloned k)
      else (frm.getCloned k).orElse (fun _ => to.getCloned k) := by
    intro k
    unfold CFullIdx.getCloned
    rw [hl2, hlen, h2, getD_zip_move FullIdx.moveContents _ _ _ [] hlen (by rw [FullIdx.moveContents_eq]; rfl)]
    apply FullIdx.get?_moveContents
    · exact getD_of_forall _ _ _ _ hf (by simp [NoDupKeys])
    · exact getD_of_forall _ _ _ _ ht (by simp [NoDupKeys])
  refine ⟨hl2, ?_, ?_, ?_⟩
  · intro k
    unfold CFullIdx.getCloned
    rw [h1, getD_zip_move_fst FullIdx.moveContents _ _ _ [] (fun f t => by rw [FullIdx.moveContents_eq])]
    rfl
  · intro k
    rw [hkey k]
    split <;> cases to.getCloned k <;> cases frm.getCloned k <;> rfl
  · intro k hdisj
    rw [hkey k]
    split
    · rfl
    · cases h3 : to.getCloned k <;> cases h4 : frm.getCloned k <;> simp [h3, h4] at hdisj ⊢

end AscentVerif.Index
