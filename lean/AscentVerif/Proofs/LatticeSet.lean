import AscentVerif.Spec.LatticeLaws
/-!
# Helper lemmas for `Set<T>` (`LSet`): canonical strictly increasing lists
-/
namespace AscentVerif.Lat

theorem mem_setInsert (x y : Int) (l : List Int) : x ∈ setInsert y l ↔ x = y ∨ x ∈ l := by
  induction l with
  | nil => simp [setInsert]
  | cons z zs ih =>
    unfold setInsert
    split
    · simp
    · split
      · subst_vars; simp
      · simp [ih]
        constructor
        · rintro (h | h | h) <;> simp [h]
        · rintro (h | h | h) <;> simp [h]

theorem setInsert_wf (y : Int) (l : List Int) (h : l.Pairwise (· < ·)) :
    (setInsert y l).Pairwise (· < ·) := by
  induction l with
  | nil => simp [setInsert]
  | cons z zs ih =>
    unfold setInsert
    rw [List.pairwise_cons] at h
    split
    · rw [List.pairwise_cons]
      refine ⟨?_, List.pairwise_cons.2 h⟩
      intro w hw
      rcases List.mem_cons.1 hw with rfl | hw
      · assumption
      · have := h.1 w hw; omega
    · split
      · exact List.pairwise_cons.2 h
      · rw [List.pairwise_cons]
        refine ⟨?_, ih h.2⟩
        intro w hw
        rcases (mem_setInsert w y zs).1 hw with rfl | hw
        · omega
        · exact h.1 w hw

theorem mem_foldl_setInsert (x : Int) (small big : List Int) :
    x ∈ small.foldl (fun acc x => setInsert x acc) big ↔ x ∈ small ∨ x ∈ big := by
  induction small generalizing big with
  | nil => simp
  | cons s ss ih =>
    simp only [List.foldl_cons, ih, mem_setInsert, List.mem_cons]
    constructor
    · rintro (h | h | h) <;> simp [h]
    · rintro ((h | h) | h) <;> simp [h]

theorem foldl_setInsert_wf (small big : List Int) (h : big.Pairwise (· < ·)) :
    (small.foldl (fun acc x => setInsert x acc) big).Pairwise (· < ·) := by
  induction small generalizing big with
  | nil => simpa
  | cons s ss ih => exact ih _ (setInsert_wf s big h)

/-- strictly increasing lists with the same members are equal -/
theorem sorted_ext (l1 l2 : List Int) (h1 : l1.Pairwise (· < ·)) (h2 : l2.Pairwise (· < ·))
    (h : ∀ x, x ∈ l1 ↔ x ∈ l2) : l1 = l2 := by
  induction l1 generalizing l2 with
  | nil =>
    cases l2 with
    | nil => rfl
    | cons b bs => exact absurd ((h b).2 (by simp)) (by simp)
  | cons a as ih =>
    cases l2 with
    | nil => exact absurd ((h a).1 (by simp)) (by simp)
    | cons b bs =>
      rw [List.pairwise_cons] at h1 h2
      have hab : a = b := by
        have ha := (h a).1 (by simp)
        have hb := (h b).2 (by simp)
        rcases List.mem_cons.1 ha with e | ha
        · exact e
        · rcases List.mem_cons.1 hb with e | hb
          · exact e.symm
          · have := h1.1 b hb; have := h2.1 a ha; omega
      subst hab
      congr 1
      apply ih _ h1.2 h2.2
      intro x
      constructor
      · intro hx
        have hlt := h1.1 x hx
        rcases List.mem_cons.1 ((h x).1 (List.mem_cons_of_mem _ hx)) with e | hx'
        · omega
        · exact hx'
      · intro hx
        have hlt := h2.1 x hx
        rcases List.mem_cons.1 ((h x).2 (List.mem_cons_of_mem _ hx)) with e | hx'
        · omega
        · exact hx'

/-- a strictly increasing list contained in another is no longer, and equal when as long -/
theorem sorted_subset_length (b : List Int) : ∀ a : List Int, a.Pairwise (· < ·) → b.Pairwise (· < ·) →
    (∀ x ∈ a, x ∈ b) → a.length ≤ b.length ∧ (a.length = b.length → a = b) := by
  induction b with
  | nil =>
    intro a _ _ h
    cases a with
    | nil => simp
    | cons x xs => exact absurd (h x (by simp)) (by simp)
  | cons y bs ih =>
    intro a ha hb h
    cases a with
    | nil => simp
    | cons x as =>
      rw [List.pairwise_cons] at ha hb
      by_cases hxy : x = y
      · subst hxy
        have hsub : ∀ z ∈ as, z ∈ bs := by
          intro z hz
          have := ha.1 z hz
          rcases List.mem_cons.1 (h z (List.mem_cons_of_mem _ hz)) with e | hz'
          · omega
          · exact hz'
        have := ih as ha.2 hb.2 hsub
        constructor
        · simp; exact this.1
        · intro hl
          simp at hl
          rw [this.2 hl]
      · have hxbs : x ∈ bs := by
          rcases List.mem_cons.1 (h x (by simp)) with e | hx
          · exact absurd e hxy
          · exact hx
        have hyx := hb.1 x hxbs
        have hsub : ∀ z ∈ x :: as, z ∈ bs := by
          intro z hz
          have hge : x ≤ z := by
            rcases List.mem_cons.1 hz with e | hz'
            · omega
            · have := ha.1 z hz'; omega
          rcases List.mem_cons.1 (h z hz) with e | hz'
          · omega
          · exact hz'
        have := ih (x :: as) (List.pairwise_cons.2 ha) hb.2 hsub
        simp at this ⊢
        omega

theorem setSubset_iff (a b : List Int) : setSubset a b = true ↔ ∀ x ∈ a, x ∈ b := by
  simp [setSubset, List.all_eq_true]

end AscentVerif.Lat

namespace AscentVerif.Lat

theorem lset_pcmp_def (a b : LSet) : pcmp a b =
    if a.elems = b.elems then some .eq
    else if setSubset a.elems b.elems then some .lt
    else if setSubset b.elems a.elems then some .gt
    else none := rfl

theorem lset_join_def (a b : LSet) : join a b =
    ⟨(if a.elems.length < b.elems.length then a.elems else b.elems).foldl (fun acc x => setInsert x acc)
      (if a.elems.length < b.elems.length then b.elems else a.elems)⟩ := by
  show LSet.mk (List.foldl _
      (if a.elems.length < b.elems.length then (b.elems, a.elems) else (a.elems, b.elems)).1
      (if a.elems.length < b.elems.length then (b.elems, a.elems) else (a.elems, b.elems)).2) = _
  by_cases h : a.elems.length < b.elems.length <;> simp only [h, if_true, if_false]

theorem lset_meet_def (a b : LSet) : meet a b =
    ⟨(a.elems.filter (b.elems.contains ·)).foldl (fun acc x => setInsert x acc) []⟩ := rfl

theorem lset_joinMut_def (a b : LSet) : joinMut a b =
    (join a b, a.elems.length != (join a b).elems.length) := by
  rfl

theorem lset_meetMut_def (a b : LSet) : meetMut a b =
    (meet a b, a.elems.length != (meet a b).elems.length) := rfl

theorem lset_join_mem' (a b : LSet) (x : Int) : x ∈ (join a b).elems ↔ x ∈ a.elems ∨ x ∈ b.elems := by
  rw [lset_join_def]
  simp only [mem_foldl_setInsert]
  split
  · exact Iff.rfl
  · exact Or.comm

theorem lset_meet_mem' (a b : LSet) (x : Int) : x ∈ (meet a b).elems ↔ x ∈ a.elems ∧ x ∈ b.elems := by
  rw [lset_meet_def]
  simp [mem_foldl_setInsert]

theorem lset_join_wf' (a b : LSet) (ha : a.WF) (hb : b.WF) : (join a b).WF := by
  rw [lset_join_def]
  unfold LSet.WF
  apply foldl_setInsert_wf
  split
  · exact hb
  · exact ha

theorem lset_meet_wf' (a b : LSet) : (meet a b).WF := by
  rw [lset_meet_def]
  unfold LSet.WF
  apply foldl_setInsert_wf
  simp

theorem lset_le_iff' (a b : LSet) : le a b = true ↔ ∀ x ∈ a.elems, x ∈ b.elems := by
  unfold le
  rw [lset_pcmp_def, ← setSubset_iff]
  by_cases h : a.elems = b.elems
  · simp [h, setSubset]
  · simp only [h, if_false]
    cases h1 : setSubset a.elems b.elems
    · cases h2 : setSubset b.elems a.elems <;> simp
    · simp

theorem lset_ext (a b : LSet) (ha : a.WF) (hb : b.WF) (h : ∀ x, x ∈ a.elems ↔ x ∈ b.elems) : a = b := by
  cases a; cases b
  simp only [LSet.mk.injEq]
  exact sorted_ext _ _ ha hb h

theorem lset_le_antisymm (a b : LSet) (ha : a.WF) (hb : b.WF) (h1 : le a b = true) (h2 : le b a = true) :
    a = b := by
  rw [lset_le_iff'] at h1 h2
  exact lset_ext a b ha hb (fun x => ⟨h1 x, h2 x⟩)

/-- for canonical sets with `a ⊆ r`: the length differs iff the sets differ -/
theorem lset_len_flag (a r : LSet) (ha : a.WF) (hr : r.WF) (h : ∀ x ∈ a.elems, x ∈ r.elems) :
    ((a.elems.length != r.elems.length) = true ↔ r ≠ a) := by
  have := sorted_subset_length r.elems a.elems ha hr h
  constructor
  · intro hne e
    subst e
    simp at hne
  · intro hne
    simp only [bne_iff_ne, ne_eq]
    intro hl
    apply hne
    cases a; cases r
    simp only [LSet.mk.injEq]
    exact (this.2 hl).symm

theorem lset_len_flag' (a r : LSet) (ha : a.WF) (hr : r.WF) (h : ∀ x ∈ r.elems, x ∈ a.elems) :
    ((a.elems.length != r.elems.length) = true ↔ r ≠ a) := by
  have := sorted_subset_length a.elems r.elems hr ha h
  constructor
  · intro hne e
    subst e
    simp at hne
  · intro hne
    simp only [bne_iff_ne, ne_eq]
    intro hl
    apply hne
    cases a; cases r
    simp only [LSet.mk.injEq]
    exact this.2 hl.symm

theorem lawful_lset' : LawfulLat LSet LSet.WF where
  pcmp_refl a _ := by simp [lset_pcmp_def]
  eq_of_pcmp_eq a b _ _ h := by
    rw [lset_pcmp_def] at h
    cases a; cases b
    simp only [LSet.mk.injEq]
    split at h
    · assumption
    · split at h
      · simp at h
      · split at h <;> simp at h
  pcmp_swap a b ha hb := by
    rw [lset_pcmp_def, lset_pcmp_def]
    by_cases h : a.elems = b.elems
    · simp [h]
    · have h' : ¬ b.elems = a.elems := fun e => h e.symm
      simp only [h, h', if_false]
      cases h1 : setSubset a.elems b.elems <;> cases h2 : setSubset b.elems a.elems <;> simp
      exfalso
      apply h
      rw [setSubset_iff] at h1 h2
      exact sorted_ext _ _ ha hb (fun x => ⟨h1 x, h2 x⟩)
  le_trans a b c _ _ _ h1 h2 := by
    rw [lset_le_iff'] at *
    exact fun x hx => h2 x (h1 x hx)
  join_wf a b ha hb := lset_join_wf' a b ha hb
  meet_wf a b _ _ := lset_meet_wf' a b
  le_join_left a b _ _ := by
    rw [lset_le_iff']; intro x hx; rw [lset_join_mem']; exact Or.inl hx
  le_join_right a b _ _ := by
    rw [lset_le_iff']; intro x hx; rw [lset_join_mem']; exact Or.inr hx
  join_le a b c _ _ _ h1 h2 := by
    rw [lset_le_iff'] at *
    intro x hx; rw [lset_join_mem'] at hx
    rcases hx with hx | hx
    · exact h1 x hx
    · exact h2 x hx
  meet_le_left a b _ _ := by
    rw [lset_le_iff']; intro x hx; rw [lset_meet_mem'] at hx; exact hx.1
  meet_le_right a b _ _ := by
    rw [lset_le_iff']; intro x hx; rw [lset_meet_mem'] at hx; exact hx.2
  le_meet a b c _ _ _ h1 h2 := by
    rw [lset_le_iff'] at *
    intro x hx; rw [lset_meet_mem']; exact ⟨h1 x hx, h2 x hx⟩
  joinMut_fst a b _ _ := by rw [lset_joinMut_def]
  joinMut_snd a b ha hb := by
    rw [lset_joinMut_def]
    exact lset_len_flag a (join a b) ha (lset_join_wf' a b ha hb)
      (fun x hx => (lset_join_mem' a b x).2 (Or.inl hx))
  meetMut_fst a b _ _ := by rw [lset_meetMut_def]
  meetMut_snd a b ha hb := by
    rw [lset_meetMut_def]
    exact lset_len_flag' a (meet a b) ha (lset_meet_wf' a b)
      (fun x hx => ((lset_meet_mem' a b x).1 hx).1)

end AscentVerif.Lat
