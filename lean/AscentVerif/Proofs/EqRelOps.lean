import AscentVerif.Proofs.EqRelAdd
/-!
# `EqRel`: queries and `combine`

Under the invariant: `contains`, `set_of`, `iter_all` read exactly the denoted relation, and
`combine(other)` denotes the equivalence closure of the union of the two relations.
-/
namespace AscentVerif.EqRelM
open AscentVerif.TrRel (Res unwrap alGet alSet)

theorem EqClosure.congr' {α : Type} {R S : α → α → Prop} (h : ∀ a b, R a b ↔ S a b) {x y : α} :
    EqClosure R x y ↔ EqClosure S x y :=
  ⟨EqClosure.mono fun a b => (h a b).1, EqClosure.mono fun a b => (h a b).2⟩

/-! ## queries -/

theorem rel_iff_sets {e : EqRel} (hw : WF e) (a c : Int) : rel e a c ↔ ∃ s ∈ e.sets, a ∈ s ∧ c ∈ s := by
  constructor
  · rintro ⟨d, ha, hc⟩
    obtain ⟨s, hs, has⟩ := root_set hw ha
    exact ⟨s, List.mem_of_getElem? hs, has, (hw.mem_iff d s c hs).2 hc⟩
  · rintro ⟨s, hs, has, hcs⟩
    obtain ⟨d, hd⟩ := List.mem_iff_getElem?.1 hs
    exact ⟨d, (hw.mem_iff d s a hd).1 has, (hw.mem_iff d s c hd).1 hcs⟩

theorem contains_spec {e : EqRel} (hw : WF e) (x y : Int) : ∃ b, e.contains x y = .ok b ∧ (b = true ↔ rel e x y) := by
  unfold EqRel.contains
  cases hx : alGet e.elemIds x with
  | none =>
    rw [elemSet_none hx]
    exact ⟨false, rfl, by simp [not_rel_of_unknown hx y]⟩
  | some i =>
    obtain ⟨d, hd⟩ := root_total hw hx
    obtain ⟨s, hs, _⟩ := root_set hw hd
    rw [elemSet_some hw hd]
    simp only [hs]
    refine ⟨s.contains y, rfl, ?_⟩
    rw [List.contains_iff_mem, hw.mem_iff d s y hs, rel_iff_root hd]

theorem setOf_none {e : EqRel} {x : Int} (hx : alGet e.elemIds x = none) : e.setOf x = .ok none := by
  unfold EqRel.setOf; rw [elemSet_none hx]

theorem setOf_some {e : EqRel} (hw : WF e) {x : Int} {d : Nat} (hd : Root e x d) :
    ∃ s, e.setOf x = .ok (some s) ∧ ∀ y, y ∈ s ↔ rel e x y := by
  obtain ⟨s, hs, _⟩ := root_set hw hd
  refine ⟨s, ?_, fun y => ?_⟩
  · unfold EqRel.setOf; rw [elemSet_some hw hd]; simp only [hs]
  · rw [hw.mem_iff d s y hs, rel_iff_root hd]

theorem iterAll_spec {e : EqRel} (hw : WF e) (a c : Int) : (a, c) ∈ e.iterAll ↔ rel e a c := by
  rw [rel_iff_sets hw]
  unfold EqRel.iterAll
  simp only [List.mem_flatMap, List.mem_map, Prod.mk.injEq]
  constructor
  · rintro ⟨s, hs, x, hx, y, hy, rfl, rfl⟩
    exact ⟨s, hs, hy, hx⟩
  · rintro ⟨s, hs, ha, hc⟩
    exact ⟨s, hs, c, hc, a, ha, rfl, rfl⟩

/-! ## `combine` -/

theorem addAll_spec (r : Int) : ∀ (xs : List Int) {e : EqRel}, WF e →
    ∃ e', e.addAll r xs = .ok e' ∧ WF e' ∧
      ∀ a c, rel e' a c ↔ EqClosure (fun p q => rel e p q ∨ (p = r ∧ q ∈ xs)) a c := by
  intro xs
  induction xs with
  | nil =>
    intro e hw
    refine ⟨e, rfl, hw, fun a c => ?_⟩
    rw [EqClosure.congr' (S := rel e) (fun a b => by simp), EqClosure.of_isPER (rel_isPER e)]
  | cons x rest ih =>
    intro e hw
    obtain ⟨e1, b, he1, hk, _⟩ := add_spec hw r x
    obtain ⟨e', he', hw', hrel⟩ := ih hk.wf
    refine ⟨e', ?_, hw', fun a c => ?_⟩
    · simp only [EqRel.addAll, he1]; exact he'
    · rw [hrel]
      rw [EqClosure.congr' (S := fun p q => EqClosure (fun p q => rel e p q ∨ (p = r ∧ q = x)) p q ∨ (p = r ∧ q ∈ rest))
        (fun p q => by rw [hk.rel_closure])]
      rw [EqClosure.union_closed_left]
      apply EqClosure.congr'
      intro p q
      simp only [List.mem_cons]
      constructor
      · rintro ((h | ⟨h1, h2⟩) | ⟨h1, h2⟩)
        · exact .inl h
        · exact .inr ⟨h1, .inl h2⟩
        · exact .inr ⟨h1, .inr h2⟩
      · rintro (h | ⟨h1, h2 | h2⟩)
        · exact .inl (.inl h)
        · exact .inl (.inr ⟨h1, h2⟩)
        · exact .inr ⟨h1, h2⟩

/-- a star `r — q` (`q ∈ rest`, `rest` non-empty) generates all pairs over `r :: rest` -/
theorem star_closure {R : Int → Int → Prop} (r : Int) (rest : List Int) (hne : rest ≠ []) {a c : Int} :
    EqClosure (fun p q => R p q ∨ (p = r ∧ q ∈ rest)) a c ↔
      EqClosure (fun p q => R p q ∨ (p ∈ r :: rest ∧ q ∈ r :: rest)) a c := by
  constructor
  · apply EqClosure.mono
    rintro p q (h | ⟨rfl, h⟩)
    · exact .inl h
    · exact .inr ⟨List.mem_cons_self, List.mem_cons_of_mem _ h⟩
  · apply EqClosure.least (EqClosure.isPER _)
    rintro p q (h | ⟨hp, hq⟩)
    · exact .base (.inl h)
    · have hr : EqClosure (fun p q => R p q ∨ (p = r ∧ q ∈ rest)) r r := by
        cases rest with
        | nil => exact absurd rfl hne
        | cons q0 _ => exact .refl_l (.inr ⟨rfl, List.mem_cons_self⟩)
      have toR : ∀ z, z ∈ r :: rest → EqClosure (fun p q => R p q ∨ (p = r ∧ q ∈ rest)) r z := by
        intro z hz
        rcases List.mem_cons.1 hz with rfl | hz
        · exact hr
        · exact .base (.inr ⟨rfl, hz⟩)
      exact (toR p hp).symm.trans (toR q hq)

theorem combineSet_spec (s : List Int) {e : EqRel} (hw : WF e) :
    ∃ e', e.combineSet s = .ok e' ∧ WF e' ∧
      ∀ a c, rel e' a c ↔ EqClosure (fun p q => rel e p q ∨ (p ∈ s ∧ q ∈ s)) a c := by
  match s with
  | [] =>
    refine ⟨e, rfl, hw, fun a c => ?_⟩
    rw [EqClosure.congr' (S := rel e) (fun a b => by simp), EqClosure.of_isPER (rel_isPER e)]
  | [r] =>
    obtain ⟨e', he, hw', hrel⟩ := addAll_spec r [r] hw
    refine ⟨e', he, hw', fun a c => ?_⟩
    rw [hrel]
    apply EqClosure.congr'
    intro p q
    simp only [List.mem_cons, List.not_mem_nil, or_false]
  | r :: r2 :: rest =>
    obtain ⟨e', he, hw', hrel⟩ := addAll_spec r (r2 :: rest) hw
    refine ⟨e', he, hw', fun a c => ?_⟩
    rw [hrel]
    exact star_closure r (r2 :: rest) (by simp)

theorem combineSets_spec : ∀ (ss : List (List Int)) {e : EqRel}, WF e →
    ∃ e', e.combineSets ss = .ok e' ∧ WF e' ∧
      ∀ a c, rel e' a c ↔ EqClosure (fun p q => rel e p q ∨ (∃ s ∈ ss, p ∈ s ∧ q ∈ s)) a c := by
  intro ss
  induction ss with
  | nil =>
    intro e hw
    refine ⟨e, rfl, hw, fun a c => ?_⟩
    rw [EqClosure.congr' (S := rel e) (fun a b => by simp), EqClosure.of_isPER (rel_isPER e)]
  | cons s rest ih =>
    intro e hw
    obtain ⟨e1, he1, hw1, hrel1⟩ := combineSet_spec s hw
    obtain ⟨e', he', hw', hrel⟩ := ih hw1
    refine ⟨e', ?_, hw', fun a c => ?_⟩
    · simp only [EqRel.combineSets, he1]; exact he'
    · rw [hrel]
      rw [EqClosure.congr' (S := fun p q => EqClosure (fun p q => rel e p q ∨ (p ∈ s ∧ q ∈ s)) p q ∨ (∃ s ∈ rest, p ∈ s ∧ q ∈ s))
        (fun p q => by rw [hrel1])]
      rw [EqClosure.union_closed_left]
      apply EqClosure.congr'
      intro p q
      simp only [List.mem_cons, exists_eq_or_imp]
      constructor
      · rintro ((h | h) | h)
        · exact .inl h
        · exact .inr (.inl h)
        · exact .inr (.inr h)
      · rintro (h | h | h)
        · exact .inl (.inl h)
        · exact .inl (.inr h)
        · exact .inr h

/-- **`combine`**: the closure of the union -/
theorem combine_spec {e o : EqRel} (hw : WF e) (ho : WF o) :
    ∃ e', e.combine o = .ok e' ∧ WF e' ∧ ∀ a c, rel e' a c ↔ EqClosure (fun p q => rel e p q ∨ rel o p q) a c := by
  obtain ⟨e', he, hw', hrel⟩ := combineSets_spec o.sets hw
  refine ⟨e', he, hw', fun a c => ?_⟩
  rw [hrel]
  apply EqClosure.congr'
  intro p q
  rw [rel_iff_sets ho]

end AscentVerif.EqRelM
