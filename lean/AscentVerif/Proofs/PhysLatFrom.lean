import AscentVerif.Proofs.PhysLatRun
import AscentVerif.Proofs.LatFrom
/-!
# The physical engine with lattices from ANY legal program value

`Proofs/PhysLatRun.lean` packages the simulation onto the nondeterministic lattice engine for a fresh value (`initSt p inp`).
Nothing below the packaging depends on that: `updateIndices_simL` and `runSccs_simL` are about arbitrary values, and the
invariants of `Proofs/NDLattice.lean` (`sccsNDL_spec`) are parametric in the "input" — here the row vectors of the start value
(`rowsFn (absStX s)`, as in `Proofs/LatFrom.lean`).
-/
namespace AscentVerif.PhysLat
open AscentVerif AscentVerif.Engine AscentVerif.Index AscentVerif.Phys

variable {E B G P A : Type}

/-- the abstract value a physical value of the right length stands for is well-formed (it stores no index) -/
theorem wfSt'_absStX (p : Program E B G P A) (s : XSt) (hlen : s.length = p.rels.length) : WFSt' p (absStX s) := by
  refine ⟨by simpa [absStX] using hlen, ?_⟩
  intro rs hrs i hi
  simp only [absStX, List.mem_map] at hrs
  obtain ⟨pr, _, rfl⟩ := hrs
  cases hi

/-- the facts of the start value, as the "input" database of the invariants -/
theorem inDB_absStX (p : Program E B G P A) (s : XSt) :
    inDB p (rowsFn (absStX s)) = fun g => g.rel < p.rels.length ∧ factsOf s g := by
  funext f
  simp only [inDB, rowsFn, relSt_absStX, factsOf]

theorem factsOf_simStL {p : Program E B G P A} {ix : IxSets} {st : St} {xst : XSt} (h : SimStL p ix st xst) :
    Engine.factsOf st = factsOf xst := by
  funext f
  simp only [Engine.factsOf, factsOf, h.rows]

/-- the abstract start value after `update_indices`: the invariant between SCCs and the simulation -/
theorem start_fromL (I : Interp E B G P A) (L : LatOrder I) (p : Program E B G P A) (ix : IxSets) (s : XSt)
    (hlen : s.length = p.rels.length) (htyped : ∀ r, ∀ t ∈ (xrel s r).rows, t.length = arityOf p r)
    (hkeys : ∀ r, r < p.rels.length → (declOf p r).lat = true → ((xrel s r).rows.map keyOf).Nodup) :
    LPInv I L p (rowsFn (absStX s)) (Engine.updateIndices (absStX s)) ∧
    DBLe I L p (inDB p (rowsFn (absStX s))) (Engine.factsOf (Engine.updateIndices (absStX s))) ∧
    SimStL p ix (Engine.updateIndices (absStX s)) (updateIndices p ix s) := by
  obtain ⟨h1, h2⟩ := LPInv_from (I := I) (L := L) (absStX s) (wfSt'_absStX p s hlen)
    (fun r hr hl => by rw [relSt_absStX]; exact hkeys r hr hl)
  exact ⟨h1, h2, updateIndices_simL p ix s htyped (fun r hl => hkeys r (lat_lt p hl) hl)⟩

/-- **a completed physical run from any legal value** is an execution of the nondeterministic lattice engine from the abstract
value with the same rows, and ends in a state with the invariant between SCCs, closed, above the start value -/
theorem run_fromL (I : Interp E B G P A) (L : LatOrder I) (hI : Plan.Ext I) (V : Hir.VarsOf E B) (hS : Plan.Supp I V)
    (p : Program E B G P A) (ix : IxSets) (order : SccOrder) (s : XSt) (fuel : Nat) (out : ProgSt)
    (hp : LatticeProg p) (ho : validOrder p order = true) (hplan : latPlanOk V p ix = true)
    (hd : ∀ r ∈ p.rules, Hir.Desugared V r = true ∧ Plan.WellScoped V r = true)
    (hlen : s.length = p.rels.length) (htyped : ∀ r, ∀ t ∈ (xrel s r).rows, t.length = arityOf p r)
    (hkeys : ∀ r, r < p.rels.length → (declOf p r).lat = true → ((xrel s r).rows.map keyOf).Nodup)
    (hrun : run I V p ix order fuel s = some out) :
    ∃ st', RunNDL I p order (absStX s) st' ∧ SimStL p ix st' out.st ∧
      LPInv I L p (rowsFn (absStX s)) st' ∧ LClosedRules I L p p.rules (Engine.factsOf st') ∧
      DBLe I L p (inDB p (rowsFn (absStX s))) (Engine.factsOf st') := by
  have hR := ruleFitL_of_latPlanOk V p ix hp hplan hd
  have har := arity_pos_of_latPlanOk V p ix hplan
  obtain ⟨hinv0, hin0, hsim0⟩ := start_fromL I L p ix s hlen htyped hkeys
  obtain ⟨st', hnd, hsim⟩ := runSccs_simL I L hI V hS p hp ix _ har hR fuel order _ out _ hinv0 hsim0 hrun
  have h := sccsNDL_spec hp.1 hp.2.1 order ho hnd [] (by simp) hinv0 (by intro scc hscc; simp at hscc) hin0
  refine ⟨st', hnd, hsim, h.1, ?_, h.2.2⟩
  intro rule hrule ρ hsat hd' hhd
  obtain ⟨i, hi, hri⟩ := List.mem_iff_getElem.mp hrule
  obtain ⟨scc, hscc, hiscc⟩ := validOrder_cover p order ho i hi
  have : rule ∈ sccRules p scc := (mem_sccRules p scc rule).mpr ⟨i, hiscc, by rw [List.getElem?_eq_getElem hi, hri]⟩
  exact h.2.1 scc hscc rule this ρ hsat hd' hhd

/-- the conclusions of `run_fromL` over the physical value: a legal value again, closed over the final values, least -/
theorem run_fromL_spec (I : Interp E B G P A) (L : LatOrder I) (hI : Plan.Ext I) (V : Hir.VarsOf E B) (hS : Plan.Supp I V)
    (p : Program E B G P A) (ix : IxSets) (order : SccOrder) (s : XSt) (fuel : Nat) (out : ProgSt)
    (hp : LatticeProg p) (ho : validOrder p order = true) (hplan : latPlanOk V p ix = true)
    (hd : ∀ r ∈ p.rules, Hir.Desugared V r = true ∧ Plan.WellScoped V r = true)
    (hlen : s.length = p.rels.length) (htyped : ∀ r, ∀ t ∈ (xrel s r).rows, t.length = arityOf p r)
    (hkeys : ∀ r, r < p.rels.length → (declOf p r).lat = true → ((xrel s r).rows.map keyOf).Nodup)
    (hrun : run I V p ix order fuel s = some out) :
    (out.st.length = p.rels.length ∧ (∀ r, ∀ t ∈ (xrel out.st r).rows, t.length = arityOf p r) ∧
      ∀ r, r < p.rels.length → (declOf p r).lat = true → ((xrel out.st r).rows.map keyOf).Nodup) ∧
    LClosed I L p (fun g => g.rel < p.rels.length ∧ factsOf s g) (factsOf out.st) ∧
    (MonotoneProg I L p → ∀ M : DB, KeyUnique p M →
      LClosed I L p (fun g => g.rel < p.rels.length ∧ factsOf s g) M → DBLe I L p (factsOf out.st) M) := by
  obtain ⟨st', _, hsim, hinv, hcl, hin⟩ := run_fromL I L hI V hS p ix order s fuel out hp ho hplan hd hlen htyped hkeys hrun
  rw [factsOf_simStL hsim] at hcl hin
  rw [inDB_absStX] at hin
  refine ⟨⟨?_, ?_, ?_⟩, ⟨hin, hcl⟩, ?_⟩
  · rw [← hsim.len]; exact hinv.len
  · intro r t ht
    rw [← hsim.rows] at ht; exact hsim.typed r t ht
  · intro r _ hl
    rw [← hsim.rows]; exact hinv.keys r hl
  · intro hm M hMk hM
    have := hinv.below M ⟨hm, hMk, by rw [inDB_absStX]; exact hM⟩
    rw [factsOf_simStL hsim] at this
    exact this

end AscentVerif.PhysLat
