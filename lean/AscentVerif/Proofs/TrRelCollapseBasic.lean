import AscentVerif.Proofs.TrRelComplete
/-!
# Building blocks for states WITH subsumptions (class collapse)

* more association-list facts (`alRemove`, lengths, duplicate-free keys),
* `keepDifference`, `mergeSets`,
* walking `set_subsumptions`: `getDominantIdAux` as a relation (`Rt`), fuel monotonicity,
  determinism, the effect of path compression (`getDominantIdMutAux`) and of recording one new
  subsumption between two dominant ids.
-/
namespace AscentVerif.TrRel
open TrRel (getDominantIdAux getDominantIdMutAux)

section AL
variable {κ β : Type} [DecidableEq κ]

theorem alGet_alRemove (m : List (κ × β)) (k k' : κ) :
    alGet (alRemove m k) k' = if k = k' then none else alGet m k' := by
  induction m with
  | nil => simp [alRemove, alGet]
  | cons a t ih =>
    obtain ⟨a1, a2⟩ := a
    unfold alRemove at ih ⊢
    by_cases h : a1 = k
    · subst h
      simp only [List.filter_cons, ne_eq, not_true_eq_false, decide_false, Bool.false_eq_true, if_false, ih]
      by_cases h' : a1 = k'
      · simp [h']
      · simp [h', alGet]
    · simp only [List.filter_cons, ne_eq, h, not_false_eq_true, decide_true, if_true, alGet, ih]
      by_cases h' : a1 = k'
      · subst h'; simp [Ne.symm h]
      · simp [h']

theorem alSet_length_of_some {m : List (κ × β)} {k : κ} {v' : β} (v : β) (h : alGet m k = some v') :
    (alSet m k v).length = m.length := by
  induction m with
  | nil => simp [alGet] at h
  | cons a t ih =>
    obtain ⟨a1, a2⟩ := a
    simp only [alSet]
    by_cases hk : a1 = k
    · simp [hk]
    · simp only [alGet, if_neg hk] at h
      simp [hk, ih h]

theorem alSet_length_of_none {m : List (κ × β)} {k : κ} (v : β) (h : alGet m k = none) :
    (alSet m k v).length = m.length + 1 := by
  induction m with
  | nil => simp [alSet]
  | cons a t ih =>
    obtain ⟨a1, a2⟩ := a
    simp only [alSet]
    by_cases hk : a1 = k
    · simp [alGet, hk] at h
    · simp only [alGet, if_neg hk] at h
      simp [hk, ih h]

/-- the keys of the association list are pairwise different -/
def KeysNodup (m : List (κ × β)) : Prop := (m.map Prod.fst).Nodup

theorem keys_alSet (m : List (κ × β)) (k : κ) (v : β) :
    (alSet m k v).map Prod.fst = if k ∈ m.map Prod.fst then m.map Prod.fst else m.map Prod.fst ++ [k] := by
  induction m with
  | nil => simp [alSet]
  | cons a t ih =>
    obtain ⟨a1, a2⟩ := a
    simp only [alSet]
    by_cases hk : a1 = k
    · subst hk; simp
    · simp only [if_neg hk, List.map_cons, ih, List.mem_cons]
      have : ¬ k = a1 := fun e => hk e.symm
      by_cases hm : k ∈ t.map Prod.fst
      · simp [hm]
      · simp [hm, this]

theorem KeysNodup.alSet {m : List (κ × β)} (h : KeysNodup m) (k : κ) (v : β) : KeysNodup (alSet m k v) := by
  unfold KeysNodup at h ⊢
  rw [keys_alSet]
  split
  · exact h
  · next hk =>
    rw [List.nodup_append]
    refine ⟨h, by simp, ?_⟩
    intro a ha b hb
    simp at hb; subst hb
    intro e; subst e; exact hk ha

theorem KeysNodup.alRemove {m : List (κ × β)} (h : KeysNodup m) (k : κ) : KeysNodup (alRemove m k) := by
  unfold KeysNodup at h ⊢
  unfold TrRel.alRemove
  exact List.Nodup.sublist (List.Sublist.map _ (List.filter_sublist)) h

theorem KeysNodup.alGet_of_mem {m : List (κ × β)} (h : KeysNodup m) {k : κ} {v : β} (hm : (k, v) ∈ m) :
    alGet m k = some v := by
  induction m with
  | nil => simp at hm
  | cons a t ih =>
    obtain ⟨a1, a2⟩ := a
    unfold KeysNodup at h
    simp only [List.map_cons, List.nodup_cons] at h
    rcases List.mem_cons.mp hm with e | hm
    · cases e; simp [alGet]
    · have : a1 ≠ k := by
        intro e; subst e
        exact h.1 (List.mem_map.mpr ⟨(a1, v), hm, rfl⟩)
      simp only [alGet, if_neg this]
      exact ih h.2 hm

omit [DecidableEq κ] in
theorem keysNodup_nil : KeysNodup ([] : List (κ × β)) := by simp [KeysNodup]

end AL

/-! ## set primitives -/

theorem mem_foldl_nsRemove (sub : List Nat) (s : NSet) (y : Nat) : y ∈ sub.foldl nsRemove s ↔ y ∈ s ∧ y ∉ sub := by
  induction sub generalizing s with
  | nil => simp
  | cons x t ih =>
    simp only [List.foldl_cons, ih, mem_nsRemove, List.mem_cons, not_or]
    constructor
    · rintro ⟨⟨h1, h2⟩, h3⟩; exact ⟨h1, h2, h3⟩
    · rintro ⟨h1, h2, h3⟩; exact ⟨⟨h1, h2⟩, h3⟩

theorem mem_keepDifference (s sub : NSet) (y : Nat) : y ∈ keepDifference s sub ↔ y ∈ s ∧ y ∉ sub := by
  unfold keepDifference
  split
  · exact mem_foldl_nsRemove sub s y
  · simp

theorem mem_mergeSets (a b : List Int) (v : Int) : v ∈ mergeSets a b ↔ v ∈ a ∨ v ∈ b := by
  have key : ∀ (b a : List Int), v ∈ b.foldl (fun acc x => if acc.contains x then acc else acc ++ [x]) a ↔ v ∈ a ∨ v ∈ b := by
    intro b
    induction b with
    | nil => simp
    | cons x t ih =>
      intro a
      simp only [List.foldl_cons, ih, List.mem_cons]
      by_cases hx : a.contains x
      · simp only [hx, if_true]
        have hx' : x ∈ a := by simpa using hx
        constructor
        · rintro (h | h)
          · exact Or.inl h
          · exact Or.inr (Or.inr h)
        · rintro (h | rfl | h)
          · exact Or.inl h
          · exact Or.inl hx'
          · exact Or.inr h
      · simp only [hx, Bool.false_eq_true, if_false, List.mem_append, List.mem_singleton]
        constructor
        · rintro ((h | h) | h)
          · exact Or.inl h
          · exact Or.inr (Or.inl h)
          · exact Or.inr (Or.inr h)
        · rintro (h | h | h)
          · exact Or.inl (Or.inl h)
          · exact Or.inl (Or.inr h)
          · exact Or.inr h
  unfold mergeSets
  by_cases h : a.length < b.length
  · simp only [h, if_true, key]; exact Or.comm
  · simp only [h, if_false, key]

theorem rel_alRemove (m : NMap) (k a b : Nat) : rel (alRemove m k) a b ↔ a ≠ k ∧ rel m a b := by
  unfold rel; rw [alGet_alRemove]
  by_cases h : k = a
  · subst h; simp
  · have : a ≠ k := fun e => h e.symm
    simp [h, this]

/-! ## duplicate-freeness of the stored sets -/

theorem nodup_filter {α : Type} (p : α → Bool) {l : List α} (h : l.Nodup) : (l.filter p).Nodup :=
  List.Nodup.sublist List.filter_sublist h

theorem nodup_append_single {α : Type} {l : List α} {x : α} (h : l.Nodup) (hx : x ∉ l) : (l ++ [x]).Nodup := by
  rw [List.nodup_append]
  refine ⟨h, by simp, ?_⟩
  intro a ha b hb
  simp at hb; subst hb
  intro e; subst e; exact hx ha

theorem nodup_nsInsert {s : NSet} (h : s.Nodup) (x : Nat) : (nsInsert s x).1.Nodup := by
  unfold nsInsert
  by_cases hx : s.contains x
  · simp only [hx, if_true]; exact h
  · simp only [hx, Bool.false_eq_true, if_false]
    exact nodup_append_single h (by simpa using hx)

theorem nodup_nsRemove {s : NSet} (h : s.Nodup) (x : Nat) : (nsRemove s x).Nodup := nodup_filter _ h
theorem nodup_nsDiff {a : NSet} (h : a.Nodup) (b : NSet) : (nsDiff a b).Nodup := nodup_filter _ h
theorem nodup_nsInter {a : NSet} (h : a.Nodup) (b : NSet) : (nsInter a b).Nodup := nodup_filter _ h

theorem nodup_nsExtend {s : NSet} (h : s.Nodup) (xs : List Nat) : (nsExtend s xs).Nodup := by
  unfold nsExtend
  induction xs generalizing s with
  | nil => exact h
  | cons x t ih => simp only [List.foldl_cons]; exact ih (nodup_nsInsert h x)

theorem nodup_foldl_nsRemove (sub : List Nat) {s : NSet} (h : s.Nodup) : (sub.foldl nsRemove s).Nodup := by
  induction sub generalizing s with
  | nil => exact h
  | cons x t ih => simp only [List.foldl_cons]; exact ih (nodup_nsRemove h x)

theorem nodup_keepDifference {s : NSet} (h : s.Nodup) (sub : NSet) : (keepDifference s sub).Nodup := by
  unfold keepDifference
  split
  · exact nodup_foldl_nsRemove sub h
  · exact nodup_filter _ h

theorem nodup_mergeSets {a b : List Int} (ha : a.Nodup) (hb : b.Nodup) : (mergeSets a b).Nodup := by
  have key : ∀ (b a : List Int), a.Nodup → (b.foldl (fun acc x => if acc.contains x then acc else acc ++ [x]) a).Nodup := by
    intro b
    induction b with
    | nil => intro a h; exact h
    | cons x t ih =>
      intro a h
      simp only [List.foldl_cons]
      apply ih
      by_cases hx : a.contains x
      · simp only [hx, if_true]; exact h
      · simp only [hx, Bool.false_eq_true, if_false]
        exact nodup_append_single h (by simpa using hx)
  unfold mergeSets
  by_cases h : a.length < b.length
  · simp only [h, if_true]; exact key _ _ hb
  · simp only [h, if_false]; exact key _ _ ha

/-- every stored set is duplicate-free -/
def ValsNodup (m : NMap) : Prop := ∀ k s, alGet m k = some s → s.Nodup

/-- a well-formed `HashMap<usize, HashSet<usize>>`: no duplicate keys, no duplicate members -/
def MapOk (m : NMap) : Prop := KeysNodup m ∧ ValsNodup m

theorem mapOk_nil : MapOk [] := ⟨keysNodup_nil, fun k s h => by simp [alGet] at h⟩

theorem MapOk.alSet {m : NMap} (h : MapOk m) (k : Nat) {v : NSet} (hv : v.Nodup) : MapOk (alSet m k v) := by
  refine ⟨h.1.alSet k v, ?_⟩
  intro k' s hs
  rw [alGet_alSet] at hs
  by_cases hk : k = k'
  · rw [if_pos hk] at hs; cases hs; exact hv
  · rw [if_neg hk] at hs; exact h.2 k' s hs

theorem MapOk.alRemove {m : NMap} (h : MapOk m) (k : Nat) : MapOk (alRemove m k) := by
  refine ⟨h.1.alRemove k, ?_⟩
  intro k' s hs
  rw [alGet_alRemove] at hs
  by_cases hk : k = k'
  · rw [if_pos hk] at hs; cases hs
  · rw [if_neg hk] at hs; exact h.2 k' s hs

/-! ## walking `set_subsumptions` -/

theorem aux_succ {subs : List (Nat × Nat)} {i d k : Nat} (h : getDominantIdAux subs i k = .ok d) :
    getDominantIdAux subs i (k + 1) = .ok d := by
  induction k generalizing i with
  | zero => simp [getDominantIdAux] at h
  | succ k ih =>
    unfold getDominantIdAux at h ⊢
    split
    · next p hp => rw [hp] at h; exact ih h
    · next hp => rw [hp] at h; exact h

theorem aux_mono {subs : List (Nat × Nat)} {i d k k' : Nat} (h : getDominantIdAux subs i k = .ok d) (hk : k ≤ k') :
    getDominantIdAux subs i k' = .ok d := by
  induction hk with
  | refl => exact h
  | step _ ih => exact aux_succ ih

/-- `d` is the dominant id reached from `i` -/
def Rt (subs : List (Nat × Nat)) (i d : Nat) : Prop := ∃ k, getDominantIdAux subs i k = .ok d

theorem Rt.unique {subs : List (Nat × Nat)} {i d d' : Nat} (h : Rt subs i d) (h' : Rt subs i d') : d = d' := by
  obtain ⟨k, hk⟩ := h
  obtain ⟨k', hk'⟩ := h'
  have h1 := aux_mono hk (Nat.le_max_left k k')
  have h2 := aux_mono hk' (Nat.le_max_right k k')
  rw [h1] at h2; cases h2; rfl

theorem rt_of_none {subs : List (Nat × Nat)} {i : Nat} (h : alGet subs i = none) : Rt subs i i :=
  ⟨1, by simp [getDominantIdAux, h]⟩

theorem rt_none_iff {subs : List (Nat × Nat)} {i d : Nat} (h : alGet subs i = none) : Rt subs i d ↔ d = i :=
  ⟨fun h' => h'.unique (rt_of_none h), fun e => by subst e; exact rt_of_none h⟩

theorem rt_some_iff {subs : List (Nat × Nat)} {i p d : Nat} (h : alGet subs i = some p) : Rt subs i d ↔ Rt subs p d := by
  constructor
  · rintro ⟨k, hk⟩
    cases k with
    | zero => simp [getDominantIdAux] at hk
    | succ k => simp only [getDominantIdAux, h] at hk; exact ⟨k, hk⟩
  · rintro ⟨k, hk⟩
    exact ⟨k + 1, by simp only [getDominantIdAux, h]; exact hk⟩

theorem aux_root_none {subs : List (Nat × Nat)} {i d k : Nat} (h : getDominantIdAux subs i k = .ok d) :
    alGet subs d = none := by
  induction k generalizing i with
  | zero => simp [getDominantIdAux] at h
  | succ k ih =>
    unfold getDominantIdAux at h
    split at h
    · exact ih h
    · next hp => cases h; exact hp

theorem Rt.root_none {subs : List (Nat × Nat)} {i d : Nat} (h : Rt subs i d) : alGet subs d = none := by
  obtain ⟨k, hk⟩ := h; exact aux_root_none hk

/-- the walk only depends on the lookup function -/
theorem aux_congr {s s' : List (Nat × Nat)} (h : ∀ j, alGet s' j = alGet s j) (i k : Nat) :
    getDominantIdAux s' i k = getDominantIdAux s i k := by
  induction k generalizing i with
  | zero => rfl
  | succ k ih => simp only [getDominantIdAux, h, ih]

/-- redirecting a dominated id straight to its dominant id keeps every walk (with the same fuel) -/
theorem aux_compress_step {s : List (Nat × Nat)} {id p dom k0 : Nat} (hp : alGet s id = some p)
    (hd : getDominantIdAux s id k0 = .ok dom) {j k e : Nat} (h : getDominantIdAux s j k = .ok e) :
    getDominantIdAux (alSet s id dom) j k = .ok e := by
  have hdn := aux_root_none hd
  have hne : id ≠ dom := by intro e'; subst e'; rw [hp] at hdn; cases hdn
  induction k generalizing j with
  | zero => simp [getDominantIdAux] at h
  | succ k ih =>
    by_cases hj : id = j
    · subst hj
      have he : e = dom := Rt.unique ⟨_, h⟩ ⟨_, hd⟩
      subst he
      unfold getDominantIdAux at h ⊢
      rw [hp] at h
      rw [alGet_alSet, if_pos rfl]
      simp only
      cases k with
      | zero => simp [getDominantIdAux] at h
      | succ k =>
        unfold getDominantIdAux
        rw [alGet_alSet, if_neg hne, hdn]
    · unfold getDominantIdAux at h ⊢
      rw [alGet_alSet, if_neg hj]
      split
      · next q hq => rw [hq] at h; exact ih h
      · next hq => rw [hq] at h; exact h

/-- `subs'` is a path-compressed version of `subs` -/
structure Compress (subs subs' : List (Nat × Nat)) : Prop where
  length_eq : subs'.length = subs.length
  none_iff : ∀ j, alGet subs' j = none ↔ alGet subs j = none
  walk : ∀ j k e, getDominantIdAux subs j k = .ok e → getDominantIdAux subs' j k = .ok e
  rt_back : ∀ j e, Rt subs' j e → Rt subs j e
  val : ∀ j p, alGet subs' j = some p → alGet subs j = some p ∨ Rt subs j p

theorem Compress.refl (s : List (Nat × Nat)) : Compress s s :=
  ⟨rfl, fun _ => Iff.rfl, fun _ _ _ h => h, fun _ _ h => h, fun _ _ h => Or.inl h⟩

theorem Compress.trans {a b c : List (Nat × Nat)} (h1 : Compress a b) (h2 : Compress b c) : Compress a c := by
  refine ⟨h2.length_eq.trans h1.length_eq, fun j => (h2.none_iff j).trans (h1.none_iff j),
    fun j k e h => h2.walk j k e (h1.walk j k e h), fun j e h => h1.rt_back j e (h2.rt_back j e h), ?_⟩
  intro j p h
  rcases h2.val j p h with h | h
  · exact h1.val j p h
  · exact Or.inr (h1.rt_back j p h)

theorem rt_compress_back {s : List (Nat × Nat)} {id p dom k0 : Nat} (hp : alGet s id = some p)
    (hd : getDominantIdAux s id k0 = .ok dom) {j e : Nat} (h : Rt (alSet s id dom) j e) : Rt s j e := by
  have hdn := aux_root_none hd
  have hne : id ≠ dom := by intro e'; subst e'; rw [hp] at hdn; cases hdn
  obtain ⟨k, hk⟩ := h
  induction k generalizing j with
  | zero => simp [getDominantIdAux] at hk
  | succ k ih =>
    unfold getDominantIdAux at hk
    rw [alGet_alSet] at hk
    by_cases hj : id = j
    · subst hj
      rw [if_pos rfl] at hk
      simp only at hk
      have h1 : Rt (alSet s id dom) dom dom := rt_of_none (by rw [alGet_alSet, if_neg hne]; exact hdn)
      have : e = dom := Rt.unique ⟨_, hk⟩ h1
      subst this
      exact ⟨_, hd⟩
    · rw [if_neg hj] at hk
      split at hk
      · next q hq => exact (rt_some_iff hq).mpr (ih hk)
      · next hq => cases hk; exact rt_of_none hq

theorem compress_step {s : List (Nat × Nat)} {id p dom k0 : Nat} (hp : alGet s id = some p)
    (hd : getDominantIdAux s id k0 = .ok dom) : Compress s (alSet s id dom) := by
  refine ⟨alSet_length_of_some _ hp, ?_, fun j k e h => aux_compress_step hp hd h, fun j e h => rt_compress_back hp hd h, ?_⟩
  · intro j
    rw [alGet_alSet]
    by_cases hj : id = j
    · subst hj; simp [hp]
    · simp [hj]
  · intro j q h
    rw [alGet_alSet] at h
    by_cases hj : id = j
    · subst hj; rw [if_pos rfl] at h; cases h; exact Or.inr ⟨_, hd⟩
    · rw [if_neg hj] at h; exact Or.inl h

/-- `get_dominant_id_mut` returns the dominant id and a path-compressed map -/
theorem mutAux_spec {subs : List (Nat × Nat)} {id d k : Nat} (h : getDominantIdAux subs id k = .ok d) :
    ∃ subs', getDominantIdMutAux subs id k = .ok (subs', d) ∧ Compress subs subs' := by
  induction k generalizing id with
  | zero => simp [getDominantIdAux] at h
  | succ k ih =>
    unfold getDominantIdAux at h
    unfold getDominantIdMutAux
    split at h
    · next p hp =>
      obtain ⟨subs1, h1, C1⟩ := ih h
      simp only [h1]
      by_cases hdp : d ≠ p
      · rw [if_pos hdp]
        refine ⟨_, rfl, C1.trans ?_⟩
        have hp1 : ∃ p1, alGet subs1 id = some p1 := by
          cases h' : alGet subs1 id with
          | none => rw [C1.none_iff] at h'; rw [hp] at h'; cases h'
          | some p1 => exact ⟨p1, rfl⟩
        obtain ⟨p1, hp1⟩ := hp1
        have : getDominantIdAux subs id (k + 1) = .ok d := by
          unfold getDominantIdAux; rw [hp]; exact h
        exact compress_step hp1 (C1.walk _ _ _ this)
      · rw [if_neg hdp]
        exact ⟨_, rfl, C1⟩
    · next hp =>
      cases h
      exact ⟨_, rfl, Compress.refl _⟩

/-- recording the subsumption `s ↦ frm` between two dominant ids: every walk needs at most one more step -/
theorem aux_absorb_step {subs : List (Nat × Nat)} {s frm : Nat} (hs : alGet subs s = none) (hf : alGet subs frm = none)
    (hne : s ≠ frm) {j k e : Nat} (h : getDominantIdAux subs j k = .ok e) :
    getDominantIdAux (alSet subs s frm) j (k + 1) = .ok (if e = s then frm else e) := by
  induction k generalizing j with
  | zero => simp [getDominantIdAux] at h
  | succ k ih =>
    unfold getDominantIdAux at h
    split at h
    · next q hq =>
      have hjs : s ≠ j := by intro e'; subst e'; rw [hs] at hq; cases hq
      have := ih h
      rw [getDominantIdAux, alGet_alSet, if_neg hjs, hq]
      exact this
    · next hq =>
      cases h
      by_cases hjs : s = e
      · subst hjs
        rw [getDominantIdAux, alGet_alSet, if_pos rfl]
        simp only [if_true]
        rw [getDominantIdAux, alGet_alSet, if_neg hne, hf]
      · rw [getDominantIdAux, alGet_alSet, if_neg hjs, hq]
        simp [Ne.symm hjs]

/-- walking from a valid index through valid values ends at a valid index -/
theorem aux_lt {subs : List (Nat × Nat)} {n : Nat} (hv : ∀ i p, alGet subs i = some p → p < n) {i d k : Nat}
    (hi : i < n) (h : getDominantIdAux subs i k = .ok d) : d < n := by
  induction k generalizing i with
  | zero => simp [getDominantIdAux] at h
  | succ k ih =>
    unfold getDominantIdAux at h
    split at h
    · next q hq => exact ih (hv _ _ hq) h
    · cases h; exact hi

end AscentVerif.TrRel
