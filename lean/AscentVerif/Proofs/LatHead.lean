import AscentVerif.Proofs.LatBasics
/-!
# The lattice head update (`headLat`, serial mode), case by case (C03)
-/
namespace AscentVerif.Engine
open AscentVerif

variable {E B G P A : Type}

/-- replace the row vector and the dynamic part of relation `r` -/
def upd (s : SccSt) (r : RelId) (d' : Dyn) (rows' : List Tuple) : SccSt :=
  { rels := setNth s.rels r { relSt s.rels r with rows := rows' }, dyn := setDyn s.dyn d', changed := true }

theorem pushRow_eq_upd (s : SccSt) (r : RelId) (d : Dyn) (row : Tuple) :
    pushRow s r d row = upd s r { d with new := d.new ++ [(rowsOf s r).length] } (rowsOf s r ++ [row]) := rfl

/-- the row the key indices map `key` to: looked up in `new`, then `delta`, then `total` -/
def keyRow (rows : List Tuple) (d : Dyn) (key : Tuple) : Option Nat :=
  (findKey rows d.new key).orElse fun _ => (findKey rows d.delta key).orElse fun _ => findKey rows d.total key

theorem keyRow_some {rows : List Tuple} {d : Dyn} {key : Tuple} {i : Nat} (h : keyRow rows d key = some i) :
    (i ∈ d.total ∨ i ∈ d.delta ∨ i ∈ d.new) ∧ keyOf (rowAt rows i) = key := by
  unfold keyRow at h
  cases h1 : findKey rows d.new key with
  | some a =>
    rw [h1] at h
    simp only [Option.orElse] at h
    cases h
    exact ⟨.inr (.inr (findKey_some h1).1), (findKey_some h1).2⟩
  | none =>
    rw [h1] at h
    cases h2 : findKey rows d.delta key with
    | some a =>
      rw [h2] at h
      simp only [Option.orElse] at h
      cases h
      exact ⟨.inr (.inl (findKey_some h2).1), (findKey_some h2).2⟩
    | none =>
      rw [h2] at h
      simp only [Option.orElse] at h
      exact ⟨.inl (findKey_some h).1, (findKey_some h).2⟩

theorem keyRow_none {rows : List Tuple} {d : Dyn} {key : Tuple} (h : keyRow rows d key = none) :
    ∀ i, (i ∈ d.total ∨ i ∈ d.delta ∨ i ∈ d.new) → keyOf (rowAt rows i) ≠ key := by
  unfold keyRow at h
  cases h1 : findKey rows d.new key with
  | some a => rw [h1] at h; simp [Option.orElse] at h
  | none =>
    rw [h1] at h
    cases h2 : findKey rows d.delta key with
    | some a => rw [h2] at h; simp [Option.orElse] at h
    | none =>
      rw [h2] at h
      simp only [Option.orElse] at h
      rintro i (hi | hi | hi)
      · exact findKey_none h i hi
      · exact findKey_none h2 i hi
      · exact findKey_none h1 i hi

/-- the state after a join that changed row `i` to value `x` -/
def joinSt (s : SccSt) (r : RelId) (d : Dyn) (i : Nat) (x : Val) : SccSt :=
  { rels := setNth s.rels r { relSt s.rels r with
      rows := setNth (rowsOf s r) i (keyOf (rowAt (rowsOf s r) i) ++ [x]) }
    dyn := if !d.new.contains i then setDyn s.dyn { d with new := d.new ++ [i] } else s.dyn
    changed := true }

theorem headLat_eq (I : Interp E B G P A) (s : SccSt) (r : RelId) (row : Tuple) :
    headLat I {} s r row =
      match findDyn s.dyn r with
      | none => s
      | some d =>
        match keyRow (rowsOf s r) d (keyOf row) with
        | some i =>
          if (I.joinMut r (valOf (rowAt (rowsOf s r) i)) (valOf row)).2 then
            joinSt s r d i (I.joinMut r (valOf (rowAt (rowsOf s r) i)) (valOf row)).1
          else s
        | none => pushRow s r d row := by
  unfold headLat
  cases findDyn s.dyn r with
  | none => rfl
  | some d =>
    simp only []
    cases h : keyRow (rowsOf s r) d (keyOf row) with
    | none =>
      have h' : ((findKey (relSt s.rels r).rows d.new row.dropLast).orElse fun _ =>
        (findKey (relSt s.rels r).rows d.delta row.dropLast).orElse fun _ =>
          findKey (relSt s.rels r).rows d.total row.dropLast) = none := h
      rw [h']; rfl
    | some i =>
      have h' : ((findKey (relSt s.rels r).rows d.new row.dropLast).orElse fun _ =>
        (findKey (relSt s.rels r).rows d.delta row.dropLast).orElse fun _ =>
          findKey (relSt s.rels r).rows d.total row.dropLast) = some i := h
      rw [h']
      simp only []
      by_cases hj : (I.joinMut r (valOf (rowAt (rowsOf s r) i)) (valOf row)).2 = true
      · have hj' : (I.joinMut r ((rowAt (relSt s.rels r).rows i).getLastD Val.unit) (row.getLastD Val.unit)).2 = true := hj
        rw [if_pos hj, if_pos hj']; rfl
      · have hj' : ¬ (I.joinMut r ((rowAt (relSt s.rels r).rows i).getLastD Val.unit) (row.getLastD Val.unit)).2 = true := hj
        rw [if_neg hj, if_neg hj']

/-! ## row-level facts -/

section Rows
variable {rows : List Tuple} {d : Dyn}

theorem keyRow_found (hcov : ∀ i, i < rows.length ↔ (i ∈ d.total ∨ i ∈ d.delta ∨ i ∈ d.new)) {key : Tuple} {i : Nat}
    (h : keyRow rows d key = some i) : i < rows.length ∧ keyOf (rowAt rows i) = key :=
  ⟨(hcov i).mpr (keyRow_some h).1, (keyRow_some h).2⟩

theorem keyRow_fresh (hcov : ∀ i, i < rows.length ↔ (i ∈ d.total ∨ i ∈ d.delta ∨ i ∈ d.new)) {key : Tuple}
    (h : keyRow rows d key = none) : ∀ t ∈ rows, keyOf t ≠ key := by
  intro t ht
  obtain ⟨i, hi, rfl⟩ := (mem_iff_rowAt _ _).mp ht
  exact keyRow_none h i ((hcov i).mp hi)

theorem nodup_keys_push (hk : (rows.map keyOf).Nodup) {row : Tuple} (hf : ∀ t ∈ rows, keyOf t ≠ keyOf row) :
    ((rows ++ [row]).map keyOf).Nodup := by
  rw [List.map_append, List.nodup_append]
  refine ⟨hk, by simp, ?_⟩
  intro a ha b hb
  simp only [List.map_cons, List.map_nil, List.mem_singleton] at hb
  subst hb
  obtain ⟨t, ht, rfl⟩ := List.mem_map.mp ha
  exact hf t ht

/-- the row vector after joining `x` into row `i` -/
def joinRows (rows : List Tuple) (i : Nat) (x : Val) : List Tuple :=
  setNth rows i (keyOf (rowAt rows i) ++ [x])

theorem joinRows_length (i : Nat) (x : Val) : (joinRows rows i x).length = rows.length := by
  simp [joinRows]

theorem joinRows_keys (i : Nat) (x : Val) : (joinRows rows i x).map keyOf = rows.map keyOf :=
  map_keyOf_setNth rows i _ (keyOf_snoc _ _)

theorem joinRows_at_self {i : Nat} (x : Val) (hi : i < rows.length) :
    rowAt (joinRows rows i x) i = keyOf (rowAt rows i) ++ [x] :=
  rowAt_setNth_self rows i _ hi

theorem joinRows_at_ne {i j : Nat} (x : Val) (h : j ≠ i) : rowAt (joinRows rows i x) j = rowAt rows j :=
  rowAt_setNth_ne rows i j _ h

end Rows

theorem joinSt_rows_self {s : SccSt} {r : RelId} {d : Dyn} {i : Nat} {x : Val} (hr : r < s.rels.length) :
    rowsOf (joinSt s r d i x) r = joinRows (rowsOf s r) i x := by
  simp [joinSt, rowsOf, relSt_setNth_self _ _ _ hr, joinRows]

/-- one lattice head update: keys stay unique, no row disappears, every stored value only grows,
and afterwards the key's row dominates the new value (statement of `headLat_spec` in `Props/C03`) -/
theorem headLat_spec' (I : Interp E B G P A) (L : LatOrder I) (s : SccSt) (r : RelId) (row : Tuple)
    (d : Dyn) (hd : findDyn s.dyn r = some d)
    (hidx : ∀ i ∈ d.total ++ d.delta ++ d.new, i < (relSt s.rels r).rows.length)
    (hall : ∀ i, i < (relSt s.rels r).rows.length → i ∈ d.total ++ d.delta ++ d.new)
    (hr : r < s.rels.length)
    (hk : ((relSt s.rels r).rows.map keyOf).Nodup) :
    ((relSt (headLat I {} s r row).rels r).rows.map keyOf).Nodup ∧
    (relSt s.rels r).rows.length ≤ (relSt (headLat I {} s r row).rels r).rows.length ∧
    (∀ i, i < (relSt s.rels r).rows.length →
      keyOf (rowAt (relSt (headLat I {} s r row).rels r).rows i) = keyOf (rowAt (relSt s.rels r).rows i) ∧
      L.le r (valOf (rowAt (relSt s.rels r).rows i)) (valOf (rowAt (relSt (headLat I {} s r row).rels r).rows i))) ∧
    (∃ t ∈ (relSt (headLat I {} s r row).rels r).rows, keyOf t = keyOf row ∧ L.le r (valOf row) (valOf t)) := by
  have hcov : ∀ i, i < (rowsOf s r).length ↔ (i ∈ d.total ∨ i ∈ d.delta ∨ i ∈ d.new) := by
    intro i
    constructor
    · intro h
      have := hall i h
      simp only [List.mem_append] at this
      rcases this with (h | h) | h
      · exact .inl h
      · exact .inr (.inl h)
      · exact .inr (.inr h)
    · intro h
      apply hidx
      simp only [List.mem_append]
      rcases h with h | h | h
      · exact .inl (.inl h)
      · exact .inl (.inr h)
      · exact .inr h
  show ((rowsOf (headLat I {} s r row) r).map keyOf).Nodup ∧
    (rowsOf s r).length ≤ (rowsOf (headLat I {} s r row) r).length ∧
    (∀ i, i < (rowsOf s r).length →
      keyOf (rowAt (rowsOf (headLat I {} s r row) r) i) = keyOf (rowAt (rowsOf s r) i) ∧
      L.le r (valOf (rowAt (rowsOf s r) i)) (valOf (rowAt (rowsOf (headLat I {} s r row) r) i))) ∧
    (∃ t ∈ rowsOf (headLat I {} s r row) r, keyOf t = keyOf row ∧ L.le r (valOf row) (valOf t))
  have hk' : ((rowsOf s r).map keyOf).Nodup := hk
  rw [headLat_eq, hd]
  simp only []
  cases hkr : keyRow (rowsOf s r) d (keyOf row) with
  | none =>
    simp only []
    rw [pushRow_rows_self hr]
    refine ⟨nodup_keys_push hk' (keyRow_fresh hcov hkr), by simp, ?_, row, by simp, rfl, L.refl _ _⟩
    intro i hi
    rw [rowAt_append_left _ _ _ hi]
    exact ⟨rfl, L.refl _ _⟩
  | some i =>
    obtain ⟨hi, hkey⟩ := keyRow_found hcov hkr
    simp only []
    by_cases hj : (I.joinMut r (valOf (rowAt (rowsOf s r) i)) (valOf row)).2 = true
    · rw [if_pos hj, joinSt_rows_self hr]
      refine ⟨by rw [joinRows_keys]; exact hk', by rw [joinRows_length]; exact Nat.le_refl _, ?_, ?_⟩
      · intro j hjl
        by_cases hji : j = i
        · subst hji
          rw [joinRows_at_self _ hi, keyOf_snoc, valOf_snoc]
          exact ⟨rfl, L.join_left _ _ _⟩
        · rw [joinRows_at_ne _ hji]
          exact ⟨rfl, L.refl _ _⟩
      · refine ⟨rowAt (joinRows (rowsOf s r) i _) i, rowAt_mem _ _ (by rw [joinRows_length]; exact hi), ?_⟩
        rw [joinRows_at_self _ hi, keyOf_snoc, valOf_snoc]
        exact ⟨hkey, L.join_right _ _ _⟩
    · rw [if_neg hj]
      refine ⟨hk', Nat.le_refl _, fun j _ => ⟨rfl, L.refl _ _⟩, rowAt (rowsOf s r) i, rowAt_mem _ _ hi, hkey, ?_⟩
      exact L.flag_false _ _ _ (by simpa using hj)

end AscentVerif.Engine
