import AscentVerif.Proofs.PhysAggSim
import AscentVerif.Proofs.PhysRun
import AscentVerif.Proofs.AggPass
/-!
# Evaluating a rule body with aggregation items over the physical indices

`Proofs/PhysEval.lean` (`evalFrom_mem`, `evalRule_rows`) and `Proofs/PhysRun.lean` (`evalBody_frozen`) without the
hypothesis that the body is aggregation-free: an aggregation item hands the aggregator a permutation of the bag the
filter semantics hands it (`aggEnvs_of_sim`, from `aggBag_perm_core`), so for a permutation-invariant aggregator both
evaluations continue with the same environments.
-/
namespace AscentVerif.Phys
open AscentVerif AscentVerif.Engine AscentVerif.Index

variable {E B G P A : Type}

/-- the aggregation items of the body that starts at position `i` yield the environments of the filter semantics -/
def AgOk (I : Interp E B G P A) (cfg : Config) (p : Program E B G P A) (a : SccSt) (ph : PScc) (h : Hir.HRule) (i : Nat)
    (body : List (Item E B G P A)) : Prop :=
  ∀ k ag, body[k]? = some (.agg ag) → ∀ ρ,
    aggEnvs I ag ρ (aggRows I p ph h (i + k) ag ρ) = aggEnvs I ag ρ (aggTuples cfg p a ag)

theorem AgOk.head {I : Interp E B G P A} {cfg : Config} {p : Program E B G P A} {a : SccSt} {ph : PScc} {h : Hir.HRule}
    {i : Nat} {ag : AggClause E A} {rest : List (Item E B G P A)} (hc : AgOk I cfg p a ph h i (.agg ag :: rest)) (ρ : Env) :
    aggEnvs I ag ρ (aggRows I p ph h i ag ρ) = aggEnvs I ag ρ (aggTuples cfg p a ag) := by
  simpa using hc 0 ag rfl ρ

theorem AgOk.tail {I : Interp E B G P A} {cfg : Config} {p : Program E B G P A} {a : SccSt} {ph : PScc} {h : Hir.HRule}
    {i : Nat} {it : Item E B G P A} {rest : List (Item E B G P A)} (hc : AgOk I cfg p a ph h i (it :: rest)) :
    AgOk I cfg p a ph h (i + 1) rest := by
  intro k ag hk ρ
  have := hc (k + 1) ag (by simpa using hk) ρ
  rwa [show i + (k + 1) = i + 1 + k by omega] at this

/-! ## the physical evaluation enumerates the environments of the plan evaluation -/

theorem evalFrom_memA (I : Interp E B G P A) (cfg : Config) (p : Program E B G P A) (ix : IxSets) (a : SccSt) (ph : PScc)
    (hV : ViewsOk cfg p ix a ph) (h : Hir.HRule) (swap : Bool) :
    ∀ (n : Nat) (body : List (Item E B G P A)) (i : Nat) (vs : List (Option Ver)) (ρ : Env), body.length ≤ n →
      ClOk p ix h i body → AgOk I cfg p a ph h i body →
      ∀ x, x ∈ evalFrom I p ph h swap i body vs ρ ↔ x ∈ Plan.evalFrom I cfg p a h swap i body vs ρ := by
  intro n
  induction n with
  | zero =>
    intro body i vs ρ hlen _ _ x
    cases body with
    | nil => simp only [evalFrom, Plan.evalFrom]
    | cons it rest => simp at hlen
  | succ n ih =>
    intro body i vs ρ hlen hok hag x
    cases body with
    | nil => simp only [evalFrom, Plan.evalFrom]
    | cons it rest =>
      have hlen' : rest.length ≤ n := by simpa using hlen
      have hag' := hag.tail
      cases it with
      | cond c =>
        simp only [evalFrom, Plan.evalFrom]
        cases satCond I c ρ with
        | none => exact Iff.rfl
        | some ρ₁ => exact ih rest (i + 1) vs.tail ρ₁ hlen' hok.tail hag' x
      | gen v g =>
        simp only [evalFrom, Plan.evalFrom, List.mem_flatMap]
        constructor
        · rintro ⟨y, hy, hx⟩
          exact ⟨y, hy, (ih rest (i + 1) vs.tail _ hlen' hok.tail hag' x).mp hx⟩
        · rintro ⟨y, hy, hx⟩
          exact ⟨y, hy, (ih rest (i + 1) vs.tail _ hlen' hok.tail hag' x).mpr hx⟩
      | agg ag =>
        simp only [evalFrom, Plan.evalFrom]
        rw [hag.head ρ]
        simp only [List.mem_flatMap]
        constructor
        · rintro ⟨y, hy, hx⟩
          exact ⟨y, hy, (ih rest (i + 1) vs.tail _ hlen' hok.tail hag' x).mp hx⟩
        · rintro ⟨y, hy, hx⟩
          exact ⟨y, hy, (ih rest (i + 1) vs.tail _ hlen' hok.tail hag' x).mpr hx⟩
      | clause r args conds =>
        obtain ⟨hc1, hix1, _⟩ : PosOk p ix h i (.clause r args conds) := hok.head
        have hv1 := hV r (vs.headD none) _ hc1 hix1
        by_cases hj : h.simpleJoinStart = some i ∧ ∃ r2 a2 c2 rest2, rest = .clause r2 a2 c2 :: rest2
        · obtain ⟨hsj, r2, a2, c2, rest2, rfl⟩ := hj
          obtain ⟨hc2, hix2, _⟩ : PosOk p ix h (i + 1) (.clause r2 a2 c2) := hok.tail.head
          have hv2 := hV r2 (vs.tail.headD none) _ hc2 hix2
          have hlen2 : rest2.length ≤ n := by simp at hlen'; omega
          have hk : ∀ ρ' x, x ∈ evalFrom I p ph h swap (i + 2) rest2 vs.tail.tail ρ' ↔
              x ∈ Plan.evalFrom I cfg p a h swap (i + 2) rest2 vs.tail.tail ρ' :=
            fun ρ' x => ih rest2 (i + 2) vs.tail.tail ρ' hlen2 hok.tail.tail hag'.tail x
          rw [evalFrom_join I p ph h swap i r args conds r2 a2 c2 rest2 vs ρ hsj,
            Plan.evalFrom_join I cfg p a h swap i r args conds r2 a2 c2 rest2 vs ρ hsj]
          cases swap with
          | true =>
            simp only [if_true]
            exact joinStep_mem I hv2 hv1 a2 c2 args conds _ ρ _ _ hk x
          | false =>
            simp only [Bool.false_eq_true, if_false]
            exact joinStep_mem I hv1 hv2 args conds a2 c2 _ ρ _ _ hk x
        · have hne : h.simpleJoinStart = some i → ∀ r2 a2 c2 rest2, rest ≠ .clause r2 a2 c2 :: rest2 :=
            fun hsj r2 a2 c2 rest2 he => hj ⟨hsj, r2, a2, c2, rest2, he⟩
          rw [evalFrom_clause I p ph h swap i r args conds rest vs ρ hne,
            planEvalFrom_clause I cfg p a h swap i r args conds rest vs ρ hne]
          exact clauseStep_mem I hv1 _ args conds ρ _ _
            (fun ρ' x => ih rest (i + 1) vs.tail ρ' hlen' hok.tail hag' x) x

/-- one MIR rule: the head rows of the physical evaluation are those of the filter semantics -/
theorem evalRule_rowsA (I : Interp E B G P A) (hI : Plan.Ext I) (cfg : Config) (V : Hir.VarsOf E B) (hS : Plan.Supp I V)
    (p : Program E B G P A) (ix : IxSets) (a : SccSt) (ph : PScc) (hV : ViewsOk cfg p ix a ph) (r : Rule E B G P A)
    (hd : Hir.Desugared V r = true) (hw : Plan.WellScoped V r = true) (hok : ClOk p ix (Hir.compileRule V r) 0 r.body)
    (hag : AgOk I cfg p a ph (Hir.compileRule V r) 0 r.body) (vs : List (Option Ver)) (x : RelId × Tuple) :
    x ∈ (evalRule I p ph (Hir.compileRule V r) r.body vs).flatMap (headRows I r.heads) ↔
      x ∈ (evalBody I cfg p a r.body vs []).flatMap (headRows I r.heads) := by
  unfold evalRule
  split
  · rename_i he
    rw [anyEmpty_sound I cfg p ix a ph hV _ r.body vs hok he]
  · have h1 : x ∈ (evalFrom I p ph (Hir.compileRule V r) (chooseSwap p ph (Hir.compileRule V r) r.body vs) 0 r.body vs []).flatMap
          (headRows I r.heads) ↔
        x ∈ (Plan.evalBodyPlan I cfg p a (Hir.compileRule V r) (chooseSwap p ph (Hir.compileRule V r) r.body vs) r.body vs
          []).flatMap (headRows I r.heads) := by
      simp only [List.mem_flatMap, Plan.evalBodyPlan]
      constructor
      · rintro ⟨ρ, hρ, hx⟩
        exact ⟨ρ, (evalFrom_memA I cfg p ix a ph hV _ _ _ r.body 0 vs [] (Nat.le_refl _) hok hag ρ).mp hρ, hx⟩
      · rintro ⟨ρ, hρ, hx⟩
        exact ⟨ρ, (evalFrom_memA I cfg p ix a ph hV _ _ _ r.body 0 vs [] (Nat.le_refl _) hok hag ρ).mpr hρ, hx⟩
    rw [h1]
    cases hs : chooseSwap p ph (Hir.compileRule V r) r.body vs with
    | false => exact mem_flatMap_of_map_perm _ (Plan.head_rows_perm I hI cfg p a V r hd vs) x
    | true =>
      exact mem_flatMap_of_map_perm _ (Plan.head_rows_perm_swapped I hI cfg p a V hS r hd hw
        (chooseSwap_reorderable p ph _ r.body vs hs) vs) x

/-! ## what an aggregation item reads under the simulation relation -/

theorem aggTuples_eq (cfg : Config) (p : Program E B G P A) (hl : ∀ d ∈ p.rels, d.lat = false) (a : SccSt)
    (ag : AggClause E A) :
    aggTuples cfg p a ag =
      if aggIsFull ag then dedupTuples (bagTuples (relSt a.rels ag.rel).rows (relSt a.rels ag.rel).idx)
      else bagTuples (relSt a.rels ag.rel).rows (relSt a.rels ag.rel).idx := by
  simp [aggTuples, readBag_id cfg p hl, declOf_lat p hl, bagTuples]

/-- **an aggregation item over a relation that is not dynamic in the SCC**: the look-up on the stored index the plan chose
and the filter over the stored entries give the aggregator the same bag up to order -/
theorem aggEnvs_of_sim (I : Interp E B G P A)
    (hperm : ∀ (fn : A) (l l' : List Tuple), l.Perm l' → I.agg fn l = I.agg fn l')
    (cfg : Config) (p : Program E B G P A) (hl : ∀ d ∈ p.rels, d.lat = false) (ix : IxSets) {dynR : List RelId}
    {a : SccSt} {ph : PScc} (hsim : Sim p ix a ph) (hm : SimM a ph) (hwf : WF p.rels.length dynR a)
    (h : Hir.HRule) (i : Nat) (ag : AggClause E A) (hnd : dynR.contains ag.rel = false)
    (hlen : ag.args.length = arityOf p ag.rel) (hcols : aggColsAt h i = keyPositions ag.args)
    (hix : (keyPositions ag.args).length = arityOf p ag.rel ∨ keyPositions ag.args ∈ ix ag.rel) (ρ : Env) :
    aggEnvs I ag ρ (aggRows I p ph h i ag ρ) = aggEnvs I ag ρ (aggTuples cfg p a ag) := by
  have hd : findDyn a.dyn ag.rel = none := Agg.findDyn_none_of_not_dyn hwf hnd
  have hpd : findPDyn ph.dyn ag.rel = none := by
    rcases hsim.dyn.find ag.rel with ⟨_, h2⟩ | ⟨d, pd, h1, _, _⟩
    · exact h2
    · rw [hd] at h1; cases h1
  have hview : viewOf ph ag.rel (some .total) = .stored (prel ph.rels ag.rel) := by simp only [viewOf, hpd]
  have hp : (aggBag I ag ρ (aggRows I p ph h i ag ρ)).Perm (aggBag I ag ρ (aggTuples cfg p a ag)) := by
    unfold aggRows
    rw [hview, hcols, aggTuples_eq cfg p hl]
    show (aggBag I ag ρ (get1 (arityOf p ag.rel) (prel ph.rels ag.rel).full (prel ph.rels ag.rel).idxs
      (keyPositions ag.args) (aggKey I ρ ag.args))).Perm _
    apply aggBag_perm_core I ag ρ (arityOf p ag.rel) _ _ _ hlen
    · intro t ht
      obtain ⟨j, hj, rfl⟩ := (mem_bagTuples' _ _ _).mp ht
      exact hsim.typed ag.rel _ (rowAt_mem _ j ((hwf.cover_nd ag.rel hd j).mpr hj))
    · intro t
      by_cases hr : ag.rel < a.rels.length
      · exact (hsim.nd ag.rel hr hd).1.2 t
      · have hr' : a.rels.length ≤ ag.rel := Nat.le_of_not_lt hr
        rw [relSt_of_ge _ _ hr', prel_of_ge _ _ (by rw [← hsim.len]; exact hr')]
        simp [FullIdx.containsKey, HMap.get?_nil, bagTuples]
    · intro hne
      by_cases hr : ag.rel < a.rels.length
      · exact lookupIx_M (hsim.nd ag.rel hr hd).2.1 (hix.resolve_left hne) (hm.nd ag.rel hd)
      · have hr' : a.rels.length ≤ ag.rel := Nat.le_of_not_lt hr
        rw [relSt_of_ge _ _ hr', prel_of_ge _ _ (by rw [← hsim.len]; exact hr')]
        exact IxMT_nil _
  unfold aggEnvs
  rw [hperm ag.fn _ _ hp]

/-! ## what a pass leaves frozen, with aggregation items over relations that are not dynamic -/

theorem evalBody_frozenA (cfg : Config) (p : Program E B G P A) (hl : ∀ d ∈ p.rels, d.lat = false)
    (I : Interp E B G P A) {n : Nat} {dynR : List RelId} {s₀ s : SccSt} (hwf : WF n dynR s₀)
    (hext : Ext s₀ s) (body : List (Item E B G P A)) (hagg : ∀ ag, Item.agg ag ∈ body → dynR.contains ag.rel = false)
    (vs : List (Option Ver)) (ρ x : Env) :
    x ∈ evalBody I cfg p s body vs ρ ↔ x ∈ evalBody I cfg p s₀ body vs ρ := by
  have heq : ∀ ag, Item.agg ag ∈ body → aggTuples cfg p s ag = aggTuples cfg p s₀ ag := fun ag ha =>
    Agg.aggTuples_congr cfg p ag (hext.nondyn ag.rel (Agg.findDyn_none_of_not_dyn hwf (hagg ag ha))).2
  constructor
  · intro h
    exact Agg.evalBody_of_SatV I cfg p s₀
      (Agg.SatV.congr_agg
        (Agg.SatV.mono (fun r v t hv => (view_ext_iff cfg p hl hwf hext r v t).mp hv)
          (Agg.SatV_of_evalBody I cfg p s body vs ρ x h)) heq)
  · intro h
    exact Agg.evalBody_of_SatV I cfg p s
      (Agg.SatV.congr_agg
        (Agg.SatV.mono (fun r v t hv => (view_ext_iff cfg p hl hwf hext r v t).mpr hv)
          (Agg.SatV_of_evalBody I cfg p s₀ body vs ρ x h)) (fun ag ha => (heq ag ha).symm))

end AscentVerif.Phys
