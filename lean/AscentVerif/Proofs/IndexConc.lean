import AscentVerif.Proofs.IndexHMap
/-!
# List-level lemmas for the sharded (concurrent) indices
-/
namespace AscentVerif.Index

variable {V : Type}

/-- the per-shard step of `CNoIdx.moveContents` -/
def noIdxShardMove (p : List V × List V) : List V × List V :=
  (([] : List V), if p.1.length > p.2.length then p.1 ++ p.2 else p.2 ++ p.1)

theorem CNoIdx.moveContents_eq (frm to : CNoIdx V) :
    CNoIdx.moveContents frm to =
      ({ frm with shards := ((frm.shards.zip to.shards).map noIdxShardMove).map (·.1) ++
            frm.shards.drop ((frm.shards.zip to.shards).map noIdxShardMove).length },
       { to with shards := ((frm.shards.zip to.shards).map noIdxShardMove).map (·.2) ++
            to.shards.drop ((frm.shards.zip to.shards).map noIdxShardMove).length }) := by
  have hG : (fun (x : List V × List V) => match x with
      | (f, t) => match (if f.length > t.length then (t, f) else (f, t)) with
        | (f, t) => (([] : List V), t ++ f)) = noIdxShardMove := by
    funext ⟨f, t⟩
    unfold noIdxShardMove
    by_cases h : f.length > t.length <;> simp [h]
  unfold CNoIdx.moveContents
  simp only [hG]

theorem noIdx_zip_move (fs ts : List (List V)) (h : fs.length ≤ ts.length) :
    (((fs.zip ts).map noIdxShardMove).map (·.1) ++ fs.drop ((fs.zip ts).map noIdxShardMove).length).flatten = [] ∧
    (((fs.zip ts).map noIdxShardMove).map (·.2) ++ ts.drop ((fs.zip ts).map noIdxShardMove).length).length = ts.length ∧
    (((fs.zip ts).map noIdxShardMove).map (·.2) ++ ts.drop ((fs.zip ts).map noIdxShardMove).length).flatten.Perm
      (ts.flatten ++ fs.flatten) := by
  induction fs generalizing ts with
  | nil => simp
  | cons f fs ih =>
    cases ts with
    | nil => simp at h
    | cons t ts =>
      simp only [List.length_cons, Nat.add_le_add_iff_right] at h
      obtain ⟨ih1, ih2, ih3⟩ := ih ts h
      simp only [List.length_map] at ih1 ih2 ih3
      simp only [List.zip_cons_cons, List.map_cons, List.length_cons, List.length_map, List.drop_succ_cons,
        List.cons_append, List.flatten_cons]
      refine ⟨by rw [ih1]; rfl, by simp only [ih2], ?_⟩
      have hrest := ih3
      have h1 : (noIdxShardMove (f, t)).2.Perm (t ++ f) := by
        unfold noIdxShardMove
        split
        · exact List.perm_append_comm
        · exact List.Perm.refl _
      refine (List.Perm.append h1 hrest).trans ?_
      simp only [List.append_assoc]
      apply List.Perm.append_left
      rw [← List.append_assoc, ← List.append_assoc]
      exact List.Perm.append_right _ List.perm_append_comm

end AscentVerif.Index
