import AscentVerif.Model.EnginePhysLatTimeout
import AscentVerif.Proofs.PhysLatFrom
/-!
# `run_timeout` of the physical engine with lattices

The analogue of `Proofs/PhysTimeout.lean` / `Proofs/PhysAggTimeout.lean` with the simulation lemmas of `Proofs/PhysLatRun.lean`:

* `runTimeout_doneL`: a call that returned `true` never took the early return: it computed what `run()` computes;
* `runTimeout_timedOutL`: a call that returned `false` is a PREFIX of an execution of the nondeterministic lattice engine
  (`RunPreNDL`: completed SCCs, then some passes and merges of the interrupted SCC) from the abstract value with the same rows;
  the invariant `LInv` of `Proofs/NDLattice.lean` holds in the SCC state in which the prefix ends (it holds along every
  execution from a legal value), that state dominates the start value (`LBase`), and `abandonScc` keeps its rows;
* `runTimeout_soundL`: hence the value left — finished or not — is legal, above the start value, below every target.
-/
namespace AscentVerif.Engine
open AscentVerif

variable {E B G P A : Type}

/-- some iterations of the loop of an SCC (at least one), then the early return -/
inductive LoopPreNDL (I : Interp E B G P A) (p : Program E B G P A) (dyn : List RelId) (rules : List (Rule E B G P A)) :
    SccSt → SccSt → Prop where
  | last {s s₁ : SccSt} : PassNDL I p dyn rules s s₁ → LoopPreNDL I p dyn rules s (shift s₁)
  | more {s s₁ s' : SccSt} : PassNDL I p dyn rules s s₁ → LoopPreNDL I p dyn rules (shift s₁) s' →
      LoopPreNDL I p dyn rules s s'

/-- an SCC abandoned in SCC state `a'` -/
def SccPreNDL (I : Interp E B G P A) (p : Program E B G P A) (scc : List Nat) (st : St) (a' : SccSt) : Prop :=
  if isLooping p scc then LoopPreNDL I p (dynRels p scc) (sccRules p scc) (enterScc st (dynRels p scc)) a'
  else ∃ s₁, PassNDL I p (dynRels p scc) (sccRules p scc) (enterScc st (dynRels p scc)) s₁ ∧ a' = shift (shift s₁)

/-- a prefix of an execution: completed SCCs, then an abandoned one -/
def RunPreNDL (I : Interp E B G P A) (p : Program E B G P A) (order : SccOrder) (s : St) (a' : SccSt) : Prop :=
  ∃ (done : SccOrder) (scc : List Nat) (rest : SccOrder) (stMid : St),
    order = done ++ scc :: rest ∧ SccsNDL I p done (updateIndices s) stMid ∧ SccPreNDL I p scc stMid a'

end AscentVerif.Engine

namespace AscentVerif.PhysLat
open AscentVerif AscentVerif.Engine AscentVerif.Index AscentVerif.Phys

variable {E B G P A : Type}

/-! ## a completed `run_timeout` is a `run()` -/

theorem sccLoopT_done (I : Interp E B G P A) (V : Hir.VarsOf E B) (p : Program E B G P A) (dyn : List RelId)
    (rules : List (Rule E B G P A)) (dl : Deadline) : ∀ (fuel : Nat) (rs rs' : RunStT),
    sccLoopT I V p dyn rules dl fuel rs = .done rs' →
    sccLoop I V p dyn rules fuel ⟨rs.st, rs.iters⟩ = some ⟨rs'.st, rs'.iters⟩ := by
  intro fuel
  induction fuel with
  | zero => intro rs rs' h; simp [sccLoopT] at h
  | succ fuel ih =>
    intro rs rs' h
    simp only [sccLoopT] at h
    simp only [sccLoop]
    split at h
    · rename_i hch
      rw [if_pos hch]
      cases h
      rfl
    · rename_i hch
      rw [if_neg hch]
      split at h
      · cases h
      · exact ih _ rs' h

theorem runSccT_done (I : Interp E B G P A) (V : Hir.VarsOf E B) (p : Program E B G P A) (dl : Deadline) (fuel : Nat)
    (scc : List Nat) (ps ps' : ProgStT) (h : runSccT I V p dl fuel scc ps = .done ps') :
    runScc I V p fuel scc ⟨ps.st, ps.iters⟩ = some ⟨ps'.st, ps'.iters⟩ := by
  simp only [runSccT] at h
  simp only [runScc]
  split at h
  · rename_i hlp
    rw [if_pos hlp]
    split at h
    · rename_i rs hloop
      cases h
      rw [sccLoopT_done I V p _ _ dl fuel _ rs hloop]
      rfl
    · cases h
    · cases h
  · rename_i hlp
    rw [if_neg hlp]
    split at h
    · cases h
    · cases h
      rfl

theorem runSccsT_done (I : Interp E B G P A) (V : Hir.VarsOf E B) (p : Program E B G P A) (dl : Deadline) (fuel : Nat) :
    ∀ (order : SccOrder) (ps ps' : ProgStT), runSccsT I V p dl fuel order ps = .done ps' →
    runSccs I V p fuel order ⟨ps.st, ps.iters⟩ = some ⟨ps'.st, ps'.iters⟩ := by
  intro order
  induction order with
  | nil =>
    intro ps ps' h
    simp only [runSccsT] at h
    cases h
    rfl
  | cons scc rest ih =>
    intro ps ps' h
    simp only [runSccsT] at h
    simp only [runSccs]
    split at h
    · rename_i ps1 hscc
      rw [runSccT_done I V p dl fuel scc ps ps1 hscc]
      exact ih ps1 ps' h
    · rename_i other hne
      cases hr : runSccT I V p dl fuel scc ps with
      | done x => exact absurd hr (hne x)
      | timedOut x => rw [hr] at h; cases h
      | outOfFuel => rw [hr] at h; cases h

/-- `run_timeout` returned `true`: it computed what `run()` computes -/
theorem runTimeout_doneL (I : Interp E B G P A) (V : Hir.VarsOf E B) (p : Program E B G P A) (ix : IxSets) (order : SccOrder)
    (dl : Deadline) (fuel : Nat) (s : XSt) (o : ProgStT) (h : runTimeout I V p ix order dl fuel s = .done o) :
    run I V p ix order fuel s = some ⟨o.st, o.iters⟩ :=
  runSccsT_done I V p dl fuel order _ o h

/-! ## the early return keeps the rows -/

theorem abandon_length (p : Program E B G P A) (scc : List Nat) (ph : XScc) :
    (abandonScc p scc ph).length = ph.rels.length := by
  simp [abandonScc]

theorem abandon_rows (p : Program E B G P A) (scc : List Nat) (ph : XScc) (r : RelId) :
    (xrel (abandonScc p scc ph) r).rows = (xrel ph.rels r).rows := by
  by_cases hr : r < ph.rels.length
  · simp only [abandonScc, xrel_rangeMap _ _ _ hr]
    split <;> rfl
  · have hr' : ph.rels.length ≤ r := Nat.le_of_not_lt hr
    simp only [abandonScc, xrel_rangeMap_ge _ _ _ hr', xrel_of_ge _ _ hr']

/-! ## the loop of a looping SCC, interrupted -/

section Loop
variable (I : Interp E B G P A) (L : LatOrder I) (hI : Plan.Ext I) (V : Hir.VarsOf E B) (hS : Plan.Supp I V)
  (p : Program E B G P A) (ix : IxSets) (inp : RelId → List Tuple) (dynR : List RelId) (rules : List (Rule E B G P A))
  (hlt : ∀ r, dynR.contains r = true → r < p.rels.length)
  (har : ∀ r, isLatRel p r = true → 0 < arityOf p r)
  (hrules : ∀ rule ∈ rules, rule ∈ p.rules)
  (hdyn : ∀ rule ∈ rules, ∀ h ∈ rule.heads, dynR.contains h.rel = true)
  (hR : ∀ rule ∈ rules, RuleFitL V p ix rule)

include hI hS hlt har hrules hdyn hR in
theorem sccLoopT_timedOutL (dl : Deadline) (st : St) :
    ∀ (fuel : Nat) (rs rs' : RunStT) (a : SccSt), sccLoopT I V p dynR rules dl fuel rs = .timedOut rs' →
      LLoopInv I L p inp dynR rules (hasDyn dynR) a → LBase I L p dynR st a → SimL p ix a rs.st →
      ∃ a', LoopPreNDL I p dynR rules a a' ∧ SimL p ix a' rs'.st ∧ LInv I L p inp dynR a' ∧ LBase I L p dynR st a' := by
  have haf : ∀ rule ∈ rules, rule.aggFree = true := fun r hr => (hR r hr).aggFree
  intro fuel
  induction fuel with
  | zero => intro rs rs' a h; simp [sccLoopT] at h
  | succ fuel ih =>
    intro rs rs' a h hinv hb hsim
    obtain ⟨a1, hpass, hsim1⟩ := pass_simL I L hI V hS p ix inp dynR rules hlt har hrules hdyn hR a rs.st
      (LInv_reset hinv.inv) hsim
    obtain ⟨hinv1, _, _⟩ := passNDL_spec rules hrules hdyn a a1 (LInv_reset hinv.inv) hpass
    obtain ⟨hinv', hext⟩ := iter_step_ndl rules hrules haf hdyn a a1 hinv hpass
    have hb' := LBase_step hinv.inv.wf hb hext
    have hshift : SimL p ix (Engine.shift a1) (shift (evalRules I V p dynR rules { rs.st with changed := false })) :=
      shift_simL hsim1 hinv1.wf (fun r hl => hinv1.keys r hl)
    simp only [sccLoopT] at h
    split at h
    · cases h
    · split at h
      · cases h
        exact ⟨_, LoopPreNDL.last hpass, hshift, hinv'.inv, hb'⟩
      · obtain ⟨a', hloop, hsim', hinva', hba'⟩ :=
          ih _ rs' (Engine.shift a1) h (hinv'.weaken fun _ _ => trivial) hb' hshift
        exact ⟨a', LoopPreNDL.more hpass hloop, hsim', hinva', hba'⟩

end Loop

/-! ## one SCC, the SCCs in order -/

section Run
variable (I : Interp E B G P A) (L : LatOrder I) (hI : Plan.Ext I) (V : Hir.VarsOf E B) (hS : Plan.Supp I V)
  (p : Program E B G P A) (hp : LatticeProg p) (ix : IxSets) (inp : RelId → List Tuple)
  (har : ∀ r, isLatRel p r = true → 0 < arityOf p r)
  (hR : ∀ r ∈ p.rules, RuleFitL V p ix r)

include hI hS hp har hR in
/-- one SCC, interrupted: the value left is `abandonScc` of a physical SCC state simulating a state in which the
nondeterministic engine may abandon the SCC; that state has the invariant and dominates the value before the SCC -/
theorem runSccT_timedOutL (dl : Deadline) (fuel : Nat) (scc : List Nat) (ps ps' : ProgStT) (st : St)
    (hinv : LPInv I L p inp st) (hs : SimStL p ix st ps.st)
    (h : runSccT I V p dl fuel scc ps = .timedOut ps') :
    ∃ a' ph, SccPreNDL I p scc st a' ∧ SimL p ix a' ph ∧ LInv I L p inp (dynRels p scc) a' ∧
      DBLe I L p (Engine.factsOf st) (FactsS a') ∧ ps'.st = abandonScc p scc ph := by
  obtain ⟨_, hh, _, _⟩ := hp
  have hrules := sccRules_sub p scc
  have hRs : ∀ r ∈ sccRules p scc, RuleFitL V p ix r := fun r hr => hR r (hrules r hr)
  have hafs : ∀ rule ∈ sccRules p scc, rule.aggFree = true := fun r hr => (hRs r hr).aggFree
  have hdyn : ∀ rule ∈ sccRules p scc, ∀ h ∈ rule.heads, (dynRels p scc).contains h.rel = true :=
    fun rule hr h hhd => (dynRels_mem p scc h.rel).mpr ⟨rule, hr, h, hhd, rfl⟩
  have hlt : ∀ r, (dynRels p scc).contains r = true → r < p.rels.length := by
    intro r hr
    obtain ⟨rule, hrule, h, hhd, rfl⟩ := (dynRels_mem p scc r).mp hr
    exact hh rule (hrules rule hrule) h hhd
  have hinv0 := LLoopInv_enter (dynRels p scc) hlt hinv (sccRules p scc)
  have hb0 : LBase I L p (dynRels p scc) st (Engine.enterScc st (dynRels p scc)) := LBase_enter st (dynRels p scc)
  have hsim0 : SimL p ix (Engine.enterScc st (dynRels p scc)) (enterScc ps.st (dynRels p scc)) :=
    enter_simL hs _ (fun r hr => by rw [hinv.len]; exact hlt r (List.contains_iff_mem.mpr hr))
  simp only [runSccT] at h
  split at h
  · rename_i hlp
    split at h
    · cases h
    · rename_i rs hloop
      cases h
      obtain ⟨a', hpre, hsim', hinva', hba'⟩ := sccLoopT_timedOutL I L hI V hS p ix inp (dynRels p scc) (sccRules p scc)
        hlt har hrules hdyn hRs dl st fuel _ rs _ hloop hinv0 hb0 hsim0
      refine ⟨a', rs.st, ?_, hsim', hinva', hba'.2, rfl⟩
      unfold SccPreNDL
      rw [if_pos hlp]
      exact hpre
    · cases h
  · rename_i hlp
    split at h
    · cases h
      obtain ⟨a1, hpass, hsim1⟩ := pass_simL I L hI V hS p ix inp (dynRels p scc) (sccRules p scc) hlt har hrules hdyn hRs
        (Engine.enterScc st (dynRels p scc)) (enterScc ps.st (dynRels p scc)) (LInv_reset hinv0.inv) hsim0
      obtain ⟨hinv1, _, _⟩ := passNDL_spec (sccRules p scc) hrules hdyn _ a1 (LInv_reset hinv0.inv) hpass
      obtain ⟨_, hext⟩ := iter_step_ndl (sccRules p scc) hrules hafs hdyn _ a1 hinv0 hpass
      have hb := LBase_step hinv0.inv.wf hb0 hext
      have hinv2 := LInv_shift hinv1
      have hinv3 := LInv_shift hinv2
      have hs1 := shift_simL hsim1 hinv1.wf (fun r hl => hinv1.keys r hl)
      have hs2 := shift_simL hs1 hinv2.wf (fun r hl => hinv2.keys r hl)
      have hb2 : LBase I L p (dynRels p scc) st (Engine.shift (Engine.shift a1)) := hb
      refine ⟨Engine.shift (Engine.shift a1), _, ?_, hs2, hinv3, hb2.2, rfl⟩
      unfold SccPreNDL
      rw [if_neg hlp]
      exact ⟨a1, hpass, rfl⟩
    · cases h

include hI hS hp har hR in
/-- an interrupted `runSccsT` = completed SCCs of the nondeterministic engine + one abandoned SCC -/
theorem runSccsT_timedOutL (dl : Deadline) (fuel : Nat) : ∀ (order : SccOrder) (ps ps' : ProgStT) (st : St),
    LPInv I L p inp st → SimStL p ix st ps.st → runSccsT I V p dl fuel order ps = .timedOut ps' →
    ∃ (done : SccOrder) (scc : List Nat) (rest : SccOrder) (stMid : St) (a' : SccSt) (ph : XScc),
      order = done ++ scc :: rest ∧ SccsNDL I p done st stMid ∧ SccPreNDL I p scc stMid a' ∧
      SimL p ix a' ph ∧ LInv I L p inp (dynRels p scc) a' ∧ DBLe I L p (Engine.factsOf st) (FactsS a') ∧
      ps'.st = abandonScc p scc ph := by
  intro order
  induction order with
  | nil =>
    intro ps ps' st _ _ h
    simp only [runSccsT] at h
    cases h
  | cons scc rest ih =>
    intro ps ps' st hinv hs h
    simp only [runSccsT] at h
    split at h
    · rename_i ps1 hscc
      have hscc' := runSccT_done I V p dl fuel scc ps ps1 hscc
      obtain ⟨st1, hnd, hs1⟩ := runScc_simL I L hI V hS p hp ix inp har hR fuel scc
        ⟨ps.st, ps.iters⟩ ⟨ps1.st, ps1.iters⟩ st hinv hs hscc'
      obtain ⟨hinv1, _, hle, _⟩ := sccNDL_spec hp.1 hp.2.1 scc st st1 hinv hnd
      obtain ⟨done, scc', rest', stMid, a', ph, ho, hdone, hpre, hsim, hinva, hle', hab⟩ := ih ps1 ps' st1 hinv1 hs1 h
      exact ⟨scc :: done, scc', rest', stMid, a', ph, by rw [ho]; rfl, SccsNDL.cons hnd hdone, hpre, hsim, hinva,
        DBLe.trans hle hle', hab⟩
    · rename_i other hne
      cases hr : runSccT I V p dl fuel scc ps with
      | done x => exact absurd hr (hne x)
      | timedOut x =>
        rw [hr] at h
        cases h
        obtain ⟨a', ph, hpre, hsim, hinva, hle, hab⟩ := runSccT_timedOutL I L hI V hS p hp ix inp har hR dl fuel scc
          ps ps' st hinv hs hr
        exact ⟨[], scc, rest, st, a', ph, rfl, SccsNDL.nil, hpre, hsim, hinva, hle, hab⟩
      | outOfFuel => rw [hr] at h; cases h

end Run

/-! ## `run_timeout` -/

/-- **`run_timeout` returned `false`**: a prefix of an execution of the nondeterministic lattice engine from the abstract value
with the same rows; the SCC state in which it ends has the invariant, dominates the start value, and has the rows of the value
left, which is typed -/
theorem runTimeout_timedOutL (I : Interp E B G P A) (L : LatOrder I) (hI : Plan.Ext I) (V : Hir.VarsOf E B)
    (hS : Plan.Supp I V) (p : Program E B G P A) (ix : IxSets) (order : SccOrder) (dl : Deadline) (s : XSt) (fuel : Nat)
    (o : ProgStT) (hp : LatticeProg p) (hplan : latPlanOk V p ix = true)
    (hd : ∀ r ∈ p.rules, Hir.Desugared V r = true ∧ Plan.WellScoped V r = true)
    (hlen : s.length = p.rels.length) (htyped : ∀ r, ∀ t ∈ (xrel s r).rows, t.length = arityOf p r)
    (hkeys : ∀ r, r < p.rels.length → (declOf p r).lat = true → ((xrel s r).rows.map keyOf).Nodup)
    (hrun : runTimeout I V p ix order dl fuel s = .timedOut o) :
    ∃ (a' : SccSt) (dynR : List RelId), RunPreNDL I p order (absStX s) a' ∧ LInv I L p (rowsFn (absStX s)) dynR a' ∧
      DBLe I L p (inDB p (rowsFn (absStX s))) (FactsS a') ∧ a'.rels.length = o.st.length ∧
      (∀ r, (relSt a'.rels r).rows = (xrel o.st r).rows) ∧ (∀ r, ∀ t ∈ (xrel o.st r).rows, t.length = arityOf p r) := by
  have hR := ruleFitL_of_latPlanOk V p ix hp hplan hd
  have har := arity_pos_of_latPlanOk V p ix hplan
  obtain ⟨hinv0, hin0, hsim0⟩ := start_fromL I L p ix s hlen htyped hkeys
  obtain ⟨done, scc, rest, stMid, a', ph, ho, hdone, hpre, hsim, hinva, hle, hab⟩ :=
    runSccsT_timedOutL I L hI V hS p hp ix _ har hR dl fuel order _ o _ hinv0 hsim0 hrun
  refine ⟨a', dynRels p scc, ⟨done, scc, rest, stMid, ho, hdone, hpre⟩, hinva, DBLe.trans hin0 hle, ?_, ?_, ?_⟩
  · rw [hab, abandon_length]; exact hsim.len
  · intro r
    rw [hab, abandon_rows]; exact hsim.rows r
  · intro r t ht
    rw [hab, abandon_rows, ← hsim.rows] at ht
    exact hsim.typed r t ht

/-- **`run_timeout`, finished or not**: a legal value again, above the start value, below every target -/
theorem runTimeout_soundL (I : Interp E B G P A) (L : LatOrder I) (hI : Plan.Ext I) (V : Hir.VarsOf E B)
    (hS : Plan.Supp I V) (p : Program E B G P A) (ix : IxSets) (order : SccOrder) (dl : Deadline) (s : XSt) (fuel : Nat)
    (o : ProgStT) (hp : LatticeProg p) (ho : validOrder p order = true) (hplan : latPlanOk V p ix = true)
    (hd : ∀ r ∈ p.rules, Hir.Desugared V r = true ∧ Plan.WellScoped V r = true)
    (hlen : s.length = p.rels.length) (htyped : ∀ r, ∀ t ∈ (xrel s r).rows, t.length = arityOf p r)
    (hkeys : ∀ r, r < p.rels.length → (declOf p r).lat = true → ((xrel s r).rows.map keyOf).Nodup)
    (hrun : runTimeout I V p ix order dl fuel s = .done o ∨ runTimeout I V p ix order dl fuel s = .timedOut o) :
    (o.st.length = p.rels.length ∧ (∀ r, ∀ t ∈ (xrel o.st r).rows, t.length = arityOf p r) ∧
      ∀ r, r < p.rels.length → (declOf p r).lat = true → ((xrel o.st r).rows.map keyOf).Nodup) ∧
    DBLe I L p (fun g => g.rel < p.rels.length ∧ factsOf s g) (factsOf o.st) ∧
    (MonotoneProg I L p → ∀ M : DB, KeyUnique p M →
      LClosed I L p (fun g => g.rel < p.rels.length ∧ factsOf s g) M → DBLe I L p (factsOf o.st) M) := by
  rcases hrun with hrun | hrun
  · have h := run_fromL_spec I L hI V hS p ix order s fuel ⟨o.st, o.iters⟩ hp ho hplan hd hlen htyped hkeys
      (runTimeout_doneL I V p ix order dl fuel s o hrun)
    exact ⟨h.1, h.2.1.1, h.2.2⟩
  · obtain ⟨a', dynR, _, hinv, hle, hl, hrows, hty⟩ :=
      runTimeout_timedOutL I L hI V hS p ix order dl s fuel o hp hplan hd hlen htyped hkeys hrun
    have hf : FactsS a' = factsOf o.st := by
      funext f
      simp only [FactsS, rowsOf, factsOf, hrows]
    rw [hf, inDB_absStX] at hle
    refine ⟨⟨?_, hty, ?_⟩, hle, ?_⟩
    · rw [← hl]; exact hinv.wf.len
    · intro r _ hlat
      rw [← hrows]; exact hinv.keys r hlat
    · intro hm M hMk hM
      have := hinv.below M ⟨hm, hMk, by rw [inDB_absStX]; exact hM⟩
      rw [hf] at this
      exact this

end AscentVerif.PhysLat
