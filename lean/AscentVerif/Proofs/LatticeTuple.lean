import AscentVerif.Proofs.LatticeProduct
/-!
# `Product<(T0, …, Tn)>` and `Product<[T; N]>` as iterated pairs
-/
namespace AscentVerif.Lat

/-- the accumulators of the component folds can be pulled out -/
structure PTailAcc (β : Type) [PTail β] : Prop where
  pcmp_acc : ∀ (res : Ordering) (x y : β),
    PTail.pcmpFold res x y = (PTail.pcmpFold .eq x y).bind (fun o => combineOrderings o res)
  joinMut_acc : ∀ (c : Bool) (x y : β),
    PTail.joinMutFold c x y = ((PTail.joinMutFold false x y).1, c || (PTail.joinMutFold false x y).2)
  meetMut_acc : ∀ (c : Bool) (x y : β),
    PTail.meetMutFold c x y = ((PTail.meetMutFold false x y).1, c || (PTail.meetMutFold false x y).2)

theorem ptailAcc_unit : PTailAcc Unit where
  pcmp_acc res _ _ := by
    show some res = (some Ordering.eq).bind (fun o => combineOrderings o res)
    cases res <;> rfl
  joinMut_acc c _ _ := by
    show ((), c) = ((), c || false)
    simp
  meetMut_acc c _ _ := by
    show ((), c) = ((), c || false)
    simp

section
variable {α β : Type} [Lat α] [PTail β]

theorem pcmpFold_cons (res : Ordering) (a b : α × β) :
    PTail.pcmpFold res a b =
      (pcmp a.1 b.1).bind (fun ord => (combineOrderings ord res).bind (fun r => PTail.pcmpFold r a.2 b.2)) := by
  show (match pcmp a.1 b.1 with
    | none => none
    | some ord =>
      match combineOrderings ord res with
      | none => none
      | some newRes => PTail.pcmpFold newRes a.2 b.2) = _
  cases pcmp a.1 b.1 with
  | none => rfl
  | some ord =>
    show (match combineOrderings ord res with
      | none => none
      | some newRes => PTail.pcmpFold newRes a.2 b.2) =
        (combineOrderings ord res).bind (fun r => PTail.pcmpFold r a.2 b.2)
    cases combineOrderings ord res <;> rfl

theorem joinMutFold_cons (c : Bool) (a b : α × β) :
    PTail.joinMutFold c a b =
      (((joinMut a.1 b.1).1, (PTail.joinMutFold (c || (joinMut a.1 b.1).2) a.2 b.2).1),
        (PTail.joinMutFold (c || (joinMut a.1 b.1).2) a.2 b.2).2) := rfl

theorem meetMutFold_cons (c : Bool) (a b : α × β) :
    PTail.meetMutFold c a b =
      (((meetMut a.1 b.1).1, (PTail.meetMutFold (c || (meetMut a.1 b.1).2) a.2 b.2).1),
        (PTail.meetMutFold (c || (meetMut a.1 b.1).2) a.2 b.2).2) := rfl

theorem ptailAcc_cons (hb : PTailAcc β) : PTailAcc (α × β) where
  pcmp_acc res x y := by
    rw [pcmpFold_cons, pcmpFold_cons]
    cases pcmp x.1 y.1 with
    | none => rfl
    | some ord =>
      simp only [Option.bind_some, combineOrderings_eq_right]
      rw [hb.pcmp_acc ord]
      cases hc : combineOrderings ord res with
      | none =>
        cases h : PTail.pcmpFold Ordering.eq x.2 y.2 with
        | none => rfl
        | some o =>
          simp only [Option.bind_some, Option.bind_none]
          have := combineOrderings_assoc o ord res
          rw [hc] at this
          exact this.symm
      | some r =>
        simp only [Option.bind_some]
        rw [hb.pcmp_acc r]
        cases h : PTail.pcmpFold Ordering.eq x.2 y.2 with
        | none => rfl
        | some o =>
          simp only [Option.bind_some]
          have := combineOrderings_assoc o ord res
          rw [hc] at this
          exact this.symm
  joinMut_acc c x y := by
    rw [joinMutFold_cons, joinMutFold_cons, hb.joinMut_acc (c || _), hb.joinMut_acc (false || _)]
    simp [Bool.or_assoc]
  meetMut_acc c x y := by
    rw [meetMutFold_cons, meetMutFold_cons, hb.meetMut_acc (c || _), hb.meetMut_acc (false || _)]
    simp [Bool.or_assoc]

theorem product_pcmp_cons (hb : PTailAcc β) (a a' : α) (x x' : β) :
    pcmp (⟨(a, x)⟩ : Product (α × β)) ⟨(a', x')⟩ =
      comb2 (pcmp a a') (pcmp (⟨x⟩ : Product β) ⟨x'⟩) := by
  show PTail.pcmpFold Ordering.eq (a, x) (a', x') = comb2 (pcmp a a') (PTail.pcmpFold Ordering.eq x x')
  rw [pcmpFold_cons]
  cases pcmp a a' with
  | none => rfl
  | some ord =>
    simp only [Option.bind_some, combineOrderings_eq_right]
    rw [hb.pcmp_acc ord]
    cases PTail.pcmpFold Ordering.eq x x' with
    | none => rfl
    | some o => exact combineOrderings_comm o ord

theorem product_pairLike (hb : PTailAcc β) (WFa : α → Prop) (WFb : β → Prop) :
    PairLike α (Product β) (Product (α × β)) WFa (fun p => WFb p.val)
      (fun p => WFa p.val.1 ∧ WFb p.val.2) (fun a x => ⟨(a, x.val)⟩) where
  surj c _ := ⟨c.val.1, ⟨c.val.2⟩, rfl⟩
  inj a b a' b' h := by
    cases b; cases b'
    simp only [Product.mk.injEq, Prod.mk.injEq] at h
    exact ⟨h.1, by rw [h.2]⟩
  wf a b := Iff.rfl
  pcmp_mk a b a' b' := product_pcmp_cons hb a a' b.val b'.val
  join_mk a b a' b' _ _ _ _ := rfl
  meet_mk a b a' b' _ _ _ _ := rfl
  joinMut_mk a b a' b' _ _ _ _ := by
    show ((⟨(PTail.joinMutFold false (a, b.val) (a', b'.val)).1⟩ : Product (α × β)),
      (PTail.joinMutFold false (a, b.val) (a', b'.val)).2) = _
    rw [joinMutFold_cons, hb.joinMut_acc (false || _)]
    simp only [Bool.false_or]
    rfl
  meetMut_mk a b a' b' _ _ _ _ := by
    show ((⟨(PTail.meetMutFold false (a, b.val) (a', b'.val)).1⟩ : Product (α × β)),
      (PTail.meetMutFold false (a, b.val) (a', b'.val)).2) = _
    rw [meetMutFold_cons, hb.meetMut_acc (false || _)]
    simp only [Bool.false_or]
    rfl

theorem lawful_product_cons (hacc : PTailAcc β) {WFa : α → Prop} {WFb : β → Prop}
    (ha : LawfulLat α WFa) (hb : LawfulLat (Product β) (fun p => WFb p.val)) :
    LawfulLat (Product (α × β)) (fun p => WFa p.val.1 ∧ WFb p.val.2) :=
  lawful_pair (product_pairLike hacc WFa WFb) ha hb

end

theorem lawful_product_unit : LawfulLat (Product Unit) (fun _ => True) where
  pcmp_refl _ _ := rfl
  eq_of_pcmp_eq a b _ _ _ := by cases a; cases b; rfl
  pcmp_swap _ _ _ _ := rfl
  le_trans _ _ _ _ _ _ _ _ := rfl
  join_wf _ _ _ _ := trivial
  meet_wf _ _ _ _ := trivial
  le_join_left _ _ _ _ := rfl
  le_join_right _ _ _ _ := rfl
  join_le _ _ _ _ _ _ _ _ := rfl
  meet_le_left _ _ _ _ := rfl
  meet_le_right _ _ _ _ := rfl
  le_meet _ _ _ _ _ _ _ _ := rfl
  joinMut_fst _ _ _ _ := rfl
  joinMut_snd a b _ _ := by
    cases a; cases b
    show false = true ↔ _
    simp
  meetMut_fst _ _ _ _ := rfl
  meetMut_snd a b _ _ := by
    cases a; cases b
    show false = true ↔ _
    simp

end AscentVerif.Lat
