import AscentVerif.Model.EnginePhysPar
import AscentVerif.Proofs.PhysRun
/-!
# The concurrent indices of `Model/EnginePhysPar.lean` against the bags of the engine model

`Res` / `foldRes` algebra, `erase` through the state accessors, the shape invariant of the concurrent indices
(`Shape`: a `CRelNoIndex` exactly for the index on no column, with the shard count of the current pool), and the two
index operations (`PCx.insert`, `mergeIx`) against `IxOk` of the erased index.
-/
namespace AscentVerif.PhysPar
open AscentVerif AscentVerif.Engine AscentVerif.Index AscentVerif.Phys

variable {E B G P A : Type}

/-! ## `Res` -/

@[simp] theorem bind_ok {α β : Type} (a : α) (f : α → Res β) : (Res.ok a >>= f) = f a := rfl
@[simp] theorem bind_panic {α β : Type} (f : α → Res β) : ((Res.panic : Res α) >>= f) = Res.panic := rfl
@[simp] theorem pure_eq_ok {α : Type} (a : α) : (pure a : Res α) = Res.ok a := rfl
@[simp] theorem map_ok {α β : Type} (f : α → β) (a : α) : Res.map f (Res.ok a) = Res.ok (f a) := rfl

theorem foldRes_nil {σ α : Type} (f : σ → α → Res σ) (s : σ) : foldRes f [] s = .ok s := rfl

theorem foldRes_cons_ok {σ α : Type} (f : σ → α → Res σ) (a : α) (l : List α) (s s' : σ) (h : f s a = .ok s') :
    foldRes f (a :: l) s = foldRes f l s' := by
  simp only [foldRes, h]

/-- a fold that never panics under an invariant indexed by the elements processed so far -/
theorem foldRes_inv {σ α : Type} (f : σ → α → Res σ) (Inv : List α → σ → Prop) (l : List α)
    (step : ∀ done s a, a ∈ l → Inv done s → ∃ s', f s a = .ok s' ∧ Inv (done ++ [a]) s') :
    ∀ s, Inv [] s → ∃ s', foldRes f l s = .ok s' ∧ Inv l s' := by
  have gen : ∀ (rest done : List α) (s : σ), done ++ rest = l → Inv done s →
      ∃ s', foldRes f rest s = .ok s' ∧ Inv l s' := by
    intro rest
    induction rest with
    | nil =>
      intro done s hd hi
      rw [List.append_nil] at hd
      subst hd
      exact ⟨s, rfl, hi⟩
    | cons a rest ih =>
      intro done s hd hi
      obtain ⟨s1, h1, hi1⟩ := step done s a (by rw [← hd]; simp) hi
      obtain ⟨s', h2, hi2⟩ := ih (done ++ [a]) s1 (by rw [List.append_assoc]; exact hd) hi1
      exact ⟨s', by rw [foldRes_cons_ok f a rest s s1 h1]; exact h2, hi2⟩
  intro s hi
  exact gen l [] s rfl hi

end AscentVerif.PhysPar

namespace AscentVerif.Phys
/-! ## `Rel2` -/

theorem Rel2.snoc {α β : Type} {R : α → β → Prop} {l : List α} {l' : List β} (h : Rel2 R l l') {a : α} {b : β}
    (hab : R a b) : Rel2 R (l ++ [a]) (l' ++ [b]) := by
  induction h with
  | nil => exact .cons hab .nil
  | cons h1 _ ih => exact .cons h1 ih

theorem Rel2.mono {α β : Type} {R S : α → β → Prop} (hrs : ∀ a b, R a b → S a b) {l : List α} {l' : List β}
    (h : Rel2 R l l') : Rel2 S l l' := by
  induction h with
  | nil => exact .nil
  | cons h1 _ ih => exact .cons (hrs _ _ h1) ih

theorem Rel2.comp {α β γ : Type} {R : α → β → Prop} {S : β → γ → Prop} {l : List α} {l' : List β} {l'' : List γ}
    (h : Rel2 R l l') (h' : Rel2 S l' l'') : Rel2 (fun a c => ∃ b, R a b ∧ S b c) l l'' := by
  induction h generalizing l'' with
  | nil => cases h'; exact .nil
  | cons h1 _ ih =>
    cases h' with
    | cons h2 h3 => exact .cons ⟨_, h1, h2⟩ (ih h3)

theorem Rel2.map_right {α β γ : Type} {R : α → γ → Prop} (g : β → γ) {l : List α} {l' : List β}
    (h : Rel2 (fun a b => R a (g b)) l l') : Rel2 R l (l'.map g) := by
  induction h with
  | nil => exact .nil
  | cons h1 _ ih => exact .cons h1 ih

theorem Rel2.of_map_right {α β γ : Type} {R : α → γ → Prop} (g : β → γ) {l : List α} : ∀ {l' : List β},
    Rel2 R l (l'.map g) → Rel2 (fun a b => R a (g b)) l l' := by
  induction l with
  | nil =>
    intro l' h
    cases l' with
    | nil => exact .nil
    | cons b l' => cases h
  | cons a l ih =>
    intro l' h
    cases l' with
    | nil => cases h
    | cons b l' =>
      cases h with
      | cons h1 h2 => exact .cons h1 (ih h2)

theorem Rel2.forall_right {α β : Type} {R : α → β → Prop} {l : List α} {l' : List β} (h : Rel2 R l l') :
    ∀ b ∈ l', ∃ a ∈ l, R a b := by
  induction h with
  | nil => intro b hb; cases hb
  | cons h1 _ ih =>
    intro b hb
    rcases List.mem_cons.mp hb with rfl | hb
    · exact ⟨_, List.mem_cons_self, h1⟩
    · obtain ⟨a, ha, hr⟩ := ih b hb
      exact ⟨a, List.mem_cons_of_mem _ ha, hr⟩

theorem Rel2.map_eq {α β γ : Type} {R : α → β → Prop} (f : α → γ) (g : β → γ) (hfg : ∀ a b, R a b → f a = g b)
    {l : List α} {l' : List β} (h : Rel2 R l l') : l.map f = l'.map g := by
  induction h with
  | nil => rfl
  | cons h1 _ ih => simp only [List.map_cons, hfg _ _ h1, ih]

theorem Rel2.refl_of {α : Type} {R : α → α → Prop} (l : List α) (h : ∀ a ∈ l, R a a) : Rel2 R l l := by
  induction l with
  | nil => exact .nil
  | cons a l ih => exact .cons (h a List.mem_cons_self) (ih fun b hb => h b (List.mem_cons_of_mem _ hb))

end AscentVerif.Phys

namespace AscentVerif.PhysPar
open AscentVerif AscentVerif.Engine AscentVerif.Index AscentVerif.Phys
variable {E B G P A : Type}

/-- the "collect" folds of the model: every element is transformed, the results are appended in order -/
theorem foldRes_collect {α β γ : Type} (h : α → Res γ) (g : α → γ → β) (Q : α → β → Prop) (l : List α)
    (step : ∀ a ∈ l, ∃ x, h a = .ok x ∧ Q a (g a x)) :
    ∃ out, foldRes (fun (done : List β) (a : α) => h a >>= fun x => pure (done ++ [g a x])) l [] = .ok out ∧
      Rel2 Q l out := by
  obtain ⟨out, h1, h2⟩ := foldRes_inv (fun (done : List β) (a : α) => h a >>= fun x => pure (done ++ [g a x]))
    (fun done out => Rel2 Q done out) l (by
      intro done s a ha hinv
      obtain ⟨b, hb, hq⟩ := step a ha
      exact ⟨s ++ [g a b], by simp only [hb, bind_ok, pure_eq_ok], hinv.snoc hq⟩) [] .nil
  exact ⟨out, h1, h2⟩

/-! ## `erase` through the accessors -/

theorem prel_erase (s : PCSt) (r : RelId) : prel (s.map PCRel.erase) r = (pcrel s r).erase := by
  by_cases hr : r < s.length
  · simp [prel, pcrel, List.getD_eq_getElem?_getD, List.getElem?_map, List.getElem?_eq_getElem hr]
  · have hr' : s.length ≤ r := Nat.le_of_not_lt hr
    simp only [prel, pcrel, List.getD_eq_getElem?_getD, List.getElem?_map, List.getElem?_eq_none hr', Option.map_none,
      Option.getD_none]
    rfl

theorem findPDyn_erase (dyn : List PCDyn) (r : RelId) :
    findPDyn (dyn.map PCDyn.erase) r = (findPCDyn dyn r).map PCDyn.erase := by
  induction dyn with
  | nil => rfl
  | cons d l ih =>
    simp only [List.map_cons, findPDyn_cons]
    simp only [findPCDyn, List.find?_cons] at ih ⊢
    have : d.erase.rel = d.rel := rfl
    rw [this]
    cases d.rel == r with
    | true => rfl
    | false => exact ih

theorem findPCDyn_rel {dyn : List PCDyn} {r : RelId} {d : PCDyn} (h : findPCDyn dyn r = some d) : d.rel = r := by
  have := List.find?_some h
  simpa using this

theorem findPCDyn_mem {dyn : List PCDyn} {r : RelId} {d : PCDyn} (h : findPCDyn dyn r = some d) : d ∈ dyn :=
  List.mem_of_find?_eq_some h

theorem setNth_map {α β : Type} (f : α → β) (l : List α) (i : Nat) (x : α) :
    (setNth l i x).map f = setNth (l.map f) i (f x) := by
  induction l generalizing i with
  | nil => rfl
  | cons a l ih =>
    cases i with
    | zero => rfl
    | succ i => simp only [setNth, List.map_cons, ih]

theorem setPCDyn_erase (dyn : List PCDyn) (d : PCDyn) :
    (setPCDyn dyn d).map PCDyn.erase = setPDyn (dyn.map PCDyn.erase) d.erase := by
  simp only [setPCDyn, setPDyn, List.map_map]
  apply List.map_congr_left
  intro x _
  show PCDyn.erase (if x.rel == d.rel then d else x) = if x.erase.rel == d.erase.rel then d.erase else x.erase
  have h1 : x.erase.rel = x.rel := rfl
  have h2 : d.erase.rel = d.rel := rfl
  rw [h1, h2]
  cases x.rel == d.rel <;> rfl

/-! ## the index on no column -/

theorem projC_nil (row : Tuple) : projC [] row = row := by
  have h0 : ((List.range row.length).filter fun j => !([] : List Nat).contains j) = List.range row.length := by
    apply List.filter_eq_self.mpr
    intro a _; rfl
  unfold projC
  rw [h0]
  apply List.ext_getElem
  · simp
  · intro j h1 h2
    simp [List.getD_eq_getElem?_getD, List.getElem?_eq_getElem h2]

theorem erase_noidx (c : CNoIdx (List Val)) :
    (PCx.noidx c).erase = if c.shards.flatten.isEmpty then [] else [([], c.shards.flatten)] := rfl

theorem proj_nil (row : Tuple) : Plan.proj [] row = [] := rfl

theorem mem_entries_noidx (c : CNoIdx (List Val)) (k x : List Val) :
    (k, x) ∈ Idx.entries (PCx.noidx c).erase ↔ k = [] ∧ x ∈ c.shards.flatten := by
  rw [erase_noidx]
  by_cases he : c.shards.flatten.isEmpty = true
  · rw [if_pos he]
    have : c.shards.flatten = [] := List.isEmpty_iff.mp he
    rw [this]
    simp [Idx.entries]
  · rw [if_neg he]
    simp only [Idx.entries, List.flatMap_cons, List.flatMap_nil, List.append_nil, List.mem_map, Prod.mk.injEq]
    constructor
    · rintro ⟨v, hv, rfl, rfl⟩; exact ⟨rfl, hv⟩
    · rintro ⟨rfl, hx⟩; exact ⟨x, hx, rfl, rfl⟩

theorem noDup_noidx (c : CNoIdx (List Val)) : NoDupKeys (PCx.noidx c).erase := by
  rw [erase_noidx]
  split <;> simp [NoDupKeys]

theorem nonempty_noidx (c : CNoIdx (List Val)) : ∀ kv ∈ (PCx.noidx c).erase, kv.2 ≠ [] := by
  rw [erase_noidx]
  split
  · intro kv h; cases h
  · rename_i he
    intro kv h
    simp only [List.mem_singleton] at h
    subst h
    intro e
    apply he
    simp only at e
    rw [e]; rfl

theorem IxOk_noidx (rows : List Tuple) (bag : List Nat) (c : CNoIdx (List Val)) :
    IxOk rows bag [] (PCx.noidx c).erase ↔ ∀ x, x ∈ c.shards.flatten ↔ ∃ i ∈ bag, x = rowAt rows i := by
  constructor
  · rintro ⟨_, _, h⟩ x
    have := h [] x
    rw [mem_entries_noidx] at this
    simp only [proj_nil, projC_nil, true_and] at this
    exact this
  · intro h
    refine ⟨noDup_noidx c, nonempty_noidx c, fun k x => ?_⟩
    rw [mem_entries_noidx, h x]
    simp only [proj_nil, projC_nil]
    constructor
    · rintro ⟨rfl, i, hi, e⟩; exact ⟨i, hi, rfl, e⟩
    · rintro ⟨i, hi, rfl, e⟩; exact ⟨rfl, i, hi, e⟩

theorem length_modifyNth {α : Type} (l : List α) (i : Nat) (f : α → α) : (modifyNth l i f).length = l.length := by
  induction l generalizing i with
  | nil => rfl
  | cons a l ih =>
    cases i with
    | zero => rfl
    | succ i => simp only [modifyNth, List.length_cons, ih]

theorem mem_flatten_modifyNth {α : Type} (l : List (List α)) (i : Nat) (hi : i < l.length) (v x : α) :
    x ∈ (modifyNth l i fun s => s ++ [v]).flatten ↔ x ∈ l.flatten ∨ x = v := by
  induction l generalizing i with
  | nil => simp at hi
  | cons a l ih =>
    cases i with
    | zero =>
      simp only [modifyNth, List.flatten_cons, List.mem_append, List.mem_singleton]
      constructor
      · rintro ((h | h) | h)
        · exact .inl (.inl h)
        · exact .inr h
        · exact .inl (.inr h)
      · rintro ((h | h) | h)
        · exact .inl (.inl h)
        · exact .inr h
        · exact .inl (.inr h)
    | succ i =>
      have hi' : i < l.length := by simpa using hi
      simp only [modifyNth, List.flatten_cons, List.mem_append, ih i hi']
      constructor
      · rintro (h | h | h)
        · exact .inl (.inl h)
        · exact .inl (.inr h)
        · exact .inr h
      · rintro ((h | h) | h)
        · exact .inl h
        · exact .inr (.inl h)
        · exact .inr (.inr h)

/-! ## the shape of a concurrent index -/

/-- a `CRelNoIndex` exactly for the index on no column, with `N` shards -/
def Shape (N : Nat) (cols : List Nat) : PCx → Prop
  | .map _ _ => cols ≠ []
  | .noidx c => cols = [] ∧ c.shards.length = N

theorem Shape_new (threads : Nat) (cols : List Nat) : Shape (max threads 1) cols (PCx.new threads cols) := by
  unfold PCx.new
  cases cols with
  | nil => exact ⟨rfl, by simp [CNoIdx.new]⟩
  | cons a t =>
    show Shape _ _ (PCx.map false [])
    simp [Shape]

theorem erase_new (threads : Nat) (cols : List Nat) : (PCx.new threads cols).erase = [] := by
  unfold PCx.new
  split
  · simp [PCx.erase, CNoIdx.new]
  · rfl

theorem isFrozen_new (threads : Nat) (cols : List Nat) : (PCx.new threads cols).isFrozen = false := by
  unfold PCx.new
  split <;> rfl

theorem Shape_freeze {N : Nat} {cols : List Nat} {x : PCx} (h : Shape N cols x) : Shape N cols x.freeze := by
  cases x <;> exact h

theorem Shape_unfreeze {N : Nat} {cols : List Nat} {x : PCx} (h : Shape N cols x) : Shape N cols x.unfreeze := by
  cases x <;> exact h

@[simp] theorem erase_freeze (x : PCx) : x.freeze.erase = x.erase := by cases x <;> rfl
@[simp] theorem erase_unfreeze (x : PCx) : x.unfreeze.erase = x.erase := by cases x <;> rfl
@[simp] theorem isFrozen_freeze (x : PCx) : x.freeze.isFrozen = true := by cases x <;> rfl
@[simp] theorem isFrozen_unfreeze (x : PCx) : x.unfreeze.isFrozen = false := by cases x <;> rfl

/-- `index_insert` of a row into an unfrozen index -/
theorem PCx_insert_ok {N : Nat} (hN : 0 < N) {cols : List Nat} {x : PCx} (hs : Shape N cols x) (hf : x.isFrozen = false)
    {rows : List Tuple} {bag : List Nat} (h : IxOk rows bag cols x.erase) (hb : ∀ i ∈ bag, i < rows.length)
    (tid : Nat) (t : Tuple) :
    ∃ x', x.insert tid (Plan.proj cols t) (projC cols t) = .ok x' ∧ Shape N cols x' ∧ x'.isFrozen = false ∧
      IxOk (rows ++ [t]) (bag ++ [rows.length]) cols x'.erase := by
  cases x with
  | map fz m =>
    have hfz : fz = false := hf
    subst hfz
    refine ⟨.map false (Idx.insert m (Plan.proj cols t) (projC cols t)), rfl, hs, rfl, ?_⟩
    exact IxOk_insert t h hb
  | noidx c =>
    obtain ⟨hc, hlen⟩ := hs
    subst hc
    have hfz : c.frozen = false := hf
    refine ⟨.noidx (c.insertMut tid t), ?_, ⟨rfl, ?_⟩, hfz, ?_⟩
    · simp only [PCx.insert, CNoIdx.insert, hfz, projC_nil]
      rfl
    · simp only [CNoIdx.insertMut, length_modifyNth, hlen]
    · rw [IxOk_noidx] at h ⊢
      intro x
      have hi : tid % c.shards.length < c.shards.length := Nat.mod_lt _ (by rw [hlen]; exact hN)
      simp only [CNoIdx.insertMut]
      rw [mem_flatten_modifyNth _ _ hi, h x,
        exists_mem_append_singleton bag rows.length (fun i => x = rowAt (rows ++ [t]) i), rowAt_length_append]
      exact or_congr (bag_rowAt_append t hb (fun r => x = r)).symm Iff.rfl

theorem moveContents_fst_length {V : Type} (frm to : CNoIdx V) :
    (CNoIdx.moveContents frm to).1.shards.length = frm.shards.length := by
  simp only [CNoIdx.moveContents, List.length_append, List.length_map, List.length_zip, List.length_drop]
  omega

/-- `merge_delta_to_total_new_to_delta` on one index, all three versions unfrozen -/
theorem mergeIx_ok {N : Nat} {cols : List Nat} {t : Tri PCx} (st : Shape N cols t.total) (sd : Shape N cols t.delta)
    (sn : Shape N cols t.new) (ft : t.total.isFrozen = false) (fd : t.delta.isFrozen = false)
    (fn : t.new.isFrozen = false) :
    ∃ t', mergeIx t = .ok t' ∧ Shape N cols t'.total ∧ Shape N cols t'.delta ∧ Shape N cols t'.new ∧
      t'.total.isFrozen = false ∧ t'.delta.isFrozen = false ∧ t'.new.isFrozen = false ∧
      ∀ (rows : List Tuple) (bt bd bn : List Nat), IxOk rows bt cols t.total.erase → IxOk rows bd cols t.delta.erase →
        IxOk rows bn cols t.new.erase →
        IxOk rows (bt ++ bd) cols t'.total.erase ∧ IxOk rows bn cols t'.delta.erase ∧ IxOk rows [] cols t'.new.erase := by
  obtain ⟨tt, td, tn⟩ := t
  cases tt with
  | map f1 mt =>
    cases td with
    | map f2 md =>
      have e1 : f1 = false := ft
      have e2 : f2 = false := fd
      subst e1; subst e2
      refine ⟨_, rfl, st, sn, sd, rfl, fn, rfl, ?_⟩
      intro rows bt bd bn ht hd hn
      obtain ⟨g1, g2, g3⟩ := IxOk_shift (t := ⟨mt, md, tn.erase⟩) ht hd hn
      refine ⟨g1, g2, ?_⟩
      show IxOk rows [] cols (shiftIx ⟨mt, md, tn.erase⟩).new
      rw [g3]; exact IxOk_nil _ _
    | noidx cd => exact absurd sd.1 st
  | noidx ct =>
    cases td with
    | map f2 md => exact absurd st.1 sd
    | noidx cd =>
      obtain ⟨hc, lt⟩ := st
      obtain ⟨_, ld⟩ := sd
      subst hc
      obtain ⟨m1, m2, m3⟩ := CNoIdx.moveContents_spec cd ct (by rw [lt, ld]; exact Nat.le_refl _)
      refine ⟨_, rfl, ⟨rfl, by rw [m2]; exact lt⟩, sn, ⟨rfl, by rw [moveContents_fst_length]; exact ld⟩, ft, fn, fd, ?_⟩
      intro rows bt bd bn ht hd hn
      refine ⟨?_, hn, ?_⟩
      · rw [IxOk_noidx] at ht hd ⊢
        intro x
        rw [m3.mem_iff, List.mem_append, ht x, hd x]
        exact (exists_mem_append bt bd (fun i => x = rowAt rows i)).symm
      · show IxOk rows [] [] (PCx.noidx (CNoIdx.moveContents cd ct).1).erase
        rw [IxOk_noidx]
        intro x
        rw [m1]
        simp

end AscentVerif.PhysPar
