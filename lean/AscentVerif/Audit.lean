import Lean
/-!
`#audit_module M` prints, for every theorem declared in module `M`, one line
`AXIOMS <name> : <axioms>` (what `#print axioms` would show), and one line
`AUDIT-COUNT <n>`.  Used by the check driver; not part of the model.
-/
open Lean Elab Command

elab "#audit_module " m:ident : command => do
  let env ← getEnv
  let some idx := env.getModuleIdx? m.getId
    | throwError "unknown module {m.getId}"
  let mut n := 0
  let mut lines : Array String := #[]
  for (name, ci) in env.constants.map₁.toList do
    if env.getModuleIdxFor? name == some idx then
      match ci with
      | .thmInfo _ =>
        if name.isInternal then continue
        let axs ← liftCoreM (collectAxioms name)
        let axs := axs.qsort (fun a b => a.toString < b.toString)
        lines := lines.push s!"AXIOMS {name} : {axs.toList}"
        n := n + 1
      | _ => pure ()
  for l in lines.qsort (· < ·) do
    logInfo l
  logInfo s!"AUDIT-COUNT {n}"
