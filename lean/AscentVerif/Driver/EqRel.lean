import AscentVerif.Model.Sexp
import AscentVerif.Model.EqRelInd
import AscentVerif.Props.C10
import AscentVerif.Driver.Engine
/-!
# Tie C driver for C10: the binary `eqrel` provider (`eq …` serial types, `ceq …` parallel types, one model)

```
eq|ceq mk <n>                 -> ok
eq|ceq ins <n> x y            -> true | false      insert_if_not_present on `new`
eq|ceq merge <n>              -> ok                merge of the common triple + the (no-op) merges of the views
eq|ceq mergecommon <n>        -> ok
eq|ceq mergeview <n>          -> ok                no-op
eq snap <n> delta|total|td e1 … ek
   -> has=<k*k bits> get01=<k*k bits> all01=x:y,… get0=v,v;-;… all0=x:y,… getn=x:y,… alln=x:y,… count=<n>
ceq snap <n> delta|total e1 … ek
   -> has= get01= all01= get0= all0= getn= alln= cget01= call01= cget0= call0= cgetn= calln=    (c…: the parallel read traits)
eqtwin <prog> <t> <arity>     -> ok | differs      are the last three rules of <prog> the closure rules of theorem (a)?
```
`td` is `RelIndexCombined(total, delta)`: `index_get` chains both (None if both are None), `iter_all` chains both.
Lists are printed sorted with multiplicity; a model panic prints `panic` and leaves the state unchanged.
-/
namespace AscentVerif.Driver
open AscentVerif AscentVerif.EqRelM
open AscentVerif.TrRel (Res)

structure EqStore where
  objs : List (String × Triple) := []

private def sortI (l : List Int) : List Int := l.mergeSort (· ≤ ·)
private def sortP (l : List (Int × Int)) : List (Int × Int) :=
  l.mergeSort fun a b => a.1 < b.1 || (a.1 == b.1 && a.2 ≤ b.2)
private def showPairs (l : List (Int × Int)) : String := ",".intercalate ((sortP l).map fun (a, b) => s!"{a}:{b}")
private def showInts (l : List Int) : String := ",".intercalate ((sortI l).map toString)
private def showOptInts : Option (List Int) → String
  | none => "-"
  | some l => showInts l
private def bits (l : List Bool) : String := String.ofList (l.map fun b => if b then '1' else '0')

/-- what one version of the relation answers through its three views -/
structure Views where
  has : List Bool
  get01 : List Bool
  all01 : List (Int × Int)
  get0 : List (Option (List Int))
  all0 : List (Int × Int)
  getn : List (Int × Int)
  alln : List (Int × Int)
  count : Nat

def resMapM {α β : Type} (f : α → Res β) : List α → Res (List β)
  | [] => .ok []
  | x :: xs =>
    match f x, resMapM f xs with
    | .ok y, .ok ys => .ok (y :: ys)
    | _, _ => .panic

def viewsOf (c : IndCommon) (es : List Int) : Res Views := do
  let ps := es.flatMap fun x => es.map fun y => (x, y)
  let has ← resMapM (fun (p : Int × Int) => c.containsKey p.1 p.2) ps
  let get01 ← resMapM (fun (p : Int × Int) => c.fullIndexGet p.1 p.2) ps
  let all01 ← c.fullIterAll
  let get0 ← resMapM (fun x => c.ind0IndexGet x) es
  let all0 := c.ind0IterAll.flatMap fun (x, s) => s.map fun y => (x, y)
  let getn ← c.noneIndexGet
  pure { has := has, get01 := get01, all01 := all01, get0 := get0, all0 := all0, getn := getn, alln := getn, count := c.countExact }

/-- `RelIndexCombined::new(&total_view, &delta_view)` -/
def combineViews (t d : Views) : Views :=
  { has := (t.has.zip d.has).map fun (a, b) => a || b
    get01 := (t.get01.zip d.get01).map fun (a, b) => a || b
    all01 := t.all01 ++ d.all01
    get0 := (t.get0.zip d.get0).map fun
      | (none, none) => none
      | (a, b) => some (a.getD [] ++ b.getD [])
    all0 := t.all0 ++ d.all0
    getn := t.getn ++ d.getn
    alln := t.alln ++ d.alln
    count := t.count + d.count }

def showViews (v : Views) : String :=
  s!"has={bits v.has} get01={bits v.get01} all01={showPairs v.all01} get0={";".intercalate (v.get0.map showOptInts)} " ++
  s!"all0={showPairs v.all0} getn={showPairs v.getn} alln={showPairs v.alln}"

def showCViews (v : Views) : String :=
  s!"cget01={bits v.get01} call01={showPairs v.all01} cget0={";".intercalate (v.get0.map showOptInts)} " ++
  s!"call0={showPairs v.all0} cgetn={showPairs v.getn} calln={showPairs v.alln}"

private def getT (s : EqStore) (n : String) : Option Triple := (s.objs.find? (·.1 == n)).map (·.2)
private def setT (s : EqStore) (n : String) (t : Triple) : EqStore := { objs := (n, t) :: s.objs.filter (·.1 != n) }

/-- `par`: the parallel provider's protocol variant -/
def handleEq (par : Bool) (s : EqStore) : List Sexp → Option (EqStore × String)
  | [.atom "mk", .atom n] => some (setT s n {}, "ok")
  | [.atom "ins", .atom n, x, y] => do
    let t ← getT s n
    let x ← x.asInt?
    let y ← y.asInt?
    match t.ins x y with
    | .panic => some (s, "panic")
    | .ok (t', b) => some (setT s n t', toString b)
  | [.atom op, .atom n] => do
    let t ← getT s n
    if op == "merge" || op == "mergecommon" then
      match t.merge with
      | .panic => some (s, "panic")
      | .ok t' => some (setT s n t', "ok")
    else if op == "mergeview" then some (s, "ok")
    else none
  | .atom "snap" :: .atom n :: .atom ver :: es => do
    let t ← getT s n
    let es ← es.mapM Sexp.asInt?
    let r : Res (Option Views) := do
      if ver == "delta" then pure (some (← viewsOf t.delta es))
      else if ver == "total" then pure (some (← viewsOf t.total es))
      else if ver == "td" && !par then pure (some (combineViews (← viewsOf t.total es) (← viewsOf t.delta es)))
      else pure none
    match r with
    | .panic => some (s, "panic")
    | .ok none => none
    | .ok (some v) => some (s, if par then showViews v ++ " " ++ showCViews v else showViews v ++ s!" count={v.count}")
  | _ => none

/-- are the last three rules of the program the closure rules `eqRules2` / `eqRules3` of Props/C10.lean for relation `t`
(compared through `Repr`: the rule types have no decidable equality) -/
def handleEqTwin : List Sexp → Option String
  | [p, t, ar] => do
    let pd ← parseProg p
    let t ← t.asNat?
    let ar ← ar.asNat?
    let rules := pd.prog.rules
    let last3 := rules.drop (rules.length - 3)
    let expected : List (Rule Std.Ex Std.Bx Std.Gx Std.Px Std.Ax) :=
      if ar == 2 then C10.eqRules2 Std.Ex.var t else C10.eqRules3 Std.Ex.var t
    some (if rules.length ≥ 3 && toString (repr last3) == toString (repr expected) then "ok" else "differs")
  | _ => none

end AscentVerif.Driver
