import AscentVerif.Driver.Engine
import AscentVerif.Model.StdOps
/-!
# Driver op `eng sprog <id> <surface program>`: parse a surface program, desugar it with the Lean model of the
implemented pipeline (`Model/Desugar.lean`) and store the resulting core program, so that `eng new/load/run/dump` run it.
-/
namespace AscentVerif.Driver
open AscentVerif AscentVerif.Std AscentVerif.Engine AscentVerif.Surface

abbrev XItem := Surface.SItem Ex Bx Gx Px Ax (MInv Ex)
abbrev XItems := Surface.SItems Ex Bx Gx Px Ax (MInv Ex)
abbrev XAlts := Surface.SAlts Ex Bx Gx Px Ax (MInv Ex)
abbrev XRule := Surface.SRule Ex Bx Gx Px Ax (MInv Ex)

/-- `?None` binds nothing: the driver reads it as the constant argument `None` (the pattern type of the ties has `Some` only) -/
def parseSArg : Sexp → Option (SArg Ex Px)
  | .list [.atom "v", n] => n.asNat?.map .var
  | .list [.atom "e", e] => (parseEx e).map .expr
  | .atom "_" => some .wild
  | .list [.atom "ps", n] => n.asNat?.map fun v => .pat .some [v]
  | .atom "pn" => some (.expr (.const .optNone))
  | _ => none

def parseNArg : Sexp → Option (NArg Ex)
  | .atom "_" => some .wild
  | .list [.atom "k", e] => (parseEx e).map .expr
  | _ => none

def parseMArg : Sexp → Option (MArg Ex)
  | .list [.atom "id", n] => n.asNat?.map .ident
  | .list [.atom "ex", e] => (parseEx e).map .expr
  | _ => none

mutual
partial def parseSItem : Sexp → Option XItem
  | .list (.atom "cl" :: r :: .list args :: conds) => do
    some (Surface.SItem.flat (.clause (← r.asNat?) (← args.mapM parseSArg) (← conds.mapM parseCond)))
  | .list (.atom "or" :: alts) => do some (Surface.SItem.disj (← parseSAlts alts))
  | .list [.atom "neg", r, .list args] => do some (Surface.SItem.flat (.neg (← r.asNat?) (← args.mapM parseNArg)))
  | .list (.atom "mac" :: m :: args) => do some (Surface.SItem.mac { mac := ← m.asNat?, args := ← args.mapM parseMArg })
  | other =>
    match parseItem other with
    | some (.cond c) => some (Surface.SItem.flat (.cond c))
    | some (.gen v g) => some (Surface.SItem.flat (.gen v g))
    | some (.agg a) => some (Surface.SItem.flat (.agg a))
    | _ => none
partial def parseSItems : List Sexp → Option XItems
  | [] => some .nil
  | x :: xs => do some (.cons (← parseSItem x) (← parseSItems xs))
partial def parseSAlts : List Sexp → Option XAlts
  | [] => some .nil
  | .list (.atom "alt" :: items) :: rest => do some (.cons (← parseSItems items) (← parseSAlts rest))
  | _ => none
end

def parseSHead : Sexp → Option (SHead Ex (MInv Ex))
  | .list (.atom "mac" :: m :: args) => do some (SHead.mac { mac := ← m.asNat?, args := ← args.mapM parseMArg })
  | h => (parseHead h).map SHead.clause

def parseKindP : Sexp → Option ParamKind
  | .atom "ident" => some .ident
  | .atom "expr" => some .expr
  | _ => none

def parseMacro : Sexp → Option (MacroDef Ex Bx Gx Px Ax)
  | .list (.atom "bmac" :: .list ks :: items) => do some { params := ← ks.mapM parseKindP, body := ← parseSItems items, heads := [] }
  | .list (.atom "hmac" :: .list ks :: heads) => do some { params := ← ks.mapM parseKindP, body := .nil, heads := ← heads.mapM parseSHead }
  | _ => none

def parseSRule : Sexp → Option XRule
  | .list [.atom "srule", .list (.atom "heads" :: hs), .list (.atom "body" :: bs)] => do
    some { heads := ← hs.mapM parseSHead, body := ← parseSItems bs }
  | _ => none

/-- `eng sprog <id> (sprog (rels ..) (macros ..) (rules ..))` -/
def handleSProg (s : EngStore) : List Sexp → Option (EngStore × String)
  | [.atom id, .list [.atom "sprog", .list (.atom "rels" :: rs), .list (.atom "macros" :: ms), .list (.atom "rules" :: rules)]] => do
    let decls ← rs.mapM fun
      | .list [.atom "rel", n] => do some (({ arity := ← n.asNat?, lat := false } : RelDecl), LatKind.maxInt)
      | .list [.atom "lat", n, k] => do some (({ arity := ← n.asNat?, lat := true } : RelDecl), ← parseKind k)
      | _ => none
    let defs ← ms.mapM parseMacro
    let srules ← rules.mapM parseSRule
    match desugarProgram stdOps defs srules with
    | .error (.expand .recursive) => some (s, "reject RecursiveMacro")
    | .error (.expand .undefinedMacro) => some (s, "reject UndefinedMacro")
    | .error (.expand .badArgs) => some (s, "reject MacroArgs")
    | .error .leftover => some (s, "desugar-leftover")
    | .ok core =>
      let p : SProgram := { rels := decls.map (·.1), rules := core }
      let pd : ProgDef := { prog := p, kinds := decls.map (·.2), order := computeOrder p }
      if pd.order.any (fun scc => aggOverDynamic pd.prog scc) then some (s, "reject NotStratifiable")
      else if !validOrder pd.prog pd.order then some (s, "bad-order")
      else some ({ s with progs := (id, pd) :: s.progs.filter (·.1 != id) }, "ok")
  | _ => none

end AscentVerif.Driver
