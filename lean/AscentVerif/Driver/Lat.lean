import AscentVerif.Model.Sexp
import AscentVerif.Model.Lattice
namespace AscentVerif.Driver
open AscentVerif AscentVerif.Lat

class Codec (α : Type) where
  parse : Sexp → Option α
  render : α → String

/-- components of a tuple given as a list of s-expressions -/
class CodecList (β : Type) where
  parseList : List Sexp → Option β
  renderList : β → List String

private def tagged (s : Sexp) (tag : String) : Option (List Sexp) :=
  match s with
  | .list (.atom t :: rest) => if t == tag then some rest else none
  | _ => none

instance : Codec (BInt lo hi) where
  parse s := do
    let v ← s.asInt?
    if lo ≤ v ∧ v ≤ hi then some ⟨v⟩ else none
  render a := toString a.val

instance : Codec Bool where
  parse s := match s with
    | .atom "true" => some true
    | .atom "false" => some false
    | _ => none
  render b := if b then "true" else "false"

instance [Codec α] : Codec (Prim α) where
  parse s := (Codec.parse s).map Prim.mk
  render a := Codec.render a.val

instance : Codec Unit where
  parse s := match s with
    | .atom "unit" => some ()
    | _ => none
  render _ := "unit"

instance [Codec α] : Codec (Option α) where
  parse s := match s with
    | .atom "none" => some none
    | _ => do
      match ← tagged s "some" with
      | [x] => (Codec.parse x).map some
      | _ => none
  render
    | none => "none"
    | some x => s!"(some {Codec.render x})"

private def parse1 [Codec α] (s : Sexp) (tag : String) : Option α := do
  match ← tagged s tag with
  | [x] => Codec.parse x
  | _ => none

instance [Codec α] : Codec (Dual α) := ⟨fun s => (parse1 s "dual").map Dual.mk, fun a => s!"(dual {Codec.render a.val})"⟩
instance [Codec α] : Codec (DualLin α) := ⟨fun s => (parse1 s "dual").map DualLin.mk, fun a => s!"(dual {Codec.render a.val})"⟩
instance [Codec α] : Codec (Rev α) := ⟨fun s => (parse1 s "rev").map Rev.mk, fun a => s!"(rev {Codec.render a.val})"⟩
instance [Codec α] : Codec (Boxed α) := ⟨fun s => (parse1 s "box").map Boxed.mk, fun a => s!"(box {Codec.render a.val})"⟩
instance [Codec α] : Codec (OrdLat α) := ⟨fun s => (parse1 s "ord").map OrdLat.mk, fun a => s!"(ord {Codec.render a.val})"⟩
/-- `Rc` and `Arc` share one model; the tag is remembered by trying both -/
instance [Codec α] : Codec (Shared α) :=
  ⟨fun s => ((parse1 s "rc").map Shared.mk).orElse fun _ => (parse1 s "arc").map Shared.mk,
   fun a => s!"(shared {Codec.render a.val})"⟩

instance : CodecList Unit := ⟨fun l => if l.isEmpty then some () else none, fun _ => []⟩
instance [Codec α] [CodecList β] : CodecList (α × β) where
  parseList
    | x :: rest => do some (← Codec.parse x, ← CodecList.parseList rest)
    | [] => none
  renderList p := Codec.render p.1 :: CodecList.renderList p.2

/-- a lexicographic tuple nested inside `OrdLattice` (printed by Rust as a plain tuple) -/
instance [Codec α] [CodecList β] : Codec (α × β) where
  parse s := do
    let xs ← (tagged s "ltup").orElse fun _ => tagged s "tup"
    CodecList.parseList xs
  render p := "(tup " ++ " ".intercalate (CodecList.renderList p) ++ ")"

instance [CodecList β] : Codec (LexTuple β) where
  parse s := do (CodecList.parseList (← tagged s "tup")).map LexTuple.mk
  render p := "(tup " ++ " ".intercalate (CodecList.renderList p.val) ++ ")"

instance [CodecList β] : Codec (Product β) where
  parse s := do (CodecList.parseList (← tagged s "prod")).map Product.mk
  render p := "(prod " ++ " ".intercalate (CodecList.renderList p.val) ++ ")"

instance [Codec α] : Codec (ProductArr α) where
  parse s := do
    let xs ← tagged s "arr"
    (xs.mapM Codec.parse).map ProductArr.mk
  render p := if p.val.isEmpty then "(arr)" else "(arr " ++ " ".intercalate (p.val.map Codec.render) ++ ")"

private def renderSet (tag : String) (l : List Int) : String :=
  if l.isEmpty then s!"({tag})" else s!"({tag} " ++ " ".intercalate (l.map toString) ++ ")"

instance : Codec LSet where
  parse s := do
    let xs ← tagged s "set"
    let vs ← xs.mapM Sexp.asInt?
    some ⟨vs.foldl (fun acc x => setInsert x acc) []⟩
  render a := renderSet "set" a.elems

instance : Codec (BSet n) where
  parse s := match s with
    | .atom "top" => some ⟨none⟩
    | _ => do
      let xs ← tagged s "bset"
      let vs ← xs.mapM Sexp.asInt?
      let l := vs.foldl (fun acc x => setInsert x acc) []
      if l.length ≤ n then some ⟨some ⟨l⟩⟩ else none
  render a := match a.val with
    | none => "top"
    | some s => renderSet "bset" s.elems

instance [Codec α] : Codec (ConstProp α) where
  parse s := match s with
    | .atom "bot" => some .bottom
    | .atom "top" => some .top
    | _ => (parse1 s "const").map ConstProp.const
  render
    | .bottom => "bot"
    | .top => "top"
    | .const x => s!"(const {Codec.render x})"

private def showOrd : Option Ordering → String
  | none => "none"
  | some .lt => "lt"
  | some .eq => "eq"
  | some .gt => "gt"

private def b01 (b : Bool) : String := if b then "1" else "0"

def latPair (α : Type) [Lat α] [Codec α] (args : List Sexp) : Option String := do
  match args with
  | [sa, sb] =>
    let a : α ← Codec.parse sa
    let b : α ← Codec.parse sb
    let c := pcmp a b
    let jm := joinMut a b
    let mm := meetMut a b
    let ops := b01 (c == some .lt) ++ b01 (le a b) ++ b01 (c == some .gt) ++ b01 (ge a b)
    some s!"cmp={showOrd c} ops={ops} join={Codec.render (join a b)} meet={Codec.render (meet a b)} joinmut={Codec.render jm.1} {jm.2} meetmut={Codec.render mm.1} {mm.2}"
  | _ => none

def latBounds (α : Type) [BLat α] [Codec α] : Option String :=
  some s!"bottom={Codec.render (BLat.bottom : α)} top={Codec.render (BLat.top : α)}"

end AscentVerif.Driver
