import AscentVerif.Model.Sexp
import AscentVerif.Model.UnionFind
import AscentVerif.Model.TrRelUF
/-!
# Tie C driver for C18: `uf …` (UnionFind) and `tr …` (TrRelUnionFind) line protocol

```
uf mk <n>                 -> ok
uf add <n> x              -> new <id> | old <id>
uf finditem <n> x         -> some <id> | none
uf find <n> <id>          -> <id>            (noid if <id> was never handed out)
uf union <n> <idx> <idy>  -> <id>            (noid likewise)
uf unionadd <n> x y       -> <id>
uf same <n> x y           -> true | false | none   (find_item x == find_item y; none if either is unknown)
uf len <n>                -> <len>
uf ok <n>                 -> true | false
uf snap <n> e1 … ek       -> len=<len> ok=<b> reps=<id|->,… same=<1|0|-> per pair i<j
tr mk <n>                 -> ok
tr add <n> x y            -> true | false
tr contains <n> x y       -> true | false
tr iterall <n>            -> all x:y …       (sorted, with multiplicity)
tr setof <n> x            -> some y … | none (sorted)
tr revsetof <n> x         -> some y … | none
tr count <n>              -> <count_exact>
tr ok <n>                 -> true | false    (both assert_* hold)
tr snap <n> e1 … ek       -> contains=<k*k bits> all=x:y,… setof=…;… revsetof=…;… count=<n> ok=<b>
```
Every op prints `panic` if the model panics (the state is then left unchanged).  A printed
`<id>` is the position of the id in the list of ids handed out so far (order of first
hand-out) — the Rust `Id` is opaque, so the harness can only number ids that way, and the
driver numbers the model's ids (vector indices) identically.  While items are created by `add`
only, position = vector index = order in which distinct items were first added.
-/
namespace AscentVerif.Driver
open AscentVerif

/-- a `UnionFind` together with the ids it has handed out so far, in order of first hand-out
(the Rust harness keeps the same vector of opaque `Id`s); ids are printed as positions in it -/
structure UfObj where
  u : UF.UnionFind := {}
  ids : List Nat := []

/-- the protocol number of a model id (registering it on first hand-out) -/
def UfObj.num (o : UfObj) (id : Nat) : UfObj × Nat :=
  match o.ids.idxOf? id with
  | some p => (o, p)
  | none => ({ o with ids := o.ids ++ [id] }, o.ids.length)

structure UFStore where
  ufs : List (String × UfObj) := []
  trs : List (String × TrRel.TrRel) := []

private def getObj {α : Type} (s : List (String × α)) (n : String) : Option α := (s.find? (·.1 == n)).map (·.2)
private def setObj {α : Type} (s : List (String × α)) (n : String) (o : α) : List (String × α) := (n, o) :: s.filter (·.1 != n)

private def sortInts (l : List Int) : List Int := l.mergeSort (· ≤ ·)
private def sortPairs (l : List (Int × Int)) : List (Int × Int) :=
  l.mergeSort fun a b => a.1 < b.1 || (a.1 == b.1 && a.2 ≤ b.2)

private def showOptSet : Option (List Int) → String
  | none => "none"
  | some vs => "some" ++ String.join ((sortInts vs).map fun v => s!" {v}")

private def showOptSetC : Option (List Int) → String
  | none => "none"
  | some vs => ",".intercalate ((sortInts vs).map toString)

/-! ## uf -/

/-- `find_item x == find_item y` with the two calls in this order -/
def ufSame (u : UF.UnionFind) (x y : Int) : UF.Res (UF.UnionFind × String) :=
  match u.findItem x with
  | .panic => .panic
  | .ok (u1, a) =>
    match u1.findItem y with
    | .panic => .panic
    | .ok (u2, b) =>
      .ok (u2, match a, b with
        | some a, some b => toString (a == b)
        | _, _ => "none")

def ufSnap (o : UfObj) (es : List Int) : UF.Res (UfObj × String) :=
  match o.u.len with
  | .panic => .panic
  | .ok len =>
  match o.u.ok with
  | .panic => .panic
  | .ok (u, okb) =>
  match reps { o with u := u } es [] with
  | .panic => .panic
  | .ok (o, rs) =>
  match sames o.u (pairs es) "" with
  | .panic => .panic
  | .ok (u, ss) => .ok ({ o with u := u }, s!"len={len} ok={okb} reps={",".intercalate rs} same={ss}")
where
  pairs : List Int → List (Int × Int)
    | [] => []
    | x :: rest => rest.map (fun y => (x, y)) ++ pairs rest
  reps (o : UfObj) : List Int → List String → UF.Res (UfObj × List String)
    | [], acc => .ok (o, acc.reverse)
    | e :: rest, acc =>
      match o.u.findItem e with
      | .panic => .panic
      | .ok (u', none) => reps { o with u := u' } rest ("-" :: acc)
      | .ok (u', some i) =>
        let (o', k) := UfObj.num { o with u := u' } i
        reps o' rest (toString k :: acc)
  sames (u : UF.UnionFind) : List (Int × Int) → String → UF.Res (UF.UnionFind × String)
    | [], acc => .ok (u, acc)
    | (x, y) :: rest, acc =>
      match ufSame u x y with
      | .panic => .panic
      | .ok (u', s) => sames u' rest (acc ++ (if s == "true" then "1" else if s == "false" then "0" else "-"))

/-- store the object after an op that returned model id `id`; print its protocol number -/
private def putId (st : UFStore) (n : String) (o : UfObj) (u' : UF.UnionFind) (id : Nat) (pre : String := "") : UFStore × String :=
  let (o', k) := UfObj.num { o with u := u' } id
  ({ st with ufs := setObj st.ufs n o' }, s!"{pre}{k}")

def handleUf (st : UFStore) : List Sexp → Option (UFStore × String)
  | [.atom "mk", .atom n] => some ({ st with ufs := setObj st.ufs n {} }, "ok")
  | [.atom "add", .atom n, x] => do
    let o ← getObj st.ufs n
    match o.u.add (← x.asInt?) with
    | .panic => some (st, "panic")
    | .ok (u', isNew, id) => some (putId st n o u' id (if isNew then "new " else "old "))
  | [.atom "finditem", .atom n, x] => do
    let o ← getObj st.ufs n
    match o.u.findItem (← x.asInt?) with
    | .panic => some (st, "panic")
    | .ok (u', none) => some ({ st with ufs := setObj st.ufs n { o with u := u' } }, "none")
    | .ok (u', some id) => some (putId st n o u' id "some ")
  | [.atom "find", .atom n, i] => do
    let o ← getObj st.ufs n
    match o.ids[← i.asNat?]? with
    | none => some (st, "noid")
    | some id =>
      match o.u.find id with
      | .panic => some (st, "panic")
      | .ok (u', r) => some (putId st n o u' r)
  | [.atom "union", .atom n, i, j] => do
    let o ← getObj st.ufs n
    match o.ids[← i.asNat?]?, o.ids[← j.asNat?]? with
    | some a, some b =>
      match o.u.union a b with
      | .panic => some (st, "panic")
      | .ok (u', r) => some (putId st n o u' r)
    | _, _ => some (st, "noid")
  | [.atom "unionadd", .atom n, x, y] => do
    let o ← getObj st.ufs n
    match o.u.unionAdd (← x.asInt?) (← y.asInt?) with
    | .panic => some (st, "panic")
    | .ok (u', r) => some (putId st n o u' r)
  | [.atom "same", .atom n, x, y] => do
    let o ← getObj st.ufs n
    match ufSame o.u (← x.asInt?) (← y.asInt?) with
    | .panic => some (st, "panic")
    | .ok (u', s) => some ({ st with ufs := setObj st.ufs n { o with u := u' } }, s)
  | [.atom "len", .atom n] => do
    let o ← getObj st.ufs n
    match o.u.len with
    | .panic => some (st, "panic")
    | .ok l => some (st, toString l)
  | [.atom "ok", .atom n] => do
    let o ← getObj st.ufs n
    match o.u.ok with
    | .panic => some (st, "panic")
    | .ok (u', b) => some ({ st with ufs := setObj st.ufs n { o with u := u' } }, toString b)
  | .atom "snap" :: .atom n :: es => do
    let o ← getObj st.ufs n
    let es ← es.mapM Sexp.asInt?
    match ufSnap o es with
    | .panic => some (st, "panic")
    | .ok (o', s) => some ({ st with ufs := setObj st.ufs n o' }, s)
  | _ => none

/-! ## tr -/

def trOk (t : TrRel.TrRel) : Bool := t.disjointInvariant && t.connectionsDominant

def trSnap (t : TrRel.TrRel) (es : List Int) : TrRel.Res String := do
  let mut bits := ""
  for x in es do
    for y in es do
      bits := bits ++ (if (← t.contains x y) then "1" else "0")
  let all ← t.iterAll
  let alls := ",".intercalate ((sortPairs all).map fun p => s!"{p.1}:{p.2}")
  let so ← es.mapM fun x => t.setOf x
  let rs ← es.mapM fun x => t.revSetOf x
  let cnt ← t.countExact
  pure s!"contains={bits} all={alls} setof={";".intercalate (so.map showOptSetC)} revsetof={";".intercalate (rs.map showOptSetC)} count={cnt} ok={trOk t}"

private def showRes (r : TrRel.Res String) : String :=
  match r with
  | .ok s => s
  | .panic => "panic"

def handleTr (st : UFStore) : List Sexp → Option (UFStore × String)
  | [.atom "mk", .atom n] => some ({ st with trs := setObj st.trs n {} }, "ok")
  | [.atom "add", .atom n, x, y] => do
    let t ← getObj st.trs n
    match t.add (← x.asInt?) (← y.asInt?) with
    | .panic => some (st, "panic")
    | .ok (t', b) => some ({ st with trs := setObj st.trs n t' }, toString b)
  | [.atom "contains", .atom n, x, y] => do
    let t ← getObj st.trs n
    let x ← x.asInt?
    let y ← y.asInt?
    some (st, showRes do let b ← t.contains x y; pure (toString b))
  | [.atom "iterall", .atom n] => do
    let t ← getObj st.trs n
    some (st, showRes do
      let all ← t.iterAll
      pure ("all" ++ String.join ((sortPairs all).map fun p => s!" {p.1}:{p.2}")))
  | [.atom "setof", .atom n, x] => do
    let t ← getObj st.trs n
    let x ← x.asInt?
    some (st, showRes do let r ← t.setOf x; pure (showOptSet r))
  | [.atom "revsetof", .atom n, x] => do
    let t ← getObj st.trs n
    let x ← x.asInt?
    some (st, showRes do let r ← t.revSetOf x; pure (showOptSet r))
  | [.atom "count", .atom n] => do
    let t ← getObj st.trs n
    some (st, showRes do let c ← t.countExact; pure (toString c))
  | [.atom "ok", .atom n] => do
    let t ← getObj st.trs n
    some (st, toString (trOk t))
  | .atom "snap" :: .atom n :: es => do
    let t ← getObj st.trs n
    let es ← es.mapM Sexp.asInt?
    some (st, showRes (trSnap t es))
  | _ => none

end AscentVerif.Driver
