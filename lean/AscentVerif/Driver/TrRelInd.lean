import AscentVerif.Model.Sexp
import AscentVerif.Model.TrRelInd
/-!
# Tie C driver for C11: `trp …` line protocol (the trrel provider's `new` / `delta` / `total` triple)

```
trp mk <n> b | t11 | t00          -> ok        binary / ternary with both / without reverse maps: three `Default`s, then `init`
trp ins <n> v…                    -> true|false        insert_if_not_present on `new` (write view of the full index)
trp add <n> v…                    -> dup|true|false    head update of generated code: contains_key(total), contains_key(delta), else ins
trp merge <n>                     -> ok        merge_delta_to_total_new_to_delta(new, delta, total)
trp restart <n>                   -> ok        next run()/stratum entry: (new, delta, total) := (Default, total, Default); init
trp has <n> <ver> v…              -> true|false        contains_key; ver ∈ new delta total
trp get <n> <ver> <view> key…     -> none | some[v;v;…]        index_get; ver ∈ delta total td (td = RelIndexCombined(total, delta))
trp all <n> <ver> <view>          -> all[key>v;v|key>…]        iter_all
trp empty <n> <ver> <view>        -> true|false        RelIndexRead::is_empty
trp lenest12 <n> <ver>            -> <n>       len_estimate of the ternary view [1,2]
trp snap <n> d1 … dk              -> has/get/all of every version and view over the domain, one line
```
views: `n 0 1 01` (binary), `n 0 1 2 01 02 12 012` (ternary).  Values and keys are printed as `a:b:c` (`()` for the
empty tuple), collections sorted.  An op on which the model panics prints `panic` and removes the object (the Rust
value may be half-updated), so both sides answer `bad-op` afterwards.
-/
namespace AscentVerif.Driver.Trp
open AscentVerif AscentVerif.TrRelInd

inductive TrpObj where
  | bin (nw dl tt : Common)
  | tern (nw dl tt : Tern) (has1 has2 : Bool)

abbrev TrpStore := List (String × TrpObj)

private def trpGet (s : TrpStore) (n : String) : Option TrpObj := (s.find? (·.1 == n)).map (·.2)
private def trpSet (s : TrpStore) (n : String) (o : TrpObj) : TrpStore := (n, o) :: s.filter (·.1 != n)
private def trpDel (s : TrpStore) (n : String) : TrpStore := s.filter (·.1 != n)

def lexLe : List Int → List Int → Bool
  | [], _ => true
  | _ :: _, [] => false
  | a :: as, b :: bs => a < b || (a == b && lexLe as bs)

def fmtTuple (t : List Int) : String := if t.isEmpty then "()" else ":".intercalate (t.map toString)
def fmtVals (vs : List (List Int)) : String := ";".intercalate ((vs.mergeSort lexLe).map fmtTuple)

def fmtGet : Option (List (List Int)) → String
  | none => "none"
  | some vs => s!"some[{fmtVals vs}]"

def fmtAll (es : List (List Int × List (List Int))) : String :=
  let es := es.map fun e => (e.1, e.2.mergeSort lexLe)
  let es := es.mergeSort fun a b => lexLe a.1 b.1 && (a.1 != b.1 || lexLe a.2.flatten b.2.flatten)
  "all[" ++ "|".intercalate (es.map fun e => s!"{fmtTuple e.1}>{";".intercalate (e.2.map fmtTuple)}") ++ "]"

/-! ## one version, one view -/

def trpBinGet (c : Common) (view : String) (key : List Int) : Option (Res (Option (List (List Int)))) :=
  match view, key with
  | "n", [] => some (.ok (some (c.getNone.map fun p => [p.1, p.2])))
  | "0", [x] => some do let r ← c.get0 x; pure (r.map fun ys => ys.map fun y => [y])
  | "1", [y] => some (.ok ((c.get1 y).map fun xs => xs.map fun x => [x]))
  | "01", [x, y] => some (.ok (if c.getFull x y then some [[]] else none))
  | _, _ => none

def trpBinAll (c : Common) (view : String) : Option (Res (List (List Int × List (List Int)))) :=
  match view with
  | "n" => some (.ok [([], c.getNone.map fun p => [p.1, p.2])])
  | "0" => some do let m ← c.all0; pure (m.map fun xs => ([xs.1], xs.2.map fun y => [y]))
  | "1" => some (.ok (c.all1.map fun ys => ([ys.1], ys.2.map fun x => [x])))
  | "01" => some (.ok (c.allFull.map fun p => ([p.1, p.2], [[]])))
  | _ => none

def binEmpty (c : Common) (view : String) : Option (Res Bool) :=
  match view with
  | "n" => some (.ok false)
  | "0" => some c.isEmpty0
  | "1" => some (.ok c.isEmpty1)
  | "01" => some (.ok c.isEmptyFull)
  | _ => none

def ternGet (t : Tern) (view : String) (key : List Int) : Option (Res (Option (List (List Int)))) :=
  match view, key with
  | "n", [] => some (.ok (some (t.getNone.map fun p => [p.1, p.2.1, p.2.2])))
  | "0", [k] => some (.ok ((t.get0 k).map fun ps => ps.map fun p => [p.1, p.2]))
  | "1", [x] => some do let r ← t.get1 x; pure (r.map fun ps => ps.map fun p => [p.1, p.2])
  | "2", [y] => some do let r ← t.get2 y; pure (r.map fun ps => ps.map fun p => [p.1, p.2])
  | "01", [k, x] => some (.ok ((t.get01 k x).map fun ys => ys.map fun y => [y]))
  | "02", [k, y] => some (.ok ((t.get02 k y).map fun xs => xs.map fun x => [x]))
  | "12", [x, y] => some do let r ← t.get12 x y; pure (r.map fun ks => ks.map fun k => [k])
  | "012", [k, x, y] => some (.ok (if t.getFull k x y then some [[]] else none))
  | _, _ => none

def ternAll (t : Tern) (view : String) : Option (Res (List (List Int × List (List Int)))) :=
  match view with
  | "n" => some (.ok [([], t.getNone.map fun p => [p.1, p.2.1, p.2.2])])
  | "0" => some (.ok (t.all0.map fun e => ([e.1], e.2.map fun p => [p.1, p.2])))
  | "1" => some do let m ← t.all1; pure (m.map fun e => ([e.1], e.2.map fun p => [p.1, p.2]))
  | "2" => some do let m ← t.all2; pure (m.map fun e => ([e.1], e.2.map fun p => [p.1, p.2]))
  | "01" => some (.ok (t.all01.map fun e => ([e.1.1, e.1.2], e.2.map fun y => [y])))
  | "02" => some (.ok (t.all02.map fun e => ([e.1.1, e.1.2], e.2.map fun x => [x])))
  | "12" => some do let m ← t.all12; pure (m.map fun e => ([e.1.1, e.1.2], e.2.map fun k => [k]))
  | "012" => some (.ok (t.allFull.map fun p => ([p.1, p.2.1, p.2.2], [[]])))
  | _ => none

def ternEmpty (t : Tern) (view : String) : Option (Res Bool) :=
  match view with
  | "n" | "12" => some (.ok false)              -- no `is_empty` override: the trait default
  | "0" | "01" | "02" => some (.ok t.isEmpty0)
  | "1" => some t.isEmpty1
  | "2" => some t.isEmpty2
  | "012" => some (.ok t.isEmptyFull)
  | _ => none

/-! ## versions -/

/-- the object's copy named `ver` as a pair of query functions -/
structure Ver where
  get : String → List Int → Option (Res (Option (List (List Int))))
  all : String → Option (Res (List (List Int × List (List Int))))
  empty : String → Option (Res Bool)

def verOfBin (c : Common) : Ver := ⟨trpBinGet c, trpBinAll c, binEmpty c⟩
def verOfTern (t : Tern) : Ver := ⟨ternGet t, ternAll t, ternEmpty t⟩

/-- `RelIndexCombined::new(&total, &delta)` -/
def combine (tt dl : Ver) : Ver where
  get v k := do
    let a ← tt.get v k
    let b ← dl.get v k
    some do
      let a ← a
      let b ← b
      pure (match a, b with
        | none, none => none
        | a, b => some (a.getD [] ++ b.getD []))
  all v := do
    let a ← tt.all v
    let b ← dl.all v
    some do
      let a ← a
      let b ← b
      pure (a ++ b)
  empty v := do
    let a ← tt.empty v
    let b ← dl.empty v
    some do
      let a ← a
      let b ← b
      pure (a && b)

def TrpObj.ver (o : TrpObj) (ver : String) : Option Ver :=
  match o, ver with
  | .bin _ dl _, "delta" => some (verOfBin dl)
  | .bin _ _ tt, "total" => some (verOfBin tt)
  | .bin _ dl tt, "td" => some (combine (verOfBin tt) (verOfBin dl))
  | .tern _ dl _ _ _, "delta" => some (verOfTern dl)
  | .tern _ _ tt _ _, "total" => some (verOfTern tt)
  | .tern _ dl tt _ _, "td" => some (combine (verOfTern tt) (verOfTern dl))
  | _, _ => none

def TrpObj.has (o : TrpObj) (ver : String) (v : List Int) : Option Bool :=
  match o, v with
  | .bin nw dl tt, [x, y] =>
    (match ver with | "new" => some nw | "delta" => some dl | "total" => some tt | _ => none).map fun (c : Common) => c.containsKey x y
  | .tern nw dl tt _ _, [k, x, y] =>
    (match ver with | "new" => some nw | "delta" => some dl | "total" => some tt | _ => none).map fun (c : Tern) => c.containsKey k x y
  | _, _ => none

def TrpObj.views : TrpObj → List String
  | .bin .. => ["n", "0", "1", "01"]
  | .tern _ _ _ has1 has2 =>
    ["n", "0"] ++ (if has1 then ["1"] else []) ++ (if has2 then ["2"] else []) ++ ["01", "02"] ++ (if has1 && has2 then ["12"] else []) ++ ["012"]

def viewArity (v : String) : Nat := if v == "n" then 0 else v.length

def tuplesOver (dom : List Int) : Nat → List (List Int)
  | 0 => [[]]
  | n + 1 => dom.flatMap fun d => (tuplesOver dom n).map fun t => d :: t

def TrpObj.arity : TrpObj → Nat
  | .bin .. => 2
  | .tern .. => 3

def showRes {α : Type} (f : α → String) : Res α → String
  | .ok a => f a
  | .panic => "panic"

/-- everything observable, over the domain (one panic anywhere: the whole op panics, as under `catch_unwind`) -/
def TrpObj.snap (o : TrpObj) (dom : List Int) : Res String := do
  let mut out := ""
  for ver in ["new", "delta", "total"] do
    let bits := String.join ((tuplesOver dom o.arity).map fun t => if (o.has ver t).getD false then "1" else "0")
    out := out ++ s!" {ver}.has={bits}"
  for ver in ["delta", "total", "td"] do
    match o.ver ver with
    | none => pure ()
    | some vr =>
      for v in o.views do
        match vr.all v with
        | some r => let a ← r; out := out ++ s!" {ver}.{v}.all={fmtAll a}"
        | none => pure ()
        let mut gets : List String := []
        for k in tuplesOver dom (viewArity v) do
          match vr.get v k with
          | some r => let g ← r; gets := gets ++ [fmtGet g]
          | none => gets := gets ++ ["bad"]
        out := out ++ s!" {ver}.{v}.get={",".intercalate gets}"
  return "snap" ++ out

/-! ## ops -/

def mkObj : String → Option (Res TrpObj)
  | "b" => some do
    let (n, d, t) ← Common.init Common.default Common.default Common.default
    pure (.bin n d t)
  | "t11" => some (.ok (.tern (Tern.default true true) (Tern.default true true) (Tern.default true true) true true))
  | "t00" => some (.ok (.tern (Tern.default false false) (Tern.default false false) (Tern.default false false) false false))
  | _ => none

def TrpObj.ins (o : TrpObj) (v : List Int) : Option (Res (TrpObj × Bool)) :=
  match o, v with
  | .bin nw dl tt, [x, y] => some do let (n', b) ← nw.insertIfNotPresent x y; pure (.bin n' dl tt, b)
  | .tern nw dl tt h1 h2, [k, x, y] => some do let (n', b) ← nw.insertIfNotPresent k x y; pure (.tern n' dl tt h1 h2, b)
  | _, _ => none

def TrpObj.merge : TrpObj → Res TrpObj
  | .bin nw dl tt => do let (n, d, t) ← Common.merge nw dl tt; pure (.bin n d t)
  | .tern nw dl tt h1 h2 => do let (n, d, t) ← Tern.merge nw dl tt; pure (.tern n d t h1 h2)

def TrpObj.restart : TrpObj → Res TrpObj
  | .bin _ _ tt => do let (n, d, t) ← Common.init Common.default tt Common.default; pure (.bin n d t)
  | .tern _ _ tt h1 h2 => .ok (.tern (Tern.default h1 h2) tt (Tern.default h1 h2) h1 h2)

/-- run a state-changing op: on panic the object is dropped -/
private def upd (st : TrpStore) (n : String) (r : Res (TrpObj × String)) : TrpStore × String :=
  match r with
  | .ok (o, s) => (trpSet st n o, s)
  | .panic => (trpDel st n, "panic")

/-- a read-only op that panics also drops the object (the harness cannot tell the two kinds of ops apart) -/
private def qry (st : TrpStore) (n : String) (r : Res String) : TrpStore × String :=
  match r with
  | .ok s => (st, s)
  | .panic => (trpDel st n, "panic")

def handleTrp (st : TrpStore) : List Sexp → Option (TrpStore × String)
  | [.atom "mk", .atom n, .atom kind] => do
    let r ← mkObj kind
    some (upd st n (do let o ← r; pure (o, "ok")))
  | .atom "ins" :: .atom n :: vs => do
    let o ← trpGet st n
    let v ← vs.mapM Sexp.asInt?
    let r ← o.ins v
    some (upd st n (do let (o', b) ← r; pure (o', toString b)))
  | .atom "add" :: .atom n :: vs => do
    let o ← trpGet st n
    let v ← vs.mapM Sexp.asInt?
    let ht ← o.has "total" v
    let hd ← o.has "delta" v
    if ht || hd then some (st, "dup")
    else
      let r ← o.ins v
      some (upd st n (do let (o', b) ← r; pure (o', toString b)))
  | [.atom "merge", .atom n] => do
    let o ← trpGet st n
    some (upd st n (do let o' ← o.merge; pure (o', "ok")))
  | [.atom "restart", .atom n] => do
    let o ← trpGet st n
    some (upd st n (do let o' ← o.restart; pure (o', "ok")))
  | .atom "has" :: .atom n :: .atom ver :: vs => do
    let o ← trpGet st n
    let v ← vs.mapM Sexp.asInt?
    let b ← o.has ver v
    some (st, toString b)
  | .atom "get" :: .atom n :: .atom ver :: view :: ks => do
    let o ← trpGet st n
    let view ← view.asAtom?
    let k ← ks.mapM Sexp.asInt?
    let vr ← o.ver ver
    if !o.views.contains view then none
    let r ← vr.get view k
    some (qry st n (do let x ← r; pure (fmtGet x)))
  | [.atom "all", .atom n, .atom ver, view] => do
    let o ← trpGet st n
    let view ← view.asAtom?
    let vr ← o.ver ver
    if !o.views.contains view then none
    let r ← vr.all view
    some (qry st n (do let x ← r; pure (fmtAll x)))
  | [.atom "empty", .atom n, .atom ver, view] => do
    let o ← trpGet st n
    let view ← view.asAtom?
    let vr ← o.ver ver
    if !o.views.contains view then none
    let r ← vr.empty view
    some (qry st n (do let x ← r; pure (toString x)))
  | [.atom "lenest12", .atom n, .atom ver] => do
    let o ← trpGet st n
    match o, ver with
    | .tern _ dl _ true true, "delta" => some (qry st n (do let x ← dl.lenEstimate12; pure (toString x)))
    | .tern _ _ tt true true, "total" => some (qry st n (do let x ← tt.lenEstimate12; pure (toString x)))
    | _, _ => none
  | .atom "snap" :: .atom n :: ds => do
    let o ← trpGet st n
    let dom ← ds.mapM Sexp.asInt?
    some (qry st n (o.snap dom))
  | _ => none

end AscentVerif.Driver.Trp
