import AscentVerif.Model.Sexp
import AscentVerif.Model.Engine
import AscentVerif.Model.StdInterp
import AscentVerif.Model.Hir
import AscentVerif.Model.EnginePhys
import AscentVerif.Model.EnginePhysPar
import AscentVerif.Model.EnginePhysTimeout
import AscentVerif.Model.EnginePhysParTimeout
import AscentVerif.Model.EnginePhysLat
import AscentVerif.Model.EnginePhysParLat
import AscentVerif.Model.EnginePhysLatTimeout
import AscentVerif.Model.EnginePhysParLatTimeout
import AscentVerif.Model.StdOps
import AscentVerif.Proofs.PlanSwapBody
namespace AscentVerif.Driver
open AscentVerif AscentVerif.Std AscentVerif.Engine

abbrev SProgram := Program Ex Bx Gx Px Ax
abbrev SRule := Rule Ex Bx Gx Px Ax
abbrev SItem := Item Ex Bx Gx Px Ax

partial def parseVal : Sexp → Option Val
  | .atom "none" => some .optNone
  | .atom "unit" => some .unit
  | .atom s =>
    match s.toInt? with
    | some n => some (.int n)
    | none => if s.startsWith "\"" then some (.str s) else none
  | .list (.atom "some" :: [v]) => (parseVal v).map .optSome
  | .list (.atom "set" :: xs) => (xs.mapM Sexp.asInt?).map fun l => .set l
  | _ => none

partial def renderVal : Val → String
  | .int n => toString n
  | .str s => s
  | .set l => if l.isEmpty then "(set)" else "(set " ++ " ".intercalate (l.map toString) ++ ")"
  | .optNone => "none"
  | .optSome v => s!"(some {renderVal v})"
  | .unit => "unit"

def renderTuple (t : Tuple) : String := "(" ++ " ".intercalate (t.map renderVal) ++ ")"

def parseTuple : Sexp → Option Tuple
  | .list xs => xs.mapM parseVal
  | _ => none

partial def parseEx : Sexp → Option Ex
  | .list [.atom "var", n] => n.asNat?.map .var
  | .list [.atom "add", a, b] => do some (.add (← parseEx a) (← parseEx b))
  | .list [.atom "sub", a, b] => do some (.sub (← parseEx a) (← parseEx b))
  | .list [.atom "mul", a, b] => do some (.mul (← parseEx a) (← parseEx b))
  | .list [.atom "min", a, b] => do some (.min (← parseEx a) (← parseEx b))
  | .list [.atom "max", a, b] => do some (.max (← parseEx a) (← parseEx b))
  | .list [.atom "somex", a] => do some (.some (← parseEx a))
  | .list [.atom "single", a] => do some (.single (← parseEx a))
  | v => (parseVal v).map .const

partial def parseBx : Sexp → Option Bx
  | .atom "tt" => some .tt
  | .list [.atom "lt", a, b] => do some (.lt (← parseEx a) (← parseEx b))
  | .list [.atom "le", a, b] => do some (.le (← parseEx a) (← parseEx b))
  | .list [.atom "eq", a, b] => do some (.eq (← parseEx a) (← parseEx b))
  | .list [.atom "ne", a, b] => do some (.ne (← parseEx a) (← parseEx b))
  | .list [.atom "and", a, b] => do some (.and (← parseBx a) (← parseBx b))
  | .list [.atom "or", a, b] => do some (.or (← parseBx a) (← parseBx b))
  | .list [.atom "not", a] => do some (.not (← parseBx a))
  | _ => none

def parseGx : Sexp → Option Gx
  | .list [.atom "range", a, b] => do some (.range (← parseEx a) (← parseEx b))
  | .list (.atom "list" :: xs) => (xs.mapM parseEx).map .list
  | _ => none

def parseCond : Sexp → Option (Cond Ex Bx Px)
  | .list [.atom "if", b] => (parseBx b).map .ifc
  | .list [.atom "let", v, e] => do some (.letc (← v.asNat?) (← parseEx e))
  | .list [.atom "iflet", .atom "some", v, e] => do some (.ifLet .some [← v.asNat?] (← parseEx e))
  | _ => none

def parseArg : Sexp → Option (Arg Ex)
  | .list [.atom "v", n] => n.asNat?.map .var
  | .list [.atom "e", e] => (parseEx e).map .expr
  | _ => none

def parseAggArg : Sexp → Option (AggArg Ex)
  | .atom "_" => some .wild
  | .list [.atom "b", n] => n.asNat?.map .bound
  | .list [.atom "k", e] => (parseEx e).map .key
  | _ => none

def parseAx : Sexp → Option Ax
  | .atom "count" => some .count
  | .atom "sum" => some .sum
  | .atom "min" => some .min
  | .atom "max" => some .max
  | .atom "not" => some .not
  | .atom "argmin" => some .argmin
  | .atom "minmax" => some .minmax
  | _ => none

def parseItem : Sexp → Option SItem
  | .list (.atom "cl" :: r :: .list args :: conds) => do
    some (.clause (← r.asNat?) (← args.mapM parseArg) (← conds.mapM parseCond))
  | .list [.atom "for", v, g] => do some (.gen (← v.asNat?) (← parseGx g))
  | .list [.atom "agg", .list outs, fn, .list bound, r, .list args] => do
    some (.agg { outs := ← outs.mapM Sexp.asNat?, fn := ← parseAx fn, boundArgs := ← bound.mapM Sexp.asNat?,
                 rel := ← r.asNat?, args := ← args.mapM parseAggArg })
  | c => (parseCond c).map .cond

def parseHead : Sexp → Option (HeadClause Ex)
  | .list (r :: args) => do some { rel := ← r.asNat?, args := ← args.mapM parseEx }
  | _ => none

def parseRule : Sexp → Option SRule
  | .list [.atom "rule", .list (.atom "heads" :: hs), .list (.atom "body" :: bs)] => do
    some { heads := ← hs.mapM parseHead, body := ← bs.mapM parseItem }
  | _ => none

def parseKind : Sexp → Option LatKind
  | .atom "max" => some .maxInt
  | .atom "min" => some .minInt
  | .atom "set" => some .setUnion
  | .atom "opt" => some .optMax
  | .atom "bset" => some .bset3
  | _ => none

partial def exVars : Ex → List Var
  | .const _ => []
  | .var x => [x]
  | .add a b | .sub a b | .mul a b | .min a b | .max a b => exVars a ++ exVars b
  | .some a | .single a => exVars a

partial def bxVars : Bx → List Var
  | .tt => []
  | .lt a b | .le a b | .eq a b | .ne a b => exVars a ++ exVars b
  | .and a b | .or a b => bxVars a ++ bxVars b
  | .not a => bxVars a

def stdVars : Hir.VarsOf Ex Bx := ⟨exVars, bxVars⟩

private def sortStrs (l : List String) : List String := l.mergeSort (· ≤ ·)

/-- the compilation plan in the canonical form tie A compares with the real `mir_summary`: SCCs as a sorted list of
`looping=<b> dyn=<rels> :: <sorted MIR rule lines>` -/
def mirCanon (p : SProgram) (order : SccOrder) : String :=
  let sccs := order.map fun scc =>
    let dyn := dynRels p scc
    let lines := (sccRules p scc).flatMap (Hir.ruleLines stdVars dyn)
    s!"looping={isLooping p scc} dyn=" ++ ",".intercalate (sortStrs (dyn.map fun r => s!"r{r}")) ++ " :: " ++ " ;; ".intercalate (sortStrs lines)
  " || ".intercalate (sortStrs sccs)

structure ProgDef where
  prog : SProgram
  kinds : List LatKind
  order : SccOrder

def parseProg : Sexp → Option ProgDef
  | .list [.atom "prog", .list (.atom "rels" :: rs), .list (.atom "rules" :: rules)] => do
    let decls ← rs.mapM fun
      | .list [.atom "rel", n] => do some (({ arity := ← n.asNat?, lat := false } : RelDecl), LatKind.maxInt)
      | .list [.atom "lat", n, k] => do some (({ arity := ← n.asNat?, lat := true } : RelDecl), ← parseKind k)
      | _ => none
    let p : SProgram := { rels := decls.map (·.1), rules := ← rules.mapM parseRule }
    some { prog := p, kinds := decls.map (·.2), order := computeOrder p }
  | _ => none

structure Inst where
  pd : ProgDef
  cfg : Config
  st : St
  iters : List Nat := []

structure EngStore where
  progs : List (String × ProgDef) := []
  insts : List (String × Inst) := []

def defaultFuel : Nat := 100000

private def insertSorted (x : String) : List String → List String
  | [] => [x]
  | y :: ys => if x ≤ y then x :: y :: ys else y :: insertSorted x ys

private def countRuns : List String → List (String × Nat)
  | [] => []
  | x :: xs =>
    match countRuns xs with
    | (y, n) :: rest => if x == y then (y, n + 1) :: rest else (x, 1) :: (y, n) :: rest
    | [] => [(x, 1)]

def dumpSt (s : St) : String :=
  " | ".intercalate <| (List.range s.length).map fun r =>
    let rows := ((relSt s r).rows.map renderTuple).foldr insertSorted []
    s!"r{r}:" ++ String.join ((countRuns rows).map fun (t, n) => s!" {t}*{n}")

def kindOf (pd : ProgDef) (r : RelId) : LatKind := pd.kinds.getD r .maxInt

def doRun (s : EngStore) (inst : String) : Option (EngStore × String) := do
    let i ← (s.insts.find? (·.1 == inst)).map (·.2)
    match run (interp (kindOf i.pd)) i.cfg i.pd.prog i.pd.order defaultFuel i.st with
    | .done ps => some ({ s with insts := (inst, { i with st := ps.st, iters := ps.iters }) :: s.insts.filter (·.1 != inst) }, "ok")
    | .timedOut _ => some (s, "timedout?")
    | .outOfFuel => some (s, "nofuel")

/-- the compiler's `rule_desugar_repeated_vars` (model: `Surface.repItems`) on a core program: the physical-index models take their
rules as `compile_rule_to_ir_rule` receives them (an argument mentioning a variable first bound earlier IN THE SAME clause has been
replaced by a fresh variable plus an equality condition); the filter-level engine model matches repeated variables directly -/
def desugRepeated (p : SProgram) : SProgram :=
  let step (acc : List SRule × Nat) (r : SRule) : List SRule × Nat :=
    let flat : List (Surface.FItem Ex Bx Gx Px Ax) := r.body.map fun
      | .clause rel args conds => .clause rel (args.map fun | .var v => Surface.SArg.var v | .expr e => Surface.SArg.expr e) conds
      | .cond c => .cond c
      | .gen v g => .gen v g
      | .agg a => .agg a
    let out := Surface.repItems stdOps flat 0 [] acc.2
    match out.1.mapM Surface.FItem.toCore with
    | some body => (acc.1 ++ [{ r with body := body }], out.2)
    | none => (acc.1 ++ [r], acc.2)
  { p with rules := (p.rules.foldl step ([], 0)).1 }

/-- `run()` through the physical-index engine model (`Model/EnginePhys.lean`): relational, aggregation-free programs only -/
def doRunPhys (s : EngStore) (inst : String) : Option (EngStore × String) := do
    let i ← (s.insts.find? (·.1 == inst)).map (·.2)
    let p := desugRepeated i.pd.prog
    if p.rels.any (·.lat) then some (s, "na")
    else if !Phys.aggPlanOk stdVars p (Phys.ixSetsOfA stdVars p) then some (s, "na-plan")
    else
      let ix := Phys.ixSetsOfA stdVars p
      let s0 : Phys.PSt := (List.range i.st.length).map fun r => { rows := (relSt i.st r).rows, full := [], idxs := [] }
      match Phys.run (interp (kindOf i.pd)) stdVars p ix i.pd.order defaultFuel s0 with
      | some ps =>
        let st : St := ps.st.map fun pr => { rows := pr.rows, idx := List.range pr.rows.length }
        some ({ s with insts := (inst, { i with st := st, iters := ps.iters }) :: s.insts.filter (·.1 != inst) }, "ok")
      | none => some (s, "nofuel")

/-- `run()` through the physical-index engine model WITH lattices (`Model/EnginePhysLat.lean`): aggregation-free programs -/
def doRunPhysLat (s : EngStore) (inst : String) : Option (EngStore × String) := do
    let i ← (s.insts.find? (·.1 == inst)).map (·.2)
    let p := desugRepeated i.pd.prog
    if p.rules.any (fun r => r.body.any fun | .agg _ => true | _ => false) then some (s, "na")
    else
      let ix := Phys.ixSetsOf stdVars p
      if !PhysLat.latPlanOk stdVars p ix then some (s, "na-plan")
      else
        let s0 : PhysLat.XSt := (List.range i.st.length).map fun r => { rows := (relSt i.st r).rows, full := [], idxs := [] }
        match PhysLat.run (interp (kindOf i.pd)) stdVars p ix i.pd.order defaultFuel s0 with
        | some ps =>
          let st : St := ps.st.map fun pr => { rows := pr.rows, idx := List.range pr.rows.length }
          some ({ s with insts := (inst, { i with st := st, iters := ps.iters }) :: s.insts.filter (·.1 != inst) }, "ok")
        | none => some (s, "nofuel")

/-- `run_timeout` through the physical-index engine model: the `k`-th clock reading finds the deadline passed -/
def doRunPhysTimeout (s : EngStore) (inst : String) (k : Nat) : Option (EngStore × String) := do
    let i ← (s.insts.find? (·.1 == inst)).map (·.2)
    let p := desugRepeated i.pd.prog
    if p.rels.any (·.lat) then some (s, "na")
    else if !Phys.aggPlanOk stdVars p (Phys.ixSetsOfA stdVars p) then some (s, "na-plan")
    else
      let ix := Phys.ixSetsOfA stdVars p
      let s0 : Phys.PSt := (List.range i.st.length).map fun r => { rows := (relSt i.st r).rows, full := [], idxs := [] }
      let back (ps : Phys.ProgStT) : Inst := { i with st := ps.st.map fun pr => { rows := pr.rows, idx := [] }, iters := ps.iters }
      match Phys.runTimeout (interp (kindOf i.pd)) stdVars p ix i.pd.order (fun c => c == k) defaultFuel s0 with
      | .done ps => some ({ s with insts := (inst, back ps) :: s.insts.filter (·.1 != inst) }, "true")
      | .timedOut ps => some ({ s with insts := (inst, back ps) :: s.insts.filter (·.1 != inst) }, "false")
      | .outOfFuel => some (s, "nofuel")

/-- `run_timeout` through the physical-index engine model WITH lattices (`Model/EnginePhysLatTimeout.lean`): the `k`-th clock reading finds the deadline passed -/
def doRunPhysLatTimeout (s : EngStore) (inst : String) (k : Nat) : Option (EngStore × String) := do
    let i ← (s.insts.find? (·.1 == inst)).map (·.2)
    let p := desugRepeated i.pd.prog
    if p.rules.any (fun r => r.body.any fun | .agg _ => true | _ => false) then some (s, "na")
    else
      let ix := Phys.ixSetsOf stdVars p
      if !PhysLat.latPlanOk stdVars p ix then some (s, "na-plan")
      else
        let s0 : PhysLat.XSt := (List.range i.st.length).map fun r => { rows := (relSt i.st r).rows, full := [], idxs := [] }
        let back (ps : PhysLat.ProgStT) : Inst := { i with st := ps.st.map fun pr => { rows := pr.rows, idx := [] }, iters := ps.iters }
        match PhysLat.runTimeout (interp (kindOf i.pd)) stdVars p ix i.pd.order (fun c => c == k) defaultFuel s0 with
        | .done ps => some ({ s with insts := (inst, back ps) :: s.insts.filter (·.1 != inst) }, "true")
        | .timedOut ps => some ({ s with insts := (inst, back ps) :: s.insts.filter (·.1 != inst) }, "false")
        | .outOfFuel => some (s, "nofuel")

/-- a concrete schedule: odd-numbered steps run in reverse order, worker `n % 7` performs the `n`-th insert, every third
comparison of sampled `len_estimate`s picks the swapped copy -/
def demoSched (seed : Nat) : PhysPar.Sched Ex Bx Gx Px Ax where
  permRows k l := if (k + seed) % 2 == 1 then l.reverse else l
  permRows_perm k l := by
    by_cases h : (k + seed) % 2 == 1
    · simp only [h, if_true]; exact List.reverse_perm l
    · simp only [h]; exact List.Perm.refl l
  permTasks k l := if (k + seed) % 2 == 0 then l.reverse else l
  permTasks_perm k l := by
    by_cases h : (k + seed) % 2 == 0
    · simp only [h, if_true]; exact List.reverse_perm l
    · simp only [h]; exact List.Perm.refl l
  tid n := (n + seed) % 7
  swap n := (n + seed) % 3 == 0

/-- `run()` through the PARALLEL physical-index engine model (`Model/EnginePhysPar.lean`) in a pool of `threads` workers -/
def doRunPhysPar (s : EngStore) (inst : String) (threads : Nat) : Option (EngStore × String) := do
    let i ← (s.insts.find? (·.1 == inst)).map (·.2)
    let p := desugRepeated i.pd.prog
    if p.rels.any (·.lat) then some (s, "na")
    else if !Phys.aggPlanOk stdVars p (Phys.ixSetsOfA stdVars p) then some (s, "na-plan")
    else
      let ix := Phys.ixSetsOfA stdVars p
      let s0 : PhysPar.PCSt := PhysPar.initSt threads p ix fun r => (relSt i.st r).rows
      match PhysPar.run (interp (kindOf i.pd)) stdVars p ix i.pd.order (demoSched threads) threads defaultFuel s0 with
      | .ok (some ps) =>
        let st : St := ps.st.map fun pr => { rows := pr.rows, idx := List.range pr.rows.length }
        some ({ s with insts := (inst, { i with st := st, iters := ps.iters }) :: s.insts.filter (·.1 != inst) }, "ok")
      | .ok none => some (s, "nofuel")
      | .panic => some (s, "panic (frozen-state protocol)")

/-- `run_timeout` through the PARALLEL physical-index engine model (`Model/EnginePhysParTimeout.lean`) in a pool of `threads`
workers: the `k`-th clock reading finds the deadline passed -/
def doRunPhysParTimeout (s : EngStore) (inst : String) (k threads : Nat) : Option (EngStore × String) := do
    let i ← (s.insts.find? (·.1 == inst)).map (·.2)
    let p := desugRepeated i.pd.prog
    if p.rels.any (·.lat) then some (s, "na")
    else if !Phys.aggPlanOk stdVars p (Phys.ixSetsOfA stdVars p) then some (s, "na-plan")
    else
      let ix := Phys.ixSetsOfA stdVars p
      let s0 : PhysPar.PCSt := PhysPar.initSt threads p ix fun r => (relSt i.st r).rows
      let back (ps : PhysPar.ProgStT) : Inst := { i with st := ps.st.map fun pr => { rows := pr.rows, idx := [] }, iters := ps.iters }
      match PhysPar.runTimeout (interp (kindOf i.pd)) stdVars p ix i.pd.order (demoSched threads) threads (fun c => c == k)
          defaultFuel s0 with
      | .ok (.done ps) => some ({ s with insts := (inst, back ps) :: s.insts.filter (·.1 != inst) }, "true")
      | .ok (.timedOut ps) => some ({ s with insts := (inst, back ps) :: s.insts.filter (·.1 != inst) }, "false")
      | .ok .outOfFuel => some (s, "nofuel")
      | .panic => some (s, "panic")

/-- `run()` through the PARALLEL physical-index engine model WITH lattices (`Model/EnginePhysParLat.lean`) in a pool of `threads`
workers (rules one after the other: no `#![inter_rule_parallelism]`): aggregation-free programs -/
def doRunPhysParLat (s : EngStore) (inst : String) (threads : Nat) : Option (EngStore × String) := do
    let i ← (s.insts.find? (·.1 == inst)).map (·.2)
    let p := desugRepeated i.pd.prog
    if p.rules.any (fun r => r.body.any fun | .agg _ => true | _ => false) then some (s, "na")
    else
      let ix := Phys.ixSetsOf stdVars p
      if !PhysParLat.latPlanOk stdVars p ix then some (s, "na-plan")
      else
        let s0 : PhysParLat.PLSt := PhysParLat.initSt threads p ix fun r => (relSt i.st r).rows
        match PhysParLat.run (interp (kindOf i.pd)) stdVars p ix i.pd.order (demoSched threads) false threads defaultFuel s0 with
        | .ok (some ps) =>
          let st : St := (List.range p.rels.length).map fun r =>
            let rows := PhysParLat.xrows ps.st r
            { rows := rows, idx := List.range rows.length }
          some ({ s with insts := (inst, { i with st := st, iters := ps.iters }) :: s.insts.filter (·.1 != inst) }, "ok")
        | .ok none => some (s, "nofuel")
        | .panic => some (s, "panic (frozen-state protocol)")

/-- `run_timeout` through the PARALLEL physical-index engine model WITH lattices (`Model/EnginePhysParLatTimeout.lean`) in a pool of
`threads` workers (rules one after the other: no `#![inter_rule_parallelism]`; same state conversion and schedule as
`doRunPhysParLat`): the `k`-th clock reading finds the deadline passed; aggregation-free programs -/
def doRunPhysParLatTimeout (s : EngStore) (inst : String) (k threads : Nat) : Option (EngStore × String) := do
    let i ← (s.insts.find? (·.1 == inst)).map (·.2)
    let p := desugRepeated i.pd.prog
    if p.rules.any (fun r => r.body.any fun | .agg _ => true | _ => false) then some (s, "na")
    else
      let ix := Phys.ixSetsOf stdVars p
      if !PhysParLat.latPlanOk stdVars p ix then some (s, "na-plan")
      else
        let s0 : PhysParLat.PLSt := PhysParLat.initSt threads p ix fun r => (relSt i.st r).rows
        let back (ps : PhysParLat.ProgStT) : Inst :=
          { i with st := (List.range p.rels.length).map fun r => { rows := PhysParLat.xrows ps.st r, idx := [] }, iters := ps.iters }
        match PhysParLat.runTimeout (interp (kindOf i.pd)) stdVars p ix i.pd.order (demoSched threads) false threads
            (fun c => c == k) defaultFuel s0 with
        | .ok (.done ps) => some ({ s with insts := (inst, back ps) :: s.insts.filter (·.1 != inst) }, "true")
        | .ok (.timedOut ps) => some ({ s with insts := (inst, back ps) :: s.insts.filter (·.1 != inst) }, "false")
        | .ok .outOfFuel => some (s, "nofuel")
        | .panic => some (s, "panic")

def handleEng (s : EngStore) : List Sexp → Option (EngStore × String)
  | [.atom "prog", .atom id, p] => do
    let pd ← parseProg p
    if aggOverDynamicAny pd then some (s, "reject NotStratifiable")
    else if !validOrder pd.prog pd.order then some (s, "bad-order")
    else some ({ s with progs := (id, pd) :: s.progs.filter (·.1 != id) }, "ok")
  | .atom "new" :: .atom inst :: .atom pid :: rest => do
    let pd ← (s.progs.find? (·.1 == pid)).map (·.2)
    let par := rest.head? == some (.atom "par")
    let i : Inst := { pd := pd, cfg := { parallel := par }, st := initSt pd.prog fun _ => [] }
    some ({ s with insts := (inst, i) :: s.insts.filter (·.1 != inst) }, "ok")
  | [.atom "perturb", _] => some (s, "ok")
  | .atom "conc" :: insts => do
    -- concurrent runs of independent instances: each computes what it computes alone
    let step (st : Option EngStore) (i : Sexp) : Option EngStore := do
      let st ← st
      let (st', out) ← doRun st (← i.asAtom?)
      if out == "ok" then some st' else none
    match insts.foldl step (some s) with
    | some st => some (st, "ok")
    | none => some (s, "bad-conc")
  | .atom op :: .atom inst :: r :: tuples =>
    if op == "load" || op == "push" then do
      let i ← (s.insts.find? (·.1 == inst)).map (·.2)
      let r ← match r with
        | .atom a => (a.drop 1).toNat?
        | _ => none
      let ts ← tuples.mapM parseTuple
      let rs := relSt i.st r
      let rs' := if op == "load" then { rs with rows := ts } else { rs with rows := rs.rows ++ ts }
      let i' := { i with st := setNth i.st r rs' }
      some ({ s with insts := (inst, i') :: s.insts.filter (·.1 != inst) }, "ok")
    else if op == "runin" then doRun s inst
    else if op == "runpp" then do doRunPhysPar s inst (← r.asNat?)
    else if op == "runppl" then do doRunPhysParLat s inst (← r.asNat?)
    else if op == "runtopl" then do doRunPhysLatTimeout s inst (← r.asNat?)
    else if op == "runtop" then do doRunPhysTimeout s inst (← r.asNat?)
    else if op == "runtopp" then do doRunPhysParTimeout s inst (← r.asNat?) (← (← tuples.head?).asNat?)
    else if op == "runtoppl" then do doRunPhysParLatTimeout s inst (← r.asNat?) (← (← tuples.head?).asNat?)
    else if op == "runto" then do
      let i ← (s.insts.find? (·.1 == inst)).map (·.2)
      let k ← r.asNat?
      let dl : Deadline := fun c => c == k
      match runTimeout (interp (kindOf i.pd)) i.cfg i.pd.prog i.pd.order dl defaultFuel i.st with
      | .done ps => some ({ s with insts := (inst, { i with st := ps.st, iters := ps.iters }) :: s.insts.filter (·.1 != inst) }, "true")
      | .timedOut ps => some ({ s with insts := (inst, { i with st := ps.st, iters := ps.iters }) :: s.insts.filter (·.1 != inst) }, "false")
      | .outOfFuel => some (s, "nofuel")
    else none
  | [.atom "run", .atom inst] => doRun s inst
  | [.atom "runp", .atom inst] => doRunPhys s inst
  | [.atom "runpl", .atom inst] => doRunPhysLat s inst
  | [.atom "dump", .atom inst] => do
    let i ← (s.insts.find? (·.1 == inst)).map (·.2)
    some (s, dumpSt i.st)
  | [.atom "iters", .atom inst] => do
    let i ← (s.insts.find? (·.1 == inst)).map (·.2)
    some (s, "iters " ++ " ".intercalate (i.iters.map toString))
  | [.atom "mir", .atom pid] => do
    let pd ← (s.progs.find? (·.1 == pid)).map (·.2)
    some (s, "mir " ++ mirCanon pd.prog pd.order)
  | [.atom "planok", .atom pid] => do
    -- the hypotheses of `runPhys_eq_leastModel` (Props/C01Phys.lean) on this program: usable plan, desugared and well-scoped rules
    let pd ← (s.progs.find? (·.1 == pid)).map (·.2)
    let p := pd.prog
    some (s, s!"planok={Phys.planOk stdVars p (Phys.ixSetsOf stdVars p)} desugared={p.rules.all fun r => Hir.Desugared stdVars r} wellscoped={p.rules.all fun r => Plan.WellScoped stdVars r}")
  | [.atom "order", .atom pid] => do
    let pd ← (s.progs.find? (·.1 == pid)).map (·.2)
    some (s, "order " ++ " ".intercalate (pd.order.map fun c => "[" ++ ",".intercalate (c.map toString) ++ "]"))
  | _ => none
where
  aggOverDynamicAny (pd : ProgDef) : Bool := pd.order.any fun scc => aggOverDynamic pd.prog scc

end AscentVerif.Driver
