import AscentVerif.Model.Sexp
import AscentVerif.Model.Aggregators
namespace AscentVerif.Driver
open AscentVerif AscentVerif.Agg

private def ints (xs : List Sexp) : Option (List Int) := xs.mapM Sexp.asInt?
private def showOpt : Option Int → String
  | none => "none"
  | some x => s!"some {x}"

/-- split a token list at the atom `/` -/
private def splitSlash : List Sexp → List (List Sexp)
  | [] => [[]]
  | .atom "/" :: rest => [] :: splitSlash rest
  | x :: rest => match splitSlash rest with
    | [] => [[x]]
    | g :: gs => (x :: g) :: gs

/-- `agg <name> args…` — one line in, one line out -/
def handleAgg : List Sexp → Option String
  | .atom "min" :: vs => do some (showOpt (aggMin (← ints vs)))
  | .atom "max" :: vs => do some (showOpt (aggMax (← ints vs)))
  | .atom "sum" :: vs => do some (toString (aggSum (← ints vs)))
  | .atom "mean" :: vs => do
      match aggMean (← ints vs) with
      | none => some "none"
      | some (s, n) => some s!"frac {s} {n}"
  -- `mean` over a column of a narrow numeric type: the model's mean is the exact fraction whatever the column type; values outside the type are rejected as the harness does
  | .atom "mean_t" :: .atom ty :: vs => do
      let (lo, hi) ← (match ty with
        | "u8" => some ((0 : Int), (255 : Int)) | "i8" => some (-128, 127) | "u16" => some (0, 65535) | "i16" => some (-32768, 32767)
        | "u32" => some (0, 4294967295) | "i32" => some (-2147483648, 2147483647) | _ => none)
      let l ← ints vs
      if l.any fun x => x < lo || x > hi then none
      else match aggMean l with
        | none => some "none"
        | some (s, n) => some s!"frac {s} {n}"
  | [.atom "not", n] => do some (toString (aggNot (← n.asNat?)).length)
  | [.atom "count", n, lo, hi] => do
      let hi' ← match hi with
        | .atom "none" => some none
        | h => (h.asNat?).map some
      some (toString (aggCount ⟨← n.asNat?, ← lo.asNat?, hi'⟩))
  | .atom "percentile" :: pn :: pd :: vs => do
      some (showOpt (aggPercentile (← pn.asNat?) (← pd.asNat?) (← ints vs)))
  -- one aggregator value applied to several groups in turn: the model's aggregator is a function of the group alone
  | .atom "percentile_seq" :: pn :: pd :: vs => do
      let pn ← pn.asNat?
      let pd ← pd.asNat?
      let outs ← (splitSlash vs).mapM fun g => do some (showOpt (aggPercentile pn pd (← ints g)))
      some (" ; ".intercalate outs)
  | _ => none

end AscentVerif.Driver
