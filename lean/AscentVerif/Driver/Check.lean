import AscentVerif.Model.Sexp
import AscentVerif.Model.Check
/-!
# Driver op `chk <summary>`: the model's answer for one program summary — `ok` | `err <Kind>` (`Err.render`; the
kinds include `aggBoundArg`, `sigName`, `sigGenerics`, `emptyDisj` since the fixes 5862f99 / dfbe0be / 361e42e; the
model never answers `panic <Site>` any more: `check_never_panics`)
(grammar: tools/vlib/c15gen.py `summary`).  `chkc <summary>` additionally prints the number of desugared rules.
-/
namespace AscentVerif.Driver
open AscentVerif AscentVerif.Check

def parseVar : Sexp → Option Check.Var
  | .atom s => if s.startsWith "$" then some { name := s, param := true } else some { name := s }
  | _ => none

def parseVars : Sexp → Option (List Check.Var)
  | .list xs => xs.mapM parseVar
  | _ => none

def parseBinder : Sexp → Option Check.Binder
  | .list [.atom "b", seen, hid] => do some ⟨← parseVars seen, ← parseVars hid⟩
  | _ => none

def parseCArg : Sexp → Option Check.Arg
  | .atom "_" => some .other
  | .list [.atom "p", seen, hid] => do some (.pat ⟨← parseVars seen, ← parseVars hid⟩)
  | a => (parseVar a).map .var

partial def parseCItem : Sexp → Option Check.Item
  | .list [.atom "cl", .atom r, .list args, .list conds] => do some (.clause r (← args.mapM parseCArg) (← conds.mapM parseBinder))
  | .list [.atom "b", seen, hid] => do some (.binder ⟨← parseVars seen, ← parseVars hid⟩)
  | .list [.atom "agg", .atom r, .list args, seen, hid, bound] => do
    some (.agg r (← args.mapM parseCArg) ⟨← parseVars seen, ← parseVars hid⟩ (← parseVars bound))
  | .list [.atom "neg", .atom r, n] => do some (.neg r (← n.asNat?))
  | .list (.atom "or" :: alts) => do
    let alts ← alts.mapM fun | .list xs => xs.mapM parseCItem | _ => none
    some (.disj alts)
  | .list [.atom "m", .atom n, .list args] => do some (.mac n (← args.mapM parseCArg))
  | _ => none

def parseHItem : Sexp → Option Check.HItem
  | .list [.atom "h", .atom r, n] => do some (.clause r (← n.asNat?))
  | .list [.atom "m", .atom n, .list args] => do some (.mac n (← args.mapM parseCArg))
  | _ => none

def parseShape : Sexp → Option Shape
  | .atom "path" => some .path
  | .atom "list" => some .list
  | .atom "nv" => some .nameValue
  | _ => none

def parseAttr : Sexp → Option AttrS
  | .list [.atom "a", .atom n, sh] => do some ⟨n, ← parseShape sh⟩
  | _ => none

def parseBool : Sexp → Option Bool
  | .atom "1" => some true
  | .atom "0" => some false
  | _ => none

def parseParams (ps : List Sexp) : Option (List String) := ps.mapM Sexp.asAtom?

def parseTop : Sexp → Option Top
  | .list [.atom "rel", .atom n, ar, lat, trail, .list attrs] => do
    some (.rel { name := n, arity := ← ar.asNat?, lat := ← parseBool lat, trailing := ← parseBool trail, attrs := ← attrs.mapM parseAttr })
  | .list [.atom "mac", .atom n, na, .list ps, trail, .list body] => do
    some (.mac (← na.asNat?) { name := n, params := ← parseParams ps, trailing := ← parseBool trail, isHead := false,
                               body := ← body.mapM parseCItem, hbody := [] })
  | .list [.atom "hmac", .atom n, na, .list ps, trail, .list body] => do
    some (.mac (← na.asNat?) { name := n, params := ← parseParams ps, trailing := ← parseBool trail, isHead := true,
                               body := [], hbody := ← body.mapM parseHItem })
  | .list [.atom "rule", na, _brace, htrail, .list heads, .list body] => do
    some (.rule (← na.asNat?) { heads := ← heads.mapM parseHItem, htrailing := ← parseBool htrail, body := ← body.mapM parseCItem })
  | .list [.atom "incl", na] => do some (.incl (← na.asNat?))
  | _ => none

def parseKindC : Sexp → Option Kind
  | .atom "ascent" => some .ascent
  | .atom "ascent_par" => some .ascentPar
  | .atom "ascent_run" => some .ascentRun
  | .atom "ascent_run_par" => some .ascentRunPar
  | .atom "ascent_source" => some .source
  | _ => none

def parseSig : Sexp → Option (Option Sig)
  | .atom "nosig" => some none
  | .list [.atom "sig", .atom s, .atom i, gm] => do
    some (some { structName := s, implName := if i == "-" then none else some i, genericsMatch := ← parseBool gm })
  | _ => none

def parseSummary : Sexp → Option Summary
  | .list [.atom "prog", k, .list attrs, sig, .list items] => do
    some { kind := ← parseKindC k, attrs := ← attrs.mapM parseAttr, sig := ← parseSig sig, items := ← items.mapM parseTop }
  | _ => none

def handleChk : List Sexp → Option String
  | [s] => (parseSummary s).map fun sm => render (check sm)
  | _ => none

def handleChkCount : List Sexp → Option String
  | [s] => (parseSummary s).map fun sm =>
    match desugar sm.macros sm.rules with
    | .ok rs => s!"{render (check sm)} rules={rs.length}"
    | .error _ => s!"{render (check sm)} rules=-"
  | _ => none

end AscentVerif.Driver
