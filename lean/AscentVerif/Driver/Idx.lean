import AscentVerif.Model.Sexp
import AscentVerif.Model.Index
namespace AscentVerif.Driver
open AscentVerif AscentVerif.Index

inductive Obj where
  | rel (m : Idx Int Int)
  | full (m : FullIdx Int Int)
  | lat (m : LatIdx Int Int)
  | no (m : NoIdx Int)
  | crel (c : CIdx Int)
  | cfull (c : CFullIdx Int)
  | clat (c : CLatIdx Int)
  | cno (c : CNoIdx Int)

abbrev Store := List (String × Obj)

def Store.get (s : Store) (n : String) : Option Obj := (s.find? (·.1 == n)).map (·.2)
def Store.set (s : Store) (n : String) (o : Obj) : Store := (n, o) :: s.filter (·.1 != n)

/-- number of DashMap shards in the model (unobservable) -/
def modelShards : Nat := 4

private def showVals (vs : List Int) : String :=
  "some" ++ String.join ((vs.mergeSort (· ≤ ·)).map fun v => s!" {v}")

private def showOptVals : Option (List Int) → String
  | none => "none"
  | some vs => showVals vs

private def showEntries (es : List (Int × Int)) : String :=
  let sorted := es.mergeSort fun a b => a.1 < b.1 || (a.1 == b.1 && a.2 ≤ b.2)
  "all" ++ String.join (sorted.map fun e => s!" {e.1}:{e.2}")

private def fullEntries (m : FullIdx Int Int) : List (Int × Int) := m

def doMove (s : Store) (a b : String) : Option (Store × String) := do
    match ← s.get a, ← s.get b with
    | .rel x, .rel y => let r := Idx.moveContents x y; some ((s.set a (.rel r.1)).set b (.rel r.2), "ok")
    | .full x, .full y => let r := FullIdx.moveContents x y; some ((s.set a (.full r.1)).set b (.full r.2), "ok")
    | .lat x, .lat y => let r := LatIdx.moveContents x y; some ((s.set a (.lat r.1)).set b (.lat r.2), "ok")
    | .no x, .no y => let r := NoIdx.moveContents x y; some ((s.set a (.no r.1)).set b (.no r.2), "ok")
    | .crel x, .crel y => (match CIdx.moveContents x y with
        | .ok r => some ((s.set a (.crel r.1)).set b (.crel r.2), "ok")
        | .panic => some (s, "panic"))
    | .cfull x, .cfull y => (match CFullIdx.moveContents x y with
        | .ok r => some ((s.set a (.cfull r.1)).set b (.cfull r.2), "ok")
        | .panic => some (s, "panic"))
    | .clat x, .clat y => (match CLatIdx.moveContents x y with
        | .ok r => some ((s.set a (.clat r.1)).set b (.clat r.2), "ok")
        | .panic => some (s, "panic"))
    | .cno x, .cno y => let r := CNoIdx.moveContents x y; some ((s.set a (.cno r.1)).set b (.cno r.2), "ok")
    | _, _ => some (s, "panic")

def doCins (s : Store) (n : String) (k v : Int) (th : Nat) : Option (Store × String) := do
    match ← s.get n with
    | .crel c => (match c.insert k v with
        | .ok c' => some (s.set n (.crel c'), "ok")
        | .panic => some (s, "panic"))
    | .cfull c => (match c.insert k v with
        | .ok c' => some (s.set n (.cfull c'), "ok")
        | .panic => some (s, "panic"))
    | .clat c => (match c.insert k v with
        | .ok c' => some (s.set n (.clat c'), "ok")
        | .panic => some (s, "panic"))
    | .cno c => (match c.insert th v with
        | .ok c' => some (s.set n (.cno c'), "ok")
        | .panic => some (s, "panic"))
    | _ => some (s, "panic")

/-- one `idx …` line: new store and output -/
def handleIdx (s : Store) : List Sexp → Option (Store × String)
  | [.atom "mk", .atom n, .atom ty] =>
    (match ty with
      | "rel" => some (Obj.rel [])
      | "full" => some (Obj.full [])
      | "lat" => some (Obj.lat [])
      | "noidx" => some (Obj.no [])
      | "crel" => some (Obj.crel (CIdx.new modelShards))
      | "cfull" => some (Obj.cfull (CFullIdx.new modelShards))
      | "clat" => some (Obj.clat (CLatIdx.new modelShards))
      | _ => none).map fun o => (s.set n o, "ok")
  | [.atom "mk", .atom n, .atom "cnoidx", t] => do
    some (s.set n (Obj.cno (CNoIdx.new (← t.asNat?))), "ok")
  | [.atom "ins", .atom n, k, v] => do
    let k ← k.asInt?
    let v ← v.asInt?
    match ← s.get n with
    | .rel m => some (s.set n (.rel (m.insert k v)), "ok")
    | .full m => some (s.set n (.full (m.insert k v)), "ok")
    | .lat m => some (s.set n (.lat (m.insert k v)), "ok")
    | .no m => some (s.set n (.no (m.insert v)), "ok")
    | .crel c => (match c.insert k v with
        | .ok c' => some (s.set n (.crel c'), "ok")
        | .panic => some (s, "panic"))
    | .cfull c => (match c.insert k v with
        | .ok c' => some (s.set n (.cfull c'), "ok")
        | .panic => some (s, "panic"))
    | .clat c => (match c.insert k v with
        | .ok c' => some (s.set n (.clat c'), "ok")
        | .panic => some (s, "panic"))
    | .cno c => some (s.set n (.cno (c.insertMut 0 v)), "ok")
  | .atom "cins" :: .atom n :: k :: v :: rest => do
    let th ← match rest with
      | [_, th] => th.asNat?
      | [] => some 0
      | _ => none
    doCins s n (← k.asInt?) (← v.asInt?) th
  | [.atom "move", .atom a, .atom b] => doMove s a b
  | [.atom "insnp", .atom n, k, v] => do
    let k ← k.asInt?
    let v ← v.asInt?
    match ← s.get n with
    | .full m => let r := m.insertIfNotPresent k v; some (s.set n (.full r.1), toString r.2)
    | .cfull c => let r := c.insertIfNotPresentMut k v; some (s.set n (.cfull r.1), toString r.2)
    | _ => none
  | [.atom "cinsnp", .atom n, k, v] => do
    let k ← k.asInt?
    let v ← v.asInt?
    match ← s.get n with
    | .cfull c => (match c.insertIfNotPresent k v with
        | .ok (c', b) => some (s.set n (.cfull c'), toString b)
        | .panic => some (s, "panic"))
    | _ => none
  | [.atom "has", .atom n, k] => do
    let k ← k.asInt?
    match ← s.get n with
    | .full m => some (s, toString (m.containsKey k))
    | .cfull c => (match c.get k with
        | .ok r => some (s, toString r.isSome)
        | .panic => some (s, "panic"))
    | _ => none
  | [.atom "getcloned", .atom n, k] => do
    let k ← k.asInt?
    match ← s.get n with
    | .cfull c => some (s, match c.getCloned k with | none => "none" | some v => s!"some {v}")
    | _ => none
  | [.atom "callin", .atom n, _threads] => do
    -- `c_iter_all` run inside a rayon pool of the given size: the pool is irrelevant for the model
    match ← s.get n with
    | .crel c => some (s, if c.frozen then showEntries c.entries else "panic")
    | .cfull c => some (s, if c.frozen then showEntries c.entries else "panic")
    | .clat c => some (s, if c.frozen then showEntries c.entries else "panic")
    | _ => none
  | [.atom op, .atom n] =>
    if op == "freeze" || op == "unfreeze" then do
      let fr := op == "freeze"
      match ← s.get n with
      | .crel c => some (s.set n (.crel (if fr then c.freeze else c.unfreeze)), "ok")
      | .cfull c => some (s.set n (.cfull (if fr then c.freeze else c.unfreeze)), "ok")
      | .clat c => some (s.set n (.clat (if fr then c.freeze else c.unfreeze)), "ok")
      | .cno c => some (s.set n (.cno (if fr then c.freeze else c.unfreeze)), "ok")
      | _ => none
    else if op == "all" || op == "call" then do
      let par := op == "call"
      match ← s.get n with
      | .rel m => if par then none else some (s, showEntries m.entries)
      | .full m => if par then none else some (s, showEntries (fullEntries m))
      | .lat m => if par then none else some (s, showEntries (Idx.entries m))
      | .no m => if par then none else some (s, showEntries (m.map fun v => (0, v)))
      | .crel c => some (s, if c.frozen then showEntries c.entries else "panic")
      | .cfull c => some (s, if c.frozen then showEntries c.entries else "panic")
      | .clat c => some (s, if c.frozen then showEntries c.entries else "panic")
      | .cno c => (match c.getAll with
          | .ok vs => some (s, showEntries (vs.map fun v => (0, v)))
          | .panic => some (s, "panic"))
    else if op == "get" || op == "cget" then
      handleGet s op n 0
    else if op == "empty" then do
      let showR : Res Bool → String := fun
        | .ok b => toString b
        | .panic => "panic"
      match ← s.get n with
      | .rel m => some (s, toString (HMap.isEmpty m))
      | .full m => some (s, toString (HMap.isEmpty m))
      | .lat m => some (s, toString (HMap.isEmpty m))
      | .crel c => some (s, showR c.isEmpty)
      | .cfull c => some (s, showR c.isEmpty)
      | .clat c => some (s, showR c.isEmpty)
      | _ => none
    else none
  | [.atom "combempty", .atom a, .atom b] => do
    -- `ind1.is_empty() && ind2.is_empty()` short-circuits: the second side is only looked at when the first is empty
    let both : Res Bool → Res Bool → String := fun
      | .ok false, _ => "false"
      | .ok true, .ok y => toString (combinedIsEmpty true y)
      | _, _ => "panic"
    match ← s.get a, ← s.get b with
    | .rel x, .rel y => some (s, toString (combinedIsEmpty (HMap.isEmpty x) (HMap.isEmpty y)))
    | .full x, .full y => some (s, toString (combinedIsEmpty (HMap.isEmpty x) (HMap.isEmpty y)))
    | .lat x, .lat y => some (s, toString (combinedIsEmpty (HMap.isEmpty x) (HMap.isEmpty y)))
    | .crel x, .crel y => some (s, both x.isEmpty y.isEmpty)
    | .cfull x, .cfull y => some (s, both x.isEmpty y.isEmpty)
    | _, _ => none
  | [.atom "comball", .atom a, .atom b] => do
    match ← s.get a, ← s.get b with
    | .rel x, .rel y => some (s, showEntries (x.entries ++ y.entries))
    | .full x, .full y => some (s, showEntries (fullEntries x ++ fullEntries y))
    | .lat x, .lat y => some (s, showEntries (Idx.entries x ++ Idx.entries y))
    | .crel x, .crel y => some (s, if x.frozen && y.frozen then showEntries (x.entries ++ y.entries) else "panic")
    | .cfull x, .cfull y => some (s, if x.frozen && y.frozen then showEntries (x.entries ++ y.entries) else "panic")
    | _, _ => none
  | [.atom op, .atom n, k] =>
    if op == "get" || op == "cget" then do handleGet s op n (← k.asInt?) else none
  | .atom "comb" :: .atom a :: .atom b :: rest => do
    let k ← match rest with
      | [k] => k.asInt?
      | _ => some 0
    match ← s.get a, ← s.get b with
    | .rel x, .rel y => some (s, showOptVals (combinedGet (x.get k) (y.get k)))
    | .full x, .full y => some (s, showOptVals (combinedGet ((HMap.get? x k).map ([·])) ((HMap.get? y k).map ([·]))))
    | .lat x, .lat y => some (s, showOptVals (combinedGet (HMap.get? x k) (HMap.get? y k)))
    | .crel x, .crel y => (match x.get k, y.get k with
        | .ok p, .ok q => some (s, showOptVals (combinedGet p q))
        | _, _ => some (s, "panic"))
    | .cfull x, .cfull y => (match x.get k, y.get k with
        | .ok p, .ok q => some (s, showOptVals (combinedGet (p.map ([·])) (q.map ([·]))))
        | _, _ => some (s, "panic"))
    | _, _ => none
  | [.atom "merge", .atom nn, .atom dn, .atom tn] => do
    -- move_index_contents(delta, total); swap(new, delta)
    let (s1, out) ← doMove s dn tn
    if out != "ok" then some (s, out) else
    let n ← s1.get nn
    let d ← s1.get dn
    some ((s1.set nn d).set dn n, "ok")
  | .atom "par" :: _ :: .atom n :: .atom kind :: atts => do
    let atts ← atts.mapM fun a => do
      match (← a.asAtom?).splitOn ":" with
      | [k, v] => some (← k.toInt?, ← v.toInt?)
      | _ => none
    let obj ← s.get n
    if kind == "cinsnp" then
      match obj with
      | .cfull c =>
        match raceRun c atts with
        | none => some (s, "panic")
        | some (cf, rs) =>
          let keys := (atts.map (·.1)).eraseDups.mergeSort (· ≤ ·)
          let out := keys.map fun k => s!" {k}:{((atts.zip rs).filter fun ar => ar.1.1 == k && ar.2).length}"
          some (s.set n (.cfull cf), "winners" ++ String.join out)
      | _ => none
    else
      -- sequential replay of the inserts (order-independent by theorem); CNoIdx shard choice is unobservable after flatten
      let step (st : Option Store) (kv : Int × Int) : Option Store := do
        let st ← st
        let (st', out) ← doCins st n kv.1 kv.2 0
        if out == "ok" then some st' else none
      match atts.foldl step (some s) with
      | some st => some (st, "ok")
      | none => some (s, "panic")
  | _ => none
where
  raceRun (c : CFullIdx Int) : List (Int × Int) → Option (CFullIdx Int × List Bool)
    | [] => some (c, [])
    | (k, v) :: rest =>
      match c.insertIfNotPresent k v with
      | .panic => none
      | .ok (c', won) => (raceRun c' rest).map fun (cf, rs) => (cf, won :: rs)
  handleGet (s : Store) (_op n : String) (k : Int) : Option (Store × String) := do
    match ← s.get n with
    | .rel m => some (s, showOptVals (m.get k))
    | .full m => some (s, showOptVals ((HMap.get? m k).map ([·])))
    | .lat m => some (s, showOptVals (HMap.get? m k))
    | .no m => some (s, showVals m)
    | .crel c => (match c.get k with
        | .ok r => some (s, showOptVals r)
        | .panic => some (s, "panic"))
    | .cfull c => (match c.get k with
        | .ok r => some (s, showOptVals (r.map ([·])))
        | .panic => some (s, "panic"))
    | .clat c => (match c.get k with
        | .ok r => some (s, showOptVals r)
        | .panic => some (s, "panic"))
    | .cno c => (match c.getAll with
        | .ok vs => some (s, showVals vs)
        | .panic => some (s, "panic"))

end AscentVerif.Driver
