import AscentVerif.Model.Sexp
import AscentVerif.Model.TrRelUFInd
/-!
# Tie C driver for C12: the `trrel_uf` provider (`tri …` line protocol)

An object is the triple `new / delta / total` of one relation's `rel_ind_common`, as generated code holds it inside an SCC
(between SCCs only `total` — the struct field — is meaningful).

```
tri mk2 <n> [selflast]          -> ok     binary `TrRelIndCommon<i64>`, all three = Default
tri mk3 <n> <r1> <r2> [selflast]-> ok     ternary `BinRelToTernaryWrapper<r1, r2, i64, i64, i64, TrRelIndCommon<i64>>` (r = 0|1)
tri enter <n>                   -> ok     SCC start: delta := take(total); total := Default; new := Default; RelIndexMerge::init
tri ins <n> a b [c]             -> true|false   insert_if_not_present on the full-index write view of `new`
tri head <n> a b [c]            -> true|false   generated head update: !total.contains_key && !delta.contains_key && insert_if_not_present(new)
tri merge <n>                   -> ok     merge_delta_to_total_new_to_delta(new, delta, total)
tri has <n> d|t a b [c]         -> true|false   contains_key on the full index view
tri get <n> d|t <view> k…       -> none | some t;t;…   index_get  (view: n 0 1 01 | n 0 1 2 01 02 12 012; tuple a:b[:c]; sorted, with multiplicity)
tri all <n> d|t <view>          -> all t;t;…            iter_all, flattened
tri len12 <n> d|t               -> <usize>              len_estimate of the ternary view [1,2]
tri snap <n> e… [/ k…]          -> d{…} t{…}            every view of delta and total: `all`, and `get` for every key over the elements (and keys)
```
`panic` if the model panics; the object is then left unchanged (the real object may be half updated: a scenario is compared up
to its first panic).
-/
namespace AscentVerif.Driver
open AscentVerif AscentVerif.TrInd AscentVerif.TrRel

inductive TriObj where
  | bin (pol : Policy) (n d t : Common)
  | ter (pol : Policy) (r1 r2 : Bool) (n d t : Ternary)

structure TriStore where
  objs : List (String × TriObj) := []

private def getT (s : TriStore) (n : String) : Option TriObj := (s.objs.find? (·.1 == n)).map (·.2)
private def setT (s : TriStore) (n : String) (o : TriObj) : TriStore := { objs := (n, o) :: s.objs.filter (·.1 != n) }

private def lexLe : List Int → List Int → Bool
  | [], _ => true
  | _ :: _, [] => false
  | a :: as, b :: bs => a < b || (a == b && lexLe as bs)

private def showTups (ts : List (List Int)) : String :=
  ";".intercalate ((ts.mergeSort lexLe).map fun t => ":".intercalate (t.map toString))

private def pairsToTups (ps : List (Int × Int)) : List (List Int) := ps.map fun p => [p.1, p.2]

private def showOpt : Option (List (List Int)) → String
  | none => "none"
  | some ts => "some " ++ showTups ts

/-- `index_get` of a binary view -/
def binGet (c : Common) (view : String) (ks : List Int) : Res (Option (List (List Int))) := do
  match view, ks with
  | "n", [] => pure (some (pairsToTups (← c.iterAll)))
  | "0", [x] => pure ((← c.viewGet false x).map pairsToTups)
  | "1", [y] => pure ((← c.viewGet true y).map pairsToTups)
  | "01", [x, y] => pure (if (← c.contains x y) then some [[x, y]] else none)
  | _, _ => .panic

/-- `iter_all` of a binary view, flattened -/
def binAll (c : Common) (view : String) : Res (List (List Int)) := do
  match view with
  | "n" => pure (pairsToTups (← c.iterAll))
  | "0" => pure (pairsToTups (← c.viewAll false))
  | "1" => pure (pairsToTups (← c.viewAll true))
  | "01" => pure (pairsToTups (← c.iterAll))
  | _ => .panic

def terGet (t : Ternary) (view : String) (ks : List Int) : Res (Option (List (List Int))) := do
  match view, ks with
  | "n", [] => pure (some (← t.all))
  | "0", [k] => t.get0 k
  | "1", [x] => t.get1 false x
  | "2", [x] => t.get1 true x
  | "01", [k, x] => t.get0x false k x
  | "02", [k, x] => t.get0x true k x
  | "12", [x, y] => t.get12 x y
  | "012", [k, x, y] => pure (if (← t.contains k x y) then some [[k, x, y]] else none)
  | _, _ => .panic

def terAll (t : Ternary) (view : String) : Res (List (List Int)) := do
  match view with
  | "n" => t.all
  | "0" => t.all0
  | "1" => t.all1 false
  | "2" => t.all1 true
  | "01" => t.all0x false
  | "02" => t.all0x true
  | "12" => t.all12
  | "012" => t.all
  | _ => .panic

private def showR (r : Res String) : String :=
  match r with
  | .ok s => s
  | .panic => "panic"

/-- cartesian power -/
private def tuplesOver (doms : List (List Int)) : List (List Int) :=
  doms.foldr (fun d acc => d.flatMap fun x => acc.map fun t => x :: t) [[]]

def binViews : List (String × Nat) := [("n", 0), ("0", 1), ("1", 1), ("01", 2)]
/-- view name, and for each key position whether it ranges over keys (`true`) or elements -/
def terViews : List (String × List Bool) :=
  [("n", []), ("0", [true]), ("1", [false]), ("2", [false]), ("01", [true, false]), ("02", [true, false]),
   ("12", [false, false]), ("012", [true, false, false])]

def snapBin (c : Common) (es : List Int) : String :=
  " ".intercalate (binViews.map fun (v, k) =>
    let gets := (tuplesOver (List.replicate k es)).map fun ks =>
      match binGet c v ks with
      | .panic => "panic"
      | .ok none => "-"
      | .ok (some ts) => "[" ++ showTups ts ++ "]"
    s!"{v}={showR (do pure (showTups (← binAll c v)))}|{",".intercalate gets}")

def snapTer (t : Ternary) (es ks : List Int) : String :=
  " ".intercalate ((terViews.filter fun (v, _) =>
      (t.rmap1.isSome || !(v == "1" || v == "12")) && (t.rmap2.isSome || !(v == "2" || v == "12"))).map fun (v, kinds) =>
    let gets := (tuplesOver (kinds.map fun isKey => if isKey then ks else es)).map fun args =>
      match terGet t v args with
      | .panic => "panic"
      | .ok none => "-"
      | .ok (some ts) => "[" ++ showTups ts ++ "]"
    s!"{v}={showR (do pure (showTups (← terAll t v)))}|{",".intercalate gets}")

private def splitSlash (xs : List Sexp) : List Sexp × List Sexp :=
  (xs.takeWhile (· != .atom "/"), (xs.dropWhile (· != .atom "/")).drop 1)

def handleTri (st : TriStore) : List Sexp → Option (TriStore × String)
  | .atom "mk2" :: .atom n :: rest =>
    let pol : Policy := { selfFirst := rest != [.atom "selflast"] }
    some (setT st n (.bin pol Common.default Common.default Common.default), "ok")
  | .atom "mk3" :: .atom n :: .atom r1 :: .atom r2 :: rest =>
    let pol : Policy := { selfFirst := rest != [.atom "selflast"] }
    let d := Ternary.default (r1 == "1") (r2 == "1")
    some (setT st n (.ter pol (r1 == "1") (r2 == "1") d d d), "ok")
  | [.atom "enter", .atom n] => do
    match ← getT st n with
    | .bin pol _ _ t =>
      let (nw, d, t) := TrInd.init Common.default t Common.default
      some (setT st n (.bin pol nw d t), "ok")
    | .ter pol r1 r2 _ _ t =>
      let dflt := Ternary.default r1 r2
      some (setT st n (.ter pol r1 r2 dflt t dflt), "ok")       -- `init` is the trait's default no-op for the wrapper
  | .atom op :: .atom n :: args =>
    if op == "ins" || op == "head" then do
      let xs ← args.mapM Sexp.asInt?
      match ← getT st n, xs with
      | .bin pol nw d t, [x, y] =>
        let r : Res (Common × Bool) := do
          if op == "head" then
            if (← t.contains x y) then return (nw, false)
            if (← d.contains x y) then return (nw, false)
          nw.insert x y
        match r with
        | .panic => some (st, "panic")
        | .ok (nw', b) => some (setT st n (.bin pol nw' d t), toString b)
      | .ter pol r1 r2 nw d t, [k, x, y] =>
        let r : Res (Ternary × Bool) := do
          if op == "head" then
            if (← t.contains k x y) then return (nw, false)
            if (← d.contains k x y) then return (nw, false)
          nw.insert k x y
        match r with
        | .panic => some (st, "panic")
        | .ok (nw', b) => some (setT st n (.ter pol r1 r2 nw' d t), toString b)
      | _, _ => none
    else if op == "merge" && args.isEmpty then do
      match ← getT st n with
      | .bin pol nw d t =>
        match TrInd.merge pol nw d t with
        | .panic => some (st, "panic")
        | .ok (nw, d, t) => some (setT st n (.bin pol nw d t), "ok")
      | .ter pol r1 r2 nw d t =>
        match Ternary.merge pol nw d t with
        | .panic => some (st, "panic")
        | .ok (nw, d, t) => some (setT st n (.ter pol r1 r2 nw d t), "ok")
    else if op == "has" then do
      let ver ← (← args.head?).asAtom?
      let xs ← (args.drop 1).mapM Sexp.asInt?
      match ← getT st n, xs with
      | .bin _ _ d t, [x, y] => some (st, showR do pure (toString (← (if ver == "d" then d else t).contains x y)))
      | .ter _ _ _ _ d t, [k, x, y] => some (st, showR do pure (toString (← (if ver == "d" then d else t).contains k x y)))
      | _, _ => none
    else if op == "get" then do
      let ver ← (← args.head?).asAtom?
      let view ← (← args[1]?).asAtom?
      let xs ← (args.drop 2).mapM Sexp.asInt?
      match ← getT st n with
      | .bin _ _ d t => some (st, showR do pure (showOpt (← binGet (if ver == "d" then d else t) view xs)))
      | .ter _ _ _ _ d t => some (st, showR do pure (showOpt (← terGet (if ver == "d" then d else t) view xs)))
    else if op == "all" then do
      let ver ← (← args.head?).asAtom?
      let view ← (← args[1]?).asAtom?
      match ← getT st n with
      | .bin _ _ d t => some (st, showR do pure ("all " ++ showTups (← binAll (if ver == "d" then d else t) view)))
      | .ter _ _ _ _ d t => some (st, showR do pure ("all " ++ showTups (← terAll (if ver == "d" then d else t) view)))
    else if op == "len12" then do
      let ver ← (← args.head?).asAtom?
      match ← getT st n with
      | .ter _ _ _ _ d t => some (st, showR do pure (toString (← (if ver == "d" then d else t).lenEstimate12)))
      | _ => none
    else if op == "snap" then do
      let (es, ks) := splitSlash args
      let es ← es.mapM Sexp.asInt?
      let ks ← ks.mapM Sexp.asInt?
      match ← getT st n with
      | .bin _ _ d t => some (st, s!"d[ {snapBin d es} ] t[ {snapBin t es} ]")
      | .ter _ _ _ _ d t => some (st, s!"d[ {snapTer d es ks} ] t[ {snapTer t es ks} ]")
    else none
  | _ => none

end AscentVerif.Driver
