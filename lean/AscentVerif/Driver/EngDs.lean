import AscentVerif.Driver.Engine
import AscentVerif.Model.EngineDs
/-!
# Tie B driver for C12: the bug-faithful evaluation model of a program with one `trrel_uf` relation (`dsx …`)

```
dsx prog <pid> <t> (prog …)        -> ok          the TAGGED program (same s-expression as `eng prog`), relation <t> is tagged
dsx new <inst> <pid> [selflast]    -> ok
dsx load <inst> r<i> (t…) …        -> ok
dsx run <inst>                     -> ok | panic | nofuel
dsx dump <inst>                    -> r0: … | r1: …      (every tuple *1; the tagged relation is printed empty, like its FakeVec)
```
-/
namespace AscentVerif.Driver
open AscentVerif AscentVerif.Std AscentVerif.Engine

structure DsInst where
  pd : ProgDef
  t : RelId
  pol : TrInd.Policy
  input : List (RelId × List Tuple) := []
  result : Option (List (List Tuple)) := none

structure DsStore where
  progs : List (String × ProgDef × RelId) := []
  insts : List (String × DsInst) := []

private def insSorted (x : String) : List String → List String
  | [] => [x]
  | y :: ys => if x ≤ y then x :: y :: ys else y :: insSorted x ys

def handleDsx (s : DsStore) : List Sexp → Option (DsStore × String)
  | [.atom "prog", .atom id, t, p] => do
    let pd ← parseProg p
    let t ← t.asNat?
    some ({ s with progs := (id, pd, t) :: s.progs.filter (·.1 != id) }, "ok")
  | .atom "new" :: .atom inst :: .atom pid :: rest => do
    let (pd, t) ← (s.progs.find? (·.1 == pid)).map (·.2)
    let i : DsInst := { pd := pd, t := t, pol := { selfFirst := rest != [.atom "selflast"] } }
    some ({ s with insts := (inst, i) :: s.insts.filter (·.1 != inst) }, "ok")
  | .atom "load" :: .atom inst :: .atom r :: tuples => do
    let i ← (s.insts.find? (·.1 == inst)).map (·.2)
    let r ← (r.drop 1).toNat?
    let ts ← tuples.mapM parseTuple
    let i' := { i with input := (r, ts) :: i.input.filter (·.1 != r) }
    some ({ s with insts := (inst, i') :: s.insts.filter (·.1 != inst) }, "ok")
  | [.atom "run", .atom inst] => do
    let i ← (s.insts.find? (·.1 == inst)).map (·.2)
    let inp : RelId → List Tuple := fun r => ((i.input.find? (·.1 == r)).map (·.2)).getD []
    match EngineDs.run (interp fun _ => .maxInt) { dsId := i.t, pol := i.pol } i.pd.prog i.pd.order 10000 inp with
    | .panic => some ({ s with insts := (inst, { i with result := none }) :: s.insts.filter (·.1 != inst) }, "panic")
    | .ok st =>
      let rows := (List.range i.pd.prog.rels.length).map fun r => if r == i.t then [] else (EngineDs.prel st r).total
      some ({ s with insts := (inst, { i with result := some rows }) :: s.insts.filter (·.1 != inst) }, "ok")
  | [.atom "dump", .atom inst] => do
    let i ← (s.insts.find? (·.1 == inst)).map (·.2)
    match i.result with
    | none => some (s, "no-result")
    | some rows =>
      some (s, " | ".intercalate ((List.range rows.length).map fun r =>
        let ts := ((rows.getD r []).map renderTuple).foldr insSorted []
        s!"r{r}:" ++ String.join (ts.map fun t => s!" {t}*1")))
  | _ => none

end AscentVerif.Driver
