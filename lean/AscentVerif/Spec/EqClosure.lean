/-!
# Equivalence closure, reflexive on mentioned elements only (the meaning of `#[ds(eqrel)]`)

`EqClosure R` is what an untagged relation holds when the program also has the rules
`r(x,x), r(y,y) <-- r(x,y)`, `r(y,x) <-- r(x,y)`, `r(x,z) <-- r(x,y), r(y,z)`: the least
symmetric and transitive relation containing `R` (reflexivity on the elements `R` mentions
follows).  Elements that `R` never mentions are not related to anything, not even to themselves.
Core Lean only, no imports.
-/
namespace AscentVerif

inductive EqClosure {α : Type} (R : α → α → Prop) : α → α → Prop where
  | base {x y : α} : R x y → EqClosure R x y
  | refl_l {x y : α} : R x y → EqClosure R x x
  | refl_r {x y : α} : R x y → EqClosure R y y
  | symm {x y : α} : EqClosure R x y → EqClosure R y x
  | trans {x y z : α} : EqClosure R x y → EqClosure R y z → EqClosure R x z

namespace EqClosure
variable {α : Type} {R S : α → α → Prop}

/-- `x` occurs in some pair of `R` -/
def Mentioned (R : α → α → Prop) (x : α) : Prop := ∃ y, R x y ∨ R y x

theorem refl_left {x y : α} (h : EqClosure R x y) : EqClosure R x x := h.trans h.symm
theorem refl_right {x y : α} (h : EqClosure R x y) : EqClosure R y y := h.symm.trans h

/-- a partial equivalence relation: symmetric and transitive -/
structure IsPER (S : α → α → Prop) : Prop where
  symm : ∀ {x y}, S x y → S y x
  trans : ∀ {x y z}, S x y → S y z → S x z

theorem isPER (R : α → α → Prop) : IsPER (EqClosure R) := ⟨EqClosure.symm, EqClosure.trans⟩

/-- the closure is the LEAST symmetric transitive relation containing `R` -/
theorem least (hS : IsPER S) (hRS : ∀ x y, R x y → S x y) {x y : α} (h : EqClosure R x y) : S x y := by
  induction h with
  | base h => exact hRS _ _ h
  | refl_l h => exact hS.trans (hRS _ _ h) (hS.symm (hRS _ _ h))
  | refl_r h => exact hS.trans (hS.symm (hRS _ _ h)) (hRS _ _ h)
  | symm _ ih => exact hS.symm ih
  | trans _ _ ih1 ih2 => exact hS.trans ih1 ih2

theorem mono (h : ∀ x y, R x y → S x y) {x y : α} (e : EqClosure R x y) : EqClosure S x y :=
  least (isPER S) (fun _ _ r => .base (h _ _ r)) e

/-- closing twice adds nothing -/
theorem idem {x y : α} : EqClosure (EqClosure R) x y ↔ EqClosure R x y :=
  ⟨least (isPER R) (fun _ _ h => h), .base⟩

/-- a relation that is already symmetric and transitive is its own closure -/
theorem of_isPER (hS : IsPER S) {x y : α} : EqClosure S x y ↔ S x y :=
  ⟨least hS (fun _ _ h => h), .base⟩

theorem mentioned_left {x y : α} (h : EqClosure R x y) : Mentioned R x := by
  suffices hh : Mentioned R x ∧ Mentioned R y from hh.1
  induction h with
  | base h => exact ⟨⟨_, .inl h⟩, ⟨_, .inr h⟩⟩
  | refl_l h => exact ⟨⟨_, .inl h⟩, ⟨_, .inl h⟩⟩
  | refl_r h => exact ⟨⟨_, .inr h⟩, ⟨_, .inr h⟩⟩
  | symm _ ih => exact ⟨ih.2, ih.1⟩
  | trans _ _ ih1 ih2 => exact ⟨ih1.1, ih2.2⟩

theorem mentioned_right {x y : α} (h : EqClosure R x y) : Mentioned R y := mentioned_left h.symm

/-- reflexive exactly on the mentioned elements -/
theorem refl_iff_mentioned {x : α} : EqClosure R x x ↔ Mentioned R x := by
  refine ⟨mentioned_left, ?_⟩
  rintro ⟨y, h | h⟩
  · exact .refl_l h
  · exact .refl_r h

/-- closure of a union in which one side is closed already: closing in two steps = closing at once -/
theorem union_closed_left {T : α → α → Prop} {x y : α} :
    EqClosure (fun a b => EqClosure R a b ∨ T a b) x y ↔ EqClosure (fun a b => R a b ∨ T a b) x y := by
  constructor
  · refine least (isPER _) ?_
    rintro a b (h | h)
    · exact mono (fun _ _ r => .inl r) h
    · exact .base (.inr h)
  · exact mono fun a b h => h.elim (fun r => .inl (.base r)) .inr

/-! ## adding one pair to a partial equivalence relation

If `S` is symmetric and transitive, the closure of `S ∪ {(x, y)}` relates exactly the pairs of `S`
and all pairs over `J = [x] ∪ [y] ∪ {x, y}` (the two classes, merged, with `x`, `y` themselves). -/

/-- `a` is `x` itself or in the class of `x` -/
def Cls (S : α → α → Prop) (x a : α) : Prop := a = x ∨ S x a

theorem add_pair (hS : IsPER S) (x y : α) {a b : α} :
    EqClosure (fun p q => S p q ∨ (p = x ∧ q = y)) a b ↔
      S a b ∨ ((Cls S x a ∨ Cls S y a) ∧ (Cls S x b ∨ Cls S y b)) := by
  constructor
  · intro h
    -- the right-hand side is symmetric, transitive and contains the generators
    have hper : IsPER fun a b => S a b ∨ ((Cls S x a ∨ Cls S y a) ∧ (Cls S x b ∨ Cls S y b)) := by
      constructor
      · rintro p q (h | ⟨h1, h2⟩)
        · exact .inl (hS.symm h)
        · exact .inr ⟨h2, h1⟩
      · -- membership in J is stable under S
        have stab : ∀ {p q : α}, (Cls S x p ∨ Cls S y p) → S p q → (Cls S x q ∨ Cls S y q) := by
          rintro p q (hp | hp) hpq
          · rcases hp with rfl | hp
            · exact .inl (.inr hpq)
            · exact .inl (.inr (hS.trans hp hpq))
          · rcases hp with rfl | hp
            · exact .inr (.inr hpq)
            · exact .inr (.inr (hS.trans hp hpq))
        rintro p q r (h1 | ⟨h1, h1'⟩) (h2 | ⟨h2, h2'⟩)
        · exact .inl (hS.trans h1 h2)
        · exact .inr ⟨stab h2 (hS.symm h1), h2'⟩
        · exact .inr ⟨h1, stab h1' h2⟩
        · exact .inr ⟨h1, h2'⟩
    refine least hper ?_ h
    rintro p q (h | ⟨rfl, rfl⟩)
    · exact .inl h
    · exact .inr ⟨.inl (.inl rfl), .inr (.inl rfl)⟩
  · -- every element of J is related to x in the closure
    have hx : EqClosure (fun p q => S p q ∨ (p = x ∧ q = y)) x x := .refl_l (.inr ⟨rfl, rfl⟩)
    have hxy : EqClosure (fun p q => S p q ∨ (p = x ∧ q = y)) x y := .base (.inr ⟨rfl, rfl⟩)
    have toX : ∀ {p : α}, (Cls S x p ∨ Cls S y p) → EqClosure (fun p q => S p q ∨ (p = x ∧ q = y)) x p := by
      rintro p (hp | hp)
      · rcases hp with rfl | hp
        · exact hx
        · exact .base (.inl hp)
      · rcases hp with rfl | hp
        · exact hxy
        · exact hxy.trans (.base (.inl hp))
    rintro (h | ⟨h1, h2⟩)
    · exact .base (.inl h)
    · exact (toX h1).symm.trans (toX h2)

end EqClosure
end AscentVerif
