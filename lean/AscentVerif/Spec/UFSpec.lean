import AscentVerif.Model.UnionFind
import AscentVerif.Model.TrRelUF
/-!
# Specification side of C18

* the closures the property talks about (`EqvGen`, `ReflTransGen`; core Lean only ships
  `Relation.TransGen`, so the two standard definitions are stated here),
* operation histories of `UnionFind` and their abstract meaning: the list of distinct items in
  order of first addition (an item's id is its position) and the list of item pairs united so
  far; "connected by the unions performed" = `EqvGen` of those pairs,
* operation histories of `TrRelUnionFind` (a list of added pairs) and their meaning:
  `ReflTransGen` of the added pairs, on mentioned elements.
-/
namespace AscentVerif

/-- the smallest equivalence relation containing `r` -/
inductive EqvGen {α : Type} (r : α → α → Prop) : α → α → Prop
  | rel {a b : α} : r a b → EqvGen r a b
  | refl (a : α) : EqvGen r a a
  | symm {a b : α} : EqvGen r a b → EqvGen r b a
  | trans {a b c : α} : EqvGen r a b → EqvGen r b c → EqvGen r a c

/-- the reflexive transitive closure of `r` -/
inductive ReflTransGen {α : Type} (r : α → α → Prop) : α → α → Prop
  | refl (a : α) : ReflTransGen r a a
  | tail {a b c : α} : ReflTransGen r a b → r b c → ReflTransGen r a c

namespace UF

/-- one public operation of `UnionFind` (ids are vector indices) -/
inductive Op where
  | add (x : Int)
  | findItem (x : Int)
  | find (id : Nat)
  | union (a b : Nat)
  | unionAdd (x y : Int)
deriving Repr, DecidableEq

/-- run one operation on the model, forgetting the returned value -/
def step (u : UnionFind) : Op → Res UnionFind
  | .add x => match u.add x with | .ok (u', _) => .ok u' | .panic => .panic
  | .findItem x => match u.findItem x with | .ok (u', _) => .ok u' | .panic => .panic
  | .find id => match u.find id with | .ok (u', _) => .ok u' | .panic => .panic
  | .union a b => match u.union a b with | .ok (u', _) => .ok u' | .panic => .panic
  | .unionAdd x y => match u.unionAdd x y with | .ok (u', _) => .ok u' | .panic => .panic

def run (u : UnionFind) : List Op → Res UnionFind
  | [] => .ok u
  | op :: rest => match step u op with | .ok u' => run u' rest | .panic => .panic

/-- abstract meaning of a history: distinct items in order of first addition, united pairs -/
structure Spec where
  items : List Int := []
  pairs : List (Int × Int) := []
deriving Repr, DecidableEq

def Spec.addItem (s : Spec) (x : Int) : Spec := if x ∈ s.items then s else { s with items := s.items ++ [x] }

/-- `none`: the operation is outside the contract (`find` / `union` on an id that does not exist:
the Rust functions are `unsafe fn` with exactly this safety condition) -/
def Spec.step (s : Spec) : Op → Option Spec
  | .add x => some (s.addItem x)
  | .findItem _ => some s
  | .find id => if id < s.items.length then some s else none
  | .union a b =>
    match s.items[a]?, s.items[b]? with
    | some x, some y => some { s with pairs := (x, y) :: s.pairs }
    | _, _ => none
  | .unionAdd x y =>
    let s' := (s.addItem x).addItem y
    some { s' with pairs := (x, y) :: s'.pairs }

def Spec.run (s : Spec) : List Op → Option Spec
  | [] => some s
  | op :: rest => match s.step op with | some s' => s'.run rest | none => none

/-- "connected by the unions performed" -/
def Spec.Conn (s : Spec) : Int → Int → Prop := EqvGen fun x y => (x, y) ∈ s.pairs

end UF

namespace TrRel

/-- run a sequence of `add`s on the model -/
def run (t : TrRel) : List (Int × Int) → Res TrRel
  | [] => .ok t
  | (x, y) :: rest => match t.add x y with | .ok (t', _) => run t' rest | .panic => .panic

/-- elements mentioned by a history -/
def Mentioned (ps : List (Int × Int)) (x : Int) : Prop := ∃ p ∈ ps, p.1 = x ∨ p.2 = x

/-- the reference relation: reflexive transitive closure of the added pairs, on mentioned elements -/
def Closure (ps : List (Int × Int)) (x y : Int) : Prop :=
  Mentioned ps x ∧ Mentioned ps y ∧ ReflTransGen (fun a b => (a, b) ∈ ps) x y

end TrRel
end AscentVerif
