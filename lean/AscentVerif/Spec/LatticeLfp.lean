import AscentVerif.Spec.Datalog
/-!
# What "the least fixed point of a program with lattice relations" means (C03)

A lattice relation holds, per key (all columns but the last), one value of a join-semilattice.
Databases are compared by `⊑`: relation facts by inclusion, lattice rows by `≤` on the value
of the same key.  A database is *closed* when it dominates the input and the head of every
rule instance over it; the least fixed point is the least closed database.
-/
namespace AscentVerif

variable {E B G P A : Type}

/-- the order of the lattice column of each lattice relation, with what the engine relies on:
`join_mut` computes an upper bound that is least, and answers `false` only if nothing had to change -/
structure LatOrder (I : Interp E B G P A) where
  le : RelId → Val → Val → Prop
  refl : ∀ r a, le r a a
  trans : ∀ r a b c, le r a b → le r b c → le r a c
  join_left : ∀ r a b, le r a (I.joinMut r a b).1
  join_right : ∀ r a b, le r b (I.joinMut r a b).1
  join_least : ∀ r a b c, le r a c → le r b c → le r (I.joinMut r a b).1 c
  flag_false : ∀ r a b, (I.joinMut r a b).2 = false → le r b a

def isLat (p : Program E B G P A) (r : RelId) : Bool := (p.rels.getD r ⟨0, false⟩).lat

def keyOf (t : Tuple) : Tuple := t.dropLast
def valOf (t : Tuple) : Val := t.getLastD .unit

/-- fact `f` is dominated by database `M` -/
def Dominated (I : Interp E B G P A) (L : LatOrder I) (p : Program E B G P A) (M : DB) (f : Fact) : Prop :=
  if isLat p f.rel then ∃ t, M ⟨f.rel, t⟩ ∧ keyOf t = keyOf f.args ∧ L.le f.rel (valOf f.args) (valOf t)
  else M f

/-- `M ⊑ M'` -/
def DBLe (I : Interp E B G P A) (L : LatOrder I) (p : Program E B G P A) (M M' : DB) : Prop :=
  ∀ f, M f → Dominated I L p M' f

/-- at most one row per key in every lattice relation -/
def KeyUnique (p : Program E B G P A) (M : DB) : Prop :=
  ∀ r t t', isLat p r = true → M ⟨r, t⟩ → M ⟨r, t'⟩ → keyOf t = keyOf t' → t = t'

/-- closed: dominates the input and the head of every rule instance over itself -/
def LClosed (I : Interp E B G P A) (L : LatOrder I) (p : Program E B G P A) (inp M : DB) : Prop :=
  DBLe I L p inp M ∧
  ∀ rule ∈ p.rules, ∀ ρ, Sat I M (fun _ => []) rule.body [] ρ → ∀ h ∈ rule.heads, Dominated I L p M (headFact I h ρ)

/-- the program uses lattice values monotonically: a rule instance over a smaller database is
matched by one over any larger (key-unique) database whose heads dominate its heads -/
def MonotoneProg (I : Interp E B G P A) (L : LatOrder I) (p : Program E B G P A) : Prop :=
  ∀ M M' : DB, KeyUnique p M → KeyUnique p M' → DBLe I L p M M' →
    ∀ rule ∈ p.rules, ∀ ρ, Sat I M (fun _ => []) rule.body [] ρ →
      ∃ ρ', Sat I M' (fun _ => []) rule.body [] ρ' ∧
        ∀ h ∈ rule.heads, Dominated I L p (fun f => f = headFact I h ρ') (headFact I h ρ)

end AscentVerif
