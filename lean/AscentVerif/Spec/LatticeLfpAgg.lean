import AscentVerif.Spec.LatticeLfp
/-!
# Closed / monotone for programs with lattices AND aggregation (C04 over lattices, semantics)

`LClosed` / `MonotoneProg` of `Spec/LatticeLfp.lean` fix the aggregation view to `fun _ => []`
(aggregation-free programs).  Here the view `agg : RelId → List Tuple` is a parameter: the stratified
semantics instantiates it with the FINAL rows of each relation (for a lattice relation: its final
one-row-per-key rows).  For `agg = fun _ => []` the notions coincide definitionally with the old
ones; on aggregation-free programs they coincide for EVERY view.
-/
namespace AscentVerif

variable {E B G P A : Type}

/-- closed w.r.t. aggregation view `agg`: dominates the input and the head of every rule instance
over itself, aggregates evaluated on `agg` -/
def LClosedA (I : Interp E B G P A) (L : LatOrder I) (p : Program E B G P A) (agg : RelId → List Tuple)
    (inp M : DB) : Prop :=
  DBLe I L p inp M ∧
  ∀ rule ∈ p.rules, ∀ ρ, Sat I M agg rule.body [] ρ → ∀ h ∈ rule.heads, Dominated I L p M (headFact I h ρ)

/-- monotone w.r.t. aggregation view `agg` (held fixed on both sides: the stratified semantics
fixes the view to the final rows) -/
def MonotoneProgA (I : Interp E B G P A) (L : LatOrder I) (p : Program E B G P A) (agg : RelId → List Tuple) : Prop :=
  ∀ M M' : DB, KeyUnique p M → KeyUnique p M' → DBLe I L p M M' →
    ∀ rule ∈ p.rules, ∀ ρ, Sat I M agg rule.body [] ρ →
      ∃ ρ', Sat I M' agg rule.body [] ρ' ∧
        ∀ h ∈ rule.heads, Dominated I L p (fun f => f = headFact I h ρ') (headFact I h ρ)

theorem LClosedA_nil (I : Interp E B G P A) (L : LatOrder I) (p : Program E B G P A) (inp M : DB) :
    LClosedA I L p (fun _ => []) inp M ↔ LClosed I L p inp M := Iff.rfl

theorem MonotoneProgA_nil (I : Interp E B G P A) (L : LatOrder I) (p : Program E B G P A) :
    MonotoneProgA I L p (fun _ => []) ↔ MonotoneProg I L p := Iff.rfl

/-- on an aggregation-free body the view is irrelevant -/
theorem Sat.agg_irrel {I : Interp E B G P A} {D : DB} {agg agg' : RelId → List Tuple} :
    ∀ {items : List (Item E B G P A)} {ρ ρ' : Env}, (items.all fun i => !i.isAgg) = true →
      Sat I D agg items ρ ρ' → Sat I D agg' items ρ ρ' := by
  intro items ρ ρ' haf hs
  induction hs with
  | nil ρ => exact .nil ρ
  | clause t hd hm hc _ ih => exact .clause t hd hm hc (ih (by simp [List.all_cons] at haf ⊢; exact haf.2))
  | cond hc _ ih => exact .cond hc (ih (by simp [List.all_cons] at haf ⊢; exact haf.2))
  | gen x hx _ ih => exact .gen x hx (ih (by simp [List.all_cons] at haf ⊢; exact haf.2))
  | aggr ha _ ih => simp [List.all_cons, Item.isAgg] at haf

/-- on aggregation-free programs `LClosedA` is `LClosed`, whatever the view -/
theorem LClosedA_iff_of_aggFree (I : Interp E B G P A) (L : LatOrder I) (p : Program E B G P A)
    (agg : RelId → List Tuple) (inp M : DB) (haf : ∀ r ∈ p.rules, r.aggFree = true) :
    LClosedA I L p agg inp M ↔ LClosed I L p inp M := by
  constructor
  · rintro ⟨h1, h2⟩
    exact ⟨h1, fun rule hr ρ hs => h2 rule hr ρ (Sat.agg_irrel (haf rule hr) hs)⟩
  · rintro ⟨h1, h2⟩
    exact ⟨h1, fun rule hr ρ hs => h2 rule hr ρ (Sat.agg_irrel (haf rule hr) hs)⟩

/-- on aggregation-free programs `MonotoneProgA` is `MonotoneProg`, whatever the view -/
theorem MonotoneProgA_iff_of_aggFree (I : Interp E B G P A) (L : LatOrder I) (p : Program E B G P A)
    (agg : RelId → List Tuple) (haf : ∀ r ∈ p.rules, r.aggFree = true) :
    MonotoneProgA I L p agg ↔ MonotoneProg I L p := by
  constructor
  · intro h M M' hk hk' hle rule hr ρ hs
    obtain ⟨ρ', hs', hd⟩ := h M M' hk hk' hle rule hr ρ (Sat.agg_irrel (haf rule hr) hs)
    exact ⟨ρ', Sat.agg_irrel (haf rule hr) hs', hd⟩
  · intro h M M' hk hk' hle rule hr ρ hs
    obtain ⟨ρ', hs', hd⟩ := h M M' hk hk' hle rule hr ρ (Sat.agg_irrel (haf rule hr) hs)
    exact ⟨ρ', Sat.agg_irrel (haf rule hr) hs', hd⟩

end AscentVerif
