import AscentVerif.Model.Lattice
/-!
# What C16 demands of a lattice implementation

`LawfulLat α WF`: for all values satisfying the representation invariant `WF` (trivial for
most types; "strictly increasing" for `Set`, "at most BOUND elements" for `BoundedSet`,
"length N" for arrays), `partial_cmp` is a partial order, `join`/`meet` are the least upper
/ greatest lower bound **for that order**, the in-place versions leave the same value and
their flag is truthful.  The algebraic laws of the property statement (commutative,
associative, idempotent, absorbing, `a ≤ b ↔ join a b = b ↔ meet a b = a`) are *derived*
from these fields once, generically, in `Props/C16.lean`.
-/
namespace AscentVerif.Lat

/-- the laws of an `Ord` implementation -/
structure LawfulLinOrd (α : Type) [LinOrd α] : Prop where
  cmp_refl : ∀ a : α, LinOrd.cmp a a = .eq
  eq_of_cmp_eq : ∀ a b : α, LinOrd.cmp a b = .eq → a = b
  cmp_swap : ∀ a b : α, LinOrd.cmp b a = (LinOrd.cmp a b).swap
  lt_trans : ∀ a b c : α, LinOrd.cmp a b = .lt → LinOrd.cmp b c = .lt → LinOrd.cmp a c = .lt

structure LawfulLat (α : Type) [Lat α] (WF : α → Prop) : Prop where
  pcmp_refl : ∀ a, WF a → pcmp a a = some .eq
  eq_of_pcmp_eq : ∀ a b, WF a → WF b → pcmp a b = some .eq → a = b
  pcmp_swap : ∀ a b, WF a → WF b → pcmp b a = (pcmp a b).map Ordering.swap
  le_trans : ∀ a b c, WF a → WF b → WF c → le a b = true → le b c = true → le a c = true
  join_wf : ∀ a b, WF a → WF b → WF (join a b)
  meet_wf : ∀ a b, WF a → WF b → WF (meet a b)
  le_join_left : ∀ a b, WF a → WF b → le a (join a b) = true
  le_join_right : ∀ a b, WF a → WF b → le b (join a b) = true
  join_le : ∀ a b c, WF a → WF b → WF c → le a c = true → le b c = true → le (join a b) c = true
  meet_le_left : ∀ a b, WF a → WF b → le (meet a b) a = true
  meet_le_right : ∀ a b, WF a → WF b → le (meet a b) b = true
  le_meet : ∀ a b c, WF a → WF b → WF c → le c a = true → le c b = true → le c (meet a b) = true
  joinMut_fst : ∀ a b, WF a → WF b → (joinMut a b).1 = join a b
  joinMut_snd : ∀ a b, WF a → WF b → ((joinMut a b).2 = true ↔ join a b ≠ a)
  meetMut_fst : ∀ a b, WF a → WF b → (meetMut a b).1 = meet a b
  meetMut_snd : ∀ a b, WF a → WF b → ((meetMut a b).2 = true ↔ meet a b ≠ a)

structure LawfulBLat (α : Type) [BLat α] (WF : α → Prop) : Prop extends LawfulLat α WF where
  top_wf : WF (BLat.top : α)
  bottom_wf : WF (BLat.bottom : α)
  le_top : ∀ a, WF a → le a (BLat.top : α) = true
  bottom_le : ∀ a, WF a → le (BLat.bottom : α) a = true

/-- the trivial invariant -/
def AnyWF {α : Type} : α → Prop := fun _ => True

end AscentVerif.Lat
