import AscentVerif.Model.Syntax
/-!
# Declarative semantics: least model of a rule program over an input database

`Sat I D agg items ρ ρ'`: evaluating the body items left to right over database `D` (a set
of facts) extends environment `ρ` to `ρ'`.  Aggregations read `agg r`, the *complete* list
of distinct tuples of relation `r` (given from outside: the stratified semantics fixes it to
the final content of `r`).  `Derivable` is the least database containing the input and
closed under the rules — the least model.  Short on purpose: this file is the meaning of
"what run() must compute" for C01–C06, C09, C13, C14.
-/
namespace AscentVerif

variable {E B G P A : Type}

abbrev DB := Fact → Prop

inductive Sat (I : Interp E B G P A) (D : DB) (agg : RelId → List Tuple) :
    List (Item E B G P A) → Env → Env → Prop where
  | nil (ρ : Env) : Sat I D agg [] ρ ρ
  | clause {r : RelId} {args : List (Arg E)} {conds : List (Cond E B P)} {rest : List (Item E B G P A)}
      {ρ ρ₁ ρ₂ ρ₃ : Env} (t : Tuple) :
      D ⟨r, t⟩ → matchArgs I ρ args t ρ = some ρ₁ → satConds I conds ρ₁ = some ρ₂ →
      Sat I D agg rest ρ₂ ρ₃ → Sat I D agg (.clause r args conds :: rest) ρ ρ₃
  | cond {c : Cond E B P} {rest : List (Item E B G P A)} {ρ ρ₁ ρ₂ : Env} :
      satCond I c ρ = some ρ₁ → Sat I D agg rest ρ₁ ρ₂ → Sat I D agg (.cond c :: rest) ρ ρ₂
  | gen {v : Var} {g : G} {rest : List (Item E B G P A)} {ρ ρ₂ : Env} (x : Val) :
      x ∈ I.gen g ρ → Sat I D agg rest ((v, x) :: ρ) ρ₂ → Sat I D agg (.gen v g :: rest) ρ ρ₂
  | aggr {a : AggClause E A} {rest : List (Item E B G P A)} {ρ ρ₁ ρ₂ : Env} :
      ρ₁ ∈ aggEnvs I a ρ (agg a.rel) → Sat I D agg rest ρ₁ ρ₂ → Sat I D agg (.agg a :: rest) ρ ρ₂

/-- the fact a head clause denotes under an environment -/
def headFact (I : Interp E B G P A) (h : HeadClause E) (ρ : Env) : Fact :=
  ⟨h.rel, h.args.map fun e => I.expr e ρ⟩

/-- one-step consequences of `D` under the rules -/
def Cons (I : Interp E B G P A) (rules : List (Rule E B G P A)) (agg : RelId → List Tuple) (D : DB) (f : Fact) : Prop :=
  ∃ r ∈ rules, ∃ ρ, Sat I D agg r.body [] ρ ∧ ∃ h ∈ r.heads, f = headFact I h ρ

def Closed (I : Interp E B G P A) (rules : List (Rule E B G P A)) (agg : RelId → List Tuple) (inp D : DB) : Prop :=
  (∀ f, inp f → D f) ∧ (∀ f, Cons I rules agg D f → D f)

/-- the least model: member of every closed database -/
def Derivable (I : Interp E B G P A) (rules : List (Rule E B G P A)) (agg : RelId → List Tuple) (inp : DB) (f : Fact) : Prop :=
  ∀ D, Closed I rules agg inp D → D f

theorem Sat.mono {I : Interp E B G P A} {agg : RelId → List Tuple} {D D' : DB} (h : ∀ f, D f → D' f) :
    ∀ {items : List (Item E B G P A)} {ρ ρ' : Env}, Sat I D agg items ρ ρ' → Sat I D' agg items ρ ρ' := by
  intro items ρ ρ' hs
  induction hs with
  | nil ρ => exact .nil ρ
  | clause t hd hm hc _ ih => exact .clause t (h _ hd) hm hc ih
  | cond hc _ ih => exact .cond hc ih
  | gen x hx _ ih => exact .gen x hx ih
  | aggr ha _ ih => exact .aggr ha ih

/-- the least model is a model … -/
theorem derivable_closed (I : Interp E B G P A) (rules : List (Rule E B G P A)) (agg : RelId → List Tuple) (inp : DB) :
    Closed I rules agg inp (Derivable I rules agg inp) := by
  refine ⟨fun f hf D hD => hD.1 f hf, ?_⟩
  rintro f ⟨r, hr, ρ, hs, h, hh, rfl⟩ D hD
  exact hD.2 _ ⟨r, hr, ρ, Sat.mono (fun g hg => hg D hD) hs, h, hh, rfl⟩

/-- … and the least one -/
theorem derivable_least (I : Interp E B G P A) (rules : List (Rule E B G P A)) (agg : RelId → List Tuple) (inp D : DB)
    (hD : Closed I rules agg inp D) : ∀ f, Derivable I rules agg inp f → D f := fun _ hf => hf D hD

theorem derivable_input {I : Interp E B G P A} {rules : List (Rule E B G P A)} {agg : RelId → List Tuple} {inp : DB} {f : Fact}
    (h : inp f) : Derivable I rules agg inp f := fun _ hD => hD.1 f h

theorem derivable_cons {I : Interp E B G P A} {rules : List (Rule E B G P A)} {agg : RelId → List Tuple} {inp : DB} {f : Fact}
    (h : Cons I rules agg (Derivable I rules agg inp) f) : Derivable I rules agg inp f :=
  (derivable_closed I rules agg inp).2 f h

/-- rule programs without aggregation (hence without negation) -/
def Item.isAgg : Item E B G P A → Bool
  | .agg _ => true
  | _ => false
def Rule.aggFree (r : Rule E B G P A) : Bool := r.body.all fun i => !i.isAgg

end AscentVerif
