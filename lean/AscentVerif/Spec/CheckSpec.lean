import AscentVerif.Model.Check
/-!
# C15 — what "ill-formed" and "well-formed" mean, stated without reference to how `check` traverses

Every predicate quantifies over *any* rule and *any* position; none of them mentions the order in which
`Check.check` visits rules, items or attributes.  Predicates about desugared rules take the list of
desugared rules as a parameter; `Occurs` / `Invokes` describe positions in the surface program (any
rule, any nesting of disjunctions, any macro body reached from an invocation).
Core Lean only.
-/
namespace AscentVerif.Check
open AscentVerif AscentVerif.Engine

/-- the macro reports an error (or panics) for the program: no code is emitted -/
def Rejected (s : Summary) : Prop := ∃ e, check s = .error e

/-- the program is compiled by this macro invocation: it parses, contains no `include_source!` and is
not an `ascent_source!` -/
def Reaches (s : Summary) : Prop := parseItems s.items = .ok .whole ∧ s.kind ≠ .source

/-! ## desugared rules -/

/-- relation name and argument count of a body item -/
def Ev.rel? : Ev → Option (Name × Nat)
  | .clause rel args _ => some (rel, args.length)
  | .agg rel args _ _ => some (rel, args.length)
  | .binder _ => none

/-- every relation occurrence of a rule: body clauses, aggregations, negations (desugared), heads -/
def CoreRule.occurrences (r : CoreRule) : List (Name × Nat) :=
  r.body.filterMap Ev.rel? ++ r.heads.map fun h => (h.rel, h.nargs)

/-- some rule mentions a relation that is not declared -/
def IllFormedUndeclared (s : Summary) (rules : List CoreRule) : Prop :=
  ∃ r ∈ rules, ∃ o ∈ r.occurrences, findDecl s.decls o.1 = none

/-- some rule uses a declared relation with the wrong number of arguments -/
def IllFormedArity (s : Summary) (rules : List CoreRule) : Prop :=
  ∃ r ∈ rules, ∃ o ∈ r.occurrences, ∃ d, findDecl s.decls o.1 = some d ∧ d.arity ≠ o.2

/-- variables an item introduces through patterns (`let`, `if let`, `for`, the `agg` pattern, `?pattern`
arguments, conditions attached to a clause), as `pattern_get_vars` reports them -/
def Ev.binderVars : Ev → List Var
  | .clause _ args conds => (patConds args ++ conds).flatMap (·.seen)
  | .binder b => b.seen
  | .agg _ _ pat _ => pat.seen

/-- identifier arguments of a clause (they join when already grounded, otherwise they are grounded here) -/
def Ev.argIdents : Ev → List Var
  | .clause _ args _ => argVars args
  | _ => []

/-- everything that is grounded after the item -/
def Ev.grounds (ev : Ev) : List Var := ev.argIdents ++ ev.binderVars

/-- the bound arguments of an aggregation (`agg p = f(bound..) in rel(args..)`): they are local to the aggregation
(not grounded after it), but they are binders — each introduces a variable that ranges over the aggregated rows
(since fix 4509942 they are tested like every other binder; formerly finding FM2) -/
def Ev.boundVars : Ev → List Var
  | .agg _ _ _ bound => bound
  | _ => []

/-- some pattern of some rule binds a variable that is already grounded at that position — by an earlier
item of the rule, by the identifier arguments of the same clause, or twice by the patterns of the item —, or some
aggregation has a bound argument that is already grounded at that position by an earlier item of the rule
(`c(y), agg m = min(y) in a(y)`), or the same bound argument twice (`agg m = f(y, y) in a(y)`) -/
def IllFormedRebind (rules : List CoreRule) : Prop :=
  ∃ r ∈ rules, ∃ pre ev post, r.body = pre ++ ev :: post ∧
    (¬ ev.binderVars.Nodup ∨ (∃ v ∈ ev.binderVars, v ∈ pre.flatMap Ev.grounds ++ ev.argIdents) ∨
      ¬ ev.boundVars.Nodup ∨ ∃ v ∈ ev.boundVars, v ∈ pre.flatMap Ev.grounds)

/-- variables a pattern binds although `pattern_get_vars` does not report them -/
def Ev.hiddenVars : Ev → List Var
  | .clause _ args conds => (patConds args ++ conds).flatMap (·.hidden)
  | .binder b => b.hidden
  | .agg _ _ pat _ => pat.hidden

/-- the same with the variables the real pattern binds, reported or not (finding FM1: for these the
rejection theorem is FALSE, see `hidden_rebind_accepted`) -/
def IllFormedRebindFull (rules : List CoreRule) : Prop :=
  ∃ r ∈ rules, ∃ pre ev post, r.body = pre ++ ev :: post ∧
    ∃ v ∈ ev.binderVars ++ ev.hiddenVars, v ∈ pre.flatMap (fun e => e.grounds ++ e.hiddenVars) ++ ev.argIdents

/-- rule `k` aggregates (or negates) over a head relation of rule `j`, and both lie in the strongly
connected class of some rule `i` of the rule dependency graph -/
def IllFormedStrat (s : Summary) (rules : List CoreRule) : Prop :=
  let p := skeleton s.decls rules
  ∃ i k j rk rj a, i < p.rules.length ∧ sameScc p i k = true ∧ sameScc p i j = true ∧
    p.rules[k]? = some rk ∧ p.rules[j]? = some rj ∧ AscentVerif.Item.agg a ∈ rk.body ∧ a.rel ∈ rj.headRels

/-- some aggregation of some rule aggregates over (`agg p = f(v, ..) in rel(args..)`) a variable `v` that is
not one of the identifier arguments of the aggregated relation (fix 5862f99; formerly finding FM5) -/
def IllFormedAggBound (rules : List CoreRule) : Prop :=
  ∃ r ∈ rules, ∃ rel args pat bound, Ev.agg rel args pat bound ∈ r.body ∧ ∃ v ∈ bound, v ∉ argVars args

/-- dependency paths between rules (`feeds`: a head of the first occurs in the body of the second) -/
inductive Path (p : Skel) : Nat → Nat → Prop
  | refl (i : Nat) : Path p i i
  | step {i k j : Nat} : feeds p i k = true → Path p k j → Path p i j

/-! ## attributes and declarations -/

def IllFormedInclude (s : Summary) : Prop := s.kind = .source ∧ ∃ n, Top.incl n ∈ s.items

/-- a `lattice` declaration that takes part in the program (`Summary.effDecls`: it is not replaced by a later
identical re-declaration) carries a `ds` attribute -/
def IllFormedDsLattice (s : Summary) : Prop := ∃ d ∈ s.effDecls, d.lat = true ∧ ∃ a ∈ d.attrs, a.name = "ds"

def hasTwoDs (as : List AttrS) : Prop := 2 ≤ (as.filter fun a => a.name == "ds").length

/-- two `ds` attributes on the program or on a declaration that takes part in the program (`Summary.effDecls`) -/
def IllFormedTwoDs (s : Summary) : Prop := hasTwoDs s.attrs ∨ ∃ d ∈ s.effDecls, hasTwoDs d.attrs

def IllFormedUnknownAttr (s : Summary) : Prop := ∃ a ∈ s.attrs, a.name ∉ recognizedAttrs

def IllFormedParOnlyAttr (s : Summary) : Prop :=
  s.kind.parallel = false ∧ ∃ a ∈ s.attrs, a.name = "inter_rule_parallelism"

/-- the `impl` signature names another struct, or other generic arguments, than the `struct` signature
(fix dfbe0be; formerly finding FM6) -/
def IllFormedSig (s : Summary) : Prop :=
  ∃ sg i, s.sig = some sg ∧ sg.implName = some i ∧ (i ≠ sg.structName ∨ sg.genericsMatch = false)

/-! ## empty disjunctions -/

/-- the item contains, at any depth of disjunctions, a disjunction without alternatives: `()` -/
inductive HasEmptyDisj : Item → Prop
  | here : HasEmptyDisj (.disj [])
  | inDisj {alts : List (List Item)} {alt : List Item} {it : Item} :
      alt ∈ alts → it ∈ alt → HasEmptyDisj it → HasEmptyDisj (.disj alts)

/-- some rule contains an empty disjunction, at any position and depth (fix 361e42e; formerly finding FM4:
the rule disappeared) -/
def IllFormedEmptyDisj (s : Summary) : Prop := ∃ r ∈ s.rules, ∃ it ∈ r.body, HasEmptyDisj it

/-! ## macros -/

/-- the item contains, at any depth of disjunctions, an invocation of macro `m` -/
inductive Invokes : Item → Name → Prop
  | here (m : Name) (args : List Arg) : Invokes (.mac m args) m
  | inDisj {alts : List (List Item)} {alt : List Item} {it : Item} {m : Name} :
      alt ∈ alts → it ∈ alt → Invokes it m → Invokes (.disj alts) m

/-- a set of macro names in which every (body) macro invokes a member of the set again: a macro that
reaches itself through invocations — directly, mutually, through any cycle — belongs to such a set -/
def Diverging (ms : List MacroDef) (D : Name → Prop) : Prop :=
  ∀ m, D m → ∀ d, lookupMacro ms m = some d → ∃ it ∈ d.body, ∃ m', D m' ∧ Invokes it m'

/-- a set of macro names in which the body of every (body) macro contains an empty disjunction or invokes a
member of the set: the macros from which an empty disjunction is reached through invocations -/
def ReachesEmptyDisj (ms : List MacroDef) (D : Name → Prop) : Prop :=
  ∀ m, D m → ∀ d, lookupMacro ms m = some d →
    (∃ it ∈ d.body, HasEmptyDisj it) ∨ ∃ it ∈ d.body, ∃ m', D m' ∧ Invokes it m'

inductive HInvokes : HItem → Name → Prop
  | here (m : Name) (args : List Arg) : HInvokes (.mac m args) m

def HDiverging (ms : List MacroDef) (D : Name → Prop) : Prop :=
  ∀ m, D m → ∀ d, lookupMacro ms m = some d → ∃ h ∈ d.hbody, ∃ m', D m' ∧ HInvokes h m'

/-- `Fits ms n it`: expanding `it` needs a depth budget of at most `n` (macro invocations resolve to body
macros with the right number of arguments; the derivation is finite, hence the call graph below `it`
is acyclic; every disjunction — in the item and in the macro bodies reached from it — has an alternative) -/
inductive Fits (ms : List MacroDef) : Nat → Item → Prop
  | clause {n : Nat} (rel : Name) (args : List Arg) (conds : List Binder) : Fits ms (n + 1) (.clause rel args conds)
  | binder {n : Nat} (b : Binder) : Fits ms (n + 1) (.binder b)
  | agg {n : Nat} (rel : Name) (args : List Arg) (pat : Binder) (bound : List Var) : Fits ms (n + 1) (.agg rel args pat bound)
  | neg {n : Nat} (rel : Name) (k : Nat) : Fits ms (n + 1) (.neg rel k)
  | disj {n : Nat} {alts : List (List Item)} : alts ≠ [] → (∀ alt ∈ alts, ∀ it ∈ alt, Fits ms n it) →
      Fits ms (n + 1) (.disj alts)
  | mac {n : Nat} {m : Name} {args : List Arg} {d : MacroDef} : lookupMacro ms m = some d → d.isHead = false →
      args.length = d.params.length → (∀ it ∈ d.body, Fits ms n it) → Fits ms (n + 1) (.mac m args)

/-! ## well-formed programs -/

def dsOk (as : List AttrS) : Prop :=
  (as.filter fun a => a.name == "ds").length ≤ 1 ∧ ∀ a ∈ as, a.name = "ds" → a.shape = .list

/-- a program (with its desugared rules) that violates none of the static rules -/
structure WellFormedCore (s : Summary) (rules : List CoreRule) : Prop where
  declared : ∀ r ∈ rules, ∀ o ∈ r.occurrences, ∃ d, findDecl s.decls o.1 = some d ∧ d.arity = o.2
  fresh : ∀ r ∈ rules, ∀ pre ev post, r.body = pre ++ ev :: post →
    ev.binderVars.Nodup ∧ (∀ v ∈ ev.binderVars, v ∉ pre.flatMap Ev.grounds ++ ev.argIdents) ∧
      ev.boundVars.Nodup ∧ ∀ v ∈ ev.boundVars, v ∉ pre.flatMap Ev.grounds
  attrsKnown : ∀ a ∈ s.attrs, a.name ∈ recognizedAttrs
  attrsPlain : ∀ a ∈ s.attrs, a.name ≠ "ds" → a.shape = .path
  parOnly : (∃ a ∈ s.attrs, a.name = "inter_rule_parallelism") → s.kind.parallel = true
  progDs : dsOk s.attrs
  /-- over the declarations that take part in the program: the attributes of a declaration replaced by a later
  identical re-declaration are never looked at -/
  declDs : ∀ d ∈ s.effDecls, dsOk d.attrs ∧ (d.lat = true → ∀ a ∈ d.attrs, a.name ≠ "ds")
  stratified : ¬ IllFormedStrat s rules
  aggBound : ¬ IllFormedAggBound rules
  sigOk : ¬ IllFormedSig s
  noEmptyDisj : ¬ IllFormedEmptyDisj s

end AscentVerif.Check
