import AscentVerif.Spec.Datalog
/-!
# C12, specification side: what `#[ds(trrel_uf)]` means

A relation `t` tagged `trrel_uf` is *specified* to behave like the plain relation `t` closed by two explicit rules
(binary form; the ternary form `t(K, T, T)` carries a key column `k` through every clause):

```
t(x, x), t(y, y) <-- t(x, y);          // reflexive on mentioned elements
t(x, z)          <-- t(x, y), t(y, z); // transitive
```

This file fixes those rules as syntax (`closureRules2`, `closureRules3`; the same rules `tools/vlib/eng.py: closure_rules`
appends to build the explicit-closure twin that the ties run) and the relation they are meant to generate
(`ReflTrans`, the reflexive-on-mentioned-elements transitive closure of a set of base pairs).
Core Lean only.
-/
namespace AscentVerif.C12
open AscentVerif

variable {E B G P A : Type}

/-- reflexive (on the elements mentioned by a base pair) transitive closure of `R` -/
inductive ReflTrans {α : Type} (R : α → α → Prop) : α → α → Prop where
  | base {x y : α} : R x y → ReflTrans R x y
  | reflL {x y : α} : R x y → ReflTrans R x x
  | reflR {x y : α} : R x y → ReflTrans R y y
  | trans {x y z : α} : ReflTrans R x y → ReflTrans R y z → ReflTrans R x z

/-- the explicit closure rules of a binary relation `t`. `varE v` is the head expression "the variable `v`". -/
def closureRules2 (varE : Var → E) (t : RelId) : List (Rule E B G P A) :=
  [ { heads := [⟨t, [varE 0, varE 0]⟩, ⟨t, [varE 1, varE 1]⟩]
      body := [.clause t [.var 0, .var 1] []] },
    { heads := [⟨t, [varE 0, varE 2]⟩]
      body := [.clause t [.var 0, .var 1] [], .clause t [.var 1, .var 2] []] } ]

/-- the explicit closure rules of a ternary relation `t(K, T, T)`: the key (variable 9) is carried along -/
def closureRules3 (varE : Var → E) (t : RelId) : List (Rule E B G P A) :=
  [ { heads := [⟨t, [varE 9, varE 0, varE 0]⟩, ⟨t, [varE 9, varE 1, varE 1]⟩]
      body := [.clause t [.var 9, .var 0, .var 1] []] },
    { heads := [⟨t, [varE 9, varE 0, varE 2]⟩]
      body := [.clause t [.var 9, .var 0, .var 1] [], .clause t [.var 9, .var 1, .var 2] []] } ]

/-- `varE` really denotes variables under the interpretation -/
def VarExpr (I : Interp E B G P A) (varE : Var → E) : Prop :=
  ∀ v ρ, I.expr (varE v) ρ = (ρ.get? v).getD .unit

/-- the tuples *inserted* into `t` by everything but the closure rules: input tuples of `t`, and one-step consequences
(over the least model of the whole twin program) of the other rules -/
def Inserted (I : Interp E B G P A) (others all : List (Rule E B G P A)) (agg : RelId → List Tuple) (inp : DB)
    (t : RelId) (args : Tuple) : Prop :=
  inp ⟨t, args⟩ ∨ Cons I others agg (Derivable I all agg inp) ⟨t, args⟩

end AscentVerif.C12
