#!/bin/sh
# Build the framework from files on disk only (offline). Build output stays under /verif.
set -e
cd "$(dirname "$0")"
export CARGO_NET_OFFLINE=true
(cd lean && lake build AscentVerif AscentVerif.Audit driver)
python3 - <<'PY'
import sys, os
sys.path.insert(0, os.path.join(os.getcwd(), "tools"))
from vlib import core
for crate in ("ds",):  # harness/engine is generated and built by the checks themselves
    ok, out, _, wall = core.build_harness(crate)
    print(f"harness {crate}: {'ok' if ok else 'FAILED'} in {wall:.0f}s")
    if not ok:
        print(out[-3000:]); sys.exit(1)
PY
