#!/bin/sh
# Build the framework from files on disk only (offline). Build output stays under /verif.
set -e
cd "$(dirname "$0")"
export CARGO_NET_OFFLINE=true
# tie D: regenerate the table-shaped model parts from the repository's source (the checks do this again on every run)
python3 tools/rs2lean.py --repo "${VERIF_REPO_DIR:-/repo}" --out lean/AscentVerif/Generated || echo "setup: rs2lean could not translate the current source (the checks will report it)"
(cd lean && lake build AscentVerif AscentVerif.Audit driver)
(cd lean && lake build AscentVerif.Props.TieD) || echo "setup: Props/TieD.lean does not build against the current source (the checks will report it)"
python3 - <<'PY'
import sys, os
sys.path.insert(0, os.path.join(os.getcwd(), "tools"))
from vlib import core
for crate in ("ds",):  # harness/engine is generated and built by the checks themselves
    ok, out, _, wall = core.build_harness(crate)
    print(f"harness {crate}: {'ok' if ok else 'FAILED'} in {wall:.0f}s")
    if not ok:
        print(out[-3000:]); sys.exit(1)
PY
