use crate::sexp::Sexp;
use ascent::aggregators::*;

fn ints(xs: &[Sexp]) -> Option<Vec<i64>> { xs.iter().map(|x| x.int()).collect() }

fn show_opt(x: Option<i64>) -> String {
   match x {
      None => "none".into(),
      Some(x) => format!("some {}", x),
   }
}

/// an iterator of units with a chosen (honest or not) size_hint
struct Units {
   left: usize,
   lo: usize,
   hi: Option<usize>,
}
impl Iterator for Units {
   type Item = ();
   fn next(&mut self) -> Option<()> {
      if self.left == 0 {
         None
      } else {
         self.left -= 1;
         Some(())
      }
   }
   fn size_hint(&self) -> (usize, Option<usize>) { (self.lo, self.hi) }
}

pub fn handle(t: &[Sexp]) -> Option<String> {
   let name = t.first()?.atom()?;
   match name {
      "min" => {
         let v = ints(&t[1..])?;
         Some(show_opt(one(min(v.iter().map(|x| (x,))).collect())?))
      },
      "max" => {
         let v = ints(&t[1..])?;
         Some(show_opt(one(max(v.iter().map(|x| (x,))).collect())?))
      },
      "sum" => {
         let v = ints(&t[1..])?;
         let r: Vec<i64> = sum(v.iter().map(|x| (x,))).collect();
         if r.len() != 1 {
            return Some(format!("arity {}", r.len()));
         }
         Some(format!("{}", r[0]))
      },
      "mean" => {
         // i32 inputs: `Into<f64>` is not implemented for i64
         let v: Vec<i32> = ints(&t[1..])?.into_iter().map(|x| x as i32).collect();
         let r: Vec<f64> = mean(v.iter().map(|x| (x,))).collect();
         match r.len() {
            0 => Some("none".into()),
            1 => Some(format!("float {:?}", r[0])),
            n => Some(format!("arity {}", n)),
         }
      },
      // `mean` over a column of a NARROW numeric type (every element fits the type, the sum of the column need not): `mean_t <u8|i8|u16|i16|u32|i32> v…`
      "mean_t" => {
         let ty = t.get(1)?.atom()?;
         let v = ints(&t[2..])?;
         macro_rules! go {
            ($T:ty) => {{
               let w: Vec<$T> = v.iter().map(|x| <$T>::try_from(*x)).collect::<Result<_, _>>().ok()?;
               let r: Vec<f64> = mean(w.iter().map(|x| (x,))).collect();
               r
            }};
         }
         let r = match ty {
            "u8" => go!(u8),
            "i8" => go!(i8),
            "u16" => go!(u16),
            "i16" => go!(i16),
            "u32" => go!(u32),
            "i32" => go!(i32),
            _ => return None,
         };
         match r.len() {
            0 => Some("none".into()),
            1 => Some(format!("float {:?}", r[0])),
            n => Some(format!("arity {}", n)),
         }
      },
      "not" => {
         let n = t.get(1)?.nat()?;
         Some(format!("{}", not(std::iter::repeat(()).take(n)).count()))
      },
      "count" => {
         let n = t.get(1)?.nat()?;
         let lo = t.get(2)?.nat()?;
         let hi = match t.get(3)?.atom()? {
            "none" => None,
            h => Some(h.parse().ok()?),
         };
         let r: Vec<usize> = count(Units { left: n, lo, hi }).collect();
         if r.len() != 1 {
            return Some(format!("arity {}", r.len()));
         }
         Some(format!("{}", r[0]))
      },
      "percentile" => {
         let pn = t.get(1)?.nat()?;
         let pd = t.get(2)?.nat()?;
         let v = ints(&t[3..])?;
         let p = pn as f64 / pd as f64;
         let r: Vec<i64> = percentile(p)(v.iter().map(|x| (x,))).collect();
         Some(show_opt(one(r)?))
      },
      // one aggregator closure applied to several groups in turn (the generated code builds the aggregator once per rule evaluation site
      // and calls it for every binding of the outer clauses); lists separated by the atom `/`
      "percentile_seq" => {
         let pn = t.get(1)?.nat()?;
         let pd = t.get(2)?.nat()?;
         let mut lists: Vec<Vec<i64>> = vec![vec![]];
         for x in &t[3..] {
            if x.atom() == Some("/") {
               lists.push(vec![]);
            } else {
               lists.last_mut().unwrap().push(x.int()?);
            }
         }
         let p = pn as f64 / pd as f64;
         let f = percentile(p);
         let mut outs = vec![];
         for v in &lists {
            let r: Vec<i64> = f(v.iter().map(|x| (x,))).collect();
            outs.push(show_opt(one(r)?));
         }
         Some(outs.join(" ; "))
      },
      _ => None,
   }
}

fn one(v: Vec<i64>) -> Option<Option<i64>> {
   match v.len() {
      0 => Some(None),
      1 => Some(Some(v[0])),
      _ => None,
   }
}
