//! Index ops of tie C (C19): a small object store driven through the traits generated code uses.
use crate::sexp::Sexp;
use ascent::internal::*;
use ascent::rayon::prelude::*;
use std::collections::HashMap;

type K = i64;
type V = i64;

pub enum Obj {
   Rel(RelIndexType1<K, V>),
   Full(RelFullIndexType<K, V>),
   Lat(LatticeIndexType<K, V>),
   No(RelNoIndexType),
   CRel(CRelIndex<K, V>),
   CFull(CRelFullIndex<K, V>),
   CLat(CLatIndex<K, V>),
   CNo(CRelNoIndex<V>),
}

#[derive(Default)]
pub struct Store {
   objs: HashMap<String, Obj>,
   pools: HashMap<usize, ascent::rayon::ThreadPool>,
}

fn show_vals(mut v: Vec<V>) -> String {
   v.sort();
   let mut s = String::from("some");
   for x in v {
      s.push_str(&format!(" {}", x));
   }
   s
}

fn show_entries(mut v: Vec<(K, V)>) -> String {
   v.sort();
   let mut s = String::from("all");
   for (k, x) in v {
      s.push_str(&format!(" {}:{}", k, x));
   }
   s
}

impl Store {
   fn pool(&mut self, n: usize) -> &ascent::rayon::ThreadPool {
      self.pools.entry(n).or_insert_with(|| ascent::rayon::ThreadPoolBuilder::new().num_threads(n).build().unwrap())
   }

   pub fn handle(&mut self, t: &[Sexp]) -> Option<String> {
      let op = t.first()?.atom()?;
      let id = |i: usize| -> Option<String> { Some(t.get(i)?.atom()?.to_string()) };
      let int = |i: usize| -> Option<i64> { t.get(i)?.int() };
      match op {
         "mk" => {
            let name = id(1)?;
            let obj = match t.get(2)?.atom()? {
               "rel" => Obj::Rel(Default::default()),
               "full" => Obj::Full(Default::default()),
               "lat" => Obj::Lat(Default::default()),
               "noidx" => Obj::No(Default::default()),
               "crel" => Obj::CRel(Default::default()),
               "cfull" => Obj::CFull(Default::default()),
               "clat" => Obj::CLat(Default::default()),
               "cnoidx" => {
                  let n = t.get(3)?.nat()?;
                  Obj::CNo(self.pool(n).install(CRelNoIndex::default))
               },
               _ => return None,
            };
            self.objs.insert(name, obj);
            Some("ok".into())
         },
         // `&mut self` insert (RelIndexWrite)
         "ins" => {
            let (k, v) = (int(2)?, int(3)?);
            match self.objs.get_mut(&id(1)?)? {
               Obj::Rel(m) => RelIndexWrite::index_insert(m, k, v),
               Obj::Full(m) => RelIndexWrite::index_insert(m, k, v),
               Obj::Lat(m) => RelIndexWrite::index_insert(m, k, v),
               Obj::No(m) => RelIndexWrite::index_insert(m, (), v as usize),
               Obj::CRel(m) => RelIndexWrite::index_insert(m, k, v),
               Obj::CFull(m) => RelIndexWrite::index_insert(m, k, v),
               Obj::CLat(m) => RelIndexWrite::index_insert(m, k, v),
               Obj::CNo(m) => RelIndexWrite::index_insert(m, (), v),
            }
            Some("ok".into())
         },
         // shared `&self` insert (CRelIndexWrite), optionally on thread `th` of a pool of size `n`
         "cins" => {
            let (k, v) = (int(2)?, int(3)?);
            let on = match (t.get(4), t.get(5)) {
               (Some(n), Some(th)) => Some((n.nat()?, th.nat()?)),
               _ => None,
            };
            let name = id(1)?;
            if let Some((n, th)) = on {
               self.pool(n);
            }
            let obj = self.objs.get(&name)?;
            let f = || match obj {
               Obj::CRel(m) => CRelIndexWrite::index_insert(m, k, v),
               Obj::CFull(m) => CRelIndexWrite::index_insert(m, k, v),
               Obj::CLat(m) => CRelIndexWrite::index_insert(m, k, v),
               Obj::CNo(m) => CRelIndexWrite::index_insert(m, (), v),
               _ => panic!("bad-op"),
            };
            match on {
               None => f(),
               Some((n, th)) => {
                  self.pools[&n].broadcast(|ctx| {
                     if ctx.index() == th {
                        f()
                     }
                  });
               },
            }
            Some("ok".into())
         },
         "insnp" => {
            let (k, v) = (int(2)?, int(3)?);
            let r = match self.objs.get_mut(&id(1)?)? {
               Obj::Full(m) => RelFullIndexWrite::insert_if_not_present(m, &k, v),
               Obj::CFull(m) => RelFullIndexWrite::insert_if_not_present(m, &k, v),
               _ => return None,
            };
            Some(format!("{}", r))
         },
         "cinsnp" => {
            let (k, v) = (int(2)?, int(3)?);
            let r = match self.objs.get(&id(1)?)? {
               Obj::CFull(m) => CRelFullIndexWrite::insert_if_not_present(m, &k, v),
               _ => return None,
            };
            Some(format!("{}", r))
         },
         "has" => {
            let k = int(2)?;
            let r = match self.objs.get(&id(1)?)? {
               Obj::Full(m) => RelFullIndexRead::contains_key(m, &k),
               Obj::CFull(m) => RelFullIndexRead::contains_key(m, &k),
               _ => return None,
            };
            Some(format!("{}", r))
         },
         "getcloned" => {
            let k = int(2)?;
            match self.objs.get(&id(1)?)? {
               Obj::CFull(m) => Some(match m.get_cloned(&k) {
                  None => "none".into(),
                  Some(v) => format!("some {}", v),
               }),
               _ => None,
            }
         },
         "freeze" | "unfreeze" => {
            let fr = op == "freeze";
            macro_rules! fz {
               ($m:expr) => {
                  if fr {
                     $m.freeze()
                  } else {
                     $m.unfreeze()
                  }
               };
            }
            match self.objs.get_mut(&id(1)?)? {
               Obj::CRel(m) => fz!(m),
               Obj::CFull(m) => fz!(m),
               Obj::CLat(m) => fz!(m),
               Obj::CNo(m) => fz!(m),
               _ => return None,
            }
            Some("ok".into())
         },
         "get" | "cget" => {
            let k = int(2).unwrap_or(0);
            let par = op == "cget";
            let r: Option<Vec<V>> = match self.objs.get(&id(1)?)? {
               Obj::Rel(m) if !par => m.index_get(&k).map(|it| it.cloned().collect()),
               Obj::Full(m) if !par => m.index_get(&k).map(|it| it.cloned().collect()),
               Obj::Lat(m) if !par => m.index_get(&k).map(|it| it.cloned().collect()),
               Obj::No(m) if !par => Some(m.iter().map(|x| *x as i64).collect()),
               Obj::CRel(m) if !par => m.index_get(&k).map(|it| it.cloned().collect()),
               Obj::CFull(m) if !par => RelIndexRead::index_get(m, &k).map(|it| it.cloned().collect()),
               Obj::CLat(m) if !par => m.index_get(&k).map(|it| it.cloned().collect()),
               Obj::CNo(m) if !par => m.index_get(&()).map(|it| it.cloned().collect()),
               Obj::CRel(m) => m.c_index_get(&k).map(|it| it.cloned().collect()),
               Obj::CFull(m) => m.c_index_get(&k).map(|it| it.cloned().collect()),
               Obj::CLat(m) => m.c_index_get(&k).map(|it| it.cloned().collect()),
               Obj::CNo(m) => m.c_index_get(&()).map(|it| it.cloned().collect()),
               _ => return None,
            };
            Some(match r {
               None => "none".into(),
               Some(v) => show_vals(v),
            })
         },
         "all" | "call" => {
            let par = op == "call";
            let r: Vec<(K, V)> = match self.objs.get(&id(1)?)? {
               Obj::Rel(m) if !par => m.iter_all().flat_map(|(k, vs)| vs.map(move |v| (*k, *v))).collect(),
               Obj::Full(m) if !par => m.iter_all().flat_map(|(k, vs)| vs.map(move |v| (*k, *v))).collect(),
               Obj::Lat(m) if !par => m.iter_all().flat_map(|(k, vs)| vs.map(move |v| (*k, *v))).collect(),
               Obj::No(m) if !par => m.iter().map(|x| (0, *x as i64)).collect(),
               Obj::CRel(m) if !par => m.iter_all().flat_map(|(k, vs)| vs.map(move |v| (*k, *v))).collect(),
               Obj::CFull(m) if !par => RelIndexReadAll::iter_all(m).flat_map(|(k, vs)| vs.map(move |v| (*k, v))).collect(),
               Obj::CLat(m) if !par => RelIndexReadAll::iter_all(m).flat_map(|(k, vs)| vs.map(move |v| (*k, v))).collect(),
               Obj::CNo(m) if !par => m.iter_all().flat_map(|(_, vs)| vs.map(move |v| (0, *v))).collect(),
               Obj::CRel(m) => m.c_iter_all().flat_map(|(k, vs)| vs.map(move |v| (*k, *v))).collect(),
               Obj::CFull(m) => m.c_iter_all().flat_map(|(k, vs)| vs.map(move |v| (*k, *v))).collect(),
               Obj::CLat(m) => m.c_iter_all().flat_map(|(k, vs)| vs.map(move |v| (*k, *v))).collect(),
               Obj::CNo(m) => m.c_iter_all().flat_map(|(_, vs)| vs.map(move |v| (0, *v))).collect(),
               _ => return None,
            };
            Some(show_entries(r))
         },
         // `c_iter_all` inside a rayon pool of the given size (the parallel whole-index iterators split their work by the CURRENT pool)
         "callin" => {
            let n = int(2)? as usize;
            self.pool(n);
            let pool = &self.pools[&n];
            let r: Vec<(K, V)> = match self.objs.get(&id(1)?)? {
               Obj::CRel(m) => pool.install(|| m.c_iter_all().flat_map(|(k, vs)| vs.map(move |v| (*k, *v))).collect()),
               Obj::CFull(m) => pool.install(|| m.c_iter_all().flat_map(|(k, vs)| vs.map(move |v| (*k, *v))).collect()),
               Obj::CLat(m) => pool.install(|| m.c_iter_all().flat_map(|(k, vs)| vs.map(move |v| (*k, *v))).collect()),
               _ => return None,
            };
            Some(show_entries(r))
         },
         // `RelIndexRead::is_empty` ("definitely empty": generated code skips a rule when it answers true)
         "empty" => {
            let r = std::panic::catch_unwind(std::panic::AssertUnwindSafe(|| match self.objs.get(&id(1)?)? {
               Obj::Rel(m) => Some(RelIndexRead::is_empty(m)),
               Obj::Full(m) => Some(RelIndexRead::is_empty(m)),
               Obj::Lat(m) => Some(RelIndexRead::is_empty(m)),
               Obj::CRel(m) => Some(RelIndexRead::is_empty(m)),
               Obj::CFull(m) => Some(RelIndexRead::is_empty(m)),
               Obj::CLat(m) => Some(RelIndexRead::is_empty(m)),
               _ => None,
            }));
            match r {
               Ok(Some(b)) => Some(b.to_string()),
               Ok(None) => None,
               Err(_) => Some("panic".into()),
            }
         },
         "combempty" => {
            let (a, b) = (self.objs.get(&id(1)?)?, self.objs.get(&id(2)?)?);
            let r = std::panic::catch_unwind(std::panic::AssertUnwindSafe(|| match (a, b) {
               (Obj::Rel(x), Obj::Rel(y)) => Some(RelIndexRead::is_empty(&RelIndexCombined::new(x, y))),
               (Obj::Full(x), Obj::Full(y)) => Some(RelIndexRead::is_empty(&RelIndexCombined::new(x, y))),
               (Obj::Lat(x), Obj::Lat(y)) => Some(RelIndexRead::is_empty(&RelIndexCombined::new(x, y))),
               (Obj::CRel(x), Obj::CRel(y)) => Some(RelIndexRead::is_empty(&RelIndexCombined::new(x, y))),
               (Obj::CFull(x), Obj::CFull(y)) => Some(RelIndexRead::is_empty(&RelIndexCombined::new(x, y))),
               _ => None,
            }));
            match r {
               Ok(Some(b)) => Some(b.to_string()),
               Ok(None) => None,
               Err(_) => Some("panic".into()),
            }
         },
         // combined (total + delta) view
         "comb" | "comball" => {
            let (a, b) = (self.objs.get(&id(1)?)?, self.objs.get(&id(2)?)?);
            let k = int(3).unwrap_or(0);
            macro_rules! comb {
               ($x:expr, $y:expr) => {{
                  let c = RelIndexCombined::new($x, $y);
                  if op == "comb" {
                     Some(match c.index_get(&k) {
                        None => "none".into(),
                        Some(it) => show_vals(it.cloned().collect()),
                     })
                  } else {
                     Some(show_entries(c.iter_all().flat_map(|(k, vs)| vs.map(move |v| (*k, *v))).collect()))
                  }
               }};
            }
            match (a, b) {
               (Obj::Rel(x), Obj::Rel(y)) => comb!(x, y),
               (Obj::Full(x), Obj::Full(y)) => comb!(x, y),
               (Obj::Lat(x), Obj::Lat(y)) => comb!(x, y),
               (Obj::CRel(x), Obj::CRel(y)) => comb!(x, y),
               (Obj::CFull(x), Obj::CFull(y)) => {
                  let c = RelIndexCombined::new(x, y);
                  if op == "comb" {
                     Some(match RelIndexRead::index_get(&c, &k) {
                        None => "none".into(),
                        Some(it) => show_vals(it.cloned().collect()),
                     })
                  } else {
                     Some(show_entries(RelIndexReadAll::iter_all(&c).flat_map(|(k, vs)| vs.map(move |v| (*k, v))).collect()))
                  }
               },
               _ => None,
            }
         },
         "move" | "merge" => {
            let names: Vec<String> = (1..t.len()).map(|i| id(i)).collect::<Option<_>>()?;
            let mut taken: Vec<Obj> = Vec::new();
            for n in &names {
               taken.push(self.objs.remove(n)?);
            }
            let res = std::panic::catch_unwind(std::panic::AssertUnwindSafe(|| {
               macro_rules! go {
                  ($variant:ident) => {{
                     let mut refs: Vec<&mut _> = taken
                        .iter_mut()
                        .map(|o| match o {
                           Obj::$variant(m) => m,
                           _ => panic!("bad-op"),
                        })
                        .collect();
                     if op == "move" {
                        let (a, b) = refs.split_at_mut(1);
                        RelIndexMerge::move_index_contents(a[0], b[0]);
                     } else {
                        let (a, rest) = refs.split_at_mut(1);
                        let (b, c) = rest.split_at_mut(1);
                        RelIndexMerge::merge_delta_to_total_new_to_delta(a[0], b[0], c[0]);
                     }
                  }};
               }
               match &taken[0] {
                  Obj::Rel(_) => go!(Rel),
                  Obj::Full(_) => go!(Full),
                  Obj::Lat(_) => go!(Lat),
                  Obj::No(_) => go!(No),
                  Obj::CRel(_) => go!(CRel),
                  Obj::CFull(_) => go!(CFull),
                  Obj::CLat(_) => go!(CLat),
                  Obj::CNo(_) => go!(CNo),
               }
            }));
            for (n, o) in names.into_iter().zip(taken) {
               self.objs.insert(n, o);
            }
            Some(if res.is_ok() { "ok".into() } else { "panic".into() })
         },
         // `par <threads> <id> cins|cinsnp k:v k:v …` — attempts dealt round-robin to OS threads released together
         "par" => {
            let n = t.get(1)?.nat()?;
            let obj = self.objs.get(&id(2)?)?;
            let kind = t.get(3)?.atom()?;
            let mut atts: Vec<(K, V)> = vec![];
            for a in &t[4..] {
               let (k, v) = a.atom()?.split_once(':')?;
               atts.push((k.parse().ok()?, v.parse().ok()?));
            }
            let barrier = std::sync::Barrier::new(n);
            let wins: Vec<Vec<(K, bool)>> = std::thread::scope(|s| {
               let hs: Vec<_> = (0..n)
                  .map(|ti| {
                     let mine: Vec<(K, V)> = atts.iter().cloned().skip(ti).step_by(n).collect();
                     let barrier = &barrier;
                     s.spawn(move || {
                        barrier.wait();
                        let mut out = vec![];
                        for (k, v) in mine {
                           match (obj, kind) {
                              (Obj::CFull(m), "cinsnp") => out.push((k, CRelFullIndexWrite::insert_if_not_present(m, &k, v))),
                              (Obj::CRel(m), "cins") => CRelIndexWrite::index_insert(m, k, v),
                              (Obj::CFull(m), "cins") => CRelIndexWrite::index_insert(m, k, v),
                              (Obj::CLat(m), "cins") => CRelIndexWrite::index_insert(m, k, v),
                              (Obj::CNo(m), "cins") => CRelIndexWrite::index_insert(m, (), v),
                              _ => panic!("bad-op"),
                           }
                        }
                        out
                     })
                  })
                  .collect();
               hs.into_iter().map(|h| h.join().unwrap()).collect()
            });
            if kind == "cinsnp" {
               let mut cnt: std::collections::BTreeMap<K, usize> = Default::default();
               for (k, _) in &atts {
                  cnt.entry(*k).or_insert(0);
               }
               for w in wins.iter().flatten() {
                  if w.1 {
                     *cnt.get_mut(&w.0).unwrap() += 1;
                  }
               }
               let mut s = String::from("winners");
               for (k, c) in cnt {
                  s.push_str(&format!(" {}:{}", k, c));
               }
               Some(s)
            } else {
               Some("ok".into())
            }
         },
         _ => None,
      }
   }
}
