//! Tie C: in-process operation harness. Reads one op per line (s-expressions), drives the
//! real ascent / ascent_base / ascent-byods-rels code, prints one canonical line per op.
mod sexp;
mod agg;
mod lat;
mod idx;
mod uf;
mod trind;
mod trrel_ind;
mod eqrel;
mod lat_types;

use std::io::{BufRead, Write};
use std::panic::{catch_unwind, AssertUnwindSafe};

fn main() {
   std::panic::set_hook(Box::new(|_| {}));
   let stdin = std::io::stdin();
   let stdout = std::io::stdout();
   let mut out = std::io::BufWriter::new(stdout.lock());
   let mut store = idx::Store::default();
   let mut ufstore = uf::Store::default();
   let mut tristore = trind::Store::default();
   let mut trpstore = trrel_ind::Store::default();
   let mut eqstore = eqrel::Store::default();
   for line in stdin.lock().lines() {
      let line = line.unwrap();
      let toks = match sexp::parse_line(&line) {
         Some(t) => t,
         None => {
            writeln!(out, "bad-line").unwrap();
            continue;
         },
      };
      if toks.is_empty() {
         writeln!(out).unwrap();
         continue;
      }
      let res = catch_unwind(AssertUnwindSafe(|| match toks[0].atom() {
         Some("agg") => agg::handle(&toks[1..]),
         Some("idx") => store.handle(&toks[1..]),
         Some("uf") => ufstore.handle_uf(&toks[1..]),
         Some("tr") => ufstore.handle_tr(&toks[1..]),
         Some("tri") => tristore.handle(&toks[1..]),
         Some("trp") => trpstore.handle(&toks[1..]),
         Some("eq") => eqstore.handle_eq(&toks[1..]),
         Some("ceq") => eqstore.handle_ceq(&toks[1..]),
         Some("eqt") => eqstore.handle_eqt(&toks[1..]),
         Some("lat") => (|| lat_types::dispatch(toks.get(1)?.atom()?, toks.get(2)?.atom()?, &toks[3..]))(),
         _ => None,
      }));
      match res {
         Ok(Some(s)) => writeln!(out, "{}", s).unwrap(),
         Ok(None) => writeln!(out, "bad-op").unwrap(),
         Err(_) => {
            trpstore.poison();
            writeln!(out, "panic").unwrap()
         },
      }
   }
   out.flush().unwrap();
}
