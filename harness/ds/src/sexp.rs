#[derive(Clone, Debug, PartialEq, Eq)]
pub enum Sexp {
   Atom(String),
   List(Vec<Sexp>),
}

impl Sexp {
   pub fn atom(&self) -> Option<&str> {
      match self {
         Sexp::Atom(s) => Some(s),
         _ => None,
      }
   }
   pub fn list(&self) -> Option<&[Sexp]> {
      match self {
         Sexp::List(v) => Some(v),
         _ => None,
      }
   }
   pub fn int(&self) -> Option<i64> { self.atom()?.parse().ok() }
   pub fn nat(&self) -> Option<usize> { self.atom()?.parse().ok() }
}

impl std::fmt::Display for Sexp {
   fn fmt(&self, f: &mut std::fmt::Formatter<'_>) -> std::fmt::Result {
      match self {
         Sexp::Atom(s) => write!(f, "{}", s),
         Sexp::List(v) => {
            write!(f, "(")?;
            for (i, x) in v.iter().enumerate() {
               if i > 0 {
                  write!(f, " ")?;
               }
               write!(f, "{}", x)?;
            }
            write!(f, ")")
         },
      }
   }
}

pub fn parse_line(s: &str) -> Option<Vec<Sexp>> {
   let mut stack: Vec<Vec<Sexp>> = vec![vec![]];
   let mut cur = String::new();
   fn flush(cur: &mut String, stack: &mut Vec<Vec<Sexp>>) {
      if !cur.is_empty() {
         stack.last_mut().unwrap().push(Sexp::Atom(std::mem::take(cur)));
      }
   }
   for c in s.chars() {
      match c {
         '(' => {
            flush(&mut cur, &mut stack);
            stack.push(vec![]);
         },
         ')' => {
            flush(&mut cur, &mut stack);
            let top = stack.pop()?;
            stack.last_mut()?.push(Sexp::List(top));
         },
         ' ' | '\t' | '\n' | '\r' => flush(&mut cur, &mut stack),
         c => cur.push(c),
      }
   }
   flush(&mut cur, &mut stack);
   if stack.len() == 1 { stack.pop() } else { None }
}
