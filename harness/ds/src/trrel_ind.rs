//! `trp …` ops of tie C (C11): the `rel_ind_common` triple (new, delta, total) of a `#[ds(trrel)]` relation, driven through
//! exactly the traits and type macros generated code uses (`trrel::rel_ind_common!`, `rel_full_ind!`, `rel_ind!`;
//! `RelIndexMerge`, `RelFullIndexWrite`, `RelFullIndexRead`, `RelIndexRead`, `RelIndexReadAll`, `ToRelIndex`,
//! `RelIndexCombined` for total+delta). Same line protocol as lean/AscentVerif/Driver/TrRelInd.lean.
use crate::sexp::Sexp;
use ascent::internal::{
   RelFullIndexRead, RelFullIndexWrite, RelIndexCombined, RelIndexMerge, RelIndexRead, RelIndexReadAll, ToRelIndex,
};
use std::collections::HashMap;

type BCommon = ascent_byods_rels::trrel::rel_ind_common!(t, (i64, i64), [[], [0], [1], [0, 1]], ser, ());
type BFull = ascent_byods_rels::trrel::rel_full_ind!(t, (i64, i64), [[], [0], [1], [0, 1]], ser, (), (i64, i64), ());
type BNone = ascent_byods_rels::trrel::rel_ind!(t, (i64, i64), [[], [0], [1], [0, 1]], ser, (), [], (), (i64, i64));
type B0 = ascent_byods_rels::trrel::rel_ind!(t, (i64, i64), [[], [0], [1], [0, 1]], ser, (), [0], (i64,), (i64,));
type B1 = ascent_byods_rels::trrel::rel_ind!(t, (i64, i64), [[], [0], [1], [0, 1]], ser, (), [1], (i64,), (i64,));

type T11Common = ascent_byods_rels::trrel::rel_ind_common!(
   t,
   (i64, i64, i64),
   [[], [0], [1], [2], [0, 1], [0, 2], [1, 2], [0, 1, 2]],
   ser,
   ()
);
type T00Common = ascent_byods_rels::trrel::rel_ind_common!(t, (i64, i64, i64), [[], [0], [0, 1], [0, 2], [0, 1, 2]], ser, ());
type TFull = ascent_byods_rels::trrel::rel_full_ind!(t, (i64, i64, i64), [[]], ser, (), (i64, i64, i64), ());
type TNone = ascent_byods_rels::trrel::rel_ind!(t, (i64, i64, i64), [[]], ser, (), [], (), (i64, i64, i64));
type T0 = ascent_byods_rels::trrel::rel_ind!(t, (i64, i64, i64), [[]], ser, (), [0], (i64,), (i64, i64));
type T1 = ascent_byods_rels::trrel::rel_ind!(t, (i64, i64, i64), [[]], ser, (), [1], (i64,), (i64, i64));
type T2 = ascent_byods_rels::trrel::rel_ind!(t, (i64, i64, i64), [[]], ser, (), [2], (i64,), (i64, i64));
type T01 = ascent_byods_rels::trrel::rel_ind!(t, (i64, i64, i64), [[]], ser, (), [0, 1], (i64, i64), (i64,));
type T02 = ascent_byods_rels::trrel::rel_ind!(t, (i64, i64, i64), [[]], ser, (), [0, 2], (i64, i64), (i64,));
type T12 = ascent_byods_rels::trrel::rel_ind!(t, (i64, i64, i64), [[]], ser, (), [1, 2], (i64, i64), (i64,));

pub struct Tri<C> {
   new: C,
   delta: C,
   total: C,
}

impl<C: Default + RelIndexMerge> Tri<C> {
   /// what generated code does on entering the stratum: delta = the stored value, total and new fresh, then `init`
   fn enter(stored: C) -> Self {
      let mut t = Tri { new: C::default(), delta: stored, total: C::default() };
      RelIndexMerge::init(&mut t.new, &mut t.delta, &mut t.total);
      t
   }
}

pub enum Obj {
   B(Tri<BCommon>),
   T11(Tri<T11Common>),
   T00(Tri<T00Common>),
}

#[derive(Default)]
pub struct Store {
   objs: HashMap<String, Obj>,
   /// the object an op is working on; still set if the op panicked (the value may be half-updated: it is dropped)
   busy: Option<String>,
}

// ---------------------------------------------------------------- rendering (identical to the Lean driver)

trait Flat {
   fn flat(&self) -> Vec<i64>;
}
impl Flat for () {
   fn flat(&self) -> Vec<i64> { vec![] }
}
impl Flat for (&i64,) {
   fn flat(&self) -> Vec<i64> { vec![*self.0] }
}
impl Flat for (&i64, &i64) {
   fn flat(&self) -> Vec<i64> { vec![*self.0, *self.1] }
}
impl Flat for (&i64, &i64, &i64) {
   fn flat(&self) -> Vec<i64> { vec![*self.0, *self.1, *self.2] }
}
trait FromFlat: Sized {
   fn from_flat(v: &[i64]) -> Option<Self>;
}
impl FromFlat for () {
   fn from_flat(v: &[i64]) -> Option<Self> { if v.is_empty() { Some(()) } else { None } }
}
impl FromFlat for (i64,) {
   fn from_flat(v: &[i64]) -> Option<Self> { if v.len() == 1 { Some((v[0],)) } else { None } }
}
impl FromFlat for (i64, i64) {
   fn from_flat(v: &[i64]) -> Option<Self> { if v.len() == 2 { Some((v[0], v[1])) } else { None } }
}
impl FromFlat for (i64, i64, i64) {
   fn from_flat(v: &[i64]) -> Option<Self> { if v.len() == 3 { Some((v[0], v[1], v[2])) } else { None } }
}

fn fmt_tuple(t: &[i64]) -> String {
   if t.is_empty() {
      "()".into()
   } else {
      t.iter().map(|x| x.to_string()).collect::<Vec<_>>().join(":")
   }
}
fn fmt_vals(mut vs: Vec<Vec<i64>>) -> String {
   vs.sort();
   vs.iter().map(|t| fmt_tuple(t)).collect::<Vec<_>>().join(";")
}
fn fmt_get(r: Option<Vec<Vec<i64>>>) -> String {
   match r {
      None => "none".into(),
      Some(vs) => format!("some[{}]", fmt_vals(vs)),
   }
}
fn fmt_all(mut es: Vec<(Vec<i64>, Vec<Vec<i64>>)>) -> String {
   for e in es.iter_mut() {
      e.1.sort();
   }
   es.sort();
   format!("all[{}]", es.into_iter().map(|(k, vs)| format!("{}>{}", fmt_tuple(&k), fmt_vals(vs))).collect::<Vec<_>>().join("|"))
}

type Got = Option<Vec<Vec<i64>>>;
type All = Vec<(Vec<i64>, Vec<Vec<i64>>)>;

fn get_view<'a, V>(v: &'a V, key: &[i64]) -> Option<Got>
where
   V: RelIndexRead<'a>,
   V::Key: FromFlat,
   V::Value: Flat,
{
   let k = <V::Key as FromFlat>::from_flat(key)?;
   Some(v.index_get(&k).map(|it| it.map(|x| x.flat()).collect()))
}
fn all_view<'a, V>(v: &'a V) -> All
where
   V: RelIndexReadAll<'a>,
   V::Key: Flat,
   V::Value: Flat,
{
   v.iter_all().map(|(k, vals)| (k.flat(), vals.map(|x| x.flat()).collect())).collect()
}

/// evaluate `$body` with `$v` bound to the view `$ToInd` of the version `$ver` of `$o`
macro_rules! with_view {
   ($ToInd:ty, $o:expr, $ver:expr, |$v:ident| $body:expr) => {{
      let ind: $ToInd = Default::default();
      match $ver {
         "delta" => {
            let $v = ind.to_rel_index(&$o.delta);
            Some($body)
         },
         "total" => {
            let $v = ind.to_rel_index(&$o.total);
            Some($body)
         },
         "td" => {
            let tv = ind.to_rel_index(&$o.total);
            let dv = ind.to_rel_index(&$o.delta);
            let $v = RelIndexCombined::new(&tv, &dv);
            Some($body)
         },
         _ => None,
      }
   }};
}

/// the three queries of one view
macro_rules! view_ops {
   ($ToInd:ty, $o:expr, $ver:expr, $what:expr, $key:expr) => {
      match $what {
         "get" => with_view!($ToInd, $o, $ver, |v| get_view(&v, $key).map(fmt_get))?,
         "all" => with_view!($ToInd, $o, $ver, |v| fmt_all(all_view(&v))),
         "empty" => with_view!($ToInd, $o, $ver, |v| RelIndexRead::is_empty(&v).to_string()),
         "lenest" => with_view!($ToInd, $o, $ver, |v| RelIndexRead::len_estimate(&v).to_string()),
         _ => None,
      }
   };
}

const BIN_VIEWS: [&str; 4] = ["n", "0", "1", "01"];
const T11_VIEWS: [&str; 8] = ["n", "0", "1", "2", "01", "02", "12", "012"];
const T00_VIEWS: [&str; 5] = ["n", "0", "01", "02", "012"];

fn bin_query(o: &Tri<BCommon>, ver: &str, view: &str, what: &str, key: &[i64]) -> Option<String> {
   match view {
      "n" => view_ops!(BNone, o, ver, what, key),
      "0" => view_ops!(B0, o, ver, what, key),
      "1" => view_ops!(B1, o, ver, what, key),
      "01" => view_ops!(BFull, o, ver, what, key),
      _ => None,
   }
}

macro_rules! tern_impl {
   ($query:ident, $has:ident, $ins:ident, $merge:ident, $C:ty, $views:expr) => {
      fn $query(o: &Tri<$C>, ver: &str, view: &str, what: &str, key: &[i64]) -> Option<String> {
         if !$views.contains(&view) {
            return None;
         }
         match view {
            "n" => view_ops!(TNone, o, ver, what, key),
            "0" => view_ops!(T0, o, ver, what, key),
            "1" => view_ops!(T1, o, ver, what, key),
            "2" => view_ops!(T2, o, ver, what, key),
            "01" => view_ops!(T01, o, ver, what, key),
            "02" => view_ops!(T02, o, ver, what, key),
            "12" => view_ops!(T12, o, ver, what, key),
            "012" => view_ops!(TFull, o, ver, what, key),
            _ => None,
         }
      }
      fn $has(o: &Tri<$C>, ver: &str, v: &[i64]) -> Option<bool> {
         let key = <(i64, i64, i64)>::from_flat(v)?;
         let ind = TFull::default();
         let c = match ver {
            "new" => &o.new,
            "delta" => &o.delta,
            "total" => &o.total,
            _ => return None,
         };
         Some(RelFullIndexRead::contains_key(&ind.to_rel_index(c), &key))
      }
      fn $ins(o: &mut Tri<$C>, v: &[i64]) -> Option<bool> {
         let key = <(i64, i64, i64)>::from_flat(v)?;
         let mut ind = TFull::default();
         Some(RelFullIndexWrite::insert_if_not_present(&mut ind.to_rel_index_write(&mut o.new), &key, ()))
      }
      fn $merge(o: &mut Tri<$C>) {
         RelIndexMerge::merge_delta_to_total_new_to_delta(&mut o.new, &mut o.delta, &mut o.total);
         // generated code also "merges" the write views of every index of the relation (no-ops for this provider)
         let (mut i1, mut i2, mut i3) = (TFull::default(), TFull::default(), TFull::default());
         RelIndexMerge::merge_delta_to_total_new_to_delta(
            &mut i1.to_rel_index_write(&mut o.new),
            &mut i2.to_rel_index_write(&mut o.delta),
            &mut i3.to_rel_index_write(&mut o.total),
         );
      }
   };
}
tern_impl!(t11_query, t11_has, t11_ins, t11_merge, T11Common, T11_VIEWS);
tern_impl!(t00_query, t00_has, t00_ins, t00_merge, T00Common, T00_VIEWS);

fn bin_has(o: &Tri<BCommon>, ver: &str, v: &[i64]) -> Option<bool> {
   let key = <(i64, i64)>::from_flat(v)?;
   let ind = BFull::default();
   let c = match ver {
      "new" => &o.new,
      "delta" => &o.delta,
      "total" => &o.total,
      _ => return None,
   };
   Some(RelFullIndexRead::contains_key(&ind.to_rel_index(c), &key))
}
fn bin_ins(o: &mut Tri<BCommon>, v: &[i64]) -> Option<bool> {
   let key = <(i64, i64)>::from_flat(v)?;
   let mut ind = BFull::default();
   Some(RelFullIndexWrite::insert_if_not_present(&mut ind.to_rel_index_write(&mut o.new), &key, ()))
}
fn bin_merge(o: &mut Tri<BCommon>) {
   RelIndexMerge::merge_delta_to_total_new_to_delta(&mut o.new, &mut o.delta, &mut o.total);
   let (mut i1, mut i2, mut i3) = (BFull::default(), BFull::default(), BFull::default());
   RelIndexMerge::merge_delta_to_total_new_to_delta(
      &mut i1.to_rel_index_write(&mut o.new),
      &mut i2.to_rel_index_write(&mut o.delta),
      &mut i3.to_rel_index_write(&mut o.total),
   );
}

impl Obj {
   fn arity(&self) -> usize {
      match self {
         Obj::B(_) => 2,
         _ => 3,
      }
   }
   fn views(&self) -> &'static [&'static str] {
      match self {
         Obj::B(_) => &BIN_VIEWS,
         Obj::T11(_) => &T11_VIEWS,
         Obj::T00(_) => &T00_VIEWS,
      }
   }
   fn has(&self, ver: &str, v: &[i64]) -> Option<bool> {
      match self {
         Obj::B(o) => bin_has(o, ver, v),
         Obj::T11(o) => t11_has(o, ver, v),
         Obj::T00(o) => t00_has(o, ver, v),
      }
   }
   fn ins(&mut self, v: &[i64]) -> Option<bool> {
      match self {
         Obj::B(o) => bin_ins(o, v),
         Obj::T11(o) => t11_ins(o, v),
         Obj::T00(o) => t00_ins(o, v),
      }
   }
   fn merge(&mut self) {
      match self {
         Obj::B(o) => bin_merge(o),
         Obj::T11(o) => t11_merge(o),
         Obj::T00(o) => t00_merge(o),
      }
   }
   fn restart(self) -> Obj {
      match self {
         Obj::B(o) => Obj::B(Tri::enter(o.total)),
         Obj::T11(o) => Obj::T11(Tri::enter(o.total)),
         Obj::T00(o) => Obj::T00(Tri::enter(o.total)),
      }
   }
   fn query(&self, ver: &str, view: &str, what: &str, key: &[i64]) -> Option<String> {
      if !self.views().contains(&view) {
         return None;
      }
      match self {
         Obj::B(o) => bin_query(o, ver, view, what, key),
         Obj::T11(o) => t11_query(o, ver, view, what, key),
         Obj::T00(o) => t00_query(o, ver, view, what, key),
      }
   }
   fn snap(&self, dom: &[i64]) -> String {
      let mut out = String::from("snap");
      for ver in ["new", "delta", "total"] {
         let bits: String =
            tuples_over(dom, self.arity()).iter().map(|t| if self.has(ver, t) == Some(true) { '1' } else { '0' }).collect();
         out.push_str(&format!(" {}.has={}", ver, bits));
      }
      for ver in ["delta", "total", "td"] {
         for v in self.views() {
            if let Some(a) = self.query(ver, v, "all", &[]) {
               out.push_str(&format!(" {}.{}.all={}", ver, v, a));
            }
            let ar = if *v == "n" { 0 } else { v.len() };
            let gets: Vec<String> =
               tuples_over(dom, ar).iter().map(|k| self.query(ver, v, "get", k).unwrap_or_else(|| "bad".into())).collect();
            out.push_str(&format!(" {}.{}.get={}", ver, v, gets.join(",")));
         }
      }
      out
   }
}

fn tuples_over(dom: &[i64], n: usize) -> Vec<Vec<i64>> {
   if n == 0 {
      return vec![vec![]];
   }
   let rest = tuples_over(dom, n - 1);
   dom.iter().flat_map(|d| rest.iter().map(move |t| std::iter::once(*d).chain(t.iter().cloned()).collect())).collect()
}

/// The provider prints to stdout (`println!` in `TrRelIndNone::index_get`): fd 1 points to /dev/null while a query runs.
struct Quiet(i32);
extern "C" {
   fn dup(fd: i32) -> i32;
   fn dup2(a: i32, b: i32) -> i32;
   fn close(fd: i32) -> i32;
}
impl Quiet {
   fn new() -> Quiet {
      use std::io::Write;
      use std::os::unix::io::AsRawFd;
      std::io::stdout().flush().ok();
      let null = std::fs::OpenOptions::new().write(true).open("/dev/null").unwrap();
      unsafe {
         let saved = dup(1);
         dup2(null.as_raw_fd(), 1);
         Quiet(saved)
      }
   }
}
impl Drop for Quiet {
   fn drop(&mut self) {
      use std::io::Write;
      std::io::stdout().flush().ok();
      unsafe {
         dup2(self.0, 1);
         close(self.0);
      }
   }
}

fn ints(xs: &[Sexp]) -> Option<Vec<i64>> { xs.iter().map(|x| x.int()).collect() }

impl Store {
   /// called by main after an op panicked: the object it worked on is dropped
   pub fn poison(&mut self) {
      if let Some(n) = self.busy.take() {
         self.objs.remove(&n);
      }
   }

   pub fn handle(&mut self, t: &[Sexp]) -> Option<String> {
      self.busy = None;
      let op = t.first()?.atom()?;
      let name = t.get(1)?.atom()?.to_string();
      if op == "mk" {
         self.busy = Some(name.clone());
         let o = match t.get(2)?.atom()? {
            "b" => Obj::B(Tri::enter(Default::default())),
            "t11" => Obj::T11(Tri::enter(Default::default())),
            "t00" => Obj::T00(Tri::enter(Default::default())),
            _ => return None,
         };
         self.objs.insert(name, o);
         self.busy = None;
         return Some("ok".into());
      }
      if !self.objs.contains_key(&name) {
         return None;
      }
      // argument errors are detected before the op is marked busy
      let res = match op {
         "ins" | "add" => {
            let v = ints(&t[2..])?;
            let o = self.objs.get_mut(&name)?;
            if v.len() != o.arity() {
               return None;
            }
            self.busy = Some(name.clone());
            if op == "add" && (o.has("total", &v)? || o.has("delta", &v)?) {
               "dup".to_string()
            } else {
               o.ins(&v)?.to_string()
            }
         },
         "merge" => {
            if t.len() != 2 {
               return None;
            }
            self.busy = Some(name.clone());
            self.objs.get_mut(&name)?.merge();
            "ok".into()
         },
         "restart" => {
            if t.len() != 2 {
               return None;
            }
            self.busy = Some(name.clone());
            let o = self.objs.remove(&name)?;
            self.objs.insert(name.clone(), o.restart());
            "ok".into()
         },
         "has" => {
            let ver = t.get(2)?.atom()?;
            let v = ints(&t[3..])?;
            let o = self.objs.get(&name)?;
            if v.len() != o.arity() {
               return None;
            }
            o.has(ver, &v)?.to_string()
         },
         "get" | "all" | "empty" => {
            let ver = t.get(2)?.atom()?;
            let view = t.get(3)?.atom()?;
            let key = ints(&t[4..])?;
            if op != "get" && !key.is_empty() {
               return None;
            }
            let o = self.objs.get(&name)?;
            if !["delta", "total", "td"].contains(&ver) || !o.views().contains(&view) {
               return None;
            }
            if op == "get" && key.len() != (if view == "n" { 0 } else { view.len() }) {
               return None;
            }
            self.busy = Some(name.clone());
            let _q = Quiet::new();
            o.query(ver, view, op, &key)?
         },
         "lenest12" => {
            let ver = t.get(2)?.atom()?;
            if t.len() != 3 || !["delta", "total"].contains(&ver) {
               return None;
            }
            let o = self.objs.get(&name)?;
            if !matches!(o, Obj::T11(_)) {
               return None;
            }
            self.busy = Some(name.clone());
            o.query(ver, "12", "lenest", &[])?
         },
         "snap" => {
            let dom = ints(&t[2..])?;
            let o = self.objs.get(&name)?;
            self.busy = Some(name.clone());
            let _q = Quiet::new();
            o.snap(&dom)
         },
         _ => return None,
      };
      self.busy = None;
      Some(res)
   }
}
