//! Lattice ops of tie C: `lat <type> pair a b` / `lat <type> bounds`.
use crate::sexp::Sexp;
use ascent::lattice::bounded_set::BoundedSet;
use ascent::lattice::constant_propagation::ConstPropagation;
use ascent::lattice::ord_lattice::OrdLattice;
use ascent::lattice::set::Set;
use ascent::lattice::{BoundedLattice, Dual, Product};
use ascent::Lattice;
use std::cmp::{Ordering, Reverse};
use std::rc::Rc;
use std::sync::Arc;

pub trait Codec: Sized {
   fn parse(s: &Sexp) -> Option<Self>;
   fn show(&self) -> String;
}

macro_rules! int_codec {
   ($($t:ty),*) => {$(
      impl Codec for $t {
         fn parse(s: &Sexp) -> Option<Self> { s.atom()?.parse().ok() }
         fn show(&self) -> String { format!("{}", self) }
      }
   )*};
}
int_codec!(u8, i8, i64, bool);

impl Codec for () {
   fn parse(s: &Sexp) -> Option<Self> { if s.atom()? == "unit" { Some(()) } else { None } }
   fn show(&self) -> String { "unit".into() }
}

fn tagged<'a>(s: &'a Sexp, tag: &str) -> Option<&'a [Sexp]> {
   let l = s.list()?;
   if l.first()?.atom()? == tag { Some(&l[1..]) } else { None }
}

impl<T: Codec> Codec for Option<T> {
   fn parse(s: &Sexp) -> Option<Self> {
      if s.atom() == Some("none") {
         return Some(None);
      }
      let a = tagged(s, "some")?;
      if a.len() != 1 {
         return None;
      }
      Some(Some(T::parse(&a[0])?))
   }
   fn show(&self) -> String {
      match self {
         None => "none".into(),
         Some(x) => format!("(some {})", x.show()),
      }
   }
}

macro_rules! wrapper_codec {
   ($ty:ident, $tag:expr, $mk:expr) => {
      impl<T: Codec> Codec for $ty<T> {
         fn parse(s: &Sexp) -> Option<Self> {
            let a = tagged(s, $tag)?;
            if a.len() != 1 {
               return None;
            }
            Some($mk(T::parse(&a[0])?))
         }
         fn show(&self) -> String { format!("({} {})", $tag, self.0.show()) }
      }
   };
}
wrapper_codec!(Dual, "dual", Dual);
wrapper_codec!(Reverse, "rev", Reverse);
wrapper_codec!(OrdLattice, "ord", OrdLattice);
impl<T: Codec> Codec for Box<T> {
   fn parse(s: &Sexp) -> Option<Self> {
      let a = tagged(s, "box")?;
      Some(Box::new(T::parse(a.first()?)?))
   }
   fn show(&self) -> String { format!("(box {})", (**self).show()) }
}
impl<T: Codec> Codec for Rc<T> {
   fn parse(s: &Sexp) -> Option<Self> {
      let a = tagged(s, "rc")?;
      Some(Rc::new(T::parse(a.first()?)?))
   }
   fn show(&self) -> String { format!("(rc {})", (**self).show()) }
}
impl<T: Codec> Codec for Arc<T> {
   fn parse(s: &Sexp) -> Option<Self> {
      let a = tagged(s, "arc")?;
      Some(Arc::new(T::parse(a.first()?)?))
   }
   fn show(&self) -> String { format!("(arc {})", (**self).show()) }
}

macro_rules! tuple_codec {
   ($n:expr; $($T:ident $i:tt),*) => {
      impl<$($T: Codec),*> Codec for ($($T,)*) {
         fn parse(s: &Sexp) -> Option<Self> {
            let a = tagged(s, "tup").or_else(|| tagged(s, "ltup"))?;
            if a.len() != $n { return None; }
            Some(($($T::parse(&a[$i])?,)*))
         }
         fn show(&self) -> String {
            let mut r = String::from("(tup");
            $( r.push(' '); r.push_str(&self.$i.show()); )*
            r.push(')');
            r
         }
      }
      impl<$($T: Codec),*> Codec for Product<($($T,)*)> {
         fn parse(s: &Sexp) -> Option<Self> {
            let a = tagged(s, "prod")?;
            if a.len() != $n { return None; }
            Some(Product(($($T::parse(&a[$i])?,)*)))
         }
         fn show(&self) -> String {
            let mut r = String::from("(prod");
            $( r.push(' '); r.push_str(&(self.0).$i.show()); )*
            r.push(')');
            r
         }
      }
   };
}
tuple_codec!(1; A 0);
tuple_codec!(2; A 0, B 1);
tuple_codec!(3; A 0, B 1, C 2);
tuple_codec!(11; A 0, B 1, C 2, D 3, E 4, F 5, G 6, H 7, I 8, J 9, K 10);

impl<T: Codec, const N: usize> Codec for Product<[T; N]> {
   fn parse(s: &Sexp) -> Option<Self> {
      let a = tagged(s, "arr")?;
      if a.len() != N {
         return None;
      }
      let v: Option<Vec<T>> = a.iter().map(T::parse).collect();
      Some(Product(v?.try_into().ok()?))
   }
   fn show(&self) -> String {
      let mut r = String::from("(arr");
      for x in self.0.iter() {
         r.push(' ');
         r.push_str(&x.show());
      }
      r.push(')');
      r
   }
}

impl Codec for Set<u8> {
   fn parse(s: &Sexp) -> Option<Self> {
      let a = tagged(s, "set")?;
      let mut r = Set::default();
      for x in a {
         r.0.insert(u8::parse(x)?);
      }
      Some(r)
   }
   fn show(&self) -> String {
      let mut r = String::from("(set");
      for x in self.0.iter() {
         r.push_str(&format!(" {}", x));
      }
      r.push(')');
      r
   }
}

impl<const B: usize> Codec for BoundedSet<B, u8> {
   fn parse(s: &Sexp) -> Option<Self> {
      if s.atom() == Some("top") {
         return Some(BoundedSet::TOP);
      }
      let a = tagged(s, "bset")?;
      let mut set = Set::default();
      for x in a {
         set.0.insert(u8::parse(x)?);
      }
      if set.len() > B {
         return None;
      }
      Some(BoundedSet::from_set(set))
   }
   fn show(&self) -> String {
      if self.is_top() {
         return "top".into();
      }
      // the inner set is private: probe membership over the element domain
      let mut r = String::from("(bset");
      let mut n = 0;
      for x in 0..=255u8 {
         if self.contains(&x) {
            r.push_str(&format!(" {}", x));
            n += 1;
         }
      }
      r.push(')');
      if Some(n) != self.count() {
         r.push_str(&format!("!count={:?}", self.count()));
      }
      r
   }
}

impl<T: Codec> Codec for ConstPropagation<T> {
   fn parse(s: &Sexp) -> Option<Self> {
      match s.atom() {
         Some("bot") => return Some(ConstPropagation::Bottom),
         Some("top") => return Some(ConstPropagation::Top),
         _ => {},
      }
      let a = tagged(s, "const")?;
      Some(ConstPropagation::Constant(T::parse(a.first()?)?))
   }
   fn show(&self) -> String {
      match self {
         ConstPropagation::Bottom => "bot".into(),
         ConstPropagation::Top => "top".into(),
         ConstPropagation::Constant(x) => format!("(const {})", x.show()),
      }
   }
}

fn show_ord(o: Option<Ordering>) -> &'static str {
   match o {
      None => "none",
      Some(Ordering::Less) => "lt",
      Some(Ordering::Equal) => "eq",
      Some(Ordering::Greater) => "gt",
   }
}

/// every binary operation of the type on one pair, by value and in place, plus the derived comparison operators
pub fn pair<T: Codec + Lattice + Clone>(args: &[Sexp]) -> Option<String> {
   let a = T::parse(args.first()?)?;
   let b = T::parse(args.get(1)?)?;
   let cmp = a.partial_cmp(&b);
   let j = a.clone().join(b.clone());
   let m = a.clone().meet(b.clone());
   let mut jm = a.clone();
   let jf = jm.join_mut(b.clone());
   let mut mm = a.clone();
   let mf = mm.meet_mut(b.clone());
   #[allow(clippy::neg_cmp_op_on_partial_ord)]
   let ops = format!("{}{}{}{}", (a < b) as u8, (a <= b) as u8, (a > b) as u8, (a >= b) as u8);
   Some(format!(
      "cmp={} ops={} join={} meet={} joinmut={} {} meetmut={} {}",
      show_ord(cmp),
      ops,
      j.show(),
      m.show(),
      jm.show(),
      jf,
      mm.show(),
      mf
   ))
}

pub fn bounds<T: Codec + BoundedLattice>() -> Option<String> {
   Some(format!("bottom={} top={}", T::bottom().show(), T::top().show()))
}
