//! Tie C for C12: the `trrel_uf` provider driven through the trait methods generated code uses
//! (`RelIndexMerge`, `RelFullIndexWrite`, `RelFullIndexRead`, `RelIndexRead`, `RelIndexReadAll`, `ToRelIndex`) on the REAL
//! `rel_ind_common` types: `TrRelIndCommon<i64>` (binary) and `BinRelToTernaryWrapper<R1, R2, i64, i64, i64, TrRelIndCommon<i64>>`
//! (ternary). Same `tri …` line protocol as lean/AscentVerif/Driver/TrInd.lean. An object is the triple new / delta / total.
use crate::sexp::Sexp;
use ascent::internal::{RelFullIndexRead, RelFullIndexWrite, RelIndexMerge, RelIndexRead, RelIndexReadAll, ToRelIndex};
use ascent_byods_rels::adaptor::bin_rel::{ToByodsBinRelInd0, ToByodsBinRelInd0_1, ToByodsBinRelInd1, ToByodsBinRelIndNone};
use ascent_byods_rels::adaptor::bin_rel_to_ternary::{
   BinRelToTernaryWrapper, ToBinRelToTernaryInd0, ToBinRelToTernaryInd0_1, ToBinRelToTernaryInd0_1_2, ToBinRelToTernaryInd0_2,
   ToBinRelToTernaryInd1, ToBinRelToTernaryInd1_2, ToBinRelToTernaryInd2, ToBinRelToTernaryIndNone,
};
use ascent_byods_rels::trrel_union_find_binary_ind::TrRelIndCommon;
use std::collections::HashMap;
use std::panic::{catch_unwind, AssertUnwindSafe};

type B = TrRelIndCommon<i64>;
type W<const R1: bool, const R2: bool> = BinRelToTernaryWrapper<R1, R2, i64, i64, i64, B>;
type Tup = Vec<i64>;

fn show_tups(mut ts: Vec<Tup>) -> String {
   ts.sort();
   ts.iter().map(|t| t.iter().map(|x| x.to_string()).collect::<Vec<_>>().join(":")).collect::<Vec<_>>().join(";")
}

fn show_opt(o: Option<Vec<Tup>>) -> String {
   match o {
      None => "none".into(),
      Some(ts) => format!("some {}", show_tups(ts)),
   }
}

trait Tri {
   fn enter(&mut self);
   fn ins(&mut self, a: &[i64]) -> Option<bool>;
   fn head(&mut self, a: &[i64]) -> Option<bool>;
   fn merge(&mut self);
   fn has(&self, delta: bool, a: &[i64]) -> Option<bool>;
   fn get(&self, delta: bool, view: &str, k: &[i64]) -> Option<Option<Vec<Tup>>>;
   fn all(&self, delta: bool, view: &str) -> Option<Vec<Tup>>;
   fn len12(&self, delta: bool) -> Option<usize>;
   fn views(&self) -> Vec<(&'static str, Vec<bool>)>;
}

struct Bin {
   new: B,
   delta: B,
   total: B,
}

impl Tri for Bin {
   fn enter(&mut self) {
      // `let mut delta = take(&mut _self.field); let mut total = Default::default(); let mut new = Default::default(); init(..)`
      self.delta = std::mem::take(&mut self.total);
      self.total = Default::default();
      self.new = Default::default();
      RelIndexMerge::init(&mut self.new, &mut self.delta, &mut self.total);
   }
   fn ins(&mut self, a: &[i64]) -> Option<bool> {
      let [x, y] = a else { return None };
      let mut to = ToByodsBinRelInd0_1::<i64, i64>::default();
      let mut w = to.to_rel_index_write(&mut self.new);
      Some(RelFullIndexWrite::insert_if_not_present(&mut w, &(*x, *y), ()))
   }
   fn head(&mut self, a: &[i64]) -> Option<bool> {
      let [x, y] = a else { return None };
      let key = (*x, *y);
      let to = ToByodsBinRelInd0_1::<i64, i64>::default();
      if to.to_rel_index(&self.total).contains_key(&key) || to.to_rel_index(&self.delta).contains_key(&key) {
         return Some(false);
      }
      self.ins(a)
   }
   fn merge(&mut self) { RelIndexMerge::merge_delta_to_total_new_to_delta(&mut self.new, &mut self.delta, &mut self.total) }
   fn has(&self, delta: bool, a: &[i64]) -> Option<bool> {
      let [x, y] = a else { return None };
      let rel = if delta { &self.delta } else { &self.total };
      let to = ToByodsBinRelInd0_1::<i64, i64>::default();
      Some(to.to_rel_index(rel).contains_key(&(*x, *y)))
   }
   fn get(&self, delta: bool, view: &str, k: &[i64]) -> Option<Option<Vec<Tup>>> {
      let rel = if delta { &self.delta } else { &self.total };
      Some(match (view, k) {
         ("n", []) => {
            let to = ToByodsBinRelIndNone::<i64, i64>::default();
            let v = to.to_rel_index(rel);
            let r = v.index_get(&()).map(|it| it.map(|(a, b)| vec![*a, *b]).collect());
            r
         },
         ("0", [x]) => {
            let to = ToByodsBinRelInd0::<i64, i64>::default();
            let v = to.to_rel_index(rel);
            let r = v.index_get(&(*x,)).map(|it| it.map(|(b,)| vec![*x, *b]).collect());
            r
         },
         ("1", [y]) => {
            let to = ToByodsBinRelInd1::<i64, i64>::default();
            let v = to.to_rel_index(rel);
            let r = v.index_get(&(*y,)).map(|it| it.map(|(a,)| vec![*a, *y]).collect());
            r
         },
         ("01", [x, y]) => {
            let to = ToByodsBinRelInd0_1::<i64, i64>::default();
            let v = to.to_rel_index(rel);
            let r = v.index_get(&(*x, *y)).map(|it| it.map(|()| vec![*x, *y]).collect());
            r
         },
         _ => return None,
      })
   }
   fn all(&self, delta: bool, view: &str) -> Option<Vec<Tup>> {
      let rel = if delta { &self.delta } else { &self.total };
      Some(match view {
         "n" => {
            let to = ToByodsBinRelIndNone::<i64, i64>::default();
            let v = to.to_rel_index(rel);
            let r = v.iter_all().flat_map(|((), vs)| vs.map(|(a, b)| vec![*a, *b])).collect();
            r
         },
         "0" => {
            let to = ToByodsBinRelInd0::<i64, i64>::default();
            let v = to.to_rel_index(rel);
            let r = v.iter_all().flat_map(|((a,), vs)| vs.map(move |(b,)| vec![*a, *b])).collect();
            r
         },
         "1" => {
            let to = ToByodsBinRelInd1::<i64, i64>::default();
            let v = to.to_rel_index(rel);
            let r = v.iter_all().flat_map(|((b,), vs)| vs.map(move |(a,)| vec![*a, *b])).collect();
            r
         },
         "01" => {
            let to = ToByodsBinRelInd0_1::<i64, i64>::default();
            let v = to.to_rel_index(rel);
            let r = v.iter_all().flat_map(|((a, b), vs)| vs.map(move |()| vec![*a, *b])).collect();
            r
         },
         _ => return None,
      })
   }
   fn len12(&self, _delta: bool) -> Option<usize> { None }
   fn views(&self) -> Vec<(&'static str, Vec<bool>)> {
      vec![("n", vec![]), ("0", vec![false]), ("1", vec![false]), ("01", vec![false, false])]
   }
}

struct Ter<const R1: bool, const R2: bool> {
   new: W<R1, R2>,
   delta: W<R1, R2>,
   total: W<R1, R2>,
}

impl<const R1: bool, const R2: bool> Tri for Ter<R1, R2> {
   fn enter(&mut self) {
      self.delta = std::mem::take(&mut self.total);
      self.total = Default::default();
      self.new = Default::default();
      RelIndexMerge::init(&mut self.new, &mut self.delta, &mut self.total);
   }
   fn ins(&mut self, a: &[i64]) -> Option<bool> {
      let [k, x, y] = a else { return None };
      let mut to = ToBinRelToTernaryInd0_1_2::<i64, i64, i64>::default();
      let mut w = to.to_rel_index_write(&mut self.new);
      Some(RelFullIndexWrite::insert_if_not_present(&mut w, &(*k, *x, *y), ()))
   }
   fn head(&mut self, a: &[i64]) -> Option<bool> {
      let [k, x, y] = a else { return None };
      let key = (*k, *x, *y);
      let to = ToBinRelToTernaryInd0_1_2::<i64, i64, i64>::default();
      if to.to_rel_index(&self.total).contains_key(&key) || to.to_rel_index(&self.delta).contains_key(&key) {
         return Some(false);
      }
      self.ins(a)
   }
   fn merge(&mut self) { RelIndexMerge::merge_delta_to_total_new_to_delta(&mut self.new, &mut self.delta, &mut self.total) }
   fn has(&self, delta: bool, a: &[i64]) -> Option<bool> {
      let [k, x, y] = a else { return None };
      let rel = if delta { &self.delta } else { &self.total };
      let to = ToBinRelToTernaryInd0_1_2::<i64, i64, i64>::default();
      Some(to.to_rel_index(rel).contains_key(&(*k, *x, *y)))
   }
   fn get(&self, delta: bool, view: &str, k: &[i64]) -> Option<Option<Vec<Tup>>> {
      let rel = if delta { &self.delta } else { &self.total };
      Some(match (view, k) {
         ("n", []) => {
            let to = ToBinRelToTernaryIndNone::<i64, i64, i64>::default();
            let v = to.to_rel_index(rel);
            let r = v.index_get(&()).map(|it| it.map(|(a, b, c)| vec![*a, *b, *c]).collect());
            r
         },
         ("0", [a]) => {
            let to = ToBinRelToTernaryInd0::<i64, i64, i64>::default();
            let v = to.to_rel_index(rel);
            let r = v.index_get(&(*a,)).map(|it| it.map(|(b, c)| vec![*a, *b, *c]).collect());
            r
         },
         ("1", [b]) => {
            let to = ToBinRelToTernaryInd1::<i64, i64, i64>::default();
            let v = to.to_rel_index(rel);
            let r = v.index_get(&(*b,)).map(|it| it.map(|(a, c)| vec![*a, *b, *c]).collect());
            r
         },
         ("2", [c]) => {
            let to = ToBinRelToTernaryInd2::<i64, i64, i64>::default();
            let v = to.to_rel_index(rel);
            let r = v.index_get(&(*c,)).map(|it| it.map(|(a, b)| vec![*a, *b, *c]).collect());
            r
         },
         ("01", [a, b]) => {
            let to = ToBinRelToTernaryInd0_1::<i64, i64, i64>::default();
            let v = to.to_rel_index(rel);
            let r = v.index_get(&(*a, *b)).map(|it| it.map(|(c,)| vec![*a, *b, *c]).collect());
            r
         },
         ("02", [a, c]) => {
            let to = ToBinRelToTernaryInd0_2::<i64, i64, i64>::default();
            let v = to.to_rel_index(rel);
            let r = v.index_get(&(*a, *c)).map(|it| it.map(|(b,)| vec![*a, *b, *c]).collect());
            r
         },
         ("12", [b, c]) => {
            let to = ToBinRelToTernaryInd1_2::<i64, i64, i64>::default();
            let v = to.to_rel_index(rel);
            let r = v.index_get(&(*b, *c)).map(|it| it.map(|(a,)| vec![*a, *b, *c]).collect());
            r
         },
         ("012", [a, b, c]) => {
            let to = ToBinRelToTernaryInd0_1_2::<i64, i64, i64>::default();
            let v = to.to_rel_index(rel);
            let r = v.index_get(&(*a, *b, *c)).map(|it| it.map(|()| vec![*a, *b, *c]).collect());
            r
         },
         _ => return None,
      })
   }
   fn all(&self, delta: bool, view: &str) -> Option<Vec<Tup>> {
      let rel = if delta { &self.delta } else { &self.total };
      Some(match view {
         "n" => {
            let to = ToBinRelToTernaryIndNone::<i64, i64, i64>::default();
            let v = to.to_rel_index(rel);
            let r = v.iter_all().flat_map(|((), vs)| vs.map(|(a, b, c)| vec![*a, *b, *c])).collect();
            r
         },
         "0" => {
            let to = ToBinRelToTernaryInd0::<i64, i64, i64>::default();
            let v = to.to_rel_index(rel);
            let r = v.iter_all().flat_map(|((a,), vs)| vs.map(move |(b, c)| vec![*a, *b, *c])).collect();
            r
         },
         "1" => {
            let to = ToBinRelToTernaryInd1::<i64, i64, i64>::default();
            let v = to.to_rel_index(rel);
            let r = v.iter_all().flat_map(|((b,), vs)| vs.map(move |(a, c)| vec![*a, *b, *c])).collect();
            r
         },
         "2" => {
            let to = ToBinRelToTernaryInd2::<i64, i64, i64>::default();
            let v = to.to_rel_index(rel);
            let r = v.iter_all().flat_map(|((c,), vs)| vs.map(move |(a, b)| vec![*a, *b, *c])).collect();
            r
         },
         "01" => {
            let to = ToBinRelToTernaryInd0_1::<i64, i64, i64>::default();
            let v = to.to_rel_index(rel);
            let r = v.iter_all().flat_map(|((a, b), vs)| vs.map(move |(c,)| vec![*a, *b, *c])).collect();
            r
         },
         "02" => {
            let to = ToBinRelToTernaryInd0_2::<i64, i64, i64>::default();
            let v = to.to_rel_index(rel);
            let r = v.iter_all().flat_map(|((a, c), vs)| vs.map(move |(b,)| vec![*a, *b, *c])).collect();
            r
         },
         "12" => {
            let to = ToBinRelToTernaryInd1_2::<i64, i64, i64>::default();
            let v = to.to_rel_index(rel);
            let r = v.iter_all().flat_map(|((b, c), vs)| vs.map(move |(a,)| vec![*a, *b, *c])).collect();
            r
         },
         "012" => {
            let to = ToBinRelToTernaryInd0_1_2::<i64, i64, i64>::default();
            let v = to.to_rel_index(rel);
            let r = v.iter_all().flat_map(|((a, b, c), vs)| vs.map(move |()| vec![*a, *b, *c])).collect();
            r
         },
         _ => return None,
      })
   }
   fn len12(&self, delta: bool) -> Option<usize> {
      let rel = if delta { &self.delta } else { &self.total };
      let to = ToBinRelToTernaryInd1_2::<i64, i64, i64>::default();
      let v = to.to_rel_index(rel);
      let r = v.len_estimate();
      Some(r)
   }
   fn views(&self) -> Vec<(&'static str, Vec<bool>)> {
      let mut v = vec![("n", vec![]), ("0", vec![true])];
      if R1 {
         v.push(("1", vec![false]));
      }
      if R2 {
         v.push(("2", vec![false]));
      }
      v.push(("01", vec![true, false]));
      v.push(("02", vec![true, false]));
      if R1 && R2 {
         v.push(("12", vec![false, false]));
      }
      v.push(("012", vec![true, false, false]));
      v
   }
}

fn tuples_over(doms: &[&[i64]]) -> Vec<Vec<i64>> {
   let mut out = vec![vec![]];
   for d in doms {
      let mut nxt = vec![];
      for t in &out {
         for x in d.iter() {
            let mut t2 = t.clone();
            t2.push(*x);
            nxt.push(t2);
         }
      }
      out = nxt;
   }
   out
}

fn snap_one(o: &dyn Tri, delta: bool, es: &[i64], ks: &[i64]) -> String {
   let mut parts = vec![];
   for (v, kinds) in o.views() {
      let all = match catch_unwind(AssertUnwindSafe(|| o.all(delta, v))) {
         Ok(Some(ts)) => show_tups(ts),
         _ => "panic".into(),
      };
      let doms: Vec<&[i64]> = kinds.iter().map(|k| if *k { ks } else { es }).collect();
      let gets: Vec<String> = tuples_over(&doms)
         .iter()
         .map(|args| match catch_unwind(AssertUnwindSafe(|| o.get(delta, v, args))) {
            Ok(Some(None)) => "-".into(),
            Ok(Some(Some(ts))) => format!("[{}]", show_tups(ts)),
            _ => "panic".into(),
         })
         .collect();
      parts.push(format!("{}={}|{}", v, all, gets.join(",")));
   }
   parts.join(" ")
}

#[derive(Default)]
pub struct Store {
   objs: HashMap<String, Box<dyn Tri>>,
}

fn ints(xs: &[Sexp]) -> Option<Vec<i64>> { xs.iter().map(|x| x.int()).collect() }

impl Store {
   pub fn handle(&mut self, t: &[Sexp]) -> Option<String> {
      let op = t.first()?.atom()?;
      let name = t.get(1)?.atom()?.to_string();
      match op {
         "mk2" => {
            self.objs.insert(name, Box::new(Bin { new: Default::default(), delta: Default::default(), total: Default::default() }));
            return Some("ok".into());
         },
         "mk3" => {
            let r1 = t.get(2)?.atom()? == "1";
            let r2 = t.get(3)?.atom()? == "1";
            fn mk<const R1: bool, const R2: bool>() -> Box<dyn Tri> {
               Box::new(Ter::<R1, R2> { new: Default::default(), delta: Default::default(), total: Default::default() })
            }
            let o = match (r1, r2) {
               (true, true) => mk::<true, true>(),
               (true, false) => mk::<true, false>(),
               (false, true) => mk::<false, true>(),
               (false, false) => mk::<false, false>(),
            };
            self.objs.insert(name, o);
            return Some("ok".into());
         },
         _ => {},
      }
      let o = self.objs.get_mut(&name)?;
      let ver = |s: &Sexp| -> Option<bool> {
         match s.atom()? {
            "d" => Some(true),
            "t" => Some(false),
            _ => None,
         }
      };
      match op {
         "enter" => {
            o.enter();
            Some("ok".into())
         },
         "ins" => Some(o.ins(&ints(&t[2..])?)?.to_string()),
         "head" => Some(o.head(&ints(&t[2..])?)?.to_string()),
         "merge" => {
            o.merge();
            Some("ok".into())
         },
         "has" => Some(o.has(ver(t.get(2)?)?, &ints(&t[3..])?)?.to_string()),
         "get" => Some(show_opt(o.get(ver(t.get(2)?)?, t.get(3)?.atom()?, &ints(&t[4..])?)?)),
         "all" => Some(format!("all {}", show_tups(o.all(ver(t.get(2)?)?, t.get(3)?.atom()?)?))),
         "len12" => Some(o.len12(ver(t.get(2)?)?)?.to_string()),
         "snap" => {
            let rest = &t[2..];
            let cut = rest.iter().position(|s| s.atom() == Some("/")).unwrap_or(rest.len());
            let es = ints(&rest[..cut])?;
            let ks = if cut < rest.len() { ints(&rest[cut + 1..])? } else { vec![] };
            Some(format!("d[ {} ] t[ {} ]", snap_one(o.as_ref(), true, &es, &ks), snap_one(o.as_ref(), false, &es, &ks)))
         },
         _ => None,
      }
   }
}
