//! Union-find ops of tie C (C18): `uf …` drives `ascent_byods_rels::uf::UnionFind<i64>`, `tr …` drives
//! `ascent_byods_rels::trrel_union_find::TrRelUnionFind<i64>`. Same line protocol as lean/AscentVerif/Driver/UF.lean.
//!
//! `Id` is opaque: every id handed out by the structure (returned by any operation) is kept in `ids` in order of
//! first hand-out and printed / accepted as its position there. The Lean driver numbers the model's ids (vector
//! indices) the same way, so both sides print identical numbers without looking inside `Id`. As long as items are
//! only created by `add`, position = vector index = order in which distinct items were first added; `union_add`
//! can create an element whose id is never handed out, which is why positions, not indices, are the protocol.
use crate::sexp::Sexp;
use ascent_byods_rels::trrel_union_find::TrRelUnionFind;
use ascent_byods_rels::uf::elems::Id;
use ascent_byods_rels::uf::UnionFind;
use std::collections::HashMap;
use std::panic::{catch_unwind, AssertUnwindSafe};

#[derive(Default)]
struct Uf {
   uf: UnionFind<i64>,
   ids: Vec<Id>,
}

impl Uf {
   fn num(&mut self, id: Id) -> usize {
      match self.ids.iter().position(|x| *x == id) {
         Some(p) => p,
         None => {
            self.ids.push(id);
            self.ids.len() - 1
         },
      }
   }

   fn find_item(&mut self, x: i64) -> Option<usize> { self.uf.find_item(&x).map(|id| self.num(id)) }

   fn same(&mut self, x: i64, y: i64) -> &'static str {
      let a = self.uf.find_item(&x);
      let b = self.uf.find_item(&y);
      match (a, b) {
         (Some(a), Some(b)) => {
            if a == b {
               "true"
            } else {
               "false"
            }
         },
         _ => "none",
      }
   }
}

#[derive(Default)]
pub struct Store {
   ufs: HashMap<String, Uf>,
   trs: HashMap<String, TrRelUnionFind<i64>>,
}

fn ints(xs: &[Sexp]) -> Option<Vec<i64>> { xs.iter().map(|x| x.int()).collect() }

fn show_opt_set(v: Option<Vec<i64>>, head: &str, sep: &str) -> String {
   match v {
      None => "none".into(),
      Some(mut v) => {
         v.sort();
         let body = v.iter().map(|x| x.to_string()).collect::<Vec<_>>().join(sep);
         if head.is_empty() {
            body
         } else if body.is_empty() {
            head.to_string()
         } else {
            format!("{}{}{}", head, sep, body)
         }
      },
   }
}

fn tr_ok(t: &TrRelUnionFind<i64>) -> bool {
   catch_unwind(AssertUnwindSafe(|| {
      t.assert_disjoint_invariant();
      t.assert_set_connections_dominant_sets();
   }))
   .is_ok()
}

fn tr_iter_all(t: &TrRelUnionFind<i64>) -> Vec<(i64, i64)> {
   let mut all: Vec<(i64, i64)> = t.iter_all().map(|(x, y)| (*x, *y)).collect();
   all.sort();
   all
}

impl Store {
   pub fn handle_uf(&mut self, t: &[Sexp]) -> Option<String> {
      let op = t.first()?.atom()?;
      let name = t.get(1)?.atom()?.to_string();
      if op == "mk" {
         self.ufs.insert(name, Uf::default());
         return Some("ok".into());
      }
      let u = self.ufs.get_mut(&name)?;
      match op {
         "add" => {
            let (is_new, id) = u.uf.add(t.get(2)?.int()?);
            let n = u.num(id);
            Some(format!("{} {}", if is_new { "new" } else { "old" }, n))
         },
         "finditem" => Some(match u.find_item(t.get(2)?.int()?) {
            Some(n) => format!("some {}", n),
            None => "none".into(),
         }),
         "find" => {
            let i = t.get(2)?.nat()?;
            let Some(&id) = u.ids.get(i) else { return Some("noid".into()) };
            let r = unsafe { u.uf.find(id) };
            Some(u.num(r).to_string())
         },
         "union" => {
            let (i, j) = (t.get(2)?.nat()?, t.get(3)?.nat()?);
            let (Some(&a), Some(&b)) = (u.ids.get(i), u.ids.get(j)) else { return Some("noid".into()) };
            let r = unsafe { u.uf.union(a, b) };
            Some(u.num(r).to_string())
         },
         "unionadd" => {
            let (x, y) = (t.get(2)?.int()?, t.get(3)?.int()?);
            let r = u.uf.union_add(x, y);
            Some(u.num(r).to_string())
         },
         "same" => Some(u.same(t.get(2)?.int()?, t.get(3)?.int()?).into()),
         "len" => Some(u.uf.len().to_string()),
         "ok" => Some(u.uf.verif_ok().to_string()),
         "snap" => {
            let es = ints(&t[2..])?;
            let len = u.uf.len();
            let ok = u.uf.verif_ok();
            let reps: Vec<String> = es
               .iter()
               .map(|e| match u.find_item(*e) {
                  Some(n) => n.to_string(),
                  None => "-".into(),
               })
               .collect();
            let mut same = String::new();
            for i in 0..es.len() {
               for j in i + 1..es.len() {
                  same.push(match u.same(es[i], es[j]) {
                     "true" => '1',
                     "false" => '0',
                     _ => '-',
                  });
               }
            }
            Some(format!("len={} ok={} reps={} same={}", len, ok, reps.join(","), same))
         },
         _ => None,
      }
   }

   pub fn handle_tr(&mut self, t: &[Sexp]) -> Option<String> {
      let op = t.first()?.atom()?;
      let name = t.get(1)?.atom()?.to_string();
      if op == "mk" {
         self.trs.insert(name, TrRelUnionFind::default());
         return Some("ok".into());
      }
      let r = self.trs.get_mut(&name)?;
      match op {
         "add" => Some(r.add(t.get(2)?.int()?, t.get(3)?.int()?).to_string()),
         "contains" => Some(r.contains(&t.get(2)?.int()?, &t.get(3)?.int()?).to_string()),
         "iterall" => {
            let mut s = String::from("all");
            for (x, y) in tr_iter_all(r) {
               s.push_str(&format!(" {}:{}", x, y));
            }
            Some(s)
         },
         "setof" => Some(show_opt_set(r.set_of(&t.get(2)?.int()?).map(|it| it.cloned().collect()), "some", " ")),
         "revsetof" => Some(show_opt_set(r.rev_set_of(&t.get(2)?.int()?).map(|it| it.cloned().collect()), "some", " ")),
         "count" => Some(r.count_exact().to_string()),
         "ok" => Some(tr_ok(r).to_string()),
         "snap" => {
            let es = ints(&t[2..])?;
            let mut bits = String::new();
            for x in &es {
               for y in &es {
                  bits.push(if r.contains(x, y) { '1' } else { '0' });
               }
            }
            let all = tr_iter_all(r).iter().map(|(x, y)| format!("{}:{}", x, y)).collect::<Vec<_>>().join(",");
            let so: Vec<String> =
               es.iter().map(|x| show_opt_set(r.set_of(x).map(|it| it.cloned().collect()), "", ",")).collect();
            let rs: Vec<String> =
               es.iter().map(|x| show_opt_set(r.rev_set_of(x).map(|it| it.cloned().collect()), "", ",")).collect();
            Some(format!(
               "contains={} all={} setof={} revsetof={} count={} ok={}",
               bits,
               all,
               so.join(";"),
               rs.join(";"),
               r.count_exact(),
               tr_ok(r)
            ))
         },
         _ => None,
      }
   }
}

