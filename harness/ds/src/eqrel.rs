//! Tie C ops of C10: the `eqrel` provider driven through the trait methods generated code uses
//! (`RelIndexMerge`, `RelFullIndexWrite` / `CRelFullIndexWrite`, `RelFullIndexRead`, `RelIndexRead`, `RelIndexReadAll`,
//! `CRelIndexRead`, `CRelIndexReadAll`, `ToRelIndex0`, `RelIndexCombined`).  Same line protocol as lean/AscentVerif/Driver/EqRel.lean:
//!
//! `eq`  = binary serial  (`eqrel_ind::EqRelIndCommon<i64>`, views `ToEqRelInd0_1`, `ToEqRelInd0`, `ToEqRelIndNone`)
//! `ceq` = binary parallel (`ceqrel_ind::CEqRelIndCommon<i64>`, same view names) — inserts through `to_c_rel_index_write(&new)`
//! `eqt` = ternary serial (`eqrel_ternary::EqRel2IndCommonWithReverse<i64,i64>`, views `ToEqRel2IndFull/None/0/0_1/1/1_2`)
//!
//! ```text
//! <p> mk <n>                  -> ok          fresh new/delta/total triple + views, `RelIndexMerge::init` as at the start of a stratum
//! <p> ins <n> x y | k x y     -> true|false  insert_if_not_present on the full index write view of `new`
//! <p> merge <n>               -> ok          merge_delta_to_total_new_to_delta on the common triple, then on every view (as generated code)
//! <p> mergecommon <n>         -> ok          only the merge of the common triple
//! <p> mergeview <n>           -> ok          only the merges of the views (must not change anything)
//! <p> snap <n> <ver> e1 … ek  -> one line of `field=value`; ver = delta | total | td (RelIndexCombined(total, delta))
//! ```
//! Lists are printed sorted, with multiplicity.  A panic inside an op prints `panic` (main.rs).
use crate::sexp::Sexp;
use ascent::internal::{
   CRelFullIndexWrite, CRelIndexRead, CRelIndexReadAll, RelFullIndexRead, RelFullIndexWrite, RelIndexCombined, RelIndexMerge,
   RelIndexRead, RelIndexReadAll, ToRelIndex0,
};
use ascent::rayon::iter::ParallelIterator;
use std::collections::HashMap;

mod ser {
   pub use ascent_byods_rels::eqrel_ind::{EqRelIndCommon as Common, ToEqRelInd0, ToEqRelInd0_1, ToEqRelIndNone};
}
mod par {
   pub use ascent_byods_rels::ceqrel_ind::{CEqRelIndCommon as Common, ToEqRelInd0, ToEqRelInd0_1, ToEqRelIndNone};
}
use ascent_byods_rels::eqrel_ternary as ter;

fn pairs(mut v: Vec<(i64, i64)>) -> String {
   v.sort();
   v.iter().map(|(a, b)| format!("{}:{}", a, b)).collect::<Vec<_>>().join(",")
}
fn triples(mut v: Vec<(i64, i64, i64)>) -> String {
   v.sort();
   v.iter().map(|(a, b, c)| format!("{}:{}:{}", a, b, c)).collect::<Vec<_>>().join(",")
}
fn ints(mut v: Vec<i64>) -> String {
   v.sort();
   v.iter().map(|a| a.to_string()).collect::<Vec<_>>().join(",")
}
fn opt_ints(v: Option<Vec<i64>>) -> String {
   match v {
      None => "-".into(),
      Some(v) => ints(v),
   }
}
fn opt_pairs(v: Option<Vec<(i64, i64)>>) -> String {
   match v {
      None => "-".into(),
      Some(v) => pairs(v),
   }
}
fn bit(b: bool) -> char { if b { '1' } else { '0' } }

macro_rules! triple {
   ($name:ident, $m:ident) => {
      pub struct $name {
         new: $m::Common<i64>,
         delta: $m::Common<i64>,
         total: $m::Common<i64>,
         f: [$m::ToEqRelInd0_1<i64>; 3],
         z: [$m::ToEqRelInd0<i64>; 3],
         n: [$m::ToEqRelIndNone<i64>; 3],
      }
      impl $name {
         fn mk() -> Self {
            let mut s = Self {
               new: Default::default(),
               delta: Default::default(),
               total: Default::default(),
               f: Default::default(),
               z: Default::default(),
               n: Default::default(),
            };
            RelIndexMerge::init(&mut s.new, &mut s.delta, &mut s.total);
            s.views(false);
            s
         }
         /// `init` / `merge_delta_to_total_new_to_delta` on the write views of every index, in the order of generated code
         fn views(&mut self, merge: bool) {
            let [f0, f1, f2] = &mut self.f;
            let (mut a, mut b, mut c) =
               (f0.to_rel_index_write(&mut self.new), f1.to_rel_index_write(&mut self.delta), f2.to_rel_index_write(&mut self.total));
            if merge {
               RelIndexMerge::merge_delta_to_total_new_to_delta(&mut a, &mut b, &mut c)
            } else {
               RelIndexMerge::init(&mut a, &mut b, &mut c)
            }
            let [z0, z1, z2] = &mut self.z;
            let (mut a, mut b, mut c) =
               (z0.to_rel_index_write(&mut self.new), z1.to_rel_index_write(&mut self.delta), z2.to_rel_index_write(&mut self.total));
            if merge {
               RelIndexMerge::merge_delta_to_total_new_to_delta(&mut a, &mut b, &mut c)
            } else {
               RelIndexMerge::init(&mut a, &mut b, &mut c)
            }
            let [n0, n1, n2] = &mut self.n;
            let (mut a, mut b, mut c) =
               (n0.to_rel_index_write(&mut self.new), n1.to_rel_index_write(&mut self.delta), n2.to_rel_index_write(&mut self.total));
            if merge {
               RelIndexMerge::merge_delta_to_total_new_to_delta(&mut a, &mut b, &mut c)
            } else {
               RelIndexMerge::init(&mut a, &mut b, &mut c)
            }
         }
         fn merge_common(&mut self) {
            RelIndexMerge::merge_delta_to_total_new_to_delta(&mut self.new, &mut self.delta, &mut self.total);
         }
      }
   };
}
triple!(Ser, ser);
triple!(Par, par);

macro_rules! get_ser {
   ($full:expr, $key:expr) => {
      $full.index_get(&$key)
   };
}
macro_rules! get_par {
   // (the sequential full-index `index_get` of the parallel provider wants a `&&(T, T)`: finding F17)
   ($full:expr, $key:expr) => {
      $full.index_get(&&$key)
   };
}

/// the fields every binary snapshot prints, over one version (delta / total) or the combination total+delta
macro_rules! snap_fields {
   ($full:expr, $ind0:expr, $none:expr, $es:expr, $get:ident) => {{
      let (full, ind0, none) = ($full, $ind0, $none);
      let es: &Vec<i64> = $es;
      let mut get01 = String::new();
      for x in es {
         for y in es {
            let key = (*x, *y);
            get01.push(bit($get!(full, key).is_some()));
         }
      }
      let all01: Vec<(i64, i64)> = full.iter_all().flat_map(|(k, vs)| vs.map(move |_| (*k.0, *k.1))).collect();
      let get0: Vec<String> = es.iter().map(|x| opt_ints(ind0.index_get(&(*x,)).map(|it| it.map(|v| *v.0).collect()))).collect();
      let all0: Vec<(i64, i64)> = ind0.iter_all().flat_map(|(k, vs)| vs.map(move |v| (k.0, *v.0))).collect();
      let getn = opt_pairs(none.index_get(&()).map(|it| it.map(|(a, b)| (*a, *b)).collect()));
      let alln: Vec<(i64, i64)> = none.iter_all().flat_map(|(_, vs)| vs.map(|(a, b)| (*a, *b))).collect();
      format!("get01={} all01={} get0={} all0={} getn={} alln={}", get01, pairs(all01), get0.join(";"), pairs(all0), getn, pairs(alln))
   }};
}

impl Ser {
   fn ins(&mut self, x: i64, y: i64) -> bool {
      RelFullIndexWrite::insert_if_not_present(&mut self.f[0].to_rel_index_write(&mut self.new), &(x, y), ())
   }
   fn snap(&self, ver: &str, es: &Vec<i64>) -> Option<String> {
      let has = |c: &ser::Common<i64>, f: &ser::ToEqRelInd0_1<i64>| -> String {
         let v = f.to_rel_index(c);
         es.iter().flat_map(|x| es.iter().map(move |y| (*x, *y))).map(|k| bit(RelFullIndexRead::contains_key(&v, &k))).collect()
      };
      Some(match ver {
         "delta" => format!(
            "has={} {} count={}",
            has(&self.delta, &self.f[1]),
            snap_fields!(self.f[1].to_rel_index(&self.delta), self.z[1].to_rel_index(&self.delta), self.n[1].to_rel_index(&self.delta), es, get_ser),
            self.delta.count_exact()
         ),
         "total" => format!(
            "has={} {} count={}",
            has(&self.total, &self.f[2]),
            snap_fields!(self.f[2].to_rel_index(&self.total), self.z[2].to_rel_index(&self.total), self.n[2].to_rel_index(&self.total), es, get_ser),
            self.total.count_exact()
         ),
         "td" => {
            let (ft, fd) = (self.f[2].to_rel_index(&self.total), self.f[1].to_rel_index(&self.delta));
            let (zt, zd) = (self.z[2].to_rel_index(&self.total), self.z[1].to_rel_index(&self.delta));
            let (nt, nd) = (self.n[2].to_rel_index(&self.total), self.n[1].to_rel_index(&self.delta));
            let h: String = has(&self.total, &self.f[2]).chars().zip(has(&self.delta, &self.f[1]).chars()).map(|(a, b)| bit(a == '1' || b == '1')).collect();
            format!(
               "has={} {} count={}",
               h,
               snap_fields!(RelIndexCombined::new(&ft, &fd), RelIndexCombined::new(&zt, &zd), RelIndexCombined::new(&nt, &nd), es, get_ser),
               self.total.count_exact() + self.delta.count_exact()
            )
         },
         _ => return None,
      })
   }
}

/// parallel read traits of one version: `c_index_get` / `c_iter_all` of every view
macro_rules! csnap_fields {
   ($full:expr, $ind0:expr, $none:expr, $es:expr) => {{
      let (full, ind0, none) = ($full, $ind0, $none);
      let es: &Vec<i64> = $es;
      let mut cget01 = String::new();
      for x in es {
         for y in es {
            let key = (*x, *y);
            cget01.push(bit(full.c_index_get(&&key).is_some()));
         }
      }
      let call01: Vec<(i64, i64)> = full.c_iter_all().flat_map(|(k, vs)| vs.map(move |_| (*k.0, *k.1))).collect();
      let cget0: Vec<String> = es.iter().map(|x| opt_ints(ind0.c_index_get(&(*x,)).map(|it| it.map(|v| *v.0).collect()))).collect();
      let call0: Vec<(i64, i64)> = ind0.c_iter_all().flat_map(|(k, vs)| vs.map(move |v| (k.0, *v.0))).collect();
      let cgetn = opt_pairs(none.c_index_get(&()).map(|it| it.map(|(a, b)| (*a, *b)).collect()));
      let calln: Vec<(i64, i64)> = none.c_iter_all().flat_map(|(_, vs)| vs.map(|(a, b)| (*a, *b))).collect();
      format!("cget01={} call01={} cget0={} call0={} cgetn={} calln={}", cget01, pairs(call01), cget0.join(";"), pairs(call0), cgetn, pairs(calln))
   }};
}

impl Par {
   fn ins(&mut self, x: i64, y: i64) -> bool {
      // generated parallel code inserts through a shared reference
      CRelFullIndexWrite::insert_if_not_present(&self.f[0].to_c_rel_index_write(&self.new), &(x, y), ())
   }
   fn snap(&self, ver: &str, es: &Vec<i64>) -> Option<String> {
      let has = |c: &par::Common<i64>, f: &par::ToEqRelInd0_1<i64>| -> String {
         let v = f.to_rel_index(c);
         es.iter().flat_map(|x| es.iter().map(move |y| (*x, *y))).map(|k| bit(RelFullIndexRead::contains_key(&v, &k))).collect()
      };
      let (c, i) = match ver {
         "delta" => (&self.delta, 1),
         "total" => (&self.total, 2),
         _ => return None,
      };
      Some(format!(
         "has={} {} {}",
         has(c, &self.f[i]),
         snap_fields!(self.f[i].to_rel_index(c), self.z[i].to_rel_index(c), self.n[i].to_rel_index(c), es, get_par),
         csnap_fields!(self.f[i].to_rel_index(c), self.z[i].to_rel_index(c), self.n[i].to_rel_index(c), es)
      ))
   }
}

/// ternary provider: new / delta / total and the six views of generated code
pub struct Ter {
   new: ter::EqRel2IndCommonWithReverse<i64, i64>,
   delta: ter::EqRel2IndCommonWithReverse<i64, i64>,
   total: ter::EqRel2IndCommonWithReverse<i64, i64>,
   f: [ter::ToEqRel2IndFull<i64, i64>; 3],
   n: [ter::ToEqRel2IndNone<i64, i64>; 3],
   i0: [ter::ToEqRel2Ind0<i64, i64>; 3],
   i01: [ter::ToEqRel2Ind0_1<i64, i64>; 3],
   i1: [ter::ToEqRel2Ind1<i64, i64>; 3],
   i12: [ter::ToEqRel2Ind1_2<i64, i64>; 3],
}

macro_rules! view_op {
   ($self:ident, $fld:ident, $merge:expr) => {{
      let [v0, v1, v2] = &mut $self.$fld;
      let (mut a, mut b, mut c) =
         (v0.to_rel_index_write(&mut $self.new), v1.to_rel_index_write(&mut $self.delta), v2.to_rel_index_write(&mut $self.total));
      if $merge {
         RelIndexMerge::merge_delta_to_total_new_to_delta(&mut a, &mut b, &mut c)
      } else {
         RelIndexMerge::init(&mut a, &mut b, &mut c)
      }
   }};
}

impl Ter {
   fn mk() -> Self {
      let mut s = Self {
         new: Default::default(),
         delta: Default::default(),
         total: Default::default(),
         f: Default::default(),
         n: Default::default(),
         i0: Default::default(),
         i01: Default::default(),
         i1: Default::default(),
         i12: Default::default(),
      };
      RelIndexMerge::init(&mut s.new, &mut s.delta, &mut s.total);
      s.views(false);
      s
   }
   /// view order of generated code: sorted by index name (`_0`, `_0_1`, `_0_1_2`, `_1`, `_1_2`, `none`)
   fn views(&mut self, merge: bool) {
      view_op!(self, i0, merge);
      view_op!(self, i01, merge);
      view_op!(self, f, merge);
      view_op!(self, i1, merge);
      view_op!(self, i12, merge);
      view_op!(self, n, merge);
   }
   fn merge_common(&mut self) { RelIndexMerge::merge_delta_to_total_new_to_delta(&mut self.new, &mut self.delta, &mut self.total); }
   fn ins(&mut self, k: i64, x: i64, y: i64) -> bool {
      RelFullIndexWrite::insert_if_not_present(&mut self.f[0].to_rel_index_write(&mut self.new), &(k, x, y), ())
   }
   /// ks: key values, es: element values to probe
   fn snap(&self, ver: &str, ks: &Vec<i64>, es: &Vec<i64>) -> Option<String> {
      let (c, i) = match ver {
         "delta" => (&self.delta, 1),
         "total" => (&self.total, 2),
         _ => return None,
      };
      let full = self.f[i].to_rel_index(c);
      let mut has = String::new();
      let mut get012 = String::new();
      for k in ks {
         for x in es {
            for y in es {
               has.push(bit(RelFullIndexRead::contains_key(&full, &(*k, *x, *y))));
               get012.push(bit(full.index_get(&(*k, *x, *y)).is_some()));
            }
         }
      }
      let all012: Vec<(i64, i64, i64)> = full.iter_all().flat_map(|(k, vs)| vs.map(move |_| (*k.0, *k.1, *k.2))).collect();
      let none = self.n[i].to_rel_index(c);
      let getn: Vec<(i64, i64, i64)> = none.index_get(&()).map(|it| it.map(|(a, b, c)| (*a, *b, *c)).collect()).unwrap_or_default();
      let alln: Vec<(i64, i64, i64)> = none.iter_all().flat_map(|(_, vs)| vs.map(|(a, b, c)| (*a, *b, *c))).collect();
      let v0 = self.i0[i].to_rel_index(c);
      let get0: Vec<String> =
         ks.iter().map(|k| opt_pairs(v0.index_get(&(*k,)).map(|it| it.map(|(a, b)| (*a, *b)).collect()))).collect();
      let all0: Vec<(i64, i64, i64)> = v0.iter_all().flat_map(|(k, vs)| vs.map(move |(a, b)| (k.0, *a, *b))).collect();
      let v01 = self.i01[i].to_rel_index(c);
      let mut get01 = vec![];
      for k in ks {
         for x in es {
            get01.push(opt_ints(v01.index_get(&(*k, *x)).map(|it| it.map(|v| *v.0).collect())));
         }
      }
      let all01: Vec<(i64, i64, i64)> = v01.iter_all().flat_map(|(k, vs)| vs.map(move |v| (*k.0, *k.1, *v.0))).collect();
      let v1 = self.i1[i].to_rel_index(c);
      let get1: Vec<String> =
         es.iter().map(|x| opt_pairs(v1.index_get(&(*x,)).map(|it| it.map(|(k, y)| (*k, *y)).collect()))).collect();
      let all1: Vec<(i64, i64, i64)> = v1.iter_all().flat_map(|(x, vs)| vs.map(move |(k, y)| (*k, x.0, *y))).collect();
      let v12 = self.i12[i].to_rel_index(c);
      let mut get12 = vec![];
      for x in es {
         for y in es {
            get12.push(opt_ints(v12.index_get(&(*x, *y)).map(|it| it.map(|v| *v.0).collect())));
         }
      }
      let all12: Vec<(i64, i64, i64)> = v12.iter_all().flat_map(|(k, vs)| vs.map(move |v| (*v.0, *k.0, *k.1))).collect();
      Some(format!(
         "has={} get012={} all012={} getn={} alln={} get0={} all0={} get01={} all01={} get1={} all1={} get12={} all12={}",
         has,
         get012,
         triples(all012),
         triples(getn),
         triples(alln),
         get0.join(";"),
         triples(all0),
         get01.join(";"),
         triples(all01),
         get1.join(";"),
         triples(all1),
         get12.join(";"),
         triples(all12)
      ))
   }
}

#[derive(Default)]
pub struct Store {
   ser: HashMap<String, Ser>,
   par: HashMap<String, Par>,
   ter: HashMap<String, Ter>,
}

fn int_list(xs: &[Sexp]) -> Option<Vec<i64>> { xs.iter().map(|x| x.int()).collect() }

impl Store {
   pub fn handle_eq(&mut self, t: &[Sexp]) -> Option<String> {
      let op = t.first()?.atom()?;
      let name = t.get(1)?.atom()?.to_string();
      if op == "mk" {
         self.ser.insert(name, Ser::mk());
         return Some("ok".into());
      }
      let o = self.ser.get_mut(&name)?;
      match op {
         "ins" => Some(o.ins(t.get(2)?.int()?, t.get(3)?.int()?).to_string()),
         "merge" => {
            o.merge_common();
            o.views(true);
            Some("ok".into())
         },
         "mergecommon" => {
            o.merge_common();
            Some("ok".into())
         },
         "mergeview" => {
            o.views(true);
            Some("ok".into())
         },
         "snap" => o.snap(t.get(2)?.atom()?, &int_list(&t[3..])?),
         _ => None,
      }
   }

   pub fn handle_ceq(&mut self, t: &[Sexp]) -> Option<String> {
      let op = t.first()?.atom()?;
      let name = t.get(1)?.atom()?.to_string();
      if op == "mk" {
         self.par.insert(name, Par::mk());
         return Some("ok".into());
      }
      let o = self.par.get_mut(&name)?;
      match op {
         "ins" => Some(o.ins(t.get(2)?.int()?, t.get(3)?.int()?).to_string()),
         "merge" => {
            o.merge_common();
            o.views(true);
            Some("ok".into())
         },
         "mergecommon" => {
            o.merge_common();
            Some("ok".into())
         },
         "mergeview" => {
            o.views(true);
            Some("ok".into())
         },
         "snap" => o.snap(t.get(2)?.atom()?, &int_list(&t[3..])?),
         _ => None,
      }
   }

   /// `eqt snap <n> <ver> (k…) (e…)`
   pub fn handle_eqt(&mut self, t: &[Sexp]) -> Option<String> {
      let op = t.first()?.atom()?;
      let name = t.get(1)?.atom()?.to_string();
      if op == "mk" {
         self.ter.insert(name, Ter::mk());
         return Some("ok".into());
      }
      let o = self.ter.get_mut(&name)?;
      match op {
         "ins" => Some(o.ins(t.get(2)?.int()?, t.get(3)?.int()?, t.get(4)?.int()?).to_string()),
         "merge" => {
            o.merge_common();
            o.views(true);
            Some("ok".into())
         },
         "mergecommon" => {
            o.merge_common();
            Some("ok".into())
         },
         "mergeview" => {
            o.views(true);
            Some("ok".into())
         },
         "snap" => o.snap(t.get(2)?.atom()?, &int_list(t.get(3)?.list()?)?, &int_list(t.get(4)?.list()?)?),
         _ => None,
      }
   }
}
