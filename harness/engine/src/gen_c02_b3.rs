#[path = "common.rs"]
mod common;
#[allow(unused, non_snake_case, clippy::all)]
pub mod w3 {
   use ascent::*;
   use ascent::aggregators::*;
   use ascent::lattice::{Dual, set::Set};
   use crate::common::*;
   ascent_par! {
      #![inter_rule_parallelism]
      pub struct Prog;
      relation r0(i64);
      relation r1(i64, i64);
      relation r2(i64, i64, i64);
      relation r3(i64, i64);
      relation r4(i64);
      relation r5(i64, i64);
      r2(3, 0, 0) <-- r0(2);
      r2(v0, v1, ((*v0) + 1)) <-- r2(0, 3, v0) if ((*v0) != 1), r0(v1) if ((*v0) != 1), if ((*v0) < 6);
      r3(v0, v1) <-- let v9 = 0, r5(v0, v1), r3(v1, v9);
      r1(v0, v2) <-- r5(v0, v1), r1(v1, v2), r5(v2, v3);
      r1(2, 0);
      r2(v3, v4, ((*v0) + 1)) <-- r0(v0), for v1 in 2..1, r3(v2, ((*v0) + 1)), r5(v3, v4) if ((*v3) != 1), if ((*v0) < 6);
      r2(v0, 1, 3) <-- if let Some(v0) = Some(1), r1(v1, v2), let v3 = (*v2), if (v0 <= 6);
   }
   pub struct Inst { p: Prog, pool: Option<ascent::rayon::ThreadPool> }
   pub fn make(pool: Option<usize>) -> Box<dyn Driver> {
      let pool = pool.map(|n| ascent::rayon::ThreadPoolBuilder::new().num_threads(n).build().unwrap());
      let p = match &pool { Some(pl) => pl.install(|| Default::default()), None => Default::default() };
      Box::new(Inst { p, pool })
   }
   impl Driver for Inst {
      fn load(&mut self, rel: usize, rows: &[Sexp], append: bool) -> Option<()> {
         match rel {
         0 => { let v: Vec<(i64,)> = parse_rows(rows)?; if !append { self.p.r0 = Default::default(); } for x in v { self.p.r0.push(x); } },
         1 => { let v: Vec<(i64,i64,)> = parse_rows(rows)?; if !append { self.p.r1 = Default::default(); } for x in v { self.p.r1.push(x); } },
         2 => { let v: Vec<(i64,i64,i64,)> = parse_rows(rows)?; if !append { self.p.r2 = Default::default(); } for x in v { self.p.r2.push(x); } },
         3 => { let v: Vec<(i64,i64,)> = parse_rows(rows)?; if !append { self.p.r3 = Default::default(); } for x in v { self.p.r3.push(x); } },
         4 => { let v: Vec<(i64,)> = parse_rows(rows)?; if !append { self.p.r4 = Default::default(); } for x in v { self.p.r4.push(x); } },
         5 => { let v: Vec<(i64,i64,)> = parse_rows(rows)?; if !append { self.p.r5 = Default::default(); } for x in v { self.p.r5.push(x); } },
            _ => return None,
         }
         Some(())
      }
      fn run(&mut self) { match &self.pool { Some(pl) => { let p = &mut self.p; pl.install(|| p.run()) }, None => self.p.run() } }
      fn run_here(&mut self) { self.p.run() }
      fn run_timeout(&mut self, k: usize) -> Option<bool> { let _ = k; None }
      fn dump(&self) -> String { vec![dump_rel(0, self.p.r0.iter().map(|x| x.render()).collect()), dump_rel(1, self.p.r1.iter().map(|x| x.render()).collect()), dump_rel(2, self.p.r2.iter().map(|x| x.render()).collect()), dump_rel(3, self.p.r3.iter().map(|x| x.render()).collect()), dump_rel(4, self.p.r4.iter().map(|x| x.render()).collect()), dump_rel(5, self.p.r5.iter().map(|x| x.render()).collect())].join(" | ") }
      fn iters(&self) -> String { format!("iters {}", self.p.scc_iters.iter().map(|x| x.to_string()).collect::<Vec<_>>().join(" ")) }
   }
}

#[allow(unused, non_snake_case, clippy::all)]
pub mod w11 {
   use ascent::*;
   use ascent::aggregators::*;
   use ascent::lattice::{Dual, set::Set};
   use crate::common::*;
   ascent_par! {
      #![inter_rule_parallelism]
      pub struct Prog;
      relation r0(i64);
      relation r1(i64, i64);
      relation r2(i64, i64, i64);
      r1(3, 2) <-- r0(0);
      r1((v1 + 1), v0) <-- r1(3, v0) if ((*v0) < 6) let v1 = ((*v0) + 0), r1(v1, (v1 + 1)) if ((*v0) <= 3), if (v1 < 6);
      r1(v0, v1) <-- let v9 = 0, r1(v0, v1), r1(v1, v9);
      r1(v0, v0) <-- let v0 = 3, r0(v0), if (v0 == 3), if (v0 <= 6);
      r1((v0 + 1), v2) <-- for v0 in 1..3, r2(v0, v1, v2), if (v0 < 6);
      r2(v0, v0, v2) <-- r2(v0, v1, v2), r1(v0, v3);
   }
   pub struct Inst { p: Prog, pool: Option<ascent::rayon::ThreadPool> }
   pub fn make(pool: Option<usize>) -> Box<dyn Driver> {
      let pool = pool.map(|n| ascent::rayon::ThreadPoolBuilder::new().num_threads(n).build().unwrap());
      let p = match &pool { Some(pl) => pl.install(|| Default::default()), None => Default::default() };
      Box::new(Inst { p, pool })
   }
   impl Driver for Inst {
      fn load(&mut self, rel: usize, rows: &[Sexp], append: bool) -> Option<()> {
         match rel {
         0 => { let v: Vec<(i64,)> = parse_rows(rows)?; if !append { self.p.r0 = Default::default(); } for x in v { self.p.r0.push(x); } },
         1 => { let v: Vec<(i64,i64,)> = parse_rows(rows)?; if !append { self.p.r1 = Default::default(); } for x in v { self.p.r1.push(x); } },
         2 => { let v: Vec<(i64,i64,i64,)> = parse_rows(rows)?; if !append { self.p.r2 = Default::default(); } for x in v { self.p.r2.push(x); } },
            _ => return None,
         }
         Some(())
      }
      fn run(&mut self) { match &self.pool { Some(pl) => { let p = &mut self.p; pl.install(|| p.run()) }, None => self.p.run() } }
      fn run_here(&mut self) { self.p.run() }
      fn run_timeout(&mut self, k: usize) -> Option<bool> { let _ = k; None }
      fn dump(&self) -> String { vec![dump_rel(0, self.p.r0.iter().map(|x| x.render()).collect()), dump_rel(1, self.p.r1.iter().map(|x| x.render()).collect()), dump_rel(2, self.p.r2.iter().map(|x| x.render()).collect())].join(" | ") }
      fn iters(&self) -> String { format!("iters {}", self.p.scc_iters.iter().map(|x| x.to_string()).collect::<Vec<_>>().join(" ")) }
   }
}

#[allow(unused, non_snake_case, clippy::all)]
pub mod w19 {
   use ascent::*;
   use ascent::aggregators::*;
   use ascent::lattice::{Dual, set::Set};
   use crate::common::*;
   ascent_par! {
      #![inter_rule_parallelism]
      pub struct Prog;
      relation r0(i64, i64);
      relation r1(i64, i64);
      relation r2(i64, i64);
      relation r3(i64, i64, i64);
      r3(((*v0) + 1), v0, v0) <-- r1(0, v0), if ((*v0) < 6);
      r3(((*v1) + 1), ((*v2) + 1), v0) <-- if let Some(v0) = Some(1), r3(v1, v2, v3), r1(v1, v4), if ((*v1) < 6), if ((*v2) < 6), if (v0 <= 6);
      r2(v0, v8) <-- if let Some(v9) = Some(2), r0(v0, v1), r1(v1, v9) let v8 = ((*v0) + 1);
      r2(v0, v1) <-- r1(v0, v1), r0(v1, v1);
      r3(v0, ((*v1) + 1), v1) <-- r1(v0, v1), r0(v1, v2), if ((*v1) < 6);
   }
   pub struct Inst { p: Prog, pool: Option<ascent::rayon::ThreadPool> }
   pub fn make(pool: Option<usize>) -> Box<dyn Driver> {
      let pool = pool.map(|n| ascent::rayon::ThreadPoolBuilder::new().num_threads(n).build().unwrap());
      let p = match &pool { Some(pl) => pl.install(|| Default::default()), None => Default::default() };
      Box::new(Inst { p, pool })
   }
   impl Driver for Inst {
      fn load(&mut self, rel: usize, rows: &[Sexp], append: bool) -> Option<()> {
         match rel {
         0 => { let v: Vec<(i64,i64,)> = parse_rows(rows)?; if !append { self.p.r0 = Default::default(); } for x in v { self.p.r0.push(x); } },
         1 => { let v: Vec<(i64,i64,)> = parse_rows(rows)?; if !append { self.p.r1 = Default::default(); } for x in v { self.p.r1.push(x); } },
         2 => { let v: Vec<(i64,i64,)> = parse_rows(rows)?; if !append { self.p.r2 = Default::default(); } for x in v { self.p.r2.push(x); } },
         3 => { let v: Vec<(i64,i64,i64,)> = parse_rows(rows)?; if !append { self.p.r3 = Default::default(); } for x in v { self.p.r3.push(x); } },
            _ => return None,
         }
         Some(())
      }
      fn run(&mut self) { match &self.pool { Some(pl) => { let p = &mut self.p; pl.install(|| p.run()) }, None => self.p.run() } }
      fn run_here(&mut self) { self.p.run() }
      fn run_timeout(&mut self, k: usize) -> Option<bool> { let _ = k; None }
      fn dump(&self) -> String { vec![dump_rel(0, self.p.r0.iter().map(|x| x.render()).collect()), dump_rel(1, self.p.r1.iter().map(|x| x.render()).collect()), dump_rel(2, self.p.r2.iter().map(|x| x.render()).collect()), dump_rel(3, self.p.r3.iter().map(|x| x.render()).collect())].join(" | ") }
      fn iters(&self) -> String { format!("iters {}", self.p.scc_iters.iter().map(|x| x.to_string()).collect::<Vec<_>>().join(" ")) }
   }
}

#[allow(unused, non_snake_case, clippy::all)]
pub mod w27 {
   use ascent::*;
   use ascent::aggregators::*;
   use ascent::lattice::{Dual, set::Set};
   use crate::common::*;
   ascent_par! {
      #![inter_rule_parallelism]
      pub struct Prog;
      relation r0(i64, i64, i64);
      relation r1(i64, i64);
      relation r2(i64, i64, i64);
      relation r3(i64, i64);
      relation r4(i64, i64, i64);
      r4(v1, v1, v0) <-- for v0 in [0, 0, 3], r0(v0, v0, v1);
      r4(((*v1) + 1), v1, 0) <-- r4(2, v0, v1) if ((*v1) < 1), r0(v2, v3, v4), let v5 = (*v1), if ((*v1) < 6);
      r4(v0, v1, v9) <-- let v9 = 0, r3(v0, v1), r3(v1, v9);
      r1(v2, ((*v2) + 1)) <-- r2(v0, v1, v2) if ((*v0) != 6), if ((*v2) < 6);
      r4(v1, v0, v1) <-- r0(3, v0, v1);
      r3(1, v0) <-- if let Some(v0) = Some(2), if (v0 <= 6);
   }
   pub struct Inst { p: Prog, pool: Option<ascent::rayon::ThreadPool> }
   pub fn make(pool: Option<usize>) -> Box<dyn Driver> {
      let pool = pool.map(|n| ascent::rayon::ThreadPoolBuilder::new().num_threads(n).build().unwrap());
      let p = match &pool { Some(pl) => pl.install(|| Default::default()), None => Default::default() };
      Box::new(Inst { p, pool })
   }
   impl Driver for Inst {
      fn load(&mut self, rel: usize, rows: &[Sexp], append: bool) -> Option<()> {
         match rel {
         0 => { let v: Vec<(i64,i64,i64,)> = parse_rows(rows)?; if !append { self.p.r0 = Default::default(); } for x in v { self.p.r0.push(x); } },
         1 => { let v: Vec<(i64,i64,)> = parse_rows(rows)?; if !append { self.p.r1 = Default::default(); } for x in v { self.p.r1.push(x); } },
         2 => { let v: Vec<(i64,i64,i64,)> = parse_rows(rows)?; if !append { self.p.r2 = Default::default(); } for x in v { self.p.r2.push(x); } },
         3 => { let v: Vec<(i64,i64,)> = parse_rows(rows)?; if !append { self.p.r3 = Default::default(); } for x in v { self.p.r3.push(x); } },
         4 => { let v: Vec<(i64,i64,i64,)> = parse_rows(rows)?; if !append { self.p.r4 = Default::default(); } for x in v { self.p.r4.push(x); } },
            _ => return None,
         }
         Some(())
      }
      fn run(&mut self) { match &self.pool { Some(pl) => { let p = &mut self.p; pl.install(|| p.run()) }, None => self.p.run() } }
      fn run_here(&mut self) { self.p.run() }
      fn run_timeout(&mut self, k: usize) -> Option<bool> { let _ = k; None }
      fn dump(&self) -> String { vec![dump_rel(0, self.p.r0.iter().map(|x| x.render()).collect()), dump_rel(1, self.p.r1.iter().map(|x| x.render()).collect()), dump_rel(2, self.p.r2.iter().map(|x| x.render()).collect()), dump_rel(3, self.p.r3.iter().map(|x| x.render()).collect()), dump_rel(4, self.p.r4.iter().map(|x| x.render()).collect())].join(" | ") }
      fn iters(&self) -> String { format!("iters {}", self.p.scc_iters.iter().map(|x| x.to_string()).collect::<Vec<_>>().join(" ")) }
   }
}

#[allow(unused, non_snake_case, clippy::all)]
pub mod w35 {
   use ascent::*;
   use ascent::aggregators::*;
   use ascent::lattice::{Dual, set::Set};
   use crate::common::*;
   ascent_par! {
      #![inter_rule_parallelism]
      pub struct Prog;
      relation r0(i64, i64);
      relation r1(i64, i64);
      relation r2(i64, i64);
      relation r3(i64, i64);
      relation r4(i64, i64);
      relation r5(i64, i64);
      r3(v2, (v0 + 1)) <-- for v0 in 2..3, r1(v1, v0), for v2 in 2..1, if (v0 < 6);
      r3(v1, v1) <-- r3(v0, v1), r3(v1, v0) if ((*v0) < 4);
      r2(v0, v1) <-- r3(v0, v1), r3(((*v0) + 1), v2);
      r5(((*v1) + 1), 2) <-- if let Some(v0) = Some(4), r2(v0, v1) if (v0 <= 6), if (v0 <= 1), if ((*v1) < 6);
   }
   pub struct Inst { p: Prog, pool: Option<ascent::rayon::ThreadPool> }
   pub fn make(pool: Option<usize>) -> Box<dyn Driver> {
      let pool = pool.map(|n| ascent::rayon::ThreadPoolBuilder::new().num_threads(n).build().unwrap());
      let p = match &pool { Some(pl) => pl.install(|| Default::default()), None => Default::default() };
      Box::new(Inst { p, pool })
   }
   impl Driver for Inst {
      fn load(&mut self, rel: usize, rows: &[Sexp], append: bool) -> Option<()> {
         match rel {
         0 => { let v: Vec<(i64,i64,)> = parse_rows(rows)?; if !append { self.p.r0 = Default::default(); } for x in v { self.p.r0.push(x); } },
         1 => { let v: Vec<(i64,i64,)> = parse_rows(rows)?; if !append { self.p.r1 = Default::default(); } for x in v { self.p.r1.push(x); } },
         2 => { let v: Vec<(i64,i64,)> = parse_rows(rows)?; if !append { self.p.r2 = Default::default(); } for x in v { self.p.r2.push(x); } },
         3 => { let v: Vec<(i64,i64,)> = parse_rows(rows)?; if !append { self.p.r3 = Default::default(); } for x in v { self.p.r3.push(x); } },
         4 => { let v: Vec<(i64,i64,)> = parse_rows(rows)?; if !append { self.p.r4 = Default::default(); } for x in v { self.p.r4.push(x); } },
         5 => { let v: Vec<(i64,i64,)> = parse_rows(rows)?; if !append { self.p.r5 = Default::default(); } for x in v { self.p.r5.push(x); } },
            _ => return None,
         }
         Some(())
      }
      fn run(&mut self) { match &self.pool { Some(pl) => { let p = &mut self.p; pl.install(|| p.run()) }, None => self.p.run() } }
      fn run_here(&mut self) { self.p.run() }
      fn run_timeout(&mut self, k: usize) -> Option<bool> { let _ = k; None }
      fn dump(&self) -> String { vec![dump_rel(0, self.p.r0.iter().map(|x| x.render()).collect()), dump_rel(1, self.p.r1.iter().map(|x| x.render()).collect()), dump_rel(2, self.p.r2.iter().map(|x| x.render()).collect()), dump_rel(3, self.p.r3.iter().map(|x| x.render()).collect()), dump_rel(4, self.p.r4.iter().map(|x| x.render()).collect()), dump_rel(5, self.p.r5.iter().map(|x| x.render()).collect())].join(" | ") }
      fn iters(&self) -> String { format!("iters {}", self.p.scc_iters.iter().map(|x| x.to_string()).collect::<Vec<_>>().join(" ")) }
   }
}

#[allow(unused, non_snake_case, clippy::all)]
pub mod w43 {
   use ascent::*;
   use ascent::aggregators::*;
   use ascent::lattice::{Dual, set::Set};
   use crate::common::*;
   ascent_par! {
      #![inter_rule_parallelism]
      pub struct Prog;
      relation r0(i64);
      relation r1(i64, i64);
      relation r2(i64);
      relation r3(i64, i64);
      lattice r4(i64, Set<i64>);
      lattice r5(i64, i64, Set<i64>);
      r4(v0, Set::singleton((*v1))) <-- r1(v0, v1);
      r4(v1, v2) <-- r4(v0, v2), r1(v0, v1);
      r4(1, Set::singleton((*v0))) <-- r3(v0, v1);
      r4(v2, v1) <-- r4(v0, v1) if ((*v0) < 3), r3(v0, v2) if ((*v2) < 5);
      r5(v1, v0, Set::singleton((*v1))) <-- r1(v0, v1) if ((*v0) < 4);
      r5(v0, v2, v1) <-- r5(v0, 1, v1), r1(v0, v2);
      r5(v0, v0, v2) <-- r5(0, v0, v1) if ((*v0) < 4), r5(v0, 2, v2);
      r3(v0, v0) <-- r2(v0);
   }
   pub struct Inst { p: Prog, pool: Option<ascent::rayon::ThreadPool> }
   pub fn make(pool: Option<usize>) -> Box<dyn Driver> {
      let pool = pool.map(|n| ascent::rayon::ThreadPoolBuilder::new().num_threads(n).build().unwrap());
      let p = match &pool { Some(pl) => pl.install(|| Default::default()), None => Default::default() };
      Box::new(Inst { p, pool })
   }
   impl Driver for Inst {
      fn load(&mut self, rel: usize, rows: &[Sexp], append: bool) -> Option<()> {
         match rel {
         0 => { let v: Vec<(i64,)> = parse_rows(rows)?; if !append { self.p.r0 = Default::default(); } for x in v { self.p.r0.push(x); } },
         1 => { let v: Vec<(i64,i64,)> = parse_rows(rows)?; if !append { self.p.r1 = Default::default(); } for x in v { self.p.r1.push(x); } },
         2 => { let v: Vec<(i64,)> = parse_rows(rows)?; if !append { self.p.r2 = Default::default(); } for x in v { self.p.r2.push(x); } },
         3 => { let v: Vec<(i64,i64,)> = parse_rows(rows)?; if !append { self.p.r3 = Default::default(); } for x in v { self.p.r3.push(x); } },
         4 => { let v: Vec<(i64,Set<i64>,)> = parse_rows(rows)?; if !append { self.p.r4 = Default::default(); } for x in v { self.p.r4.push(std::sync::RwLock::new(x)); } },
         5 => { let v: Vec<(i64,i64,Set<i64>,)> = parse_rows(rows)?; if !append { self.p.r5 = Default::default(); } for x in v { self.p.r5.push(std::sync::RwLock::new(x)); } },
            _ => return None,
         }
         Some(())
      }
      fn run(&mut self) { match &self.pool { Some(pl) => { let p = &mut self.p; pl.install(|| p.run()) }, None => self.p.run() } }
      fn run_here(&mut self) { self.p.run() }
      fn run_timeout(&mut self, k: usize) -> Option<bool> { let _ = k; None }
      fn dump(&self) -> String { vec![dump_rel(0, self.p.r0.iter().map(|x| x.render()).collect()), dump_rel(1, self.p.r1.iter().map(|x| x.render()).collect()), dump_rel(2, self.p.r2.iter().map(|x| x.render()).collect()), dump_rel(3, self.p.r3.iter().map(|x| x.render()).collect()), dump_rel(4, self.p.r4.iter().map(|x| x.read().unwrap().render()).collect()), dump_rel(5, self.p.r5.iter().map(|x| x.read().unwrap().render()).collect())].join(" | ") }
      fn iters(&self) -> String { format!("iters {}", self.p.scc_iters.iter().map(|x| x.to_string()).collect::<Vec<_>>().join(" ")) }
   }
}

#[allow(unused, non_snake_case, clippy::all)]
pub mod w51 {
   use ascent::*;
   use ascent::aggregators::*;
   use ascent::lattice::{Dual, set::Set};
   use crate::common::*;
   ascent_par! {
      #![inter_rule_parallelism]
      pub struct Prog;
      relation r0(i64, i64, i64);
      relation r1(i64);
      relation r2(i64);
      lattice r3(i64, Set<i64>);
      lattice r4(i64);
      r3(v0, Set::singleton((*v1))) <-- r0(v0, v1, 1);
      r4(2) <-- r1(v0);
      r4(v0) <-- r4(v0), r1(v1);
      r1(v0) <-- r3(v0, v1), r1(v0);
   }
   pub struct Inst { p: Prog, pool: Option<ascent::rayon::ThreadPool> }
   pub fn make(pool: Option<usize>) -> Box<dyn Driver> {
      let pool = pool.map(|n| ascent::rayon::ThreadPoolBuilder::new().num_threads(n).build().unwrap());
      let p = match &pool { Some(pl) => pl.install(|| Default::default()), None => Default::default() };
      Box::new(Inst { p, pool })
   }
   impl Driver for Inst {
      fn load(&mut self, rel: usize, rows: &[Sexp], append: bool) -> Option<()> {
         match rel {
         0 => { let v: Vec<(i64,i64,i64,)> = parse_rows(rows)?; if !append { self.p.r0 = Default::default(); } for x in v { self.p.r0.push(x); } },
         1 => { let v: Vec<(i64,)> = parse_rows(rows)?; if !append { self.p.r1 = Default::default(); } for x in v { self.p.r1.push(x); } },
         2 => { let v: Vec<(i64,)> = parse_rows(rows)?; if !append { self.p.r2 = Default::default(); } for x in v { self.p.r2.push(x); } },
         3 => { let v: Vec<(i64,Set<i64>,)> = parse_rows(rows)?; if !append { self.p.r3 = Default::default(); } for x in v { self.p.r3.push(std::sync::RwLock::new(x)); } },
         4 => { let v: Vec<(i64,)> = parse_rows(rows)?; if !append { self.p.r4 = Default::default(); } for x in v { self.p.r4.push(std::sync::RwLock::new(x)); } },
            _ => return None,
         }
         Some(())
      }
      fn run(&mut self) { match &self.pool { Some(pl) => { let p = &mut self.p; pl.install(|| p.run()) }, None => self.p.run() } }
      fn run_here(&mut self) { self.p.run() }
      fn run_timeout(&mut self, k: usize) -> Option<bool> { let _ = k; None }
      fn dump(&self) -> String { vec![dump_rel(0, self.p.r0.iter().map(|x| x.render()).collect()), dump_rel(1, self.p.r1.iter().map(|x| x.render()).collect()), dump_rel(2, self.p.r2.iter().map(|x| x.render()).collect()), dump_rel(3, self.p.r3.iter().map(|x| x.read().unwrap().render()).collect()), dump_rel(4, self.p.r4.iter().map(|x| x.read().unwrap().render()).collect())].join(" | ") }
      fn iters(&self) -> String { format!("iters {}", self.p.scc_iters.iter().map(|x| x.to_string()).collect::<Vec<_>>().join(" ")) }
   }
}

#[allow(unused, non_snake_case, clippy::all)]
pub mod w59 {
   use ascent::*;
   use ascent::aggregators::*;
   use ascent::lattice::{Dual, set::Set};
   use crate::common::*;
   ascent_par! {
      #![inter_rule_parallelism]
      pub struct Prog;
      relation r0(i64, i64);
      relation r1(i64);
      relation r2(i64);
      relation r3(i64);
      lattice r4(i64, Option<i64>);
      lattice r5(i64, i64, Dual<i64>);
      r4(v0, None) <-- r0(v0, v1) if ((*v0) < 4);
      r4(v0, v1) <-- r4(v0, v1), r2(v2) if ((*v2) < 6);
      r5(v0, v0, Dual((*v0))) <-- r2(v0) if ((*v0) < 3);
      r5(v0, v0, Dual((*v1))) <-- r5(v0, v1, v2), r2(v3) if ((*v0) < 6);
      r5(3, v1, v0) <-- r5(2, 2, v0), r5(v1, v2, v3);
      r1(v0) <-- r5(v0, v1, v2) if ((*v0) < 5), r2(v0) if ((*v0) < 2);
      r2(v0) <-- r2(v0), r1(v0);
   }
   pub struct Inst { p: Prog, pool: Option<ascent::rayon::ThreadPool> }
   pub fn make(pool: Option<usize>) -> Box<dyn Driver> {
      let pool = pool.map(|n| ascent::rayon::ThreadPoolBuilder::new().num_threads(n).build().unwrap());
      let p = match &pool { Some(pl) => pl.install(|| Default::default()), None => Default::default() };
      Box::new(Inst { p, pool })
   }
   impl Driver for Inst {
      fn load(&mut self, rel: usize, rows: &[Sexp], append: bool) -> Option<()> {
         match rel {
         0 => { let v: Vec<(i64,i64,)> = parse_rows(rows)?; if !append { self.p.r0 = Default::default(); } for x in v { self.p.r0.push(x); } },
         1 => { let v: Vec<(i64,)> = parse_rows(rows)?; if !append { self.p.r1 = Default::default(); } for x in v { self.p.r1.push(x); } },
         2 => { let v: Vec<(i64,)> = parse_rows(rows)?; if !append { self.p.r2 = Default::default(); } for x in v { self.p.r2.push(x); } },
         3 => { let v: Vec<(i64,)> = parse_rows(rows)?; if !append { self.p.r3 = Default::default(); } for x in v { self.p.r3.push(x); } },
         4 => { let v: Vec<(i64,Option<i64>,)> = parse_rows(rows)?; if !append { self.p.r4 = Default::default(); } for x in v { self.p.r4.push(std::sync::RwLock::new(x)); } },
         5 => { let v: Vec<(i64,i64,Dual<i64>,)> = parse_rows(rows)?; if !append { self.p.r5 = Default::default(); } for x in v { self.p.r5.push(std::sync::RwLock::new(x)); } },
            _ => return None,
         }
         Some(())
      }
      fn run(&mut self) { match &self.pool { Some(pl) => { let p = &mut self.p; pl.install(|| p.run()) }, None => self.p.run() } }
      fn run_here(&mut self) { self.p.run() }
      fn run_timeout(&mut self, k: usize) -> Option<bool> { let _ = k; None }
      fn dump(&self) -> String { vec![dump_rel(0, self.p.r0.iter().map(|x| x.render()).collect()), dump_rel(1, self.p.r1.iter().map(|x| x.render()).collect()), dump_rel(2, self.p.r2.iter().map(|x| x.render()).collect()), dump_rel(3, self.p.r3.iter().map(|x| x.render()).collect()), dump_rel(4, self.p.r4.iter().map(|x| x.read().unwrap().render()).collect()), dump_rel(5, self.p.r5.iter().map(|x| x.read().unwrap().render()).collect())].join(" | ") }
      fn iters(&self) -> String { format!("iters {}", self.p.scc_iters.iter().map(|x| x.to_string()).collect::<Vec<_>>().join(" ")) }
   }
}

#[allow(unused, non_snake_case, clippy::all)]
pub mod w67 {
   use ascent::*;
   use ascent::aggregators::*;
   use ascent::lattice::{Dual, set::Set};
   use crate::common::*;
   ascent_par! {
      #![inter_rule_parallelism]
      pub struct Prog;
      relation r0(i64);
      relation r1(i64, i64);
      lattice r2(i64, Set<i64>);
      lattice r3(i64, i64);
      r2(v0, Set::singleton((*v1))) <-- r1(v0, v1);
      r2(v1, v2) <-- r2(v0, v2), r1(v0, v1);
      r2(v0, Set::singleton((*v0))) <-- r1(1, v0) if ((*v0) < 2);
      r3(v1, 0) <-- r1(v0, v1);
      r3(v0, std::cmp::min(((*v1) + 2), 6)) <-- r3(v0, v1) if ((*v0) < 4), r0(v0);
      r3(v0, std::cmp::min(((*v3) + 2), 6)) <-- r3(v0, v1), r3(v2, v3);
      r2(v0, Set::singleton(3)) <-- r1(v0, v0);
      r2(v0, v1) <-- r2(v0, v1);
   }
   pub struct Inst { p: Prog, pool: Option<ascent::rayon::ThreadPool> }
   pub fn make(pool: Option<usize>) -> Box<dyn Driver> {
      let pool = pool.map(|n| ascent::rayon::ThreadPoolBuilder::new().num_threads(n).build().unwrap());
      let p = match &pool { Some(pl) => pl.install(|| Default::default()), None => Default::default() };
      Box::new(Inst { p, pool })
   }
   impl Driver for Inst {
      fn load(&mut self, rel: usize, rows: &[Sexp], append: bool) -> Option<()> {
         match rel {
         0 => { let v: Vec<(i64,)> = parse_rows(rows)?; if !append { self.p.r0 = Default::default(); } for x in v { self.p.r0.push(x); } },
         1 => { let v: Vec<(i64,i64,)> = parse_rows(rows)?; if !append { self.p.r1 = Default::default(); } for x in v { self.p.r1.push(x); } },
         2 => { let v: Vec<(i64,Set<i64>,)> = parse_rows(rows)?; if !append { self.p.r2 = Default::default(); } for x in v { self.p.r2.push(std::sync::RwLock::new(x)); } },
         3 => { let v: Vec<(i64,i64,)> = parse_rows(rows)?; if !append { self.p.r3 = Default::default(); } for x in v { self.p.r3.push(std::sync::RwLock::new(x)); } },
            _ => return None,
         }
         Some(())
      }
      fn run(&mut self) { match &self.pool { Some(pl) => { let p = &mut self.p; pl.install(|| p.run()) }, None => self.p.run() } }
      fn run_here(&mut self) { self.p.run() }
      fn run_timeout(&mut self, k: usize) -> Option<bool> { let _ = k; None }
      fn dump(&self) -> String { vec![dump_rel(0, self.p.r0.iter().map(|x| x.render()).collect()), dump_rel(1, self.p.r1.iter().map(|x| x.render()).collect()), dump_rel(2, self.p.r2.iter().map(|x| x.read().unwrap().render()).collect()), dump_rel(3, self.p.r3.iter().map(|x| x.read().unwrap().render()).collect())].join(" | ") }
      fn iters(&self) -> String { format!("iters {}", self.p.scc_iters.iter().map(|x| x.to_string()).collect::<Vec<_>>().join(" ")) }
   }
}

#[allow(unused, non_snake_case, clippy::all)]
pub mod w75 {
   use ascent::*;
   use ascent::aggregators::*;
   use ascent::lattice::{Dual, set::Set};
   use crate::common::*;
   ascent_par! {
      #![inter_rule_parallelism]
      pub struct Prog;
      relation r0(i64, i64);
      relation r1(i64, i64);
      relation r2(i64, i64);
      lattice r3(i64, i64, i64);
      lattice r4(Option<i64>);
      r3(3, 3, (*v0)) <-- r1(v0, v0);
      r3(v2, ((*v0) + 1), v1) <-- r3(1, v0, v1) if ((*v0) < 5), r0(v2, v0), if ((*v0) < 6);
      r3(v0, v2, std::cmp::min(((*v1) + 2), 6)) <-- r3(v0, v0, v1), r3(0, v2, v3);
      r4(Some((*v0))) <-- r1(0, v0);
      r1(((*v0) + 1), v0) <-- r0(v0, v0), if ((*v0) < 6);
      r3(v0, ((*v0) + 1), std::cmp::min(((*v1) + 0), 6)) <-- r3(v0, v0, v1), if ((*v0) < 6);
      r4(Some((*v1))) <-- r3(v0, v1, v2);
   }
   pub struct Inst { p: Prog, pool: Option<ascent::rayon::ThreadPool> }
   pub fn make(pool: Option<usize>) -> Box<dyn Driver> {
      let pool = pool.map(|n| ascent::rayon::ThreadPoolBuilder::new().num_threads(n).build().unwrap());
      let p = match &pool { Some(pl) => pl.install(|| Default::default()), None => Default::default() };
      Box::new(Inst { p, pool })
   }
   impl Driver for Inst {
      fn load(&mut self, rel: usize, rows: &[Sexp], append: bool) -> Option<()> {
         match rel {
         0 => { let v: Vec<(i64,i64,)> = parse_rows(rows)?; if !append { self.p.r0 = Default::default(); } for x in v { self.p.r0.push(x); } },
         1 => { let v: Vec<(i64,i64,)> = parse_rows(rows)?; if !append { self.p.r1 = Default::default(); } for x in v { self.p.r1.push(x); } },
         2 => { let v: Vec<(i64,i64,)> = parse_rows(rows)?; if !append { self.p.r2 = Default::default(); } for x in v { self.p.r2.push(x); } },
         3 => { let v: Vec<(i64,i64,i64,)> = parse_rows(rows)?; if !append { self.p.r3 = Default::default(); } for x in v { self.p.r3.push(std::sync::RwLock::new(x)); } },
         4 => { let v: Vec<(Option<i64>,)> = parse_rows(rows)?; if !append { self.p.r4 = Default::default(); } for x in v { self.p.r4.push(std::sync::RwLock::new(x)); } },
            _ => return None,
         }
         Some(())
      }
      fn run(&mut self) { match &self.pool { Some(pl) => { let p = &mut self.p; pl.install(|| p.run()) }, None => self.p.run() } }
      fn run_here(&mut self) { self.p.run() }
      fn run_timeout(&mut self, k: usize) -> Option<bool> { let _ = k; None }
      fn dump(&self) -> String { vec![dump_rel(0, self.p.r0.iter().map(|x| x.render()).collect()), dump_rel(1, self.p.r1.iter().map(|x| x.render()).collect()), dump_rel(2, self.p.r2.iter().map(|x| x.render()).collect()), dump_rel(3, self.p.r3.iter().map(|x| x.read().unwrap().render()).collect()), dump_rel(4, self.p.r4.iter().map(|x| x.read().unwrap().render()).collect())].join(" | ") }
      fn iters(&self) -> String { format!("iters {}", self.p.scc_iters.iter().map(|x| x.to_string()).collect::<Vec<_>>().join(" ")) }
   }
}

#[allow(unused, non_snake_case, clippy::all)]
pub mod w83 {
   use ascent::*;
   use ascent::aggregators::*;
   use ascent::lattice::{Dual, set::Set};
   use crate::common::*;
   ascent_par! {
      #![inter_rule_parallelism]
      pub struct Prog;
      relation r0(i64);
      relation r1(i64, i64);
      relation r2(i64, i64);
      relation r3(i64);
      relation r4(i64, i64);
      relation r5(i64, i64);
      relation r6(i64);
      relation r7(i64);
      relation r8(i64);
      relation r9(i64, i64);
      relation r10(i64, i64);
      r2(v0, v2) <-- r1(v0, v1), r1(v1, v2), r4(v2, v3);
      r2(v0, v2) <-- r2(v0, v1), r1(v1, v2), r2(v2, v3);
      r2(2, v0) <-- r2(v0, v1) if ((*v0) != 5) let v2 = ((*v1) + 1);
      r4(((*v0) + 1), v0) <-- r0(v0) if ((*v0) != 2), if ((*v0) < 6);
      r5(v1, v21) <-- r4(v0, v1), agg v21 = min(v20) in r3(v20);
      r6(v0) <-- r3(v0), agg v21 = count() in r3((*v0));
      r7(v0) <-- r0(v0), agg v21 = min(v20) in r4(v20, _);
      r8(v1) <-- r1(v0, v1), r4(v32, v33), r3(v0), agg v21 = sum(v20) in r4(v20, (*v32));
      r9(v1, (v21 as i64)) <-- r2(v0, v1), r4(v1, v1), r2(v1, v1), agg v21 = count() in r0(_);
      r10(v0, 2) <-- r1(v0, v1), r1(v1, v1), agg () = not() in r4(_, _);
   }
   pub struct Inst { p: Prog, pool: Option<ascent::rayon::ThreadPool> }
   pub fn make(pool: Option<usize>) -> Box<dyn Driver> {
      let pool = pool.map(|n| ascent::rayon::ThreadPoolBuilder::new().num_threads(n).build().unwrap());
      let p = match &pool { Some(pl) => pl.install(|| Default::default()), None => Default::default() };
      Box::new(Inst { p, pool })
   }
   impl Driver for Inst {
      fn load(&mut self, rel: usize, rows: &[Sexp], append: bool) -> Option<()> {
         match rel {
         0 => { let v: Vec<(i64,)> = parse_rows(rows)?; if !append { self.p.r0 = Default::default(); } for x in v { self.p.r0.push(x); } },
         1 => { let v: Vec<(i64,i64,)> = parse_rows(rows)?; if !append { self.p.r1 = Default::default(); } for x in v { self.p.r1.push(x); } },
         2 => { let v: Vec<(i64,i64,)> = parse_rows(rows)?; if !append { self.p.r2 = Default::default(); } for x in v { self.p.r2.push(x); } },
         3 => { let v: Vec<(i64,)> = parse_rows(rows)?; if !append { self.p.r3 = Default::default(); } for x in v { self.p.r3.push(x); } },
         4 => { let v: Vec<(i64,i64,)> = parse_rows(rows)?; if !append { self.p.r4 = Default::default(); } for x in v { self.p.r4.push(x); } },
         5 => { let v: Vec<(i64,i64,)> = parse_rows(rows)?; if !append { self.p.r5 = Default::default(); } for x in v { self.p.r5.push(x); } },
         6 => { let v: Vec<(i64,)> = parse_rows(rows)?; if !append { self.p.r6 = Default::default(); } for x in v { self.p.r6.push(x); } },
         7 => { let v: Vec<(i64,)> = parse_rows(rows)?; if !append { self.p.r7 = Default::default(); } for x in v { self.p.r7.push(x); } },
         8 => { let v: Vec<(i64,)> = parse_rows(rows)?; if !append { self.p.r8 = Default::default(); } for x in v { self.p.r8.push(x); } },
         9 => { let v: Vec<(i64,i64,)> = parse_rows(rows)?; if !append { self.p.r9 = Default::default(); } for x in v { self.p.r9.push(x); } },
         10 => { let v: Vec<(i64,i64,)> = parse_rows(rows)?; if !append { self.p.r10 = Default::default(); } for x in v { self.p.r10.push(x); } },
            _ => return None,
         }
         Some(())
      }
      fn run(&mut self) { match &self.pool { Some(pl) => { let p = &mut self.p; pl.install(|| p.run()) }, None => self.p.run() } }
      fn run_here(&mut self) { self.p.run() }
      fn run_timeout(&mut self, k: usize) -> Option<bool> { let _ = k; None }
      fn dump(&self) -> String { vec![dump_rel(0, self.p.r0.iter().map(|x| x.render()).collect()), dump_rel(1, self.p.r1.iter().map(|x| x.render()).collect()), dump_rel(2, self.p.r2.iter().map(|x| x.render()).collect()), dump_rel(3, self.p.r3.iter().map(|x| x.render()).collect()), dump_rel(4, self.p.r4.iter().map(|x| x.render()).collect()), dump_rel(5, self.p.r5.iter().map(|x| x.render()).collect()), dump_rel(6, self.p.r6.iter().map(|x| x.render()).collect()), dump_rel(7, self.p.r7.iter().map(|x| x.render()).collect()), dump_rel(8, self.p.r8.iter().map(|x| x.render()).collect()), dump_rel(9, self.p.r9.iter().map(|x| x.render()).collect()), dump_rel(10, self.p.r10.iter().map(|x| x.render()).collect())].join(" | ") }
      fn iters(&self) -> String { format!("iters {}", self.p.scc_iters.iter().map(|x| x.to_string()).collect::<Vec<_>>().join(" ")) }
   }
}

#[allow(unused, non_snake_case, clippy::all)]
pub mod w91 {
   use ascent::*;
   use ascent::aggregators::*;
   use ascent::lattice::{Dual, set::Set};
   use crate::common::*;
   ascent_par! {
      #![inter_rule_parallelism]
      pub struct Prog;
      relation r0(i64, i64);
      relation r1(i64, i64);
      relation r2(i64, i64);
      relation r3(i64, i64, i64);
      relation r4(i64);
      relation r5(i64, i64);
      relation r6(i64, i64);
      relation r7(i64);
      relation r8(i64);
      r2(v0, v1) <-- for v0 in 1..1, r1((v0 + 0), v1);
      r2(2, v0) <-- r2(2, 2), r2(v0, v1) if ((*v1) < 4), let v2 = (*v0);
      r2(v0, v1) <-- r0(v0, v1), r2(((*v0) + 1), v2);
      r3(((*v0) + 1), v1, v1) <-- r2(v0, 1), for v1 in 2..3, if ((*v0) < 6);
      r4(v3) <-- if let Some(v0) = Some(1), r1(v1, v2) if ((*v2) < 6) let v3 = (v0 + 0), r0(v4, v2), if (v3 <= 6);
      r4(3);
      r5(v1, v21) <-- r3(v0, v1, v2), agg v21 = min(v20) in r2(_, v20);
      r6(v0, (v21 as i64)) <-- r0(v0, v1), agg v21 = count() in r0(0, (*v1));
      r7(v1) <-- r2(v0, v1), agg () = not() in r4(_);
      r8(v0) <-- r0(v0, v1), agg v21 = max(v20) in r7(v20);
   }
   pub struct Inst { p: Prog, pool: Option<ascent::rayon::ThreadPool> }
   pub fn make(pool: Option<usize>) -> Box<dyn Driver> {
      let pool = pool.map(|n| ascent::rayon::ThreadPoolBuilder::new().num_threads(n).build().unwrap());
      let p = match &pool { Some(pl) => pl.install(|| Default::default()), None => Default::default() };
      Box::new(Inst { p, pool })
   }
   impl Driver for Inst {
      fn load(&mut self, rel: usize, rows: &[Sexp], append: bool) -> Option<()> {
         match rel {
         0 => { let v: Vec<(i64,i64,)> = parse_rows(rows)?; if !append { self.p.r0 = Default::default(); } for x in v { self.p.r0.push(x); } },
         1 => { let v: Vec<(i64,i64,)> = parse_rows(rows)?; if !append { self.p.r1 = Default::default(); } for x in v { self.p.r1.push(x); } },
         2 => { let v: Vec<(i64,i64,)> = parse_rows(rows)?; if !append { self.p.r2 = Default::default(); } for x in v { self.p.r2.push(x); } },
         3 => { let v: Vec<(i64,i64,i64,)> = parse_rows(rows)?; if !append { self.p.r3 = Default::default(); } for x in v { self.p.r3.push(x); } },
         4 => { let v: Vec<(i64,)> = parse_rows(rows)?; if !append { self.p.r4 = Default::default(); } for x in v { self.p.r4.push(x); } },
         5 => { let v: Vec<(i64,i64,)> = parse_rows(rows)?; if !append { self.p.r5 = Default::default(); } for x in v { self.p.r5.push(x); } },
         6 => { let v: Vec<(i64,i64,)> = parse_rows(rows)?; if !append { self.p.r6 = Default::default(); } for x in v { self.p.r6.push(x); } },
         7 => { let v: Vec<(i64,)> = parse_rows(rows)?; if !append { self.p.r7 = Default::default(); } for x in v { self.p.r7.push(x); } },
         8 => { let v: Vec<(i64,)> = parse_rows(rows)?; if !append { self.p.r8 = Default::default(); } for x in v { self.p.r8.push(x); } },
            _ => return None,
         }
         Some(())
      }
      fn run(&mut self) { match &self.pool { Some(pl) => { let p = &mut self.p; pl.install(|| p.run()) }, None => self.p.run() } }
      fn run_here(&mut self) { self.p.run() }
      fn run_timeout(&mut self, k: usize) -> Option<bool> { let _ = k; None }
      fn dump(&self) -> String { vec![dump_rel(0, self.p.r0.iter().map(|x| x.render()).collect()), dump_rel(1, self.p.r1.iter().map(|x| x.render()).collect()), dump_rel(2, self.p.r2.iter().map(|x| x.render()).collect()), dump_rel(3, self.p.r3.iter().map(|x| x.render()).collect()), dump_rel(4, self.p.r4.iter().map(|x| x.render()).collect()), dump_rel(5, self.p.r5.iter().map(|x| x.render()).collect()), dump_rel(6, self.p.r6.iter().map(|x| x.render()).collect()), dump_rel(7, self.p.r7.iter().map(|x| x.render()).collect()), dump_rel(8, self.p.r8.iter().map(|x| x.render()).collect())].join(" | ") }
      fn iters(&self) -> String { format!("iters {}", self.p.scc_iters.iter().map(|x| x.to_string()).collect::<Vec<_>>().join(" ")) }
   }
}

#[allow(unused, non_snake_case, clippy::all)]
pub mod w99 {
   use ascent::*;
   use ascent::aggregators::*;
   use ascent::lattice::{Dual, set::Set};
   use crate::common::*;
   ascent_par! {
      #![inter_rule_parallelism]
      pub struct Prog;
      relation r0(i64, i64, i64);
      relation r1(i64, i64);
      relation r2(i64, i64);
      relation r3(i64);
      relation r4(i64, i64);
      relation r5(i64);
      relation r6(i64);
      relation r7(i64);
      r2(2, 0) <-- r0(v0, v1, v2), let v3 = (*v1);
      r3(v0) <-- if let Some(v0) = Some(2), r2(v1, v2), if let Some(v3) = None::<i64>, r3(v4), if (v0 <= 6);
      r2(v0, v8) <-- if let Some(v9) = Some(1), r1(v0, v1), r1(v1, v9) let v8 = ((*v0) + 1);
      r2(0, 2);
      r2(v0, v1) <-- if let Some(v0) = None::<i64>, r2(v1, v2), if (v0 <= 6);
      r2(((*v2) + 1), v2) <-- if let Some(v0) = Some(0), r2(1, v1), r3(((*v1) + 0)), r3(v2) if ((*v1) <= 1), if ((*v2) < 6);
      r2(1, 2);
      r4(v1, (v21 as i64)) <-- r2(v0, v1), agg v21 = count() in r3(0);
      r5(v1) <-- r2(v0, v1), agg v21 = min(v20) in r4(v20, (*v0));
      r6(v0) <-- r1(v0, v1), r3(v0), r0(v0, v32, v1), agg v21 = sum(v20) in r0((*v0), v20, 1);
      r7(v0) <-- r0(v0, v1, v2), agg () = not() in r0(_, (*v1), _);
   }
   pub struct Inst { p: Prog, pool: Option<ascent::rayon::ThreadPool> }
   pub fn make(pool: Option<usize>) -> Box<dyn Driver> {
      let pool = pool.map(|n| ascent::rayon::ThreadPoolBuilder::new().num_threads(n).build().unwrap());
      let p = match &pool { Some(pl) => pl.install(|| Default::default()), None => Default::default() };
      Box::new(Inst { p, pool })
   }
   impl Driver for Inst {
      fn load(&mut self, rel: usize, rows: &[Sexp], append: bool) -> Option<()> {
         match rel {
         0 => { let v: Vec<(i64,i64,i64,)> = parse_rows(rows)?; if !append { self.p.r0 = Default::default(); } for x in v { self.p.r0.push(x); } },
         1 => { let v: Vec<(i64,i64,)> = parse_rows(rows)?; if !append { self.p.r1 = Default::default(); } for x in v { self.p.r1.push(x); } },
         2 => { let v: Vec<(i64,i64,)> = parse_rows(rows)?; if !append { self.p.r2 = Default::default(); } for x in v { self.p.r2.push(x); } },
         3 => { let v: Vec<(i64,)> = parse_rows(rows)?; if !append { self.p.r3 = Default::default(); } for x in v { self.p.r3.push(x); } },
         4 => { let v: Vec<(i64,i64,)> = parse_rows(rows)?; if !append { self.p.r4 = Default::default(); } for x in v { self.p.r4.push(x); } },
         5 => { let v: Vec<(i64,)> = parse_rows(rows)?; if !append { self.p.r5 = Default::default(); } for x in v { self.p.r5.push(x); } },
         6 => { let v: Vec<(i64,)> = parse_rows(rows)?; if !append { self.p.r6 = Default::default(); } for x in v { self.p.r6.push(x); } },
         7 => { let v: Vec<(i64,)> = parse_rows(rows)?; if !append { self.p.r7 = Default::default(); } for x in v { self.p.r7.push(x); } },
            _ => return None,
         }
         Some(())
      }
      fn run(&mut self) { match &self.pool { Some(pl) => { let p = &mut self.p; pl.install(|| p.run()) }, None => self.p.run() } }
      fn run_here(&mut self) { self.p.run() }
      fn run_timeout(&mut self, k: usize) -> Option<bool> { let _ = k; None }
      fn dump(&self) -> String { vec![dump_rel(0, self.p.r0.iter().map(|x| x.render()).collect()), dump_rel(1, self.p.r1.iter().map(|x| x.render()).collect()), dump_rel(2, self.p.r2.iter().map(|x| x.render()).collect()), dump_rel(3, self.p.r3.iter().map(|x| x.render()).collect()), dump_rel(4, self.p.r4.iter().map(|x| x.render()).collect()), dump_rel(5, self.p.r5.iter().map(|x| x.render()).collect()), dump_rel(6, self.p.r6.iter().map(|x| x.render()).collect()), dump_rel(7, self.p.r7.iter().map(|x| x.render()).collect())].join(" | ") }
      fn iters(&self) -> String { format!("iters {}", self.p.scc_iters.iter().map(|x| x.to_string()).collect::<Vec<_>>().join(" ")) }
   }
}

fn main() {
   common::main_loop(&[("w3", w3::make as common::Factory), ("w11", w11::make as common::Factory), ("w19", w19::make as common::Factory), ("w27", w27::make as common::Factory), ("w35", w35::make as common::Factory), ("w43", w43::make as common::Factory), ("w51", w51::make as common::Factory), ("w59", w59::make as common::Factory), ("w67", w67::make as common::Factory), ("w75", w75::make as common::Factory), ("w83", w83::make as common::Factory), ("w91", w91::make as common::Factory), ("w99", w99::make as common::Factory)]);
}
