#[path = "common.rs"]
mod common;
#[allow(unused, non_snake_case, clippy::all)]
pub mod m0_ren0 {
   use ascent::*;
   use ascent::aggregators::*;
   use ascent::lattice::{Dual, set::Set};
   use crate::common::*;
   ascent! {
      pub struct Prog;
      relation rel0_(i64);
      relation rel1_(i64, i64);
      relation rel2_(i64, i64, i64);
      relation rel3_(i64, i64, i64);
      relation rel4_(i64, i64, i64);
      relation rel5_(i64, i64);
      rel2_(x1_, x0_, x1_) <-- if let Some(x0_) = Some(4), rel1_(x1_, x2_), if (x0_ <= 6);
      rel3_(x0_, (x0_ + 1), x0_) <-- let x0_ = 2, rel1_(x1_, x0_) if ((*x1_) < 1), if (x0_ <= 6), if (x0_ < 6);
      rel4_(x0_, x1_, (x0_ + 1)) <-- if let Some(x0_) = None::<i64>, rel2_(x0_, (x0_ + 0), x0_), rel3_(x1_, x0_, x0_), if (x0_ <= 6), if (x0_ < 6);
      rel2_(x0_, x8_, x9_) <-- if let Some(x9_) = Some(2), rel1_(x0_, x1_), rel5_(x1_, x9_) let x8_ = ((*x0_) + 1);
      rel3_(x0_, x1_, x2_) <-- rel5_(x0_, x1_) if ((*x0_) < 4), rel1_(x1_, x2_) if ((*x2_) != (*x1_));
      rel5_((x0_ + 1), x0_) <-- for x0_ in [3, 4], if (x0_ < 6);
   }
   pub struct Inst { p: Prog, pool: Option<ascent::rayon::ThreadPool> }
   pub fn make(pool: Option<usize>) -> Box<dyn Driver> {
      let pool = pool.map(|n| ascent::rayon::ThreadPoolBuilder::new().num_threads(n).build().unwrap());
      let p = match &pool { Some(pl) => pl.install(|| Default::default()), None => Default::default() };
      Box::new(Inst { p, pool })
   }
   impl Driver for Inst {
      fn load(&mut self, rel: usize, rows: &[Sexp], append: bool) -> Option<()> {
         match rel {
         0 => { let v: Vec<(i64,)> = parse_rows(rows)?; if append { self.p.rel0_.extend(v) } else { self.p.rel0_ = v } },
         1 => { let v: Vec<(i64,i64,)> = parse_rows(rows)?; if append { self.p.rel1_.extend(v) } else { self.p.rel1_ = v } },
         2 => { let v: Vec<(i64,i64,i64,)> = parse_rows(rows)?; if append { self.p.rel2_.extend(v) } else { self.p.rel2_ = v } },
         3 => { let v: Vec<(i64,i64,i64,)> = parse_rows(rows)?; if append { self.p.rel3_.extend(v) } else { self.p.rel3_ = v } },
         4 => { let v: Vec<(i64,i64,i64,)> = parse_rows(rows)?; if append { self.p.rel4_.extend(v) } else { self.p.rel4_ = v } },
         5 => { let v: Vec<(i64,i64,)> = parse_rows(rows)?; if append { self.p.rel5_.extend(v) } else { self.p.rel5_ = v } },
            _ => return None,
         }
         Some(())
      }
      fn run(&mut self) { match &self.pool { Some(pl) => { let p = &mut self.p; pl.install(|| p.run()) }, None => self.p.run() } }
      fn run_here(&mut self) { self.p.run() }
      fn run_timeout(&mut self, k: usize) -> Option<bool> { let _ = k; None }
      fn dump(&self) -> String { vec![dump_rel(0, self.p.rel0_.iter().map(Row::render).collect()), dump_rel(1, self.p.rel1_.iter().map(Row::render).collect()), dump_rel(2, self.p.rel2_.iter().map(Row::render).collect()), dump_rel(3, self.p.rel3_.iter().map(Row::render).collect()), dump_rel(4, self.p.rel4_.iter().map(Row::render).collect()), dump_rel(5, self.p.rel5_.iter().map(Row::render).collect())].join(" | ") }
      fn iters(&self) -> String { format!("iters {}", self.p.scc_iters.iter().map(|x| x.to_string()).collect::<Vec<_>>().join(" ")) }
   }
}

#[allow(unused, non_snake_case, clippy::all)]
pub mod m2_perm0 {
   use ascent::*;
   use ascent::aggregators::*;
   use ascent::lattice::{Dual, set::Set};
   use crate::common::*;
   ascent! {
      pub struct Prog;
      relation r0(i64, i64);
      relation r2(i64);
      relation r1(i64);
      relation r4(i64, i64);
      relation r3(i64, i64);
      relation r5(i64, i64);
      r2(v0) <-- r5(v0, v1), r5(v0, v0), r5(v1, v2);
      r4(v0, v1) <-- r0(v0, v1), r3(v0, v0), r0(v1, v2);
      r3(0, v1) <-- for v0 in 2..1, r1(v1), r2(v0) if (v0 < 6);
      r2(v2) <-- r0(0, v0) if ((*v0) <= 6) let v1 = ((*v0) + 0), let v2 = 1, if (v2 <= 6);
      r3(v0, v2) <-- r3(0, 0), r4(0, v0) if ((*v0) <= 3), if let Some(v2) = Some(((*v0) + 0)), r3(((*v0) + 0), v1), if (v2 <= 6);
      r4(v2, v1) <-- if let Some(v0) = Some(0), r1(v2) if ((*v2) != 3), r2(v1) if ((*v1) < 5);
      r5(((*v0) + 1), v0) <-- r5(v0, v1), if ((*v0) < 6);
      r2(3) <-- r3(v0, v1);
   }
   pub struct Inst { p: Prog, pool: Option<ascent::rayon::ThreadPool> }
   pub fn make(pool: Option<usize>) -> Box<dyn Driver> {
      let pool = pool.map(|n| ascent::rayon::ThreadPoolBuilder::new().num_threads(n).build().unwrap());
      let p = match &pool { Some(pl) => pl.install(|| Default::default()), None => Default::default() };
      Box::new(Inst { p, pool })
   }
   impl Driver for Inst {
      fn load(&mut self, rel: usize, rows: &[Sexp], append: bool) -> Option<()> {
         match rel {
         0 => { let v: Vec<(i64,i64,)> = parse_rows(rows)?; if append { self.p.r0.extend(v) } else { self.p.r0 = v } },
         1 => { let v: Vec<(i64,)> = parse_rows(rows)?; if append { self.p.r1.extend(v) } else { self.p.r1 = v } },
         2 => { let v: Vec<(i64,)> = parse_rows(rows)?; if append { self.p.r2.extend(v) } else { self.p.r2 = v } },
         3 => { let v: Vec<(i64,i64,)> = parse_rows(rows)?; if append { self.p.r3.extend(v) } else { self.p.r3 = v } },
         4 => { let v: Vec<(i64,i64,)> = parse_rows(rows)?; if append { self.p.r4.extend(v) } else { self.p.r4 = v } },
         5 => { let v: Vec<(i64,i64,)> = parse_rows(rows)?; if append { self.p.r5.extend(v) } else { self.p.r5 = v } },
            _ => return None,
         }
         Some(())
      }
      fn run(&mut self) { match &self.pool { Some(pl) => { let p = &mut self.p; pl.install(|| p.run()) }, None => self.p.run() } }
      fn run_here(&mut self) { self.p.run() }
      fn run_timeout(&mut self, k: usize) -> Option<bool> { let _ = k; None }
      fn dump(&self) -> String { vec![dump_rel(0, self.p.r0.iter().map(Row::render).collect()), dump_rel(1, self.p.r1.iter().map(Row::render).collect()), dump_rel(2, self.p.r2.iter().map(Row::render).collect()), dump_rel(3, self.p.r3.iter().map(Row::render).collect()), dump_rel(4, self.p.r4.iter().map(Row::render).collect()), dump_rel(5, self.p.r5.iter().map(Row::render).collect())].join(" | ") }
      fn iters(&self) -> String { format!("iters {}", self.p.scc_iters.iter().map(|x| x.to_string()).collect::<Vec<_>>().join(" ")) }
   }
}

#[allow(unused, non_snake_case, clippy::all)]
pub mod m3_ren1 {
   use ascent::*;
   use ascent::aggregators::*;
   use ascent::lattice::{Dual, set::Set};
   use crate::common::*;
   ascent! {
      pub struct Prog;
      relation edge(i64, i64);
      relation path(i64);
      relation node(i64);
      relation foo(i64, i64);
      relation bar(i64, i64);
      relation baz(i64, i64, i64);
      path(b) <-- let a = 0, edge(b, a), if ((*b) != 3);
      node(b) <-- if let Some(a) = Some(4), path(b), edge(a, c);
      foo(a, 1) <-- node(a) if ((*a) != 1);
      bar(a, a) <-- foo(a, 3), if ((*a) <= 1), node(a);
      baz((c + 1), c, 1) <-- bar(a, b) if ((*a) < 1) let c = ((*b) + 0), foo(c, a), let d = (*b), if (c < 6), if (c <= 6);
      foo(a, k) <-- if let Some(m) = Some(2), edge(a, b), foo(b, m) let k = ((*a) + 1);
      bar(a, 1) <-- edge(a, 3) if ((*a) != 6), let b = (*a);
      edge(3, 0);
      path(((*a) + 1)) <-- edge(1, a), if ((*a) < 6);
   }
   pub struct Inst { p: Prog, pool: Option<ascent::rayon::ThreadPool> }
   pub fn make(pool: Option<usize>) -> Box<dyn Driver> {
      let pool = pool.map(|n| ascent::rayon::ThreadPoolBuilder::new().num_threads(n).build().unwrap());
      let p = match &pool { Some(pl) => pl.install(|| Default::default()), None => Default::default() };
      Box::new(Inst { p, pool })
   }
   impl Driver for Inst {
      fn load(&mut self, rel: usize, rows: &[Sexp], append: bool) -> Option<()> {
         match rel {
         0 => { let v: Vec<(i64,i64,)> = parse_rows(rows)?; if append { self.p.edge.extend(v) } else { self.p.edge = v } },
         1 => { let v: Vec<(i64,)> = parse_rows(rows)?; if append { self.p.path.extend(v) } else { self.p.path = v } },
         2 => { let v: Vec<(i64,)> = parse_rows(rows)?; if append { self.p.node.extend(v) } else { self.p.node = v } },
         3 => { let v: Vec<(i64,i64,)> = parse_rows(rows)?; if append { self.p.foo.extend(v) } else { self.p.foo = v } },
         4 => { let v: Vec<(i64,i64,)> = parse_rows(rows)?; if append { self.p.bar.extend(v) } else { self.p.bar = v } },
         5 => { let v: Vec<(i64,i64,i64,)> = parse_rows(rows)?; if append { self.p.baz.extend(v) } else { self.p.baz = v } },
            _ => return None,
         }
         Some(())
      }
      fn run(&mut self) { match &self.pool { Some(pl) => { let p = &mut self.p; pl.install(|| p.run()) }, None => self.p.run() } }
      fn run_here(&mut self) { self.p.run() }
      fn run_timeout(&mut self, k: usize) -> Option<bool> { let _ = k; None }
      fn dump(&self) -> String { vec![dump_rel(0, self.p.edge.iter().map(Row::render).collect()), dump_rel(1, self.p.path.iter().map(Row::render).collect()), dump_rel(2, self.p.node.iter().map(Row::render).collect()), dump_rel(3, self.p.foo.iter().map(Row::render).collect()), dump_rel(4, self.p.bar.iter().map(Row::render).collect()), dump_rel(5, self.p.baz.iter().map(Row::render).collect())].join(" | ") }
      fn iters(&self) -> String { format!("iters {}", self.p.scc_iters.iter().map(|x| x.to_string()).collect::<Vec<_>>().join(" ")) }
   }
}

#[allow(unused, non_snake_case, clippy::all)]
pub mod m5_perm1 {
   use ascent::*;
   use ascent::aggregators::*;
   use ascent::lattice::{Dual, set::Set};
   use crate::common::*;
   ascent! {
      pub struct Prog;
      relation r0(i64, i64);
      relation r1(i64, i64);
      relation r2(i64, i64);
      r2(v1, v1) <-- r0(v0, v1), r2(v0, v2);
      r2(v0, v1) <-- r2(v0, v1), r2(v1, v1), if ((*v1) != 2);
   }
   pub struct Inst { p: Prog, pool: Option<ascent::rayon::ThreadPool> }
   pub fn make(pool: Option<usize>) -> Box<dyn Driver> {
      let pool = pool.map(|n| ascent::rayon::ThreadPoolBuilder::new().num_threads(n).build().unwrap());
      let p = match &pool { Some(pl) => pl.install(|| Default::default()), None => Default::default() };
      Box::new(Inst { p, pool })
   }
   impl Driver for Inst {
      fn load(&mut self, rel: usize, rows: &[Sexp], append: bool) -> Option<()> {
         match rel {
         0 => { let v: Vec<(i64,i64,)> = parse_rows(rows)?; if append { self.p.r0.extend(v) } else { self.p.r0 = v } },
         1 => { let v: Vec<(i64,i64,)> = parse_rows(rows)?; if append { self.p.r1.extend(v) } else { self.p.r1 = v } },
         2 => { let v: Vec<(i64,i64,)> = parse_rows(rows)?; if append { self.p.r2.extend(v) } else { self.p.r2 = v } },
            _ => return None,
         }
         Some(())
      }
      fn run(&mut self) { match &self.pool { Some(pl) => { let p = &mut self.p; pl.install(|| p.run()) }, None => self.p.run() } }
      fn run_here(&mut self) { self.p.run() }
      fn run_timeout(&mut self, k: usize) -> Option<bool> { let _ = k; None }
      fn dump(&self) -> String { vec![dump_rel(0, self.p.r0.iter().map(Row::render).collect()), dump_rel(1, self.p.r1.iter().map(Row::render).collect()), dump_rel(2, self.p.r2.iter().map(Row::render).collect())].join(" | ") }
      fn iters(&self) -> String { format!("iters {}", self.p.scc_iters.iter().map(|x| x.to_string()).collect::<Vec<_>>().join(" ")) }
   }
}

#[allow(unused, non_snake_case, clippy::all)]
pub mod m6_ren0 {
   use ascent::*;
   use ascent::aggregators::*;
   use ascent::lattice::{Dual, set::Set};
   use crate::common::*;
   ascent! {
      pub struct Prog;
      relation rel0_(i64, i64);
      relation rel1_(i64, i64);
      relation rel2_(i64, i64);
      rel2_(1, x0_) <-- rel1_(x0_, x1_);
      rel2_(x0_, x0_) <-- rel2_(3, x0_), rel2_(x0_, x1_);
      rel2_(x0_, x1_) <-- rel2_(x0_, x1_), rel2_(x1_, x1_);
      rel2_(x0_, x2_) <-- rel1_(x0_, x1_), rel2_(x1_, x2_), rel1_(x2_, x3_);
      rel2_(x0_, x1_) <-- rel0_(x0_, x1_), if ((*x0_) == 3);
      rel1_(1, 0);
   }
   pub struct Inst { p: Prog, pool: Option<ascent::rayon::ThreadPool> }
   pub fn make(pool: Option<usize>) -> Box<dyn Driver> {
      let pool = pool.map(|n| ascent::rayon::ThreadPoolBuilder::new().num_threads(n).build().unwrap());
      let p = match &pool { Some(pl) => pl.install(|| Default::default()), None => Default::default() };
      Box::new(Inst { p, pool })
   }
   impl Driver for Inst {
      fn load(&mut self, rel: usize, rows: &[Sexp], append: bool) -> Option<()> {
         match rel {
         0 => { let v: Vec<(i64,i64,)> = parse_rows(rows)?; if append { self.p.rel0_.extend(v) } else { self.p.rel0_ = v } },
         1 => { let v: Vec<(i64,i64,)> = parse_rows(rows)?; if append { self.p.rel1_.extend(v) } else { self.p.rel1_ = v } },
         2 => { let v: Vec<(i64,i64,)> = parse_rows(rows)?; if append { self.p.rel2_.extend(v) } else { self.p.rel2_ = v } },
            _ => return None,
         }
         Some(())
      }
      fn run(&mut self) { match &self.pool { Some(pl) => { let p = &mut self.p; pl.install(|| p.run()) }, None => self.p.run() } }
      fn run_here(&mut self) { self.p.run() }
      fn run_timeout(&mut self, k: usize) -> Option<bool> { let _ = k; None }
      fn dump(&self) -> String { vec![dump_rel(0, self.p.rel0_.iter().map(Row::render).collect()), dump_rel(1, self.p.rel1_.iter().map(Row::render).collect()), dump_rel(2, self.p.rel2_.iter().map(Row::render).collect())].join(" | ") }
      fn iters(&self) -> String { format!("iters {}", self.p.scc_iters.iter().map(|x| x.to_string()).collect::<Vec<_>>().join(" ")) }
   }
}

#[allow(unused, non_snake_case, clippy::all)]
pub mod m7_ren1 {
   use ascent::*;
   use ascent::aggregators::*;
   use ascent::lattice::{Dual, set::Set};
   use crate::common::*;
   ascent! {
      pub struct Prog;
      relation edge(i64, i64);
      relation path(i64, i64);
      relation node(i64, i64);
      relation foo(i64);
      path(a, a) <-- edge(a, b), if ((*a) != 3);
      node(b, b) <-- edge(a, b);
      foo(2) <-- path(0, a), node(b, c), if ((*a) != 2);
      path(a, b) <-- edge(a, b), node(a, a), edge(b, c), if ((*c) == 1);
      path(a, c) <-- edge(a, b), path(b, c), edge(c, d);
      foo(b) <-- edge(a, b), if ((*a) == 0);
      path(1, 2);
      path(1, 3);
   }
   pub struct Inst { p: Prog, pool: Option<ascent::rayon::ThreadPool> }
   pub fn make(pool: Option<usize>) -> Box<dyn Driver> {
      let pool = pool.map(|n| ascent::rayon::ThreadPoolBuilder::new().num_threads(n).build().unwrap());
      let p = match &pool { Some(pl) => pl.install(|| Default::default()), None => Default::default() };
      Box::new(Inst { p, pool })
   }
   impl Driver for Inst {
      fn load(&mut self, rel: usize, rows: &[Sexp], append: bool) -> Option<()> {
         match rel {
         0 => { let v: Vec<(i64,i64,)> = parse_rows(rows)?; if append { self.p.edge.extend(v) } else { self.p.edge = v } },
         1 => { let v: Vec<(i64,i64,)> = parse_rows(rows)?; if append { self.p.path.extend(v) } else { self.p.path = v } },
         2 => { let v: Vec<(i64,i64,)> = parse_rows(rows)?; if append { self.p.node.extend(v) } else { self.p.node = v } },
         3 => { let v: Vec<(i64,)> = parse_rows(rows)?; if append { self.p.foo.extend(v) } else { self.p.foo = v } },
            _ => return None,
         }
         Some(())
      }
      fn run(&mut self) { match &self.pool { Some(pl) => { let p = &mut self.p; pl.install(|| p.run()) }, None => self.p.run() } }
      fn run_here(&mut self) { self.p.run() }
      fn run_timeout(&mut self, k: usize) -> Option<bool> { let _ = k; None }
      fn dump(&self) -> String { vec![dump_rel(0, self.p.edge.iter().map(Row::render).collect()), dump_rel(1, self.p.path.iter().map(Row::render).collect()), dump_rel(2, self.p.node.iter().map(Row::render).collect()), dump_rel(3, self.p.foo.iter().map(Row::render).collect())].join(" | ") }
      fn iters(&self) -> String { format!("iters {}", self.p.scc_iters.iter().map(|x| x.to_string()).collect::<Vec<_>>().join(" ")) }
   }
}

#[allow(unused, non_snake_case, clippy::all)]
pub mod m8_i32 {
   use ascent::*;
   use ascent::aggregators::*;
   use ascent::lattice::{Dual, set::Set};
   use crate::common::*;
   ascent! {
      pub struct Prog;
      relation r0(i32);
      relation r1(i32, i32);
      relation r2(i32, i32, i32);
      relation r3(i32, i32);
      relation r4(i32);
      r1(v0, v0) <-- r0(v0), if ((*v0) != 100000);
      r1(v1, v0) <-- r1(v0, v1), r0(v0);
      r4(v0) <-- r3(v0, v1), r1(v1, v2), if ((*v2) == 100000);
      r3(v1, v0) <-- r2(100000, v0, v1), if ((*v1) == 100014);
   }
   pub struct Inst { p: Prog, pool: Option<ascent::rayon::ThreadPool> }
   pub fn make(pool: Option<usize>) -> Box<dyn Driver> {
      let pool = pool.map(|n| ascent::rayon::ThreadPoolBuilder::new().num_threads(n).build().unwrap());
      let p = match &pool { Some(pl) => pl.install(|| Default::default()), None => Default::default() };
      Box::new(Inst { p, pool })
   }
   impl Driver for Inst {
      fn load(&mut self, rel: usize, rows: &[Sexp], append: bool) -> Option<()> {
         match rel {
         0 => { let v: Vec<(i32,)> = parse_rows(rows)?; if append { self.p.r0.extend(v) } else { self.p.r0 = v } },
         1 => { let v: Vec<(i32,i32,)> = parse_rows(rows)?; if append { self.p.r1.extend(v) } else { self.p.r1 = v } },
         2 => { let v: Vec<(i32,i32,i32,)> = parse_rows(rows)?; if append { self.p.r2.extend(v) } else { self.p.r2 = v } },
         3 => { let v: Vec<(i32,i32,)> = parse_rows(rows)?; if append { self.p.r3.extend(v) } else { self.p.r3 = v } },
         4 => { let v: Vec<(i32,)> = parse_rows(rows)?; if append { self.p.r4.extend(v) } else { self.p.r4 = v } },
            _ => return None,
         }
         Some(())
      }
      fn run(&mut self) { match &self.pool { Some(pl) => { let p = &mut self.p; pl.install(|| p.run()) }, None => self.p.run() } }
      fn run_here(&mut self) { self.p.run() }
      fn run_timeout(&mut self, k: usize) -> Option<bool> { let _ = k; None }
      fn dump(&self) -> String { vec![dump_rel(0, self.p.r0.iter().map(Row::render).collect()), dump_rel(1, self.p.r1.iter().map(Row::render).collect()), dump_rel(2, self.p.r2.iter().map(Row::render).collect()), dump_rel(3, self.p.r3.iter().map(Row::render).collect()), dump_rel(4, self.p.r4.iter().map(Row::render).collect())].join(" | ") }
      fn iters(&self) -> String { format!("iters {}", self.p.scc_iters.iter().map(|x| x.to_string()).collect::<Vec<_>>().join(" ")) }
   }
}

#[allow(unused, non_snake_case, clippy::all)]
pub mod m9_str {
   use ascent::*;
   use ascent::aggregators::*;
   use ascent::lattice::{Dual, set::Set};
   use crate::common::*;
   ascent! {
      pub struct Prog;
      relation r0(String, String);
      relation r1(String, String);
      relation r2(String, String, String);
      r2(v0, v0, v0) <-- r1(v0, "s3".to_string()), if (v0.clone() == "s1".to_string());
      r2(v0, v1, v0) <-- r1(v0, v1), r1(v1, v1);
      r1(v1, v2) <-- r2(v0, "s3".to_string(), v1), r1("s1".to_string(), v2), if (v0.clone() != "s3".to_string());
      r1("s3".to_string(), "s2".to_string());
      r2(v2, v1, v5) <-- r1(v0, v1), r2(v2, v1, v3), r2(v4, v1, v5), if (v0.clone() != "s2".to_string());
   }
   pub struct Inst { p: Prog, pool: Option<ascent::rayon::ThreadPool> }
   pub fn make(pool: Option<usize>) -> Box<dyn Driver> {
      let pool = pool.map(|n| ascent::rayon::ThreadPoolBuilder::new().num_threads(n).build().unwrap());
      let p = match &pool { Some(pl) => pl.install(|| Default::default()), None => Default::default() };
      Box::new(Inst { p, pool })
   }
   impl Driver for Inst {
      fn load(&mut self, rel: usize, rows: &[Sexp], append: bool) -> Option<()> {
         match rel {
         0 => { let v: Vec<(String,String,)> = parse_rows(rows)?; if append { self.p.r0.extend(v) } else { self.p.r0 = v } },
         1 => { let v: Vec<(String,String,)> = parse_rows(rows)?; if append { self.p.r1.extend(v) } else { self.p.r1 = v } },
         2 => { let v: Vec<(String,String,String,)> = parse_rows(rows)?; if append { self.p.r2.extend(v) } else { self.p.r2 = v } },
            _ => return None,
         }
         Some(())
      }
      fn run(&mut self) { match &self.pool { Some(pl) => { let p = &mut self.p; pl.install(|| p.run()) }, None => self.p.run() } }
      fn run_here(&mut self) { self.p.run() }
      fn run_timeout(&mut self, k: usize) -> Option<bool> { let _ = k; None }
      fn dump(&self) -> String { vec![dump_rel(0, self.p.r0.iter().map(Row::render).collect()), dump_rel(1, self.p.r1.iter().map(Row::render).collect()), dump_rel(2, self.p.r2.iter().map(Row::render).collect())].join(" | ") }
      fn iters(&self) -> String { format!("iters {}", self.p.scc_iters.iter().map(|x| x.to_string()).collect::<Vec<_>>().join(" ")) }
   }
}

#[allow(unused, non_snake_case, clippy::all)]
pub mod m11_perm1 {
   use ascent::*;
   use ascent::aggregators::*;
   use ascent::lattice::{Dual, set::Set};
   use crate::common::*;
   ascent! {
      pub struct Prog;
      relation r0(i64, i64);
      relation r2(i64, i64);
      relation r1(i64, i64);
      r2(v0, v1) <-- r2(v0, v1), r2(v1, v2), r0(v0, v0);
      r2(1, v0) <-- if let Some(v0) = Some(3), r0(v0, v0), r1(v0, v1), for v2 in 0..4, if (v0 <= 6);
   }
   pub struct Inst { p: Prog, pool: Option<ascent::rayon::ThreadPool> }
   pub fn make(pool: Option<usize>) -> Box<dyn Driver> {
      let pool = pool.map(|n| ascent::rayon::ThreadPoolBuilder::new().num_threads(n).build().unwrap());
      let p = match &pool { Some(pl) => pl.install(|| Default::default()), None => Default::default() };
      Box::new(Inst { p, pool })
   }
   impl Driver for Inst {
      fn load(&mut self, rel: usize, rows: &[Sexp], append: bool) -> Option<()> {
         match rel {
         0 => { let v: Vec<(i64,i64,)> = parse_rows(rows)?; if append { self.p.r0.extend(v) } else { self.p.r0 = v } },
         1 => { let v: Vec<(i64,i64,)> = parse_rows(rows)?; if append { self.p.r1.extend(v) } else { self.p.r1 = v } },
         2 => { let v: Vec<(i64,i64,)> = parse_rows(rows)?; if append { self.p.r2.extend(v) } else { self.p.r2 = v } },
            _ => return None,
         }
         Some(())
      }
      fn run(&mut self) { match &self.pool { Some(pl) => { let p = &mut self.p; pl.install(|| p.run()) }, None => self.p.run() } }
      fn run_here(&mut self) { self.p.run() }
      fn run_timeout(&mut self, k: usize) -> Option<bool> { let _ = k; None }
      fn dump(&self) -> String { vec![dump_rel(0, self.p.r0.iter().map(Row::render).collect()), dump_rel(1, self.p.r1.iter().map(Row::render).collect()), dump_rel(2, self.p.r2.iter().map(Row::render).collect())].join(" | ") }
      fn iters(&self) -> String { format!("iters {}", self.p.scc_iters.iter().map(|x| x.to_string()).collect::<Vec<_>>().join(" ")) }
   }
}

fn main() {
   common::main_loop(&[("m0_ren0", m0_ren0::make as common::Factory), ("m2_perm0", m2_perm0::make as common::Factory), ("m3_ren1", m3_ren1::make as common::Factory), ("m5_perm1", m5_perm1::make as common::Factory), ("m6_ren0", m6_ren0::make as common::Factory), ("m7_ren1", m7_ren1::make as common::Factory), ("m8_i32", m8_i32::make as common::Factory), ("m9_str", m9_str::make as common::Factory), ("m11_perm1", m11_perm1::make as common::Factory)]);
}
