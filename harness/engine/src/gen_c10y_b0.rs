#[path = "common.rs"]
mod common;
#[allow(unused, non_snake_case, clippy::all)]
pub mod bx0 {
   use ascent::*;
   use ascent::aggregators::*;
   use ascent::lattice::{Dual, set::Set};
   use crate::common::*;
   ascent_par! {
      pub struct Prog;
      relation r0(i64, i64);
      relation r1(i64, i64);
      relation r2(i64);
      relation r3(i64);
      relation r4(i64);
      #[ds(ascent_byods_rels::eqrel)] relation r5(i64, i64);
      relation r6(i64, i64);
      relation r7(i64, i64);
      relation r8(i64, i64);
      relation r9(i64, i64);
      relation r10(i64, i64);
      r5(v0, v1) <-- r0(v0, v1);
      r6(v0, v1) <-- r2(v0), r3(v1), r5(v0, v1);
      r7(0, 1) <-- r5(0, 1);
      r8(v0, v1) <-- r9(v0, v1), r5(v0, v1);
      r10(v0, v1) <-- r5(v0, v1), r9(v0, v1);
   }
   pub struct Inst { p: Prog, pool: Option<ascent::rayon::ThreadPool> }
   pub fn make(pool: Option<usize>) -> Box<dyn Driver> {
      let pool = pool.map(|n| ascent::rayon::ThreadPoolBuilder::new().num_threads(n).build().unwrap());
      let p = match &pool { Some(pl) => pl.install(|| Default::default()), None => Default::default() };
      Box::new(Inst { p, pool })
   }
   impl Driver for Inst {
      fn load(&mut self, rel: usize, rows: &[Sexp], append: bool) -> Option<()> {
         match rel {
         0 => { let v: Vec<(i64,i64,)> = parse_rows(rows)?; if !append { self.p.r0 = Default::default(); } for x in v { self.p.r0.push(x); } },
         1 => { let v: Vec<(i64,i64,)> = parse_rows(rows)?; if !append { self.p.r1 = Default::default(); } for x in v { self.p.r1.push(x); } },
         2 => { let v: Vec<(i64,)> = parse_rows(rows)?; if !append { self.p.r2 = Default::default(); } for x in v { self.p.r2.push(x); } },
         3 => { let v: Vec<(i64,)> = parse_rows(rows)?; if !append { self.p.r3 = Default::default(); } for x in v { self.p.r3.push(x); } },
         4 => { let v: Vec<(i64,)> = parse_rows(rows)?; if !append { self.p.r4 = Default::default(); } for x in v { self.p.r4.push(x); } },
         5 => return None,
         6 => { let v: Vec<(i64,i64,)> = parse_rows(rows)?; if !append { self.p.r6 = Default::default(); } for x in v { self.p.r6.push(x); } },
         7 => { let v: Vec<(i64,i64,)> = parse_rows(rows)?; if !append { self.p.r7 = Default::default(); } for x in v { self.p.r7.push(x); } },
         8 => { let v: Vec<(i64,i64,)> = parse_rows(rows)?; if !append { self.p.r8 = Default::default(); } for x in v { self.p.r8.push(x); } },
         9 => { let v: Vec<(i64,i64,)> = parse_rows(rows)?; if !append { self.p.r9 = Default::default(); } for x in v { self.p.r9.push(x); } },
         10 => { let v: Vec<(i64,i64,)> = parse_rows(rows)?; if !append { self.p.r10 = Default::default(); } for x in v { self.p.r10.push(x); } },
            _ => return None,
         }
         Some(())
      }
      fn run(&mut self) { match &self.pool { Some(pl) => { let p = &mut self.p; pl.install(|| p.run()) }, None => self.p.run() } }
      fn run_here(&mut self) { self.p.run() }
      fn run_timeout(&mut self, k: usize) -> Option<bool> { let _ = k; None }
      fn dump(&self) -> String { vec![dump_rel(0, self.p.r0.iter().map(|x| x.render()).collect()), dump_rel(1, self.p.r1.iter().map(|x| x.render()).collect()), dump_rel(2, self.p.r2.iter().map(|x| x.render()).collect()), dump_rel(3, self.p.r3.iter().map(|x| x.render()).collect()), dump_rel(4, self.p.r4.iter().map(|x| x.render()).collect()), dump_rel(5, self.p.r5.iter().map(|x| x.render()).collect()), dump_rel(6, self.p.r6.iter().map(|x| x.render()).collect()), dump_rel(7, self.p.r7.iter().map(|x| x.render()).collect()), dump_rel(8, self.p.r8.iter().map(|x| x.render()).collect()), dump_rel(9, self.p.r9.iter().map(|x| x.render()).collect()), dump_rel(10, self.p.r10.iter().map(|x| x.render()).collect())].join(" | ") }
      fn iters(&self) -> String { format!("iters {}", self.p.scc_iters.iter().map(|x| x.to_string()).collect::<Vec<_>>().join(" ")) }
   }
}

#[allow(unused, non_snake_case, clippy::all)]
pub mod bx1 {
   use ascent::*;
   use ascent::aggregators::*;
   use ascent::lattice::{Dual, set::Set};
   use crate::common::*;
   ascent_par! {
      pub struct Prog;
      relation r0(i64, i64);
      relation r1(i64, i64);
      relation r2(i64);
      relation r3(i64);
      relation r4(i64);
      #[ds(ascent_byods_rels::eqrel)] relation r5(i64, i64);
      relation r6(i64, i64);
      relation r7(i64, i64);
      relation r8(i64, i64);
      relation r9(i64, i64);
      relation r10(i64, i64);
      relation r11(i64, i64);
      relation r12(i64, i64);
      relation r13(i64, i64);
      relation r14(i64, i64);
      r5(v0, v1) <-- r4(v0), r0(v0, v1);
      r4(v1) <-- r4(v0), r5(v0, v1);
      r6(v0, v1) <-- r2(v0), r3(v1), r5(v0, v1);
      r5(v0, v1) <-- r6(v0, v1);
      r7(v0, v1) <-- r2(v0), r3(v1), r5(v0, v1);
      r8(3, 1) <-- r5(3, 1);
      r5(v0, v1) <-- r8(v0, v1);
      r9(0, 2) <-- r5(0, 2);
      r10(v0, v1) <-- r11(v0, v1), r5(v0, v1);
      r5(v0, v1) <-- r10(v0, v1);
      r12(v0, v1) <-- r11(v0, v1), r5(v0, v1);
      r13(v0, v1) <-- r5(v0, v1), r11(v0, v1);
      r5(v0, v1) <-- r13(v0, v1);
      r14(v0, v1) <-- r5(v0, v1), r11(v0, v1);
   }
   pub struct Inst { p: Prog, pool: Option<ascent::rayon::ThreadPool> }
   pub fn make(pool: Option<usize>) -> Box<dyn Driver> {
      let pool = pool.map(|n| ascent::rayon::ThreadPoolBuilder::new().num_threads(n).build().unwrap());
      let p = match &pool { Some(pl) => pl.install(|| Default::default()), None => Default::default() };
      Box::new(Inst { p, pool })
   }
   impl Driver for Inst {
      fn load(&mut self, rel: usize, rows: &[Sexp], append: bool) -> Option<()> {
         match rel {
         0 => { let v: Vec<(i64,i64,)> = parse_rows(rows)?; if !append { self.p.r0 = Default::default(); } for x in v { self.p.r0.push(x); } },
         1 => { let v: Vec<(i64,i64,)> = parse_rows(rows)?; if !append { self.p.r1 = Default::default(); } for x in v { self.p.r1.push(x); } },
         2 => { let v: Vec<(i64,)> = parse_rows(rows)?; if !append { self.p.r2 = Default::default(); } for x in v { self.p.r2.push(x); } },
         3 => { let v: Vec<(i64,)> = parse_rows(rows)?; if !append { self.p.r3 = Default::default(); } for x in v { self.p.r3.push(x); } },
         4 => { let v: Vec<(i64,)> = parse_rows(rows)?; if !append { self.p.r4 = Default::default(); } for x in v { self.p.r4.push(x); } },
         5 => return None,
         6 => { let v: Vec<(i64,i64,)> = parse_rows(rows)?; if !append { self.p.r6 = Default::default(); } for x in v { self.p.r6.push(x); } },
         7 => { let v: Vec<(i64,i64,)> = parse_rows(rows)?; if !append { self.p.r7 = Default::default(); } for x in v { self.p.r7.push(x); } },
         8 => { let v: Vec<(i64,i64,)> = parse_rows(rows)?; if !append { self.p.r8 = Default::default(); } for x in v { self.p.r8.push(x); } },
         9 => { let v: Vec<(i64,i64,)> = parse_rows(rows)?; if !append { self.p.r9 = Default::default(); } for x in v { self.p.r9.push(x); } },
         10 => { let v: Vec<(i64,i64,)> = parse_rows(rows)?; if !append { self.p.r10 = Default::default(); } for x in v { self.p.r10.push(x); } },
         11 => { let v: Vec<(i64,i64,)> = parse_rows(rows)?; if !append { self.p.r11 = Default::default(); } for x in v { self.p.r11.push(x); } },
         12 => { let v: Vec<(i64,i64,)> = parse_rows(rows)?; if !append { self.p.r12 = Default::default(); } for x in v { self.p.r12.push(x); } },
         13 => { let v: Vec<(i64,i64,)> = parse_rows(rows)?; if !append { self.p.r13 = Default::default(); } for x in v { self.p.r13.push(x); } },
         14 => { let v: Vec<(i64,i64,)> = parse_rows(rows)?; if !append { self.p.r14 = Default::default(); } for x in v { self.p.r14.push(x); } },
            _ => return None,
         }
         Some(())
      }
      fn run(&mut self) { match &self.pool { Some(pl) => { let p = &mut self.p; pl.install(|| p.run()) }, None => self.p.run() } }
      fn run_here(&mut self) { self.p.run() }
      fn run_timeout(&mut self, k: usize) -> Option<bool> { let _ = k; None }
      fn dump(&self) -> String { vec![dump_rel(0, self.p.r0.iter().map(|x| x.render()).collect()), dump_rel(1, self.p.r1.iter().map(|x| x.render()).collect()), dump_rel(2, self.p.r2.iter().map(|x| x.render()).collect()), dump_rel(3, self.p.r3.iter().map(|x| x.render()).collect()), dump_rel(4, self.p.r4.iter().map(|x| x.render()).collect()), dump_rel(5, self.p.r5.iter().map(|x| x.render()).collect()), dump_rel(6, self.p.r6.iter().map(|x| x.render()).collect()), dump_rel(7, self.p.r7.iter().map(|x| x.render()).collect()), dump_rel(8, self.p.r8.iter().map(|x| x.render()).collect()), dump_rel(9, self.p.r9.iter().map(|x| x.render()).collect()), dump_rel(10, self.p.r10.iter().map(|x| x.render()).collect()), dump_rel(11, self.p.r11.iter().map(|x| x.render()).collect()), dump_rel(12, self.p.r12.iter().map(|x| x.render()).collect()), dump_rel(13, self.p.r13.iter().map(|x| x.render()).collect()), dump_rel(14, self.p.r14.iter().map(|x| x.render()).collect())].join(" | ") }
      fn iters(&self) -> String { format!("iters {}", self.p.scc_iters.iter().map(|x| x.to_string()).collect::<Vec<_>>().join(" ")) }
   }
}

fn main() {
   common::main_loop(&[("bx0", bx0::make as common::Factory), ("bx1", bx1::make as common::Factory)]);
}
