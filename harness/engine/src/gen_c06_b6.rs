#[path = "common.rs"]
mod common;
#[allow(unused, non_snake_case, clippy::all)]
pub mod m1_perm0 {
   use ascent::*;
   use ascent::aggregators::*;
   use ascent::lattice::{Dual, set::Set};
   use crate::common::*;
   ascent! {
      pub struct Prog;
      relation r2(i64);
      relation r0(i64, i64);
      relation r1(i64, i64);
      relation r3(i64, i64, i64);
      r3(1, 2, 1);
      r3(v1, v1, v1) <-- r1(0, v0), r0(3, 2), r1(v0, v1);
      r3(0, 3, 3) <-- r0(1, 1);
      r3(v0, v1, v2) <-- r0(v0, v1) if ((*v0) < 3), r1(v1, v2) if ((*v2) != (*v1));
      r2(v0) <-- r0(v0, v1) if ((*v0) < 3), r1(v1, v2) if ((*v2) != (*v1));
      r1(3, 3) <-- r1(1, 1);
      r3(v0, v0, (v0 + 1)) <-- let v0 = 2, r1(v0, v0), if (v0 <= 6), if (v0 < 6), r3(v0, (v0 + 1), (v0 + 1));
      r3(v1, ((*v0) + 1), v1) <-- r2(v0) if ((*v0) < 2), if ((*v0) < 6), r1(v1, v0);
   }
   pub struct Inst { p: Prog, pool: Option<ascent::rayon::ThreadPool> }
   pub fn make(pool: Option<usize>) -> Box<dyn Driver> {
      let pool = pool.map(|n| ascent::rayon::ThreadPoolBuilder::new().num_threads(n).build().unwrap());
      let p = match &pool { Some(pl) => pl.install(|| Default::default()), None => Default::default() };
      Box::new(Inst { p, pool })
   }
   impl Driver for Inst {
      fn load(&mut self, rel: usize, rows: &[Sexp], append: bool) -> Option<()> {
         match rel {
         0 => { let v: Vec<(i64,i64,)> = parse_rows(rows)?; if append { self.p.r0.extend(v) } else { self.p.r0 = v } },
         1 => { let v: Vec<(i64,i64,)> = parse_rows(rows)?; if append { self.p.r1.extend(v) } else { self.p.r1 = v } },
         2 => { let v: Vec<(i64,)> = parse_rows(rows)?; if append { self.p.r2.extend(v) } else { self.p.r2 = v } },
         3 => { let v: Vec<(i64,i64,i64,)> = parse_rows(rows)?; if append { self.p.r3.extend(v) } else { self.p.r3 = v } },
            _ => return None,
         }
         Some(())
      }
      fn run(&mut self) { match &self.pool { Some(pl) => { let p = &mut self.p; pl.install(|| p.run()) }, None => self.p.run() } }
      fn run_here(&mut self) { self.p.run() }
      fn run_timeout(&mut self, k: usize) -> Option<bool> { let _ = k; None }
      fn dump(&self) -> String { vec![dump_rel(0, self.p.r0.iter().map(Row::render).collect()), dump_rel(1, self.p.r1.iter().map(Row::render).collect()), dump_rel(2, self.p.r2.iter().map(Row::render).collect()), dump_rel(3, self.p.r3.iter().map(Row::render).collect())].join(" | ") }
      fn iters(&self) -> String { format!("iters {}", self.p.scc_iters.iter().map(|x| x.to_string()).collect::<Vec<_>>().join(" ")) }
   }
}

#[allow(unused, non_snake_case, clippy::all)]
pub mod m2_ren1 {
   use ascent::*;
   use ascent::aggregators::*;
   use ascent::lattice::{Dual, set::Set};
   use crate::common::*;
   ascent! {
      pub struct Prog;
      relation edge(i64, i64);
      relation path(i64);
      relation node(i64);
      relation foo(i64, i64);
      relation bar(i64, i64);
      relation baz(i64, i64);
      node(c) <-- edge(0, a) if ((*a) <= 6) let b = ((*a) + 0), let c = 1, if (c <= 6);
      foo(0, b) <-- for a in 2..1, node(a) if (a < 6), path(b);
      node(3) <-- foo(a, b);
      bar(a, b) <-- edge(a, b), foo(a, a), edge(b, c);
      node(a) <-- baz(a, b), baz(a, a), baz(b, c);
      bar(c, b) <-- if let Some(a) = Some(0), node(b) if ((*b) < 5), path(c) if ((*c) != 3);
      foo(a, c) <-- foo(0, 0), bar(0, a) if ((*a) <= 3), foo(((*a) + 0), b), if let Some(c) = Some(((*a) + 0)), if (c <= 6);
      baz(((*a) + 1), a) <-- baz(a, b), if ((*a) < 6);
   }
   pub struct Inst { p: Prog, pool: Option<ascent::rayon::ThreadPool> }
   pub fn make(pool: Option<usize>) -> Box<dyn Driver> {
      let pool = pool.map(|n| ascent::rayon::ThreadPoolBuilder::new().num_threads(n).build().unwrap());
      let p = match &pool { Some(pl) => pl.install(|| Default::default()), None => Default::default() };
      Box::new(Inst { p, pool })
   }
   impl Driver for Inst {
      fn load(&mut self, rel: usize, rows: &[Sexp], append: bool) -> Option<()> {
         match rel {
         0 => { let v: Vec<(i64,i64,)> = parse_rows(rows)?; if append { self.p.edge.extend(v) } else { self.p.edge = v } },
         1 => { let v: Vec<(i64,)> = parse_rows(rows)?; if append { self.p.path.extend(v) } else { self.p.path = v } },
         2 => { let v: Vec<(i64,)> = parse_rows(rows)?; if append { self.p.node.extend(v) } else { self.p.node = v } },
         3 => { let v: Vec<(i64,i64,)> = parse_rows(rows)?; if append { self.p.foo.extend(v) } else { self.p.foo = v } },
         4 => { let v: Vec<(i64,i64,)> = parse_rows(rows)?; if append { self.p.bar.extend(v) } else { self.p.bar = v } },
         5 => { let v: Vec<(i64,i64,)> = parse_rows(rows)?; if append { self.p.baz.extend(v) } else { self.p.baz = v } },
            _ => return None,
         }
         Some(())
      }
      fn run(&mut self) { match &self.pool { Some(pl) => { let p = &mut self.p; pl.install(|| p.run()) }, None => self.p.run() } }
      fn run_here(&mut self) { self.p.run() }
      fn run_timeout(&mut self, k: usize) -> Option<bool> { let _ = k; None }
      fn dump(&self) -> String { vec![dump_rel(0, self.p.edge.iter().map(Row::render).collect()), dump_rel(1, self.p.path.iter().map(Row::render).collect()), dump_rel(2, self.p.node.iter().map(Row::render).collect()), dump_rel(3, self.p.foo.iter().map(Row::render).collect()), dump_rel(4, self.p.bar.iter().map(Row::render).collect()), dump_rel(5, self.p.baz.iter().map(Row::render).collect())].join(" | ") }
      fn iters(&self) -> String { format!("iters {}", self.p.scc_iters.iter().map(|x| x.to_string()).collect::<Vec<_>>().join(" ")) }
   }
}

#[allow(unused, non_snake_case, clippy::all)]
pub mod m4_perm1 {
   use ascent::*;
   use ascent::aggregators::*;
   use ascent::lattice::{Dual, set::Set};
   use crate::common::*;
   ascent! {
      pub struct Prog;
      relation r1(i64);
      relation r3(i64, i64, i64);
      relation r0(i64, i64);
      relation r2(i64, i64, i64);
      r3(v0, 0, 0) <-- if let Some(v0) = Some(3), if (v0 <= 6), r1(v0) if (v0 <= 2);
      r2(v0, v1, v2) <-- r0(v0, v1) if ((*v0) < 5), r0(v1, v2) if ((*v2) != (*v1));
      r3(v0, v2, v2) <-- if let Some(v0) = Some(4), r3(v1, v0, v2), r1(((*v1) + 1)), if (v0 <= 6);
      r2(v0, v0, v0) <-- let v0 = 3, r1(3), if (v0 <= 6);
   }
   pub struct Inst { p: Prog, pool: Option<ascent::rayon::ThreadPool> }
   pub fn make(pool: Option<usize>) -> Box<dyn Driver> {
      let pool = pool.map(|n| ascent::rayon::ThreadPoolBuilder::new().num_threads(n).build().unwrap());
      let p = match &pool { Some(pl) => pl.install(|| Default::default()), None => Default::default() };
      Box::new(Inst { p, pool })
   }
   impl Driver for Inst {
      fn load(&mut self, rel: usize, rows: &[Sexp], append: bool) -> Option<()> {
         match rel {
         0 => { let v: Vec<(i64,i64,)> = parse_rows(rows)?; if append { self.p.r0.extend(v) } else { self.p.r0 = v } },
         1 => { let v: Vec<(i64,)> = parse_rows(rows)?; if append { self.p.r1.extend(v) } else { self.p.r1 = v } },
         2 => { let v: Vec<(i64,i64,i64,)> = parse_rows(rows)?; if append { self.p.r2.extend(v) } else { self.p.r2 = v } },
         3 => { let v: Vec<(i64,i64,i64,)> = parse_rows(rows)?; if append { self.p.r3.extend(v) } else { self.p.r3 = v } },
            _ => return None,
         }
         Some(())
      }
      fn run(&mut self) { match &self.pool { Some(pl) => { let p = &mut self.p; pl.install(|| p.run()) }, None => self.p.run() } }
      fn run_here(&mut self) { self.p.run() }
      fn run_timeout(&mut self, k: usize) -> Option<bool> { let _ = k; None }
      fn dump(&self) -> String { vec![dump_rel(0, self.p.r0.iter().map(Row::render).collect()), dump_rel(1, self.p.r1.iter().map(Row::render).collect()), dump_rel(2, self.p.r2.iter().map(Row::render).collect()), dump_rel(3, self.p.r3.iter().map(Row::render).collect())].join(" | ") }
      fn iters(&self) -> String { format!("iters {}", self.p.scc_iters.iter().map(|x| x.to_string()).collect::<Vec<_>>().join(" ")) }
   }
}

#[allow(unused, non_snake_case, clippy::all)]
pub mod m5_i32 {
   use ascent::*;
   use ascent::aggregators::*;
   use ascent::lattice::{Dual, set::Set};
   use crate::common::*;
   ascent! {
      pub struct Prog;
      relation r0(i32, i32);
      relation r1(i32, i32);
      relation r2(i32, i32);
      r2(v0, v1) <-- r2(v0, v1), r2(v1, v1), if ((*v1) != 100014);
      r2(v1, v1) <-- r0(v0, v1), r2(v0, v2);
   }
   pub struct Inst { p: Prog, pool: Option<ascent::rayon::ThreadPool> }
   pub fn make(pool: Option<usize>) -> Box<dyn Driver> {
      let pool = pool.map(|n| ascent::rayon::ThreadPoolBuilder::new().num_threads(n).build().unwrap());
      let p = match &pool { Some(pl) => pl.install(|| Default::default()), None => Default::default() };
      Box::new(Inst { p, pool })
   }
   impl Driver for Inst {
      fn load(&mut self, rel: usize, rows: &[Sexp], append: bool) -> Option<()> {
         match rel {
         0 => { let v: Vec<(i32,i32,)> = parse_rows(rows)?; if append { self.p.r0.extend(v) } else { self.p.r0 = v } },
         1 => { let v: Vec<(i32,i32,)> = parse_rows(rows)?; if append { self.p.r1.extend(v) } else { self.p.r1 = v } },
         2 => { let v: Vec<(i32,i32,)> = parse_rows(rows)?; if append { self.p.r2.extend(v) } else { self.p.r2 = v } },
            _ => return None,
         }
         Some(())
      }
      fn run(&mut self) { match &self.pool { Some(pl) => { let p = &mut self.p; pl.install(|| p.run()) }, None => self.p.run() } }
      fn run_here(&mut self) { self.p.run() }
      fn run_timeout(&mut self, k: usize) -> Option<bool> { let _ = k; None }
      fn dump(&self) -> String { vec![dump_rel(0, self.p.r0.iter().map(Row::render).collect()), dump_rel(1, self.p.r1.iter().map(Row::render).collect()), dump_rel(2, self.p.r2.iter().map(Row::render).collect())].join(" | ") }
      fn iters(&self) -> String { format!("iters {}", self.p.scc_iters.iter().map(|x| x.to_string()).collect::<Vec<_>>().join(" ")) }
   }
}

#[allow(unused, non_snake_case, clippy::all)]
pub mod m6_str {
   use ascent::*;
   use ascent::aggregators::*;
   use ascent::lattice::{Dual, set::Set};
   use crate::common::*;
   ascent! {
      pub struct Prog;
      relation r0(String, String);
      relation r1(String, String);
      relation r2(String, String);
      r2("s1".to_string(), v0) <-- r1(v0, v1);
      r2(v0, v0) <-- r2("s3".to_string(), v0), r2(v0, v1);
      r2(v0, v1) <-- r2(v0, v1), r2(v1, v1);
      r2(v0, v2) <-- r1(v0, v1), r2(v1, v2), r1(v2, v3);
      r2(v0, v1) <-- r0(v0, v1), if (v0.clone() == "s3".to_string());
      r1("s1".to_string(), "s0".to_string());
   }
   pub struct Inst { p: Prog, pool: Option<ascent::rayon::ThreadPool> }
   pub fn make(pool: Option<usize>) -> Box<dyn Driver> {
      let pool = pool.map(|n| ascent::rayon::ThreadPoolBuilder::new().num_threads(n).build().unwrap());
      let p = match &pool { Some(pl) => pl.install(|| Default::default()), None => Default::default() };
      Box::new(Inst { p, pool })
   }
   impl Driver for Inst {
      fn load(&mut self, rel: usize, rows: &[Sexp], append: bool) -> Option<()> {
         match rel {
         0 => { let v: Vec<(String,String,)> = parse_rows(rows)?; if append { self.p.r0.extend(v) } else { self.p.r0 = v } },
         1 => { let v: Vec<(String,String,)> = parse_rows(rows)?; if append { self.p.r1.extend(v) } else { self.p.r1 = v } },
         2 => { let v: Vec<(String,String,)> = parse_rows(rows)?; if append { self.p.r2.extend(v) } else { self.p.r2 = v } },
            _ => return None,
         }
         Some(())
      }
      fn run(&mut self) { match &self.pool { Some(pl) => { let p = &mut self.p; pl.install(|| p.run()) }, None => self.p.run() } }
      fn run_here(&mut self) { self.p.run() }
      fn run_timeout(&mut self, k: usize) -> Option<bool> { let _ = k; None }
      fn dump(&self) -> String { vec![dump_rel(0, self.p.r0.iter().map(Row::render).collect()), dump_rel(1, self.p.r1.iter().map(Row::render).collect()), dump_rel(2, self.p.r2.iter().map(Row::render).collect())].join(" | ") }
      fn iters(&self) -> String { format!("iters {}", self.p.scc_iters.iter().map(|x| x.to_string()).collect::<Vec<_>>().join(" ")) }
   }
}

#[allow(unused, non_snake_case, clippy::all)]
pub mod m8 {
   use ascent::*;
   use ascent::aggregators::*;
   use ascent::lattice::{Dual, set::Set};
   use crate::common::*;
   ascent! {
      pub struct Prog;
      relation r0(i64);
      relation r1(i64, i64);
      relation r2(i64, i64, i64);
      relation r3(i64, i64);
      relation r4(i64);
      r1(v0, v0) <-- r0(v0), if ((*v0) != 0);
      r1(v1, v0) <-- r1(v0, v1), r0(v0);
      r4(v0) <-- r3(v0, v1), r1(v1, v2), if ((*v2) == 0);
      r3(v1, v0) <-- r2(0, v0, v1), if ((*v1) == 2);
   }
   pub struct Inst { p: Prog, pool: Option<ascent::rayon::ThreadPool> }
   pub fn make(pool: Option<usize>) -> Box<dyn Driver> {
      let pool = pool.map(|n| ascent::rayon::ThreadPoolBuilder::new().num_threads(n).build().unwrap());
      let p = match &pool { Some(pl) => pl.install(|| Default::default()), None => Default::default() };
      Box::new(Inst { p, pool })
   }
   impl Driver for Inst {
      fn load(&mut self, rel: usize, rows: &[Sexp], append: bool) -> Option<()> {
         match rel {
         0 => { let v: Vec<(i64,)> = parse_rows(rows)?; if append { self.p.r0.extend(v) } else { self.p.r0 = v } },
         1 => { let v: Vec<(i64,i64,)> = parse_rows(rows)?; if append { self.p.r1.extend(v) } else { self.p.r1 = v } },
         2 => { let v: Vec<(i64,i64,i64,)> = parse_rows(rows)?; if append { self.p.r2.extend(v) } else { self.p.r2 = v } },
         3 => { let v: Vec<(i64,i64,)> = parse_rows(rows)?; if append { self.p.r3.extend(v) } else { self.p.r3 = v } },
         4 => { let v: Vec<(i64,)> = parse_rows(rows)?; if append { self.p.r4.extend(v) } else { self.p.r4 = v } },
            _ => return None,
         }
         Some(())
      }
      fn run(&mut self) { match &self.pool { Some(pl) => { let p = &mut self.p; pl.install(|| p.run()) }, None => self.p.run() } }
      fn run_here(&mut self) { self.p.run() }
      fn run_timeout(&mut self, k: usize) -> Option<bool> { let _ = k; None }
      fn dump(&self) -> String { vec![dump_rel(0, self.p.r0.iter().map(Row::render).collect()), dump_rel(1, self.p.r1.iter().map(Row::render).collect()), dump_rel(2, self.p.r2.iter().map(Row::render).collect()), dump_rel(3, self.p.r3.iter().map(Row::render).collect()), dump_rel(4, self.p.r4.iter().map(Row::render).collect())].join(" | ") }
      fn iters(&self) -> String { format!("iters {}", self.p.scc_iters.iter().map(|x| x.to_string()).collect::<Vec<_>>().join(" ")) }
   }
}

#[allow(unused, non_snake_case, clippy::all)]
pub mod m9_perm0 {
   use ascent::*;
   use ascent::aggregators::*;
   use ascent::lattice::{Dual, set::Set};
   use crate::common::*;
   ascent! {
      pub struct Prog;
      relation r2(i64, i64, i64);
      relation r0(i64, i64);
      relation r1(i64, i64);
      r1(3, 2);
      r2(v2, v1, v5) <-- r1(v0, v1), r2(v4, v1, v5), if ((*v0) != 2), r2(v2, v1, v3);
      r2(v0, v0, v0) <-- r1(v0, 3), if ((*v0) == 1);
      r1(v1, v2) <-- r2(v0, 3, v1), if ((*v0) != 3), r1(1, v2);
      r2(v0, v1, v0) <-- r1(v0, v1), r1(v1, v1);
   }
   pub struct Inst { p: Prog, pool: Option<ascent::rayon::ThreadPool> }
   pub fn make(pool: Option<usize>) -> Box<dyn Driver> {
      let pool = pool.map(|n| ascent::rayon::ThreadPoolBuilder::new().num_threads(n).build().unwrap());
      let p = match &pool { Some(pl) => pl.install(|| Default::default()), None => Default::default() };
      Box::new(Inst { p, pool })
   }
   impl Driver for Inst {
      fn load(&mut self, rel: usize, rows: &[Sexp], append: bool) -> Option<()> {
         match rel {
         0 => { let v: Vec<(i64,i64,)> = parse_rows(rows)?; if append { self.p.r0.extend(v) } else { self.p.r0 = v } },
         1 => { let v: Vec<(i64,i64,)> = parse_rows(rows)?; if append { self.p.r1.extend(v) } else { self.p.r1 = v } },
         2 => { let v: Vec<(i64,i64,i64,)> = parse_rows(rows)?; if append { self.p.r2.extend(v) } else { self.p.r2 = v } },
            _ => return None,
         }
         Some(())
      }
      fn run(&mut self) { match &self.pool { Some(pl) => { let p = &mut self.p; pl.install(|| p.run()) }, None => self.p.run() } }
      fn run_here(&mut self) { self.p.run() }
      fn run_timeout(&mut self, k: usize) -> Option<bool> { let _ = k; None }
      fn dump(&self) -> String { vec![dump_rel(0, self.p.r0.iter().map(Row::render).collect()), dump_rel(1, self.p.r1.iter().map(Row::render).collect()), dump_rel(2, self.p.r2.iter().map(Row::render).collect())].join(" | ") }
      fn iters(&self) -> String { format!("iters {}", self.p.scc_iters.iter().map(|x| x.to_string()).collect::<Vec<_>>().join(" ")) }
   }
}

#[allow(unused, non_snake_case, clippy::all)]
pub mod m10_perm1 {
   use ascent::*;
   use ascent::aggregators::*;
   use ascent::lattice::{Dual, set::Set};
   use crate::common::*;
   ascent! {
      pub struct Prog;
      relation r0(i64, i64);
      relation r1(i64, i64);
      relation r2(i64);
      relation r3(i64, i64, i64);
      r2(v0) <-- r0(v0, 3);
      r3(v3, v3, v1) <-- if let Some(v0) = Some(2), r2(v3), r1(v1, v2);
      r1(((*v1) + 1), v1) <-- for v0 in 2..3, r0(v1, v0) if ((*v1) != 3), if ((*v1) < 6);
      r1(v0, v1) <-- r0(v0, v1), r0(v1, v2), r0(v0, v0);
      r1(v0, v0) <-- r0(v0, 3);
      r2(v0) <-- r0(v0, v1), r0(v1, v1);
   }
   pub struct Inst { p: Prog, pool: Option<ascent::rayon::ThreadPool> }
   pub fn make(pool: Option<usize>) -> Box<dyn Driver> {
      let pool = pool.map(|n| ascent::rayon::ThreadPoolBuilder::new().num_threads(n).build().unwrap());
      let p = match &pool { Some(pl) => pl.install(|| Default::default()), None => Default::default() };
      Box::new(Inst { p, pool })
   }
   impl Driver for Inst {
      fn load(&mut self, rel: usize, rows: &[Sexp], append: bool) -> Option<()> {
         match rel {
         0 => { let v: Vec<(i64,i64,)> = parse_rows(rows)?; if append { self.p.r0.extend(v) } else { self.p.r0 = v } },
         1 => { let v: Vec<(i64,i64,)> = parse_rows(rows)?; if append { self.p.r1.extend(v) } else { self.p.r1 = v } },
         2 => { let v: Vec<(i64,)> = parse_rows(rows)?; if append { self.p.r2.extend(v) } else { self.p.r2 = v } },
         3 => { let v: Vec<(i64,i64,i64,)> = parse_rows(rows)?; if append { self.p.r3.extend(v) } else { self.p.r3 = v } },
            _ => return None,
         }
         Some(())
      }
      fn run(&mut self) { match &self.pool { Some(pl) => { let p = &mut self.p; pl.install(|| p.run()) }, None => self.p.run() } }
      fn run_here(&mut self) { self.p.run() }
      fn run_timeout(&mut self, k: usize) -> Option<bool> { let _ = k; None }
      fn dump(&self) -> String { vec![dump_rel(0, self.p.r0.iter().map(Row::render).collect()), dump_rel(1, self.p.r1.iter().map(Row::render).collect()), dump_rel(2, self.p.r2.iter().map(Row::render).collect()), dump_rel(3, self.p.r3.iter().map(Row::render).collect())].join(" | ") }
      fn iters(&self) -> String { format!("iters {}", self.p.scc_iters.iter().map(|x| x.to_string()).collect::<Vec<_>>().join(" ")) }
   }
}

#[allow(unused, non_snake_case, clippy::all)]
pub mod m12 {
   use ascent::*;
   use ascent::aggregators::*;
   use ascent::lattice::{Dual, set::Set};
   use crate::common::*;
   ascent! {
      pub struct Prog;
      relation r0(i64, i64, i64);
      relation r1(i64, i64, i64);
      relation r2(i64);
      relation r3(i64);
      relation r4(i64, i64, i64);
      relation r5(i64, i64);
      r3(v2) <-- r1(v0, v1, v2) if ((*v0) != 5) let v3 = ((*v2) + 0);
      r3(((*v0) + 1)) <-- r3(1), r0(v0, v1, v2), if ((*v0) < 6);
      r4(v0, v1, v2) <-- r5(v0, v1), r5(v0, v0), r5(v1, v2);
      r5(((*v0) + 1), v0) <-- r4(1, 2, v0) if ((*v0) < 2), if ((*v0) < 6);
   }
   pub struct Inst { p: Prog, pool: Option<ascent::rayon::ThreadPool> }
   pub fn make(pool: Option<usize>) -> Box<dyn Driver> {
      let pool = pool.map(|n| ascent::rayon::ThreadPoolBuilder::new().num_threads(n).build().unwrap());
      let p = match &pool { Some(pl) => pl.install(|| Default::default()), None => Default::default() };
      Box::new(Inst { p, pool })
   }
   impl Driver for Inst {
      fn load(&mut self, rel: usize, rows: &[Sexp], append: bool) -> Option<()> {
         match rel {
         0 => { let v: Vec<(i64,i64,i64,)> = parse_rows(rows)?; if append { self.p.r0.extend(v) } else { self.p.r0 = v } },
         1 => { let v: Vec<(i64,i64,i64,)> = parse_rows(rows)?; if append { self.p.r1.extend(v) } else { self.p.r1 = v } },
         2 => { let v: Vec<(i64,)> = parse_rows(rows)?; if append { self.p.r2.extend(v) } else { self.p.r2 = v } },
         3 => { let v: Vec<(i64,)> = parse_rows(rows)?; if append { self.p.r3.extend(v) } else { self.p.r3 = v } },
         4 => { let v: Vec<(i64,i64,i64,)> = parse_rows(rows)?; if append { self.p.r4.extend(v) } else { self.p.r4 = v } },
         5 => { let v: Vec<(i64,i64,)> = parse_rows(rows)?; if append { self.p.r5.extend(v) } else { self.p.r5 = v } },
            _ => return None,
         }
         Some(())
      }
      fn run(&mut self) { match &self.pool { Some(pl) => { let p = &mut self.p; pl.install(|| p.run()) }, None => self.p.run() } }
      fn run_here(&mut self) { self.p.run() }
      fn run_timeout(&mut self, k: usize) -> Option<bool> { let _ = k; None }
      fn dump(&self) -> String { vec![dump_rel(0, self.p.r0.iter().map(Row::render).collect()), dump_rel(1, self.p.r1.iter().map(Row::render).collect()), dump_rel(2, self.p.r2.iter().map(Row::render).collect()), dump_rel(3, self.p.r3.iter().map(Row::render).collect()), dump_rel(4, self.p.r4.iter().map(Row::render).collect()), dump_rel(5, self.p.r5.iter().map(Row::render).collect())].join(" | ") }
      fn iters(&self) -> String { format!("iters {}", self.p.scc_iters.iter().map(|x| x.to_string()).collect::<Vec<_>>().join(" ")) }
   }
}

fn main() {
   common::main_loop(&[("m1_perm0", m1_perm0::make as common::Factory), ("m2_ren1", m2_ren1::make as common::Factory), ("m4_perm1", m4_perm1::make as common::Factory), ("m5_i32", m5_i32::make as common::Factory), ("m6_str", m6_str::make as common::Factory), ("m8", m8::make as common::Factory), ("m9_perm0", m9_perm0::make as common::Factory), ("m10_perm1", m10_perm1::make as common::Factory), ("m12", m12::make as common::Factory)]);
}
