#[path = "common.rs"]
mod common;
#[allow(unused, non_snake_case, clippy::all)]
pub mod w2 {
   use ascent::*;
   use ascent::aggregators::*;
   use ascent::lattice::{Dual, set::Set};
   use crate::common::*;
   ascent_par! {
      pub struct Prog;
      relation r0(i64);
      relation r1(i64, i64);
      relation r2(i64, i64, i64);
      relation r3(i64, i64);
      relation r4(i64);
      relation r5(i64, i64);
      r2(3, 0, 0) <-- r0(2);
      r2(v0, v1, ((*v0) + 1)) <-- r2(0, 3, v0) if ((*v0) != 1), r0(v1) if ((*v0) != 1), if ((*v0) < 6);
      r3(v0, v1) <-- let v9 = 0, r5(v0, v1), r3(v1, v9);
      r1(v0, v2) <-- r5(v0, v1), r1(v1, v2), r5(v2, v3);
      r1(2, 0);
      r2(v3, v4, ((*v0) + 1)) <-- r0(v0), for v1 in 2..1, r3(v2, ((*v0) + 1)), r5(v3, v4) if ((*v3) != 1), if ((*v0) < 6);
      r2(v0, 1, 3) <-- if let Some(v0) = Some(1), r1(v1, v2), let v3 = (*v2), if (v0 <= 6);
   }
   pub struct Inst { p: Prog, pool: Option<ascent::rayon::ThreadPool> }
   pub fn make(pool: Option<usize>) -> Box<dyn Driver> {
      let pool = pool.map(|n| ascent::rayon::ThreadPoolBuilder::new().num_threads(n).build().unwrap());
      let p = match &pool { Some(pl) => pl.install(|| Default::default()), None => Default::default() };
      Box::new(Inst { p, pool })
   }
   impl Driver for Inst {
      fn load(&mut self, rel: usize, rows: &[Sexp], append: bool) -> Option<()> {
         match rel {
         0 => { let v: Vec<(i64,)> = parse_rows(rows)?; if !append { self.p.r0 = Default::default(); } for x in v { self.p.r0.push(x); } },
         1 => { let v: Vec<(i64,i64,)> = parse_rows(rows)?; if !append { self.p.r1 = Default::default(); } for x in v { self.p.r1.push(x); } },
         2 => { let v: Vec<(i64,i64,i64,)> = parse_rows(rows)?; if !append { self.p.r2 = Default::default(); } for x in v { self.p.r2.push(x); } },
         3 => { let v: Vec<(i64,i64,)> = parse_rows(rows)?; if !append { self.p.r3 = Default::default(); } for x in v { self.p.r3.push(x); } },
         4 => { let v: Vec<(i64,)> = parse_rows(rows)?; if !append { self.p.r4 = Default::default(); } for x in v { self.p.r4.push(x); } },
         5 => { let v: Vec<(i64,i64,)> = parse_rows(rows)?; if !append { self.p.r5 = Default::default(); } for x in v { self.p.r5.push(x); } },
            _ => return None,
         }
         Some(())
      }
      fn run(&mut self) { match &self.pool { Some(pl) => { let p = &mut self.p; pl.install(|| p.run()) }, None => self.p.run() } }
      fn run_here(&mut self) { self.p.run() }
      fn run_timeout(&mut self, k: usize) -> Option<bool> { let _ = k; None }
      fn dump(&self) -> String { vec![dump_rel(0, self.p.r0.iter().map(|x| x.render()).collect()), dump_rel(1, self.p.r1.iter().map(|x| x.render()).collect()), dump_rel(2, self.p.r2.iter().map(|x| x.render()).collect()), dump_rel(3, self.p.r3.iter().map(|x| x.render()).collect()), dump_rel(4, self.p.r4.iter().map(|x| x.render()).collect()), dump_rel(5, self.p.r5.iter().map(|x| x.render()).collect())].join(" | ") }
      fn iters(&self) -> String { format!("iters {}", self.p.scc_iters.iter().map(|x| x.to_string()).collect::<Vec<_>>().join(" ")) }
   }
}

#[allow(unused, non_snake_case, clippy::all)]
pub mod w10 {
   use ascent::*;
   use ascent::aggregators::*;
   use ascent::lattice::{Dual, set::Set};
   use crate::common::*;
   ascent_par! {
      pub struct Prog;
      relation r0(i64, i64);
      relation r1(i64, i64, i64);
      lattice r2(i64, Option<i64>);
      lattice r3(i64);
      r2(v0, Some((*v0))) <-- r1(v0, 2, v0);
      r2(v0, v1) <-- r2(v0, v1), r0(v2, v3);
      r3((*v0)) <-- r0(0, v0);
      r3(std::cmp::min(((*v1) + 0), 6)) <-- r3(v0), r3(v1);
      r0(v0, v0) <-- r0(v0, v0), r2(v0, v1) if ((*v0) < 3);
      r2(1, Some(0)) <-- r3(v0), r3(v1);
      r3((*v0)) <-- r2(v0, v1);
   }
   pub struct Inst { p: Prog, pool: Option<ascent::rayon::ThreadPool> }
   pub fn make(pool: Option<usize>) -> Box<dyn Driver> {
      let pool = pool.map(|n| ascent::rayon::ThreadPoolBuilder::new().num_threads(n).build().unwrap());
      let p = match &pool { Some(pl) => pl.install(|| Default::default()), None => Default::default() };
      Box::new(Inst { p, pool })
   }
   impl Driver for Inst {
      fn load(&mut self, rel: usize, rows: &[Sexp], append: bool) -> Option<()> {
         match rel {
         0 => { let v: Vec<(i64,i64,)> = parse_rows(rows)?; if !append { self.p.r0 = Default::default(); } for x in v { self.p.r0.push(x); } },
         1 => { let v: Vec<(i64,i64,i64,)> = parse_rows(rows)?; if !append { self.p.r1 = Default::default(); } for x in v { self.p.r1.push(x); } },
         2 => { let v: Vec<(i64,Option<i64>,)> = parse_rows(rows)?; if !append { self.p.r2 = Default::default(); } for x in v { self.p.r2.push(std::sync::RwLock::new(x)); } },
         3 => { let v: Vec<(i64,)> = parse_rows(rows)?; if !append { self.p.r3 = Default::default(); } for x in v { self.p.r3.push(std::sync::RwLock::new(x)); } },
            _ => return None,
         }
         Some(())
      }
      fn run(&mut self) { match &self.pool { Some(pl) => { let p = &mut self.p; pl.install(|| p.run()) }, None => self.p.run() } }
      fn run_here(&mut self) { self.p.run() }
      fn run_timeout(&mut self, k: usize) -> Option<bool> { let _ = k; None }
      fn dump(&self) -> String { vec![dump_rel(0, self.p.r0.iter().map(|x| x.render()).collect()), dump_rel(1, self.p.r1.iter().map(|x| x.render()).collect()), dump_rel(2, self.p.r2.iter().map(|x| x.read().unwrap().render()).collect()), dump_rel(3, self.p.r3.iter().map(|x| x.read().unwrap().render()).collect())].join(" | ") }
      fn iters(&self) -> String { format!("iters {}", self.p.scc_iters.iter().map(|x| x.to_string()).collect::<Vec<_>>().join(" ")) }
   }
}

#[allow(unused, non_snake_case, clippy::all)]
pub mod w18 {
   use ascent::*;
   use ascent::aggregators::*;
   use ascent::lattice::{Dual, set::Set};
   use crate::common::*;
   ascent_par! {
      pub struct Prog;
      relation r0(i64, i64);
      relation r1(i64, i64, i64);
      lattice r2(i64, i64, Dual<i64>);
      lattice r3(i64, Set<i64>);
      r2(v0, v0, Dual((*v0))) <-- r0(v0, v0);
      r2(v2, v3, Dual(((v1.0) + 3))) <-- r2(v0, 3, v1), r0(v2, v3);
      r2(v0, v0, v2) <-- r2(v0, v0, v1), r2(v0, v0, v2);
      r3(v0, Set::singleton((*v1))) <-- r0(v0, v1);
      r3(v1, v2) <-- r3(v0, v2), r0(v0, v1);
      r3(v0, Set::singleton((*v0))) <-- r0(v0, v0);
      r3(v1, v0) <-- r3(0, v0), r0(v1, v1) if ((*v1) < 4);
      r3(((*v2) + 1), Set::singleton(3)) <-- r3(v0, v1), r3(v2, v3), if ((*v2) < 6);
      r1(0, v0, v0) <-- r2(v0, 3, v1), r3(v0, v2);
      r2(v0, v1, Dual((*v1))) <-- r1(v0, v0, v1);
      r2(v0, v1, Dual((*v1))) <-- r2(v0, v1, v2);
      r3(v0, Set::singleton((*v0))) <-- r2(v0, v1, v2) if ((*v0) < 5);
   }
   pub struct Inst { p: Prog, pool: Option<ascent::rayon::ThreadPool> }
   pub fn make(pool: Option<usize>) -> Box<dyn Driver> {
      let pool = pool.map(|n| ascent::rayon::ThreadPoolBuilder::new().num_threads(n).build().unwrap());
      let p = match &pool { Some(pl) => pl.install(|| Default::default()), None => Default::default() };
      Box::new(Inst { p, pool })
   }
   impl Driver for Inst {
      fn load(&mut self, rel: usize, rows: &[Sexp], append: bool) -> Option<()> {
         match rel {
         0 => { let v: Vec<(i64,i64,)> = parse_rows(rows)?; if !append { self.p.r0 = Default::default(); } for x in v { self.p.r0.push(x); } },
         1 => { let v: Vec<(i64,i64,i64,)> = parse_rows(rows)?; if !append { self.p.r1 = Default::default(); } for x in v { self.p.r1.push(x); } },
         2 => { let v: Vec<(i64,i64,Dual<i64>,)> = parse_rows(rows)?; if !append { self.p.r2 = Default::default(); } for x in v { self.p.r2.push(std::sync::RwLock::new(x)); } },
         3 => { let v: Vec<(i64,Set<i64>,)> = parse_rows(rows)?; if !append { self.p.r3 = Default::default(); } for x in v { self.p.r3.push(std::sync::RwLock::new(x)); } },
            _ => return None,
         }
         Some(())
      }
      fn run(&mut self) { match &self.pool { Some(pl) => { let p = &mut self.p; pl.install(|| p.run()) }, None => self.p.run() } }
      fn run_here(&mut self) { self.p.run() }
      fn run_timeout(&mut self, k: usize) -> Option<bool> { let _ = k; None }
      fn dump(&self) -> String { vec![dump_rel(0, self.p.r0.iter().map(|x| x.render()).collect()), dump_rel(1, self.p.r1.iter().map(|x| x.render()).collect()), dump_rel(2, self.p.r2.iter().map(|x| x.read().unwrap().render()).collect()), dump_rel(3, self.p.r3.iter().map(|x| x.read().unwrap().render()).collect())].join(" | ") }
      fn iters(&self) -> String { format!("iters {}", self.p.scc_iters.iter().map(|x| x.to_string()).collect::<Vec<_>>().join(" ")) }
   }
}

fn main() {
   common::main_loop(&[("w2", w2::make as common::Factory), ("w10", w10::make as common::Factory), ("w18", w18::make as common::Factory)]);
}
