#[path = "common.rs"]
mod common;
#[allow(unused, non_snake_case, clippy::all)]
pub mod g2s {
   use ascent::*;
   use ascent::aggregators::*;
   use ascent::lattice::{Dual, set::Set};
   use crate::common::*;
   ascent! {
      pub struct Prog;
      relation r0(i64, i64);
      relation r1(i64, Option<i64>);
      relation r2(i64);
      relation r3(i64, i64, i64);
      relation r4(i64);
      relation r5(i64, i64);
      relation r6(i64, i64, i64);
      r4(2) <-- r3(0, 0, v0), (r1(v1, _) if (v1.clone() != v1.clone()), r3(2, 1, v2) | r2(v3), (r1(v4, ?Some(v5)) | r0(v5, v4), !r0(v3.clone(), _) | r0(v4, v5), r0(v6, (v5.clone() + v4.clone())) if (v4.clone() <= v5.clone())) | r0(v7, v7)), r2(1);
      r5((v0.clone() + 1), 0) <-- r0(v0, (v0.clone() + 1)), r4(v0), r3(v0, _, 1), if (v0.clone() < 5);
      r6(v0, v0, v1) <-- r6(v0, v0, v1) if (v0.clone() < v1.clone()), (r3(v0, v0, v2), ((r5(v4, v3) if (v4.clone() == 4)) | r6(v4, v3, v5) | r3(v3, v4, v2) if (v3.clone() != 5) let v6 = std::cmp::min((v4.clone() + 1), 6)) | let v7 = std::cmp::min(std::cmp::min(v0.clone(), 1), 6), (!r0(std::cmp::max(v1.clone(), 0), _) | r6(2, v0, v8) | r6((v0.clone() + v1.clone()), v9, v10))), r1((v0.clone() + 2), ?Some(v11));
      r6(v0, 1, v0), r4(v0) <-- r3(3, v0, v0);
      r5(v0, 3) <-- r1(v0, None::<i64>) if (v0.clone() == 2), !r3(0, _, std::cmp::min(v0.clone(), 3)), r2(std::cmp::max(v0.clone(), 3)) if (v0.clone() <= 5);
      r5(v0, v1) <-- !r0(3, 2), r1(v0, ?Some(v1));
      r6((v1.clone() + 1), (v1.clone() + 1), v1) <-- r0(v0, v1), if (v1.clone() < 5), if (v1.clone() < 5);
      r6(3, 3, 0), r6(1, 0, 3);
   }
   pub struct Inst { p: Prog, pool: Option<ascent::rayon::ThreadPool> }
   pub fn make(pool: Option<usize>) -> Box<dyn Driver> {
      let pool = pool.map(|n| ascent::rayon::ThreadPoolBuilder::new().num_threads(n).build().unwrap());
      let p = match &pool { Some(pl) => pl.install(|| Default::default()), None => Default::default() };
      Box::new(Inst { p, pool })
   }
   impl Driver for Inst {
      fn load(&mut self, rel: usize, rows: &[Sexp], append: bool) -> Option<()> {
         match rel {
         0 => { let v: Vec<(i64,i64,)> = parse_rows(rows)?; if append { self.p.r0.extend(v) } else { self.p.r0 = v } },
         1 => { let v: Vec<(i64,Option<i64>,)> = parse_rows(rows)?; if append { self.p.r1.extend(v) } else { self.p.r1 = v } },
         2 => { let v: Vec<(i64,)> = parse_rows(rows)?; if append { self.p.r2.extend(v) } else { self.p.r2 = v } },
         3 => { let v: Vec<(i64,i64,i64,)> = parse_rows(rows)?; if append { self.p.r3.extend(v) } else { self.p.r3 = v } },
         4 => { let v: Vec<(i64,)> = parse_rows(rows)?; if append { self.p.r4.extend(v) } else { self.p.r4 = v } },
         5 => { let v: Vec<(i64,i64,)> = parse_rows(rows)?; if append { self.p.r5.extend(v) } else { self.p.r5 = v } },
         6 => { let v: Vec<(i64,i64,i64,)> = parse_rows(rows)?; if append { self.p.r6.extend(v) } else { self.p.r6 = v } },
            _ => return None,
         }
         Some(())
      }
      fn run(&mut self) { match &self.pool { Some(pl) => { let p = &mut self.p; pl.install(|| p.run()) }, None => self.p.run() } }
      fn run_here(&mut self) { self.p.run() }
      fn run_timeout(&mut self, k: usize) -> Option<bool> { let _ = k; None }
      fn dump(&self) -> String { vec![dump_rel(0, self.p.r0.iter().map(Row::render).collect()), dump_rel(1, self.p.r1.iter().map(Row::render).collect()), dump_rel(2, self.p.r2.iter().map(Row::render).collect()), dump_rel(3, self.p.r3.iter().map(Row::render).collect()), dump_rel(4, self.p.r4.iter().map(Row::render).collect()), dump_rel(5, self.p.r5.iter().map(Row::render).collect()), dump_rel(6, self.p.r6.iter().map(Row::render).collect())].join(" | ") }
      fn iters(&self) -> String { format!("iters {}", self.p.scc_iters.iter().map(|x| x.to_string()).collect::<Vec<_>>().join(" ")) }
   }
}

#[allow(unused, non_snake_case, clippy::all)]
pub mod g6s {
   use ascent::*;
   use ascent::aggregators::*;
   use ascent::lattice::{Dual, set::Set};
   use crate::common::*;
   ascent! {
      pub struct Prog;
      relation r0(i64, i64);
      relation r1(i64, Option<i64>);
      relation r2(i64);
      relation r3(i64, i64, i64);
      relation r4(i64, Option<i64>);
      relation r5(i64, i64, i64);
      relation r6(i64, i64);
      relation r7(i64, i64);
      r4(v0, Some(v6.clone())) <-- ((r1(v0, ?Some(v1)) | r3(_, v1, v0) | r0(v1, v0), r3(v2, v2, std::cmp::min(v2.clone(), 3))) | r1(v0, v3), (r1(v0, v4) | !r1(_, v3.clone())) | r1(v0, ?Some(v5))), r3(v0, v6, 1), r2(v6) if (v0.clone() < 5);
      r5(3, v0, v3) <-- r5(v0, v1, v2) if (v0.clone() <= v2.clone()), r5(v1, 3, v3) if (v3.clone() <= v2.clone()), r7(v3, v4);
      r6(v0, v0) <-- if let Some(v0) = Some(3);
      r7(v0, v1) <-- r7(v0, v1), r6(v2, v1), r0(_, v2);
      r6(0, (v0.clone() + 1)) <-- r5(v0, v0, v1), r7(3, v0), if (v0.clone() < 5);
      r7(v2, (v1.clone() + 1)) <-- r2(v0), (r5(v1, v2, v2) if (v0.clone() == v2.clone()) let v3 = std::cmp::min(std::cmp::min(v0.clone(), 3), 6), r0(1, v4) | r3(v2, v1, v2), if let Some(v5) = Some(v0.clone())), r7(v6, 1), if (v1.clone() < 5);
      r7(v3, v0) <-- (r2(v0), r7(_, v1) | r3(0, v2, v0)), r4(v3, Some((v0.clone() + 0)));
      r4(2, Some(3)), r7(2, 1);
   }
   pub struct Inst { p: Prog, pool: Option<ascent::rayon::ThreadPool> }
   pub fn make(pool: Option<usize>) -> Box<dyn Driver> {
      let pool = pool.map(|n| ascent::rayon::ThreadPoolBuilder::new().num_threads(n).build().unwrap());
      let p = match &pool { Some(pl) => pl.install(|| Default::default()), None => Default::default() };
      Box::new(Inst { p, pool })
   }
   impl Driver for Inst {
      fn load(&mut self, rel: usize, rows: &[Sexp], append: bool) -> Option<()> {
         match rel {
         0 => { let v: Vec<(i64,i64,)> = parse_rows(rows)?; if append { self.p.r0.extend(v) } else { self.p.r0 = v } },
         1 => { let v: Vec<(i64,Option<i64>,)> = parse_rows(rows)?; if append { self.p.r1.extend(v) } else { self.p.r1 = v } },
         2 => { let v: Vec<(i64,)> = parse_rows(rows)?; if append { self.p.r2.extend(v) } else { self.p.r2 = v } },
         3 => { let v: Vec<(i64,i64,i64,)> = parse_rows(rows)?; if append { self.p.r3.extend(v) } else { self.p.r3 = v } },
         4 => { let v: Vec<(i64,Option<i64>,)> = parse_rows(rows)?; if append { self.p.r4.extend(v) } else { self.p.r4 = v } },
         5 => { let v: Vec<(i64,i64,i64,)> = parse_rows(rows)?; if append { self.p.r5.extend(v) } else { self.p.r5 = v } },
         6 => { let v: Vec<(i64,i64,)> = parse_rows(rows)?; if append { self.p.r6.extend(v) } else { self.p.r6 = v } },
         7 => { let v: Vec<(i64,i64,)> = parse_rows(rows)?; if append { self.p.r7.extend(v) } else { self.p.r7 = v } },
            _ => return None,
         }
         Some(())
      }
      fn run(&mut self) { match &self.pool { Some(pl) => { let p = &mut self.p; pl.install(|| p.run()) }, None => self.p.run() } }
      fn run_here(&mut self) { self.p.run() }
      fn run_timeout(&mut self, k: usize) -> Option<bool> { let _ = k; None }
      fn dump(&self) -> String { vec![dump_rel(0, self.p.r0.iter().map(Row::render).collect()), dump_rel(1, self.p.r1.iter().map(Row::render).collect()), dump_rel(2, self.p.r2.iter().map(Row::render).collect()), dump_rel(3, self.p.r3.iter().map(Row::render).collect()), dump_rel(4, self.p.r4.iter().map(Row::render).collect()), dump_rel(5, self.p.r5.iter().map(Row::render).collect()), dump_rel(6, self.p.r6.iter().map(Row::render).collect()), dump_rel(7, self.p.r7.iter().map(Row::render).collect())].join(" | ") }
      fn iters(&self) -> String { format!("iters {}", self.p.scc_iters.iter().map(|x| x.to_string()).collect::<Vec<_>>().join(" ")) }
   }
}

#[allow(unused, non_snake_case, clippy::all)]
pub mod g10s {
   use ascent::*;
   use ascent::aggregators::*;
   use ascent::lattice::{Dual, set::Set};
   use crate::common::*;
   ascent! {
      pub struct Prog;
      relation r0(i64, i64);
      relation r1(i64, Option<i64>);
      relation r2(i64);
      relation r3(i64, i64, i64);
      relation r4(i64, i64);
      relation r5(i64);
      relation r6(i64, i64);
      relation r7(i64);
      r5(v1) <-- r2(v0), r4(v0, (v0.clone() + 1)) if (v0.clone() < 1) let v1 = std::cmp::min((v0.clone() + 2), 6);
      r6(v0, 2) <-- r2(v0), r5(3);
      r7(v0) <-- (r6(v1, v0) | (r3(v1, v0, v2), !r5(v1.clone()) | r3(v1, v0, v2) if (v1.clone() < 3) let v3 = std::cmp::min(std::cmp::max(v1.clone(), 0), 6), r5(v1) if (v2.clone() <= 3) let v4 = std::cmp::min(std::cmp::max(v1.clone(), 0), 6)));
      r7(v0) <-- r1(1, ?Some(v0)), (r3(v0, v1, std::cmp::max(v0.clone(), 0)), r7(v2) | r3(v0, v1, v3) | (r1(v1, v4), r0(v5, v6) | r1(v1, v4) if (v0.clone() <= 5)), r6(v7, _));
      r7(v0) <-- !r3(_, 0, 3), r3(_, 0, v0);
      r7(0);
   }
   pub struct Inst { p: Prog, pool: Option<ascent::rayon::ThreadPool> }
   pub fn make(pool: Option<usize>) -> Box<dyn Driver> {
      let pool = pool.map(|n| ascent::rayon::ThreadPoolBuilder::new().num_threads(n).build().unwrap());
      let p = match &pool { Some(pl) => pl.install(|| Default::default()), None => Default::default() };
      Box::new(Inst { p, pool })
   }
   impl Driver for Inst {
      fn load(&mut self, rel: usize, rows: &[Sexp], append: bool) -> Option<()> {
         match rel {
         0 => { let v: Vec<(i64,i64,)> = parse_rows(rows)?; if append { self.p.r0.extend(v) } else { self.p.r0 = v } },
         1 => { let v: Vec<(i64,Option<i64>,)> = parse_rows(rows)?; if append { self.p.r1.extend(v) } else { self.p.r1 = v } },
         2 => { let v: Vec<(i64,)> = parse_rows(rows)?; if append { self.p.r2.extend(v) } else { self.p.r2 = v } },
         3 => { let v: Vec<(i64,i64,i64,)> = parse_rows(rows)?; if append { self.p.r3.extend(v) } else { self.p.r3 = v } },
         4 => { let v: Vec<(i64,i64,)> = parse_rows(rows)?; if append { self.p.r4.extend(v) } else { self.p.r4 = v } },
         5 => { let v: Vec<(i64,)> = parse_rows(rows)?; if append { self.p.r5.extend(v) } else { self.p.r5 = v } },
         6 => { let v: Vec<(i64,i64,)> = parse_rows(rows)?; if append { self.p.r6.extend(v) } else { self.p.r6 = v } },
         7 => { let v: Vec<(i64,)> = parse_rows(rows)?; if append { self.p.r7.extend(v) } else { self.p.r7 = v } },
            _ => return None,
         }
         Some(())
      }
      fn run(&mut self) { match &self.pool { Some(pl) => { let p = &mut self.p; pl.install(|| p.run()) }, None => self.p.run() } }
      fn run_here(&mut self) { self.p.run() }
      fn run_timeout(&mut self, k: usize) -> Option<bool> { let _ = k; None }
      fn dump(&self) -> String { vec![dump_rel(0, self.p.r0.iter().map(Row::render).collect()), dump_rel(1, self.p.r1.iter().map(Row::render).collect()), dump_rel(2, self.p.r2.iter().map(Row::render).collect()), dump_rel(3, self.p.r3.iter().map(Row::render).collect()), dump_rel(4, self.p.r4.iter().map(Row::render).collect()), dump_rel(5, self.p.r5.iter().map(Row::render).collect()), dump_rel(6, self.p.r6.iter().map(Row::render).collect()), dump_rel(7, self.p.r7.iter().map(Row::render).collect())].join(" | ") }
      fn iters(&self) -> String { format!("iters {}", self.p.scc_iters.iter().map(|x| x.to_string()).collect::<Vec<_>>().join(" ")) }
   }
}

#[allow(unused, non_snake_case, clippy::all)]
pub mod n0s {
   use ascent::*;
   use ascent::aggregators::*;
   use ascent::lattice::{Dual, set::Set};
   use crate::common::*;
   ascent! {
      pub struct Prog;
      relation r0(i64, i64);
      relation r1(i64);
      lattice r2(i64, i64);
      relation r3(i64);
      relation r4(i64);
      relation r5(i64, i64);
      r2(v0, v1) <-- r0(v0, v1);
      r3(v0) <-- r0(v0, _), r2(v0, 5);
      r4(v0) <-- r0(v0, v1), r2(v0, v1);
   }
   pub struct Inst { p: Prog, pool: Option<ascent::rayon::ThreadPool> }
   pub fn make(pool: Option<usize>) -> Box<dyn Driver> {
      let pool = pool.map(|n| ascent::rayon::ThreadPoolBuilder::new().num_threads(n).build().unwrap());
      let p = match &pool { Some(pl) => pl.install(|| Default::default()), None => Default::default() };
      Box::new(Inst { p, pool })
   }
   impl Driver for Inst {
      fn load(&mut self, rel: usize, rows: &[Sexp], append: bool) -> Option<()> {
         match rel {
         0 => { let v: Vec<(i64,i64,)> = parse_rows(rows)?; if append { self.p.r0.extend(v) } else { self.p.r0 = v } },
         1 => { let v: Vec<(i64,)> = parse_rows(rows)?; if append { self.p.r1.extend(v) } else { self.p.r1 = v } },
         2 => { let v: Vec<(i64,i64,)> = parse_rows(rows)?; if append { self.p.r2.extend(v) } else { self.p.r2 = v } },
         3 => { let v: Vec<(i64,)> = parse_rows(rows)?; if append { self.p.r3.extend(v) } else { self.p.r3 = v } },
         4 => { let v: Vec<(i64,)> = parse_rows(rows)?; if append { self.p.r4.extend(v) } else { self.p.r4 = v } },
         5 => { let v: Vec<(i64,i64,)> = parse_rows(rows)?; if append { self.p.r5.extend(v) } else { self.p.r5 = v } },
            _ => return None,
         }
         Some(())
      }
      fn run(&mut self) { match &self.pool { Some(pl) => { let p = &mut self.p; pl.install(|| p.run()) }, None => self.p.run() } }
      fn run_here(&mut self) { self.p.run() }
      fn run_timeout(&mut self, k: usize) -> Option<bool> { let _ = k; None }
      fn dump(&self) -> String { vec![dump_rel(0, self.p.r0.iter().map(Row::render).collect()), dump_rel(1, self.p.r1.iter().map(Row::render).collect()), dump_rel(2, self.p.r2.iter().map(Row::render).collect()), dump_rel(3, self.p.r3.iter().map(Row::render).collect()), dump_rel(4, self.p.r4.iter().map(Row::render).collect()), dump_rel(5, self.p.r5.iter().map(Row::render).collect())].join(" | ") }
      fn iters(&self) -> String { format!("iters {}", self.p.scc_iters.iter().map(|x| x.to_string()).collect::<Vec<_>>().join(" ")) }
   }
}

#[allow(unused, non_snake_case, clippy::all)]
pub mod c0s {
   use ascent::*;
   use ascent::aggregators::*;
   use ascent::lattice::{Dual, set::Set};
   use crate::common::*;
   ascent! {
      pub struct Prog;
      relation r0(i64, i64);
      relation r1(i64);
      relation r2(i64, i64);
      relation r3(i64, i64);
      r2(w0, w0_) <-- r0(w0, w0), r1(w0_);
      r3(w0, v1) <-- r2(w0, v1), r0(v1, _);
   }
   pub struct Inst { p: Prog, pool: Option<ascent::rayon::ThreadPool> }
   pub fn make(pool: Option<usize>) -> Box<dyn Driver> {
      let pool = pool.map(|n| ascent::rayon::ThreadPoolBuilder::new().num_threads(n).build().unwrap());
      let p = match &pool { Some(pl) => pl.install(|| Default::default()), None => Default::default() };
      Box::new(Inst { p, pool })
   }
   impl Driver for Inst {
      fn load(&mut self, rel: usize, rows: &[Sexp], append: bool) -> Option<()> {
         match rel {
         0 => { let v: Vec<(i64,i64,)> = parse_rows(rows)?; if append { self.p.r0.extend(v) } else { self.p.r0 = v } },
         1 => { let v: Vec<(i64,)> = parse_rows(rows)?; if append { self.p.r1.extend(v) } else { self.p.r1 = v } },
         2 => { let v: Vec<(i64,i64,)> = parse_rows(rows)?; if append { self.p.r2.extend(v) } else { self.p.r2 = v } },
         3 => { let v: Vec<(i64,i64,)> = parse_rows(rows)?; if append { self.p.r3.extend(v) } else { self.p.r3 = v } },
            _ => return None,
         }
         Some(())
      }
      fn run(&mut self) { match &self.pool { Some(pl) => { let p = &mut self.p; pl.install(|| p.run()) }, None => self.p.run() } }
      fn run_here(&mut self) { self.p.run() }
      fn run_timeout(&mut self, k: usize) -> Option<bool> { let _ = k; None }
      fn dump(&self) -> String { vec![dump_rel(0, self.p.r0.iter().map(Row::render).collect()), dump_rel(1, self.p.r1.iter().map(Row::render).collect()), dump_rel(2, self.p.r2.iter().map(Row::render).collect()), dump_rel(3, self.p.r3.iter().map(Row::render).collect())].join(" | ") }
      fn iters(&self) -> String { format!("iters {}", self.p.scc_iters.iter().map(|x| x.to_string()).collect::<Vec<_>>().join(" ")) }
   }
}

fn main() {
   common::main_loop(&[("g2s", g2s::make as common::Factory), ("g6s", g6s::make as common::Factory), ("g10s", g10s::make as common::Factory), ("n0s", n0s::make as common::Factory), ("c0s", c0s::make as common::Factory)]);
}
