#[path = "common.rs"]
mod common;
#[allow(unused, non_snake_case, clippy::all)]
pub mod h0x {
   use ascent::*;
   use ascent::aggregators::*;
   use ascent::lattice::{Dual, set::Set};
   use crate::common::*;
   ascent! {
      pub struct Prog;
      relation r0(i64, i64);
      relation r1(i64, Option<i64>);
      relation r2(i64);
      relation r3(i64, i64, i64);
      relation r4(i64, Option<i64>);
      relation r5(i64, i64, i64);
      relation r6(i64);
      relation r7(i64);
      r6((v0.clone() + 1)) <-- r3(v0, v108, v109) if (v108.clone() == v0.clone()) if (v109.clone() == 2), r1(v1, v100), r6(v110) if (v110.clone() == 0), r0(v103, v111) if (v111.clone() == v0.clone()), r1(v112, v104) if (v112.clone() == v0.clone()), r6(v113) if (v113.clone() == 0), r0(v107, v114) if (v114.clone() == v0.clone()), if (v0.clone() < 5);
      r6((v0.clone() + 1)) <-- r3(v0, v115, v116) if (v115.clone() == v0.clone()) if (v116.clone() == 2), r1(v1, v100), r6(v117) if (v117.clone() == 0), r0(v103, v118) if (v118.clone() == v0.clone()), r1(v119, v104) if (v119.clone() == v0.clone()), r4(v105, v120) if let Some(v106) = v120.clone(), r0(v107, v121) if (v121.clone() == v0.clone()), if (v0.clone() < 5);
      r6((v0.clone() + 1)) <-- r3(v0, v122, v123) if (v122.clone() == v0.clone()) if (v123.clone() == 2), r1(v1, v100), r4(v101, v124) if let Some(v102) = v124.clone(), r0(v103, v125) if (v125.clone() == v0.clone()), r1(v126, v104) if (v126.clone() == v0.clone()), r6(v127) if (v127.clone() == 0), r0(v107, v128) if (v128.clone() == v0.clone()), if (v0.clone() < 5);
      r6((v0.clone() + 1)) <-- r3(v0, v129, v130) if (v129.clone() == v0.clone()) if (v130.clone() == 2), r1(v1, v100), r4(v101, v131) if let Some(v102) = v131.clone(), r0(v103, v132) if (v132.clone() == v0.clone()), r1(v133, v104) if (v133.clone() == v0.clone()), r4(v105, v134) if let Some(v106) = v134.clone(), r0(v107, v135) if (v135.clone() == v0.clone()), if (v0.clone() < 5);
      r6(0) <-- r5(v0, v1, v148) if (v1.clone() == 1), r4(v149, v136) if (v149.clone() == v0.clone()), if (v1.clone() <= 3), r4(v150, v151) if (v150.clone() == 0) if (v151.clone() == Some((v1.clone() + v1.clone()))), for v138 in [1, 3], r4(v142, v152) if let Some(v143) = v152.clone(), r1(v153, v144) if (v153.clone() == v1.clone()), r6(v154) if (v154.clone() == 0), r0(v147, v155) if (v155.clone() == v142.clone()), if (v142.clone() == 1);
      r6(0) <-- r5(v0, v1, v156) if (v1.clone() == 1), r4(v157, v136) if (v157.clone() == v0.clone()), if (v1.clone() <= 3), r4(v158, v159) if (v158.clone() == 0) if (v159.clone() == Some((v1.clone() + v1.clone()))), for v138 in [1, 3], r4(v142, v160) if let Some(v143) = v160.clone(), r1(v161, v144) if (v161.clone() == v1.clone()), r4(v145, v162) if let Some(v146) = v162.clone(), r0(v147, v163) if (v163.clone() == v142.clone()), if (v142.clone() == 1);
      r6(0) <-- r5(v0, v1, v164) if (v1.clone() == 1), r1(v165, v136) if (v165.clone() == v0.clone()), if ((v1.clone() + v1.clone()) != v0.clone()), let v137 = std::cmp::min(((v1.clone() + v1.clone()) + v1.clone()), 6), for v138 in [1, 3], r4(v142, v166) if let Some(v143) = v166.clone(), r1(v167, v144) if (v167.clone() == v1.clone()), r6(v168) if (v168.clone() == 0), r0(v147, v169) if (v169.clone() == v142.clone()), if (v142.clone() == 1);
      r6(0) <-- r5(v0, v1, v170) if (v1.clone() == 1), r1(v171, v136) if (v171.clone() == v0.clone()), if ((v1.clone() + v1.clone()) != v0.clone()), let v137 = std::cmp::min(((v1.clone() + v1.clone()) + v1.clone()), 6), for v138 in [1, 3], r4(v142, v172) if let Some(v143) = v172.clone(), r1(v173, v144) if (v173.clone() == v1.clone()), r4(v145, v174) if let Some(v146) = v174.clone(), r0(v147, v175) if (v175.clone() == v142.clone()), if (v142.clone() == 1);
      r6(0) <-- r5(v0, v1, v176) if (v1.clone() == 1), r6(v177) if (v177.clone() == v0.clone()), r4(v142, v178) if let Some(v143) = v178.clone(), r1(v179, v144) if (v179.clone() == v1.clone()), r6(v180) if (v180.clone() == 0), r0(v147, v181) if (v181.clone() == v142.clone()), if (v142.clone() == 1);
      r6(0) <-- r5(v0, v1, v182) if (v1.clone() == 1), r6(v183) if (v183.clone() == v0.clone()), r4(v142, v184) if let Some(v143) = v184.clone(), r1(v185, v144) if (v185.clone() == v1.clone()), r4(v145, v186) if let Some(v146) = v186.clone(), r0(v147, v187) if (v187.clone() == v142.clone()), if (v142.clone() == 1);
      r6(0) <-- r5(v0, v1, v188) if (v1.clone() == 1), r5(v139, v140, v189) if (v189.clone() == v0.clone()), r2(v141), r4(v142, v190) if let Some(v143) = v190.clone(), r1(v191, v144) if (v191.clone() == v1.clone()), r6(v192) if (v192.clone() == 0), r0(v147, v193) if (v193.clone() == v142.clone()), if (v142.clone() == 1);
      r6(0) <-- r5(v0, v1, v194) if (v1.clone() == 1), r5(v139, v140, v195) if (v195.clone() == v0.clone()), r2(v141), r4(v142, v196) if let Some(v143) = v196.clone(), r1(v197, v144) if (v197.clone() == v1.clone()), r4(v145, v198) if let Some(v146) = v198.clone(), r0(v147, v199) if (v199.clone() == v142.clone()), if (v142.clone() == 1);
      r4(v0, v1) <-- r1(v0, v1);
   }
   pub struct Inst { p: Prog, pool: Option<ascent::rayon::ThreadPool> }
   pub fn make(pool: Option<usize>) -> Box<dyn Driver> {
      let pool = pool.map(|n| ascent::rayon::ThreadPoolBuilder::new().num_threads(n).build().unwrap());
      let p = match &pool { Some(pl) => pl.install(|| Default::default()), None => Default::default() };
      Box::new(Inst { p, pool })
   }
   impl Driver for Inst {
      fn load(&mut self, rel: usize, rows: &[Sexp], append: bool) -> Option<()> {
         match rel {
         0 => { let v: Vec<(i64,i64,)> = parse_rows(rows)?; if append { self.p.r0.extend(v) } else { self.p.r0 = v } },
         1 => { let v: Vec<(i64,Option<i64>,)> = parse_rows(rows)?; if append { self.p.r1.extend(v) } else { self.p.r1 = v } },
         2 => { let v: Vec<(i64,)> = parse_rows(rows)?; if append { self.p.r2.extend(v) } else { self.p.r2 = v } },
         3 => { let v: Vec<(i64,i64,i64,)> = parse_rows(rows)?; if append { self.p.r3.extend(v) } else { self.p.r3 = v } },
         4 => { let v: Vec<(i64,Option<i64>,)> = parse_rows(rows)?; if append { self.p.r4.extend(v) } else { self.p.r4 = v } },
         5 => { let v: Vec<(i64,i64,i64,)> = parse_rows(rows)?; if append { self.p.r5.extend(v) } else { self.p.r5 = v } },
         6 => { let v: Vec<(i64,)> = parse_rows(rows)?; if append { self.p.r6.extend(v) } else { self.p.r6 = v } },
         7 => { let v: Vec<(i64,)> = parse_rows(rows)?; if append { self.p.r7.extend(v) } else { self.p.r7 = v } },
            _ => return None,
         }
         Some(())
      }
      fn run(&mut self) { match &self.pool { Some(pl) => { let p = &mut self.p; pl.install(|| p.run()) }, None => self.p.run() } }
      fn run_here(&mut self) { self.p.run() }
      fn run_timeout(&mut self, k: usize) -> Option<bool> { let _ = k; None }
      fn dump(&self) -> String { vec![dump_rel(0, self.p.r0.iter().map(Row::render).collect()), dump_rel(1, self.p.r1.iter().map(Row::render).collect()), dump_rel(2, self.p.r2.iter().map(Row::render).collect()), dump_rel(3, self.p.r3.iter().map(Row::render).collect()), dump_rel(4, self.p.r4.iter().map(Row::render).collect()), dump_rel(5, self.p.r5.iter().map(Row::render).collect()), dump_rel(6, self.p.r6.iter().map(Row::render).collect()), dump_rel(7, self.p.r7.iter().map(Row::render).collect())].join(" | ") }
      fn iters(&self) -> String { format!("iters {}", self.p.scc_iters.iter().map(|x| x.to_string()).collect::<Vec<_>>().join(" ")) }
   }
}

#[allow(unused, non_snake_case, clippy::all)]
pub mod h4x {
   use ascent::*;
   use ascent::aggregators::*;
   use ascent::lattice::{Dual, set::Set};
   use crate::common::*;
   ascent! {
      pub struct Prog;
      relation r0(i64, i64);
      relation r1(i64, Option<i64>);
      relation r2(i64);
      relation r3(i64, i64, i64);
      relation r4(i64, i64);
      relation r5(i64);
      relation r6(i64, Option<i64>);
      relation r7(i64);
      relation r8(i64, i64);
      r6((v1.clone() + 1), None::<i64>) <-- r5(v0), r6(v1, v102) if let Some(v100) = v102.clone(), r5(v101), if (v1.clone() < 5);
      r6((v1.clone() + 1), None::<i64>) <-- r5(v0), r8(v100, v1), agg () = not() in r0(std::cmp::min(v100.clone(), 2), v100.clone()), r5(v101), if (v1.clone() < 5);
      r6((v1.clone() + 1), None::<i64>) <-- r5(v0), r8(v103, v1) if (v103.clone() == v0.clone()), if (v1.clone() < 5);
      r7(v1) <-- r1(v105, v0), r4(v2, v1), r6(v104, v106) if (v106.clone() == Some(v2.clone()));
      r8(std::cmp::min(std::cmp::max(v0.clone(), 3), 6), std::cmp::min(std::cmp::max(v0.clone(), 3), 6)) <-- r7(v0), r4(v1, v108) if (v108.clone() == v0.clone()), r6(v107, v109) if (v109.clone() == Some(v1.clone()));
      r8(0, 3) <-- r7(v0), r4(v1, v108) if (v108.clone() == v0.clone()), r6(v107, v109) if (v109.clone() == Some(v1.clone()));
      r8(v0, v0) <-- r7(v0), r4(v1, v108) if (v108.clone() == v0.clone()), r6(v107, v109) if (v109.clone() == Some(v1.clone()));
      r8(std::cmp::min(std::cmp::max(v0.clone(), 1), 6), std::cmp::min(std::cmp::max(v0.clone(), 1), 6)) <-- r6(v0, v112) if let Some(v110) = v112.clone(), r5(v111), if (v0.clone() < 5);
      r8(0, 3) <-- r6(v0, v112) if let Some(v110) = v112.clone(), r5(v111), if (v0.clone() < 5);
      r6((v0.clone() + 1), Some(3)) <-- r6(v0, v112) if let Some(v110) = v112.clone(), r5(v111), if (v0.clone() < 5);
      r8(std::cmp::min(std::cmp::max(v0.clone(), 1), 6), std::cmp::min(std::cmp::max(v0.clone(), 1), 6)) <-- r8(v110, v0), agg () = not() in r0(std::cmp::min(v110.clone(), 2), v110.clone()), r5(v111), if (v0.clone() < 5);
      r8(0, 3) <-- r8(v110, v0), agg () = not() in r0(std::cmp::min(v110.clone(), 2), v110.clone()), r5(v111), if (v0.clone() < 5);
      r6((v0.clone() + 1), Some(3)) <-- r8(v110, v0), agg () = not() in r0(std::cmp::min(v110.clone(), 2), v110.clone()), r5(v111), if (v0.clone() < 5);
      r8(std::cmp::min((v3.clone() + v4.clone()), 6), std::cmp::min((v3.clone() + v4.clone()), 6)) <-- r4(v0, v1), r4(v3, v2), r6(v113, v115) if (v115.clone() == Some(v3.clone())), r4(v4, v116) if (v116.clone() == v3.clone()), r6(v114, v117) if (v117.clone() == Some(v4.clone()));
      r8(0, 3) <-- r4(v0, v1), r4(v3, v2), r6(v113, v115) if (v115.clone() == Some(v3.clone())), r4(v4, v116) if (v116.clone() == v3.clone()), r6(v114, v117) if (v117.clone() == Some(v4.clone()));
      r7(3) <-- r4(v0, v1), r4(v3, v2), r6(v113, v115) if (v115.clone() == Some(v3.clone())), r4(v4, v116) if (v116.clone() == v3.clone()), r6(v114, v117) if (v117.clone() == Some(v4.clone()));
      r5((v0.clone() + 1)) <-- r4(v0, v118) if (v118.clone() == (v0.clone() + 2)) if (v0.clone() == 5), if (v0.clone() < 5);
      r8(3, 3);
      r8(0, 3);
   }
   pub struct Inst { p: Prog, pool: Option<ascent::rayon::ThreadPool> }
   pub fn make(pool: Option<usize>) -> Box<dyn Driver> {
      let pool = pool.map(|n| ascent::rayon::ThreadPoolBuilder::new().num_threads(n).build().unwrap());
      let p = match &pool { Some(pl) => pl.install(|| Default::default()), None => Default::default() };
      Box::new(Inst { p, pool })
   }
   impl Driver for Inst {
      fn load(&mut self, rel: usize, rows: &[Sexp], append: bool) -> Option<()> {
         match rel {
         0 => { let v: Vec<(i64,i64,)> = parse_rows(rows)?; if append { self.p.r0.extend(v) } else { self.p.r0 = v } },
         1 => { let v: Vec<(i64,Option<i64>,)> = parse_rows(rows)?; if append { self.p.r1.extend(v) } else { self.p.r1 = v } },
         2 => { let v: Vec<(i64,)> = parse_rows(rows)?; if append { self.p.r2.extend(v) } else { self.p.r2 = v } },
         3 => { let v: Vec<(i64,i64,i64,)> = parse_rows(rows)?; if append { self.p.r3.extend(v) } else { self.p.r3 = v } },
         4 => { let v: Vec<(i64,i64,)> = parse_rows(rows)?; if append { self.p.r4.extend(v) } else { self.p.r4 = v } },
         5 => { let v: Vec<(i64,)> = parse_rows(rows)?; if append { self.p.r5.extend(v) } else { self.p.r5 = v } },
         6 => { let v: Vec<(i64,Option<i64>,)> = parse_rows(rows)?; if append { self.p.r6.extend(v) } else { self.p.r6 = v } },
         7 => { let v: Vec<(i64,)> = parse_rows(rows)?; if append { self.p.r7.extend(v) } else { self.p.r7 = v } },
         8 => { let v: Vec<(i64,i64,)> = parse_rows(rows)?; if append { self.p.r8.extend(v) } else { self.p.r8 = v } },
            _ => return None,
         }
         Some(())
      }
      fn run(&mut self) { match &self.pool { Some(pl) => { let p = &mut self.p; pl.install(|| p.run()) }, None => self.p.run() } }
      fn run_here(&mut self) { self.p.run() }
      fn run_timeout(&mut self, k: usize) -> Option<bool> { let _ = k; None }
      fn dump(&self) -> String { vec![dump_rel(0, self.p.r0.iter().map(Row::render).collect()), dump_rel(1, self.p.r1.iter().map(Row::render).collect()), dump_rel(2, self.p.r2.iter().map(Row::render).collect()), dump_rel(3, self.p.r3.iter().map(Row::render).collect()), dump_rel(4, self.p.r4.iter().map(Row::render).collect()), dump_rel(5, self.p.r5.iter().map(Row::render).collect()), dump_rel(6, self.p.r6.iter().map(Row::render).collect()), dump_rel(7, self.p.r7.iter().map(Row::render).collect()), dump_rel(8, self.p.r8.iter().map(Row::render).collect())].join(" | ") }
      fn iters(&self) -> String { format!("iters {}", self.p.scc_iters.iter().map(|x| x.to_string()).collect::<Vec<_>>().join(" ")) }
   }
}

#[allow(unused, non_snake_case, clippy::all)]
pub mod h8x {
   use ascent::*;
   use ascent::aggregators::*;
   use ascent::lattice::{Dual, set::Set};
   use crate::common::*;
   ascent! {
      pub struct Prog;
      relation r0(i64, i64);
      relation r1(i64, Option<i64>);
      relation r2(i64);
      relation r3(i64, i64, i64);
      relation r4(i64);
      relation r5(i64, Option<i64>, i64);
      relation r6(i64, i64);
      relation r7(i64, Option<i64>);
      r7(1, v1) <-- r7(v0, v1) if (v0.clone() <= 5) let v2 = std::cmp::min((v0.clone() + 0), 6), r0(v100, v101) if (v100.clone() == v0.clone()) if (v101.clone() == std::cmp::min(v0.clone(), 3)), agg () = not() in r1(v0.clone(), Some(std::cmp::min(v0.clone(), 3)));
      r6(std::cmp::min(std::cmp::min(v2.clone(), 3), 6), std::cmp::min(std::cmp::min(v2.clone(), 3), 6)) <-- r0(v0, v1), r3(v102, v106, v107) if (v106.clone() == v0.clone()) if (v107.clone() == v0.clone()), r3(v103, v108, v109) if (v108.clone() == v0.clone()) if (v109.clone() == v102.clone()), if (v102.clone() == 0), r3(v104, v110, v2) if (v110.clone() == v0.clone()), r3(v105, v111, v112) if (v111.clone() == v0.clone()) if (v112.clone() == v104.clone()), if (v104.clone() == 0);
      r7(v2, Some(v1.clone())) <-- r0(v0, v1), r3(v102, v106, v107) if (v106.clone() == v0.clone()) if (v107.clone() == v0.clone()), r3(v103, v108, v109) if (v108.clone() == v0.clone()) if (v109.clone() == v102.clone()), if (v102.clone() == 0), r3(v104, v110, v2) if (v110.clone() == v0.clone()), r3(v105, v111, v112) if (v111.clone() == v0.clone()) if (v112.clone() == v104.clone()), if (v104.clone() == 0);
      r5(v0, Some(std::cmp::min(std::cmp::max(v1.clone(), 1), 6)), 0) <-- r0(v0, v115) if (v115.clone() == std::cmp::min(v0.clone(), 3)) if (v0.clone() <= 3), r3(v113, v1, v116) if (v116.clone() == v0.clone()), r3(v114, v117, v118) if (v117.clone() == v1.clone()) if (v118.clone() == v113.clone()), if (v113.clone() == 0);
      r5(std::cmp::min(std::cmp::max(v1.clone(), 1), 6), Some(1), 2) <-- r0(v0, v115) if (v115.clone() == std::cmp::min(v0.clone(), 3)) if (v0.clone() <= 3), r3(v113, v1, v116) if (v116.clone() == v0.clone()), r3(v114, v117, v118) if (v117.clone() == v1.clone()) if (v118.clone() == v113.clone()), if (v113.clone() == 0);
      r6((std::cmp::min(std::cmp::max(v1.clone(), 1), 6) + 0), (std::cmp::min(std::cmp::max(v1.clone(), 1), 6) + 0)) <-- r0(v0, v115) if (v115.clone() == std::cmp::min(v0.clone(), 3)) if (v0.clone() <= 3), r3(v113, v1, v116) if (v116.clone() == v0.clone()), r3(v114, v117, v118) if (v117.clone() == v1.clone()) if (v118.clone() == v113.clone()), if (v113.clone() == 0);
      r7(v0, Some(3)) <-- r6(v0, v121) if (v121.clone() == v0.clone()) if (v0.clone() != 5), r3(v119, v1, v3), r3(v120, v122, v123) if (v122.clone() == v1.clone()) if (v123.clone() == v119.clone()), if (v119.clone() == 0);
      r7(v0, Some(3)) <-- r6(v0, v124) if (v124.clone() == v0.clone()) if (v0.clone() != 5), r1(v1, v4);
      r6(std::cmp::min(std::cmp::min(v2.clone(), 3), 6), std::cmp::min(std::cmp::min(v2.clone(), 3), 6)) <-- r1(v131, v132) if (v131.clone() == 2) if let Some(v0) = v132.clone(), r5(v125, v133, v1), if (v1.clone() != 5), let v126 = std::cmp::min(std::cmp::max(v125.clone(), 2), 6), agg () = not() in r1(std::cmp::max(v126.clone(), 0), Some(std::cmp::min(v0.clone(), 2))), r5(v128, v134, v2), if (v2.clone() != 5), let v129 = std::cmp::min(std::cmp::max(v128.clone(), 2), 6), agg () = not() in r1(std::cmp::max(v129.clone(), 0), Some((v0.clone() + v0.clone()))), if (v1.clone() < 5);
      r5((v1.clone() + 1), Some(0), 2) <-- r1(v131, v132) if (v131.clone() == 2) if let Some(v0) = v132.clone(), r5(v125, v133, v1), if (v1.clone() != 5), let v126 = std::cmp::min(std::cmp::max(v125.clone(), 2), 6), agg () = not() in r1(std::cmp::max(v126.clone(), 0), Some(std::cmp::min(v0.clone(), 2))), r5(v128, v134, v2), if (v2.clone() != 5), let v129 = std::cmp::min(std::cmp::max(v128.clone(), 2), 6), agg () = not() in r1(std::cmp::max(v129.clone(), 0), Some((v0.clone() + v0.clone()))), if (v1.clone() < 5);
      r6(std::cmp::min(std::cmp::min(v2.clone(), 3), 6), std::cmp::min(std::cmp::min(v2.clone(), 3), 6)) <-- r1(v135, v136) if (v135.clone() == 2) if let Some(v0) = v136.clone(), r5(v125, v137, v1), if (v1.clone() != 5), let v126 = std::cmp::min(std::cmp::max(v125.clone(), 2), 6), agg () = not() in r1(std::cmp::max(v126.clone(), 0), Some(std::cmp::min(v0.clone(), 2))), r5(v2, v138, v128) if let Some(v130) = v138.clone(), if (v1.clone() < 5);
      r5((v1.clone() + 1), Some(0), 2) <-- r1(v135, v136) if (v135.clone() == 2) if let Some(v0) = v136.clone(), r5(v125, v137, v1), if (v1.clone() != 5), let v126 = std::cmp::min(std::cmp::max(v125.clone(), 2), 6), agg () = not() in r1(std::cmp::max(v126.clone(), 0), Some(std::cmp::min(v0.clone(), 2))), r5(v2, v138, v128) if let Some(v130) = v138.clone(), if (v1.clone() < 5);
      r6(std::cmp::min(std::cmp::min(v2.clone(), 3), 6), std::cmp::min(std::cmp::min(v2.clone(), 3), 6)) <-- r1(v139, v140) if (v139.clone() == 2) if let Some(v0) = v140.clone(), r5(v125, v141, v1), if (v1.clone() != 5), let v126 = std::cmp::min(std::cmp::max(v125.clone(), 2), 6), agg () = not() in r1(std::cmp::max(v126.clone(), 0), Some(std::cmp::min(v0.clone(), 2))), r1(v2, v142) if let Some(v128) = v142.clone(), if ((v0.clone() + v0.clone()) != v128.clone()), if (v1.clone() < 5);
      r5((v1.clone() + 1), Some(0), 2) <-- r1(v139, v140) if (v139.clone() == 2) if let Some(v0) = v140.clone(), r5(v125, v141, v1), if (v1.clone() != 5), let v126 = std::cmp::min(std::cmp::max(v125.clone(), 2), 6), agg () = not() in r1(std::cmp::max(v126.clone(), 0), Some(std::cmp::min(v0.clone(), 2))), r1(v2, v142) if let Some(v128) = v142.clone(), if ((v0.clone() + v0.clone()) != v128.clone()), if (v1.clone() < 5);
      r6(std::cmp::min(std::cmp::min(v2.clone(), 3), 6), std::cmp::min(std::cmp::min(v2.clone(), 3), 6)) <-- r1(v143, v144) if (v143.clone() == 2) if let Some(v0) = v144.clone(), r5(v1, v145, v125) if let Some(v127) = v145.clone(), r5(v128, v146, v2), if (v2.clone() != 5), let v129 = std::cmp::min(std::cmp::max(v128.clone(), 2), 6), agg () = not() in r1(std::cmp::max(v129.clone(), 0), Some((v0.clone() + v0.clone()))), if (v1.clone() < 5);
      r5((v1.clone() + 1), Some(0), 2) <-- r1(v143, v144) if (v143.clone() == 2) if let Some(v0) = v144.clone(), r5(v1, v145, v125) if let Some(v127) = v145.clone(), r5(v128, v146, v2), if (v2.clone() != 5), let v129 = std::cmp::min(std::cmp::max(v128.clone(), 2), 6), agg () = not() in r1(std::cmp::max(v129.clone(), 0), Some((v0.clone() + v0.clone()))), if (v1.clone() < 5);
      r6(std::cmp::min(std::cmp::min(v2.clone(), 3), 6), std::cmp::min(std::cmp::min(v2.clone(), 3), 6)) <-- r1(v147, v148) if (v147.clone() == 2) if let Some(v0) = v148.clone(), r5(v1, v149, v125) if let Some(v127) = v149.clone(), r5(v2, v150, v128) if let Some(v130) = v150.clone(), if (v1.clone() < 5);
      r5((v1.clone() + 1), Some(0), 2) <-- r1(v147, v148) if (v147.clone() == 2) if let Some(v0) = v148.clone(), r5(v1, v149, v125) if let Some(v127) = v149.clone(), r5(v2, v150, v128) if let Some(v130) = v150.clone(), if (v1.clone() < 5);
      r6(std::cmp::min(std::cmp::min(v2.clone(), 3), 6), std::cmp::min(std::cmp::min(v2.clone(), 3), 6)) <-- r1(v151, v152) if (v151.clone() == 2) if let Some(v0) = v152.clone(), r5(v1, v153, v125) if let Some(v127) = v153.clone(), r1(v2, v154) if let Some(v128) = v154.clone(), if ((v0.clone() + v0.clone()) != v128.clone()), if (v1.clone() < 5);
      r5((v1.clone() + 1), Some(0), 2) <-- r1(v151, v152) if (v151.clone() == 2) if let Some(v0) = v152.clone(), r5(v1, v153, v125) if let Some(v127) = v153.clone(), r1(v2, v154) if let Some(v128) = v154.clone(), if ((v0.clone() + v0.clone()) != v128.clone()), if (v1.clone() < 5);
      r6(std::cmp::min(std::cmp::min(v2.clone(), 3), 6), std::cmp::min(std::cmp::min(v2.clone(), 3), 6)) <-- r1(v155, v156) if (v155.clone() == 2) if let Some(v0) = v156.clone(), r1(v1, v157) if let Some(v125) = v157.clone(), if (std::cmp::min(v0.clone(), 2) != v125.clone()), r5(v128, v158, v2), if (v2.clone() != 5), let v129 = std::cmp::min(std::cmp::max(v128.clone(), 2), 6), agg () = not() in r1(std::cmp::max(v129.clone(), 0), Some((v0.clone() + v0.clone()))), if (v1.clone() < 5);
      r5((v1.clone() + 1), Some(0), 2) <-- r1(v155, v156) if (v155.clone() == 2) if let Some(v0) = v156.clone(), r1(v1, v157) if let Some(v125) = v157.clone(), if (std::cmp::min(v0.clone(), 2) != v125.clone()), r5(v128, v158, v2), if (v2.clone() != 5), let v129 = std::cmp::min(std::cmp::max(v128.clone(), 2), 6), agg () = not() in r1(std::cmp::max(v129.clone(), 0), Some((v0.clone() + v0.clone()))), if (v1.clone() < 5);
      r6(std::cmp::min(std::cmp::min(v2.clone(), 3), 6), std::cmp::min(std::cmp::min(v2.clone(), 3), 6)) <-- r1(v159, v160) if (v159.clone() == 2) if let Some(v0) = v160.clone(), r1(v1, v161) if let Some(v125) = v161.clone(), if (std::cmp::min(v0.clone(), 2) != v125.clone()), r5(v2, v162, v128) if let Some(v130) = v162.clone(), if (v1.clone() < 5);
      r5((v1.clone() + 1), Some(0), 2) <-- r1(v159, v160) if (v159.clone() == 2) if let Some(v0) = v160.clone(), r1(v1, v161) if let Some(v125) = v161.clone(), if (std::cmp::min(v0.clone(), 2) != v125.clone()), r5(v2, v162, v128) if let Some(v130) = v162.clone(), if (v1.clone() < 5);
      r6(std::cmp::min(std::cmp::min(v2.clone(), 3), 6), std::cmp::min(std::cmp::min(v2.clone(), 3), 6)) <-- r1(v163, v164) if (v163.clone() == 2) if let Some(v0) = v164.clone(), r1(v1, v165) if let Some(v125) = v165.clone(), if (std::cmp::min(v0.clone(), 2) != v125.clone()), r1(v2, v166) if let Some(v128) = v166.clone(), if ((v0.clone() + v0.clone()) != v128.clone()), if (v1.clone() < 5);
      r5((v1.clone() + 1), Some(0), 2) <-- r1(v163, v164) if (v163.clone() == 2) if let Some(v0) = v164.clone(), r1(v1, v165) if let Some(v125) = v165.clone(), if (std::cmp::min(v0.clone(), 2) != v125.clone()), r1(v2, v166) if let Some(v128) = v166.clone(), if ((v0.clone() + v0.clone()) != v128.clone()), if (v1.clone() < 5);
      r7(v0, Some(v1.clone())) <-- r0(v172, v0) if (v172.clone() == 1) if (v0.clone() != 0) let v1 = std::cmp::min(std::cmp::min(v0.clone(), 1), 6), r1(v173, v174) if (v173.clone() == v1.clone()), r0(v167, v175) if (v175.clone() == v1.clone()), r2(v168), r5(v169, v176, v177) if (v177.clone() == v1.clone()), if (v1.clone() != 5), let v170 = std::cmp::min(std::cmp::max(v169.clone(), 2), 6), agg () = not() in r1(std::cmp::max(v170.clone(), 0), Some(std::cmp::max(v1.clone(), 0)));
      r7(v0, Some(v1.clone())) <-- r0(v178, v0) if (v178.clone() == 1) if (v0.clone() != 0) let v1 = std::cmp::min(std::cmp::min(v0.clone(), 1), 6), r1(v179, v180) if (v179.clone() == v1.clone()), r0(v167, v181) if (v181.clone() == v1.clone()), r2(v168), r5(v182, v183, v169) if (v182.clone() == v1.clone()) if let Some(v171) = v183.clone();
      r7(v0, Some(v1.clone())) <-- r0(v184, v0) if (v184.clone() == 1) if (v0.clone() != 0) let v1 = std::cmp::min(std::cmp::min(v0.clone(), 1), 6), r1(v185, v186) if (v185.clone() == v1.clone()), r0(v167, v187) if (v187.clone() == v1.clone()), r2(v168), r1(v188, v189) if (v188.clone() == v1.clone()) if let Some(v169) = v189.clone(), if (std::cmp::max(v1.clone(), 0) != v169.clone());
      r7(v0, Some(v1.clone())) <-- r0(v190, v0) if (v190.clone() == 1) if (v0.clone() != 0) let v1 = std::cmp::min(std::cmp::min(v0.clone(), 1), 6), r3(v191, v192, v193) if (v191.clone() == v1.clone()) if (v192.clone() == std::cmp::min(v1.clone(), 2)) if (v193.clone() == v1.clone()), agg () = not() in r0(0, _), r2(v168), r5(v169, v194, v195) if (v195.clone() == v1.clone()), if (v1.clone() != 5), let v170 = std::cmp::min(std::cmp::max(v169.clone(), 2), 6), agg () = not() in r1(std::cmp::max(v170.clone(), 0), Some(std::cmp::max(v1.clone(), 0)));
      r7(v0, Some(v1.clone())) <-- r0(v196, v0) if (v196.clone() == 1) if (v0.clone() != 0) let v1 = std::cmp::min(std::cmp::min(v0.clone(), 1), 6), r3(v197, v198, v199) if (v197.clone() == v1.clone()) if (v198.clone() == std::cmp::min(v1.clone(), 2)) if (v199.clone() == v1.clone()), agg () = not() in r0(0, _), r2(v168), r5(v200, v201, v169) if (v200.clone() == v1.clone()) if let Some(v171) = v201.clone();
      r7(v0, Some(v1.clone())) <-- r0(v202, v0) if (v202.clone() == 1) if (v0.clone() != 0) let v1 = std::cmp::min(std::cmp::min(v0.clone(), 1), 6), r3(v203, v204, v205) if (v203.clone() == v1.clone()) if (v204.clone() == std::cmp::min(v1.clone(), 2)) if (v205.clone() == v1.clone()), agg () = not() in r0(0, _), r2(v168), r1(v206, v207) if (v206.clone() == v1.clone()) if let Some(v169) = v207.clone(), if (std::cmp::max(v1.clone(), 0) != v169.clone());
      r4(v0) <-- r1(v0, v208) if (v208.clone() == None::<i64>);
      r6(2, 2);
   }
   pub struct Inst { p: Prog, pool: Option<ascent::rayon::ThreadPool> }
   pub fn make(pool: Option<usize>) -> Box<dyn Driver> {
      let pool = pool.map(|n| ascent::rayon::ThreadPoolBuilder::new().num_threads(n).build().unwrap());
      let p = match &pool { Some(pl) => pl.install(|| Default::default()), None => Default::default() };
      Box::new(Inst { p, pool })
   }
   impl Driver for Inst {
      fn load(&mut self, rel: usize, rows: &[Sexp], append: bool) -> Option<()> {
         match rel {
         0 => { let v: Vec<(i64,i64,)> = parse_rows(rows)?; if append { self.p.r0.extend(v) } else { self.p.r0 = v } },
         1 => { let v: Vec<(i64,Option<i64>,)> = parse_rows(rows)?; if append { self.p.r1.extend(v) } else { self.p.r1 = v } },
         2 => { let v: Vec<(i64,)> = parse_rows(rows)?; if append { self.p.r2.extend(v) } else { self.p.r2 = v } },
         3 => { let v: Vec<(i64,i64,i64,)> = parse_rows(rows)?; if append { self.p.r3.extend(v) } else { self.p.r3 = v } },
         4 => { let v: Vec<(i64,)> = parse_rows(rows)?; if append { self.p.r4.extend(v) } else { self.p.r4 = v } },
         5 => { let v: Vec<(i64,Option<i64>,i64,)> = parse_rows(rows)?; if append { self.p.r5.extend(v) } else { self.p.r5 = v } },
         6 => { let v: Vec<(i64,i64,)> = parse_rows(rows)?; if append { self.p.r6.extend(v) } else { self.p.r6 = v } },
         7 => { let v: Vec<(i64,Option<i64>,)> = parse_rows(rows)?; if append { self.p.r7.extend(v) } else { self.p.r7 = v } },
            _ => return None,
         }
         Some(())
      }
      fn run(&mut self) { match &self.pool { Some(pl) => { let p = &mut self.p; pl.install(|| p.run()) }, None => self.p.run() } }
      fn run_here(&mut self) { self.p.run() }
      fn run_timeout(&mut self, k: usize) -> Option<bool> { let _ = k; None }
      fn dump(&self) -> String { vec![dump_rel(0, self.p.r0.iter().map(Row::render).collect()), dump_rel(1, self.p.r1.iter().map(Row::render).collect()), dump_rel(2, self.p.r2.iter().map(Row::render).collect()), dump_rel(3, self.p.r3.iter().map(Row::render).collect()), dump_rel(4, self.p.r4.iter().map(Row::render).collect()), dump_rel(5, self.p.r5.iter().map(Row::render).collect()), dump_rel(6, self.p.r6.iter().map(Row::render).collect()), dump_rel(7, self.p.r7.iter().map(Row::render).collect())].join(" | ") }
      fn iters(&self) -> String { format!("iters {}", self.p.scc_iters.iter().map(|x| x.to_string()).collect::<Vec<_>>().join(" ")) }
   }
}

#[allow(unused, non_snake_case, clippy::all)]
pub mod a0x {
   use ascent::*;
   use ascent::aggregators::*;
   use ascent::lattice::{Dual, set::Set};
   use crate::common::*;
   ascent! {
      pub struct Prog;
      relation r0(i64, i64);
      relation r1(i64);
      relation r2(i64, i64);
      relation r3(i64);
      r2(v0, v1) <-- r1(v0), r0(v100, v1) if (3 < v100.clone());
      r3(v0) <-- r2(v0, v101);
   }
   pub struct Inst { p: Prog, pool: Option<ascent::rayon::ThreadPool> }
   pub fn make(pool: Option<usize>) -> Box<dyn Driver> {
      let pool = pool.map(|n| ascent::rayon::ThreadPoolBuilder::new().num_threads(n).build().unwrap());
      let p = match &pool { Some(pl) => pl.install(|| Default::default()), None => Default::default() };
      Box::new(Inst { p, pool })
   }
   impl Driver for Inst {
      fn load(&mut self, rel: usize, rows: &[Sexp], append: bool) -> Option<()> {
         match rel {
         0 => { let v: Vec<(i64,i64,)> = parse_rows(rows)?; if append { self.p.r0.extend(v) } else { self.p.r0 = v } },
         1 => { let v: Vec<(i64,)> = parse_rows(rows)?; if append { self.p.r1.extend(v) } else { self.p.r1 = v } },
         2 => { let v: Vec<(i64,i64,)> = parse_rows(rows)?; if append { self.p.r2.extend(v) } else { self.p.r2 = v } },
         3 => { let v: Vec<(i64,)> = parse_rows(rows)?; if append { self.p.r3.extend(v) } else { self.p.r3 = v } },
            _ => return None,
         }
         Some(())
      }
      fn run(&mut self) { match &self.pool { Some(pl) => { let p = &mut self.p; pl.install(|| p.run()) }, None => self.p.run() } }
      fn run_here(&mut self) { self.p.run() }
      fn run_timeout(&mut self, k: usize) -> Option<bool> { let _ = k; None }
      fn dump(&self) -> String { vec![dump_rel(0, self.p.r0.iter().map(Row::render).collect()), dump_rel(1, self.p.r1.iter().map(Row::render).collect()), dump_rel(2, self.p.r2.iter().map(Row::render).collect()), dump_rel(3, self.p.r3.iter().map(Row::render).collect())].join(" | ") }
      fn iters(&self) -> String { format!("iters {}", self.p.scc_iters.iter().map(|x| x.to_string()).collect::<Vec<_>>().join(" ")) }
   }
}

#[allow(unused, non_snake_case, clippy::all)]
pub mod e0x {
   use ascent::*;
   use ascent::aggregators::*;
   use ascent::lattice::{Dual, set::Set};
   use crate::common::*;
   ascent! {
      pub struct Prog;
      relation r0(i64, i64);
      relation r1(i64);
      relation r2(i64, i64);
      relation r3(i64);
      r2(v0, v1) <-- r1(v0), r0(v100, v1), if ((v100.clone() * (v0.clone() + 2)) < 5);
      r3(v0) <-- r2(v0, v101);
   }
   pub struct Inst { p: Prog, pool: Option<ascent::rayon::ThreadPool> }
   pub fn make(pool: Option<usize>) -> Box<dyn Driver> {
      let pool = pool.map(|n| ascent::rayon::ThreadPoolBuilder::new().num_threads(n).build().unwrap());
      let p = match &pool { Some(pl) => pl.install(|| Default::default()), None => Default::default() };
      Box::new(Inst { p, pool })
   }
   impl Driver for Inst {
      fn load(&mut self, rel: usize, rows: &[Sexp], append: bool) -> Option<()> {
         match rel {
         0 => { let v: Vec<(i64,i64,)> = parse_rows(rows)?; if append { self.p.r0.extend(v) } else { self.p.r0 = v } },
         1 => { let v: Vec<(i64,)> = parse_rows(rows)?; if append { self.p.r1.extend(v) } else { self.p.r1 = v } },
         2 => { let v: Vec<(i64,i64,)> = parse_rows(rows)?; if append { self.p.r2.extend(v) } else { self.p.r2 = v } },
         3 => { let v: Vec<(i64,)> = parse_rows(rows)?; if append { self.p.r3.extend(v) } else { self.p.r3 = v } },
            _ => return None,
         }
         Some(())
      }
      fn run(&mut self) { match &self.pool { Some(pl) => { let p = &mut self.p; pl.install(|| p.run()) }, None => self.p.run() } }
      fn run_here(&mut self) { self.p.run() }
      fn run_timeout(&mut self, k: usize) -> Option<bool> { let _ = k; None }
      fn dump(&self) -> String { vec![dump_rel(0, self.p.r0.iter().map(Row::render).collect()), dump_rel(1, self.p.r1.iter().map(Row::render).collect()), dump_rel(2, self.p.r2.iter().map(Row::render).collect()), dump_rel(3, self.p.r3.iter().map(Row::render).collect())].join(" | ") }
      fn iters(&self) -> String { format!("iters {}", self.p.scc_iters.iter().map(|x| x.to_string()).collect::<Vec<_>>().join(" ")) }
   }
}

#[allow(unused, non_snake_case, clippy::all)]
pub mod e4x {
   use ascent::*;
   use ascent::aggregators::*;
   use ascent::lattice::{Dual, set::Set};
   use crate::common::*;
   ascent! {
      pub struct Prog;
      relation r0(i64, i64);
      relation r1(i64);
      relation r2(i64, i64);
      relation r3(i64);
      r2(v0, v1) <-- r1(v0), r0(v100, v1), if (((v0.clone() + 1) * v100.clone()) < 7);
      r3(v0) <-- r2(v0, v101);
   }
   pub struct Inst { p: Prog, pool: Option<ascent::rayon::ThreadPool> }
   pub fn make(pool: Option<usize>) -> Box<dyn Driver> {
      let pool = pool.map(|n| ascent::rayon::ThreadPoolBuilder::new().num_threads(n).build().unwrap());
      let p = match &pool { Some(pl) => pl.install(|| Default::default()), None => Default::default() };
      Box::new(Inst { p, pool })
   }
   impl Driver for Inst {
      fn load(&mut self, rel: usize, rows: &[Sexp], append: bool) -> Option<()> {
         match rel {
         0 => { let v: Vec<(i64,i64,)> = parse_rows(rows)?; if append { self.p.r0.extend(v) } else { self.p.r0 = v } },
         1 => { let v: Vec<(i64,)> = parse_rows(rows)?; if append { self.p.r1.extend(v) } else { self.p.r1 = v } },
         2 => { let v: Vec<(i64,i64,)> = parse_rows(rows)?; if append { self.p.r2.extend(v) } else { self.p.r2 = v } },
         3 => { let v: Vec<(i64,)> = parse_rows(rows)?; if append { self.p.r3.extend(v) } else { self.p.r3 = v } },
            _ => return None,
         }
         Some(())
      }
      fn run(&mut self) { match &self.pool { Some(pl) => { let p = &mut self.p; pl.install(|| p.run()) }, None => self.p.run() } }
      fn run_here(&mut self) { self.p.run() }
      fn run_timeout(&mut self, k: usize) -> Option<bool> { let _ = k; None }
      fn dump(&self) -> String { vec![dump_rel(0, self.p.r0.iter().map(Row::render).collect()), dump_rel(1, self.p.r1.iter().map(Row::render).collect()), dump_rel(2, self.p.r2.iter().map(Row::render).collect()), dump_rel(3, self.p.r3.iter().map(Row::render).collect())].join(" | ") }
      fn iters(&self) -> String { format!("iters {}", self.p.scc_iters.iter().map(|x| x.to_string()).collect::<Vec<_>>().join(" ")) }
   }
}

#[allow(unused, non_snake_case, clippy::all)]
pub mod o3x {
   use ascent::*;
   use ascent::aggregators::*;
   use ascent::lattice::{Dual, set::Set};
   use crate::common::*;
   ascent! {
      pub struct Prog;
      relation r0(i64, Option<i64>);
      relation r1(i64);
      relation r2(i64, i64);
      relation r3(i64);
      r3(v0) <-- r1(v0), r0(v100, v101) if (v100.clone() == v0.clone()) if (v101.clone() == None::<i64>);
      r2(v0, v0) <-- r3(v0);
   }
   pub struct Inst { p: Prog, pool: Option<ascent::rayon::ThreadPool> }
   pub fn make(pool: Option<usize>) -> Box<dyn Driver> {
      let pool = pool.map(|n| ascent::rayon::ThreadPoolBuilder::new().num_threads(n).build().unwrap());
      let p = match &pool { Some(pl) => pl.install(|| Default::default()), None => Default::default() };
      Box::new(Inst { p, pool })
   }
   impl Driver for Inst {
      fn load(&mut self, rel: usize, rows: &[Sexp], append: bool) -> Option<()> {
         match rel {
         0 => { let v: Vec<(i64,Option<i64>,)> = parse_rows(rows)?; if append { self.p.r0.extend(v) } else { self.p.r0 = v } },
         1 => { let v: Vec<(i64,)> = parse_rows(rows)?; if append { self.p.r1.extend(v) } else { self.p.r1 = v } },
         2 => { let v: Vec<(i64,i64,)> = parse_rows(rows)?; if append { self.p.r2.extend(v) } else { self.p.r2 = v } },
         3 => { let v: Vec<(i64,)> = parse_rows(rows)?; if append { self.p.r3.extend(v) } else { self.p.r3 = v } },
            _ => return None,
         }
         Some(())
      }
      fn run(&mut self) { match &self.pool { Some(pl) => { let p = &mut self.p; pl.install(|| p.run()) }, None => self.p.run() } }
      fn run_here(&mut self) { self.p.run() }
      fn run_timeout(&mut self, k: usize) -> Option<bool> { let _ = k; None }
      fn dump(&self) -> String { vec![dump_rel(0, self.p.r0.iter().map(Row::render).collect()), dump_rel(1, self.p.r1.iter().map(Row::render).collect()), dump_rel(2, self.p.r2.iter().map(Row::render).collect()), dump_rel(3, self.p.r3.iter().map(Row::render).collect())].join(" | ") }
      fn iters(&self) -> String { format!("iters {}", self.p.scc_iters.iter().map(|x| x.to_string()).collect::<Vec<_>>().join(" ")) }
   }
}

fn main() {
   common::main_loop(&[("h0x", h0x::make as common::Factory), ("h4x", h4x::make as common::Factory), ("h8x", h8x::make as common::Factory), ("a0x", a0x::make as common::Factory), ("e0x", e0x::make as common::Factory), ("e4x", e4x::make as common::Factory), ("o3x", o3x::make as common::Factory)]);
}
