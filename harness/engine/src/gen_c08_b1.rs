#[path = "common.rs"]
mod common;
#[allow(unused, non_snake_case, clippy::all)]
pub mod h0x {
   use ascent::*;
   use ascent::aggregators::*;
   use ascent::lattice::{Dual, set::Set};
   use crate::common::*;
   ascent! {
      pub struct Prog;
      relation r0(i64, i64);
      relation r1(i64, Option<i64>);
      relation r2(i64);
      relation r3(i64, i64, i64);
      relation r4(i64, Option<i64>);
      relation r5(i64, i64, i64);
      relation r6(i64);
      relation r7(i64);
      r5(v2, v2, v1) <-- r7(v0), r1(v1, v100), r6(v108) if (v108.clone() == 0), r0(v103, v109) if (v109.clone() == v0.clone()), r1(v2, v104), r6(v110) if (v110.clone() == 0), r0(v107, v111) if (v111.clone() == v1.clone());
      r5(v2, v2, v1) <-- r7(v0), r1(v1, v100), r6(v112) if (v112.clone() == 0), r0(v103, v113) if (v113.clone() == v0.clone()), r1(v2, v104), r4(v105, v114) if let Some(v106) = v114.clone(), r0(v107, v115) if (v115.clone() == v1.clone());
      r5(v2, v2, v1) <-- r7(v0), r1(v1, v100), r4(v101, v116) if let Some(v102) = v116.clone(), r0(v103, v117) if (v117.clone() == v0.clone()), r1(v2, v104), r6(v118) if (v118.clone() == 0), r0(v107, v119) if (v119.clone() == v1.clone());
      r5(v2, v2, v1) <-- r7(v0), r1(v1, v100), r4(v101, v120) if let Some(v102) = v120.clone(), r0(v103, v121) if (v121.clone() == v0.clone()), r1(v2, v104), r4(v105, v122) if let Some(v106) = v122.clone(), r0(v107, v123) if (v123.clone() == v1.clone());
      r5(2, v0, v2) <-- r5(v0, v128, v129) if (v128.clone() == std::cmp::min(v0.clone(), 2)) if (v129.clone() == std::cmp::max(v0.clone(), 2)) if (v0.clone() <= 2), r1(v1, v124), r6(v130) if (v130.clone() == 0), r0(v127, v131) if (v131.clone() == v0.clone()), r0(v2, v132) if (v132.clone() == 1);
      r5(2, v0, v2) <-- r5(v0, v133, v134) if (v133.clone() == std::cmp::min(v0.clone(), 2)) if (v134.clone() == std::cmp::max(v0.clone(), 2)) if (v0.clone() <= 2), r1(v1, v124), r4(v125, v135) if let Some(v126) = v135.clone(), r0(v127, v136) if (v136.clone() == v0.clone()), r0(v2, v137) if (v137.clone() == 1);
      r7(v0) <-- r5(v0, v150, v1) if (v150.clone() == std::cmp::min(v0.clone(), 4)), r4(v151, v138) if (v151.clone() == v1.clone()), if (v0.clone() <= 3), r4(v152, v153) if (v152.clone() == 0) if (v153.clone() == Some((v1.clone() + v1.clone()))), for v140 in [1, 3], r4(v144, v154) if let Some(v145) = v154.clone(), r1(v155, v146) if (v155.clone() == v0.clone()), r6(v156) if (v156.clone() == 0), r0(v149, v157) if (v157.clone() == v144.clone()), if (v144.clone() == 1), r5(v158, v159, v2) if (v159.clone() == (v0.clone() + 2));
      r7(v0) <-- r5(v0, v160, v1) if (v160.clone() == std::cmp::min(v0.clone(), 4)), r4(v161, v138) if (v161.clone() == v1.clone()), if (v0.clone() <= 3), r4(v162, v163) if (v162.clone() == 0) if (v163.clone() == Some((v1.clone() + v1.clone()))), for v140 in [1, 3], r4(v144, v164) if let Some(v145) = v164.clone(), r1(v165, v146) if (v165.clone() == v0.clone()), r4(v147, v166) if let Some(v148) = v166.clone(), r0(v149, v167) if (v167.clone() == v144.clone()), if (v144.clone() == 1), r5(v168, v169, v2) if (v169.clone() == (v0.clone() + 2));
      r7(v0) <-- r5(v0, v170, v1) if (v170.clone() == std::cmp::min(v0.clone(), 4)), r1(v171, v138) if (v171.clone() == v1.clone()), if ((v1.clone() + v1.clone()) != v1.clone()), let v139 = std::cmp::min(((v1.clone() + v1.clone()) + v0.clone()), 6), for v140 in [1, 3], r4(v144, v172) if let Some(v145) = v172.clone(), r1(v173, v146) if (v173.clone() == v0.clone()), r6(v174) if (v174.clone() == 0), r0(v149, v175) if (v175.clone() == v144.clone()), if (v144.clone() == 1), r5(v176, v177, v2) if (v177.clone() == (v0.clone() + 2));
      r7(v0) <-- r5(v0, v178, v1) if (v178.clone() == std::cmp::min(v0.clone(), 4)), r1(v179, v138) if (v179.clone() == v1.clone()), if ((v1.clone() + v1.clone()) != v1.clone()), let v139 = std::cmp::min(((v1.clone() + v1.clone()) + v0.clone()), 6), for v140 in [1, 3], r4(v144, v180) if let Some(v145) = v180.clone(), r1(v181, v146) if (v181.clone() == v0.clone()), r4(v147, v182) if let Some(v148) = v182.clone(), r0(v149, v183) if (v183.clone() == v144.clone()), if (v144.clone() == 1), r5(v184, v185, v2) if (v185.clone() == (v0.clone() + 2));
      r7(v0) <-- r5(v0, v186, v1) if (v186.clone() == std::cmp::min(v0.clone(), 4)), r6(v187) if (v187.clone() == v1.clone()), r4(v144, v188) if let Some(v145) = v188.clone(), r1(v189, v146) if (v189.clone() == v0.clone()), r6(v190) if (v190.clone() == 0), r0(v149, v191) if (v191.clone() == v144.clone()), if (v144.clone() == 1), r5(v192, v193, v2) if (v193.clone() == (v0.clone() + 2));
      r7(v0) <-- r5(v0, v194, v1) if (v194.clone() == std::cmp::min(v0.clone(), 4)), r6(v195) if (v195.clone() == v1.clone()), r4(v144, v196) if let Some(v145) = v196.clone(), r1(v197, v146) if (v197.clone() == v0.clone()), r4(v147, v198) if let Some(v148) = v198.clone(), r0(v149, v199) if (v199.clone() == v144.clone()), if (v144.clone() == 1), r5(v200, v201, v2) if (v201.clone() == (v0.clone() + 2));
      r7(v0) <-- r5(v0, v202, v1) if (v202.clone() == std::cmp::min(v0.clone(), 4)), r5(v141, v142, v203) if (v203.clone() == v1.clone()), r2(v143), r4(v144, v204) if let Some(v145) = v204.clone(), r1(v205, v146) if (v205.clone() == v0.clone()), r6(v206) if (v206.clone() == 0), r0(v149, v207) if (v207.clone() == v144.clone()), if (v144.clone() == 1), r5(v208, v209, v2) if (v209.clone() == (v0.clone() + 2));
      r7(v0) <-- r5(v0, v210, v1) if (v210.clone() == std::cmp::min(v0.clone(), 4)), r5(v141, v142, v211) if (v211.clone() == v1.clone()), r2(v143), r4(v144, v212) if let Some(v145) = v212.clone(), r1(v213, v146) if (v213.clone() == v0.clone()), r4(v147, v214) if let Some(v148) = v214.clone(), r0(v149, v215) if (v215.clone() == v144.clone()), if (v144.clone() == 1), r5(v216, v217, v2) if (v217.clone() == (v0.clone() + 2));
      r4(0, Some(v0.clone())) <-- r2(v0) if (v0.clone() == 4);
   }
   pub struct Inst { p: Prog, pool: Option<ascent::rayon::ThreadPool> }
   pub fn make(pool: Option<usize>) -> Box<dyn Driver> {
      let pool = pool.map(|n| ascent::rayon::ThreadPoolBuilder::new().num_threads(n).build().unwrap());
      let p = match &pool { Some(pl) => pl.install(|| Default::default()), None => Default::default() };
      Box::new(Inst { p, pool })
   }
   impl Driver for Inst {
      fn load(&mut self, rel: usize, rows: &[Sexp], append: bool) -> Option<()> {
         match rel {
         0 => { let v: Vec<(i64,i64,)> = parse_rows(rows)?; if append { self.p.r0.extend(v) } else { self.p.r0 = v } },
         1 => { let v: Vec<(i64,Option<i64>,)> = parse_rows(rows)?; if append { self.p.r1.extend(v) } else { self.p.r1 = v } },
         2 => { let v: Vec<(i64,)> = parse_rows(rows)?; if append { self.p.r2.extend(v) } else { self.p.r2 = v } },
         3 => { let v: Vec<(i64,i64,i64,)> = parse_rows(rows)?; if append { self.p.r3.extend(v) } else { self.p.r3 = v } },
         4 => { let v: Vec<(i64,Option<i64>,)> = parse_rows(rows)?; if append { self.p.r4.extend(v) } else { self.p.r4 = v } },
         5 => { let v: Vec<(i64,i64,i64,)> = parse_rows(rows)?; if append { self.p.r5.extend(v) } else { self.p.r5 = v } },
         6 => { let v: Vec<(i64,)> = parse_rows(rows)?; if append { self.p.r6.extend(v) } else { self.p.r6 = v } },
         7 => { let v: Vec<(i64,)> = parse_rows(rows)?; if append { self.p.r7.extend(v) } else { self.p.r7 = v } },
            _ => return None,
         }
         Some(())
      }
      fn run(&mut self) { match &self.pool { Some(pl) => { let p = &mut self.p; pl.install(|| p.run()) }, None => self.p.run() } }
      fn run_here(&mut self) { self.p.run() }
      fn run_timeout(&mut self, k: usize) -> Option<bool> { let _ = k; None }
      fn dump(&self) -> String { vec![dump_rel(0, self.p.r0.iter().map(Row::render).collect()), dump_rel(1, self.p.r1.iter().map(Row::render).collect()), dump_rel(2, self.p.r2.iter().map(Row::render).collect()), dump_rel(3, self.p.r3.iter().map(Row::render).collect()), dump_rel(4, self.p.r4.iter().map(Row::render).collect()), dump_rel(5, self.p.r5.iter().map(Row::render).collect()), dump_rel(6, self.p.r6.iter().map(Row::render).collect()), dump_rel(7, self.p.r7.iter().map(Row::render).collect())].join(" | ") }
      fn iters(&self) -> String { format!("iters {}", self.p.scc_iters.iter().map(|x| x.to_string()).collect::<Vec<_>>().join(" ")) }
   }
}

#[allow(unused, non_snake_case, clippy::all)]
pub mod h4x {
   use ascent::*;
   use ascent::aggregators::*;
   use ascent::lattice::{Dual, set::Set};
   use crate::common::*;
   ascent! {
      pub struct Prog;
      relation r0(i64, i64);
      relation r1(i64, Option<i64>);
      relation r2(i64);
      relation r3(i64, i64, i64);
      relation r4(i64, i64);
      relation r5(i64);
      relation r6(i64, Option<i64>);
      relation r7(i64);
      relation r8(i64, i64);
      r8(std::cmp::min((v1.clone() + 2), 6), std::cmp::min((v1.clone() + 2), 6)) <-- r3(v101, v102, v0) if (v101.clone() == 0), r4(v2, v1), r6(v100, v103) if (v103.clone() == Some(v2.clone()));
      r8(0, 3) <-- r3(v101, v102, v0) if (v101.clone() == 0), r4(v2, v1), r6(v100, v103) if (v103.clone() == Some(v2.clone()));
      r8(v0, v0) <-- r3(v101, v102, v0) if (v101.clone() == 0), r4(v2, v1), r6(v100, v103) if (v103.clone() == Some(v2.clone()));
      r8(std::cmp::min((v0.clone() + 1), 6), std::cmp::min((v0.clone() + 1), 6)) <-- r7(v0) if (v0.clone() <= 2), r2(v1), if (v1.clone() != v1.clone()), r2(v2), if (v2.clone() != v2.clone());
      r8(0, 3) <-- r7(v0) if (v0.clone() <= 2), r2(v1), if (v1.clone() != v1.clone()), r2(v2), if (v2.clone() != v2.clone());
      r8(std::cmp::min((v2.clone() + v1.clone()), 6), std::cmp::min((v2.clone() + v1.clone()), 6)) <-- r5(v0), r4(v2, v1), r6(v104, v106) if (v106.clone() == Some(v2.clone())), r4(v107, v108) if (v107.clone() == v2.clone()) if (v108.clone() == v1.clone()), r6(v105, v109) if (v109.clone() == Some(v2.clone()));
      r8(0, 3) <-- r5(v0), r4(v2, v1), r6(v104, v106) if (v106.clone() == Some(v2.clone())), r4(v107, v108) if (v107.clone() == v2.clone()) if (v108.clone() == v1.clone()), r6(v105, v109) if (v109.clone() == Some(v2.clone()));
      r8(v0, v1) <-- r5(v0), r4(v2, v1), r6(v104, v106) if (v106.clone() == Some(v2.clone())), r4(v107, v108) if (v107.clone() == v2.clone()) if (v108.clone() == v1.clone()), r6(v105, v109) if (v109.clone() == Some(v2.clone()));
      r7(v0) <-- r8(v0, v112) if (v112.clone() == 3), r4(v3, v1), r6(v110, v113) if (v113.clone() == Some(v3.clone())), r4(v4, v114) if (v114.clone() == v1.clone()), r6(v111, v115) if (v115.clone() == Some(v4.clone()));
      r7(v0) <-- r8(v0, v116) if (v116.clone() == 3), r8(v1, v117) if (v117.clone() == v1.clone()) if (v1.clone() == v1.clone()), r4(v4, v118) if (v118.clone() == v1.clone()), r6(v111, v119) if (v119.clone() == Some(v4.clone()));
      r5((v0.clone() + 1)) <-- r4(v0, v120) if (v120.clone() == (v0.clone() + 2)) if (v0.clone() == 5), if (v0.clone() < 5);
      r8(3, 3);
      r8(0, 3);
   }
   pub struct Inst { p: Prog, pool: Option<ascent::rayon::ThreadPool> }
   pub fn make(pool: Option<usize>) -> Box<dyn Driver> {
      let pool = pool.map(|n| ascent::rayon::ThreadPoolBuilder::new().num_threads(n).build().unwrap());
      let p = match &pool { Some(pl) => pl.install(|| Default::default()), None => Default::default() };
      Box::new(Inst { p, pool })
   }
   impl Driver for Inst {
      fn load(&mut self, rel: usize, rows: &[Sexp], append: bool) -> Option<()> {
         match rel {
         0 => { let v: Vec<(i64,i64,)> = parse_rows(rows)?; if append { self.p.r0.extend(v) } else { self.p.r0 = v } },
         1 => { let v: Vec<(i64,Option<i64>,)> = parse_rows(rows)?; if append { self.p.r1.extend(v) } else { self.p.r1 = v } },
         2 => { let v: Vec<(i64,)> = parse_rows(rows)?; if append { self.p.r2.extend(v) } else { self.p.r2 = v } },
         3 => { let v: Vec<(i64,i64,i64,)> = parse_rows(rows)?; if append { self.p.r3.extend(v) } else { self.p.r3 = v } },
         4 => { let v: Vec<(i64,i64,)> = parse_rows(rows)?; if append { self.p.r4.extend(v) } else { self.p.r4 = v } },
         5 => { let v: Vec<(i64,)> = parse_rows(rows)?; if append { self.p.r5.extend(v) } else { self.p.r5 = v } },
         6 => { let v: Vec<(i64,Option<i64>,)> = parse_rows(rows)?; if append { self.p.r6.extend(v) } else { self.p.r6 = v } },
         7 => { let v: Vec<(i64,)> = parse_rows(rows)?; if append { self.p.r7.extend(v) } else { self.p.r7 = v } },
         8 => { let v: Vec<(i64,i64,)> = parse_rows(rows)?; if append { self.p.r8.extend(v) } else { self.p.r8 = v } },
            _ => return None,
         }
         Some(())
      }
      fn run(&mut self) { match &self.pool { Some(pl) => { let p = &mut self.p; pl.install(|| p.run()) }, None => self.p.run() } }
      fn run_here(&mut self) { self.p.run() }
      fn run_timeout(&mut self, k: usize) -> Option<bool> { let _ = k; None }
      fn dump(&self) -> String { vec![dump_rel(0, self.p.r0.iter().map(Row::render).collect()), dump_rel(1, self.p.r1.iter().map(Row::render).collect()), dump_rel(2, self.p.r2.iter().map(Row::render).collect()), dump_rel(3, self.p.r3.iter().map(Row::render).collect()), dump_rel(4, self.p.r4.iter().map(Row::render).collect()), dump_rel(5, self.p.r5.iter().map(Row::render).collect()), dump_rel(6, self.p.r6.iter().map(Row::render).collect()), dump_rel(7, self.p.r7.iter().map(Row::render).collect()), dump_rel(8, self.p.r8.iter().map(Row::render).collect())].join(" | ") }
      fn iters(&self) -> String { format!("iters {}", self.p.scc_iters.iter().map(|x| x.to_string()).collect::<Vec<_>>().join(" ")) }
   }
}

#[allow(unused, non_snake_case, clippy::all)]
pub mod h8x {
   use ascent::*;
   use ascent::aggregators::*;
   use ascent::lattice::{Dual, set::Set};
   use crate::common::*;
   ascent! {
      pub struct Prog;
      relation r0(i64, i64);
      relation r1(i64, Option<i64>);
      relation r2(i64);
      relation r3(i64, i64, i64);
      relation r4(i64, i64);
      relation r5(i64);
      relation r6(i64, i64);
      relation r7(i64);
      relation r8(i64, i64, i64);
      r6(std::cmp::min(std::cmp::max(v2.clone(), 2), 6), v0) <-- r8(v0, v101, v1) if (v101.clone() == v0.clone()) if (v1.clone() == 3) let v2 = std::cmp::min(std::cmp::min(v1.clone(), 1), 6), r4(v102, v100) if (v102.clone() == v0.clone()), r5(v103) if (v103.clone() == v100.clone());
      r6(v0, std::cmp::min(std::cmp::max(v2.clone(), 2), 6)) <-- r8(v0, v101, v1) if (v101.clone() == v0.clone()) if (v1.clone() == 3) let v2 = std::cmp::min(std::cmp::min(v1.clone(), 1), 6), r4(v102, v100) if (v102.clone() == v0.clone()), r5(v103) if (v103.clone() == v100.clone());
      r7(v0) <-- r5(v0), r5(v1), r5(v104) if (v104.clone() == v1.clone());
      r6(std::cmp::min(std::cmp::max(v3.clone(), 3), 6), v0) <-- r4(v0, v1) if (v1.clone() != 5) let v2 = std::cmp::min((v0.clone() + v1.clone()), 6), r4(v4, v3), if (v4.clone() < 1), r3(v105, v108, v109) if (v108.clone() == 0) if (v109.clone() == (v105.clone() + v3.clone())), r4(v106, v107), r5(v110) if (v110.clone() == v107.clone());
      r6(v0, std::cmp::min(std::cmp::max(v3.clone(), 3), 6)) <-- r4(v0, v1) if (v1.clone() != 5) let v2 = std::cmp::min((v0.clone() + v1.clone()), 6), r4(v4, v3), if (v4.clone() < 1), r3(v105, v108, v109) if (v108.clone() == 0) if (v109.clone() == (v105.clone() + v3.clone())), r4(v106, v107), r5(v110) if (v110.clone() == v107.clone());
      r6(2, v1) <-- r4(v0, v1) if (v1.clone() != 5) let v2 = std::cmp::min((v0.clone() + v1.clone()), 6), r4(v4, v3), if (v4.clone() < 1), r3(v105, v108, v109) if (v108.clone() == 0) if (v109.clone() == (v105.clone() + v3.clone())), r4(v106, v107), r5(v110) if (v110.clone() == v107.clone());
      r6(std::cmp::min(std::cmp::max(v3.clone(), 3), 6), v0) <-- r4(v0, v1) if (v1.clone() != 5) let v2 = std::cmp::min((v0.clone() + v1.clone()), 6), r0(v3, v5);
      r6(v0, std::cmp::min(std::cmp::max(v3.clone(), 3), 6)) <-- r4(v0, v1) if (v1.clone() != 5) let v2 = std::cmp::min((v0.clone() + v1.clone()), 6), r0(v3, v5);
      r6(2, v1) <-- r4(v0, v1) if (v1.clone() != 5) let v2 = std::cmp::min((v0.clone() + v1.clone()), 6), r0(v3, v5);
      r5(v1) <-- r3(v111, v0, v1) if (v111.clone() == 3) if (v1.clone() != v0.clone()) let v2 = std::cmp::min(std::cmp::min(v0.clone(), 3), 6);
   }
   pub struct Inst { p: Prog, pool: Option<ascent::rayon::ThreadPool> }
   pub fn make(pool: Option<usize>) -> Box<dyn Driver> {
      let pool = pool.map(|n| ascent::rayon::ThreadPoolBuilder::new().num_threads(n).build().unwrap());
      let p = match &pool { Some(pl) => pl.install(|| Default::default()), None => Default::default() };
      Box::new(Inst { p, pool })
   }
   impl Driver for Inst {
      fn load(&mut self, rel: usize, rows: &[Sexp], append: bool) -> Option<()> {
         match rel {
         0 => { let v: Vec<(i64,i64,)> = parse_rows(rows)?; if append { self.p.r0.extend(v) } else { self.p.r0 = v } },
         1 => { let v: Vec<(i64,Option<i64>,)> = parse_rows(rows)?; if append { self.p.r1.extend(v) } else { self.p.r1 = v } },
         2 => { let v: Vec<(i64,)> = parse_rows(rows)?; if append { self.p.r2.extend(v) } else { self.p.r2 = v } },
         3 => { let v: Vec<(i64,i64,i64,)> = parse_rows(rows)?; if append { self.p.r3.extend(v) } else { self.p.r3 = v } },
         4 => { let v: Vec<(i64,i64,)> = parse_rows(rows)?; if append { self.p.r4.extend(v) } else { self.p.r4 = v } },
         5 => { let v: Vec<(i64,)> = parse_rows(rows)?; if append { self.p.r5.extend(v) } else { self.p.r5 = v } },
         6 => { let v: Vec<(i64,i64,)> = parse_rows(rows)?; if append { self.p.r6.extend(v) } else { self.p.r6 = v } },
         7 => { let v: Vec<(i64,)> = parse_rows(rows)?; if append { self.p.r7.extend(v) } else { self.p.r7 = v } },
         8 => { let v: Vec<(i64,i64,i64,)> = parse_rows(rows)?; if append { self.p.r8.extend(v) } else { self.p.r8 = v } },
            _ => return None,
         }
         Some(())
      }
      fn run(&mut self) { match &self.pool { Some(pl) => { let p = &mut self.p; pl.install(|| p.run()) }, None => self.p.run() } }
      fn run_here(&mut self) { self.p.run() }
      fn run_timeout(&mut self, k: usize) -> Option<bool> { let _ = k; None }
      fn dump(&self) -> String { vec![dump_rel(0, self.p.r0.iter().map(Row::render).collect()), dump_rel(1, self.p.r1.iter().map(Row::render).collect()), dump_rel(2, self.p.r2.iter().map(Row::render).collect()), dump_rel(3, self.p.r3.iter().map(Row::render).collect()), dump_rel(4, self.p.r4.iter().map(Row::render).collect()), dump_rel(5, self.p.r5.iter().map(Row::render).collect()), dump_rel(6, self.p.r6.iter().map(Row::render).collect()), dump_rel(7, self.p.r7.iter().map(Row::render).collect()), dump_rel(8, self.p.r8.iter().map(Row::render).collect())].join(" | ") }
      fn iters(&self) -> String { format!("iters {}", self.p.scc_iters.iter().map(|x| x.to_string()).collect::<Vec<_>>().join(" ")) }
   }
}

#[allow(unused, non_snake_case, clippy::all)]
pub mod h12x {
   use ascent::*;
   use ascent::aggregators::*;
   use ascent::lattice::{Dual, set::Set};
   use crate::common::*;
   ascent! {
      pub struct Prog;
      relation r0(i64, i64);
      relation r1(i64, Option<i64>);
      relation r2(i64);
      relation r3(i64, i64, i64);
      relation r4(i64, i64);
      relation r5(i64, i64);
      relation r6(i64, Option<i64>);
      relation r7(i64, Option<i64>);
      r7(std::cmp::min((v3.clone() + 0), 6), Some(std::cmp::min((v3.clone() + 0), 6))) <-- r3(v0, v1, v102) if (v102.clone() == v0.clone()), r5(v2, v103) if (v103.clone() == v0.clone()), r4(v104, v105) if (v104.clone() == v2.clone()), r1(v100, v106) if (v106.clone() == None::<i64>), r2(v107) if (v107.clone() == std::cmp::max(v100.clone(), 0)), if (v100.clone() == 4), if (v0.clone() <= v100.clone()), r5(v108, v3) if (v108.clone() == v0.clone()), r4(v109, v110) if (v109.clone() == v0.clone()), r1(v101, v111) if (v111.clone() == None::<i64>), r2(v112) if (v112.clone() == std::cmp::max(v101.clone(), 0)), if (v101.clone() == 4), if (v3.clone() <= v101.clone());
      r7(std::cmp::min((v3.clone() + 0), 6), Some(std::cmp::min((v3.clone() + 0), 6))) <-- r3(v0, v1, v113) if (v113.clone() == v0.clone()), r6(v2, v114), r5(v115, v3) if (v115.clone() == v0.clone()), r4(v116, v117) if (v116.clone() == v0.clone()), r1(v101, v118) if (v118.clone() == None::<i64>), r2(v119) if (v119.clone() == std::cmp::max(v101.clone(), 0)), if (v101.clone() == 4), if (v3.clone() <= v101.clone());
      r7(std::cmp::min(std::cmp::min(v0.clone(), 2), 6), Some(std::cmp::min(std::cmp::min(v0.clone(), 2), 6))) <-- r4(v0, v120) if (v120.clone() == std::cmp::min(v0.clone(), 2)), r1(v1, v121) if (v121.clone() == None::<i64>), r2(v122) if (v122.clone() == std::cmp::max(v1.clone(), 0)), if (v1.clone() == 4);
      r7(v1, None::<i64>) <-- r0(v0, v124) if (v124.clone() == std::cmp::max(v0.clone(), 2)), r5(v1, v3), r4(v125, v126) if (v125.clone() == v1.clone()), r1(v123, v127) if (v127.clone() == None::<i64>), r2(v128) if (v128.clone() == std::cmp::max(v123.clone(), 0)), if (v123.clone() == 4), if (v3.clone() <= v123.clone());
      r7(v1, None::<i64>) <-- r0(v0, v129) if (v129.clone() == std::cmp::max(v0.clone(), 2)), r4(v130, v1) if (v130.clone() == v0.clone());
      r6(3, Some(v0.clone())) <-- r3(v0, v1, v131) if (v131.clone() == 1), r1(v132, v133) if (v132.clone() == v1.clone()) if (v133.clone() == None::<i64>), r2(v134) if (v134.clone() == std::cmp::max(v1.clone(), 0)), if (v1.clone() == 4);
      r7(std::cmp::min(std::cmp::max(v1.clone(), 0), 6), Some(std::cmp::min(std::cmp::max(v1.clone(), 0), 6))) <-- r4(v137, v138) if (v137.clone() == 3), r5(v0, v1), r4(v139, v140) if (v139.clone() == v0.clone()), r1(v135, v141) if (v141.clone() == None::<i64>), r2(v142) if (v142.clone() == std::cmp::max(v135.clone(), 0)), if (v135.clone() == 4), if (v1.clone() <= v135.clone()), r5(v143, v2) if (v143.clone() == v1.clone()), r4(v144, v145) if (v144.clone() == v1.clone()), r1(v136, v146) if (v146.clone() == None::<i64>), r2(v147) if (v147.clone() == std::cmp::max(v136.clone(), 0)), if (v136.clone() == 4), if (v2.clone() <= v136.clone());
      r6(v0, Some(v0.clone())) <-- r1(v0, v148) if (v148.clone() == None::<i64>), r2(v149) if (v149.clone() == std::cmp::max(v0.clone(), 0)), if (v0.clone() == 4);
      r5(v0, v0) <-- r4(v0, v150) if (v150.clone() == 0);
      r7(3, Some(3));
   }
   pub struct Inst { p: Prog, pool: Option<ascent::rayon::ThreadPool> }
   pub fn make(pool: Option<usize>) -> Box<dyn Driver> {
      let pool = pool.map(|n| ascent::rayon::ThreadPoolBuilder::new().num_threads(n).build().unwrap());
      let p = match &pool { Some(pl) => pl.install(|| Default::default()), None => Default::default() };
      Box::new(Inst { p, pool })
   }
   impl Driver for Inst {
      fn load(&mut self, rel: usize, rows: &[Sexp], append: bool) -> Option<()> {
         match rel {
         0 => { let v: Vec<(i64,i64,)> = parse_rows(rows)?; if append { self.p.r0.extend(v) } else { self.p.r0 = v } },
         1 => { let v: Vec<(i64,Option<i64>,)> = parse_rows(rows)?; if append { self.p.r1.extend(v) } else { self.p.r1 = v } },
         2 => { let v: Vec<(i64,)> = parse_rows(rows)?; if append { self.p.r2.extend(v) } else { self.p.r2 = v } },
         3 => { let v: Vec<(i64,i64,i64,)> = parse_rows(rows)?; if append { self.p.r3.extend(v) } else { self.p.r3 = v } },
         4 => { let v: Vec<(i64,i64,)> = parse_rows(rows)?; if append { self.p.r4.extend(v) } else { self.p.r4 = v } },
         5 => { let v: Vec<(i64,i64,)> = parse_rows(rows)?; if append { self.p.r5.extend(v) } else { self.p.r5 = v } },
         6 => { let v: Vec<(i64,Option<i64>,)> = parse_rows(rows)?; if append { self.p.r6.extend(v) } else { self.p.r6 = v } },
         7 => { let v: Vec<(i64,Option<i64>,)> = parse_rows(rows)?; if append { self.p.r7.extend(v) } else { self.p.r7 = v } },
            _ => return None,
         }
         Some(())
      }
      fn run(&mut self) { match &self.pool { Some(pl) => { let p = &mut self.p; pl.install(|| p.run()) }, None => self.p.run() } }
      fn run_here(&mut self) { self.p.run() }
      fn run_timeout(&mut self, k: usize) -> Option<bool> { let _ = k; None }
      fn dump(&self) -> String { vec![dump_rel(0, self.p.r0.iter().map(Row::render).collect()), dump_rel(1, self.p.r1.iter().map(Row::render).collect()), dump_rel(2, self.p.r2.iter().map(Row::render).collect()), dump_rel(3, self.p.r3.iter().map(Row::render).collect()), dump_rel(4, self.p.r4.iter().map(Row::render).collect()), dump_rel(5, self.p.r5.iter().map(Row::render).collect()), dump_rel(6, self.p.r6.iter().map(Row::render).collect()), dump_rel(7, self.p.r7.iter().map(Row::render).collect())].join(" | ") }
      fn iters(&self) -> String { format!("iters {}", self.p.scc_iters.iter().map(|x| x.to_string()).collect::<Vec<_>>().join(" ")) }
   }
}

#[allow(unused, non_snake_case, clippy::all)]
pub mod a2x {
   use ascent::*;
   use ascent::aggregators::*;
   use ascent::lattice::{Dual, set::Set};
   use crate::common::*;
   ascent! {
      pub struct Prog;
      relation r0(i64, i64);
      relation r1(i64);
      relation r2(i64, i64);
      relation r3(i64);
      r2(v0, v1) <-- r1(v0), r0(v100, v1), if (0 < v100.clone());
      r3(v0) <-- r2(v0, v101);
   }
   pub struct Inst { p: Prog, pool: Option<ascent::rayon::ThreadPool> }
   pub fn make(pool: Option<usize>) -> Box<dyn Driver> {
      let pool = pool.map(|n| ascent::rayon::ThreadPoolBuilder::new().num_threads(n).build().unwrap());
      let p = match &pool { Some(pl) => pl.install(|| Default::default()), None => Default::default() };
      Box::new(Inst { p, pool })
   }
   impl Driver for Inst {
      fn load(&mut self, rel: usize, rows: &[Sexp], append: bool) -> Option<()> {
         match rel {
         0 => { let v: Vec<(i64,i64,)> = parse_rows(rows)?; if append { self.p.r0.extend(v) } else { self.p.r0 = v } },
         1 => { let v: Vec<(i64,)> = parse_rows(rows)?; if append { self.p.r1.extend(v) } else { self.p.r1 = v } },
         2 => { let v: Vec<(i64,i64,)> = parse_rows(rows)?; if append { self.p.r2.extend(v) } else { self.p.r2 = v } },
         3 => { let v: Vec<(i64,)> = parse_rows(rows)?; if append { self.p.r3.extend(v) } else { self.p.r3 = v } },
            _ => return None,
         }
         Some(())
      }
      fn run(&mut self) { match &self.pool { Some(pl) => { let p = &mut self.p; pl.install(|| p.run()) }, None => self.p.run() } }
      fn run_here(&mut self) { self.p.run() }
      fn run_timeout(&mut self, k: usize) -> Option<bool> { let _ = k; None }
      fn dump(&self) -> String { vec![dump_rel(0, self.p.r0.iter().map(Row::render).collect()), dump_rel(1, self.p.r1.iter().map(Row::render).collect()), dump_rel(2, self.p.r2.iter().map(Row::render).collect()), dump_rel(3, self.p.r3.iter().map(Row::render).collect())].join(" | ") }
      fn iters(&self) -> String { format!("iters {}", self.p.scc_iters.iter().map(|x| x.to_string()).collect::<Vec<_>>().join(" ")) }
   }
}

#[allow(unused, non_snake_case, clippy::all)]
pub mod e2x {
   use ascent::*;
   use ascent::aggregators::*;
   use ascent::lattice::{Dual, set::Set};
   use crate::common::*;
   ascent! {
      pub struct Prog;
      relation r0(i64, i64);
      relation r1(i64);
      relation r2(i64, i64);
      relation r3(i64);
      r2(v0, v1) <-- r1(v0), r0(v100, v1), if ((v0.clone() + 2) < 2);
      r3(v0) <-- r2(v0, v101);
   }
   pub struct Inst { p: Prog, pool: Option<ascent::rayon::ThreadPool> }
   pub fn make(pool: Option<usize>) -> Box<dyn Driver> {
      let pool = pool.map(|n| ascent::rayon::ThreadPoolBuilder::new().num_threads(n).build().unwrap());
      let p = match &pool { Some(pl) => pl.install(|| Default::default()), None => Default::default() };
      Box::new(Inst { p, pool })
   }
   impl Driver for Inst {
      fn load(&mut self, rel: usize, rows: &[Sexp], append: bool) -> Option<()> {
         match rel {
         0 => { let v: Vec<(i64,i64,)> = parse_rows(rows)?; if append { self.p.r0.extend(v) } else { self.p.r0 = v } },
         1 => { let v: Vec<(i64,)> = parse_rows(rows)?; if append { self.p.r1.extend(v) } else { self.p.r1 = v } },
         2 => { let v: Vec<(i64,i64,)> = parse_rows(rows)?; if append { self.p.r2.extend(v) } else { self.p.r2 = v } },
         3 => { let v: Vec<(i64,)> = parse_rows(rows)?; if append { self.p.r3.extend(v) } else { self.p.r3 = v } },
            _ => return None,
         }
         Some(())
      }
      fn run(&mut self) { match &self.pool { Some(pl) => { let p = &mut self.p; pl.install(|| p.run()) }, None => self.p.run() } }
      fn run_here(&mut self) { self.p.run() }
      fn run_timeout(&mut self, k: usize) -> Option<bool> { let _ = k; None }
      fn dump(&self) -> String { vec![dump_rel(0, self.p.r0.iter().map(Row::render).collect()), dump_rel(1, self.p.r1.iter().map(Row::render).collect()), dump_rel(2, self.p.r2.iter().map(Row::render).collect()), dump_rel(3, self.p.r3.iter().map(Row::render).collect())].join(" | ") }
      fn iters(&self) -> String { format!("iters {}", self.p.scc_iters.iter().map(|x| x.to_string()).collect::<Vec<_>>().join(" ")) }
   }
}

#[allow(unused, non_snake_case, clippy::all)]
pub mod o1x {
   use ascent::*;
   use ascent::aggregators::*;
   use ascent::lattice::{Dual, set::Set};
   use crate::common::*;
   ascent! {
      pub struct Prog;
      relation r0(i64, Option<i64>);
      relation r1(i64);
      relation r2(i64, i64);
      relation r3(i64);
      r3(v0) <-- r1(v0), r0(v100, v101) if (v100.clone() == v0.clone()) if (v101.clone() == None::<i64>);
      r2(v0, v0) <-- r3(v0);
   }
   pub struct Inst { p: Prog, pool: Option<ascent::rayon::ThreadPool> }
   pub fn make(pool: Option<usize>) -> Box<dyn Driver> {
      let pool = pool.map(|n| ascent::rayon::ThreadPoolBuilder::new().num_threads(n).build().unwrap());
      let p = match &pool { Some(pl) => pl.install(|| Default::default()), None => Default::default() };
      Box::new(Inst { p, pool })
   }
   impl Driver for Inst {
      fn load(&mut self, rel: usize, rows: &[Sexp], append: bool) -> Option<()> {
         match rel {
         0 => { let v: Vec<(i64,Option<i64>,)> = parse_rows(rows)?; if append { self.p.r0.extend(v) } else { self.p.r0 = v } },
         1 => { let v: Vec<(i64,)> = parse_rows(rows)?; if append { self.p.r1.extend(v) } else { self.p.r1 = v } },
         2 => { let v: Vec<(i64,i64,)> = parse_rows(rows)?; if append { self.p.r2.extend(v) } else { self.p.r2 = v } },
         3 => { let v: Vec<(i64,)> = parse_rows(rows)?; if append { self.p.r3.extend(v) } else { self.p.r3 = v } },
            _ => return None,
         }
         Some(())
      }
      fn run(&mut self) { match &self.pool { Some(pl) => { let p = &mut self.p; pl.install(|| p.run()) }, None => self.p.run() } }
      fn run_here(&mut self) { self.p.run() }
      fn run_timeout(&mut self, k: usize) -> Option<bool> { let _ = k; None }
      fn dump(&self) -> String { vec![dump_rel(0, self.p.r0.iter().map(Row::render).collect()), dump_rel(1, self.p.r1.iter().map(Row::render).collect()), dump_rel(2, self.p.r2.iter().map(Row::render).collect()), dump_rel(3, self.p.r3.iter().map(Row::render).collect())].join(" | ") }
      fn iters(&self) -> String { format!("iters {}", self.p.scc_iters.iter().map(|x| x.to_string()).collect::<Vec<_>>().join(" ")) }
   }
}

fn main() {
   common::main_loop(&[("h0x", h0x::make as common::Factory), ("h4x", h4x::make as common::Factory), ("h8x", h8x::make as common::Factory), ("h12x", h12x::make as common::Factory), ("a2x", a2x::make as common::Factory), ("e2x", e2x::make as common::Factory), ("o1x", o1x::make as common::Factory)]);
}
