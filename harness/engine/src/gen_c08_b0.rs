#[path = "common.rs"]
mod common;
#[allow(unused, non_snake_case, clippy::all)]
pub mod h0s {
   use ascent::*;
   use ascent::aggregators::*;
   use ascent::lattice::{Dual, set::Set};
   use crate::common::*;
   ascent! {
      pub struct Prog;
      relation r0(i64, i64);
      relation r1(i64, Option<i64>);
      relation r2(i64);
      relation r3(i64, i64, i64);
      relation r4(i64, Option<i64>);
      relation r5(i64, i64, i64);
      relation r6(i64);
      relation r7(i64);
      macro m0($p0: ident, $p1: ident, $p2: expr) { (r1($p1, v0), r6(0) | r1($p1, v0), r4(v1, ?Some(v2))), r0(v3, $p0) }
      macro m1($p0: ident, $p1: ident, $p2: expr) { (((r4($p1, v0), if ($p0.clone() <= 3), r4(0, Some($p2)) | r1($p1, v0), if ($p2 != $p1.clone()), let v1 = std::cmp::min(($p2 + $p0.clone()), 6)), for v2 in [1, 3]) | r6($p1) | r5(v3, v4, $p1), r2(v5)), r4(v6, ?Some(v7)), m0!(v6, $p0, ($p1.clone() + v7.clone())), if (v6.clone() == 1) }
      macro m2($p0: expr, $p1: ident) { r7(0) }
      r5(v2, v2, v1) <-- r7(v0), m0!(v0, v1, std::cmp::max(v0.clone(), 2)), m0!(v1, v2, v1.clone() + 0);
      r5(2, v0, v2) <-- r5(v0, std::cmp::min(v0.clone(), 2), std::cmp::max(v0.clone(), 2)) if (v0.clone() <= 2), m0!(v0, v1, v0.clone() + 2), r0(v2, 1);
      r7(v0) <-- r5(v0, std::cmp::min(v0.clone(), 4), v1), m1!(v0, v1, v1.clone() + v1.clone()), r5(_, (v0.clone() + 2), v2);
      r4(0, Some(v0.clone())) <-- r2(v0) if (v0.clone() == 4);
   }
   pub struct Inst { p: Prog, pool: Option<ascent::rayon::ThreadPool> }
   pub fn make(pool: Option<usize>) -> Box<dyn Driver> {
      let pool = pool.map(|n| ascent::rayon::ThreadPoolBuilder::new().num_threads(n).build().unwrap());
      let p = match &pool { Some(pl) => pl.install(|| Default::default()), None => Default::default() };
      Box::new(Inst { p, pool })
   }
   impl Driver for Inst {
      fn load(&mut self, rel: usize, rows: &[Sexp], append: bool) -> Option<()> {
         match rel {
         0 => { let v: Vec<(i64,i64,)> = parse_rows(rows)?; if append { self.p.r0.extend(v) } else { self.p.r0 = v } },
         1 => { let v: Vec<(i64,Option<i64>,)> = parse_rows(rows)?; if append { self.p.r1.extend(v) } else { self.p.r1 = v } },
         2 => { let v: Vec<(i64,)> = parse_rows(rows)?; if append { self.p.r2.extend(v) } else { self.p.r2 = v } },
         3 => { let v: Vec<(i64,i64,i64,)> = parse_rows(rows)?; if append { self.p.r3.extend(v) } else { self.p.r3 = v } },
         4 => { let v: Vec<(i64,Option<i64>,)> = parse_rows(rows)?; if append { self.p.r4.extend(v) } else { self.p.r4 = v } },
         5 => { let v: Vec<(i64,i64,i64,)> = parse_rows(rows)?; if append { self.p.r5.extend(v) } else { self.p.r5 = v } },
         6 => { let v: Vec<(i64,)> = parse_rows(rows)?; if append { self.p.r6.extend(v) } else { self.p.r6 = v } },
         7 => { let v: Vec<(i64,)> = parse_rows(rows)?; if append { self.p.r7.extend(v) } else { self.p.r7 = v } },
            _ => return None,
         }
         Some(())
      }
      fn run(&mut self) { match &self.pool { Some(pl) => { let p = &mut self.p; pl.install(|| p.run()) }, None => self.p.run() } }
      fn run_here(&mut self) { self.p.run() }
      fn run_timeout(&mut self, k: usize) -> Option<bool> { let _ = k; None }
      fn dump(&self) -> String { vec![dump_rel(0, self.p.r0.iter().map(Row::render).collect()), dump_rel(1, self.p.r1.iter().map(Row::render).collect()), dump_rel(2, self.p.r2.iter().map(Row::render).collect()), dump_rel(3, self.p.r3.iter().map(Row::render).collect()), dump_rel(4, self.p.r4.iter().map(Row::render).collect()), dump_rel(5, self.p.r5.iter().map(Row::render).collect()), dump_rel(6, self.p.r6.iter().map(Row::render).collect()), dump_rel(7, self.p.r7.iter().map(Row::render).collect())].join(" | ") }
      fn iters(&self) -> String { format!("iters {}", self.p.scc_iters.iter().map(|x| x.to_string()).collect::<Vec<_>>().join(" ")) }
   }
}

#[allow(unused, non_snake_case, clippy::all)]
pub mod h4s {
   use ascent::*;
   use ascent::aggregators::*;
   use ascent::lattice::{Dual, set::Set};
   use crate::common::*;
   ascent! {
      pub struct Prog;
      relation r0(i64, i64);
      relation r1(i64, Option<i64>);
      relation r2(i64);
      relation r3(i64, i64, i64);
      relation r4(i64, i64);
      relation r5(i64);
      relation r6(i64, Option<i64>);
      relation r7(i64);
      relation r8(i64, i64);
      macro m0($p0: ident) { (r6($p0, ?Some(v0)) | r8(v0, $p0), !r0(std::cmp::min(v0.clone(), 2), v0.clone())), r5(v1) }
      macro m1($p0: ident, $p1: ident) { r4($p1, $p0), r6(v0, Some($p1.clone())) }
      macro m2($p0: ident, $p1: expr) { r2($p0), if ($p0.clone() != $p0.clone()) }
      macro m3($p0: expr) { r8($p0, $p0), r8(0, 3) }
      m3!(std::cmp::min((v1.clone() + 2), 6)), r8(v0, v0) <-- r3(0, _, v0), m1!(v1, v2);
      m3!(std::cmp::min((v0.clone() + 1), 6)) <-- r7(v0) if (v0.clone() <= 2), m2!(v1, std::cmp::max(v0.clone(), 0)), m2!(v2, std::cmp::max(v1.clone(), 1));
      m3!(std::cmp::min((v2.clone() + v1.clone()), 6)), r8(v0, v1) <-- r5(v0), m1!(v1, v2), m1!(v1, v2);
      r7(v0) <-- r8(v0, 3), (m1!(v1, v3) | r8(v1, v1) if (v1.clone() == v1.clone())), m1!(v1, v4);
      r5((v0.clone() + 1)) <-- r4(v0, (v0.clone() + 2)) if (v0.clone() == 5), if (v0.clone() < 5);
      m3!(3);
   }
   pub struct Inst { p: Prog, pool: Option<ascent::rayon::ThreadPool> }
   pub fn make(pool: Option<usize>) -> Box<dyn Driver> {
      let pool = pool.map(|n| ascent::rayon::ThreadPoolBuilder::new().num_threads(n).build().unwrap());
      let p = match &pool { Some(pl) => pl.install(|| Default::default()), None => Default::default() };
      Box::new(Inst { p, pool })
   }
   impl Driver for Inst {
      fn load(&mut self, rel: usize, rows: &[Sexp], append: bool) -> Option<()> {
         match rel {
         0 => { let v: Vec<(i64,i64,)> = parse_rows(rows)?; if append { self.p.r0.extend(v) } else { self.p.r0 = v } },
         1 => { let v: Vec<(i64,Option<i64>,)> = parse_rows(rows)?; if append { self.p.r1.extend(v) } else { self.p.r1 = v } },
         2 => { let v: Vec<(i64,)> = parse_rows(rows)?; if append { self.p.r2.extend(v) } else { self.p.r2 = v } },
         3 => { let v: Vec<(i64,i64,i64,)> = parse_rows(rows)?; if append { self.p.r3.extend(v) } else { self.p.r3 = v } },
         4 => { let v: Vec<(i64,i64,)> = parse_rows(rows)?; if append { self.p.r4.extend(v) } else { self.p.r4 = v } },
         5 => { let v: Vec<(i64,)> = parse_rows(rows)?; if append { self.p.r5.extend(v) } else { self.p.r5 = v } },
         6 => { let v: Vec<(i64,Option<i64>,)> = parse_rows(rows)?; if append { self.p.r6.extend(v) } else { self.p.r6 = v } },
         7 => { let v: Vec<(i64,)> = parse_rows(rows)?; if append { self.p.r7.extend(v) } else { self.p.r7 = v } },
         8 => { let v: Vec<(i64,i64,)> = parse_rows(rows)?; if append { self.p.r8.extend(v) } else { self.p.r8 = v } },
            _ => return None,
         }
         Some(())
      }
      fn run(&mut self) { match &self.pool { Some(pl) => { let p = &mut self.p; pl.install(|| p.run()) }, None => self.p.run() } }
      fn run_here(&mut self) { self.p.run() }
      fn run_timeout(&mut self, k: usize) -> Option<bool> { let _ = k; None }
      fn dump(&self) -> String { vec![dump_rel(0, self.p.r0.iter().map(Row::render).collect()), dump_rel(1, self.p.r1.iter().map(Row::render).collect()), dump_rel(2, self.p.r2.iter().map(Row::render).collect()), dump_rel(3, self.p.r3.iter().map(Row::render).collect()), dump_rel(4, self.p.r4.iter().map(Row::render).collect()), dump_rel(5, self.p.r5.iter().map(Row::render).collect()), dump_rel(6, self.p.r6.iter().map(Row::render).collect()), dump_rel(7, self.p.r7.iter().map(Row::render).collect()), dump_rel(8, self.p.r8.iter().map(Row::render).collect())].join(" | ") }
      fn iters(&self) -> String { format!("iters {}", self.p.scc_iters.iter().map(|x| x.to_string()).collect::<Vec<_>>().join(" ")) }
   }
}

#[allow(unused, non_snake_case, clippy::all)]
pub mod h8s {
   use ascent::*;
   use ascent::aggregators::*;
   use ascent::lattice::{Dual, set::Set};
   use crate::common::*;
   ascent! {
      pub struct Prog;
      relation r0(i64, i64);
      relation r1(i64, Option<i64>);
      relation r2(i64);
      relation r3(i64, i64, i64);
      relation r4(i64, i64);
      relation r5(i64);
      relation r6(i64, i64);
      relation r7(i64);
      relation r8(i64, i64, i64);
      macro m0($p0: ident, $p1: expr) { r5($p0) }
      macro m1($p0: ident) { r4($p0, v0), m0!(v0, std::cmp::max($p0.clone(), 0)) }
      macro m2($p0: ident, $p1: ident) { r4($p1, $p0), if ($p1.clone() < 1), r3(v0, 0, (v0.clone() + $p0.clone())), m1!(v1) }
      macro m3($p0: expr, $p1: ident) { r6($p0, $p1), r6($p1, $p0) }
      macro m4($p0: ident, $p1: expr) { r6($p1, 1), m3!(($p1 + 0), $p0) }
      m3!(std::cmp::min(std::cmp::max(v2.clone(), 2), 6), v0) <-- r8(v0, v0, v1) if (v1.clone() == 3) let v2 = std::cmp::min(std::cmp::min(v1.clone(), 1), 6), m1!(v0);
      r7(v0) <-- r5(v0), m0!(v1, std::cmp::max(v0.clone(), 0)), m0!(v1, std::cmp::max(v1.clone(), 3));
      m3!(std::cmp::min(std::cmp::max(v3.clone(), 3), 6), v0), r6(2, v1) <-- r4(v0, v1) if (v1.clone() != 5) let v2 = std::cmp::min((v0.clone() + v1.clone()), 6), (m2!(v3, v4) | r0(v3, v5));
      r5(v1) <-- r3(3, v0, v1) if (v1.clone() != v0.clone()) let v2 = std::cmp::min(std::cmp::min(v0.clone(), 3), 6);
   }
   pub struct Inst { p: Prog, pool: Option<ascent::rayon::ThreadPool> }
   pub fn make(pool: Option<usize>) -> Box<dyn Driver> {
      let pool = pool.map(|n| ascent::rayon::ThreadPoolBuilder::new().num_threads(n).build().unwrap());
      let p = match &pool { Some(pl) => pl.install(|| Default::default()), None => Default::default() };
      Box::new(Inst { p, pool })
   }
   impl Driver for Inst {
      fn load(&mut self, rel: usize, rows: &[Sexp], append: bool) -> Option<()> {
         match rel {
         0 => { let v: Vec<(i64,i64,)> = parse_rows(rows)?; if append { self.p.r0.extend(v) } else { self.p.r0 = v } },
         1 => { let v: Vec<(i64,Option<i64>,)> = parse_rows(rows)?; if append { self.p.r1.extend(v) } else { self.p.r1 = v } },
         2 => { let v: Vec<(i64,)> = parse_rows(rows)?; if append { self.p.r2.extend(v) } else { self.p.r2 = v } },
         3 => { let v: Vec<(i64,i64,i64,)> = parse_rows(rows)?; if append { self.p.r3.extend(v) } else { self.p.r3 = v } },
         4 => { let v: Vec<(i64,i64,)> = parse_rows(rows)?; if append { self.p.r4.extend(v) } else { self.p.r4 = v } },
         5 => { let v: Vec<(i64,)> = parse_rows(rows)?; if append { self.p.r5.extend(v) } else { self.p.r5 = v } },
         6 => { let v: Vec<(i64,i64,)> = parse_rows(rows)?; if append { self.p.r6.extend(v) } else { self.p.r6 = v } },
         7 => { let v: Vec<(i64,)> = parse_rows(rows)?; if append { self.p.r7.extend(v) } else { self.p.r7 = v } },
         8 => { let v: Vec<(i64,i64,i64,)> = parse_rows(rows)?; if append { self.p.r8.extend(v) } else { self.p.r8 = v } },
            _ => return None,
         }
         Some(())
      }
      fn run(&mut self) { match &self.pool { Some(pl) => { let p = &mut self.p; pl.install(|| p.run()) }, None => self.p.run() } }
      fn run_here(&mut self) { self.p.run() }
      fn run_timeout(&mut self, k: usize) -> Option<bool> { let _ = k; None }
      fn dump(&self) -> String { vec![dump_rel(0, self.p.r0.iter().map(Row::render).collect()), dump_rel(1, self.p.r1.iter().map(Row::render).collect()), dump_rel(2, self.p.r2.iter().map(Row::render).collect()), dump_rel(3, self.p.r3.iter().map(Row::render).collect()), dump_rel(4, self.p.r4.iter().map(Row::render).collect()), dump_rel(5, self.p.r5.iter().map(Row::render).collect()), dump_rel(6, self.p.r6.iter().map(Row::render).collect()), dump_rel(7, self.p.r7.iter().map(Row::render).collect()), dump_rel(8, self.p.r8.iter().map(Row::render).collect())].join(" | ") }
      fn iters(&self) -> String { format!("iters {}", self.p.scc_iters.iter().map(|x| x.to_string()).collect::<Vec<_>>().join(" ")) }
   }
}

#[allow(unused, non_snake_case, clippy::all)]
pub mod h12s {
   use ascent::*;
   use ascent::aggregators::*;
   use ascent::lattice::{Dual, set::Set};
   use crate::common::*;
   ascent! {
      pub struct Prog;
      relation r0(i64, i64);
      relation r1(i64, Option<i64>);
      relation r2(i64);
      relation r3(i64, i64, i64);
      relation r4(i64, i64);
      relation r5(i64, i64);
      relation r6(i64, Option<i64>);
      relation r7(i64, Option<i64>);
      macro m0($p0: ident) { r1($p0, None::<i64>), r2(std::cmp::max($p0.clone(), 0)), if ($p0.clone() == 4) }
      macro m1($p0: ident, $p1: ident) { r5($p0, $p1), r4($p0, _), m0!(v0), if ($p1.clone() <= v0.clone()) }
      macro m2($p0: ident) { r3(v0, v0, $p0), r5(2, v1), m0!(v2) }
      macro m3($p0: expr) { r7($p0, Some($p0)) }
      m3!(std::cmp::min((v3.clone() + 0), 6)) <-- r3(v0, v1, v0), (m1!(v2, v0) | r6(v2, _)), m1!(v0, v3);
      m3!(std::cmp::min(std::cmp::min(v0.clone(), 2), 6)) <-- r4(v0, std::cmp::min(v0.clone(), 2)), m0!(v1);
      r7(v1, None::<i64>) <-- r0(v0, std::cmp::max(v0.clone(), 2)), (m1!(v1, v3) | r4(v0, v1));
      r6(3, Some(v0.clone())) <-- r3(v0, v1, 1), m0!(v1);
      m3!(std::cmp::min(std::cmp::max(v1.clone(), 0), 6)) <-- r4(3, _), m1!(v0, v1), m1!(v1, v2);
      r6(v0, Some(v0.clone())) <-- m0!(v0);
      r5(v0, v0) <-- r4(v0, 0);
      m3!(3);
   }
   pub struct Inst { p: Prog, pool: Option<ascent::rayon::ThreadPool> }
   pub fn make(pool: Option<usize>) -> Box<dyn Driver> {
      let pool = pool.map(|n| ascent::rayon::ThreadPoolBuilder::new().num_threads(n).build().unwrap());
      let p = match &pool { Some(pl) => pl.install(|| Default::default()), None => Default::default() };
      Box::new(Inst { p, pool })
   }
   impl Driver for Inst {
      fn load(&mut self, rel: usize, rows: &[Sexp], append: bool) -> Option<()> {
         match rel {
         0 => { let v: Vec<(i64,i64,)> = parse_rows(rows)?; if append { self.p.r0.extend(v) } else { self.p.r0 = v } },
         1 => { let v: Vec<(i64,Option<i64>,)> = parse_rows(rows)?; if append { self.p.r1.extend(v) } else { self.p.r1 = v } },
         2 => { let v: Vec<(i64,)> = parse_rows(rows)?; if append { self.p.r2.extend(v) } else { self.p.r2 = v } },
         3 => { let v: Vec<(i64,i64,i64,)> = parse_rows(rows)?; if append { self.p.r3.extend(v) } else { self.p.r3 = v } },
         4 => { let v: Vec<(i64,i64,)> = parse_rows(rows)?; if append { self.p.r4.extend(v) } else { self.p.r4 = v } },
         5 => { let v: Vec<(i64,i64,)> = parse_rows(rows)?; if append { self.p.r5.extend(v) } else { self.p.r5 = v } },
         6 => { let v: Vec<(i64,Option<i64>,)> = parse_rows(rows)?; if append { self.p.r6.extend(v) } else { self.p.r6 = v } },
         7 => { let v: Vec<(i64,Option<i64>,)> = parse_rows(rows)?; if append { self.p.r7.extend(v) } else { self.p.r7 = v } },
            _ => return None,
         }
         Some(())
      }
      fn run(&mut self) { match &self.pool { Some(pl) => { let p = &mut self.p; pl.install(|| p.run()) }, None => self.p.run() } }
      fn run_here(&mut self) { self.p.run() }
      fn run_timeout(&mut self, k: usize) -> Option<bool> { let _ = k; None }
      fn dump(&self) -> String { vec![dump_rel(0, self.p.r0.iter().map(Row::render).collect()), dump_rel(1, self.p.r1.iter().map(Row::render).collect()), dump_rel(2, self.p.r2.iter().map(Row::render).collect()), dump_rel(3, self.p.r3.iter().map(Row::render).collect()), dump_rel(4, self.p.r4.iter().map(Row::render).collect()), dump_rel(5, self.p.r5.iter().map(Row::render).collect()), dump_rel(6, self.p.r6.iter().map(Row::render).collect()), dump_rel(7, self.p.r7.iter().map(Row::render).collect())].join(" | ") }
      fn iters(&self) -> String { format!("iters {}", self.p.scc_iters.iter().map(|x| x.to_string()).collect::<Vec<_>>().join(" ")) }
   }
}

#[allow(unused, non_snake_case, clippy::all)]
pub mod a2s {
   use ascent::*;
   use ascent::aggregators::*;
   use ascent::lattice::{Dual, set::Set};
   use crate::common::*;
   ascent! {
      pub struct Prog;
      relation r0(i64, i64);
      relation r1(i64);
      relation r2(i64, i64);
      relation r3(i64);
      macro m0($p0: ident) { r0(v0, $p0), if (0 < v0.clone()) }
      r2(v0, v1) <-- r1(v0), m0!(v1);
      r3(v0) <-- r2(v0, _);
   }
   pub struct Inst { p: Prog, pool: Option<ascent::rayon::ThreadPool> }
   pub fn make(pool: Option<usize>) -> Box<dyn Driver> {
      let pool = pool.map(|n| ascent::rayon::ThreadPoolBuilder::new().num_threads(n).build().unwrap());
      let p = match &pool { Some(pl) => pl.install(|| Default::default()), None => Default::default() };
      Box::new(Inst { p, pool })
   }
   impl Driver for Inst {
      fn load(&mut self, rel: usize, rows: &[Sexp], append: bool) -> Option<()> {
         match rel {
         0 => { let v: Vec<(i64,i64,)> = parse_rows(rows)?; if append { self.p.r0.extend(v) } else { self.p.r0 = v } },
         1 => { let v: Vec<(i64,)> = parse_rows(rows)?; if append { self.p.r1.extend(v) } else { self.p.r1 = v } },
         2 => { let v: Vec<(i64,i64,)> = parse_rows(rows)?; if append { self.p.r2.extend(v) } else { self.p.r2 = v } },
         3 => { let v: Vec<(i64,)> = parse_rows(rows)?; if append { self.p.r3.extend(v) } else { self.p.r3 = v } },
            _ => return None,
         }
         Some(())
      }
      fn run(&mut self) { match &self.pool { Some(pl) => { let p = &mut self.p; pl.install(|| p.run()) }, None => self.p.run() } }
      fn run_here(&mut self) { self.p.run() }
      fn run_timeout(&mut self, k: usize) -> Option<bool> { let _ = k; None }
      fn dump(&self) -> String { vec![dump_rel(0, self.p.r0.iter().map(Row::render).collect()), dump_rel(1, self.p.r1.iter().map(Row::render).collect()), dump_rel(2, self.p.r2.iter().map(Row::render).collect()), dump_rel(3, self.p.r3.iter().map(Row::render).collect())].join(" | ") }
      fn iters(&self) -> String { format!("iters {}", self.p.scc_iters.iter().map(|x| x.to_string()).collect::<Vec<_>>().join(" ")) }
   }
}

#[allow(unused, non_snake_case, clippy::all)]
pub mod e2s {
   use ascent::*;
   use ascent::aggregators::*;
   use ascent::lattice::{Dual, set::Set};
   use crate::common::*;
   ascent! {
      pub struct Prog;
      relation r0(i64, i64);
      relation r1(i64);
      relation r2(i64, i64);
      relation r3(i64);
      macro m0($p0: ident, $p1: expr) { r0(v0, $p0), if ($p1 < 2) }
      r2(v0, v1) <-- r1(v0), m0!(v1, v0.clone() + 2);
      r3(v0) <-- r2(v0, _);
   }
   pub struct Inst { p: Prog, pool: Option<ascent::rayon::ThreadPool> }
   pub fn make(pool: Option<usize>) -> Box<dyn Driver> {
      let pool = pool.map(|n| ascent::rayon::ThreadPoolBuilder::new().num_threads(n).build().unwrap());
      let p = match &pool { Some(pl) => pl.install(|| Default::default()), None => Default::default() };
      Box::new(Inst { p, pool })
   }
   impl Driver for Inst {
      fn load(&mut self, rel: usize, rows: &[Sexp], append: bool) -> Option<()> {
         match rel {
         0 => { let v: Vec<(i64,i64,)> = parse_rows(rows)?; if append { self.p.r0.extend(v) } else { self.p.r0 = v } },
         1 => { let v: Vec<(i64,)> = parse_rows(rows)?; if append { self.p.r1.extend(v) } else { self.p.r1 = v } },
         2 => { let v: Vec<(i64,i64,)> = parse_rows(rows)?; if append { self.p.r2.extend(v) } else { self.p.r2 = v } },
         3 => { let v: Vec<(i64,)> = parse_rows(rows)?; if append { self.p.r3.extend(v) } else { self.p.r3 = v } },
            _ => return None,
         }
         Some(())
      }
      fn run(&mut self) { match &self.pool { Some(pl) => { let p = &mut self.p; pl.install(|| p.run()) }, None => self.p.run() } }
      fn run_here(&mut self) { self.p.run() }
      fn run_timeout(&mut self, k: usize) -> Option<bool> { let _ = k; None }
      fn dump(&self) -> String { vec![dump_rel(0, self.p.r0.iter().map(Row::render).collect()), dump_rel(1, self.p.r1.iter().map(Row::render).collect()), dump_rel(2, self.p.r2.iter().map(Row::render).collect()), dump_rel(3, self.p.r3.iter().map(Row::render).collect())].join(" | ") }
      fn iters(&self) -> String { format!("iters {}", self.p.scc_iters.iter().map(|x| x.to_string()).collect::<Vec<_>>().join(" ")) }
   }
}

#[allow(unused, non_snake_case, clippy::all)]
pub mod o1s {
   use ascent::*;
   use ascent::aggregators::*;
   use ascent::lattice::{Dual, set::Set};
   use crate::common::*;
   ascent! {
      pub struct Prog;
      relation r0(i64, Option<i64>);
      relation r1(i64);
      relation r2(i64, i64);
      relation r3(i64);
      macro m0($p0: ident) { r1($p0) }
      r3(v0) <-- m0!(v0), r0(v0, ?None);
      r2(v0, v0) <-- r3(v0);
   }
   pub struct Inst { p: Prog, pool: Option<ascent::rayon::ThreadPool> }
   pub fn make(pool: Option<usize>) -> Box<dyn Driver> {
      let pool = pool.map(|n| ascent::rayon::ThreadPoolBuilder::new().num_threads(n).build().unwrap());
      let p = match &pool { Some(pl) => pl.install(|| Default::default()), None => Default::default() };
      Box::new(Inst { p, pool })
   }
   impl Driver for Inst {
      fn load(&mut self, rel: usize, rows: &[Sexp], append: bool) -> Option<()> {
         match rel {
         0 => { let v: Vec<(i64,Option<i64>,)> = parse_rows(rows)?; if append { self.p.r0.extend(v) } else { self.p.r0 = v } },
         1 => { let v: Vec<(i64,)> = parse_rows(rows)?; if append { self.p.r1.extend(v) } else { self.p.r1 = v } },
         2 => { let v: Vec<(i64,i64,)> = parse_rows(rows)?; if append { self.p.r2.extend(v) } else { self.p.r2 = v } },
         3 => { let v: Vec<(i64,)> = parse_rows(rows)?; if append { self.p.r3.extend(v) } else { self.p.r3 = v } },
            _ => return None,
         }
         Some(())
      }
      fn run(&mut self) { match &self.pool { Some(pl) => { let p = &mut self.p; pl.install(|| p.run()) }, None => self.p.run() } }
      fn run_here(&mut self) { self.p.run() }
      fn run_timeout(&mut self, k: usize) -> Option<bool> { let _ = k; None }
      fn dump(&self) -> String { vec![dump_rel(0, self.p.r0.iter().map(Row::render).collect()), dump_rel(1, self.p.r1.iter().map(Row::render).collect()), dump_rel(2, self.p.r2.iter().map(Row::render).collect()), dump_rel(3, self.p.r3.iter().map(Row::render).collect())].join(" | ") }
      fn iters(&self) -> String { format!("iters {}", self.p.scc_iters.iter().map(|x| x.to_string()).collect::<Vec<_>>().join(" ")) }
   }
}

fn main() {
   common::main_loop(&[("h0s", h0s::make as common::Factory), ("h4s", h4s::make as common::Factory), ("h8s", h8s::make as common::Factory), ("h12s", h12s::make as common::Factory), ("a2s", a2s::make as common::Factory), ("e2s", e2s::make as common::Factory), ("o1s", o1s::make as common::Factory)]);
}
