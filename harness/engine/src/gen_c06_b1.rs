#[path = "common.rs"]
mod common;
#[allow(unused, non_snake_case, clippy::all)]
pub mod m0_perm0 {
   use ascent::*;
   use ascent::aggregators::*;
   use ascent::lattice::{Dual, set::Set};
   use crate::common::*;
   ascent! {
      pub struct Prog;
      relation r5(i64, i64);
      relation r2(i64, i64, i64);
      relation r1(i64, i64);
      relation r3(i64, i64, i64);
      relation r4(i64, i64, i64);
      relation r0(i64);
      r2(v1, v0, v1) <-- if let Some(v0) = Some(4), if (v0 <= 6), r1(v1, v2);
      r2(v0, v8, v9) <-- if let Some(v9) = Some(2), r1(v0, v1), r5(v1, v9) let v8 = ((*v0) + 1);
      r5((v0 + 1), v0) <-- for v0 in [3, 4], if (v0 < 6);
      r3(v0, v1, v2) <-- r5(v0, v1) if ((*v0) < 4), r1(v1, v2) if ((*v2) != (*v1));
      r3(v0, (v0 + 1), v0) <-- let v0 = 2, r1(v1, v0) if ((*v1) < 1), if (v0 <= 6), if (v0 < 6);
      r4(v0, v1, (v0 + 1)) <-- if let Some(v0) = None::<i64>, r3(v1, v0, v0), r2(v0, (v0 + 0), v0), if (v0 < 6), if (v0 <= 6);
   }
   pub struct Inst { p: Prog, pool: Option<ascent::rayon::ThreadPool> }
   pub fn make(pool: Option<usize>) -> Box<dyn Driver> {
      let pool = pool.map(|n| ascent::rayon::ThreadPoolBuilder::new().num_threads(n).build().unwrap());
      let p = match &pool { Some(pl) => pl.install(|| Default::default()), None => Default::default() };
      Box::new(Inst { p, pool })
   }
   impl Driver for Inst {
      fn load(&mut self, rel: usize, rows: &[Sexp], append: bool) -> Option<()> {
         match rel {
         0 => { let v: Vec<(i64,)> = parse_rows(rows)?; if append { self.p.r0.extend(v) } else { self.p.r0 = v } },
         1 => { let v: Vec<(i64,i64,)> = parse_rows(rows)?; if append { self.p.r1.extend(v) } else { self.p.r1 = v } },
         2 => { let v: Vec<(i64,i64,i64,)> = parse_rows(rows)?; if append { self.p.r2.extend(v) } else { self.p.r2 = v } },
         3 => { let v: Vec<(i64,i64,i64,)> = parse_rows(rows)?; if append { self.p.r3.extend(v) } else { self.p.r3 = v } },
         4 => { let v: Vec<(i64,i64,i64,)> = parse_rows(rows)?; if append { self.p.r4.extend(v) } else { self.p.r4 = v } },
         5 => { let v: Vec<(i64,i64,)> = parse_rows(rows)?; if append { self.p.r5.extend(v) } else { self.p.r5 = v } },
            _ => return None,
         }
         Some(())
      }
      fn run(&mut self) { match &self.pool { Some(pl) => { let p = &mut self.p; pl.install(|| p.run()) }, None => self.p.run() } }
      fn run_here(&mut self) { self.p.run() }
      fn run_timeout(&mut self, k: usize) -> Option<bool> { let _ = k; None }
      fn dump(&self) -> String { vec![dump_rel(0, self.p.r0.iter().map(Row::render).collect()), dump_rel(1, self.p.r1.iter().map(Row::render).collect()), dump_rel(2, self.p.r2.iter().map(Row::render).collect()), dump_rel(3, self.p.r3.iter().map(Row::render).collect()), dump_rel(4, self.p.r4.iter().map(Row::render).collect()), dump_rel(5, self.p.r5.iter().map(Row::render).collect())].join(" | ") }
      fn iters(&self) -> String { format!("iters {}", self.p.scc_iters.iter().map(|x| x.to_string()).collect::<Vec<_>>().join(" ")) }
   }
}

#[allow(unused, non_snake_case, clippy::all)]
pub mod m1_ren1 {
   use ascent::*;
   use ascent::aggregators::*;
   use ascent::lattice::{Dual, set::Set};
   use crate::common::*;
   ascent! {
      pub struct Prog;
      relation edge(i64, i64);
      relation path(i64, i64);
      relation node(i64);
      relation foo(i64, i64, i64);
      foo(0, 3, 3) <-- edge(1, 1);
      foo(a, a, (a + 1)) <-- let a = 2, foo(a, (a + 1), (a + 1)), path(a, a), if (a <= 6), if (a < 6);
      foo(a, b, c) <-- edge(a, b) if ((*a) < 3), path(b, c) if ((*c) != (*b));
      node(a) <-- edge(a, b) if ((*a) < 3), path(b, c) if ((*c) != (*b));
      foo(b, ((*a) + 1), b) <-- node(a) if ((*a) < 2), path(b, a), if ((*a) < 6);
      foo(b, b, b) <-- edge(3, 2), path(0, a), path(a, b);
      path(3, 3) <-- path(1, 1);
      foo(1, 2, 1);
   }
   pub struct Inst { p: Prog, pool: Option<ascent::rayon::ThreadPool> }
   pub fn make(pool: Option<usize>) -> Box<dyn Driver> {
      let pool = pool.map(|n| ascent::rayon::ThreadPoolBuilder::new().num_threads(n).build().unwrap());
      let p = match &pool { Some(pl) => pl.install(|| Default::default()), None => Default::default() };
      Box::new(Inst { p, pool })
   }
   impl Driver for Inst {
      fn load(&mut self, rel: usize, rows: &[Sexp], append: bool) -> Option<()> {
         match rel {
         0 => { let v: Vec<(i64,i64,)> = parse_rows(rows)?; if append { self.p.edge.extend(v) } else { self.p.edge = v } },
         1 => { let v: Vec<(i64,i64,)> = parse_rows(rows)?; if append { self.p.path.extend(v) } else { self.p.path = v } },
         2 => { let v: Vec<(i64,)> = parse_rows(rows)?; if append { self.p.node.extend(v) } else { self.p.node = v } },
         3 => { let v: Vec<(i64,i64,i64,)> = parse_rows(rows)?; if append { self.p.foo.extend(v) } else { self.p.foo = v } },
            _ => return None,
         }
         Some(())
      }
      fn run(&mut self) { match &self.pool { Some(pl) => { let p = &mut self.p; pl.install(|| p.run()) }, None => self.p.run() } }
      fn run_here(&mut self) { self.p.run() }
      fn run_timeout(&mut self, k: usize) -> Option<bool> { let _ = k; None }
      fn dump(&self) -> String { vec![dump_rel(0, self.p.edge.iter().map(Row::render).collect()), dump_rel(1, self.p.path.iter().map(Row::render).collect()), dump_rel(2, self.p.node.iter().map(Row::render).collect()), dump_rel(3, self.p.foo.iter().map(Row::render).collect())].join(" | ") }
      fn iters(&self) -> String { format!("iters {}", self.p.scc_iters.iter().map(|x| x.to_string()).collect::<Vec<_>>().join(" ")) }
   }
}

#[allow(unused, non_snake_case, clippy::all)]
pub mod m3_perm1 {
   use ascent::*;
   use ascent::aggregators::*;
   use ascent::lattice::{Dual, set::Set};
   use crate::common::*;
   ascent! {
      pub struct Prog;
      relation r5(i64, i64, i64);
      relation r0(i64, i64);
      relation r4(i64, i64);
      relation r1(i64);
      relation r2(i64);
      relation r3(i64, i64);
      r3(v0, v8) <-- r0(v0, v1), if let Some(v9) = Some(2), r3(v1, v9) let v8 = ((*v0) + 1);
      r3(v0, 1) <-- r2(v0) if ((*v0) != 1);
      r0(3, 0);
      r5((v2 + 1), v2, 1) <-- r4(v0, v1) if ((*v0) < 1) let v2 = ((*v1) + 0), r3(v2, v0), if (v2 < 6), if (v2 <= 6), let v3 = (*v1);
      r2(v1) <-- r1(v1), if let Some(v0) = Some(4), r0(v0, v2);
      r4(v0, v0) <-- r3(v0, 3), if ((*v0) <= 1), r2(v0);
      r4(v0, 1) <-- r0(v0, 3) if ((*v0) != 6), let v1 = (*v0);
      r1(((*v0) + 1)) <-- r0(1, v0), if ((*v0) < 6);
      r1(v1) <-- let v0 = 0, r0(v1, v0), if ((*v1) != 3);
   }
   pub struct Inst { p: Prog, pool: Option<ascent::rayon::ThreadPool> }
   pub fn make(pool: Option<usize>) -> Box<dyn Driver> {
      let pool = pool.map(|n| ascent::rayon::ThreadPoolBuilder::new().num_threads(n).build().unwrap());
      let p = match &pool { Some(pl) => pl.install(|| Default::default()), None => Default::default() };
      Box::new(Inst { p, pool })
   }
   impl Driver for Inst {
      fn load(&mut self, rel: usize, rows: &[Sexp], append: bool) -> Option<()> {
         match rel {
         0 => { let v: Vec<(i64,i64,)> = parse_rows(rows)?; if append { self.p.r0.extend(v) } else { self.p.r0 = v } },
         1 => { let v: Vec<(i64,)> = parse_rows(rows)?; if append { self.p.r1.extend(v) } else { self.p.r1 = v } },
         2 => { let v: Vec<(i64,)> = parse_rows(rows)?; if append { self.p.r2.extend(v) } else { self.p.r2 = v } },
         3 => { let v: Vec<(i64,i64,)> = parse_rows(rows)?; if append { self.p.r3.extend(v) } else { self.p.r3 = v } },
         4 => { let v: Vec<(i64,i64,)> = parse_rows(rows)?; if append { self.p.r4.extend(v) } else { self.p.r4 = v } },
         5 => { let v: Vec<(i64,i64,i64,)> = parse_rows(rows)?; if append { self.p.r5.extend(v) } else { self.p.r5 = v } },
            _ => return None,
         }
         Some(())
      }
      fn run(&mut self) { match &self.pool { Some(pl) => { let p = &mut self.p; pl.install(|| p.run()) }, None => self.p.run() } }
      fn run_here(&mut self) { self.p.run() }
      fn run_timeout(&mut self, k: usize) -> Option<bool> { let _ = k; None }
      fn dump(&self) -> String { vec![dump_rel(0, self.p.r0.iter().map(Row::render).collect()), dump_rel(1, self.p.r1.iter().map(Row::render).collect()), dump_rel(2, self.p.r2.iter().map(Row::render).collect()), dump_rel(3, self.p.r3.iter().map(Row::render).collect()), dump_rel(4, self.p.r4.iter().map(Row::render).collect()), dump_rel(5, self.p.r5.iter().map(Row::render).collect())].join(" | ") }
      fn iters(&self) -> String { format!("iters {}", self.p.scc_iters.iter().map(|x| x.to_string()).collect::<Vec<_>>().join(" ")) }
   }
}

#[allow(unused, non_snake_case, clippy::all)]
pub mod m5 {
   use ascent::*;
   use ascent::aggregators::*;
   use ascent::lattice::{Dual, set::Set};
   use crate::common::*;
   ascent! {
      pub struct Prog;
      relation r0(i64, i64);
      relation r1(i64, i64);
      relation r2(i64, i64);
      r2(v0, v1) <-- r2(v0, v1), r2(v1, v1), if ((*v1) != 2);
      r2(v1, v1) <-- r0(v0, v1), r2(v0, v2);
   }
   pub struct Inst { p: Prog, pool: Option<ascent::rayon::ThreadPool> }
   pub fn make(pool: Option<usize>) -> Box<dyn Driver> {
      let pool = pool.map(|n| ascent::rayon::ThreadPoolBuilder::new().num_threads(n).build().unwrap());
      let p = match &pool { Some(pl) => pl.install(|| Default::default()), None => Default::default() };
      Box::new(Inst { p, pool })
   }
   impl Driver for Inst {
      fn load(&mut self, rel: usize, rows: &[Sexp], append: bool) -> Option<()> {
         match rel {
         0 => { let v: Vec<(i64,i64,)> = parse_rows(rows)?; if append { self.p.r0.extend(v) } else { self.p.r0 = v } },
         1 => { let v: Vec<(i64,i64,)> = parse_rows(rows)?; if append { self.p.r1.extend(v) } else { self.p.r1 = v } },
         2 => { let v: Vec<(i64,i64,)> = parse_rows(rows)?; if append { self.p.r2.extend(v) } else { self.p.r2 = v } },
            _ => return None,
         }
         Some(())
      }
      fn run(&mut self) { match &self.pool { Some(pl) => { let p = &mut self.p; pl.install(|| p.run()) }, None => self.p.run() } }
      fn run_here(&mut self) { self.p.run() }
      fn run_timeout(&mut self, k: usize) -> Option<bool> { let _ = k; None }
      fn dump(&self) -> String { vec![dump_rel(0, self.p.r0.iter().map(Row::render).collect()), dump_rel(1, self.p.r1.iter().map(Row::render).collect()), dump_rel(2, self.p.r2.iter().map(Row::render).collect())].join(" | ") }
      fn iters(&self) -> String { format!("iters {}", self.p.scc_iters.iter().map(|x| x.to_string()).collect::<Vec<_>>().join(" ")) }
   }
}

#[allow(unused, non_snake_case, clippy::all)]
pub mod m6_perm0 {
   use ascent::*;
   use ascent::aggregators::*;
   use ascent::lattice::{Dual, set::Set};
   use crate::common::*;
   ascent! {
      pub struct Prog;
      relation r1(i64, i64);
      relation r0(i64, i64);
      relation r2(i64, i64);
      r2(v0, v0) <-- r2(3, v0), r2(v0, v1);
      r2(1, v0) <-- r1(v0, v1);
      r2(v0, v2) <-- r1(v0, v1), r2(v1, v2), r1(v2, v3);
      r2(v0, v1) <-- r0(v0, v1), if ((*v0) == 3);
      r2(v0, v1) <-- r2(v0, v1), r2(v1, v1);
      r1(1, 0);
   }
   pub struct Inst { p: Prog, pool: Option<ascent::rayon::ThreadPool> }
   pub fn make(pool: Option<usize>) -> Box<dyn Driver> {
      let pool = pool.map(|n| ascent::rayon::ThreadPoolBuilder::new().num_threads(n).build().unwrap());
      let p = match &pool { Some(pl) => pl.install(|| Default::default()), None => Default::default() };
      Box::new(Inst { p, pool })
   }
   impl Driver for Inst {
      fn load(&mut self, rel: usize, rows: &[Sexp], append: bool) -> Option<()> {
         match rel {
         0 => { let v: Vec<(i64,i64,)> = parse_rows(rows)?; if append { self.p.r0.extend(v) } else { self.p.r0 = v } },
         1 => { let v: Vec<(i64,i64,)> = parse_rows(rows)?; if append { self.p.r1.extend(v) } else { self.p.r1 = v } },
         2 => { let v: Vec<(i64,i64,)> = parse_rows(rows)?; if append { self.p.r2.extend(v) } else { self.p.r2 = v } },
            _ => return None,
         }
         Some(())
      }
      fn run(&mut self) { match &self.pool { Some(pl) => { let p = &mut self.p; pl.install(|| p.run()) }, None => self.p.run() } }
      fn run_here(&mut self) { self.p.run() }
      fn run_timeout(&mut self, k: usize) -> Option<bool> { let _ = k; None }
      fn dump(&self) -> String { vec![dump_rel(0, self.p.r0.iter().map(Row::render).collect()), dump_rel(1, self.p.r1.iter().map(Row::render).collect()), dump_rel(2, self.p.r2.iter().map(Row::render).collect())].join(" | ") }
      fn iters(&self) -> String { format!("iters {}", self.p.scc_iters.iter().map(|x| x.to_string()).collect::<Vec<_>>().join(" ")) }
   }
}

#[allow(unused, non_snake_case, clippy::all)]
pub mod m7_perm1 {
   use ascent::*;
   use ascent::aggregators::*;
   use ascent::lattice::{Dual, set::Set};
   use crate::common::*;
   ascent! {
      pub struct Prog;
      relation r2(i64, i64);
      relation r3(i64);
      relation r1(i64, i64);
      relation r0(i64, i64);
      r1(v0, v1) <-- r0(v0, v1), r0(v1, v2), if ((*v2) == 1), r2(v0, v0);
      r1(v0, v2) <-- r0(v0, v1), r1(v1, v2), r0(v2, v3);
      r3(2) <-- r2(v1, v2), r1(0, v0), if ((*v0) != 2);
      r1(1, 2);
      r2(v1, v1) <-- r0(v0, v1);
      r3(v1) <-- r0(v0, v1), if ((*v0) == 0);
      r1(v0, v0) <-- r0(v0, v1), if ((*v0) != 3);
      r1(1, 3);
   }
   pub struct Inst { p: Prog, pool: Option<ascent::rayon::ThreadPool> }
   pub fn make(pool: Option<usize>) -> Box<dyn Driver> {
      let pool = pool.map(|n| ascent::rayon::ThreadPoolBuilder::new().num_threads(n).build().unwrap());
      let p = match &pool { Some(pl) => pl.install(|| Default::default()), None => Default::default() };
      Box::new(Inst { p, pool })
   }
   impl Driver for Inst {
      fn load(&mut self, rel: usize, rows: &[Sexp], append: bool) -> Option<()> {
         match rel {
         0 => { let v: Vec<(i64,i64,)> = parse_rows(rows)?; if append { self.p.r0.extend(v) } else { self.p.r0 = v } },
         1 => { let v: Vec<(i64,i64,)> = parse_rows(rows)?; if append { self.p.r1.extend(v) } else { self.p.r1 = v } },
         2 => { let v: Vec<(i64,i64,)> = parse_rows(rows)?; if append { self.p.r2.extend(v) } else { self.p.r2 = v } },
         3 => { let v: Vec<(i64,)> = parse_rows(rows)?; if append { self.p.r3.extend(v) } else { self.p.r3 = v } },
            _ => return None,
         }
         Some(())
      }
      fn run(&mut self) { match &self.pool { Some(pl) => { let p = &mut self.p; pl.install(|| p.run()) }, None => self.p.run() } }
      fn run_here(&mut self) { self.p.run() }
      fn run_timeout(&mut self, k: usize) -> Option<bool> { let _ = k; None }
      fn dump(&self) -> String { vec![dump_rel(0, self.p.r0.iter().map(Row::render).collect()), dump_rel(1, self.p.r1.iter().map(Row::render).collect()), dump_rel(2, self.p.r2.iter().map(Row::render).collect()), dump_rel(3, self.p.r3.iter().map(Row::render).collect())].join(" | ") }
      fn iters(&self) -> String { format!("iters {}", self.p.scc_iters.iter().map(|x| x.to_string()).collect::<Vec<_>>().join(" ")) }
   }
}

#[allow(unused, non_snake_case, clippy::all)]
pub mod m8_ren0 {
   use ascent::*;
   use ascent::aggregators::*;
   use ascent::lattice::{Dual, set::Set};
   use crate::common::*;
   ascent! {
      pub struct Prog;
      relation rel0_(i64);
      relation rel1_(i64, i64);
      relation rel2_(i64, i64, i64);
      relation rel3_(i64, i64);
      relation rel4_(i64);
      rel1_(x0_, x0_) <-- rel0_(x0_), if ((*x0_) != 0);
      rel1_(x1_, x0_) <-- rel1_(x0_, x1_), rel0_(x0_);
      rel4_(x0_) <-- rel3_(x0_, x1_), rel1_(x1_, x2_), if ((*x2_) == 0);
      rel3_(x1_, x0_) <-- rel2_(0, x0_, x1_), if ((*x1_) == 2);
   }
   pub struct Inst { p: Prog, pool: Option<ascent::rayon::ThreadPool> }
   pub fn make(pool: Option<usize>) -> Box<dyn Driver> {
      let pool = pool.map(|n| ascent::rayon::ThreadPoolBuilder::new().num_threads(n).build().unwrap());
      let p = match &pool { Some(pl) => pl.install(|| Default::default()), None => Default::default() };
      Box::new(Inst { p, pool })
   }
   impl Driver for Inst {
      fn load(&mut self, rel: usize, rows: &[Sexp], append: bool) -> Option<()> {
         match rel {
         0 => { let v: Vec<(i64,)> = parse_rows(rows)?; if append { self.p.rel0_.extend(v) } else { self.p.rel0_ = v } },
         1 => { let v: Vec<(i64,i64,)> = parse_rows(rows)?; if append { self.p.rel1_.extend(v) } else { self.p.rel1_ = v } },
         2 => { let v: Vec<(i64,i64,i64,)> = parse_rows(rows)?; if append { self.p.rel2_.extend(v) } else { self.p.rel2_ = v } },
         3 => { let v: Vec<(i64,i64,)> = parse_rows(rows)?; if append { self.p.rel3_.extend(v) } else { self.p.rel3_ = v } },
         4 => { let v: Vec<(i64,)> = parse_rows(rows)?; if append { self.p.rel4_.extend(v) } else { self.p.rel4_ = v } },
            _ => return None,
         }
         Some(())
      }
      fn run(&mut self) { match &self.pool { Some(pl) => { let p = &mut self.p; pl.install(|| p.run()) }, None => self.p.run() } }
      fn run_here(&mut self) { self.p.run() }
      fn run_timeout(&mut self, k: usize) -> Option<bool> { let _ = k; None }
      fn dump(&self) -> String { vec![dump_rel(0, self.p.rel0_.iter().map(Row::render).collect()), dump_rel(1, self.p.rel1_.iter().map(Row::render).collect()), dump_rel(2, self.p.rel2_.iter().map(Row::render).collect()), dump_rel(3, self.p.rel3_.iter().map(Row::render).collect()), dump_rel(4, self.p.rel4_.iter().map(Row::render).collect())].join(" | ") }
      fn iters(&self) -> String { format!("iters {}", self.p.scc_iters.iter().map(|x| x.to_string()).collect::<Vec<_>>().join(" ")) }
   }
}

#[allow(unused, non_snake_case, clippy::all)]
pub mod m9_ren1 {
   use ascent::*;
   use ascent::aggregators::*;
   use ascent::lattice::{Dual, set::Set};
   use crate::common::*;
   ascent! {
      pub struct Prog;
      relation edge(i64, i64);
      relation path(i64, i64);
      relation node(i64, i64, i64);
      node(a, a, a) <-- path(a, 3), if ((*a) == 1);
      node(a, b, a) <-- path(a, b), path(b, b);
      path(b, c) <-- node(a, 3, b), path(1, c), if ((*a) != 3);
      path(3, 2);
      node(c, b, f) <-- path(a, b), node(c, b, d), node(e, b, f), if ((*a) != 2);
   }
   pub struct Inst { p: Prog, pool: Option<ascent::rayon::ThreadPool> }
   pub fn make(pool: Option<usize>) -> Box<dyn Driver> {
      let pool = pool.map(|n| ascent::rayon::ThreadPoolBuilder::new().num_threads(n).build().unwrap());
      let p = match &pool { Some(pl) => pl.install(|| Default::default()), None => Default::default() };
      Box::new(Inst { p, pool })
   }
   impl Driver for Inst {
      fn load(&mut self, rel: usize, rows: &[Sexp], append: bool) -> Option<()> {
         match rel {
         0 => { let v: Vec<(i64,i64,)> = parse_rows(rows)?; if append { self.p.edge.extend(v) } else { self.p.edge = v } },
         1 => { let v: Vec<(i64,i64,)> = parse_rows(rows)?; if append { self.p.path.extend(v) } else { self.p.path = v } },
         2 => { let v: Vec<(i64,i64,i64,)> = parse_rows(rows)?; if append { self.p.node.extend(v) } else { self.p.node = v } },
            _ => return None,
         }
         Some(())
      }
      fn run(&mut self) { match &self.pool { Some(pl) => { let p = &mut self.p; pl.install(|| p.run()) }, None => self.p.run() } }
      fn run_here(&mut self) { self.p.run() }
      fn run_timeout(&mut self, k: usize) -> Option<bool> { let _ = k; None }
      fn dump(&self) -> String { vec![dump_rel(0, self.p.edge.iter().map(Row::render).collect()), dump_rel(1, self.p.path.iter().map(Row::render).collect()), dump_rel(2, self.p.node.iter().map(Row::render).collect())].join(" | ") }
      fn iters(&self) -> String { format!("iters {}", self.p.scc_iters.iter().map(|x| x.to_string()).collect::<Vec<_>>().join(" ")) }
   }
}

#[allow(unused, non_snake_case, clippy::all)]
pub mod m11 {
   use ascent::*;
   use ascent::aggregators::*;
   use ascent::lattice::{Dual, set::Set};
   use crate::common::*;
   ascent! {
      pub struct Prog;
      relation r0(i64, i64);
      relation r1(i64, i64);
      relation r2(i64, i64);
      r2(v0, v1) <-- r2(v0, v1), r0(v0, v0), r2(v1, v2);
      r2(1, v0) <-- if let Some(v0) = Some(3), r1(v0, v1), r0(v0, v0), for v2 in 0..4, if (v0 <= 6);
   }
   pub struct Inst { p: Prog, pool: Option<ascent::rayon::ThreadPool> }
   pub fn make(pool: Option<usize>) -> Box<dyn Driver> {
      let pool = pool.map(|n| ascent::rayon::ThreadPoolBuilder::new().num_threads(n).build().unwrap());
      let p = match &pool { Some(pl) => pl.install(|| Default::default()), None => Default::default() };
      Box::new(Inst { p, pool })
   }
   impl Driver for Inst {
      fn load(&mut self, rel: usize, rows: &[Sexp], append: bool) -> Option<()> {
         match rel {
         0 => { let v: Vec<(i64,i64,)> = parse_rows(rows)?; if append { self.p.r0.extend(v) } else { self.p.r0 = v } },
         1 => { let v: Vec<(i64,i64,)> = parse_rows(rows)?; if append { self.p.r1.extend(v) } else { self.p.r1 = v } },
         2 => { let v: Vec<(i64,i64,)> = parse_rows(rows)?; if append { self.p.r2.extend(v) } else { self.p.r2 = v } },
            _ => return None,
         }
         Some(())
      }
      fn run(&mut self) { match &self.pool { Some(pl) => { let p = &mut self.p; pl.install(|| p.run()) }, None => self.p.run() } }
      fn run_here(&mut self) { self.p.run() }
      fn run_timeout(&mut self, k: usize) -> Option<bool> { let _ = k; None }
      fn dump(&self) -> String { vec![dump_rel(0, self.p.r0.iter().map(Row::render).collect()), dump_rel(1, self.p.r1.iter().map(Row::render).collect()), dump_rel(2, self.p.r2.iter().map(Row::render).collect())].join(" | ") }
      fn iters(&self) -> String { format!("iters {}", self.p.scc_iters.iter().map(|x| x.to_string()).collect::<Vec<_>>().join(" ")) }
   }
}

#[allow(unused, non_snake_case, clippy::all)]
pub mod m12_ren0 {
   use ascent::*;
   use ascent::aggregators::*;
   use ascent::lattice::{Dual, set::Set};
   use crate::common::*;
   ascent! {
      pub struct Prog;
      relation rel0_(i64, i64, i64);
      relation rel1_(i64, i64, i64);
      relation rel2_(i64);
      relation rel3_(i64);
      relation rel4_(i64, i64, i64);
      relation rel5_(i64, i64);
      rel3_(x2_) <-- rel1_(x0_, x1_, x2_) if ((*x0_) != 5) let x3_ = ((*x2_) + 0);
      rel3_(((*x0_) + 1)) <-- rel3_(1), rel0_(x0_, x1_, x2_), if ((*x0_) < 6);
      rel4_(x0_, x1_, x2_) <-- rel5_(x0_, x1_), rel5_(x0_, x0_), rel5_(x1_, x2_);
      rel5_(((*x0_) + 1), x0_) <-- rel4_(1, 2, x0_) if ((*x0_) < 2), if ((*x0_) < 6);
   }
   pub struct Inst { p: Prog, pool: Option<ascent::rayon::ThreadPool> }
   pub fn make(pool: Option<usize>) -> Box<dyn Driver> {
      let pool = pool.map(|n| ascent::rayon::ThreadPoolBuilder::new().num_threads(n).build().unwrap());
      let p = match &pool { Some(pl) => pl.install(|| Default::default()), None => Default::default() };
      Box::new(Inst { p, pool })
   }
   impl Driver for Inst {
      fn load(&mut self, rel: usize, rows: &[Sexp], append: bool) -> Option<()> {
         match rel {
         0 => { let v: Vec<(i64,i64,i64,)> = parse_rows(rows)?; if append { self.p.rel0_.extend(v) } else { self.p.rel0_ = v } },
         1 => { let v: Vec<(i64,i64,i64,)> = parse_rows(rows)?; if append { self.p.rel1_.extend(v) } else { self.p.rel1_ = v } },
         2 => { let v: Vec<(i64,)> = parse_rows(rows)?; if append { self.p.rel2_.extend(v) } else { self.p.rel2_ = v } },
         3 => { let v: Vec<(i64,)> = parse_rows(rows)?; if append { self.p.rel3_.extend(v) } else { self.p.rel3_ = v } },
         4 => { let v: Vec<(i64,i64,i64,)> = parse_rows(rows)?; if append { self.p.rel4_.extend(v) } else { self.p.rel4_ = v } },
         5 => { let v: Vec<(i64,i64,)> = parse_rows(rows)?; if append { self.p.rel5_.extend(v) } else { self.p.rel5_ = v } },
            _ => return None,
         }
         Some(())
      }
      fn run(&mut self) { match &self.pool { Some(pl) => { let p = &mut self.p; pl.install(|| p.run()) }, None => self.p.run() } }
      fn run_here(&mut self) { self.p.run() }
      fn run_timeout(&mut self, k: usize) -> Option<bool> { let _ = k; None }
      fn dump(&self) -> String { vec![dump_rel(0, self.p.rel0_.iter().map(Row::render).collect()), dump_rel(1, self.p.rel1_.iter().map(Row::render).collect()), dump_rel(2, self.p.rel2_.iter().map(Row::render).collect()), dump_rel(3, self.p.rel3_.iter().map(Row::render).collect()), dump_rel(4, self.p.rel4_.iter().map(Row::render).collect()), dump_rel(5, self.p.rel5_.iter().map(Row::render).collect())].join(" | ") }
      fn iters(&self) -> String { format!("iters {}", self.p.scc_iters.iter().map(|x| x.to_string()).collect::<Vec<_>>().join(" ")) }
   }
}

fn main() {
   common::main_loop(&[("m0_perm0", m0_perm0::make as common::Factory), ("m1_ren1", m1_ren1::make as common::Factory), ("m3_perm1", m3_perm1::make as common::Factory), ("m5", m5::make as common::Factory), ("m6_perm0", m6_perm0::make as common::Factory), ("m7_perm1", m7_perm1::make as common::Factory), ("m8_ren0", m8_ren0::make as common::Factory), ("m9_ren1", m9_ren1::make as common::Factory), ("m11", m11::make as common::Factory), ("m12_ren0", m12_ren0::make as common::Factory)]);
}
