#[path = "common.rs"]
mod common;
#[allow(unused, non_snake_case, clippy::all)]
pub mod h3x {
   use ascent::*;
   use ascent::aggregators::*;
   use ascent::lattice::{Dual, set::Set};
   use crate::common::*;
   ascent! {
      pub struct Prog;
      relation r0(i64, i64);
      relation r1(i64, Option<i64>);
      relation r2(i64);
      relation r3(i64, i64, i64);
      relation r4(i64, i64);
      relation r5(i64);
      relation r6(i64, Option<i64>, i64);
      relation r7(i64, Option<i64>);
      r6(v0, Some(1), v0) <-- r2(v0) if (v0.clone() != 4), r1(v104, v100) if (v104.clone() == v0.clone()), r1(v105, v106) if (v105.clone() == (v0.clone() + v0.clone())) if let Some(v101) = v106.clone(), r1(v107, v102) if (v107.clone() == v0.clone()), r1(v108, v109) if (v108.clone() == (v0.clone() + v0.clone())) if let Some(v103) = v109.clone();
      r7(v1, Some(v1.clone())) <-- r4(v0, v112), r1(v113, v110) if (v113.clone() == v0.clone()), r1(v114, v115) if (v114.clone() == (v0.clone() + v0.clone())) if let Some(v111) = v115.clone(), r2(v1);
      r7(v2, Some(v2.clone())) <-- r1(v0, v118) if let Some(v1) = v118.clone(), r1(v2, v116), r1(v119, v120) if (v119.clone() == (v1.clone() + v2.clone())) if let Some(v117) = v120.clone();
      r7(3, None::<i64>) <-- r1(v0, v118) if let Some(v1) = v118.clone(), r1(v2, v116), r1(v119, v120) if (v119.clone() == (v1.clone() + v2.clone())) if let Some(v117) = v120.clone();
      r7(v2, Some(v2.clone())) <-- r1(v0, v121) if let Some(v1) = v121.clone(), r3(v2, v122, v123) if (v122.clone() == (v0.clone() + v0.clone())) if (v123.clone() == v1.clone()) if (v2.clone() != 3);
      r7(3, None::<i64>) <-- r1(v0, v121) if let Some(v1) = v121.clone(), r3(v2, v122, v123) if (v122.clone() == (v0.clone() + v0.clone())) if (v123.clone() == v1.clone()) if (v2.clone() != 3);
      r7(v0, Some(v0.clone())) <-- r3(v0, v129, v130) if (v129.clone() == (v0.clone() + 1)) if (v130.clone() == v0.clone()), r0(v131, v124) if (v131.clone() == v0.clone()), let v125 = std::cmp::min((v124.clone() + v124.clone()), 6), r1(v126, v127), r1(v132, v133) if (v132.clone() == (v0.clone() + v126.clone())) if let Some(v128) = v133.clone(), r7(v1, v134) if (v134.clone() == None::<i64>);
      r6(v1, Some(v1.clone()), 1) <-- r3(v0, v129, v130) if (v129.clone() == (v0.clone() + 1)) if (v130.clone() == v0.clone()), r0(v131, v124) if (v131.clone() == v0.clone()), let v125 = std::cmp::min((v124.clone() + v124.clone()), 6), r1(v126, v127), r1(v132, v133) if (v132.clone() == (v0.clone() + v126.clone())) if let Some(v128) = v133.clone(), r7(v1, v134) if (v134.clone() == None::<i64>);
      r5((v1.clone() + 1)) <-- r3(v0, v145, v146) if (v145.clone() == v0.clone()) if (v146.clone() == (v0.clone() + 2)), r0(v1, v135), let v136 = std::cmp::min((v135.clone() + v135.clone()), 6), r1(v137, v138), r1(v147, v148) if (v147.clone() == (v1.clone() + v137.clone())) if let Some(v139) = v148.clone(), r0(v4, v140), let v141 = std::cmp::min((v140.clone() + v140.clone()), 6), r1(v142, v143), r1(v149, v150) if (v149.clone() == (v4.clone() + v142.clone())) if let Some(v144) = v150.clone(), if (v1.clone() < 5);
      r5((v1.clone() + 1)) <-- r3(v0, v151, v152) if (v151.clone() == v0.clone()) if (v152.clone() == (v0.clone() + 2)), r4(v3, v1), r0(v4, v140), let v141 = std::cmp::min((v140.clone() + v140.clone()), 6), r1(v142, v143), r1(v153, v154) if (v153.clone() == (v4.clone() + v142.clone())) if let Some(v144) = v154.clone(), if (v1.clone() < 5);
      r4(v1, v0) <-- r1(v0, v155) if let Some(v1) = v155.clone() if (v0.clone() < 2);
   }
   pub struct Inst { p: Prog, pool: Option<ascent::rayon::ThreadPool> }
   pub fn make(pool: Option<usize>) -> Box<dyn Driver> {
      let pool = pool.map(|n| ascent::rayon::ThreadPoolBuilder::new().num_threads(n).build().unwrap());
      let p = match &pool { Some(pl) => pl.install(|| Default::default()), None => Default::default() };
      Box::new(Inst { p, pool })
   }
   impl Driver for Inst {
      fn load(&mut self, rel: usize, rows: &[Sexp], append: bool) -> Option<()> {
         match rel {
         0 => { let v: Vec<(i64,i64,)> = parse_rows(rows)?; if append { self.p.r0.extend(v) } else { self.p.r0 = v } },
         1 => { let v: Vec<(i64,Option<i64>,)> = parse_rows(rows)?; if append { self.p.r1.extend(v) } else { self.p.r1 = v } },
         2 => { let v: Vec<(i64,)> = parse_rows(rows)?; if append { self.p.r2.extend(v) } else { self.p.r2 = v } },
         3 => { let v: Vec<(i64,i64,i64,)> = parse_rows(rows)?; if append { self.p.r3.extend(v) } else { self.p.r3 = v } },
         4 => { let v: Vec<(i64,i64,)> = parse_rows(rows)?; if append { self.p.r4.extend(v) } else { self.p.r4 = v } },
         5 => { let v: Vec<(i64,)> = parse_rows(rows)?; if append { self.p.r5.extend(v) } else { self.p.r5 = v } },
         6 => { let v: Vec<(i64,Option<i64>,i64,)> = parse_rows(rows)?; if append { self.p.r6.extend(v) } else { self.p.r6 = v } },
         7 => { let v: Vec<(i64,Option<i64>,)> = parse_rows(rows)?; if append { self.p.r7.extend(v) } else { self.p.r7 = v } },
            _ => return None,
         }
         Some(())
      }
      fn run(&mut self) { match &self.pool { Some(pl) => { let p = &mut self.p; pl.install(|| p.run()) }, None => self.p.run() } }
      fn run_here(&mut self) { self.p.run() }
      fn run_timeout(&mut self, k: usize) -> Option<bool> { let _ = k; None }
      fn dump(&self) -> String { vec![dump_rel(0, self.p.r0.iter().map(Row::render).collect()), dump_rel(1, self.p.r1.iter().map(Row::render).collect()), dump_rel(2, self.p.r2.iter().map(Row::render).collect()), dump_rel(3, self.p.r3.iter().map(Row::render).collect()), dump_rel(4, self.p.r4.iter().map(Row::render).collect()), dump_rel(5, self.p.r5.iter().map(Row::render).collect()), dump_rel(6, self.p.r6.iter().map(Row::render).collect()), dump_rel(7, self.p.r7.iter().map(Row::render).collect())].join(" | ") }
      fn iters(&self) -> String { format!("iters {}", self.p.scc_iters.iter().map(|x| x.to_string()).collect::<Vec<_>>().join(" ")) }
   }
}

#[allow(unused, non_snake_case, clippy::all)]
pub mod h7x {
   use ascent::*;
   use ascent::aggregators::*;
   use ascent::lattice::{Dual, set::Set};
   use crate::common::*;
   ascent! {
      pub struct Prog;
      relation r0(i64, i64);
      relation r1(i64, Option<i64>);
      relation r2(i64);
      relation r3(i64, i64, i64);
      relation r4(i64, Option<i64>);
      relation r5(i64, i64, i64);
      relation r6(i64, i64);
      r5(v1, 1, v2) <-- r2(v0) if (v0.clone() < 0), r4(v1, v102) if let Some(v100) = v102.clone(), if (v100.clone() < v0.clone()), r4(v2, v103) if let Some(v101) = v103.clone(), if (v101.clone() < v0.clone());
      r5(1, v0, std::cmp::min(std::cmp::max(v3.clone(), 1), 6)) <-- r1(v0, v1), r3(v104, v2, v106) if (v106.clone() == v2.clone()), if (v2.clone() == 3), r3(v105, v107, v3) if (v107.clone() == v2.clone()), if (v2.clone() == 3);
      r5(v0, 0, v3) <-- r1(v0, v1), r3(v104, v2, v106) if (v106.clone() == v2.clone()), if (v2.clone() == 3), r3(v105, v107, v3) if (v107.clone() == v2.clone()), if (v2.clone() == 3);
      r5(1, v1, std::cmp::min(std::cmp::max(v1.clone(), 1), 6)) <-- r4(v0, v109) if let Some(v1) = v109.clone(), r4(v2, v110) if let Some(v108) = v110.clone(), if (v108.clone() < v0.clone());
      r5(v0, v2, v0) <-- r4(v0, v109) if let Some(v1) = v109.clone(), r4(v2, v110) if let Some(v108) = v110.clone(), if (v108.clone() < v0.clone());
      r5(v0, v0, std::cmp::min((v0.clone() + v1.clone()), 6)) <-- r2(v0), r3(v111, v112, v1) if (v112.clone() == v0.clone()), if (v0.clone() == 3);
      r6(v0, v0) <-- r2(v0), r3(v111, v112, v1) if (v112.clone() == v0.clone()), if (v0.clone() == 3);
      r5(v1, v1, std::cmp::min((v0.clone() + v1.clone()), 6)) <-- r3(v0, v1, v114) if (v114.clone() == (v1.clone() + v0.clone())), r4(v2, v115) if let Some(v113) = v115.clone(), if (v113.clone() < v1.clone());
      r6(v1, v1) <-- r3(v0, v1, v114) if (v114.clone() == (v1.clone() + v0.clone())), r4(v2, v115) if let Some(v113) = v115.clone(), if (v113.clone() < v1.clone());
      r5(v1, v1, std::cmp::min((v0.clone() + v1.clone()), 6)) <-- r2(v0), r4(v1, v122) if let Some(v116) = v122.clone(), r6(v123, v117), if (v117.clone() < v116.clone()), r3(v121, v120, v119), if (v120.clone() == 3), if (v1.clone() < 5);
      r6(v1, v1) <-- r2(v0), r4(v1, v122) if let Some(v116) = v122.clone(), r6(v123, v117), if (v117.clone() < v116.clone()), r3(v121, v120, v119), if (v120.clone() == 3), if (v1.clone() < 5);
      r5(v1, v1, std::cmp::min((v0.clone() + v1.clone()), 6)) <-- r2(v0), r3(v1, v124, v116) if (v124.clone() == std::cmp::max(v0.clone(), 3)), if let Some(v118) = Some(std::cmp::max(v0.clone(), 3)), r3(v121, v120, v119), if (v120.clone() == 3), if (v1.clone() < 5);
      r6(v1, v1) <-- r2(v0), r3(v1, v124, v116) if (v124.clone() == std::cmp::max(v0.clone(), 3)), if let Some(v118) = Some(std::cmp::max(v0.clone(), 3)), r3(v121, v120, v119), if (v120.clone() == 3), if (v1.clone() < 5);
      r5(v1, v1, std::cmp::min((v0.clone() + v1.clone()), 6)) <-- r2(v0), r3(v3, v125, v1) if (v125.clone() == v3.clone());
      r6(v1, v1) <-- r2(v0), r3(v3, v125, v1) if (v125.clone() == v3.clone());
      r4(v0, Some(v0.clone())) <-- r1(v126, v127) if let Some(v0) = v127.clone() if (v0.clone() < 0);
   }
   pub struct Inst { p: Prog, pool: Option<ascent::rayon::ThreadPool> }
   pub fn make(pool: Option<usize>) -> Box<dyn Driver> {
      let pool = pool.map(|n| ascent::rayon::ThreadPoolBuilder::new().num_threads(n).build().unwrap());
      let p = match &pool { Some(pl) => pl.install(|| Default::default()), None => Default::default() };
      Box::new(Inst { p, pool })
   }
   impl Driver for Inst {
      fn load(&mut self, rel: usize, rows: &[Sexp], append: bool) -> Option<()> {
         match rel {
         0 => { let v: Vec<(i64,i64,)> = parse_rows(rows)?; if append { self.p.r0.extend(v) } else { self.p.r0 = v } },
         1 => { let v: Vec<(i64,Option<i64>,)> = parse_rows(rows)?; if append { self.p.r1.extend(v) } else { self.p.r1 = v } },
         2 => { let v: Vec<(i64,)> = parse_rows(rows)?; if append { self.p.r2.extend(v) } else { self.p.r2 = v } },
         3 => { let v: Vec<(i64,i64,i64,)> = parse_rows(rows)?; if append { self.p.r3.extend(v) } else { self.p.r3 = v } },
         4 => { let v: Vec<(i64,Option<i64>,)> = parse_rows(rows)?; if append { self.p.r4.extend(v) } else { self.p.r4 = v } },
         5 => { let v: Vec<(i64,i64,i64,)> = parse_rows(rows)?; if append { self.p.r5.extend(v) } else { self.p.r5 = v } },
         6 => { let v: Vec<(i64,i64,)> = parse_rows(rows)?; if append { self.p.r6.extend(v) } else { self.p.r6 = v } },
            _ => return None,
         }
         Some(())
      }
      fn run(&mut self) { match &self.pool { Some(pl) => { let p = &mut self.p; pl.install(|| p.run()) }, None => self.p.run() } }
      fn run_here(&mut self) { self.p.run() }
      fn run_timeout(&mut self, k: usize) -> Option<bool> { let _ = k; None }
      fn dump(&self) -> String { vec![dump_rel(0, self.p.r0.iter().map(Row::render).collect()), dump_rel(1, self.p.r1.iter().map(Row::render).collect()), dump_rel(2, self.p.r2.iter().map(Row::render).collect()), dump_rel(3, self.p.r3.iter().map(Row::render).collect()), dump_rel(4, self.p.r4.iter().map(Row::render).collect()), dump_rel(5, self.p.r5.iter().map(Row::render).collect()), dump_rel(6, self.p.r6.iter().map(Row::render).collect())].join(" | ") }
      fn iters(&self) -> String { format!("iters {}", self.p.scc_iters.iter().map(|x| x.to_string()).collect::<Vec<_>>().join(" ")) }
   }
}

#[allow(unused, non_snake_case, clippy::all)]
pub mod h11x {
   use ascent::*;
   use ascent::aggregators::*;
   use ascent::lattice::{Dual, set::Set};
   use crate::common::*;
   ascent! {
      pub struct Prog;
      relation r0(i64, i64);
      relation r1(i64, Option<i64>);
      relation r2(i64);
      relation r3(i64, i64, i64);
      relation r4(i64);
      relation r5(i64, i64, i64);
      relation r6(i64, Option<i64>);
      relation r7(i64, i64, i64);
      r7(3, std::cmp::min((v1.clone() + v1.clone()), 6), 3) <-- r7(v102, v0, v1), r7(v2, v103, v100) if (v103.clone() == std::cmp::max(v2.clone(), 0)), r7(v104, v105, v101) if (v104.clone() == v2.clone()) if (v105.clone() == std::cmp::max(v2.clone(), 0));
      r5(v0, v0, v0) <-- r7(v102, v0, v1), r7(v2, v103, v100) if (v103.clone() == std::cmp::max(v2.clone(), 0)), r7(v104, v105, v101) if (v104.clone() == v2.clone()) if (v105.clone() == std::cmp::max(v2.clone(), 0));
      r5(2, 0, v0) <-- r7(v102, v0, v1), r7(v2, v103, v100) if (v103.clone() == std::cmp::max(v2.clone(), 0)), r7(v104, v105, v101) if (v104.clone() == v2.clone()) if (v105.clone() == std::cmp::max(v2.clone(), 0));
      r7(3, std::cmp::min((v1.clone() + v1.clone()), 6), 3) <-- r7(v106, v0, v1), r7(v2, v107, v100) if (v107.clone() == std::cmp::max(v2.clone(), 0)), r6(v108, v109) if (v108.clone() == v2.clone()) if let Some(v101) = v109.clone();
      r5(v0, v0, v0) <-- r7(v106, v0, v1), r7(v2, v107, v100) if (v107.clone() == std::cmp::max(v2.clone(), 0)), r6(v108, v109) if (v108.clone() == v2.clone()) if let Some(v101) = v109.clone();
      r5(2, 0, v0) <-- r7(v106, v0, v1), r7(v2, v107, v100) if (v107.clone() == std::cmp::max(v2.clone(), 0)), r6(v108, v109) if (v108.clone() == v2.clone()) if let Some(v101) = v109.clone();
      r7(3, std::cmp::min((v1.clone() + v1.clone()), 6), 3) <-- r7(v110, v0, v1), r6(v2, v111) if let Some(v100) = v111.clone(), r7(v112, v113, v101) if (v112.clone() == v2.clone()) if (v113.clone() == std::cmp::max(v2.clone(), 0));
      r5(v0, v0, v0) <-- r7(v110, v0, v1), r6(v2, v111) if let Some(v100) = v111.clone(), r7(v112, v113, v101) if (v112.clone() == v2.clone()) if (v113.clone() == std::cmp::max(v2.clone(), 0));
      r5(2, 0, v0) <-- r7(v110, v0, v1), r6(v2, v111) if let Some(v100) = v111.clone(), r7(v112, v113, v101) if (v112.clone() == v2.clone()) if (v113.clone() == std::cmp::max(v2.clone(), 0));
      r7(3, std::cmp::min((v1.clone() + v1.clone()), 6), 3) <-- r7(v114, v0, v1), r6(v2, v115) if let Some(v100) = v115.clone(), r6(v116, v117) if (v116.clone() == v2.clone()) if let Some(v101) = v117.clone();
      r5(v0, v0, v0) <-- r7(v114, v0, v1), r6(v2, v115) if let Some(v100) = v115.clone(), r6(v116, v117) if (v116.clone() == v2.clone()) if let Some(v101) = v117.clone();
      r5(2, 0, v0) <-- r7(v114, v0, v1), r6(v2, v115) if let Some(v100) = v115.clone(), r6(v116, v117) if (v116.clone() == v2.clone()) if let Some(v101) = v117.clone();
      r7(3, std::cmp::min(std::cmp::max(v1.clone(), 1), 6), 3) <-- r7(v0, v119, v120) if (v120.clone() == v0.clone()), r7(v1, v121, v118) if (v121.clone() == std::cmp::max(v1.clone(), 0));
      r5(v1, v1, v1) <-- r7(v0, v119, v120) if (v120.clone() == v0.clone()), r7(v1, v121, v118) if (v121.clone() == std::cmp::max(v1.clone(), 0));
      r5(2, 0, v1) <-- r7(v0, v119, v120) if (v120.clone() == v0.clone()), r7(v1, v121, v118) if (v121.clone() == std::cmp::max(v1.clone(), 0));
      r7(3, std::cmp::min(std::cmp::max(v1.clone(), 1), 6), 3) <-- r7(v0, v122, v123) if (v123.clone() == v0.clone()), r6(v1, v124) if let Some(v118) = v124.clone();
      r5(v1, v1, v1) <-- r7(v0, v122, v123) if (v123.clone() == v0.clone()), r6(v1, v124) if let Some(v118) = v124.clone();
      r5(2, 0, v1) <-- r7(v0, v122, v123) if (v123.clone() == v0.clone()), r6(v1, v124) if let Some(v118) = v124.clone();
      r7(v0, v0, v1) <-- r2(v0) if (v0.clone() == 4), r1(v131, v125) if (v131.clone() == v0.clone()), r0(v132, v130) if (v132.clone() == v0.clone()), if (std::cmp::min(v0.clone(), 4) <= 3), r1(v1, v2);
      r7(v0, v0, v1) <-- r2(v0) if (v0.clone() == 4), r7(v126, v133, v127) if (v133.clone() == v0.clone()), agg () = not() in r0(std::cmp::min(v0.clone(), 4), _), r0(v134, v130) if (v134.clone() == v0.clone()), if (std::cmp::min(v0.clone(), 4) <= 3), r1(v1, v2);
      r7(v0, v0, v1) <-- r2(v0) if (v0.clone() == 4), r5(v135, v127, v126) if (v135.clone() == v0.clone()), r5(v136, v128, v129) if (v136.clone() == 2), agg () = not() in r0(std::cmp::min(v0.clone(), 4), _), r0(v137, v130) if (v137.clone() == v0.clone()), if (std::cmp::min(v0.clone(), 4) <= 3), r1(v1, v2);
      r7(v0, v0, v1) <-- r2(v0) if (v0.clone() == 4), r7(v127, v138, v126) if (v138.clone() == v0.clone()), agg () = not() in r0(std::cmp::min(v0.clone(), 4), _), r0(v139, v130) if (v139.clone() == v0.clone()), if (std::cmp::min(v0.clone(), 4) <= 3), r1(v1, v2);
      r7(1, 1, v0) <-- r1(v0, v142), r7(v143, v144, v140) if (v143.clone() == v0.clone()) if (v144.clone() == std::cmp::max(v0.clone(), 0)), r7(v145, v146, v141) if (v145.clone() == v0.clone()) if (v146.clone() == std::cmp::max(v0.clone(), 0));
      r7(1, 1, v0) <-- r1(v0, v147), r7(v148, v149, v140) if (v148.clone() == v0.clone()) if (v149.clone() == std::cmp::max(v0.clone(), 0)), r6(v150, v151) if (v150.clone() == v0.clone()) if let Some(v141) = v151.clone();
      r7(1, 1, v0) <-- r1(v0, v152), r6(v153, v154) if (v153.clone() == v0.clone()) if let Some(v140) = v154.clone(), r7(v155, v156, v141) if (v155.clone() == v0.clone()) if (v156.clone() == std::cmp::max(v0.clone(), 0));
      r7(1, 1, v0) <-- r1(v0, v157), r6(v158, v159) if (v158.clone() == v0.clone()) if let Some(v140) = v159.clone(), r6(v160, v161) if (v160.clone() == v0.clone()) if let Some(v141) = v161.clone();
      r4(v0) <-- r1(v0, v1);
   }
   pub struct Inst { p: Prog, pool: Option<ascent::rayon::ThreadPool> }
   pub fn make(pool: Option<usize>) -> Box<dyn Driver> {
      let pool = pool.map(|n| ascent::rayon::ThreadPoolBuilder::new().num_threads(n).build().unwrap());
      let p = match &pool { Some(pl) => pl.install(|| Default::default()), None => Default::default() };
      Box::new(Inst { p, pool })
   }
   impl Driver for Inst {
      fn load(&mut self, rel: usize, rows: &[Sexp], append: bool) -> Option<()> {
         match rel {
         0 => { let v: Vec<(i64,i64,)> = parse_rows(rows)?; if append { self.p.r0.extend(v) } else { self.p.r0 = v } },
         1 => { let v: Vec<(i64,Option<i64>,)> = parse_rows(rows)?; if append { self.p.r1.extend(v) } else { self.p.r1 = v } },
         2 => { let v: Vec<(i64,)> = parse_rows(rows)?; if append { self.p.r2.extend(v) } else { self.p.r2 = v } },
         3 => { let v: Vec<(i64,i64,i64,)> = parse_rows(rows)?; if append { self.p.r3.extend(v) } else { self.p.r3 = v } },
         4 => { let v: Vec<(i64,)> = parse_rows(rows)?; if append { self.p.r4.extend(v) } else { self.p.r4 = v } },
         5 => { let v: Vec<(i64,i64,i64,)> = parse_rows(rows)?; if append { self.p.r5.extend(v) } else { self.p.r5 = v } },
         6 => { let v: Vec<(i64,Option<i64>,)> = parse_rows(rows)?; if append { self.p.r6.extend(v) } else { self.p.r6 = v } },
         7 => { let v: Vec<(i64,i64,i64,)> = parse_rows(rows)?; if append { self.p.r7.extend(v) } else { self.p.r7 = v } },
            _ => return None,
         }
         Some(())
      }
      fn run(&mut self) { match &self.pool { Some(pl) => { let p = &mut self.p; pl.install(|| p.run()) }, None => self.p.run() } }
      fn run_here(&mut self) { self.p.run() }
      fn run_timeout(&mut self, k: usize) -> Option<bool> { let _ = k; None }
      fn dump(&self) -> String { vec![dump_rel(0, self.p.r0.iter().map(Row::render).collect()), dump_rel(1, self.p.r1.iter().map(Row::render).collect()), dump_rel(2, self.p.r2.iter().map(Row::render).collect()), dump_rel(3, self.p.r3.iter().map(Row::render).collect()), dump_rel(4, self.p.r4.iter().map(Row::render).collect()), dump_rel(5, self.p.r5.iter().map(Row::render).collect()), dump_rel(6, self.p.r6.iter().map(Row::render).collect()), dump_rel(7, self.p.r7.iter().map(Row::render).collect())].join(" | ") }
      fn iters(&self) -> String { format!("iters {}", self.p.scc_iters.iter().map(|x| x.to_string()).collect::<Vec<_>>().join(" ")) }
   }
}

#[allow(unused, non_snake_case, clippy::all)]
pub mod a1x {
   use ascent::*;
   use ascent::aggregators::*;
   use ascent::lattice::{Dual, set::Set};
   use crate::common::*;
   ascent! {
      pub struct Prog;
      relation r0(i64, i64);
      relation r1(i64);
      relation r2(i64, i64);
      relation r3(i64);
      r2(v0, v1) <-- r1(v0), r0(v100, v1) if (1 < v1.clone());
      r3(v0) <-- r2(v0, v101);
   }
   pub struct Inst { p: Prog, pool: Option<ascent::rayon::ThreadPool> }
   pub fn make(pool: Option<usize>) -> Box<dyn Driver> {
      let pool = pool.map(|n| ascent::rayon::ThreadPoolBuilder::new().num_threads(n).build().unwrap());
      let p = match &pool { Some(pl) => pl.install(|| Default::default()), None => Default::default() };
      Box::new(Inst { p, pool })
   }
   impl Driver for Inst {
      fn load(&mut self, rel: usize, rows: &[Sexp], append: bool) -> Option<()> {
         match rel {
         0 => { let v: Vec<(i64,i64,)> = parse_rows(rows)?; if append { self.p.r0.extend(v) } else { self.p.r0 = v } },
         1 => { let v: Vec<(i64,)> = parse_rows(rows)?; if append { self.p.r1.extend(v) } else { self.p.r1 = v } },
         2 => { let v: Vec<(i64,i64,)> = parse_rows(rows)?; if append { self.p.r2.extend(v) } else { self.p.r2 = v } },
         3 => { let v: Vec<(i64,)> = parse_rows(rows)?; if append { self.p.r3.extend(v) } else { self.p.r3 = v } },
            _ => return None,
         }
         Some(())
      }
      fn run(&mut self) { match &self.pool { Some(pl) => { let p = &mut self.p; pl.install(|| p.run()) }, None => self.p.run() } }
      fn run_here(&mut self) { self.p.run() }
      fn run_timeout(&mut self, k: usize) -> Option<bool> { let _ = k; None }
      fn dump(&self) -> String { vec![dump_rel(0, self.p.r0.iter().map(Row::render).collect()), dump_rel(1, self.p.r1.iter().map(Row::render).collect()), dump_rel(2, self.p.r2.iter().map(Row::render).collect()), dump_rel(3, self.p.r3.iter().map(Row::render).collect())].join(" | ") }
      fn iters(&self) -> String { format!("iters {}", self.p.scc_iters.iter().map(|x| x.to_string()).collect::<Vec<_>>().join(" ")) }
   }
}

#[allow(unused, non_snake_case, clippy::all)]
pub mod e1x {
   use ascent::*;
   use ascent::aggregators::*;
   use ascent::lattice::{Dual, set::Set};
   use crate::common::*;
   ascent! {
      pub struct Prog;
      relation r0(i64, i64);
      relation r1(i64);
      relation r2(i64, i64);
      relation r3(i64);
      r2(v0, v1) <-- r1(v0), r0(v100, v1), if ((6 - (v0.clone() + 2)) < 8);
      r3(v0) <-- r2(v0, v101);
   }
   pub struct Inst { p: Prog, pool: Option<ascent::rayon::ThreadPool> }
   pub fn make(pool: Option<usize>) -> Box<dyn Driver> {
      let pool = pool.map(|n| ascent::rayon::ThreadPoolBuilder::new().num_threads(n).build().unwrap());
      let p = match &pool { Some(pl) => pl.install(|| Default::default()), None => Default::default() };
      Box::new(Inst { p, pool })
   }
   impl Driver for Inst {
      fn load(&mut self, rel: usize, rows: &[Sexp], append: bool) -> Option<()> {
         match rel {
         0 => { let v: Vec<(i64,i64,)> = parse_rows(rows)?; if append { self.p.r0.extend(v) } else { self.p.r0 = v } },
         1 => { let v: Vec<(i64,)> = parse_rows(rows)?; if append { self.p.r1.extend(v) } else { self.p.r1 = v } },
         2 => { let v: Vec<(i64,i64,)> = parse_rows(rows)?; if append { self.p.r2.extend(v) } else { self.p.r2 = v } },
         3 => { let v: Vec<(i64,)> = parse_rows(rows)?; if append { self.p.r3.extend(v) } else { self.p.r3 = v } },
            _ => return None,
         }
         Some(())
      }
      fn run(&mut self) { match &self.pool { Some(pl) => { let p = &mut self.p; pl.install(|| p.run()) }, None => self.p.run() } }
      fn run_here(&mut self) { self.p.run() }
      fn run_timeout(&mut self, k: usize) -> Option<bool> { let _ = k; None }
      fn dump(&self) -> String { vec![dump_rel(0, self.p.r0.iter().map(Row::render).collect()), dump_rel(1, self.p.r1.iter().map(Row::render).collect()), dump_rel(2, self.p.r2.iter().map(Row::render).collect()), dump_rel(3, self.p.r3.iter().map(Row::render).collect())].join(" | ") }
      fn iters(&self) -> String { format!("iters {}", self.p.scc_iters.iter().map(|x| x.to_string()).collect::<Vec<_>>().join(" ")) }
   }
}

#[allow(unused, non_snake_case, clippy::all)]
pub mod o0x {
   use ascent::*;
   use ascent::aggregators::*;
   use ascent::lattice::{Dual, set::Set};
   use crate::common::*;
   ascent! {
      pub struct Prog;
      relation r0(i64, Option<i64>);
      relation r1(i64);
      relation r2(i64, i64);
      relation r3(i64);
      r3(v0) <-- r1(v0), r0(v100, v101) if (v100.clone() == v0.clone()) if (v101.clone() == None::<i64>);
      r2(v0, v0) <-- r3(v0);
   }
   pub struct Inst { p: Prog, pool: Option<ascent::rayon::ThreadPool> }
   pub fn make(pool: Option<usize>) -> Box<dyn Driver> {
      let pool = pool.map(|n| ascent::rayon::ThreadPoolBuilder::new().num_threads(n).build().unwrap());
      let p = match &pool { Some(pl) => pl.install(|| Default::default()), None => Default::default() };
      Box::new(Inst { p, pool })
   }
   impl Driver for Inst {
      fn load(&mut self, rel: usize, rows: &[Sexp], append: bool) -> Option<()> {
         match rel {
         0 => { let v: Vec<(i64,Option<i64>,)> = parse_rows(rows)?; if append { self.p.r0.extend(v) } else { self.p.r0 = v } },
         1 => { let v: Vec<(i64,)> = parse_rows(rows)?; if append { self.p.r1.extend(v) } else { self.p.r1 = v } },
         2 => { let v: Vec<(i64,i64,)> = parse_rows(rows)?; if append { self.p.r2.extend(v) } else { self.p.r2 = v } },
         3 => { let v: Vec<(i64,)> = parse_rows(rows)?; if append { self.p.r3.extend(v) } else { self.p.r3 = v } },
            _ => return None,
         }
         Some(())
      }
      fn run(&mut self) { match &self.pool { Some(pl) => { let p = &mut self.p; pl.install(|| p.run()) }, None => self.p.run() } }
      fn run_here(&mut self) { self.p.run() }
      fn run_timeout(&mut self, k: usize) -> Option<bool> { let _ = k; None }
      fn dump(&self) -> String { vec![dump_rel(0, self.p.r0.iter().map(Row::render).collect()), dump_rel(1, self.p.r1.iter().map(Row::render).collect()), dump_rel(2, self.p.r2.iter().map(Row::render).collect()), dump_rel(3, self.p.r3.iter().map(Row::render).collect())].join(" | ") }
      fn iters(&self) -> String { format!("iters {}", self.p.scc_iters.iter().map(|x| x.to_string()).collect::<Vec<_>>().join(" ")) }
   }
}

fn main() {
   common::main_loop(&[("h3x", h3x::make as common::Factory), ("h7x", h7x::make as common::Factory), ("h11x", h11x::make as common::Factory), ("a1x", a1x::make as common::Factory), ("e1x", e1x::make as common::Factory), ("o0x", o0x::make as common::Factory)]);
}
