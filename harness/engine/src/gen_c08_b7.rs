#[path = "common.rs"]
mod common;
#[allow(unused, non_snake_case, clippy::all)]
pub mod h3x {
   use ascent::*;
   use ascent::aggregators::*;
   use ascent::lattice::{Dual, set::Set};
   use crate::common::*;
   ascent! {
      pub struct Prog;
      relation r0(i64, i64);
      relation r1(i64, Option<i64>);
      relation r2(i64);
      relation r3(i64, i64, i64);
      relation r4(i64, i64);
      relation r5(i64);
      relation r6(i64, Option<i64>, i64);
      relation r7(i64, Option<i64>);
      r7(2, Some(v1.clone())) <-- r3(v0, v105, v1) if (v105.clone() == std::cmp::max(v0.clone(), 1)), r0(v106, v100) if (v106.clone() == v0.clone()), let v101 = std::cmp::min((v100.clone() + v100.clone()), 6), r1(v102, v103), r1(v107, v108) if (v107.clone() == (v0.clone() + v102.clone())) if let Some(v104) = v108.clone();
      r7(v1, Some(v1.clone())) <-- r4(v0, v111), r1(v1, v109), r1(v112, v113) if (v112.clone() == (v0.clone() + v1.clone())) if let Some(v110) = v113.clone();
      r7(v1, Some(v1.clone())) <-- r4(v0, v114), r2(v1);
      r5(v1) <-- r1(v0, v120) if let Some(v1) = v120.clone(), r0(v2, v115), let v116 = std::cmp::min((v115.clone() + v115.clone()), 6), r1(v117, v118), r1(v121, v122) if (v121.clone() == (v2.clone() + v117.clone())) if let Some(v119) = v122.clone();
      r7(v0, Some(v0.clone())) <-- r3(v0, v128, v129) if (v128.clone() == (v0.clone() + 1)) if (v129.clone() == v0.clone()), r0(v130, v123) if (v130.clone() == v0.clone()), let v124 = std::cmp::min((v123.clone() + v123.clone()), 6), r1(v125, v126), r1(v131, v132) if (v131.clone() == (v0.clone() + v125.clone())) if let Some(v127) = v132.clone(), r7(v1, v133) if (v133.clone() == None::<i64>);
      r6(v1, Some(v1.clone()), 1) <-- r3(v0, v128, v129) if (v128.clone() == (v0.clone() + 1)) if (v129.clone() == v0.clone()), r0(v130, v123) if (v130.clone() == v0.clone()), let v124 = std::cmp::min((v123.clone() + v123.clone()), 6), r1(v125, v126), r1(v131, v132) if (v131.clone() == (v0.clone() + v125.clone())) if let Some(v127) = v132.clone(), r7(v1, v133) if (v133.clone() == None::<i64>);
      r4(v1, v0) <-- r1(v0, v134) if let Some(v1) = v134.clone() if (v0.clone() < 2);
   }
   pub struct Inst { p: Prog, pool: Option<ascent::rayon::ThreadPool> }
   pub fn make(pool: Option<usize>) -> Box<dyn Driver> {
      let pool = pool.map(|n| ascent::rayon::ThreadPoolBuilder::new().num_threads(n).build().unwrap());
      let p = match &pool { Some(pl) => pl.install(|| Default::default()), None => Default::default() };
      Box::new(Inst { p, pool })
   }
   impl Driver for Inst {
      fn load(&mut self, rel: usize, rows: &[Sexp], append: bool) -> Option<()> {
         match rel {
         0 => { let v: Vec<(i64,i64,)> = parse_rows(rows)?; if append { self.p.r0.extend(v) } else { self.p.r0 = v } },
         1 => { let v: Vec<(i64,Option<i64>,)> = parse_rows(rows)?; if append { self.p.r1.extend(v) } else { self.p.r1 = v } },
         2 => { let v: Vec<(i64,)> = parse_rows(rows)?; if append { self.p.r2.extend(v) } else { self.p.r2 = v } },
         3 => { let v: Vec<(i64,i64,i64,)> = parse_rows(rows)?; if append { self.p.r3.extend(v) } else { self.p.r3 = v } },
         4 => { let v: Vec<(i64,i64,)> = parse_rows(rows)?; if append { self.p.r4.extend(v) } else { self.p.r4 = v } },
         5 => { let v: Vec<(i64,)> = parse_rows(rows)?; if append { self.p.r5.extend(v) } else { self.p.r5 = v } },
         6 => { let v: Vec<(i64,Option<i64>,i64,)> = parse_rows(rows)?; if append { self.p.r6.extend(v) } else { self.p.r6 = v } },
         7 => { let v: Vec<(i64,Option<i64>,)> = parse_rows(rows)?; if append { self.p.r7.extend(v) } else { self.p.r7 = v } },
            _ => return None,
         }
         Some(())
      }
      fn run(&mut self) { match &self.pool { Some(pl) => { let p = &mut self.p; pl.install(|| p.run()) }, None => self.p.run() } }
      fn run_here(&mut self) { self.p.run() }
      fn run_timeout(&mut self, k: usize) -> Option<bool> { let _ = k; None }
      fn dump(&self) -> String { vec![dump_rel(0, self.p.r0.iter().map(Row::render).collect()), dump_rel(1, self.p.r1.iter().map(Row::render).collect()), dump_rel(2, self.p.r2.iter().map(Row::render).collect()), dump_rel(3, self.p.r3.iter().map(Row::render).collect()), dump_rel(4, self.p.r4.iter().map(Row::render).collect()), dump_rel(5, self.p.r5.iter().map(Row::render).collect()), dump_rel(6, self.p.r6.iter().map(Row::render).collect()), dump_rel(7, self.p.r7.iter().map(Row::render).collect())].join(" | ") }
      fn iters(&self) -> String { format!("iters {}", self.p.scc_iters.iter().map(|x| x.to_string()).collect::<Vec<_>>().join(" ")) }
   }
}

#[allow(unused, non_snake_case, clippy::all)]
pub mod h7x {
   use ascent::*;
   use ascent::aggregators::*;
   use ascent::lattice::{Dual, set::Set};
   use crate::common::*;
   ascent! {
      pub struct Prog;
      relation r0(i64, i64);
      relation r1(i64, Option<i64>);
      relation r2(i64);
      relation r3(i64, i64, i64);
      relation r4(i64, i64);
      relation r5(i64, Option<i64>);
      relation r6(i64, i64);
      relation r7(i64);
      r7(3) <-- r0(v0, v104) if (v104.clone() == 1), r4(v105, v106) if (v105.clone() == v0.clone()) if (v106.clone() == v0.clone()), r5(v100, v101), r6(v102, v107) if (v107.clone() == v0.clone()), r3(v108, v1, v109) if (v108.clone() == 3) if (v109.clone() == (v0.clone() + 2));
      r6(v0, v0) <-- r0(v0, v104) if (v104.clone() == 1), r4(v105, v106) if (v105.clone() == v0.clone()) if (v106.clone() == v0.clone()), r5(v100, v101), r6(v102, v107) if (v107.clone() == v0.clone()), r3(v108, v1, v109) if (v108.clone() == 3) if (v109.clone() == (v0.clone() + 2));
      r7(3) <-- r0(v0, v110) if (v110.clone() == 1), r4(v111, v112) if (v111.clone() == v0.clone()) if (v112.clone() == v0.clone()), r5(v103, v101), r3(v113, v1, v114) if (v113.clone() == 3) if (v114.clone() == (v0.clone() + 2));
      r6(v0, v0) <-- r0(v0, v110) if (v110.clone() == 1), r4(v111, v112) if (v111.clone() == v0.clone()) if (v112.clone() == v0.clone()), r5(v103, v101), r3(v113, v1, v114) if (v113.clone() == 3) if (v114.clone() == (v0.clone() + 2));
      r7(v1) <-- r1(v0, v115) if let Some(v1) = v115.clone(), r0(v2, v4);
      r7(v1) <-- r1(v0, v116) if let Some(v1) = v116.clone(), r0(v2, v5);
      r6(0, v0) <-- r4(v125, v0), r4(v1, v126) if (v126.clone() == v1.clone()), r5(v117, v118), r6(v119, v127) if (v127.clone() == v1.clone()), r4(v128, v129) if (v128.clone() == v1.clone()) if (v129.clone() == v1.clone()), r5(v121, v122), r6(v123, v130) if (v130.clone() == v1.clone());
      r6(v0, std::cmp::min((v1.clone() + 0), 6)) <-- r4(v125, v0), r4(v1, v126) if (v126.clone() == v1.clone()), r5(v117, v118), r6(v119, v127) if (v127.clone() == v1.clone()), r4(v128, v129) if (v128.clone() == v1.clone()) if (v129.clone() == v1.clone()), r5(v121, v122), r6(v123, v130) if (v130.clone() == v1.clone());
      r6(0, v0) <-- r4(v131, v0), r4(v1, v132) if (v132.clone() == v1.clone()), r5(v117, v118), r6(v119, v133) if (v133.clone() == v1.clone()), r4(v134, v135) if (v134.clone() == v1.clone()) if (v135.clone() == v1.clone()), r5(v124, v122);
      r6(v0, std::cmp::min((v1.clone() + 0), 6)) <-- r4(v131, v0), r4(v1, v132) if (v132.clone() == v1.clone()), r5(v117, v118), r6(v119, v133) if (v133.clone() == v1.clone()), r4(v134, v135) if (v134.clone() == v1.clone()) if (v135.clone() == v1.clone()), r5(v124, v122);
      r6(0, v0) <-- r4(v136, v0), r4(v1, v137) if (v137.clone() == v1.clone()), r5(v120, v118), r4(v138, v139) if (v138.clone() == v1.clone()) if (v139.clone() == v1.clone()), r5(v121, v122), r6(v123, v140) if (v140.clone() == v1.clone());
      r6(v0, std::cmp::min((v1.clone() + 0), 6)) <-- r4(v136, v0), r4(v1, v137) if (v137.clone() == v1.clone()), r5(v120, v118), r4(v138, v139) if (v138.clone() == v1.clone()) if (v139.clone() == v1.clone()), r5(v121, v122), r6(v123, v140) if (v140.clone() == v1.clone());
      r6(0, v0) <-- r4(v141, v0), r4(v1, v142) if (v142.clone() == v1.clone()), r5(v120, v118), r4(v143, v144) if (v143.clone() == v1.clone()) if (v144.clone() == v1.clone()), r5(v124, v122);
      r6(v0, std::cmp::min((v1.clone() + 0), 6)) <-- r4(v141, v0), r4(v1, v142) if (v142.clone() == v1.clone()), r5(v120, v118), r4(v143, v144) if (v143.clone() == v1.clone()) if (v144.clone() == v1.clone()), r5(v124, v122);
      r6((v0.clone() + 1), (v1.clone() + 1)) <-- r2(v0), r6(v1, v145), if (v1.clone() == 2), if (v0.clone() < 5), if (v1.clone() < 5);
      r7(3) <-- r0(v0, v1), r6(v2, v146), if (v2.clone() == 2), r6(v148, v147) if (v148.clone() == v2.clone()), if (v2.clone() == 2);
      r5(0, None::<i64>) <-- r1(v0, v149) if (v149.clone() == None::<i64>);
      r7(3);
   }
   pub struct Inst { p: Prog, pool: Option<ascent::rayon::ThreadPool> }
   pub fn make(pool: Option<usize>) -> Box<dyn Driver> {
      let pool = pool.map(|n| ascent::rayon::ThreadPoolBuilder::new().num_threads(n).build().unwrap());
      let p = match &pool { Some(pl) => pl.install(|| Default::default()), None => Default::default() };
      Box::new(Inst { p, pool })
   }
   impl Driver for Inst {
      fn load(&mut self, rel: usize, rows: &[Sexp], append: bool) -> Option<()> {
         match rel {
         0 => { let v: Vec<(i64,i64,)> = parse_rows(rows)?; if append { self.p.r0.extend(v) } else { self.p.r0 = v } },
         1 => { let v: Vec<(i64,Option<i64>,)> = parse_rows(rows)?; if append { self.p.r1.extend(v) } else { self.p.r1 = v } },
         2 => { let v: Vec<(i64,)> = parse_rows(rows)?; if append { self.p.r2.extend(v) } else { self.p.r2 = v } },
         3 => { let v: Vec<(i64,i64,i64,)> = parse_rows(rows)?; if append { self.p.r3.extend(v) } else { self.p.r3 = v } },
         4 => { let v: Vec<(i64,i64,)> = parse_rows(rows)?; if append { self.p.r4.extend(v) } else { self.p.r4 = v } },
         5 => { let v: Vec<(i64,Option<i64>,)> = parse_rows(rows)?; if append { self.p.r5.extend(v) } else { self.p.r5 = v } },
         6 => { let v: Vec<(i64,i64,)> = parse_rows(rows)?; if append { self.p.r6.extend(v) } else { self.p.r6 = v } },
         7 => { let v: Vec<(i64,)> = parse_rows(rows)?; if append { self.p.r7.extend(v) } else { self.p.r7 = v } },
            _ => return None,
         }
         Some(())
      }
      fn run(&mut self) { match &self.pool { Some(pl) => { let p = &mut self.p; pl.install(|| p.run()) }, None => self.p.run() } }
      fn run_here(&mut self) { self.p.run() }
      fn run_timeout(&mut self, k: usize) -> Option<bool> { let _ = k; None }
      fn dump(&self) -> String { vec![dump_rel(0, self.p.r0.iter().map(Row::render).collect()), dump_rel(1, self.p.r1.iter().map(Row::render).collect()), dump_rel(2, self.p.r2.iter().map(Row::render).collect()), dump_rel(3, self.p.r3.iter().map(Row::render).collect()), dump_rel(4, self.p.r4.iter().map(Row::render).collect()), dump_rel(5, self.p.r5.iter().map(Row::render).collect()), dump_rel(6, self.p.r6.iter().map(Row::render).collect()), dump_rel(7, self.p.r7.iter().map(Row::render).collect())].join(" | ") }
      fn iters(&self) -> String { format!("iters {}", self.p.scc_iters.iter().map(|x| x.to_string()).collect::<Vec<_>>().join(" ")) }
   }
}

#[allow(unused, non_snake_case, clippy::all)]
pub mod h11x {
   use ascent::*;
   use ascent::aggregators::*;
   use ascent::lattice::{Dual, set::Set};
   use crate::common::*;
   ascent! {
      pub struct Prog;
      relation r0(i64, i64);
      relation r1(i64, Option<i64>);
      relation r2(i64);
      relation r3(i64, i64, i64);
      relation r4(i64, i64);
      relation r5(i64);
      relation r6(i64);
      relation r7(i64, i64);
      relation r8(i64, i64);
      r7(1, std::cmp::min((v0.clone() + 0), 6)) <-- r0(v0, v1), r5(v102) if (v102.clone() == v0.clone()), r1(v100, v103) if (v103.clone() == Some(v100.clone())), if (v0.clone() != 5), r5(v104) if (v104.clone() == v0.clone()), r1(v101, v105) if (v105.clone() == Some(v101.clone())), if (v0.clone() != 5);
      r8(v1, v1) <-- r0(v0, v1), r5(v102) if (v102.clone() == v0.clone()), r1(v100, v103) if (v103.clone() == Some(v100.clone())), if (v0.clone() != 5), r5(v104) if (v104.clone() == v0.clone()), r1(v101, v105) if (v105.clone() == Some(v101.clone())), if (v0.clone() != 5);
      r7(v0, std::cmp::min(std::cmp::min(v0.clone(), 2), 6)) <-- r8(v0, v107) if (v107.clone() == v0.clone()), r5(v108) if (v108.clone() == v0.clone()), r1(v106, v109) if (v109.clone() == Some(v106.clone())), if (v0.clone() != 5);
      r7(v0, std::cmp::min(std::cmp::max(v0.clone(), 1), 6)) <-- r2(v111), r5(v0), r1(v110, v112) if (v112.clone() == Some(v110.clone())), if (v0.clone() != 5);
      r7(1, std::cmp::min(std::cmp::min(v0.clone(), 3), 6)) <-- r5(v0), r5(v1), r1(v113, v115) if (v115.clone() == Some(v113.clone())), if (v1.clone() != 5), r5(v2), r1(v114, v116) if (v116.clone() == Some(v114.clone())), if (v2.clone() != 5);
      r8(v1, v2) <-- r5(v0), r5(v1), r1(v113, v115) if (v115.clone() == Some(v113.clone())), if (v1.clone() != 5), r5(v2), r1(v114, v116) if (v116.clone() == Some(v114.clone())), if (v2.clone() != 5);
      r7(v0, std::cmp::min(std::cmp::min(v0.clone(), 1), 6)) <-- r5(v118) if (v118.clone() == 0), r5(v0), r1(v117, v119) if (v119.clone() == Some(v117.clone())), if (v0.clone() != 5);
      r6(v0) <-- r5(v118) if (v118.clone() == 0), r5(v0), r1(v117, v119) if (v119.clone() == Some(v117.clone())), if (v0.clone() != 5);
      r7(v0, std::cmp::min(std::cmp::min(v0.clone(), 1), 6)) <-- r5(v120) if (v120.clone() == 0), r7(v121, v0);
      r6(v0) <-- r5(v120) if (v120.clone() == 0), r7(v121, v0);
      r5((v0.clone() + 1)) <-- r3(v0, v122, v123) if (v122.clone() == std::cmp::min(v0.clone(), 3)), if (v0.clone() < 5);
      r7(1, 0);
   }
   pub struct Inst { p: Prog, pool: Option<ascent::rayon::ThreadPool> }
   pub fn make(pool: Option<usize>) -> Box<dyn Driver> {
      let pool = pool.map(|n| ascent::rayon::ThreadPoolBuilder::new().num_threads(n).build().unwrap());
      let p = match &pool { Some(pl) => pl.install(|| Default::default()), None => Default::default() };
      Box::new(Inst { p, pool })
   }
   impl Driver for Inst {
      fn load(&mut self, rel: usize, rows: &[Sexp], append: bool) -> Option<()> {
         match rel {
         0 => { let v: Vec<(i64,i64,)> = parse_rows(rows)?; if append { self.p.r0.extend(v) } else { self.p.r0 = v } },
         1 => { let v: Vec<(i64,Option<i64>,)> = parse_rows(rows)?; if append { self.p.r1.extend(v) } else { self.p.r1 = v } },
         2 => { let v: Vec<(i64,)> = parse_rows(rows)?; if append { self.p.r2.extend(v) } else { self.p.r2 = v } },
         3 => { let v: Vec<(i64,i64,i64,)> = parse_rows(rows)?; if append { self.p.r3.extend(v) } else { self.p.r3 = v } },
         4 => { let v: Vec<(i64,i64,)> = parse_rows(rows)?; if append { self.p.r4.extend(v) } else { self.p.r4 = v } },
         5 => { let v: Vec<(i64,)> = parse_rows(rows)?; if append { self.p.r5.extend(v) } else { self.p.r5 = v } },
         6 => { let v: Vec<(i64,)> = parse_rows(rows)?; if append { self.p.r6.extend(v) } else { self.p.r6 = v } },
         7 => { let v: Vec<(i64,i64,)> = parse_rows(rows)?; if append { self.p.r7.extend(v) } else { self.p.r7 = v } },
         8 => { let v: Vec<(i64,i64,)> = parse_rows(rows)?; if append { self.p.r8.extend(v) } else { self.p.r8 = v } },
            _ => return None,
         }
         Some(())
      }
      fn run(&mut self) { match &self.pool { Some(pl) => { let p = &mut self.p; pl.install(|| p.run()) }, None => self.p.run() } }
      fn run_here(&mut self) { self.p.run() }
      fn run_timeout(&mut self, k: usize) -> Option<bool> { let _ = k; None }
      fn dump(&self) -> String { vec![dump_rel(0, self.p.r0.iter().map(Row::render).collect()), dump_rel(1, self.p.r1.iter().map(Row::render).collect()), dump_rel(2, self.p.r2.iter().map(Row::render).collect()), dump_rel(3, self.p.r3.iter().map(Row::render).collect()), dump_rel(4, self.p.r4.iter().map(Row::render).collect()), dump_rel(5, self.p.r5.iter().map(Row::render).collect()), dump_rel(6, self.p.r6.iter().map(Row::render).collect()), dump_rel(7, self.p.r7.iter().map(Row::render).collect()), dump_rel(8, self.p.r8.iter().map(Row::render).collect())].join(" | ") }
      fn iters(&self) -> String { format!("iters {}", self.p.scc_iters.iter().map(|x| x.to_string()).collect::<Vec<_>>().join(" ")) }
   }
}

#[allow(unused, non_snake_case, clippy::all)]
pub mod a3x {
   use ascent::*;
   use ascent::aggregators::*;
   use ascent::lattice::{Dual, set::Set};
   use crate::common::*;
   ascent! {
      pub struct Prog;
      relation r0(i64, i64);
      relation r1(i64);
      relation r2(i64, i64);
      relation r3(i64);
      r2(v0, v2) <-- r1(v0), r1(v100), r0(v101, v2) if (v101.clone() != 0);
      r3(v0) <-- r2(v0, v102);
   }
   pub struct Inst { p: Prog, pool: Option<ascent::rayon::ThreadPool> }
   pub fn make(pool: Option<usize>) -> Box<dyn Driver> {
      let pool = pool.map(|n| ascent::rayon::ThreadPoolBuilder::new().num_threads(n).build().unwrap());
      let p = match &pool { Some(pl) => pl.install(|| Default::default()), None => Default::default() };
      Box::new(Inst { p, pool })
   }
   impl Driver for Inst {
      fn load(&mut self, rel: usize, rows: &[Sexp], append: bool) -> Option<()> {
         match rel {
         0 => { let v: Vec<(i64,i64,)> = parse_rows(rows)?; if append { self.p.r0.extend(v) } else { self.p.r0 = v } },
         1 => { let v: Vec<(i64,)> = parse_rows(rows)?; if append { self.p.r1.extend(v) } else { self.p.r1 = v } },
         2 => { let v: Vec<(i64,i64,)> = parse_rows(rows)?; if append { self.p.r2.extend(v) } else { self.p.r2 = v } },
         3 => { let v: Vec<(i64,)> = parse_rows(rows)?; if append { self.p.r3.extend(v) } else { self.p.r3 = v } },
            _ => return None,
         }
         Some(())
      }
      fn run(&mut self) { match &self.pool { Some(pl) => { let p = &mut self.p; pl.install(|| p.run()) }, None => self.p.run() } }
      fn run_here(&mut self) { self.p.run() }
      fn run_timeout(&mut self, k: usize) -> Option<bool> { let _ = k; None }
      fn dump(&self) -> String { vec![dump_rel(0, self.p.r0.iter().map(Row::render).collect()), dump_rel(1, self.p.r1.iter().map(Row::render).collect()), dump_rel(2, self.p.r2.iter().map(Row::render).collect()), dump_rel(3, self.p.r3.iter().map(Row::render).collect())].join(" | ") }
      fn iters(&self) -> String { format!("iters {}", self.p.scc_iters.iter().map(|x| x.to_string()).collect::<Vec<_>>().join(" ")) }
   }
}

#[allow(unused, non_snake_case, clippy::all)]
pub mod e3x {
   use ascent::*;
   use ascent::aggregators::*;
   use ascent::lattice::{Dual, set::Set};
   use crate::common::*;
   ascent! {
      pub struct Prog;
      relation r0(i64, i64);
      relation r1(i64);
      relation r2(i64, i64);
      relation r3(i64);
      r2(v0, v1) <-- r1(v0), r0(v100, v1), if ((v100.clone() * (v0.clone() + 2)) < 4);
      r3(v0) <-- r2(v0, v101);
   }
   pub struct Inst { p: Prog, pool: Option<ascent::rayon::ThreadPool> }
   pub fn make(pool: Option<usize>) -> Box<dyn Driver> {
      let pool = pool.map(|n| ascent::rayon::ThreadPoolBuilder::new().num_threads(n).build().unwrap());
      let p = match &pool { Some(pl) => pl.install(|| Default::default()), None => Default::default() };
      Box::new(Inst { p, pool })
   }
   impl Driver for Inst {
      fn load(&mut self, rel: usize, rows: &[Sexp], append: bool) -> Option<()> {
         match rel {
         0 => { let v: Vec<(i64,i64,)> = parse_rows(rows)?; if append { self.p.r0.extend(v) } else { self.p.r0 = v } },
         1 => { let v: Vec<(i64,)> = parse_rows(rows)?; if append { self.p.r1.extend(v) } else { self.p.r1 = v } },
         2 => { let v: Vec<(i64,i64,)> = parse_rows(rows)?; if append { self.p.r2.extend(v) } else { self.p.r2 = v } },
         3 => { let v: Vec<(i64,)> = parse_rows(rows)?; if append { self.p.r3.extend(v) } else { self.p.r3 = v } },
            _ => return None,
         }
         Some(())
      }
      fn run(&mut self) { match &self.pool { Some(pl) => { let p = &mut self.p; pl.install(|| p.run()) }, None => self.p.run() } }
      fn run_here(&mut self) { self.p.run() }
      fn run_timeout(&mut self, k: usize) -> Option<bool> { let _ = k; None }
      fn dump(&self) -> String { vec![dump_rel(0, self.p.r0.iter().map(Row::render).collect()), dump_rel(1, self.p.r1.iter().map(Row::render).collect()), dump_rel(2, self.p.r2.iter().map(Row::render).collect()), dump_rel(3, self.p.r3.iter().map(Row::render).collect())].join(" | ") }
      fn iters(&self) -> String { format!("iters {}", self.p.scc_iters.iter().map(|x| x.to_string()).collect::<Vec<_>>().join(" ")) }
   }
}

#[allow(unused, non_snake_case, clippy::all)]
pub mod o2x {
   use ascent::*;
   use ascent::aggregators::*;
   use ascent::lattice::{Dual, set::Set};
   use crate::common::*;
   ascent! {
      pub struct Prog;
      relation r0(i64, Option<i64>);
      relation r1(i64);
      relation r2(i64, i64);
      relation r3(i64);
      r3(v0) <-- r1(v0), r0(v101, v102) if (v101.clone() == v0.clone()) if let Some(v100) = v102.clone(), if (v100.clone() <= 3);
      r2(v0, v0) <-- r3(v0);
   }
   pub struct Inst { p: Prog, pool: Option<ascent::rayon::ThreadPool> }
   pub fn make(pool: Option<usize>) -> Box<dyn Driver> {
      let pool = pool.map(|n| ascent::rayon::ThreadPoolBuilder::new().num_threads(n).build().unwrap());
      let p = match &pool { Some(pl) => pl.install(|| Default::default()), None => Default::default() };
      Box::new(Inst { p, pool })
   }
   impl Driver for Inst {
      fn load(&mut self, rel: usize, rows: &[Sexp], append: bool) -> Option<()> {
         match rel {
         0 => { let v: Vec<(i64,Option<i64>,)> = parse_rows(rows)?; if append { self.p.r0.extend(v) } else { self.p.r0 = v } },
         1 => { let v: Vec<(i64,)> = parse_rows(rows)?; if append { self.p.r1.extend(v) } else { self.p.r1 = v } },
         2 => { let v: Vec<(i64,i64,)> = parse_rows(rows)?; if append { self.p.r2.extend(v) } else { self.p.r2 = v } },
         3 => { let v: Vec<(i64,)> = parse_rows(rows)?; if append { self.p.r3.extend(v) } else { self.p.r3 = v } },
            _ => return None,
         }
         Some(())
      }
      fn run(&mut self) { match &self.pool { Some(pl) => { let p = &mut self.p; pl.install(|| p.run()) }, None => self.p.run() } }
      fn run_here(&mut self) { self.p.run() }
      fn run_timeout(&mut self, k: usize) -> Option<bool> { let _ = k; None }
      fn dump(&self) -> String { vec![dump_rel(0, self.p.r0.iter().map(Row::render).collect()), dump_rel(1, self.p.r1.iter().map(Row::render).collect()), dump_rel(2, self.p.r2.iter().map(Row::render).collect()), dump_rel(3, self.p.r3.iter().map(Row::render).collect())].join(" | ") }
      fn iters(&self) -> String { format!("iters {}", self.p.scc_iters.iter().map(|x| x.to_string()).collect::<Vec<_>>().join(" ")) }
   }
}

fn main() {
   common::main_loop(&[("h3x", h3x::make as common::Factory), ("h7x", h7x::make as common::Factory), ("h11x", h11x::make as common::Factory), ("a3x", a3x::make as common::Factory), ("e3x", e3x::make as common::Factory), ("o2x", o2x::make as common::Factory)]);
}
