#[path = "common.rs"]
mod common;
#[allow(unused, non_snake_case, clippy::all)]
pub mod p1 {
   use ascent::*;
   use ascent::aggregators::*;
   use ascent::lattice::{Dual, set::Set};
   use crate::common::*;
   ascent! {
      pub struct Prog;
      relation r0(i64, i64);
      relation r1(i64, i64, i64);
      relation r2(i64, i64);
      relation r3(i64, i64);
      relation r4(i64, i64);
      relation r5(i64, i64, i64);
      r5(v1, v1, v1) <-- let v0 = 0, r0((v0 + 1), v0) if (v0 != 2) let v1 = (v0 + 1), if (v1 <= 6);
      r5(v1, v2, v2) <-- if let Some(v0) = Some(4), r5(v1, v0, (v0 + 0)) if (v0 != 4) let v2 = ((*v1) + 1), if ((*v1) < 1), r5(v0, 3, v3) if (v0 < 6), let v4 = v2, if (v2 <= 6);
      r2(v0, v1) <-- let v9 = 2, r0(v0, v1), r0(v1, v9);
      r2(v2, 1) <-- r0(v0, v1) if ((*v0) != 6) let v2 = ((*v0) + 1), let v3 = v2, if (v2 <= 6);
      r1(2, 0, 0);
      r3(v1, v2) <-- r0(v0, v1), r5(v2, 1, v3);
      r1(v3, v2, v3) <-- r1(v0, v1, v2), if ((*v2) != 4), r3(v3, v1), for v4 in [3, 3];
   }
   pub struct Inst { p: Prog, pool: Option<ascent::rayon::ThreadPool> }
   pub fn make(pool: Option<usize>) -> Box<dyn Driver> {
      let pool = pool.map(|n| ascent::rayon::ThreadPoolBuilder::new().num_threads(n).build().unwrap());
      let p = match &pool { Some(pl) => pl.install(|| Default::default()), None => Default::default() };
      Box::new(Inst { p, pool })
   }
   impl Driver for Inst {
      fn load(&mut self, rel: usize, rows: &[Sexp], append: bool) -> Option<()> {
         match rel {
         0 => { let v: Vec<(i64,i64,)> = parse_rows(rows)?; if append { self.p.r0.extend(v) } else { self.p.r0 = v } },
         1 => { let v: Vec<(i64,i64,i64,)> = parse_rows(rows)?; if append { self.p.r1.extend(v) } else { self.p.r1 = v } },
         2 => { let v: Vec<(i64,i64,)> = parse_rows(rows)?; if append { self.p.r2.extend(v) } else { self.p.r2 = v } },
         3 => { let v: Vec<(i64,i64,)> = parse_rows(rows)?; if append { self.p.r3.extend(v) } else { self.p.r3 = v } },
         4 => { let v: Vec<(i64,i64,)> = parse_rows(rows)?; if append { self.p.r4.extend(v) } else { self.p.r4 = v } },
         5 => { let v: Vec<(i64,i64,i64,)> = parse_rows(rows)?; if append { self.p.r5.extend(v) } else { self.p.r5 = v } },
            _ => return None,
         }
         Some(())
      }
      fn run(&mut self) { match &self.pool { Some(pl) => { let p = &mut self.p; pl.install(|| p.run()) }, None => self.p.run() } }
      fn run_here(&mut self) { self.p.run() }
      fn run_timeout(&mut self, k: usize) -> Option<bool> { let _ = k; None }
      fn dump(&self) -> String { vec![dump_rel(0, self.p.r0.iter().map(Row::render).collect()), dump_rel(1, self.p.r1.iter().map(Row::render).collect()), dump_rel(2, self.p.r2.iter().map(Row::render).collect()), dump_rel(3, self.p.r3.iter().map(Row::render).collect()), dump_rel(4, self.p.r4.iter().map(Row::render).collect()), dump_rel(5, self.p.r5.iter().map(Row::render).collect())].join(" | ") }
      fn iters(&self) -> String { format!("iters {}", self.p.scc_iters.iter().map(|x| x.to_string()).collect::<Vec<_>>().join(" ")) }
   }
}

#[allow(unused, non_snake_case, clippy::all)]
pub mod p9 {
   use ascent::*;
   use ascent::aggregators::*;
   use ascent::lattice::{Dual, set::Set};
   use crate::common::*;
   ascent! {
      pub struct Prog;
      relation r0(i64, i64);
      relation r1(i64, i64);
      relation r2(i64, i64);
      relation r3(i64, i64);
      relation r4(i64);
      r4(v0) <-- r0(v0, v1), r0(v1, v1);
      r4(v0) <-- for v9 in 0..2, r3(v0, v1), r3(v9, v1);
      r1(2, 1);
      r3((v1 + 1), ((*v2) + 1)) <-- for v0 in 2..1, r4(v0), let v1 = v0, r3(1, v2), if (v1 < 6), if ((*v2) < 6);
      r3(1, ((*v1) + 1)) <-- r0(v0, v1), r4(v1) if ((*v0) <= 2), if ((*v1) == 0), if ((*v1) < 6);
   }
   pub struct Inst { p: Prog, pool: Option<ascent::rayon::ThreadPool> }
   pub fn make(pool: Option<usize>) -> Box<dyn Driver> {
      let pool = pool.map(|n| ascent::rayon::ThreadPoolBuilder::new().num_threads(n).build().unwrap());
      let p = match &pool { Some(pl) => pl.install(|| Default::default()), None => Default::default() };
      Box::new(Inst { p, pool })
   }
   impl Driver for Inst {
      fn load(&mut self, rel: usize, rows: &[Sexp], append: bool) -> Option<()> {
         match rel {
         0 => { let v: Vec<(i64,i64,)> = parse_rows(rows)?; if append { self.p.r0.extend(v) } else { self.p.r0 = v } },
         1 => { let v: Vec<(i64,i64,)> = parse_rows(rows)?; if append { self.p.r1.extend(v) } else { self.p.r1 = v } },
         2 => { let v: Vec<(i64,i64,)> = parse_rows(rows)?; if append { self.p.r2.extend(v) } else { self.p.r2 = v } },
         3 => { let v: Vec<(i64,i64,)> = parse_rows(rows)?; if append { self.p.r3.extend(v) } else { self.p.r3 = v } },
         4 => { let v: Vec<(i64,)> = parse_rows(rows)?; if append { self.p.r4.extend(v) } else { self.p.r4 = v } },
            _ => return None,
         }
         Some(())
      }
      fn run(&mut self) { match &self.pool { Some(pl) => { let p = &mut self.p; pl.install(|| p.run()) }, None => self.p.run() } }
      fn run_here(&mut self) { self.p.run() }
      fn run_timeout(&mut self, k: usize) -> Option<bool> { let _ = k; None }
      fn dump(&self) -> String { vec![dump_rel(0, self.p.r0.iter().map(Row::render).collect()), dump_rel(1, self.p.r1.iter().map(Row::render).collect()), dump_rel(2, self.p.r2.iter().map(Row::render).collect()), dump_rel(3, self.p.r3.iter().map(Row::render).collect()), dump_rel(4, self.p.r4.iter().map(Row::render).collect())].join(" | ") }
      fn iters(&self) -> String { format!("iters {}", self.p.scc_iters.iter().map(|x| x.to_string()).collect::<Vec<_>>().join(" ")) }
   }
}

#[allow(unused, non_snake_case, clippy::all)]
pub mod p17 {
   use ascent::*;
   use ascent::aggregators::*;
   use ascent::lattice::{Dual, set::Set};
   use crate::common::*;
   ascent! {
      pub struct Prog;
      relation r0(i64, i64);
      relation r1(i64, i64);
      relation r2(i64, i64);
      relation r3(i64, i64);
      r3(v0, v0) <-- r0(v0, v1);
      r3(v2, ((*v1) + 1)) <-- let v0 = 1, r3(v1, v2), r3(v0, v3), if ((*v1) < 6);
      r3(v0, v1) <-- r3(v0, v1), r0(v0, v0), r3(v1, v2);
      r3(v0, v1) <-- let v9 = 2, r2(v0, v1), r1(v1, v9);
      r3(v0, v5) <-- r0(0, v0) if ((*v0) <= 1) let v1 = ((*v0) + 1), r3(v1, v2), r2(v3, v4) if ((*v2) != 5) let v5 = ((*v3) + 0), if (v5 <= 6);
      r2(3, 2);
      r1(v4, 0) <-- r2(v0, v1) if ((*v0) < 4), if let Some(v2) = Some((*v1)), r1(v3, v4);
      r1(v0, v0) <-- r1(v0, 2);
   }
   pub struct Inst { p: Prog, pool: Option<ascent::rayon::ThreadPool> }
   pub fn make(pool: Option<usize>) -> Box<dyn Driver> {
      let pool = pool.map(|n| ascent::rayon::ThreadPoolBuilder::new().num_threads(n).build().unwrap());
      let p = match &pool { Some(pl) => pl.install(|| Default::default()), None => Default::default() };
      Box::new(Inst { p, pool })
   }
   impl Driver for Inst {
      fn load(&mut self, rel: usize, rows: &[Sexp], append: bool) -> Option<()> {
         match rel {
         0 => { let v: Vec<(i64,i64,)> = parse_rows(rows)?; if append { self.p.r0.extend(v) } else { self.p.r0 = v } },
         1 => { let v: Vec<(i64,i64,)> = parse_rows(rows)?; if append { self.p.r1.extend(v) } else { self.p.r1 = v } },
         2 => { let v: Vec<(i64,i64,)> = parse_rows(rows)?; if append { self.p.r2.extend(v) } else { self.p.r2 = v } },
         3 => { let v: Vec<(i64,i64,)> = parse_rows(rows)?; if append { self.p.r3.extend(v) } else { self.p.r3 = v } },
            _ => return None,
         }
         Some(())
      }
      fn run(&mut self) { match &self.pool { Some(pl) => { let p = &mut self.p; pl.install(|| p.run()) }, None => self.p.run() } }
      fn run_here(&mut self) { self.p.run() }
      fn run_timeout(&mut self, k: usize) -> Option<bool> { let _ = k; None }
      fn dump(&self) -> String { vec![dump_rel(0, self.p.r0.iter().map(Row::render).collect()), dump_rel(1, self.p.r1.iter().map(Row::render).collect()), dump_rel(2, self.p.r2.iter().map(Row::render).collect()), dump_rel(3, self.p.r3.iter().map(Row::render).collect())].join(" | ") }
      fn iters(&self) -> String { format!("iters {}", self.p.scc_iters.iter().map(|x| x.to_string()).collect::<Vec<_>>().join(" ")) }
   }
}

#[allow(unused, non_snake_case, clippy::all)]
pub mod p25 {
   use ascent::*;
   use ascent::aggregators::*;
   use ascent::lattice::{Dual, set::Set};
   use crate::common::*;
   ascent! {
      pub struct Prog;
      relation r0(i64, i64, i64);
      relation r1(i64, i64);
      relation r2(i64, i64);
      relation r3(i64, i64);
      relation r4(i64);
      relation r5(i64, i64);
      r2(((*v0) + 1), 1) <-- r0(0, 0, v0), if ((*v0) < 6);
      r2(0, v1) <-- r2(1, 3), r0(v0, v1, 3) if ((*v0) <= 3);
      r5(v0, v1) <-- r1(v0, v1), r3(((*v0) + 1), v2);
      r2(v0, v2) <-- r2(v0, v1), r5(v1, v2), r5(v2, v3);
      r4(v4) <-- r4(v0), r2(v0, v0), for v1 in 2..1, r2(v2, v3) if (v1 != 1), let v4 = (*v0), if (v4 <= 6);
      r2(v1, ((*v1) + 1)) <-- r2(v0, v1) if ((*v1) != 4), if ((*v1) < 6);
      r4(v0) <-- if let Some(v0) = Some(3), if (v0 <= 6);
   }
   pub struct Inst { p: Prog, pool: Option<ascent::rayon::ThreadPool> }
   pub fn make(pool: Option<usize>) -> Box<dyn Driver> {
      let pool = pool.map(|n| ascent::rayon::ThreadPoolBuilder::new().num_threads(n).build().unwrap());
      let p = match &pool { Some(pl) => pl.install(|| Default::default()), None => Default::default() };
      Box::new(Inst { p, pool })
   }
   impl Driver for Inst {
      fn load(&mut self, rel: usize, rows: &[Sexp], append: bool) -> Option<()> {
         match rel {
         0 => { let v: Vec<(i64,i64,i64,)> = parse_rows(rows)?; if append { self.p.r0.extend(v) } else { self.p.r0 = v } },
         1 => { let v: Vec<(i64,i64,)> = parse_rows(rows)?; if append { self.p.r1.extend(v) } else { self.p.r1 = v } },
         2 => { let v: Vec<(i64,i64,)> = parse_rows(rows)?; if append { self.p.r2.extend(v) } else { self.p.r2 = v } },
         3 => { let v: Vec<(i64,i64,)> = parse_rows(rows)?; if append { self.p.r3.extend(v) } else { self.p.r3 = v } },
         4 => { let v: Vec<(i64,)> = parse_rows(rows)?; if append { self.p.r4.extend(v) } else { self.p.r4 = v } },
         5 => { let v: Vec<(i64,i64,)> = parse_rows(rows)?; if append { self.p.r5.extend(v) } else { self.p.r5 = v } },
            _ => return None,
         }
         Some(())
      }
      fn run(&mut self) { match &self.pool { Some(pl) => { let p = &mut self.p; pl.install(|| p.run()) }, None => self.p.run() } }
      fn run_here(&mut self) { self.p.run() }
      fn run_timeout(&mut self, k: usize) -> Option<bool> { let _ = k; None }
      fn dump(&self) -> String { vec![dump_rel(0, self.p.r0.iter().map(Row::render).collect()), dump_rel(1, self.p.r1.iter().map(Row::render).collect()), dump_rel(2, self.p.r2.iter().map(Row::render).collect()), dump_rel(3, self.p.r3.iter().map(Row::render).collect()), dump_rel(4, self.p.r4.iter().map(Row::render).collect()), dump_rel(5, self.p.r5.iter().map(Row::render).collect())].join(" | ") }
      fn iters(&self) -> String { format!("iters {}", self.p.scc_iters.iter().map(|x| x.to_string()).collect::<Vec<_>>().join(" ")) }
   }
}

#[allow(unused, non_snake_case, clippy::all)]
pub mod p33 {
   use ascent::*;
   use ascent::aggregators::*;
   use ascent::lattice::{Dual, set::Set};
   use crate::common::*;
   ascent! {
      pub struct Prog;
      relation r0(i64, i64);
      relation r1(i64);
      relation r2(i64, i64);
      relation r3(i64, i64);
      relation r4(i64, i64);
      r2(v0, v0) <-- let v0 = 2, r1(v0), if (v0 <= 6);
      r3(3, 3) <-- r2(v0, v1), r3(v2, v0) if ((*v1) != 1) let v3 = ((*v0) + 0);
      r4(v0, v0) <-- r3(v0, 2);
      r3(v0, v1) <-- r2(v0, v1), r0(v0, v0), r2(v1, v2);
      r0(v0, v0) <-- if let Some(v0) = Some(1), if (v0 <= 6);
   }
   pub struct Inst { p: Prog, pool: Option<ascent::rayon::ThreadPool> }
   pub fn make(pool: Option<usize>) -> Box<dyn Driver> {
      let pool = pool.map(|n| ascent::rayon::ThreadPoolBuilder::new().num_threads(n).build().unwrap());
      let p = match &pool { Some(pl) => pl.install(|| Default::default()), None => Default::default() };
      Box::new(Inst { p, pool })
   }
   impl Driver for Inst {
      fn load(&mut self, rel: usize, rows: &[Sexp], append: bool) -> Option<()> {
         match rel {
         0 => { let v: Vec<(i64,i64,)> = parse_rows(rows)?; if append { self.p.r0.extend(v) } else { self.p.r0 = v } },
         1 => { let v: Vec<(i64,)> = parse_rows(rows)?; if append { self.p.r1.extend(v) } else { self.p.r1 = v } },
         2 => { let v: Vec<(i64,i64,)> = parse_rows(rows)?; if append { self.p.r2.extend(v) } else { self.p.r2 = v } },
         3 => { let v: Vec<(i64,i64,)> = parse_rows(rows)?; if append { self.p.r3.extend(v) } else { self.p.r3 = v } },
         4 => { let v: Vec<(i64,i64,)> = parse_rows(rows)?; if append { self.p.r4.extend(v) } else { self.p.r4 = v } },
            _ => return None,
         }
         Some(())
      }
      fn run(&mut self) { match &self.pool { Some(pl) => { let p = &mut self.p; pl.install(|| p.run()) }, None => self.p.run() } }
      fn run_here(&mut self) { self.p.run() }
      fn run_timeout(&mut self, k: usize) -> Option<bool> { let _ = k; None }
      fn dump(&self) -> String { vec![dump_rel(0, self.p.r0.iter().map(Row::render).collect()), dump_rel(1, self.p.r1.iter().map(Row::render).collect()), dump_rel(2, self.p.r2.iter().map(Row::render).collect()), dump_rel(3, self.p.r3.iter().map(Row::render).collect()), dump_rel(4, self.p.r4.iter().map(Row::render).collect())].join(" | ") }
      fn iters(&self) -> String { format!("iters {}", self.p.scc_iters.iter().map(|x| x.to_string()).collect::<Vec<_>>().join(" ")) }
   }
}

#[allow(unused, non_snake_case, clippy::all)]
pub mod p41 {
   use ascent::*;
   use ascent::aggregators::*;
   use ascent::lattice::{Dual, set::Set};
   use crate::common::*;
   ascent! {
      pub struct Prog;
      relation r0(i64, i64);
      relation r1(i64, i64);
      relation r2(i64);
      relation r3(i64, i64, i64);
      relation r4(i64, i64);
      relation r5(i64, i64);
      r4(v0, ((*v0) + 1)) <-- r0(v0, v1), if ((*v0) < 6);
      r4(((*v2) + 1), v1) <-- r4(v0, 3) if ((*v0) != 3), for v1 in [0, 2, 2], r4(v2, v0) if (v1 < 3) let v3 = ((*v0) + 0), if ((*v2) < 6);
      r5(v0, v1) <-- r4(v0, v1) if ((*v0) < 4), r1(v1, v2) if ((*v2) != (*v1));
      r2(v0) <-- if let Some(v0) = Some(0), if (v0 <= 6);
      r5(((*v0) + 1), ((*v0) + 1)) <-- r3(v0, v1, v2), r4(3, v3), if ((*v0) < 6), if ((*v0) < 6);
   }
   pub struct Inst { p: Prog, pool: Option<ascent::rayon::ThreadPool> }
   pub fn make(pool: Option<usize>) -> Box<dyn Driver> {
      let pool = pool.map(|n| ascent::rayon::ThreadPoolBuilder::new().num_threads(n).build().unwrap());
      let p = match &pool { Some(pl) => pl.install(|| Default::default()), None => Default::default() };
      Box::new(Inst { p, pool })
   }
   impl Driver for Inst {
      fn load(&mut self, rel: usize, rows: &[Sexp], append: bool) -> Option<()> {
         match rel {
         0 => { let v: Vec<(i64,i64,)> = parse_rows(rows)?; if append { self.p.r0.extend(v) } else { self.p.r0 = v } },
         1 => { let v: Vec<(i64,i64,)> = parse_rows(rows)?; if append { self.p.r1.extend(v) } else { self.p.r1 = v } },
         2 => { let v: Vec<(i64,)> = parse_rows(rows)?; if append { self.p.r2.extend(v) } else { self.p.r2 = v } },
         3 => { let v: Vec<(i64,i64,i64,)> = parse_rows(rows)?; if append { self.p.r3.extend(v) } else { self.p.r3 = v } },
         4 => { let v: Vec<(i64,i64,)> = parse_rows(rows)?; if append { self.p.r4.extend(v) } else { self.p.r4 = v } },
         5 => { let v: Vec<(i64,i64,)> = parse_rows(rows)?; if append { self.p.r5.extend(v) } else { self.p.r5 = v } },
            _ => return None,
         }
         Some(())
      }
      fn run(&mut self) { match &self.pool { Some(pl) => { let p = &mut self.p; pl.install(|| p.run()) }, None => self.p.run() } }
      fn run_here(&mut self) { self.p.run() }
      fn run_timeout(&mut self, k: usize) -> Option<bool> { let _ = k; None }
      fn dump(&self) -> String { vec![dump_rel(0, self.p.r0.iter().map(Row::render).collect()), dump_rel(1, self.p.r1.iter().map(Row::render).collect()), dump_rel(2, self.p.r2.iter().map(Row::render).collect()), dump_rel(3, self.p.r3.iter().map(Row::render).collect()), dump_rel(4, self.p.r4.iter().map(Row::render).collect()), dump_rel(5, self.p.r5.iter().map(Row::render).collect())].join(" | ") }
      fn iters(&self) -> String { format!("iters {}", self.p.scc_iters.iter().map(|x| x.to_string()).collect::<Vec<_>>().join(" ")) }
   }
}

#[allow(unused, non_snake_case, clippy::all)]
pub mod p49 {
   use ascent::*;
   use ascent::aggregators::*;
   use ascent::lattice::{Dual, set::Set};
   use crate::common::*;
   ascent! {
      pub struct Prog;
      relation r0(i64, i64);
      relation r1(i64, i64);
      relation r2(i64, i64);
      relation r3(i64);
      r2(v0, v1) <-- r1(v0, v1), r1(((*v0) + 1), v2);
      r2(v0, v2) <-- r1(v0, v1), r1(v1, v2), r2(v2, v3);
      r2(v0, v0) <-- r3(v0), r1(v0, ((*v0) + 0)) if ((*v0) <= 4);
   }
   pub struct Inst { p: Prog, pool: Option<ascent::rayon::ThreadPool> }
   pub fn make(pool: Option<usize>) -> Box<dyn Driver> {
      let pool = pool.map(|n| ascent::rayon::ThreadPoolBuilder::new().num_threads(n).build().unwrap());
      let p = match &pool { Some(pl) => pl.install(|| Default::default()), None => Default::default() };
      Box::new(Inst { p, pool })
   }
   impl Driver for Inst {
      fn load(&mut self, rel: usize, rows: &[Sexp], append: bool) -> Option<()> {
         match rel {
         0 => { let v: Vec<(i64,i64,)> = parse_rows(rows)?; if append { self.p.r0.extend(v) } else { self.p.r0 = v } },
         1 => { let v: Vec<(i64,i64,)> = parse_rows(rows)?; if append { self.p.r1.extend(v) } else { self.p.r1 = v } },
         2 => { let v: Vec<(i64,i64,)> = parse_rows(rows)?; if append { self.p.r2.extend(v) } else { self.p.r2 = v } },
         3 => { let v: Vec<(i64,)> = parse_rows(rows)?; if append { self.p.r3.extend(v) } else { self.p.r3 = v } },
            _ => return None,
         }
         Some(())
      }
      fn run(&mut self) { match &self.pool { Some(pl) => { let p = &mut self.p; pl.install(|| p.run()) }, None => self.p.run() } }
      fn run_here(&mut self) { self.p.run() }
      fn run_timeout(&mut self, k: usize) -> Option<bool> { let _ = k; None }
      fn dump(&self) -> String { vec![dump_rel(0, self.p.r0.iter().map(Row::render).collect()), dump_rel(1, self.p.r1.iter().map(Row::render).collect()), dump_rel(2, self.p.r2.iter().map(Row::render).collect()), dump_rel(3, self.p.r3.iter().map(Row::render).collect())].join(" | ") }
      fn iters(&self) -> String { format!("iters {}", self.p.scc_iters.iter().map(|x| x.to_string()).collect::<Vec<_>>().join(" ")) }
   }
}

#[allow(unused, non_snake_case, clippy::all)]
pub mod p57 {
   use ascent::*;
   use ascent::aggregators::*;
   use ascent::lattice::{Dual, set::Set};
   use crate::common::*;
   ascent! {
      pub struct Prog;
      relation r0(i64, i64);
      relation r1(i64, i64);
      relation r2(i64, i64);
      r1(v0, v0) <-- if let Some(v0) = Some(2), r0(1, v1) if ((*v1) != 4), if (v0 <= 6);
      r2(0, 0) <-- r1(1, 2);
      r1(v0, v1) <-- let v9 = 0, r2(v0, v1), r0(v1, v9);
      r1(((*v0) + 1), v0) <-- r1(v0, 3), if ((*v0) < 6);
   }
   pub struct Inst { p: Prog, pool: Option<ascent::rayon::ThreadPool> }
   pub fn make(pool: Option<usize>) -> Box<dyn Driver> {
      let pool = pool.map(|n| ascent::rayon::ThreadPoolBuilder::new().num_threads(n).build().unwrap());
      let p = match &pool { Some(pl) => pl.install(|| Default::default()), None => Default::default() };
      Box::new(Inst { p, pool })
   }
   impl Driver for Inst {
      fn load(&mut self, rel: usize, rows: &[Sexp], append: bool) -> Option<()> {
         match rel {
         0 => { let v: Vec<(i64,i64,)> = parse_rows(rows)?; if append { self.p.r0.extend(v) } else { self.p.r0 = v } },
         1 => { let v: Vec<(i64,i64,)> = parse_rows(rows)?; if append { self.p.r1.extend(v) } else { self.p.r1 = v } },
         2 => { let v: Vec<(i64,i64,)> = parse_rows(rows)?; if append { self.p.r2.extend(v) } else { self.p.r2 = v } },
            _ => return None,
         }
         Some(())
      }
      fn run(&mut self) { match &self.pool { Some(pl) => { let p = &mut self.p; pl.install(|| p.run()) }, None => self.p.run() } }
      fn run_here(&mut self) { self.p.run() }
      fn run_timeout(&mut self, k: usize) -> Option<bool> { let _ = k; None }
      fn dump(&self) -> String { vec![dump_rel(0, self.p.r0.iter().map(Row::render).collect()), dump_rel(1, self.p.r1.iter().map(Row::render).collect()), dump_rel(2, self.p.r2.iter().map(Row::render).collect())].join(" | ") }
      fn iters(&self) -> String { format!("iters {}", self.p.scc_iters.iter().map(|x| x.to_string()).collect::<Vec<_>>().join(" ")) }
   }
}

#[allow(unused, non_snake_case, clippy::all)]
pub mod p65 {
   use ascent::*;
   use ascent::aggregators::*;
   use ascent::lattice::{Dual, set::Set};
   use crate::common::*;
   ascent! {
      pub struct Prog;
      relation r0(i64, i64);
      relation r1(i64, i64, i64);
      relation r2(i64, i64);
      relation r3(i64, i64);
      relation r4(i64, i64);
      r1(v0, v1, v0) <-- if let Some(v0) = Some(2), r0(v0, v1) if ((*v1) < 2) let v2 = (v0 + 0), if (v0 <= 6);
      r2(v1, v0) <-- r0(v0, v1);
      r3(((*v1) + 1), v1) <-- r1(v0, 3, v1), r2(3, ((*v0) + 0)) if ((*v0) != 6), if ((*v1) < 6);
      r4(v0, v1) <-- r4(v0, v1), r2(v0, v0), r4(v1, v2);
      r2(v0, v0) <-- r3(3, v0), r0(v1, v0), if let Some(v2) = Some((*v0)), r2(v0, 2);
      r4((v0 + 1), (v0 + 1)) <-- if let Some(v0) = Some(2), if (v0 < 6), if (v0 < 6);
      r2(3, 0);
   }
   pub struct Inst { p: Prog, pool: Option<ascent::rayon::ThreadPool> }
   pub fn make(pool: Option<usize>) -> Box<dyn Driver> {
      let pool = pool.map(|n| ascent::rayon::ThreadPoolBuilder::new().num_threads(n).build().unwrap());
      let p = match &pool { Some(pl) => pl.install(|| Default::default()), None => Default::default() };
      Box::new(Inst { p, pool })
   }
   impl Driver for Inst {
      fn load(&mut self, rel: usize, rows: &[Sexp], append: bool) -> Option<()> {
         match rel {
         0 => { let v: Vec<(i64,i64,)> = parse_rows(rows)?; if append { self.p.r0.extend(v) } else { self.p.r0 = v } },
         1 => { let v: Vec<(i64,i64,i64,)> = parse_rows(rows)?; if append { self.p.r1.extend(v) } else { self.p.r1 = v } },
         2 => { let v: Vec<(i64,i64,)> = parse_rows(rows)?; if append { self.p.r2.extend(v) } else { self.p.r2 = v } },
         3 => { let v: Vec<(i64,i64,)> = parse_rows(rows)?; if append { self.p.r3.extend(v) } else { self.p.r3 = v } },
         4 => { let v: Vec<(i64,i64,)> = parse_rows(rows)?; if append { self.p.r4.extend(v) } else { self.p.r4 = v } },
            _ => return None,
         }
         Some(())
      }
      fn run(&mut self) { match &self.pool { Some(pl) => { let p = &mut self.p; pl.install(|| p.run()) }, None => self.p.run() } }
      fn run_here(&mut self) { self.p.run() }
      fn run_timeout(&mut self, k: usize) -> Option<bool> { let _ = k; None }
      fn dump(&self) -> String { vec![dump_rel(0, self.p.r0.iter().map(Row::render).collect()), dump_rel(1, self.p.r1.iter().map(Row::render).collect()), dump_rel(2, self.p.r2.iter().map(Row::render).collect()), dump_rel(3, self.p.r3.iter().map(Row::render).collect()), dump_rel(4, self.p.r4.iter().map(Row::render).collect())].join(" | ") }
      fn iters(&self) -> String { format!("iters {}", self.p.scc_iters.iter().map(|x| x.to_string()).collect::<Vec<_>>().join(" ")) }
   }
}

#[allow(unused, non_snake_case, clippy::all)]
pub mod p73 {
   use ascent::*;
   use ascent::aggregators::*;
   use ascent::lattice::{Dual, set::Set};
   use crate::common::*;
   ascent! {
      pub struct Prog;
      relation r0(i64, i64, i64);
      relation r1(i64, i64, i64);
      relation r2(i64, i64, i64);
      relation r3(i64, i64);
      r2(v0, v1, v9) <-- for v9 in 0..4, r3(v0, v1), r3(v9, v1);
      r3(v0, v1) <-- r3(v0, v1), r3(v1, v1);
      r1(((*v2) + 1), ((*v2) + 1), v2) <-- r2(v0, v1, v2), r1(v3, v0, v1), if ((*v2) < 6), if ((*v2) < 6);
      r3(((*v0) + 1), v1) <-- r0(v0, 3, v1), if ((*v0) < 6);
      r2(2, 3, 2);
   }
   pub struct Inst { p: Prog, pool: Option<ascent::rayon::ThreadPool> }
   pub fn make(pool: Option<usize>) -> Box<dyn Driver> {
      let pool = pool.map(|n| ascent::rayon::ThreadPoolBuilder::new().num_threads(n).build().unwrap());
      let p = match &pool { Some(pl) => pl.install(|| Default::default()), None => Default::default() };
      Box::new(Inst { p, pool })
   }
   impl Driver for Inst {
      fn load(&mut self, rel: usize, rows: &[Sexp], append: bool) -> Option<()> {
         match rel {
         0 => { let v: Vec<(i64,i64,i64,)> = parse_rows(rows)?; if append { self.p.r0.extend(v) } else { self.p.r0 = v } },
         1 => { let v: Vec<(i64,i64,i64,)> = parse_rows(rows)?; if append { self.p.r1.extend(v) } else { self.p.r1 = v } },
         2 => { let v: Vec<(i64,i64,i64,)> = parse_rows(rows)?; if append { self.p.r2.extend(v) } else { self.p.r2 = v } },
         3 => { let v: Vec<(i64,i64,)> = parse_rows(rows)?; if append { self.p.r3.extend(v) } else { self.p.r3 = v } },
            _ => return None,
         }
         Some(())
      }
      fn run(&mut self) { match &self.pool { Some(pl) => { let p = &mut self.p; pl.install(|| p.run()) }, None => self.p.run() } }
      fn run_here(&mut self) { self.p.run() }
      fn run_timeout(&mut self, k: usize) -> Option<bool> { let _ = k; None }
      fn dump(&self) -> String { vec![dump_rel(0, self.p.r0.iter().map(Row::render).collect()), dump_rel(1, self.p.r1.iter().map(Row::render).collect()), dump_rel(2, self.p.r2.iter().map(Row::render).collect()), dump_rel(3, self.p.r3.iter().map(Row::render).collect())].join(" | ") }
      fn iters(&self) -> String { format!("iters {}", self.p.scc_iters.iter().map(|x| x.to_string()).collect::<Vec<_>>().join(" ")) }
   }
}

#[allow(unused, non_snake_case, clippy::all)]
pub mod p81 {
   use ascent::*;
   use ascent::aggregators::*;
   use ascent::lattice::{Dual, set::Set};
   use crate::common::*;
   ascent! {
      pub struct Prog;
      relation r0(i64, i64);
      relation r1(i64, i64);
      relation r2(i64, i64);
      relation r3(i64, i64);
      r2(v3, 3) <-- r0(v0, 2) if ((*v0) != 2) let v1 = ((*v0) + 0), r3(v2, v1) if ((*v0) != 6), let v3 = (*v2), if (v3 <= 6);
      r3(v0, v0) <-- r2(2, v0);
      r3(v0, v1) <-- for v9 in 0..3, r3(v0, v1), r3(v9, v1);
      r2(v0, v2) <-- r0(v0, v1), r0(v1, v2), r3(v2, v3);
      r3(v0, ((*v1) + 1)) <-- r0(v0, v1) if ((*v0) != 2), if ((*v1) < 6);
      r3(v1, v2) <-- if let Some(v0) = None::<i64>, r1(v0, v1), r0(v2, v1), r1(v3, 2);
      r3(v0, 1) <-- r0(v0, v1);
      r2(2, v0) <-- r0(1, v0);
   }
   pub struct Inst { p: Prog, pool: Option<ascent::rayon::ThreadPool> }
   pub fn make(pool: Option<usize>) -> Box<dyn Driver> {
      let pool = pool.map(|n| ascent::rayon::ThreadPoolBuilder::new().num_threads(n).build().unwrap());
      let p = match &pool { Some(pl) => pl.install(|| Default::default()), None => Default::default() };
      Box::new(Inst { p, pool })
   }
   impl Driver for Inst {
      fn load(&mut self, rel: usize, rows: &[Sexp], append: bool) -> Option<()> {
         match rel {
         0 => { let v: Vec<(i64,i64,)> = parse_rows(rows)?; if append { self.p.r0.extend(v) } else { self.p.r0 = v } },
         1 => { let v: Vec<(i64,i64,)> = parse_rows(rows)?; if append { self.p.r1.extend(v) } else { self.p.r1 = v } },
         2 => { let v: Vec<(i64,i64,)> = parse_rows(rows)?; if append { self.p.r2.extend(v) } else { self.p.r2 = v } },
         3 => { let v: Vec<(i64,i64,)> = parse_rows(rows)?; if append { self.p.r3.extend(v) } else { self.p.r3 = v } },
            _ => return None,
         }
         Some(())
      }
      fn run(&mut self) { match &self.pool { Some(pl) => { let p = &mut self.p; pl.install(|| p.run()) }, None => self.p.run() } }
      fn run_here(&mut self) { self.p.run() }
      fn run_timeout(&mut self, k: usize) -> Option<bool> { let _ = k; None }
      fn dump(&self) -> String { vec![dump_rel(0, self.p.r0.iter().map(Row::render).collect()), dump_rel(1, self.p.r1.iter().map(Row::render).collect()), dump_rel(2, self.p.r2.iter().map(Row::render).collect()), dump_rel(3, self.p.r3.iter().map(Row::render).collect())].join(" | ") }
      fn iters(&self) -> String { format!("iters {}", self.p.scc_iters.iter().map(|x| x.to_string()).collect::<Vec<_>>().join(" ")) }
   }
}

#[allow(unused, non_snake_case, clippy::all)]
pub mod p89 {
   use ascent::*;
   use ascent::aggregators::*;
   use ascent::lattice::{Dual, set::Set};
   use crate::common::*;
   ascent! {
      pub struct Prog;
      relation r0(i64, i64);
      relation r1(i64, i64);
      relation r2(i64, i64, i64);
      relation r3(i64, i64);
      r3(v0, v1) <-- for v9 in 0..4, r0(v0, v1), r3(v9, v1);
      r3(v1, v0) <-- r0(v0, v1);
   }
   pub struct Inst { p: Prog, pool: Option<ascent::rayon::ThreadPool> }
   pub fn make(pool: Option<usize>) -> Box<dyn Driver> {
      let pool = pool.map(|n| ascent::rayon::ThreadPoolBuilder::new().num_threads(n).build().unwrap());
      let p = match &pool { Some(pl) => pl.install(|| Default::default()), None => Default::default() };
      Box::new(Inst { p, pool })
   }
   impl Driver for Inst {
      fn load(&mut self, rel: usize, rows: &[Sexp], append: bool) -> Option<()> {
         match rel {
         0 => { let v: Vec<(i64,i64,)> = parse_rows(rows)?; if append { self.p.r0.extend(v) } else { self.p.r0 = v } },
         1 => { let v: Vec<(i64,i64,)> = parse_rows(rows)?; if append { self.p.r1.extend(v) } else { self.p.r1 = v } },
         2 => { let v: Vec<(i64,i64,i64,)> = parse_rows(rows)?; if append { self.p.r2.extend(v) } else { self.p.r2 = v } },
         3 => { let v: Vec<(i64,i64,)> = parse_rows(rows)?; if append { self.p.r3.extend(v) } else { self.p.r3 = v } },
            _ => return None,
         }
         Some(())
      }
      fn run(&mut self) { match &self.pool { Some(pl) => { let p = &mut self.p; pl.install(|| p.run()) }, None => self.p.run() } }
      fn run_here(&mut self) { self.p.run() }
      fn run_timeout(&mut self, k: usize) -> Option<bool> { let _ = k; None }
      fn dump(&self) -> String { vec![dump_rel(0, self.p.r0.iter().map(Row::render).collect()), dump_rel(1, self.p.r1.iter().map(Row::render).collect()), dump_rel(2, self.p.r2.iter().map(Row::render).collect()), dump_rel(3, self.p.r3.iter().map(Row::render).collect())].join(" | ") }
      fn iters(&self) -> String { format!("iters {}", self.p.scc_iters.iter().map(|x| x.to_string()).collect::<Vec<_>>().join(" ")) }
   }
}

#[allow(unused, non_snake_case, clippy::all)]
pub mod p97 {
   use ascent::*;
   use ascent::aggregators::*;
   use ascent::lattice::{Dual, set::Set};
   use crate::common::*;
   ascent! {
      pub struct Prog;
      relation r0(i64);
      relation r1(i64, i64);
      relation r2(i64, i64);
      r2(v0, v8) <-- if let Some(v9) = Some(1), r1(v0, v1), r2(v1, v9) let v8 = ((*v0) + 1);
      r2(v0, v8) <-- if let Some(v9) = Some(3), r2(v0, v1), r2(v1, v9) let v8 = ((*v0) + 1);
      r2(((*v1) + 1), v2) <-- r2(v0, v1), r0(v2) if ((*v0) != 1), if ((*v1) < 6);
      r2(((*v1) + 1), v0) <-- r0(v0), r0(v0), r2(v1, v0), if let Some(v2) = Some((*v1)), if ((*v1) < 6);
      r2(v1, v0) <-- for v0 in 2..3, r2((v0 + 0), v1) if ((*v1) <= 1);
   }
   pub struct Inst { p: Prog, pool: Option<ascent::rayon::ThreadPool> }
   pub fn make(pool: Option<usize>) -> Box<dyn Driver> {
      let pool = pool.map(|n| ascent::rayon::ThreadPoolBuilder::new().num_threads(n).build().unwrap());
      let p = match &pool { Some(pl) => pl.install(|| Default::default()), None => Default::default() };
      Box::new(Inst { p, pool })
   }
   impl Driver for Inst {
      fn load(&mut self, rel: usize, rows: &[Sexp], append: bool) -> Option<()> {
         match rel {
         0 => { let v: Vec<(i64,)> = parse_rows(rows)?; if append { self.p.r0.extend(v) } else { self.p.r0 = v } },
         1 => { let v: Vec<(i64,i64,)> = parse_rows(rows)?; if append { self.p.r1.extend(v) } else { self.p.r1 = v } },
         2 => { let v: Vec<(i64,i64,)> = parse_rows(rows)?; if append { self.p.r2.extend(v) } else { self.p.r2 = v } },
            _ => return None,
         }
         Some(())
      }
      fn run(&mut self) { match &self.pool { Some(pl) => { let p = &mut self.p; pl.install(|| p.run()) }, None => self.p.run() } }
      fn run_here(&mut self) { self.p.run() }
      fn run_timeout(&mut self, k: usize) -> Option<bool> { let _ = k; None }
      fn dump(&self) -> String { vec![dump_rel(0, self.p.r0.iter().map(Row::render).collect()), dump_rel(1, self.p.r1.iter().map(Row::render).collect()), dump_rel(2, self.p.r2.iter().map(Row::render).collect())].join(" | ") }
      fn iters(&self) -> String { format!("iters {}", self.p.scc_iters.iter().map(|x| x.to_string()).collect::<Vec<_>>().join(" ")) }
   }
}

#[allow(unused, non_snake_case, clippy::all)]
pub mod p105 {
   use ascent::*;
   use ascent::aggregators::*;
   use ascent::lattice::{Dual, set::Set};
   use crate::common::*;
   ascent! {
      pub struct Prog;
      relation r0(i64, i64);
      relation r1(i64, i64);
      relation r2(i64, i64);
      r1(v0, v0) <-- if let Some(v0) = Some(0), r0(v0, v1), if (v0 <= 6);
      r2(v0, v1) <-- for v0 in 2..2, r1(v1, v2);
      r2(v0, v1) <-- r1(v0, v1), r1(v0, v0), r1(v1, v2);
      r1(v1, (v1 + 1)) <-- r1(2, v0), for v1 in 2..3, r2(v0, v0), if (v1 < 6);
      r1((v2 + 1), v1) <-- r2(1, v0), r1(v1, 1), for v2 in 1..3, if (v2 < 6);
      r2(2, 0);
   }
   pub struct Inst { p: Prog, pool: Option<ascent::rayon::ThreadPool> }
   pub fn make(pool: Option<usize>) -> Box<dyn Driver> {
      let pool = pool.map(|n| ascent::rayon::ThreadPoolBuilder::new().num_threads(n).build().unwrap());
      let p = match &pool { Some(pl) => pl.install(|| Default::default()), None => Default::default() };
      Box::new(Inst { p, pool })
   }
   impl Driver for Inst {
      fn load(&mut self, rel: usize, rows: &[Sexp], append: bool) -> Option<()> {
         match rel {
         0 => { let v: Vec<(i64,i64,)> = parse_rows(rows)?; if append { self.p.r0.extend(v) } else { self.p.r0 = v } },
         1 => { let v: Vec<(i64,i64,)> = parse_rows(rows)?; if append { self.p.r1.extend(v) } else { self.p.r1 = v } },
         2 => { let v: Vec<(i64,i64,)> = parse_rows(rows)?; if append { self.p.r2.extend(v) } else { self.p.r2 = v } },
            _ => return None,
         }
         Some(())
      }
      fn run(&mut self) { match &self.pool { Some(pl) => { let p = &mut self.p; pl.install(|| p.run()) }, None => self.p.run() } }
      fn run_here(&mut self) { self.p.run() }
      fn run_timeout(&mut self, k: usize) -> Option<bool> { let _ = k; None }
      fn dump(&self) -> String { vec![dump_rel(0, self.p.r0.iter().map(Row::render).collect()), dump_rel(1, self.p.r1.iter().map(Row::render).collect()), dump_rel(2, self.p.r2.iter().map(Row::render).collect())].join(" | ") }
      fn iters(&self) -> String { format!("iters {}", self.p.scc_iters.iter().map(|x| x.to_string()).collect::<Vec<_>>().join(" ")) }
   }
}

#[allow(unused, non_snake_case, clippy::all)]
pub mod p113 {
   use ascent::*;
   use ascent::aggregators::*;
   use ascent::lattice::{Dual, set::Set};
   use crate::common::*;
   ascent! {
      pub struct Prog;
      relation r0(i64, i64);
      relation r1(i64, i64);
      relation r2(i64, i64);
      relation r3(i64, i64);
      relation r4(i64, i64);
      relation r5(i64, i64);
      r2(v0, v2) <-- for v0 in [3, 4, 0], r1(v1, v2);
      r2(((*v0) + 1), ((*v0) + 1)) <-- r2(v0, 1), r2(((*v0) + 0), 1) if ((*v0) < 2), if ((*v0) < 6), if ((*v0) < 6);
      r4(v0, v2) <-- r2(v0, v1), r1(v1, v2), r0(v2, v3);
      r4(v0, v1) <-- r5(v0, v1), r2(v1, v1);
      r2(v0, v0) <-- let v0 = 2, if (v0 <= 6);
      r2(2, 0);
      r2(1, v1) <-- r2(v0, v1), for v2 in 1..2, r3(v3, v0), r2(v2, 1);
      r4(0, v2) <-- r1(1, v0), if let Some(v1) = Some((*v0)), r2((v1 + 0), v2);
   }
   pub struct Inst { p: Prog, pool: Option<ascent::rayon::ThreadPool> }
   pub fn make(pool: Option<usize>) -> Box<dyn Driver> {
      let pool = pool.map(|n| ascent::rayon::ThreadPoolBuilder::new().num_threads(n).build().unwrap());
      let p = match &pool { Some(pl) => pl.install(|| Default::default()), None => Default::default() };
      Box::new(Inst { p, pool })
   }
   impl Driver for Inst {
      fn load(&mut self, rel: usize, rows: &[Sexp], append: bool) -> Option<()> {
         match rel {
         0 => { let v: Vec<(i64,i64,)> = parse_rows(rows)?; if append { self.p.r0.extend(v) } else { self.p.r0 = v } },
         1 => { let v: Vec<(i64,i64,)> = parse_rows(rows)?; if append { self.p.r1.extend(v) } else { self.p.r1 = v } },
         2 => { let v: Vec<(i64,i64,)> = parse_rows(rows)?; if append { self.p.r2.extend(v) } else { self.p.r2 = v } },
         3 => { let v: Vec<(i64,i64,)> = parse_rows(rows)?; if append { self.p.r3.extend(v) } else { self.p.r3 = v } },
         4 => { let v: Vec<(i64,i64,)> = parse_rows(rows)?; if append { self.p.r4.extend(v) } else { self.p.r4 = v } },
         5 => { let v: Vec<(i64,i64,)> = parse_rows(rows)?; if append { self.p.r5.extend(v) } else { self.p.r5 = v } },
            _ => return None,
         }
         Some(())
      }
      fn run(&mut self) { match &self.pool { Some(pl) => { let p = &mut self.p; pl.install(|| p.run()) }, None => self.p.run() } }
      fn run_here(&mut self) { self.p.run() }
      fn run_timeout(&mut self, k: usize) -> Option<bool> { let _ = k; None }
      fn dump(&self) -> String { vec![dump_rel(0, self.p.r0.iter().map(Row::render).collect()), dump_rel(1, self.p.r1.iter().map(Row::render).collect()), dump_rel(2, self.p.r2.iter().map(Row::render).collect()), dump_rel(3, self.p.r3.iter().map(Row::render).collect()), dump_rel(4, self.p.r4.iter().map(Row::render).collect()), dump_rel(5, self.p.r5.iter().map(Row::render).collect())].join(" | ") }
      fn iters(&self) -> String { format!("iters {}", self.p.scc_iters.iter().map(|x| x.to_string()).collect::<Vec<_>>().join(" ")) }
   }
}

fn main() {
   common::main_loop(&[("p1", p1::make as common::Factory), ("p9", p9::make as common::Factory), ("p17", p17::make as common::Factory), ("p25", p25::make as common::Factory), ("p33", p33::make as common::Factory), ("p41", p41::make as common::Factory), ("p49", p49::make as common::Factory), ("p57", p57::make as common::Factory), ("p65", p65::make as common::Factory), ("p73", p73::make as common::Factory), ("p81", p81::make as common::Factory), ("p89", p89::make as common::Factory), ("p97", p97::make as common::Factory), ("p105", p105::make as common::Factory), ("p113", p113::make as common::Factory)]);
}
