#[path = "common.rs"]
mod common;
#[allow(unused, non_snake_case, clippy::all)]
pub mod g1x {
   use ascent::*;
   use ascent::aggregators::*;
   use ascent::lattice::{Dual, set::Set};
   use crate::common::*;
   ascent! {
      pub struct Prog;
      relation r0(i64, i64);
      relation r1(i64, Option<i64>);
      relation r2(i64);
      relation r3(i64, i64, i64);
      relation r4(i64, i64);
      relation r5(i64);
      relation r6(i64, i64, i64);
      relation r7(i64, i64, i64);
      r5(v0) <-- r1(v0, v100) if (v100.clone() == None::<i64>), r2(v1), r4(v101, v102) if (v101.clone() == (v0.clone() + v1.clone())) if (v102.clone() == v1.clone()) if (v0.clone() < 2);
      r6(v5, v6, v4) <-- r7(v1, v0, v2), agg () = not() in r0(3, v0.clone()), if let Some(v4) = Some(v0.clone()), r7(v5, v6, v7);
      r6(v5, v6, v4) <-- r5(v0) if (v0.clone() < 1), let v3 = std::cmp::min(std::cmp::min(v0.clone(), 3), 6), if let Some(v4) = Some(v0.clone()), r7(v5, v6, v7);
      r7(3, v0, v0) <-- r6(v103, v0, v104) if (v104.clone() == v0.clone()) if (v0.clone() <= 2), r3(v1, v105, v106) if (v105.clone() == v1.clone()) if (v106.clone() == (v1.clone() + 2));
      r6(v0, v0, v1) <-- r2(v0) if (v0.clone() < 2) let v1 = std::cmp::min((v0.clone() + 1), 6);
      r5(v0) <-- r2(v0) if (v0.clone() < 2) let v1 = std::cmp::min((v0.clone() + 1), 6);
      r7(v0, v0, v0) <-- r2(v0);
      r7(v0, v0, v0) <-- agg () = not() in r0(3, 0), if let Some(v0) = None::<i64>, r2(v107) if (v107.clone() == (v0.clone() + 2));
   }
   pub struct Inst { p: Prog, pool: Option<ascent::rayon::ThreadPool> }
   pub fn make(pool: Option<usize>) -> Box<dyn Driver> {
      let pool = pool.map(|n| ascent::rayon::ThreadPoolBuilder::new().num_threads(n).build().unwrap());
      let p = match &pool { Some(pl) => pl.install(|| Default::default()), None => Default::default() };
      Box::new(Inst { p, pool })
   }
   impl Driver for Inst {
      fn load(&mut self, rel: usize, rows: &[Sexp], append: bool) -> Option<()> {
         match rel {
         0 => { let v: Vec<(i64,i64,)> = parse_rows(rows)?; if append { self.p.r0.extend(v) } else { self.p.r0 = v } },
         1 => { let v: Vec<(i64,Option<i64>,)> = parse_rows(rows)?; if append { self.p.r1.extend(v) } else { self.p.r1 = v } },
         2 => { let v: Vec<(i64,)> = parse_rows(rows)?; if append { self.p.r2.extend(v) } else { self.p.r2 = v } },
         3 => { let v: Vec<(i64,i64,i64,)> = parse_rows(rows)?; if append { self.p.r3.extend(v) } else { self.p.r3 = v } },
         4 => { let v: Vec<(i64,i64,)> = parse_rows(rows)?; if append { self.p.r4.extend(v) } else { self.p.r4 = v } },
         5 => { let v: Vec<(i64,)> = parse_rows(rows)?; if append { self.p.r5.extend(v) } else { self.p.r5 = v } },
         6 => { let v: Vec<(i64,i64,i64,)> = parse_rows(rows)?; if append { self.p.r6.extend(v) } else { self.p.r6 = v } },
         7 => { let v: Vec<(i64,i64,i64,)> = parse_rows(rows)?; if append { self.p.r7.extend(v) } else { self.p.r7 = v } },
            _ => return None,
         }
         Some(())
      }
      fn run(&mut self) { match &self.pool { Some(pl) => { let p = &mut self.p; pl.install(|| p.run()) }, None => self.p.run() } }
      fn run_here(&mut self) { self.p.run() }
      fn run_timeout(&mut self, k: usize) -> Option<bool> { let _ = k; None }
      fn dump(&self) -> String { vec![dump_rel(0, self.p.r0.iter().map(Row::render).collect()), dump_rel(1, self.p.r1.iter().map(Row::render).collect()), dump_rel(2, self.p.r2.iter().map(Row::render).collect()), dump_rel(3, self.p.r3.iter().map(Row::render).collect()), dump_rel(4, self.p.r4.iter().map(Row::render).collect()), dump_rel(5, self.p.r5.iter().map(Row::render).collect()), dump_rel(6, self.p.r6.iter().map(Row::render).collect()), dump_rel(7, self.p.r7.iter().map(Row::render).collect())].join(" | ") }
      fn iters(&self) -> String { format!("iters {}", self.p.scc_iters.iter().map(|x| x.to_string()).collect::<Vec<_>>().join(" ")) }
   }
}

#[allow(unused, non_snake_case, clippy::all)]
pub mod g5x {
   use ascent::*;
   use ascent::aggregators::*;
   use ascent::lattice::{Dual, set::Set};
   use crate::common::*;
   ascent! {
      pub struct Prog;
      relation r0(i64, i64);
      relation r1(i64, Option<i64>);
      relation r2(i64);
      relation r3(i64, i64, i64);
      relation r4(i64, i64);
      relation r5(i64, i64);
      relation r6(i64, i64, Option<i64>);
      relation r7(i64, i64);
      r5((v0.clone() + 1), v0) <-- r2(v0), r0(v100, v101) if (v101.clone() == v0.clone()) if (v0.clone() <= 4), r1(v102, v103) if (v102.clone() == v0.clone()) if (v103.clone() == None::<i64>), if (v0.clone() < 5);
      r6(2, v1, Some(v0.clone())) <-- r1(v0, v104) if (v104.clone() == Some(std::cmp::min(v0.clone(), 4))), r2(v1), agg () = not() in r5(_, (v0.clone() + 2));
      r7(2, 3) <-- r6(v1, v105, v0) if (v105.clone() == v1.clone()), r1(v106, v107) if (v106.clone() == std::cmp::max(v1.clone(), 2)) if (v107.clone() == Some(std::cmp::min(v1.clone(), 3))) if (v1.clone() < 1);
      r7(2, 3) <-- r6(v108, v2, v0) if (v108.clone() == 2);
      r6(v1, v1, v0) <-- agg () = not() in r3(0, 1, 0), r1(v109, v0), r4(v1, v110) if (v110.clone() == v1.clone()), if (v1.clone() < 5);
      r5(v1, (v1.clone() + 1)) <-- agg () = not() in r3(0, 1, 0), r1(v109, v0), r4(v1, v110) if (v110.clone() == v1.clone()), if (v1.clone() < 5);
      r6(v1, v0, Some(0)) <-- r1(v0, v111) if let Some(v1) = v111.clone();
      r5(3, 3);
      r7(2, 0);
   }
   pub struct Inst { p: Prog, pool: Option<ascent::rayon::ThreadPool> }
   pub fn make(pool: Option<usize>) -> Box<dyn Driver> {
      let pool = pool.map(|n| ascent::rayon::ThreadPoolBuilder::new().num_threads(n).build().unwrap());
      let p = match &pool { Some(pl) => pl.install(|| Default::default()), None => Default::default() };
      Box::new(Inst { p, pool })
   }
   impl Driver for Inst {
      fn load(&mut self, rel: usize, rows: &[Sexp], append: bool) -> Option<()> {
         match rel {
         0 => { let v: Vec<(i64,i64,)> = parse_rows(rows)?; if append { self.p.r0.extend(v) } else { self.p.r0 = v } },
         1 => { let v: Vec<(i64,Option<i64>,)> = parse_rows(rows)?; if append { self.p.r1.extend(v) } else { self.p.r1 = v } },
         2 => { let v: Vec<(i64,)> = parse_rows(rows)?; if append { self.p.r2.extend(v) } else { self.p.r2 = v } },
         3 => { let v: Vec<(i64,i64,i64,)> = parse_rows(rows)?; if append { self.p.r3.extend(v) } else { self.p.r3 = v } },
         4 => { let v: Vec<(i64,i64,)> = parse_rows(rows)?; if append { self.p.r4.extend(v) } else { self.p.r4 = v } },
         5 => { let v: Vec<(i64,i64,)> = parse_rows(rows)?; if append { self.p.r5.extend(v) } else { self.p.r5 = v } },
         6 => { let v: Vec<(i64,i64,Option<i64>,)> = parse_rows(rows)?; if append { self.p.r6.extend(v) } else { self.p.r6 = v } },
         7 => { let v: Vec<(i64,i64,)> = parse_rows(rows)?; if append { self.p.r7.extend(v) } else { self.p.r7 = v } },
            _ => return None,
         }
         Some(())
      }
      fn run(&mut self) { match &self.pool { Some(pl) => { let p = &mut self.p; pl.install(|| p.run()) }, None => self.p.run() } }
      fn run_here(&mut self) { self.p.run() }
      fn run_timeout(&mut self, k: usize) -> Option<bool> { let _ = k; None }
      fn dump(&self) -> String { vec![dump_rel(0, self.p.r0.iter().map(Row::render).collect()), dump_rel(1, self.p.r1.iter().map(Row::render).collect()), dump_rel(2, self.p.r2.iter().map(Row::render).collect()), dump_rel(3, self.p.r3.iter().map(Row::render).collect()), dump_rel(4, self.p.r4.iter().map(Row::render).collect()), dump_rel(5, self.p.r5.iter().map(Row::render).collect()), dump_rel(6, self.p.r6.iter().map(Row::render).collect()), dump_rel(7, self.p.r7.iter().map(Row::render).collect())].join(" | ") }
      fn iters(&self) -> String { format!("iters {}", self.p.scc_iters.iter().map(|x| x.to_string()).collect::<Vec<_>>().join(" ")) }
   }
}

#[allow(unused, non_snake_case, clippy::all)]
pub mod g9x {
   use ascent::*;
   use ascent::aggregators::*;
   use ascent::lattice::{Dual, set::Set};
   use crate::common::*;
   ascent! {
      pub struct Prog;
      relation r0(i64, i64);
      relation r1(i64, Option<i64>);
      relation r2(i64);
      relation r3(i64, i64, i64);
      relation r4(i64);
      relation r5(i64, i64, Option<i64>);
      relation r6(i64, i64, i64);
      relation r7(i64, i64);
      r4((v0.clone() + 1)) <-- if let Some(v0) = Some(3), if (v0.clone() < 5);
      r5(2, v2, v4) <-- r3(v100, v0, v101) if (v101.clone() == v0.clone()) if (v0.clone() < 2), r1(v1, v102) if let Some(v2) = v102.clone() if (v0.clone() <= 4), r1(v3, v4) if (v0.clone() < v1.clone()), agg () = not() in r1(v2.clone(), v4.clone());
      r5(2, v2, v4) <-- r3(v103, v0, v104) if (v104.clone() == v0.clone()) if (v0.clone() < 2), r1(v1, v105) if let Some(v2) = v105.clone() if (v0.clone() <= 4), r5(v106, v3, v4) if (v106.clone() == v0.clone()), let v5 = std::cmp::min((v1.clone() + 1), 6);
      r6(1, v3, v3) <-- r7(v0, v107) if (v107.clone() == std::cmp::max(v0.clone(), 1)) if (v0.clone() < 2), r3(v108, v109, v3) if (v108.clone() == 2) if (v109.clone() == v0.clone());
      r6(1, v3, v3) <-- r5(v0, v1, v110) if let Some(v2) = v110.clone(), r3(v111, v112, v3) if (v111.clone() == 2) if (v112.clone() == v0.clone());
      r7((v0.clone() + 1), v1) <-- r1(v0, v113) if let Some(v1) = v113.clone(), if (v0.clone() < v0.clone()), r1(v114, v2) if (v114.clone() == v1.clone()), if (v0.clone() < 5);
      r7((v0.clone() + 1), v0) <-- r6(v0, v115, v116) if (v115.clone() == v0.clone()) if (v116.clone() == v0.clone()), r1(v117, v118) if (v117.clone() == v0.clone()) if (v118.clone() == None::<i64>), if (v0.clone() < 5);
      r6(v0, v0, v0) <-- r6(v0, v115, v116) if (v115.clone() == v0.clone()) if (v116.clone() == v0.clone()), r1(v117, v118) if (v117.clone() == v0.clone()) if (v118.clone() == None::<i64>), if (v0.clone() < 5);
      r5(v1, v0, Some(v1.clone())) <-- r2(v119) if (v119.clone() == 2), r6(v0, v120, v121) if (v120.clone() == 3) if (v121.clone() == std::cmp::max(v0.clone(), 1)), r3(v1, v122, v123) if (v122.clone() == (v1.clone() + v1.clone())) if (v123.clone() == std::cmp::max(v0.clone(), 0));
      r7(1, v1) <-- if let Some(v0) = Some(2), r5(v124, v125, v126) if (v124.clone() == v0.clone()) if (v125.clone() == v0.clone()) if (v126.clone() == None::<i64>), r3(v127, v128, v1) if (v127.clone() == std::cmp::max(v0.clone(), 3)) if (v128.clone() == v0.clone());
      r5((v1.clone() + 1), v0, Some(1)) <-- r1(v0, v129) if let Some(v1) = v129.clone(), if (v1.clone() < 5);
      r5((v1.clone() + 1), v0, Some(1)) <-- r3(v1, v2, v0), r0(v130, v131) if (v131.clone() == 2) if (v0.clone() < v0.clone()), r2(v132) if (v132.clone() == v0.clone()), if (v1.clone() < 5);
      r5((v1.clone() + 1), v0, Some(1)) <-- r6(v0, v1, v2), r4(v133) if (v133.clone() == v2.clone()), r2(v134) if (v134.clone() == v0.clone()), if (v1.clone() < 5);
      r5((v1.clone() + 1), v0, Some(1)) <-- r5(v0, v1, v135) if let Some(v2) = v135.clone(), r0(v3, v136) if (v136.clone() == std::cmp::min(v2.clone(), 2)), r2(v137) if (v137.clone() == v0.clone()), if (v1.clone() < 5);
      r7(1, 0);
   }
   pub struct Inst { p: Prog, pool: Option<ascent::rayon::ThreadPool> }
   pub fn make(pool: Option<usize>) -> Box<dyn Driver> {
      let pool = pool.map(|n| ascent::rayon::ThreadPoolBuilder::new().num_threads(n).build().unwrap());
      let p = match &pool { Some(pl) => pl.install(|| Default::default()), None => Default::default() };
      Box::new(Inst { p, pool })
   }
   impl Driver for Inst {
      fn load(&mut self, rel: usize, rows: &[Sexp], append: bool) -> Option<()> {
         match rel {
         0 => { let v: Vec<(i64,i64,)> = parse_rows(rows)?; if append { self.p.r0.extend(v) } else { self.p.r0 = v } },
         1 => { let v: Vec<(i64,Option<i64>,)> = parse_rows(rows)?; if append { self.p.r1.extend(v) } else { self.p.r1 = v } },
         2 => { let v: Vec<(i64,)> = parse_rows(rows)?; if append { self.p.r2.extend(v) } else { self.p.r2 = v } },
         3 => { let v: Vec<(i64,i64,i64,)> = parse_rows(rows)?; if append { self.p.r3.extend(v) } else { self.p.r3 = v } },
         4 => { let v: Vec<(i64,)> = parse_rows(rows)?; if append { self.p.r4.extend(v) } else { self.p.r4 = v } },
         5 => { let v: Vec<(i64,i64,Option<i64>,)> = parse_rows(rows)?; if append { self.p.r5.extend(v) } else { self.p.r5 = v } },
         6 => { let v: Vec<(i64,i64,i64,)> = parse_rows(rows)?; if append { self.p.r6.extend(v) } else { self.p.r6 = v } },
         7 => { let v: Vec<(i64,i64,)> = parse_rows(rows)?; if append { self.p.r7.extend(v) } else { self.p.r7 = v } },
            _ => return None,
         }
         Some(())
      }
      fn run(&mut self) { match &self.pool { Some(pl) => { let p = &mut self.p; pl.install(|| p.run()) }, None => self.p.run() } }
      fn run_here(&mut self) { self.p.run() }
      fn run_timeout(&mut self, k: usize) -> Option<bool> { let _ = k; None }
      fn dump(&self) -> String { vec![dump_rel(0, self.p.r0.iter().map(Row::render).collect()), dump_rel(1, self.p.r1.iter().map(Row::render).collect()), dump_rel(2, self.p.r2.iter().map(Row::render).collect()), dump_rel(3, self.p.r3.iter().map(Row::render).collect()), dump_rel(4, self.p.r4.iter().map(Row::render).collect()), dump_rel(5, self.p.r5.iter().map(Row::render).collect()), dump_rel(6, self.p.r6.iter().map(Row::render).collect()), dump_rel(7, self.p.r7.iter().map(Row::render).collect())].join(" | ") }
      fn iters(&self) -> String { format!("iters {}", self.p.scc_iters.iter().map(|x| x.to_string()).collect::<Vec<_>>().join(" ")) }
   }
}

#[allow(unused, non_snake_case, clippy::all)]
pub mod g13x {
   use ascent::*;
   use ascent::aggregators::*;
   use ascent::lattice::{Dual, set::Set};
   use crate::common::*;
   ascent! {
      pub struct Prog;
      relation r0(i64, i64);
      relation r1(i64, Option<i64>);
      relation r2(i64);
      relation r3(i64, i64, i64);
      relation r4(i64, i64);
      relation r5(i64);
      relation r6(i64, i64);
      relation r7(i64, Option<i64>);
      relation r8(i64, i64);
      r5(2) <-- r3(v0, v2, v1), agg () = not() in r0(_, (v2.clone() + 0)), r2(v100) if (v100.clone() == v0.clone());
      r5(2) <-- r3(v3, v0, v1), r1(v4, v101) if (v101.clone() == Some(v4.clone())), r2(v102) if (v102.clone() == v0.clone());
      r5(2) <-- r3(v3, v0, v1), r4(v4, v103) if (v103.clone() == v4.clone()), r2(v104) if (v104.clone() == v0.clone()), r2(v105) if (v105.clone() == v0.clone());
      r5(2) <-- r3(v0, v1, v106) if (v106.clone() == v0.clone()) if (v1.clone() != 2), r1(v107, v108) if (v107.clone() == (v1.clone() + 0)) if (v108.clone() == None::<i64>), r2(v109) if (v109.clone() == v0.clone());
      r6((v0.clone() + 1), v0) <-- r3(v0, v110, v111) if (v110.clone() == v0.clone()) if (v111.clone() == v0.clone()) if (v0.clone() == 0) let v1 = std::cmp::min(std::cmp::min(v0.clone(), 4), 6), if (v0.clone() < 5);
      r7(v0, Some(v0.clone())) <-- if let Some(v0) = Some(0);
      r8(v7, 0) <-- r3(v0, v1, v112), r4(v113, v7) if (v113.clone() == (v1.clone() + 0));
      r6(v0, v1) <-- r0(v114, v0), if let Some(v1) = Some(v0.clone());
      r5(v0) <-- r0(v114, v0), if let Some(v1) = Some(v0.clone());
      r6(0, v2) <-- r7(v0, v1) if (v0.clone() == 2), r0(v2, v115) if (v115.clone() == (v2.clone() + v2.clone()));
      r8(v0, 2) <-- r7(v0, v116), r8(v117, v118) if (v117.clone() == v0.clone()) if (v118.clone() == v0.clone());
      r8(v0, 2) <-- r8(v0, v1), r4(v119, v120) if (v119.clone() == v1.clone());
      r5(1);
      r7(3, Some(3));
   }
   pub struct Inst { p: Prog, pool: Option<ascent::rayon::ThreadPool> }
   pub fn make(pool: Option<usize>) -> Box<dyn Driver> {
      let pool = pool.map(|n| ascent::rayon::ThreadPoolBuilder::new().num_threads(n).build().unwrap());
      let p = match &pool { Some(pl) => pl.install(|| Default::default()), None => Default::default() };
      Box::new(Inst { p, pool })
   }
   impl Driver for Inst {
      fn load(&mut self, rel: usize, rows: &[Sexp], append: bool) -> Option<()> {
         match rel {
         0 => { let v: Vec<(i64,i64,)> = parse_rows(rows)?; if append { self.p.r0.extend(v) } else { self.p.r0 = v } },
         1 => { let v: Vec<(i64,Option<i64>,)> = parse_rows(rows)?; if append { self.p.r1.extend(v) } else { self.p.r1 = v } },
         2 => { let v: Vec<(i64,)> = parse_rows(rows)?; if append { self.p.r2.extend(v) } else { self.p.r2 = v } },
         3 => { let v: Vec<(i64,i64,i64,)> = parse_rows(rows)?; if append { self.p.r3.extend(v) } else { self.p.r3 = v } },
         4 => { let v: Vec<(i64,i64,)> = parse_rows(rows)?; if append { self.p.r4.extend(v) } else { self.p.r4 = v } },
         5 => { let v: Vec<(i64,)> = parse_rows(rows)?; if append { self.p.r5.extend(v) } else { self.p.r5 = v } },
         6 => { let v: Vec<(i64,i64,)> = parse_rows(rows)?; if append { self.p.r6.extend(v) } else { self.p.r6 = v } },
         7 => { let v: Vec<(i64,Option<i64>,)> = parse_rows(rows)?; if append { self.p.r7.extend(v) } else { self.p.r7 = v } },
         8 => { let v: Vec<(i64,i64,)> = parse_rows(rows)?; if append { self.p.r8.extend(v) } else { self.p.r8 = v } },
            _ => return None,
         }
         Some(())
      }
      fn run(&mut self) { match &self.pool { Some(pl) => { let p = &mut self.p; pl.install(|| p.run()) }, None => self.p.run() } }
      fn run_here(&mut self) { self.p.run() }
      fn run_timeout(&mut self, k: usize) -> Option<bool> { let _ = k; None }
      fn dump(&self) -> String { vec![dump_rel(0, self.p.r0.iter().map(Row::render).collect()), dump_rel(1, self.p.r1.iter().map(Row::render).collect()), dump_rel(2, self.p.r2.iter().map(Row::render).collect()), dump_rel(3, self.p.r3.iter().map(Row::render).collect()), dump_rel(4, self.p.r4.iter().map(Row::render).collect()), dump_rel(5, self.p.r5.iter().map(Row::render).collect()), dump_rel(6, self.p.r6.iter().map(Row::render).collect()), dump_rel(7, self.p.r7.iter().map(Row::render).collect()), dump_rel(8, self.p.r8.iter().map(Row::render).collect())].join(" | ") }
      fn iters(&self) -> String { format!("iters {}", self.p.scc_iters.iter().map(|x| x.to_string()).collect::<Vec<_>>().join(" ")) }
   }
}

#[allow(unused, non_snake_case, clippy::all)]
pub mod n3x {
   use ascent::*;
   use ascent::aggregators::*;
   use ascent::lattice::{Dual, set::Set};
   use crate::common::*;
   ascent! {
      pub struct Prog;
      relation r0(i64, i64);
      relation r1(i64);
      lattice r2(i64, i64);
      relation r3(i64);
      relation r4(i64);
      relation r5(i64, i64);
      r2(v0, v1) <-- r0(v0, v1);
      r2(v0, (v1.clone() + 1)) <-- r2(v0, v1), r1(v100) if (v100.clone() == v1.clone()), if (v1.clone() < 5);
      r3(v0) <-- r0(v0, v101), r2(v102, v103) if (v102.clone() == v0.clone()) if (v103.clone() == 0);
      r4(v0) <-- r1(v0), r2(v104, v105) if (v104.clone() == v0.clone()) if (v105.clone() == (v0.clone() + 1));
   }
   pub struct Inst { p: Prog, pool: Option<ascent::rayon::ThreadPool> }
   pub fn make(pool: Option<usize>) -> Box<dyn Driver> {
      let pool = pool.map(|n| ascent::rayon::ThreadPoolBuilder::new().num_threads(n).build().unwrap());
      let p = match &pool { Some(pl) => pl.install(|| Default::default()), None => Default::default() };
      Box::new(Inst { p, pool })
   }
   impl Driver for Inst {
      fn load(&mut self, rel: usize, rows: &[Sexp], append: bool) -> Option<()> {
         match rel {
         0 => { let v: Vec<(i64,i64,)> = parse_rows(rows)?; if append { self.p.r0.extend(v) } else { self.p.r0 = v } },
         1 => { let v: Vec<(i64,)> = parse_rows(rows)?; if append { self.p.r1.extend(v) } else { self.p.r1 = v } },
         2 => { let v: Vec<(i64,i64,)> = parse_rows(rows)?; if append { self.p.r2.extend(v) } else { self.p.r2 = v } },
         3 => { let v: Vec<(i64,)> = parse_rows(rows)?; if append { self.p.r3.extend(v) } else { self.p.r3 = v } },
         4 => { let v: Vec<(i64,)> = parse_rows(rows)?; if append { self.p.r4.extend(v) } else { self.p.r4 = v } },
         5 => { let v: Vec<(i64,i64,)> = parse_rows(rows)?; if append { self.p.r5.extend(v) } else { self.p.r5 = v } },
            _ => return None,
         }
         Some(())
      }
      fn run(&mut self) { match &self.pool { Some(pl) => { let p = &mut self.p; pl.install(|| p.run()) }, None => self.p.run() } }
      fn run_here(&mut self) { self.p.run() }
      fn run_timeout(&mut self, k: usize) -> Option<bool> { let _ = k; None }
      fn dump(&self) -> String { vec![dump_rel(0, self.p.r0.iter().map(Row::render).collect()), dump_rel(1, self.p.r1.iter().map(Row::render).collect()), dump_rel(2, self.p.r2.iter().map(Row::render).collect()), dump_rel(3, self.p.r3.iter().map(Row::render).collect()), dump_rel(4, self.p.r4.iter().map(Row::render).collect()), dump_rel(5, self.p.r5.iter().map(Row::render).collect())].join(" | ") }
      fn iters(&self) -> String { format!("iters {}", self.p.scc_iters.iter().map(|x| x.to_string()).collect::<Vec<_>>().join(" ")) }
   }
}

fn main() {
   common::main_loop(&[("g1x", g1x::make as common::Factory), ("g5x", g5x::make as common::Factory), ("g9x", g9x::make as common::Factory), ("g13x", g13x::make as common::Factory), ("n3x", n3x::make as common::Factory)]);
}
