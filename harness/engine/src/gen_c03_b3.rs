#[path = "common.rs"]
mod common;
#[allow(unused, non_snake_case, clippy::all)]
pub mod l3 {
   use ascent::*;
   use ascent::aggregators::*;
   use ascent::lattice::{Dual, set::Set};
   use crate::common::*;
   ascent! {
      pub struct Prog;
      relation r0(i64, i64);
      relation r1(i64, i64);
      relation r2(i64);
      lattice r3(i64, i64, Set<i64>);
      r3(v0, v0, Set::singleton((*v0))) <-- r2(v0);
      r3(v1, v1, v2) <-- r3(v0, v1, v2), r1(2, v0) if ((*v1) < 6);
      r1(v0, v0) <-- r0(v0, v0);
      r0(2, v0) <-- r1(0, v0);
      r1(v1, v2) <-- r3(0, 0, v0), r1(v1, v2);
   }
   pub struct Inst { p: Prog, pool: Option<ascent::rayon::ThreadPool> }
   pub fn make(pool: Option<usize>) -> Box<dyn Driver> {
      let pool = pool.map(|n| ascent::rayon::ThreadPoolBuilder::new().num_threads(n).build().unwrap());
      let p = match &pool { Some(pl) => pl.install(|| Default::default()), None => Default::default() };
      Box::new(Inst { p, pool })
   }
   impl Driver for Inst {
      fn load(&mut self, rel: usize, rows: &[Sexp], append: bool) -> Option<()> {
         match rel {
         0 => { let v: Vec<(i64,i64,)> = parse_rows(rows)?; if append { self.p.r0.extend(v) } else { self.p.r0 = v } },
         1 => { let v: Vec<(i64,i64,)> = parse_rows(rows)?; if append { self.p.r1.extend(v) } else { self.p.r1 = v } },
         2 => { let v: Vec<(i64,)> = parse_rows(rows)?; if append { self.p.r2.extend(v) } else { self.p.r2 = v } },
         3 => { let v: Vec<(i64,i64,Set<i64>,)> = parse_rows(rows)?; if append { self.p.r3.extend(v) } else { self.p.r3 = v } },
            _ => return None,
         }
         Some(())
      }
      fn run(&mut self) { match &self.pool { Some(pl) => { let p = &mut self.p; pl.install(|| p.run()) }, None => self.p.run() } }
      fn run_here(&mut self) { self.p.run() }
      fn run_timeout(&mut self, k: usize) -> Option<bool> { let _ = k; None }
      fn dump(&self) -> String { vec![dump_rel(0, self.p.r0.iter().map(Row::render).collect()), dump_rel(1, self.p.r1.iter().map(Row::render).collect()), dump_rel(2, self.p.r2.iter().map(Row::render).collect()), dump_rel(3, self.p.r3.iter().map(Row::render).collect())].join(" | ") }
      fn iters(&self) -> String { format!("iters {}", self.p.scc_iters.iter().map(|x| x.to_string()).collect::<Vec<_>>().join(" ")) }
   }
}

#[allow(unused, non_snake_case, clippy::all)]
pub mod l11 {
   use ascent::*;
   use ascent::aggregators::*;
   use ascent::lattice::{Dual, set::Set};
   use crate::common::*;
   ascent! {
      pub struct Prog;
      relation r0(i64);
      relation r1(i64, i64);
      relation r2(i64);
      lattice r3(i64, Option<i64>);
      r3(v0, Some((*v0))) <-- r0(v0);
      r3(v2, v3) <-- r3(v0, v1) if ((*v0) < 6), r3(v2, v3) if ((*v2) < 6);
      r2(v0) <-- r0(v0) if ((*v0) < 2), r2(v1) if ((*v1) < 5);
      r2(v0) <-- r2(v0);
      r3(v0, v1) <-- r3(v0, v1), r0(v2);
   }
   pub struct Inst { p: Prog, pool: Option<ascent::rayon::ThreadPool> }
   pub fn make(pool: Option<usize>) -> Box<dyn Driver> {
      let pool = pool.map(|n| ascent::rayon::ThreadPoolBuilder::new().num_threads(n).build().unwrap());
      let p = match &pool { Some(pl) => pl.install(|| Default::default()), None => Default::default() };
      Box::new(Inst { p, pool })
   }
   impl Driver for Inst {
      fn load(&mut self, rel: usize, rows: &[Sexp], append: bool) -> Option<()> {
         match rel {
         0 => { let v: Vec<(i64,)> = parse_rows(rows)?; if append { self.p.r0.extend(v) } else { self.p.r0 = v } },
         1 => { let v: Vec<(i64,i64,)> = parse_rows(rows)?; if append { self.p.r1.extend(v) } else { self.p.r1 = v } },
         2 => { let v: Vec<(i64,)> = parse_rows(rows)?; if append { self.p.r2.extend(v) } else { self.p.r2 = v } },
         3 => { let v: Vec<(i64,Option<i64>,)> = parse_rows(rows)?; if append { self.p.r3.extend(v) } else { self.p.r3 = v } },
            _ => return None,
         }
         Some(())
      }
      fn run(&mut self) { match &self.pool { Some(pl) => { let p = &mut self.p; pl.install(|| p.run()) }, None => self.p.run() } }
      fn run_here(&mut self) { self.p.run() }
      fn run_timeout(&mut self, k: usize) -> Option<bool> { let _ = k; None }
      fn dump(&self) -> String { vec![dump_rel(0, self.p.r0.iter().map(Row::render).collect()), dump_rel(1, self.p.r1.iter().map(Row::render).collect()), dump_rel(2, self.p.r2.iter().map(Row::render).collect()), dump_rel(3, self.p.r3.iter().map(Row::render).collect())].join(" | ") }
      fn iters(&self) -> String { format!("iters {}", self.p.scc_iters.iter().map(|x| x.to_string()).collect::<Vec<_>>().join(" ")) }
   }
}

fn main() {
   common::main_loop(&[("l3", l3::make as common::Factory), ("l11", l11::make as common::Factory)]);
}
