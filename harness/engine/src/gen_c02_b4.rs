#[path = "common.rs"]
mod common;
#[allow(unused, non_snake_case, clippy::all)]
pub mod w4 {
   use ascent::*;
   use ascent::aggregators::*;
   use ascent::lattice::{Dual, set::Set};
   use crate::common::*;
   ascent_par! {
      pub struct Prog;
      relation r0(i64);
      relation r1(i64, i64);
      relation r2(i64, i64);
      relation r3(i64, i64);
      relation r4(i64, i64);
      r1(v0, v0) <-- r0(v0), r1(((*v0) + 1), v0);
      r2(0, v0) <-- r1(v0, v1) if ((*v0) != 4) let v2 = ((*v1) + 0);
      r3(2, v1) <-- r2(v0, 0) if ((*v0) != 1), r1(v0, v1);
      r4(((*v2) + 1), v3) <-- r3(v0, v1), r2(3, v2) if ((*v1) < 6) let v3 = ((*v1) + 0), if ((*v2) < 6), if (v3 <= 6);
      r2(v0, v8) <-- if let Some(v9) = Some(1), r4(v0, v1), r4(v1, v9) let v8 = ((*v0) + 1);
      r3(v1, v2) <-- if let Some(v0) = Some(0), r3(v1, v2) if ((*v2) < 1);
      r2(1, 3);
      r4(3, v1) <-- r1(v0, v1);
      r1(0, v2) <-- r3(1, 3), r0(v0) if ((*v0) <= 3), r3(v1, v2);
   }
   pub struct Inst { p: Prog, pool: Option<ascent::rayon::ThreadPool> }
   pub fn make(pool: Option<usize>) -> Box<dyn Driver> {
      let pool = pool.map(|n| ascent::rayon::ThreadPoolBuilder::new().num_threads(n).build().unwrap());
      let p = match &pool { Some(pl) => pl.install(|| Default::default()), None => Default::default() };
      Box::new(Inst { p, pool })
   }
   impl Driver for Inst {
      fn load(&mut self, rel: usize, rows: &[Sexp], append: bool) -> Option<()> {
         match rel {
         0 => { let v: Vec<(i64,)> = parse_rows(rows)?; if !append { self.p.r0 = Default::default(); } for x in v { self.p.r0.push(x); } },
         1 => { let v: Vec<(i64,i64,)> = parse_rows(rows)?; if !append { self.p.r1 = Default::default(); } for x in v { self.p.r1.push(x); } },
         2 => { let v: Vec<(i64,i64,)> = parse_rows(rows)?; if !append { self.p.r2 = Default::default(); } for x in v { self.p.r2.push(x); } },
         3 => { let v: Vec<(i64,i64,)> = parse_rows(rows)?; if !append { self.p.r3 = Default::default(); } for x in v { self.p.r3.push(x); } },
         4 => { let v: Vec<(i64,i64,)> = parse_rows(rows)?; if !append { self.p.r4 = Default::default(); } for x in v { self.p.r4.push(x); } },
            _ => return None,
         }
         Some(())
      }
      fn run(&mut self) { match &self.pool { Some(pl) => { let p = &mut self.p; pl.install(|| p.run()) }, None => self.p.run() } }
      fn run_here(&mut self) { self.p.run() }
      fn run_timeout(&mut self, k: usize) -> Option<bool> { let _ = k; None }
      fn dump(&self) -> String { vec![dump_rel(0, self.p.r0.iter().map(|x| x.render()).collect()), dump_rel(1, self.p.r1.iter().map(|x| x.render()).collect()), dump_rel(2, self.p.r2.iter().map(|x| x.render()).collect()), dump_rel(3, self.p.r3.iter().map(|x| x.render()).collect()), dump_rel(4, self.p.r4.iter().map(|x| x.render()).collect())].join(" | ") }
      fn iters(&self) -> String { format!("iters {}", self.p.scc_iters.iter().map(|x| x.to_string()).collect::<Vec<_>>().join(" ")) }
   }
}

#[allow(unused, non_snake_case, clippy::all)]
pub mod w12 {
   use ascent::*;
   use ascent::aggregators::*;
   use ascent::lattice::{Dual, set::Set};
   use crate::common::*;
   ascent_par! {
      pub struct Prog;
      relation r0(i64);
      relation r1(i64, i64);
      relation r2(i64);
      relation r3(i64, i64);
      lattice r4(i64, Set<i64>);
      lattice r5(i64, i64, Set<i64>);
      r4(v0, Set::singleton((*v1))) <-- r1(v0, v1);
      r4(v1, v2) <-- r4(v0, v2), r1(v0, v1);
      r4(1, Set::singleton((*v0))) <-- r3(v0, v1);
      r4(v2, v1) <-- r4(v0, v1) if ((*v0) < 3), r3(v0, v2) if ((*v2) < 5);
      r5(v1, v0, Set::singleton((*v1))) <-- r1(v0, v1) if ((*v0) < 4);
      r5(v0, v2, v1) <-- r5(v0, 1, v1), r1(v0, v2);
      r5(v0, v0, v2) <-- r5(0, v0, v1) if ((*v0) < 4), r5(v0, 2, v2);
      r3(v0, v0) <-- r2(v0);
   }
   pub struct Inst { p: Prog, pool: Option<ascent::rayon::ThreadPool> }
   pub fn make(pool: Option<usize>) -> Box<dyn Driver> {
      let pool = pool.map(|n| ascent::rayon::ThreadPoolBuilder::new().num_threads(n).build().unwrap());
      let p = match &pool { Some(pl) => pl.install(|| Default::default()), None => Default::default() };
      Box::new(Inst { p, pool })
   }
   impl Driver for Inst {
      fn load(&mut self, rel: usize, rows: &[Sexp], append: bool) -> Option<()> {
         match rel {
         0 => { let v: Vec<(i64,)> = parse_rows(rows)?; if !append { self.p.r0 = Default::default(); } for x in v { self.p.r0.push(x); } },
         1 => { let v: Vec<(i64,i64,)> = parse_rows(rows)?; if !append { self.p.r1 = Default::default(); } for x in v { self.p.r1.push(x); } },
         2 => { let v: Vec<(i64,)> = parse_rows(rows)?; if !append { self.p.r2 = Default::default(); } for x in v { self.p.r2.push(x); } },
         3 => { let v: Vec<(i64,i64,)> = parse_rows(rows)?; if !append { self.p.r3 = Default::default(); } for x in v { self.p.r3.push(x); } },
         4 => { let v: Vec<(i64,Set<i64>,)> = parse_rows(rows)?; if !append { self.p.r4 = Default::default(); } for x in v { self.p.r4.push(std::sync::RwLock::new(x)); } },
         5 => { let v: Vec<(i64,i64,Set<i64>,)> = parse_rows(rows)?; if !append { self.p.r5 = Default::default(); } for x in v { self.p.r5.push(std::sync::RwLock::new(x)); } },
            _ => return None,
         }
         Some(())
      }
      fn run(&mut self) { match &self.pool { Some(pl) => { let p = &mut self.p; pl.install(|| p.run()) }, None => self.p.run() } }
      fn run_here(&mut self) { self.p.run() }
      fn run_timeout(&mut self, k: usize) -> Option<bool> { let _ = k; None }
      fn dump(&self) -> String { vec![dump_rel(0, self.p.r0.iter().map(|x| x.render()).collect()), dump_rel(1, self.p.r1.iter().map(|x| x.render()).collect()), dump_rel(2, self.p.r2.iter().map(|x| x.render()).collect()), dump_rel(3, self.p.r3.iter().map(|x| x.render()).collect()), dump_rel(4, self.p.r4.iter().map(|x| x.read().unwrap().render()).collect()), dump_rel(5, self.p.r5.iter().map(|x| x.read().unwrap().render()).collect())].join(" | ") }
      fn iters(&self) -> String { format!("iters {}", self.p.scc_iters.iter().map(|x| x.to_string()).collect::<Vec<_>>().join(" ")) }
   }
}

#[allow(unused, non_snake_case, clippy::all)]
pub mod w20 {
   use ascent::*;
   use ascent::aggregators::*;
   use ascent::lattice::{Dual, set::Set};
   use crate::common::*;
   ascent_par! {
      pub struct Prog;
      relation r0(i64);
      relation r1(i64, i64);
      relation r2(i64, i64, i64);
      relation r3(i64);
      relation r4(i64, i64);
      relation r5(i64);
      r2(v1, v0, 3) <-- r1(v0, v1);
      r2(v2, v1, v3) <-- if let Some(v0) = Some(2), r2(v1, (v0 + 1), v2), r2(v3, v2, ((*v2) + 0));
      r2(v0, v1, v2) <-- r1(v0, v1), r1(((*v0) + 1), v2);
      r2(v0, v1, v2) <-- r1(v0, v1), r1(v0, v0), r1(v1, v2);
      r1(v2, v1) <-- r1(v0, v1), r0(v2);
      r2(v0, v0, v0) <-- r0(v0) if ((*v0) != 5), r0(0);
      r2(v3, v2, ((*v2) + 1)) <-- r2(v0, v1, 2), r1(v2, v3), if ((*v2) < 6);
      r3(v1) <-- r1(v0, v1), r2(v1, v32, v32), agg v21 = count() in r2(_, (*v1), _);
      r4(v0, 1) <-- r0(v0), agg () = not() in r3((*v0));
      r5(v1) <-- r2(v0, v1, v2), r0(v1), agg v21 = min(v20) in r2((*v2), v20, (*v0));
   }
   pub struct Inst { p: Prog, pool: Option<ascent::rayon::ThreadPool> }
   pub fn make(pool: Option<usize>) -> Box<dyn Driver> {
      let pool = pool.map(|n| ascent::rayon::ThreadPoolBuilder::new().num_threads(n).build().unwrap());
      let p = match &pool { Some(pl) => pl.install(|| Default::default()), None => Default::default() };
      Box::new(Inst { p, pool })
   }
   impl Driver for Inst {
      fn load(&mut self, rel: usize, rows: &[Sexp], append: bool) -> Option<()> {
         match rel {
         0 => { let v: Vec<(i64,)> = parse_rows(rows)?; if !append { self.p.r0 = Default::default(); } for x in v { self.p.r0.push(x); } },
         1 => { let v: Vec<(i64,i64,)> = parse_rows(rows)?; if !append { self.p.r1 = Default::default(); } for x in v { self.p.r1.push(x); } },
         2 => { let v: Vec<(i64,i64,i64,)> = parse_rows(rows)?; if !append { self.p.r2 = Default::default(); } for x in v { self.p.r2.push(x); } },
         3 => { let v: Vec<(i64,)> = parse_rows(rows)?; if !append { self.p.r3 = Default::default(); } for x in v { self.p.r3.push(x); } },
         4 => { let v: Vec<(i64,i64,)> = parse_rows(rows)?; if !append { self.p.r4 = Default::default(); } for x in v { self.p.r4.push(x); } },
         5 => { let v: Vec<(i64,)> = parse_rows(rows)?; if !append { self.p.r5 = Default::default(); } for x in v { self.p.r5.push(x); } },
            _ => return None,
         }
         Some(())
      }
      fn run(&mut self) { match &self.pool { Some(pl) => { let p = &mut self.p; pl.install(|| p.run()) }, None => self.p.run() } }
      fn run_here(&mut self) { self.p.run() }
      fn run_timeout(&mut self, k: usize) -> Option<bool> { let _ = k; None }
      fn dump(&self) -> String { vec![dump_rel(0, self.p.r0.iter().map(|x| x.render()).collect()), dump_rel(1, self.p.r1.iter().map(|x| x.render()).collect()), dump_rel(2, self.p.r2.iter().map(|x| x.render()).collect()), dump_rel(3, self.p.r3.iter().map(|x| x.render()).collect()), dump_rel(4, self.p.r4.iter().map(|x| x.render()).collect()), dump_rel(5, self.p.r5.iter().map(|x| x.render()).collect())].join(" | ") }
      fn iters(&self) -> String { format!("iters {}", self.p.scc_iters.iter().map(|x| x.to_string()).collect::<Vec<_>>().join(" ")) }
   }
}

fn main() {
   common::main_loop(&[("w4", w4::make as common::Factory), ("w12", w12::make as common::Factory), ("w20", w20::make as common::Factory)]);
}
