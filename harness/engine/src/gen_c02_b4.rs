#[path = "common.rs"]
mod common;
#[allow(unused, non_snake_case, clippy::all)]
pub mod w4 {
   use ascent::*;
   use ascent::aggregators::*;
   use ascent::lattice::{Dual, set::Set};
   use crate::common::*;
   ascent_par! {
      pub struct Prog;
      relation r0(i64);
      relation r1(i64, i64);
      relation r2(i64, i64);
      relation r3(i64, i64);
      relation r4(i64, i64);
      r1(v0, v0) <-- r0(v0), r1(((*v0) + 1), v0);
      r2(0, v0) <-- r1(v0, v1) if ((*v0) != 4) let v2 = ((*v1) + 0);
      r3(2, v1) <-- r2(v0, 0) if ((*v0) != 1), r1(v0, v1);
      r4(((*v2) + 1), v3) <-- r3(v0, v1), r2(3, v2) if ((*v1) < 6) let v3 = ((*v1) + 0), if ((*v2) < 6), if (v3 <= 6);
      r2(v0, v8) <-- if let Some(v9) = Some(1), r4(v0, v1), r4(v1, v9) let v8 = ((*v0) + 1);
      r3(v1, v2) <-- if let Some(v0) = Some(0), r3(v1, v2) if ((*v2) < 1);
      r2(1, 3);
      r4(3, v1) <-- r1(v0, v1);
      r1(0, v2) <-- r3(1, 3), r0(v0) if ((*v0) <= 3), r3(v1, v2);
   }
   pub struct Inst { p: Prog, pool: Option<ascent::rayon::ThreadPool> }
   pub fn make(pool: Option<usize>) -> Box<dyn Driver> {
      let pool = pool.map(|n| ascent::rayon::ThreadPoolBuilder::new().num_threads(n).build().unwrap());
      let p = match &pool { Some(pl) => pl.install(|| Default::default()), None => Default::default() };
      Box::new(Inst { p, pool })
   }
   impl Driver for Inst {
      fn load(&mut self, rel: usize, rows: &[Sexp], append: bool) -> Option<()> {
         match rel {
         0 => { let v: Vec<(i64,)> = parse_rows(rows)?; if !append { self.p.r0 = Default::default(); } for x in v { self.p.r0.push(x); } },
         1 => { let v: Vec<(i64,i64,)> = parse_rows(rows)?; if !append { self.p.r1 = Default::default(); } for x in v { self.p.r1.push(x); } },
         2 => { let v: Vec<(i64,i64,)> = parse_rows(rows)?; if !append { self.p.r2 = Default::default(); } for x in v { self.p.r2.push(x); } },
         3 => { let v: Vec<(i64,i64,)> = parse_rows(rows)?; if !append { self.p.r3 = Default::default(); } for x in v { self.p.r3.push(x); } },
         4 => { let v: Vec<(i64,i64,)> = parse_rows(rows)?; if !append { self.p.r4 = Default::default(); } for x in v { self.p.r4.push(x); } },
            _ => return None,
         }
         Some(())
      }
      fn run(&mut self) { match &self.pool { Some(pl) => { let p = &mut self.p; pl.install(|| p.run()) }, None => self.p.run() } }
      fn run_here(&mut self) { self.p.run() }
      fn run_timeout(&mut self, k: usize) -> Option<bool> { let _ = k; None }
      fn dump(&self) -> String { vec![dump_rel(0, self.p.r0.iter().map(|x| x.render()).collect()), dump_rel(1, self.p.r1.iter().map(|x| x.render()).collect()), dump_rel(2, self.p.r2.iter().map(|x| x.render()).collect()), dump_rel(3, self.p.r3.iter().map(|x| x.render()).collect()), dump_rel(4, self.p.r4.iter().map(|x| x.render()).collect())].join(" | ") }
      fn iters(&self) -> String { format!("iters {}", self.p.scc_iters.iter().map(|x| x.to_string()).collect::<Vec<_>>().join(" ")) }
   }
}

#[allow(unused, non_snake_case, clippy::all)]
pub mod w12 {
   use ascent::*;
   use ascent::aggregators::*;
   use ascent::lattice::{Dual, set::Set};
   use crate::common::*;
   ascent_par! {
      pub struct Prog;
      relation r0(i64, i64);
      relation r1(i64, i64);
      relation r2(i64, i64, i64);
      r2(v0, v0, v2) <-- if let Some(v0) = Some(2), r1(v1, v2), if (v0 <= 6);
      r2(v1, v2, 2) <-- let v0 = 3, r2(v0, v1, v2), r1(v0, v1) if ((*v1) < 2);
      r2(v0, v1, v2) <-- r0(v0, v1), r1(v0, v0), r0(v1, v2);
      r2(v0, ((*v0) + 1), v0) <-- r0(v0, v1) if ((*v1) <= 1), r2(v1, v0, v1), if ((*v0) < 6);
      r2((v1 + 1), v1, v0) <-- for v0 in 2..1, r1((v0 + 0), (v0 + 0)) if (v0 != 5) let v1 = (v0 + 1), if (v1 < 6), if (v1 <= 6);
   }
   pub struct Inst { p: Prog, pool: Option<ascent::rayon::ThreadPool> }
   pub fn make(pool: Option<usize>) -> Box<dyn Driver> {
      let pool = pool.map(|n| ascent::rayon::ThreadPoolBuilder::new().num_threads(n).build().unwrap());
      let p = match &pool { Some(pl) => pl.install(|| Default::default()), None => Default::default() };
      Box::new(Inst { p, pool })
   }
   impl Driver for Inst {
      fn load(&mut self, rel: usize, rows: &[Sexp], append: bool) -> Option<()> {
         match rel {
         0 => { let v: Vec<(i64,i64,)> = parse_rows(rows)?; if !append { self.p.r0 = Default::default(); } for x in v { self.p.r0.push(x); } },
         1 => { let v: Vec<(i64,i64,)> = parse_rows(rows)?; if !append { self.p.r1 = Default::default(); } for x in v { self.p.r1.push(x); } },
         2 => { let v: Vec<(i64,i64,i64,)> = parse_rows(rows)?; if !append { self.p.r2 = Default::default(); } for x in v { self.p.r2.push(x); } },
            _ => return None,
         }
         Some(())
      }
      fn run(&mut self) { match &self.pool { Some(pl) => { let p = &mut self.p; pl.install(|| p.run()) }, None => self.p.run() } }
      fn run_here(&mut self) { self.p.run() }
      fn run_timeout(&mut self, k: usize) -> Option<bool> { let _ = k; None }
      fn dump(&self) -> String { vec![dump_rel(0, self.p.r0.iter().map(|x| x.render()).collect()), dump_rel(1, self.p.r1.iter().map(|x| x.render()).collect()), dump_rel(2, self.p.r2.iter().map(|x| x.render()).collect())].join(" | ") }
      fn iters(&self) -> String { format!("iters {}", self.p.scc_iters.iter().map(|x| x.to_string()).collect::<Vec<_>>().join(" ")) }
   }
}

#[allow(unused, non_snake_case, clippy::all)]
pub mod w20 {
   use ascent::*;
   use ascent::aggregators::*;
   use ascent::lattice::{Dual, set::Set};
   use crate::common::*;
   ascent_par! {
      pub struct Prog;
      relation r0(i64);
      relation r1(i64, i64);
      relation r2(i64, i64, i64);
      relation r3(i64, i64);
      relation r4(i64, i64);
      relation r5(i64, i64, i64);
      r2(((*v0) + 1), v0, v0) <-- r1(v0, 3), if ((*v0) < 6);
      r3(((*v0) + 1), v1) <-- r1(v0, v1) if ((*v1) < 6) let v2 = ((*v1) + 0), if ((*v0) < 6);
      r4(v1, v1) <-- r2(0, v0, v1), r3(v1, v2);
      r5(v0, v1, v2) <-- r1(v0, v1) if ((*v0) < 4), r4(v1, v2) if ((*v2) != (*v1));
      r4(v4, v3) <-- if let Some(v0) = Some(4), r2(v0, v1, v2), r1(v3, v4), r0(v5) if (v0 <= 3) let v6 = ((*v4) + 1), let v7 = v0;
      r2(v0, v0, v1) <-- r3(v0, v1);
   }
   pub struct Inst { p: Prog, pool: Option<ascent::rayon::ThreadPool> }
   pub fn make(pool: Option<usize>) -> Box<dyn Driver> {
      let pool = pool.map(|n| ascent::rayon::ThreadPoolBuilder::new().num_threads(n).build().unwrap());
      let p = match &pool { Some(pl) => pl.install(|| Default::default()), None => Default::default() };
      Box::new(Inst { p, pool })
   }
   impl Driver for Inst {
      fn load(&mut self, rel: usize, rows: &[Sexp], append: bool) -> Option<()> {
         match rel {
         0 => { let v: Vec<(i64,)> = parse_rows(rows)?; if !append { self.p.r0 = Default::default(); } for x in v { self.p.r0.push(x); } },
         1 => { let v: Vec<(i64,i64,)> = parse_rows(rows)?; if !append { self.p.r1 = Default::default(); } for x in v { self.p.r1.push(x); } },
         2 => { let v: Vec<(i64,i64,i64,)> = parse_rows(rows)?; if !append { self.p.r2 = Default::default(); } for x in v { self.p.r2.push(x); } },
         3 => { let v: Vec<(i64,i64,)> = parse_rows(rows)?; if !append { self.p.r3 = Default::default(); } for x in v { self.p.r3.push(x); } },
         4 => { let v: Vec<(i64,i64,)> = parse_rows(rows)?; if !append { self.p.r4 = Default::default(); } for x in v { self.p.r4.push(x); } },
         5 => { let v: Vec<(i64,i64,i64,)> = parse_rows(rows)?; if !append { self.p.r5 = Default::default(); } for x in v { self.p.r5.push(x); } },
            _ => return None,
         }
         Some(())
      }
      fn run(&mut self) { match &self.pool { Some(pl) => { let p = &mut self.p; pl.install(|| p.run()) }, None => self.p.run() } }
      fn run_here(&mut self) { self.p.run() }
      fn run_timeout(&mut self, k: usize) -> Option<bool> { let _ = k; None }
      fn dump(&self) -> String { vec![dump_rel(0, self.p.r0.iter().map(|x| x.render()).collect()), dump_rel(1, self.p.r1.iter().map(|x| x.render()).collect()), dump_rel(2, self.p.r2.iter().map(|x| x.render()).collect()), dump_rel(3, self.p.r3.iter().map(|x| x.render()).collect()), dump_rel(4, self.p.r4.iter().map(|x| x.render()).collect()), dump_rel(5, self.p.r5.iter().map(|x| x.render()).collect())].join(" | ") }
      fn iters(&self) -> String { format!("iters {}", self.p.scc_iters.iter().map(|x| x.to_string()).collect::<Vec<_>>().join(" ")) }
   }
}

#[allow(unused, non_snake_case, clippy::all)]
pub mod w28 {
   use ascent::*;
   use ascent::aggregators::*;
   use ascent::lattice::{Dual, set::Set};
   use crate::common::*;
   ascent_par! {
      pub struct Prog;
      relation r0(i64, i64);
      relation r1(i64, i64, i64);
      relation r2(i64);
      r1(v0, v1, v2) <-- r0(v0, v1), r0(v0, v0), r0(v1, v2);
      r1(((*v0) + 1), ((*v1) + 1), v2) <-- r0(v0, v1), r2(v0) if ((*v1) <= 6), r1(v2, ((*v0) + 0), ((*v0) + 1)), if ((*v0) < 6), if ((*v1) < 6);
      r0(3, 1);
      r1(2, v1, v4) <-- if let Some(v0) = None::<i64>, r1(v1, v0, v2), r2(v3) if ((*v1) < 6) let v4 = ((*v1) + 0), if (v4 <= 6);
      r2(v1) <-- r0(v0, v1);
   }
   pub struct Inst { p: Prog, pool: Option<ascent::rayon::ThreadPool> }
   pub fn make(pool: Option<usize>) -> Box<dyn Driver> {
      let pool = pool.map(|n| ascent::rayon::ThreadPoolBuilder::new().num_threads(n).build().unwrap());
      let p = match &pool { Some(pl) => pl.install(|| Default::default()), None => Default::default() };
      Box::new(Inst { p, pool })
   }
   impl Driver for Inst {
      fn load(&mut self, rel: usize, rows: &[Sexp], append: bool) -> Option<()> {
         match rel {
         0 => { let v: Vec<(i64,i64,)> = parse_rows(rows)?; if !append { self.p.r0 = Default::default(); } for x in v { self.p.r0.push(x); } },
         1 => { let v: Vec<(i64,i64,i64,)> = parse_rows(rows)?; if !append { self.p.r1 = Default::default(); } for x in v { self.p.r1.push(x); } },
         2 => { let v: Vec<(i64,)> = parse_rows(rows)?; if !append { self.p.r2 = Default::default(); } for x in v { self.p.r2.push(x); } },
            _ => return None,
         }
         Some(())
      }
      fn run(&mut self) { match &self.pool { Some(pl) => { let p = &mut self.p; pl.install(|| p.run()) }, None => self.p.run() } }
      fn run_here(&mut self) { self.p.run() }
      fn run_timeout(&mut self, k: usize) -> Option<bool> { let _ = k; None }
      fn dump(&self) -> String { vec![dump_rel(0, self.p.r0.iter().map(|x| x.render()).collect()), dump_rel(1, self.p.r1.iter().map(|x| x.render()).collect()), dump_rel(2, self.p.r2.iter().map(|x| x.render()).collect())].join(" | ") }
      fn iters(&self) -> String { format!("iters {}", self.p.scc_iters.iter().map(|x| x.to_string()).collect::<Vec<_>>().join(" ")) }
   }
}

#[allow(unused, non_snake_case, clippy::all)]
pub mod w36 {
   use ascent::*;
   use ascent::aggregators::*;
   use ascent::lattice::{Dual, set::Set};
   use crate::common::*;
   ascent_par! {
      pub struct Prog;
      relation r0(i64, i64);
      relation r1(i64, i64, i64);
      relation r2(i64);
      relation r3(i64, i64, i64);
      r2(((*v0) + 1)) <-- r0(v0, v1) if ((*v0) != 3), if ((*v0) < 6);
      r2(v3) <-- r2(v0), let v1 = (*v0), r2(v2) if ((*v2) < 5), for v3 in 1..2;
      r3(v0, v1, v9) <-- let v9 = 3, r0(v0, v1), r0(v1, v9);
      r2(v6) <-- if let Some(v0) = Some(0), r1(v1, v2, v3), r3(v4, v5, ((*v2) + 0)), r1(v0, v6, v0), if (v0 <= 3);
      r3(v3, v3, v0) <-- if let Some(v0) = None::<i64>, r0(v0, v1), r1(v2, v3, v1), if (v0 <= 6);
      r3(v0, 3, ((*v3) + 1)) <-- r3(v0, v1, 2), r1(v2, v3, v1) if ((*v0) < 3), if ((*v3) < 6);
      r2(v1) <-- if let Some(v0) = None::<i64>, r1(v0, v0, v1);
   }
   pub struct Inst { p: Prog, pool: Option<ascent::rayon::ThreadPool> }
   pub fn make(pool: Option<usize>) -> Box<dyn Driver> {
      let pool = pool.map(|n| ascent::rayon::ThreadPoolBuilder::new().num_threads(n).build().unwrap());
      let p = match &pool { Some(pl) => pl.install(|| Default::default()), None => Default::default() };
      Box::new(Inst { p, pool })
   }
   impl Driver for Inst {
      fn load(&mut self, rel: usize, rows: &[Sexp], append: bool) -> Option<()> {
         match rel {
         0 => { let v: Vec<(i64,i64,)> = parse_rows(rows)?; if !append { self.p.r0 = Default::default(); } for x in v { self.p.r0.push(x); } },
         1 => { let v: Vec<(i64,i64,i64,)> = parse_rows(rows)?; if !append { self.p.r1 = Default::default(); } for x in v { self.p.r1.push(x); } },
         2 => { let v: Vec<(i64,)> = parse_rows(rows)?; if !append { self.p.r2 = Default::default(); } for x in v { self.p.r2.push(x); } },
         3 => { let v: Vec<(i64,i64,i64,)> = parse_rows(rows)?; if !append { self.p.r3 = Default::default(); } for x in v { self.p.r3.push(x); } },
            _ => return None,
         }
         Some(())
      }
      fn run(&mut self) { match &self.pool { Some(pl) => { let p = &mut self.p; pl.install(|| p.run()) }, None => self.p.run() } }
      fn run_here(&mut self) { self.p.run() }
      fn run_timeout(&mut self, k: usize) -> Option<bool> { let _ = k; None }
      fn dump(&self) -> String { vec![dump_rel(0, self.p.r0.iter().map(|x| x.render()).collect()), dump_rel(1, self.p.r1.iter().map(|x| x.render()).collect()), dump_rel(2, self.p.r2.iter().map(|x| x.render()).collect()), dump_rel(3, self.p.r3.iter().map(|x| x.render()).collect())].join(" | ") }
      fn iters(&self) -> String { format!("iters {}", self.p.scc_iters.iter().map(|x| x.to_string()).collect::<Vec<_>>().join(" ")) }
   }
}

#[allow(unused, non_snake_case, clippy::all)]
pub mod w44 {
   use ascent::*;
   use ascent::aggregators::*;
   use ascent::lattice::{Dual, set::Set};
   use crate::common::*;
   ascent_par! {
      pub struct Prog;
      relation r0(i64, i64);
      relation r1(i64, i64);
      lattice r2(i64, Dual<i64>);
      lattice r3(i64, i64, Option<i64>);
      r2(v0, Dual((*v0))) <-- r0(v0, v0) if ((*v0) < 4);
      r2(v2, v1) <-- r2(v0, v1) if ((*v0) < 2), r0(v0, v2);
      r3(2, 1, Some(3)) <-- r0(0, 0);
      r3(v3, v3, v2) <-- r3(v0, v1, v2), r0(v3, v3);
      r0(0, v1) <-- r0(v0, v1);
   }
   pub struct Inst { p: Prog, pool: Option<ascent::rayon::ThreadPool> }
   pub fn make(pool: Option<usize>) -> Box<dyn Driver> {
      let pool = pool.map(|n| ascent::rayon::ThreadPoolBuilder::new().num_threads(n).build().unwrap());
      let p = match &pool { Some(pl) => pl.install(|| Default::default()), None => Default::default() };
      Box::new(Inst { p, pool })
   }
   impl Driver for Inst {
      fn load(&mut self, rel: usize, rows: &[Sexp], append: bool) -> Option<()> {
         match rel {
         0 => { let v: Vec<(i64,i64,)> = parse_rows(rows)?; if !append { self.p.r0 = Default::default(); } for x in v { self.p.r0.push(x); } },
         1 => { let v: Vec<(i64,i64,)> = parse_rows(rows)?; if !append { self.p.r1 = Default::default(); } for x in v { self.p.r1.push(x); } },
         2 => { let v: Vec<(i64,Dual<i64>,)> = parse_rows(rows)?; if !append { self.p.r2 = Default::default(); } for x in v { self.p.r2.push(std::sync::RwLock::new(x)); } },
         3 => { let v: Vec<(i64,i64,Option<i64>,)> = parse_rows(rows)?; if !append { self.p.r3 = Default::default(); } for x in v { self.p.r3.push(std::sync::RwLock::new(x)); } },
            _ => return None,
         }
         Some(())
      }
      fn run(&mut self) { match &self.pool { Some(pl) => { let p = &mut self.p; pl.install(|| p.run()) }, None => self.p.run() } }
      fn run_here(&mut self) { self.p.run() }
      fn run_timeout(&mut self, k: usize) -> Option<bool> { let _ = k; None }
      fn dump(&self) -> String { vec![dump_rel(0, self.p.r0.iter().map(|x| x.render()).collect()), dump_rel(1, self.p.r1.iter().map(|x| x.render()).collect()), dump_rel(2, self.p.r2.iter().map(|x| x.read().unwrap().render()).collect()), dump_rel(3, self.p.r3.iter().map(|x| x.read().unwrap().render()).collect())].join(" | ") }
      fn iters(&self) -> String { format!("iters {}", self.p.scc_iters.iter().map(|x| x.to_string()).collect::<Vec<_>>().join(" ")) }
   }
}

#[allow(unused, non_snake_case, clippy::all)]
pub mod w52 {
   use ascent::*;
   use ascent::aggregators::*;
   use ascent::lattice::{Dual, set::Set};
   use crate::common::*;
   ascent_par! {
      pub struct Prog;
      relation r0(i64, i64);
      relation r1(i64);
      lattice r2(i64);
      lattice r3(i64, Dual<i64>);
      r2((*v0)) <-- r0(2, v0);
      r2(std::cmp::min(((*v0) + 2), 6)) <-- r2(v0), r1(v1);
      r2(std::cmp::min(((*v1) + 0), 6)) <-- r2(v0), r2(v1);
      r3(v0, Dual((*v0))) <-- r1(v0);
      r3(v2, Dual(((v1.0) + 3))) <-- r3(v0, v1), r1(v2);
      r0(3, v0) <-- r0(v0, v0) if ((*v0) < 6);
      r1(v0) <-- r0(v0, v0), r2(v1);
   }
   pub struct Inst { p: Prog, pool: Option<ascent::rayon::ThreadPool> }
   pub fn make(pool: Option<usize>) -> Box<dyn Driver> {
      let pool = pool.map(|n| ascent::rayon::ThreadPoolBuilder::new().num_threads(n).build().unwrap());
      let p = match &pool { Some(pl) => pl.install(|| Default::default()), None => Default::default() };
      Box::new(Inst { p, pool })
   }
   impl Driver for Inst {
      fn load(&mut self, rel: usize, rows: &[Sexp], append: bool) -> Option<()> {
         match rel {
         0 => { let v: Vec<(i64,i64,)> = parse_rows(rows)?; if !append { self.p.r0 = Default::default(); } for x in v { self.p.r0.push(x); } },
         1 => { let v: Vec<(i64,)> = parse_rows(rows)?; if !append { self.p.r1 = Default::default(); } for x in v { self.p.r1.push(x); } },
         2 => { let v: Vec<(i64,)> = parse_rows(rows)?; if !append { self.p.r2 = Default::default(); } for x in v { self.p.r2.push(std::sync::RwLock::new(x)); } },
         3 => { let v: Vec<(i64,Dual<i64>,)> = parse_rows(rows)?; if !append { self.p.r3 = Default::default(); } for x in v { self.p.r3.push(std::sync::RwLock::new(x)); } },
            _ => return None,
         }
         Some(())
      }
      fn run(&mut self) { match &self.pool { Some(pl) => { let p = &mut self.p; pl.install(|| p.run()) }, None => self.p.run() } }
      fn run_here(&mut self) { self.p.run() }
      fn run_timeout(&mut self, k: usize) -> Option<bool> { let _ = k; None }
      fn dump(&self) -> String { vec![dump_rel(0, self.p.r0.iter().map(|x| x.render()).collect()), dump_rel(1, self.p.r1.iter().map(|x| x.render()).collect()), dump_rel(2, self.p.r2.iter().map(|x| x.read().unwrap().render()).collect()), dump_rel(3, self.p.r3.iter().map(|x| x.read().unwrap().render()).collect())].join(" | ") }
      fn iters(&self) -> String { format!("iters {}", self.p.scc_iters.iter().map(|x| x.to_string()).collect::<Vec<_>>().join(" ")) }
   }
}

#[allow(unused, non_snake_case, clippy::all)]
pub mod w60 {
   use ascent::*;
   use ascent::aggregators::*;
   use ascent::lattice::{Dual, set::Set};
   use crate::common::*;
   ascent_par! {
      pub struct Prog;
      relation r0(i64, i64, i64);
      relation r1(i64, i64);
      relation r2(i64, i64);
      lattice r3(i64, Set<i64>);
      r3(v0, Set::singleton((*v1))) <-- r2(v0, v1);
      r3(v1, v2) <-- r3(v0, v2), r2(v0, v1);
      r3(v1, Set::singleton((*v1))) <-- r2(v0, v1);
      r3(((*v2) + 1), v1) <-- r3(v0, v1), r1(v2, 3), if ((*v2) < 6);
      r3(((*v0) + 1), Set::singleton(3)) <-- r2(v0, v0), if ((*v0) < 6);
      r0(((*v0) + 1), v1, v0) <-- r0(v0, v1, v1), r1(v0, v1), if ((*v0) < 6);
   }
   pub struct Inst { p: Prog, pool: Option<ascent::rayon::ThreadPool> }
   pub fn make(pool: Option<usize>) -> Box<dyn Driver> {
      let pool = pool.map(|n| ascent::rayon::ThreadPoolBuilder::new().num_threads(n).build().unwrap());
      let p = match &pool { Some(pl) => pl.install(|| Default::default()), None => Default::default() };
      Box::new(Inst { p, pool })
   }
   impl Driver for Inst {
      fn load(&mut self, rel: usize, rows: &[Sexp], append: bool) -> Option<()> {
         match rel {
         0 => { let v: Vec<(i64,i64,i64,)> = parse_rows(rows)?; if !append { self.p.r0 = Default::default(); } for x in v { self.p.r0.push(x); } },
         1 => { let v: Vec<(i64,i64,)> = parse_rows(rows)?; if !append { self.p.r1 = Default::default(); } for x in v { self.p.r1.push(x); } },
         2 => { let v: Vec<(i64,i64,)> = parse_rows(rows)?; if !append { self.p.r2 = Default::default(); } for x in v { self.p.r2.push(x); } },
         3 => { let v: Vec<(i64,Set<i64>,)> = parse_rows(rows)?; if !append { self.p.r3 = Default::default(); } for x in v { self.p.r3.push(std::sync::RwLock::new(x)); } },
            _ => return None,
         }
         Some(())
      }
      fn run(&mut self) { match &self.pool { Some(pl) => { let p = &mut self.p; pl.install(|| p.run()) }, None => self.p.run() } }
      fn run_here(&mut self) { self.p.run() }
      fn run_timeout(&mut self, k: usize) -> Option<bool> { let _ = k; None }
      fn dump(&self) -> String { vec![dump_rel(0, self.p.r0.iter().map(|x| x.render()).collect()), dump_rel(1, self.p.r1.iter().map(|x| x.render()).collect()), dump_rel(2, self.p.r2.iter().map(|x| x.render()).collect()), dump_rel(3, self.p.r3.iter().map(|x| x.read().unwrap().render()).collect())].join(" | ") }
      fn iters(&self) -> String { format!("iters {}", self.p.scc_iters.iter().map(|x| x.to_string()).collect::<Vec<_>>().join(" ")) }
   }
}

#[allow(unused, non_snake_case, clippy::all)]
pub mod w68 {
   use ascent::*;
   use ascent::aggregators::*;
   use ascent::lattice::{Dual, set::Set};
   use crate::common::*;
   ascent_par! {
      pub struct Prog;
      relation r0(i64, i64);
      relation r1(i64);
      relation r2(i64, i64, i64);
      lattice r3(i64, Option<i64>);
      r3(v0, Some((*v0))) <-- r1(v0) if ((*v0) < 2);
      r3(v0, v1) <-- r3(v0, v1), r1(v2);
      r1(v0) <-- r1(0), r3(v0, v1);
   }
   pub struct Inst { p: Prog, pool: Option<ascent::rayon::ThreadPool> }
   pub fn make(pool: Option<usize>) -> Box<dyn Driver> {
      let pool = pool.map(|n| ascent::rayon::ThreadPoolBuilder::new().num_threads(n).build().unwrap());
      let p = match &pool { Some(pl) => pl.install(|| Default::default()), None => Default::default() };
      Box::new(Inst { p, pool })
   }
   impl Driver for Inst {
      fn load(&mut self, rel: usize, rows: &[Sexp], append: bool) -> Option<()> {
         match rel {
         0 => { let v: Vec<(i64,i64,)> = parse_rows(rows)?; if !append { self.p.r0 = Default::default(); } for x in v { self.p.r0.push(x); } },
         1 => { let v: Vec<(i64,)> = parse_rows(rows)?; if !append { self.p.r1 = Default::default(); } for x in v { self.p.r1.push(x); } },
         2 => { let v: Vec<(i64,i64,i64,)> = parse_rows(rows)?; if !append { self.p.r2 = Default::default(); } for x in v { self.p.r2.push(x); } },
         3 => { let v: Vec<(i64,Option<i64>,)> = parse_rows(rows)?; if !append { self.p.r3 = Default::default(); } for x in v { self.p.r3.push(std::sync::RwLock::new(x)); } },
            _ => return None,
         }
         Some(())
      }
      fn run(&mut self) { match &self.pool { Some(pl) => { let p = &mut self.p; pl.install(|| p.run()) }, None => self.p.run() } }
      fn run_here(&mut self) { self.p.run() }
      fn run_timeout(&mut self, k: usize) -> Option<bool> { let _ = k; None }
      fn dump(&self) -> String { vec![dump_rel(0, self.p.r0.iter().map(|x| x.render()).collect()), dump_rel(1, self.p.r1.iter().map(|x| x.render()).collect()), dump_rel(2, self.p.r2.iter().map(|x| x.render()).collect()), dump_rel(3, self.p.r3.iter().map(|x| x.read().unwrap().render()).collect())].join(" | ") }
      fn iters(&self) -> String { format!("iters {}", self.p.scc_iters.iter().map(|x| x.to_string()).collect::<Vec<_>>().join(" ")) }
   }
}

#[allow(unused, non_snake_case, clippy::all)]
pub mod w76 {
   use ascent::*;
   use ascent::aggregators::*;
   use ascent::lattice::{Dual, set::Set};
   use crate::common::*;
   ascent_par! {
      pub struct Prog;
      relation r0(i64, i64, i64);
      relation r1(i64, i64);
      lattice r2(Dual<i64>);
      lattice r3(Set<i64>);
      r2(Dual((*v1))) <-- r0(v0, v0, v1);
      r2(Dual((*v2))) <-- r2(v0), r1(v1, v2);
      r2(Dual(((v1.0) + 1))) <-- r2(v0), r2(v1);
      r3(Set::singleton((*v0))) <-- r0(v0, v1, 1);
      r3(v0) <-- r3(v0), r1(v1, v1);
      r1(v0, v1) <-- r1(v0, 2), r0(v0, v0, v1);
      r0(3, 1, 1) <-- r3(v0), r3(v1);
      r2(Dual((*v0))) <-- r1(v0, 1);
      r3(Set::singleton(4)) <-- r2(v0);
   }
   pub struct Inst { p: Prog, pool: Option<ascent::rayon::ThreadPool> }
   pub fn make(pool: Option<usize>) -> Box<dyn Driver> {
      let pool = pool.map(|n| ascent::rayon::ThreadPoolBuilder::new().num_threads(n).build().unwrap());
      let p = match &pool { Some(pl) => pl.install(|| Default::default()), None => Default::default() };
      Box::new(Inst { p, pool })
   }
   impl Driver for Inst {
      fn load(&mut self, rel: usize, rows: &[Sexp], append: bool) -> Option<()> {
         match rel {
         0 => { let v: Vec<(i64,i64,i64,)> = parse_rows(rows)?; if !append { self.p.r0 = Default::default(); } for x in v { self.p.r0.push(x); } },
         1 => { let v: Vec<(i64,i64,)> = parse_rows(rows)?; if !append { self.p.r1 = Default::default(); } for x in v { self.p.r1.push(x); } },
         2 => { let v: Vec<(Dual<i64>,)> = parse_rows(rows)?; if !append { self.p.r2 = Default::default(); } for x in v { self.p.r2.push(std::sync::RwLock::new(x)); } },
         3 => { let v: Vec<(Set<i64>,)> = parse_rows(rows)?; if !append { self.p.r3 = Default::default(); } for x in v { self.p.r3.push(std::sync::RwLock::new(x)); } },
            _ => return None,
         }
         Some(())
      }
      fn run(&mut self) { match &self.pool { Some(pl) => { let p = &mut self.p; pl.install(|| p.run()) }, None => self.p.run() } }
      fn run_here(&mut self) { self.p.run() }
      fn run_timeout(&mut self, k: usize) -> Option<bool> { let _ = k; None }
      fn dump(&self) -> String { vec![dump_rel(0, self.p.r0.iter().map(|x| x.render()).collect()), dump_rel(1, self.p.r1.iter().map(|x| x.render()).collect()), dump_rel(2, self.p.r2.iter().map(|x| x.read().unwrap().render()).collect()), dump_rel(3, self.p.r3.iter().map(|x| x.read().unwrap().render()).collect())].join(" | ") }
      fn iters(&self) -> String { format!("iters {}", self.p.scc_iters.iter().map(|x| x.to_string()).collect::<Vec<_>>().join(" ")) }
   }
}

#[allow(unused, non_snake_case, clippy::all)]
pub mod w84 {
   use ascent::*;
   use ascent::aggregators::*;
   use ascent::lattice::{Dual, set::Set};
   use crate::common::*;
   ascent_par! {
      pub struct Prog;
      relation r0(i64, i64);
      relation r1(i64, i64);
      relation r2(i64);
      relation r3(i64);
      relation r4(i64, i64);
      relation r5(i64, i64);
      relation r6(i64);
      relation r7(i64, i64);
      relation r8(i64, i64);
      r1(v0, v1) <-- r1(v0, v1), r0(v0, v0), r1(v1, v2);
      r4(v0, v1) <-- r5(v0, v1), r5(v0, v0), r5(v1, v2);
      r1(0, (v0 + 1)) <-- if let Some(v0) = Some(1), r5(v1, 1), if (v0 < 6);
      r3(v0) <-- r2(v0), r4(v1, v0) if ((*v1) != 6);
      r3(1);
      r6(v1) <-- r1(v0, v1), agg () = not() in r5(_, (*v0));
      r7(v1, v21) <-- r1(v0, v1), agg v21 = max(v20) in r5((*v0), v20);
      r8(v1, (v21 as i64)) <-- r1(v0, v1), r4(v1, v1), r3(v0), agg v21 = count() in r0(_, _);
   }
   pub struct Inst { p: Prog, pool: Option<ascent::rayon::ThreadPool> }
   pub fn make(pool: Option<usize>) -> Box<dyn Driver> {
      let pool = pool.map(|n| ascent::rayon::ThreadPoolBuilder::new().num_threads(n).build().unwrap());
      let p = match &pool { Some(pl) => pl.install(|| Default::default()), None => Default::default() };
      Box::new(Inst { p, pool })
   }
   impl Driver for Inst {
      fn load(&mut self, rel: usize, rows: &[Sexp], append: bool) -> Option<()> {
         match rel {
         0 => { let v: Vec<(i64,i64,)> = parse_rows(rows)?; if !append { self.p.r0 = Default::default(); } for x in v { self.p.r0.push(x); } },
         1 => { let v: Vec<(i64,i64,)> = parse_rows(rows)?; if !append { self.p.r1 = Default::default(); } for x in v { self.p.r1.push(x); } },
         2 => { let v: Vec<(i64,)> = parse_rows(rows)?; if !append { self.p.r2 = Default::default(); } for x in v { self.p.r2.push(x); } },
         3 => { let v: Vec<(i64,)> = parse_rows(rows)?; if !append { self.p.r3 = Default::default(); } for x in v { self.p.r3.push(x); } },
         4 => { let v: Vec<(i64,i64,)> = parse_rows(rows)?; if !append { self.p.r4 = Default::default(); } for x in v { self.p.r4.push(x); } },
         5 => { let v: Vec<(i64,i64,)> = parse_rows(rows)?; if !append { self.p.r5 = Default::default(); } for x in v { self.p.r5.push(x); } },
         6 => { let v: Vec<(i64,)> = parse_rows(rows)?; if !append { self.p.r6 = Default::default(); } for x in v { self.p.r6.push(x); } },
         7 => { let v: Vec<(i64,i64,)> = parse_rows(rows)?; if !append { self.p.r7 = Default::default(); } for x in v { self.p.r7.push(x); } },
         8 => { let v: Vec<(i64,i64,)> = parse_rows(rows)?; if !append { self.p.r8 = Default::default(); } for x in v { self.p.r8.push(x); } },
            _ => return None,
         }
         Some(())
      }
      fn run(&mut self) { match &self.pool { Some(pl) => { let p = &mut self.p; pl.install(|| p.run()) }, None => self.p.run() } }
      fn run_here(&mut self) { self.p.run() }
      fn run_timeout(&mut self, k: usize) -> Option<bool> { let _ = k; None }
      fn dump(&self) -> String { vec![dump_rel(0, self.p.r0.iter().map(|x| x.render()).collect()), dump_rel(1, self.p.r1.iter().map(|x| x.render()).collect()), dump_rel(2, self.p.r2.iter().map(|x| x.render()).collect()), dump_rel(3, self.p.r3.iter().map(|x| x.render()).collect()), dump_rel(4, self.p.r4.iter().map(|x| x.render()).collect()), dump_rel(5, self.p.r5.iter().map(|x| x.render()).collect()), dump_rel(6, self.p.r6.iter().map(|x| x.render()).collect()), dump_rel(7, self.p.r7.iter().map(|x| x.render()).collect()), dump_rel(8, self.p.r8.iter().map(|x| x.render()).collect())].join(" | ") }
      fn iters(&self) -> String { format!("iters {}", self.p.scc_iters.iter().map(|x| x.to_string()).collect::<Vec<_>>().join(" ")) }
   }
}

#[allow(unused, non_snake_case, clippy::all)]
pub mod w92 {
   use ascent::*;
   use ascent::aggregators::*;
   use ascent::lattice::{Dual, set::Set};
   use crate::common::*;
   ascent_par! {
      pub struct Prog;
      relation r0(i64, i64);
      relation r1(i64);
      relation r2(i64, i64);
      relation r3(i64, i64);
      relation r4(i64, i64);
      relation r5(i64, i64, i64);
      relation r6(i64);
      relation r7(i64, i64);
      relation r8(i64);
      r2(v0, 0) <-- if let Some(v0) = Some(1), r1(v0), if (v0 <= 6);
      r2(v2, 1) <-- if let Some(v0) = Some(4), r2(v1, v2), r1(v2) if (v0 <= 1), for v3 in 2..4;
      r2(v0, v1) <-- for v9 in 0..2, r3(v0, v1), r0(v9, v1);
      r2(v0, v1) <-- let v9 = 0, r3(v0, v1), r2(v1, v9);
      r2(v0, v0) <-- r3(v0, 3), if ((*v0) <= 1);
      r6(v1) <-- r4(v0, v1), agg () = not() in r3(_, _);
      r7(v0, 1) <-- r1(v0), agg () = not() in r1((*v0));
      r8(v33) <-- r3(v0, v1), r0(v32, v33), r0(v32, v34), agg v21 = min(v20) in r4(v20, _);
   }
   pub struct Inst { p: Prog, pool: Option<ascent::rayon::ThreadPool> }
   pub fn make(pool: Option<usize>) -> Box<dyn Driver> {
      let pool = pool.map(|n| ascent::rayon::ThreadPoolBuilder::new().num_threads(n).build().unwrap());
      let p = match &pool { Some(pl) => pl.install(|| Default::default()), None => Default::default() };
      Box::new(Inst { p, pool })
   }
   impl Driver for Inst {
      fn load(&mut self, rel: usize, rows: &[Sexp], append: bool) -> Option<()> {
         match rel {
         0 => { let v: Vec<(i64,i64,)> = parse_rows(rows)?; if !append { self.p.r0 = Default::default(); } for x in v { self.p.r0.push(x); } },
         1 => { let v: Vec<(i64,)> = parse_rows(rows)?; if !append { self.p.r1 = Default::default(); } for x in v { self.p.r1.push(x); } },
         2 => { let v: Vec<(i64,i64,)> = parse_rows(rows)?; if !append { self.p.r2 = Default::default(); } for x in v { self.p.r2.push(x); } },
         3 => { let v: Vec<(i64,i64,)> = parse_rows(rows)?; if !append { self.p.r3 = Default::default(); } for x in v { self.p.r3.push(x); } },
         4 => { let v: Vec<(i64,i64,)> = parse_rows(rows)?; if !append { self.p.r4 = Default::default(); } for x in v { self.p.r4.push(x); } },
         5 => { let v: Vec<(i64,i64,i64,)> = parse_rows(rows)?; if !append { self.p.r5 = Default::default(); } for x in v { self.p.r5.push(x); } },
         6 => { let v: Vec<(i64,)> = parse_rows(rows)?; if !append { self.p.r6 = Default::default(); } for x in v { self.p.r6.push(x); } },
         7 => { let v: Vec<(i64,i64,)> = parse_rows(rows)?; if !append { self.p.r7 = Default::default(); } for x in v { self.p.r7.push(x); } },
         8 => { let v: Vec<(i64,)> = parse_rows(rows)?; if !append { self.p.r8 = Default::default(); } for x in v { self.p.r8.push(x); } },
            _ => return None,
         }
         Some(())
      }
      fn run(&mut self) { match &self.pool { Some(pl) => { let p = &mut self.p; pl.install(|| p.run()) }, None => self.p.run() } }
      fn run_here(&mut self) { self.p.run() }
      fn run_timeout(&mut self, k: usize) -> Option<bool> { let _ = k; None }
      fn dump(&self) -> String { vec![dump_rel(0, self.p.r0.iter().map(|x| x.render()).collect()), dump_rel(1, self.p.r1.iter().map(|x| x.render()).collect()), dump_rel(2, self.p.r2.iter().map(|x| x.render()).collect()), dump_rel(3, self.p.r3.iter().map(|x| x.render()).collect()), dump_rel(4, self.p.r4.iter().map(|x| x.render()).collect()), dump_rel(5, self.p.r5.iter().map(|x| x.render()).collect()), dump_rel(6, self.p.r6.iter().map(|x| x.render()).collect()), dump_rel(7, self.p.r7.iter().map(|x| x.render()).collect()), dump_rel(8, self.p.r8.iter().map(|x| x.render()).collect())].join(" | ") }
      fn iters(&self) -> String { format!("iters {}", self.p.scc_iters.iter().map(|x| x.to_string()).collect::<Vec<_>>().join(" ")) }
   }
}

#[allow(unused, non_snake_case, clippy::all)]
pub mod f5w_par {
   use ascent::*;
   use ascent::aggregators::*;
   use ascent::lattice::{Dual, set::Set};
   use crate::common::*;
   ascent_par! {
      pub struct Prog;
      relation r0(i64, i64, i64);
      relation r1(i64);
      lattice r2(i64, i64, Dual<i64>);
      relation r3(i64, i64);
      r2(v0, v1, Dual((*v2))) <-- r0(v0, v1, v2);
      r2(v0, v3, Dual(((v2.0) + (*v4)))) <-- r2(v0, v1, v2), r0(v1, v3, v4);
      r3(v0, (v21 as i64)) <-- r1(v0), agg v21 = count() in r2((*v0), _, _);
   }
   pub struct Inst { p: Prog, pool: Option<ascent::rayon::ThreadPool> }
   pub fn make(pool: Option<usize>) -> Box<dyn Driver> {
      let pool = pool.map(|n| ascent::rayon::ThreadPoolBuilder::new().num_threads(n).build().unwrap());
      let p = match &pool { Some(pl) => pl.install(|| Default::default()), None => Default::default() };
      Box::new(Inst { p, pool })
   }
   impl Driver for Inst {
      fn load(&mut self, rel: usize, rows: &[Sexp], append: bool) -> Option<()> {
         match rel {
         0 => { let v: Vec<(i64,i64,i64,)> = parse_rows(rows)?; if !append { self.p.r0 = Default::default(); } for x in v { self.p.r0.push(x); } },
         1 => { let v: Vec<(i64,)> = parse_rows(rows)?; if !append { self.p.r1 = Default::default(); } for x in v { self.p.r1.push(x); } },
         2 => { let v: Vec<(i64,i64,Dual<i64>,)> = parse_rows(rows)?; if !append { self.p.r2 = Default::default(); } for x in v { self.p.r2.push(std::sync::RwLock::new(x)); } },
         3 => { let v: Vec<(i64,i64,)> = parse_rows(rows)?; if !append { self.p.r3 = Default::default(); } for x in v { self.p.r3.push(x); } },
            _ => return None,
         }
         Some(())
      }
      fn run(&mut self) { match &self.pool { Some(pl) => { let p = &mut self.p; pl.install(|| p.run()) }, None => self.p.run() } }
      fn run_here(&mut self) { self.p.run() }
      fn run_timeout(&mut self, k: usize) -> Option<bool> { let _ = k; None }
      fn dump(&self) -> String { vec![dump_rel(0, self.p.r0.iter().map(|x| x.render()).collect()), dump_rel(1, self.p.r1.iter().map(|x| x.render()).collect()), dump_rel(2, self.p.r2.iter().map(|x| x.read().unwrap().render()).collect()), dump_rel(3, self.p.r3.iter().map(|x| x.render()).collect())].join(" | ") }
      fn iters(&self) -> String { format!("iters {}", self.p.scc_iters.iter().map(|x| x.to_string()).collect::<Vec<_>>().join(" ")) }
   }
}

fn main() {
   common::main_loop(&[("w4", w4::make as common::Factory), ("w12", w12::make as common::Factory), ("w20", w20::make as common::Factory), ("w28", w28::make as common::Factory), ("w36", w36::make as common::Factory), ("w44", w44::make as common::Factory), ("w52", w52::make as common::Factory), ("w60", w60::make as common::Factory), ("w68", w68::make as common::Factory), ("w76", w76::make as common::Factory), ("w84", w84::make as common::Factory), ("w92", w92::make as common::Factory), ("f5w_par", f5w_par::make as common::Factory)]);
}
