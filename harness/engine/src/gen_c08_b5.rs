#[path = "common.rs"]
mod common;
#[allow(unused, non_snake_case, clippy::all)]
pub mod h2x {
   use ascent::*;
   use ascent::aggregators::*;
   use ascent::lattice::{Dual, set::Set};
   use crate::common::*;
   ascent! {
      pub struct Prog;
      relation r0(i64, i64);
      relation r1(i64, Option<i64>);
      relation r2(i64);
      relation r3(i64, i64, i64);
      relation r4(i64);
      relation r5(i64);
      relation r6(i64, i64, Option<i64>);
      relation r7(i64, i64);
      r7(v1, v1) <-- r2(v0), r0(v100, v1) if (v100.clone() == v0.clone()), if (v1.clone() <= 5);
      r7(v0, std::cmp::min((v0.clone() + v0.clone()), 6)) <-- r0(v0, v1);
      r7(v1, v1) <-- r0(v0, v1);
      r7(v0, std::cmp::min(std::cmp::min(v0.clone(), 4), 6)) <-- r7(v103, v104) if (v103.clone() == 0) if (v104.clone() == 3), r3(v0, v2, v101), r7(v105, v102) if (v105.clone() == v101.clone()), if (v102.clone() < 0), agg () = not() in r0(v2.clone(), v2.clone());
      r7(v0, std::cmp::min(std::cmp::min(v0.clone(), 4), 6)) <-- r7(v106, v107) if (v106.clone() == 0) if (v107.clone() == 3), r6(v0, v2, v108) if let Some(v101) = v108.clone(), r5(v109), agg () = not() in r0(v2.clone(), v2.clone());
      r7(v0, std::cmp::min(std::cmp::min(v0.clone(), 4), 6)) <-- r7(v110, v111) if (v110.clone() == 0) if (v111.clone() == 3), r1(v0, v112) if let Some(v3) = v112.clone();
      r6(v8, v3, v2) <-- r6(v0, v1, v2), r3(v3, v5, v113), r7(v117, v114) if (v117.clone() == v113.clone()), if (v114.clone() < 0), agg () = not() in r0(v5.clone(), v5.clone()), r3(v7, v8, v115), r7(v118, v116) if (v118.clone() == v115.clone()), if (v116.clone() < 0), agg () = not() in r0(v8.clone(), v8.clone());
      r6(v8, v3, v2) <-- r6(v0, v1, v2), r3(v3, v5, v113), r7(v119, v114) if (v119.clone() == v113.clone()), if (v114.clone() < 0), agg () = not() in r0(v5.clone(), v5.clone()), r6(v7, v8, v120) if let Some(v115) = v120.clone(), r5(v121), agg () = not() in r0(v8.clone(), v8.clone());
      r6(v8, v3, v2) <-- r6(v0, v1, v2), r6(v3, v5, v122) if let Some(v113) = v122.clone(), r5(v123), agg () = not() in r0(v5.clone(), v5.clone()), r3(v7, v8, v115), r7(v124, v116) if (v124.clone() == v115.clone()), if (v116.clone() < 0), agg () = not() in r0(v8.clone(), v8.clone());
      r6(v8, v3, v2) <-- r6(v0, v1, v2), r6(v3, v5, v125) if let Some(v113) = v125.clone(), r5(v126), agg () = not() in r0(v5.clone(), v5.clone()), r6(v7, v8, v127) if let Some(v115) = v127.clone(), r5(v128), agg () = not() in r0(v8.clone(), v8.clone());
      r6(v8, v3, v2) <-- r6(v0, v1, v2), r6(v129, v3, v130) if (v129.clone() == 1) if let Some(v6) = v130.clone(), r3(v7, v8, v115), r7(v131, v116) if (v131.clone() == v115.clone()), if (v116.clone() < 0), agg () = not() in r0(v8.clone(), v8.clone());
      r6(v8, v3, v2) <-- r6(v0, v1, v2), r6(v132, v3, v133) if (v132.clone() == 1) if let Some(v6) = v133.clone(), r6(v7, v8, v134) if let Some(v115) = v134.clone(), r5(v135), agg () = not() in r0(v8.clone(), v8.clone());
      r4(v0) <-- r1(v0, v136) if let Some(v1) = v136.clone();
   }
   pub struct Inst { p: Prog, pool: Option<ascent::rayon::ThreadPool> }
   pub fn make(pool: Option<usize>) -> Box<dyn Driver> {
      let pool = pool.map(|n| ascent::rayon::ThreadPoolBuilder::new().num_threads(n).build().unwrap());
      let p = match &pool { Some(pl) => pl.install(|| Default::default()), None => Default::default() };
      Box::new(Inst { p, pool })
   }
   impl Driver for Inst {
      fn load(&mut self, rel: usize, rows: &[Sexp], append: bool) -> Option<()> {
         match rel {
         0 => { let v: Vec<(i64,i64,)> = parse_rows(rows)?; if append { self.p.r0.extend(v) } else { self.p.r0 = v } },
         1 => { let v: Vec<(i64,Option<i64>,)> = parse_rows(rows)?; if append { self.p.r1.extend(v) } else { self.p.r1 = v } },
         2 => { let v: Vec<(i64,)> = parse_rows(rows)?; if append { self.p.r2.extend(v) } else { self.p.r2 = v } },
         3 => { let v: Vec<(i64,i64,i64,)> = parse_rows(rows)?; if append { self.p.r3.extend(v) } else { self.p.r3 = v } },
         4 => { let v: Vec<(i64,)> = parse_rows(rows)?; if append { self.p.r4.extend(v) } else { self.p.r4 = v } },
         5 => { let v: Vec<(i64,)> = parse_rows(rows)?; if append { self.p.r5.extend(v) } else { self.p.r5 = v } },
         6 => { let v: Vec<(i64,i64,Option<i64>,)> = parse_rows(rows)?; if append { self.p.r6.extend(v) } else { self.p.r6 = v } },
         7 => { let v: Vec<(i64,i64,)> = parse_rows(rows)?; if append { self.p.r7.extend(v) } else { self.p.r7 = v } },
            _ => return None,
         }
         Some(())
      }
      fn run(&mut self) { match &self.pool { Some(pl) => { let p = &mut self.p; pl.install(|| p.run()) }, None => self.p.run() } }
      fn run_here(&mut self) { self.p.run() }
      fn run_timeout(&mut self, k: usize) -> Option<bool> { let _ = k; None }
      fn dump(&self) -> String { vec![dump_rel(0, self.p.r0.iter().map(Row::render).collect()), dump_rel(1, self.p.r1.iter().map(Row::render).collect()), dump_rel(2, self.p.r2.iter().map(Row::render).collect()), dump_rel(3, self.p.r3.iter().map(Row::render).collect()), dump_rel(4, self.p.r4.iter().map(Row::render).collect()), dump_rel(5, self.p.r5.iter().map(Row::render).collect()), dump_rel(6, self.p.r6.iter().map(Row::render).collect()), dump_rel(7, self.p.r7.iter().map(Row::render).collect())].join(" | ") }
      fn iters(&self) -> String { format!("iters {}", self.p.scc_iters.iter().map(|x| x.to_string()).collect::<Vec<_>>().join(" ")) }
   }
}

#[allow(unused, non_snake_case, clippy::all)]
pub mod h6x {
   use ascent::*;
   use ascent::aggregators::*;
   use ascent::lattice::{Dual, set::Set};
   use crate::common::*;
   ascent! {
      pub struct Prog;
      relation r0(i64, i64);
      relation r1(i64, Option<i64>);
      relation r2(i64);
      relation r3(i64, i64, i64);
      relation r4(i64);
      relation r5(i64, i64);
      relation r6(i64, i64);
      relation r7(i64, i64);
      r6(1, std::cmp::min(std::cmp::min(v4.clone(), 1), 6)) <-- r3(v0, v102, v1) if (v102.clone() == v0.clone()), r5(v2, v103), r3(v100, v104, v105) if (v105.clone() == std::cmp::max(v2.clone(), 2)), if (v2.clone() <= v100.clone()), r5(v4, v106), r3(v101, v107, v108) if (v108.clone() == std::cmp::max(v4.clone(), 2)), if (v4.clone() <= v101.clone());
      r6(std::cmp::min(std::cmp::min(v4.clone(), 1), 6), 2) <-- r3(v0, v102, v1) if (v102.clone() == v0.clone()), r5(v2, v103), r3(v100, v104, v105) if (v105.clone() == std::cmp::max(v2.clone(), 2)), if (v2.clone() <= v100.clone()), r5(v4, v106), r3(v101, v107, v108) if (v108.clone() == std::cmp::max(v4.clone(), 2)), if (v4.clone() <= v101.clone());
      r6(1, std::cmp::min(std::cmp::min(v4.clone(), 1), 6)) <-- r3(v0, v109, v1) if (v109.clone() == v0.clone()), r5(v2, v110) if (v110.clone() == std::cmp::max(v0.clone(), 1)), r5(v4, v111), r3(v101, v112, v113) if (v113.clone() == std::cmp::max(v4.clone(), 2)), if (v4.clone() <= v101.clone());
      r6(std::cmp::min(std::cmp::min(v4.clone(), 1), 6), 2) <-- r3(v0, v109, v1) if (v109.clone() == v0.clone()), r5(v2, v110) if (v110.clone() == std::cmp::max(v0.clone(), 1)), r5(v4, v111), r3(v101, v112, v113) if (v113.clone() == std::cmp::max(v4.clone(), 2)), if (v4.clone() <= v101.clone());
      r5(2, v3) <-- r6(v0, v1), r5(v2, v116), r3(v114, v117, v118) if (v118.clone() == std::cmp::max(v2.clone(), 2)), if (v2.clone() <= v114.clone()), r5(v3, v119), r3(v115, v120, v121) if (v121.clone() == std::cmp::max(v3.clone(), 2)), if (v3.clone() <= v115.clone());
      r5(3, std::cmp::min(std::cmp::min(v3.clone(), 2), 6)) <-- r6(v0, v1), r5(v2, v116), r3(v114, v117, v118) if (v118.clone() == std::cmp::max(v2.clone(), 2)), if (v2.clone() <= v114.clone()), r5(v3, v119), r3(v115, v120, v121) if (v121.clone() == std::cmp::max(v3.clone(), 2)), if (v3.clone() <= v115.clone());
      r6(1, (std::cmp::min(std::cmp::min(v3.clone(), 2), 6) + 0)) <-- r6(v0, v1), r5(v2, v116), r3(v114, v117, v118) if (v118.clone() == std::cmp::max(v2.clone(), 2)), if (v2.clone() <= v114.clone()), r5(v3, v119), r3(v115, v120, v121) if (v121.clone() == std::cmp::max(v3.clone(), 2)), if (v3.clone() <= v115.clone());
      r6((std::cmp::min(std::cmp::min(v3.clone(), 2), 6) + 0), 2) <-- r6(v0, v1), r5(v2, v116), r3(v114, v117, v118) if (v118.clone() == std::cmp::max(v2.clone(), 2)), if (v2.clone() <= v114.clone()), r5(v3, v119), r3(v115, v120, v121) if (v121.clone() == std::cmp::max(v3.clone(), 2)), if (v3.clone() <= v115.clone());
      r6(1, v2) <-- r6(v0, v1), r5(v2, v116), r3(v114, v117, v118) if (v118.clone() == std::cmp::max(v2.clone(), 2)), if (v2.clone() <= v114.clone()), r5(v3, v119), r3(v115, v120, v121) if (v121.clone() == std::cmp::max(v3.clone(), 2)), if (v3.clone() <= v115.clone());
      r7(v0, v1) <-- r6(v0, v122), r2(v1), r6(v123, v124) if (v123.clone() == v1.clone()) if (v124.clone() == (v1.clone() + 2)), r2(v2), r6(v125, v126) if (v125.clone() == v2.clone()) if (v126.clone() == (v2.clone() + 2));
      r5(2, v2) <-- r7(v0, v131) if (v131.clone() == 3), r3(v127, v132, v1) if (v132.clone() == v0.clone()), r5(v128, v129), if (v1.clone() == 4), r2(v2);
      r5(3, std::cmp::min(std::cmp::max(v2.clone(), 3), 6)) <-- r7(v0, v131) if (v131.clone() == 3), r3(v127, v132, v1) if (v132.clone() == v0.clone()), r5(v128, v129), if (v1.clone() == 4), r2(v2);
      r6(1, (std::cmp::min(std::cmp::max(v2.clone(), 3), 6) + 0)) <-- r7(v0, v131) if (v131.clone() == 3), r3(v127, v132, v1) if (v132.clone() == v0.clone()), r5(v128, v129), if (v1.clone() == 4), r2(v2);
      r6((std::cmp::min(std::cmp::max(v2.clone(), 3), 6) + 0), 2) <-- r7(v0, v131) if (v131.clone() == 3), r3(v127, v132, v1) if (v132.clone() == v0.clone()), r5(v128, v129), if (v1.clone() == 4), r2(v2);
      r5(2, v2) <-- r7(v0, v133) if (v133.clone() == 3), r3(v127, v1, v134) if (v134.clone() == v0.clone()), r7(v135, v130), if (v1.clone() == 4), r2(v2);
      r5(3, std::cmp::min(std::cmp::max(v2.clone(), 3), 6)) <-- r7(v0, v133) if (v133.clone() == 3), r3(v127, v1, v134) if (v134.clone() == v0.clone()), r7(v135, v130), if (v1.clone() == 4), r2(v2);
      r6(1, (std::cmp::min(std::cmp::max(v2.clone(), 3), 6) + 0)) <-- r7(v0, v133) if (v133.clone() == 3), r3(v127, v1, v134) if (v134.clone() == v0.clone()), r7(v135, v130), if (v1.clone() == 4), r2(v2);
      r6((std::cmp::min(std::cmp::max(v2.clone(), 3), 6) + 0), 2) <-- r7(v0, v133) if (v133.clone() == 3), r3(v127, v1, v134) if (v134.clone() == v0.clone()), r7(v135, v130), if (v1.clone() == 4), r2(v2);
      r5(2, v2) <-- r3(v0, v137, v1) if (v137.clone() == v0.clone()) if (v1.clone() <= 1), r5(v2, v138), r3(v136, v139, v140) if (v140.clone() == std::cmp::max(v2.clone(), 2)), if (v2.clone() <= v136.clone());
      r5(3, std::cmp::min((v1.clone() + v1.clone()), 6)) <-- r3(v0, v137, v1) if (v137.clone() == v0.clone()) if (v1.clone() <= 1), r5(v2, v138), r3(v136, v139, v140) if (v140.clone() == std::cmp::max(v2.clone(), 2)), if (v2.clone() <= v136.clone());
      r6(1, (std::cmp::min((v1.clone() + v1.clone()), 6) + 0)) <-- r3(v0, v137, v1) if (v137.clone() == v0.clone()) if (v1.clone() <= 1), r5(v2, v138), r3(v136, v139, v140) if (v140.clone() == std::cmp::max(v2.clone(), 2)), if (v2.clone() <= v136.clone());
      r6((std::cmp::min((v1.clone() + v1.clone()), 6) + 0), 2) <-- r3(v0, v137, v1) if (v137.clone() == v0.clone()) if (v1.clone() <= 1), r5(v2, v138), r3(v136, v139, v140) if (v140.clone() == std::cmp::max(v2.clone(), 2)), if (v2.clone() <= v136.clone());
      r6(v2, v0) <-- r3(v0, v137, v1) if (v137.clone() == v0.clone()) if (v1.clone() <= 1), r5(v2, v138), r3(v136, v139, v140) if (v140.clone() == std::cmp::max(v2.clone(), 2)), if (v2.clone() <= v136.clone());
      r4(v0) <-- r1(v0, v141) if (v141.clone() == None::<i64>);
      r6(1, 3);
      r6(3, 2);
   }
   pub struct Inst { p: Prog, pool: Option<ascent::rayon::ThreadPool> }
   pub fn make(pool: Option<usize>) -> Box<dyn Driver> {
      let pool = pool.map(|n| ascent::rayon::ThreadPoolBuilder::new().num_threads(n).build().unwrap());
      let p = match &pool { Some(pl) => pl.install(|| Default::default()), None => Default::default() };
      Box::new(Inst { p, pool })
   }
   impl Driver for Inst {
      fn load(&mut self, rel: usize, rows: &[Sexp], append: bool) -> Option<()> {
         match rel {
         0 => { let v: Vec<(i64,i64,)> = parse_rows(rows)?; if append { self.p.r0.extend(v) } else { self.p.r0 = v } },
         1 => { let v: Vec<(i64,Option<i64>,)> = parse_rows(rows)?; if append { self.p.r1.extend(v) } else { self.p.r1 = v } },
         2 => { let v: Vec<(i64,)> = parse_rows(rows)?; if append { self.p.r2.extend(v) } else { self.p.r2 = v } },
         3 => { let v: Vec<(i64,i64,i64,)> = parse_rows(rows)?; if append { self.p.r3.extend(v) } else { self.p.r3 = v } },
         4 => { let v: Vec<(i64,)> = parse_rows(rows)?; if append { self.p.r4.extend(v) } else { self.p.r4 = v } },
         5 => { let v: Vec<(i64,i64,)> = parse_rows(rows)?; if append { self.p.r5.extend(v) } else { self.p.r5 = v } },
         6 => { let v: Vec<(i64,i64,)> = parse_rows(rows)?; if append { self.p.r6.extend(v) } else { self.p.r6 = v } },
         7 => { let v: Vec<(i64,i64,)> = parse_rows(rows)?; if append { self.p.r7.extend(v) } else { self.p.r7 = v } },
            _ => return None,
         }
         Some(())
      }
      fn run(&mut self) { match &self.pool { Some(pl) => { let p = &mut self.p; pl.install(|| p.run()) }, None => self.p.run() } }
      fn run_here(&mut self) { self.p.run() }
      fn run_timeout(&mut self, k: usize) -> Option<bool> { let _ = k; None }
      fn dump(&self) -> String { vec![dump_rel(0, self.p.r0.iter().map(Row::render).collect()), dump_rel(1, self.p.r1.iter().map(Row::render).collect()), dump_rel(2, self.p.r2.iter().map(Row::render).collect()), dump_rel(3, self.p.r3.iter().map(Row::render).collect()), dump_rel(4, self.p.r4.iter().map(Row::render).collect()), dump_rel(5, self.p.r5.iter().map(Row::render).collect()), dump_rel(6, self.p.r6.iter().map(Row::render).collect()), dump_rel(7, self.p.r7.iter().map(Row::render).collect())].join(" | ") }
      fn iters(&self) -> String { format!("iters {}", self.p.scc_iters.iter().map(|x| x.to_string()).collect::<Vec<_>>().join(" ")) }
   }
}

#[allow(unused, non_snake_case, clippy::all)]
pub mod h10x {
   use ascent::*;
   use ascent::aggregators::*;
   use ascent::lattice::{Dual, set::Set};
   use crate::common::*;
   ascent! {
      pub struct Prog;
      relation r0(i64, i64);
      relation r1(i64, Option<i64>);
      relation r2(i64);
      relation r3(i64, i64, i64);
      relation r4(i64, i64);
      relation r5(i64, Option<i64>);
      relation r6(i64, i64);
      relation r7(i64, i64);
      r6(1, std::cmp::min(std::cmp::max(v1.clone(), 0), 6)) <-- r0(v0, v103) if (v103.clone() == std::cmp::max(v0.clone(), 2)), r4(v104, v1), if (v1.clone() == 5), agg () = not() in r0(v0.clone(), v0.clone()), r1(v105, v106) if (v105.clone() == v0.clone()) if let Some(v100) = v106.clone(), if (v100.clone() == 1), agg () = not() in r4(std::cmp::max(v0.clone(), 2), std::cmp::max(v100.clone(), 2)), if (std::cmp::min(v1.clone(), 3) < v100.clone());
      r6(1, std::cmp::min(std::cmp::max(v1.clone(), 0), 6)) <-- r0(v0, v107) if (v107.clone() == std::cmp::max(v0.clone(), 2)), r4(v108, v1), if (v1.clone() == 5), agg () = not() in r0(v0.clone(), v0.clone()), r5(v109, v110) if (v109.clone() == v0.clone()) if let Some(v100) = v110.clone(), if (std::cmp::min(v1.clone(), 3) < v100.clone());
      r6(1, std::cmp::min(std::cmp::max(v1.clone(), 0), 6)) <-- r0(v0, v111) if (v111.clone() == std::cmp::max(v0.clone(), 2)), r4(v112, v1), if (v1.clone() == 5), agg () = not() in r0(v0.clone(), v0.clone()), r5(v113, v114) if (v113.clone() == v0.clone()) if let Some(v100) = v114.clone(), r4(v115, v101) if (v115.clone() == v100.clone()), if (std::cmp::min(v1.clone(), 3) < v100.clone());
      r6(1, std::cmp::min(std::cmp::max(v1.clone(), 0), 6)) <-- r0(v0, v116) if (v116.clone() == std::cmp::max(v0.clone(), 2)), r4(v117, v1), if (v1.clone() == 5), agg () = not() in r0(v0.clone(), v0.clone()), r5(v118, v119) if (v118.clone() == v0.clone()) if let Some(v100) = v119.clone(), r2(v101), if (v100.clone() < 4), let v102 = std::cmp::min((v100.clone() + 0), 6), if (std::cmp::min(v1.clone(), 3) < v100.clone());
      r6(v0, v1) <-- r6(v0, v121) if (v121.clone() == 1), r1(v1, v122), r3(v120, v123, v124) if (v123.clone() == v120.clone()) if (v124.clone() == (std::cmp::max(v0.clone(), 1) + 1)), if (v120.clone() <= 2), if (std::cmp::max(v0.clone(), 1) != 4);
      r6(v0, v1) <-- r6(v0, v125) if (v125.clone() == 1), r2(v1);
      r6(v2, v2) <-- r0(v0, v1), r1(v128, v129) if (v128.clone() == v0.clone()), r3(v126, v130, v131) if (v130.clone() == v126.clone()) if (v131.clone() == (std::cmp::min(v1.clone(), 4) + 1)), if (v126.clone() <= 2), if (std::cmp::min(v1.clone(), 4) != 4), r1(v2, v132), r3(v127, v133, v134) if (v133.clone() == v127.clone()) if (v134.clone() == ((v0.clone() + v1.clone()) + 1)), if (v127.clone() <= 2), if ((v0.clone() + v1.clone()) != 4);
      r5((v1.clone() + 1), Some(v0.clone())) <-- r0(v0, v1), if (v1.clone() < 5);
   }
   pub struct Inst { p: Prog, pool: Option<ascent::rayon::ThreadPool> }
   pub fn make(pool: Option<usize>) -> Box<dyn Driver> {
      let pool = pool.map(|n| ascent::rayon::ThreadPoolBuilder::new().num_threads(n).build().unwrap());
      let p = match &pool { Some(pl) => pl.install(|| Default::default()), None => Default::default() };
      Box::new(Inst { p, pool })
   }
   impl Driver for Inst {
      fn load(&mut self, rel: usize, rows: &[Sexp], append: bool) -> Option<()> {
         match rel {
         0 => { let v: Vec<(i64,i64,)> = parse_rows(rows)?; if append { self.p.r0.extend(v) } else { self.p.r0 = v } },
         1 => { let v: Vec<(i64,Option<i64>,)> = parse_rows(rows)?; if append { self.p.r1.extend(v) } else { self.p.r1 = v } },
         2 => { let v: Vec<(i64,)> = parse_rows(rows)?; if append { self.p.r2.extend(v) } else { self.p.r2 = v } },
         3 => { let v: Vec<(i64,i64,i64,)> = parse_rows(rows)?; if append { self.p.r3.extend(v) } else { self.p.r3 = v } },
         4 => { let v: Vec<(i64,i64,)> = parse_rows(rows)?; if append { self.p.r4.extend(v) } else { self.p.r4 = v } },
         5 => { let v: Vec<(i64,Option<i64>,)> = parse_rows(rows)?; if append { self.p.r5.extend(v) } else { self.p.r5 = v } },
         6 => { let v: Vec<(i64,i64,)> = parse_rows(rows)?; if append { self.p.r6.extend(v) } else { self.p.r6 = v } },
         7 => { let v: Vec<(i64,i64,)> = parse_rows(rows)?; if append { self.p.r7.extend(v) } else { self.p.r7 = v } },
            _ => return None,
         }
         Some(())
      }
      fn run(&mut self) { match &self.pool { Some(pl) => { let p = &mut self.p; pl.install(|| p.run()) }, None => self.p.run() } }
      fn run_here(&mut self) { self.p.run() }
      fn run_timeout(&mut self, k: usize) -> Option<bool> { let _ = k; None }
      fn dump(&self) -> String { vec![dump_rel(0, self.p.r0.iter().map(Row::render).collect()), dump_rel(1, self.p.r1.iter().map(Row::render).collect()), dump_rel(2, self.p.r2.iter().map(Row::render).collect()), dump_rel(3, self.p.r3.iter().map(Row::render).collect()), dump_rel(4, self.p.r4.iter().map(Row::render).collect()), dump_rel(5, self.p.r5.iter().map(Row::render).collect()), dump_rel(6, self.p.r6.iter().map(Row::render).collect()), dump_rel(7, self.p.r7.iter().map(Row::render).collect())].join(" | ") }
      fn iters(&self) -> String { format!("iters {}", self.p.scc_iters.iter().map(|x| x.to_string()).collect::<Vec<_>>().join(" ")) }
   }
}

#[allow(unused, non_snake_case, clippy::all)]
pub mod a0x {
   use ascent::*;
   use ascent::aggregators::*;
   use ascent::lattice::{Dual, set::Set};
   use crate::common::*;
   ascent! {
      pub struct Prog;
      relation r0(i64, i64);
      relation r1(i64);
      relation r2(i64, i64);
      relation r3(i64);
      r2(v0, v1) <-- r1(v0), r0(v100, v1) if (3 < v100.clone());
      r3(v0) <-- r2(v0, v101);
   }
   pub struct Inst { p: Prog, pool: Option<ascent::rayon::ThreadPool> }
   pub fn make(pool: Option<usize>) -> Box<dyn Driver> {
      let pool = pool.map(|n| ascent::rayon::ThreadPoolBuilder::new().num_threads(n).build().unwrap());
      let p = match &pool { Some(pl) => pl.install(|| Default::default()), None => Default::default() };
      Box::new(Inst { p, pool })
   }
   impl Driver for Inst {
      fn load(&mut self, rel: usize, rows: &[Sexp], append: bool) -> Option<()> {
         match rel {
         0 => { let v: Vec<(i64,i64,)> = parse_rows(rows)?; if append { self.p.r0.extend(v) } else { self.p.r0 = v } },
         1 => { let v: Vec<(i64,)> = parse_rows(rows)?; if append { self.p.r1.extend(v) } else { self.p.r1 = v } },
         2 => { let v: Vec<(i64,i64,)> = parse_rows(rows)?; if append { self.p.r2.extend(v) } else { self.p.r2 = v } },
         3 => { let v: Vec<(i64,)> = parse_rows(rows)?; if append { self.p.r3.extend(v) } else { self.p.r3 = v } },
            _ => return None,
         }
         Some(())
      }
      fn run(&mut self) { match &self.pool { Some(pl) => { let p = &mut self.p; pl.install(|| p.run()) }, None => self.p.run() } }
      fn run_here(&mut self) { self.p.run() }
      fn run_timeout(&mut self, k: usize) -> Option<bool> { let _ = k; None }
      fn dump(&self) -> String { vec![dump_rel(0, self.p.r0.iter().map(Row::render).collect()), dump_rel(1, self.p.r1.iter().map(Row::render).collect()), dump_rel(2, self.p.r2.iter().map(Row::render).collect()), dump_rel(3, self.p.r3.iter().map(Row::render).collect())].join(" | ") }
      fn iters(&self) -> String { format!("iters {}", self.p.scc_iters.iter().map(|x| x.to_string()).collect::<Vec<_>>().join(" ")) }
   }
}

#[allow(unused, non_snake_case, clippy::all)]
pub mod e0x {
   use ascent::*;
   use ascent::aggregators::*;
   use ascent::lattice::{Dual, set::Set};
   use crate::common::*;
   ascent! {
      pub struct Prog;
      relation r0(i64, i64);
      relation r1(i64);
      relation r2(i64, i64);
      relation r3(i64);
      r2(v0, v1) <-- r1(v0), r0(v100, v1), if ((v100.clone() * (v0.clone() + 2)) < 5);
      r3(v0) <-- r2(v0, v101);
   }
   pub struct Inst { p: Prog, pool: Option<ascent::rayon::ThreadPool> }
   pub fn make(pool: Option<usize>) -> Box<dyn Driver> {
      let pool = pool.map(|n| ascent::rayon::ThreadPoolBuilder::new().num_threads(n).build().unwrap());
      let p = match &pool { Some(pl) => pl.install(|| Default::default()), None => Default::default() };
      Box::new(Inst { p, pool })
   }
   impl Driver for Inst {
      fn load(&mut self, rel: usize, rows: &[Sexp], append: bool) -> Option<()> {
         match rel {
         0 => { let v: Vec<(i64,i64,)> = parse_rows(rows)?; if append { self.p.r0.extend(v) } else { self.p.r0 = v } },
         1 => { let v: Vec<(i64,)> = parse_rows(rows)?; if append { self.p.r1.extend(v) } else { self.p.r1 = v } },
         2 => { let v: Vec<(i64,i64,)> = parse_rows(rows)?; if append { self.p.r2.extend(v) } else { self.p.r2 = v } },
         3 => { let v: Vec<(i64,)> = parse_rows(rows)?; if append { self.p.r3.extend(v) } else { self.p.r3 = v } },
            _ => return None,
         }
         Some(())
      }
      fn run(&mut self) { match &self.pool { Some(pl) => { let p = &mut self.p; pl.install(|| p.run()) }, None => self.p.run() } }
      fn run_here(&mut self) { self.p.run() }
      fn run_timeout(&mut self, k: usize) -> Option<bool> { let _ = k; None }
      fn dump(&self) -> String { vec![dump_rel(0, self.p.r0.iter().map(Row::render).collect()), dump_rel(1, self.p.r1.iter().map(Row::render).collect()), dump_rel(2, self.p.r2.iter().map(Row::render).collect()), dump_rel(3, self.p.r3.iter().map(Row::render).collect())].join(" | ") }
      fn iters(&self) -> String { format!("iters {}", self.p.scc_iters.iter().map(|x| x.to_string()).collect::<Vec<_>>().join(" ")) }
   }
}

#[allow(unused, non_snake_case, clippy::all)]
pub mod e4x {
   use ascent::*;
   use ascent::aggregators::*;
   use ascent::lattice::{Dual, set::Set};
   use crate::common::*;
   ascent! {
      pub struct Prog;
      relation r0(i64, i64);
      relation r1(i64);
      relation r2(i64, i64);
      relation r3(i64);
      r2(v0, v1) <-- r1(v0), r0(v100, v1), if (((v0.clone() + 1) * v100.clone()) < 7);
      r3(v0) <-- r2(v0, v101);
   }
   pub struct Inst { p: Prog, pool: Option<ascent::rayon::ThreadPool> }
   pub fn make(pool: Option<usize>) -> Box<dyn Driver> {
      let pool = pool.map(|n| ascent::rayon::ThreadPoolBuilder::new().num_threads(n).build().unwrap());
      let p = match &pool { Some(pl) => pl.install(|| Default::default()), None => Default::default() };
      Box::new(Inst { p, pool })
   }
   impl Driver for Inst {
      fn load(&mut self, rel: usize, rows: &[Sexp], append: bool) -> Option<()> {
         match rel {
         0 => { let v: Vec<(i64,i64,)> = parse_rows(rows)?; if append { self.p.r0.extend(v) } else { self.p.r0 = v } },
         1 => { let v: Vec<(i64,)> = parse_rows(rows)?; if append { self.p.r1.extend(v) } else { self.p.r1 = v } },
         2 => { let v: Vec<(i64,i64,)> = parse_rows(rows)?; if append { self.p.r2.extend(v) } else { self.p.r2 = v } },
         3 => { let v: Vec<(i64,)> = parse_rows(rows)?; if append { self.p.r3.extend(v) } else { self.p.r3 = v } },
            _ => return None,
         }
         Some(())
      }
      fn run(&mut self) { match &self.pool { Some(pl) => { let p = &mut self.p; pl.install(|| p.run()) }, None => self.p.run() } }
      fn run_here(&mut self) { self.p.run() }
      fn run_timeout(&mut self, k: usize) -> Option<bool> { let _ = k; None }
      fn dump(&self) -> String { vec![dump_rel(0, self.p.r0.iter().map(Row::render).collect()), dump_rel(1, self.p.r1.iter().map(Row::render).collect()), dump_rel(2, self.p.r2.iter().map(Row::render).collect()), dump_rel(3, self.p.r3.iter().map(Row::render).collect())].join(" | ") }
      fn iters(&self) -> String { format!("iters {}", self.p.scc_iters.iter().map(|x| x.to_string()).collect::<Vec<_>>().join(" ")) }
   }
}

#[allow(unused, non_snake_case, clippy::all)]
pub mod o3x {
   use ascent::*;
   use ascent::aggregators::*;
   use ascent::lattice::{Dual, set::Set};
   use crate::common::*;
   ascent! {
      pub struct Prog;
      relation r0(i64, Option<i64>);
      relation r1(i64);
      relation r2(i64, i64);
      relation r3(i64);
      r3(v0) <-- r1(v0), r0(v100, v101) if (v100.clone() == v0.clone()) if (v101.clone() == None::<i64>);
      r2(v0, v0) <-- r3(v0);
   }
   pub struct Inst { p: Prog, pool: Option<ascent::rayon::ThreadPool> }
   pub fn make(pool: Option<usize>) -> Box<dyn Driver> {
      let pool = pool.map(|n| ascent::rayon::ThreadPoolBuilder::new().num_threads(n).build().unwrap());
      let p = match &pool { Some(pl) => pl.install(|| Default::default()), None => Default::default() };
      Box::new(Inst { p, pool })
   }
   impl Driver for Inst {
      fn load(&mut self, rel: usize, rows: &[Sexp], append: bool) -> Option<()> {
         match rel {
         0 => { let v: Vec<(i64,Option<i64>,)> = parse_rows(rows)?; if append { self.p.r0.extend(v) } else { self.p.r0 = v } },
         1 => { let v: Vec<(i64,)> = parse_rows(rows)?; if append { self.p.r1.extend(v) } else { self.p.r1 = v } },
         2 => { let v: Vec<(i64,i64,)> = parse_rows(rows)?; if append { self.p.r2.extend(v) } else { self.p.r2 = v } },
         3 => { let v: Vec<(i64,)> = parse_rows(rows)?; if append { self.p.r3.extend(v) } else { self.p.r3 = v } },
            _ => return None,
         }
         Some(())
      }
      fn run(&mut self) { match &self.pool { Some(pl) => { let p = &mut self.p; pl.install(|| p.run()) }, None => self.p.run() } }
      fn run_here(&mut self) { self.p.run() }
      fn run_timeout(&mut self, k: usize) -> Option<bool> { let _ = k; None }
      fn dump(&self) -> String { vec![dump_rel(0, self.p.r0.iter().map(Row::render).collect()), dump_rel(1, self.p.r1.iter().map(Row::render).collect()), dump_rel(2, self.p.r2.iter().map(Row::render).collect()), dump_rel(3, self.p.r3.iter().map(Row::render).collect())].join(" | ") }
      fn iters(&self) -> String { format!("iters {}", self.p.scc_iters.iter().map(|x| x.to_string()).collect::<Vec<_>>().join(" ")) }
   }
}

fn main() {
   common::main_loop(&[("h2x", h2x::make as common::Factory), ("h6x", h6x::make as common::Factory), ("h10x", h10x::make as common::Factory), ("a0x", a0x::make as common::Factory), ("e0x", e0x::make as common::Factory), ("e4x", e4x::make as common::Factory), ("o3x", o3x::make as common::Factory)]);
}
