#[path = "common.rs"]
mod common;
#[allow(unused, non_snake_case, clippy::all)]
pub mod h2x {
   use ascent::*;
   use ascent::aggregators::*;
   use ascent::lattice::{Dual, set::Set};
   use crate::common::*;
   ascent! {
      pub struct Prog;
      relation r0(i64, i64);
      relation r1(i64, Option<i64>);
      relation r2(i64);
      relation r3(i64, i64, i64);
      relation r4(i64);
      relation r5(i64);
      relation r6(i64, i64, Option<i64>);
      relation r7(i64, i64);
      r7(v0, std::cmp::min(std::cmp::max(v1.clone(), 0), 6)) <-- r7(v0, v1), r0(v100, v101) if (v100.clone() == v0.clone()) if (v101.clone() == v0.clone()), if (v0.clone() <= 5);
      r7(v1, std::cmp::min((v1.clone() + 2), 6)) <-- r5(v0), r2(v1), if (v1.clone() <= 3);
      r7(v3, std::cmp::min((v0.clone() + 1), 6)) <-- r4(v0), r0(v1, v2), if (v2.clone() <= 5), r0(v3, v102) if (v102.clone() == v2.clone()), if (v2.clone() <= 5);
      r7(v0, std::cmp::min(std::cmp::min(v0.clone(), 1), 6)) <-- r0(v0, v1);
      r5(v0) <-- r0(v0, v1);
   }
   pub struct Inst { p: Prog, pool: Option<ascent::rayon::ThreadPool> }
   pub fn make(pool: Option<usize>) -> Box<dyn Driver> {
      let pool = pool.map(|n| ascent::rayon::ThreadPoolBuilder::new().num_threads(n).build().unwrap());
      let p = match &pool { Some(pl) => pl.install(|| Default::default()), None => Default::default() };
      Box::new(Inst { p, pool })
   }
   impl Driver for Inst {
      fn load(&mut self, rel: usize, rows: &[Sexp], append: bool) -> Option<()> {
         match rel {
         0 => { let v: Vec<(i64,i64,)> = parse_rows(rows)?; if append { self.p.r0.extend(v) } else { self.p.r0 = v } },
         1 => { let v: Vec<(i64,Option<i64>,)> = parse_rows(rows)?; if append { self.p.r1.extend(v) } else { self.p.r1 = v } },
         2 => { let v: Vec<(i64,)> = parse_rows(rows)?; if append { self.p.r2.extend(v) } else { self.p.r2 = v } },
         3 => { let v: Vec<(i64,i64,i64,)> = parse_rows(rows)?; if append { self.p.r3.extend(v) } else { self.p.r3 = v } },
         4 => { let v: Vec<(i64,)> = parse_rows(rows)?; if append { self.p.r4.extend(v) } else { self.p.r4 = v } },
         5 => { let v: Vec<(i64,)> = parse_rows(rows)?; if append { self.p.r5.extend(v) } else { self.p.r5 = v } },
         6 => { let v: Vec<(i64,i64,Option<i64>,)> = parse_rows(rows)?; if append { self.p.r6.extend(v) } else { self.p.r6 = v } },
         7 => { let v: Vec<(i64,i64,)> = parse_rows(rows)?; if append { self.p.r7.extend(v) } else { self.p.r7 = v } },
            _ => return None,
         }
         Some(())
      }
      fn run(&mut self) { match &self.pool { Some(pl) => { let p = &mut self.p; pl.install(|| p.run()) }, None => self.p.run() } }
      fn run_here(&mut self) { self.p.run() }
      fn run_timeout(&mut self, k: usize) -> Option<bool> { let _ = k; None }
      fn dump(&self) -> String { vec![dump_rel(0, self.p.r0.iter().map(Row::render).collect()), dump_rel(1, self.p.r1.iter().map(Row::render).collect()), dump_rel(2, self.p.r2.iter().map(Row::render).collect()), dump_rel(3, self.p.r3.iter().map(Row::render).collect()), dump_rel(4, self.p.r4.iter().map(Row::render).collect()), dump_rel(5, self.p.r5.iter().map(Row::render).collect()), dump_rel(6, self.p.r6.iter().map(Row::render).collect()), dump_rel(7, self.p.r7.iter().map(Row::render).collect())].join(" | ") }
      fn iters(&self) -> String { format!("iters {}", self.p.scc_iters.iter().map(|x| x.to_string()).collect::<Vec<_>>().join(" ")) }
   }
}

#[allow(unused, non_snake_case, clippy::all)]
pub mod h6x {
   use ascent::*;
   use ascent::aggregators::*;
   use ascent::lattice::{Dual, set::Set};
   use crate::common::*;
   ascent! {
      pub struct Prog;
      relation r0(i64, i64);
      relation r1(i64, Option<i64>);
      relation r2(i64);
      relation r3(i64, i64, i64);
      relation r4(i64, Option<i64>);
      relation r5(i64, i64, i64);
      relation r6(i64, i64);
      r6(v0, 3) <-- r3(v100, v0, v101) if (v101.clone() == v0.clone()), if (v0.clone() == 3);
      r5(v0, (v0.clone() + 1), v0) <-- r1(v0, v1), r3(v102, v2, v103) if (v103.clone() == v2.clone()), if (v2.clone() == 3), if (v0.clone() < 5);
      r5(v0, v0, std::cmp::min((v2.clone() + 1), 6)) <-- r4(v0, v106) if let Some(v1) = v106.clone(), r4(v2, v107) if let Some(v104) = v107.clone(), if (v104.clone() < v0.clone()), r4(v108, v109) if (v108.clone() == v2.clone()) if let Some(v105) = v109.clone(), if (v105.clone() < v2.clone());
      r6(v0, v0) <-- r4(v0, v106) if let Some(v1) = v106.clone(), r4(v2, v107) if let Some(v104) = v107.clone(), if (v104.clone() < v0.clone()), r4(v108, v109) if (v108.clone() == v2.clone()) if let Some(v105) = v109.clone(), if (v105.clone() < v2.clone());
      r6(v2, v0) <-- r4(v0, v106) if let Some(v1) = v106.clone(), r4(v2, v107) if let Some(v104) = v107.clone(), if (v104.clone() < v0.clone()), r4(v108, v109) if (v108.clone() == v2.clone()) if let Some(v105) = v109.clone(), if (v105.clone() < v2.clone());
      r5(v1, v1, std::cmp::min(std::cmp::min(v1.clone(), 2), 6)) <-- r2(v0), r4(v1, v116) if let Some(v110) = v116.clone(), r6(v117, v111), if (v111.clone() < v110.clone()), r3(v115, v114, v113), if (v114.clone() == 3), if (v1.clone() < 5);
      r6(v1, v1) <-- r2(v0), r4(v1, v116) if let Some(v110) = v116.clone(), r6(v117, v111), if (v111.clone() < v110.clone()), r3(v115, v114, v113), if (v114.clone() == 3), if (v1.clone() < 5);
      r5(v1, v1, std::cmp::min(std::cmp::min(v1.clone(), 2), 6)) <-- r2(v0), r3(v1, v118, v110) if (v118.clone() == std::cmp::max(v0.clone(), 1)), if let Some(v112) = Some(std::cmp::max(v0.clone(), 1)), r3(v115, v114, v113), if (v114.clone() == 3), if (v1.clone() < 5);
      r6(v1, v1) <-- r2(v0), r3(v1, v118, v110) if (v118.clone() == std::cmp::max(v0.clone(), 1)), if let Some(v112) = Some(std::cmp::max(v0.clone(), 1)), r3(v115, v114, v113), if (v114.clone() == 3), if (v1.clone() < 5);
      r5(v1, v1, std::cmp::min(std::cmp::min(v1.clone(), 2), 6)) <-- r2(v0), r4(v1, v119) if (v119.clone() == None::<i64>);
      r6(v1, v1) <-- r2(v0), r4(v1, v119) if (v119.clone() == None::<i64>);
      r4(v1, None::<i64>) <-- r1(v0, v120) if let Some(v1) = v120.clone();
   }
   pub struct Inst { p: Prog, pool: Option<ascent::rayon::ThreadPool> }
   pub fn make(pool: Option<usize>) -> Box<dyn Driver> {
      let pool = pool.map(|n| ascent::rayon::ThreadPoolBuilder::new().num_threads(n).build().unwrap());
      let p = match &pool { Some(pl) => pl.install(|| Default::default()), None => Default::default() };
      Box::new(Inst { p, pool })
   }
   impl Driver for Inst {
      fn load(&mut self, rel: usize, rows: &[Sexp], append: bool) -> Option<()> {
         match rel {
         0 => { let v: Vec<(i64,i64,)> = parse_rows(rows)?; if append { self.p.r0.extend(v) } else { self.p.r0 = v } },
         1 => { let v: Vec<(i64,Option<i64>,)> = parse_rows(rows)?; if append { self.p.r1.extend(v) } else { self.p.r1 = v } },
         2 => { let v: Vec<(i64,)> = parse_rows(rows)?; if append { self.p.r2.extend(v) } else { self.p.r2 = v } },
         3 => { let v: Vec<(i64,i64,i64,)> = parse_rows(rows)?; if append { self.p.r3.extend(v) } else { self.p.r3 = v } },
         4 => { let v: Vec<(i64,Option<i64>,)> = parse_rows(rows)?; if append { self.p.r4.extend(v) } else { self.p.r4 = v } },
         5 => { let v: Vec<(i64,i64,i64,)> = parse_rows(rows)?; if append { self.p.r5.extend(v) } else { self.p.r5 = v } },
         6 => { let v: Vec<(i64,i64,)> = parse_rows(rows)?; if append { self.p.r6.extend(v) } else { self.p.r6 = v } },
            _ => return None,
         }
         Some(())
      }
      fn run(&mut self) { match &self.pool { Some(pl) => { let p = &mut self.p; pl.install(|| p.run()) }, None => self.p.run() } }
      fn run_here(&mut self) { self.p.run() }
      fn run_timeout(&mut self, k: usize) -> Option<bool> { let _ = k; None }
      fn dump(&self) -> String { vec![dump_rel(0, self.p.r0.iter().map(Row::render).collect()), dump_rel(1, self.p.r1.iter().map(Row::render).collect()), dump_rel(2, self.p.r2.iter().map(Row::render).collect()), dump_rel(3, self.p.r3.iter().map(Row::render).collect()), dump_rel(4, self.p.r4.iter().map(Row::render).collect()), dump_rel(5, self.p.r5.iter().map(Row::render).collect()), dump_rel(6, self.p.r6.iter().map(Row::render).collect())].join(" | ") }
      fn iters(&self) -> String { format!("iters {}", self.p.scc_iters.iter().map(|x| x.to_string()).collect::<Vec<_>>().join(" ")) }
   }
}

#[allow(unused, non_snake_case, clippy::all)]
pub mod h10x {
   use ascent::*;
   use ascent::aggregators::*;
   use ascent::lattice::{Dual, set::Set};
   use crate::common::*;
   ascent! {
      pub struct Prog;
      relation r0(i64, i64);
      relation r1(i64, Option<i64>);
      relation r2(i64);
      relation r3(i64, i64, i64);
      relation r4(i64, i64);
      relation r5(i64);
      relation r6(i64, i64);
      relation r7(i64);
      relation r8(i64, i64, i64);
      r6(v1, v0) <-- r0(v0, v1), r4(v101, v100) if (v101.clone() == v1.clone()), r5(v102) if (v102.clone() == v100.clone());
      r6(v0, v0) <-- r2(v104), r4(v0, v103), r5(v105) if (v105.clone() == v103.clone());
      r6(v0, v0) <-- r2(v106), r4(v2, v0) if (v2.clone() == 1);
      r6(std::cmp::min(std::cmp::min(v0.clone(), 1), 6), 1) <-- r1(v0, v113) if (v113.clone() == Some(v0.clone())), r4(v1, v114) if (v114.clone() == v0.clone()), if (v1.clone() < 1), r3(v107, v115, v116) if (v115.clone() == 0) if (v116.clone() == (v107.clone() + v0.clone())), r4(v108, v109), r5(v117) if (v117.clone() == v109.clone()), r4(v2, v118) if (v118.clone() == v2.clone()), if (v2.clone() < 1), r3(v110, v119, v120) if (v119.clone() == 0) if (v120.clone() == (v110.clone() + v2.clone())), r4(v111, v112), r5(v121) if (v121.clone() == v112.clone());
      r6((std::cmp::min(std::cmp::min(v0.clone(), 1), 6) + 0), v1) <-- r1(v0, v113) if (v113.clone() == Some(v0.clone())), r4(v1, v114) if (v114.clone() == v0.clone()), if (v1.clone() < 1), r3(v107, v115, v116) if (v115.clone() == 0) if (v116.clone() == (v107.clone() + v0.clone())), r4(v108, v109), r5(v117) if (v117.clone() == v109.clone()), r4(v2, v118) if (v118.clone() == v2.clone()), if (v2.clone() < 1), r3(v110, v119, v120) if (v119.clone() == 0) if (v120.clone() == (v110.clone() + v2.clone())), r4(v111, v112), r5(v121) if (v121.clone() == v112.clone());
      r6(v1, (std::cmp::min(std::cmp::min(v0.clone(), 1), 6) + 0)) <-- r1(v0, v113) if (v113.clone() == Some(v0.clone())), r4(v1, v114) if (v114.clone() == v0.clone()), if (v1.clone() < 1), r3(v107, v115, v116) if (v115.clone() == 0) if (v116.clone() == (v107.clone() + v0.clone())), r4(v108, v109), r5(v117) if (v117.clone() == v109.clone()), r4(v2, v118) if (v118.clone() == v2.clone()), if (v2.clone() < 1), r3(v110, v119, v120) if (v119.clone() == 0) if (v120.clone() == (v110.clone() + v2.clone())), r4(v111, v112), r5(v121) if (v121.clone() == v112.clone());
      r5(v0) <-- r4(v122, v0) if (v122.clone() == 0);
   }
   pub struct Inst { p: Prog, pool: Option<ascent::rayon::ThreadPool> }
   pub fn make(pool: Option<usize>) -> Box<dyn Driver> {
      let pool = pool.map(|n| ascent::rayon::ThreadPoolBuilder::new().num_threads(n).build().unwrap());
      let p = match &pool { Some(pl) => pl.install(|| Default::default()), None => Default::default() };
      Box::new(Inst { p, pool })
   }
   impl Driver for Inst {
      fn load(&mut self, rel: usize, rows: &[Sexp], append: bool) -> Option<()> {
         match rel {
         0 => { let v: Vec<(i64,i64,)> = parse_rows(rows)?; if append { self.p.r0.extend(v) } else { self.p.r0 = v } },
         1 => { let v: Vec<(i64,Option<i64>,)> = parse_rows(rows)?; if append { self.p.r1.extend(v) } else { self.p.r1 = v } },
         2 => { let v: Vec<(i64,)> = parse_rows(rows)?; if append { self.p.r2.extend(v) } else { self.p.r2 = v } },
         3 => { let v: Vec<(i64,i64,i64,)> = parse_rows(rows)?; if append { self.p.r3.extend(v) } else { self.p.r3 = v } },
         4 => { let v: Vec<(i64,i64,)> = parse_rows(rows)?; if append { self.p.r4.extend(v) } else { self.p.r4 = v } },
         5 => { let v: Vec<(i64,)> = parse_rows(rows)?; if append { self.p.r5.extend(v) } else { self.p.r5 = v } },
         6 => { let v: Vec<(i64,i64,)> = parse_rows(rows)?; if append { self.p.r6.extend(v) } else { self.p.r6 = v } },
         7 => { let v: Vec<(i64,)> = parse_rows(rows)?; if append { self.p.r7.extend(v) } else { self.p.r7 = v } },
         8 => { let v: Vec<(i64,i64,i64,)> = parse_rows(rows)?; if append { self.p.r8.extend(v) } else { self.p.r8 = v } },
            _ => return None,
         }
         Some(())
      }
      fn run(&mut self) { match &self.pool { Some(pl) => { let p = &mut self.p; pl.install(|| p.run()) }, None => self.p.run() } }
      fn run_here(&mut self) { self.p.run() }
      fn run_timeout(&mut self, k: usize) -> Option<bool> { let _ = k; None }
      fn dump(&self) -> String { vec![dump_rel(0, self.p.r0.iter().map(Row::render).collect()), dump_rel(1, self.p.r1.iter().map(Row::render).collect()), dump_rel(2, self.p.r2.iter().map(Row::render).collect()), dump_rel(3, self.p.r3.iter().map(Row::render).collect()), dump_rel(4, self.p.r4.iter().map(Row::render).collect()), dump_rel(5, self.p.r5.iter().map(Row::render).collect()), dump_rel(6, self.p.r6.iter().map(Row::render).collect()), dump_rel(7, self.p.r7.iter().map(Row::render).collect()), dump_rel(8, self.p.r8.iter().map(Row::render).collect())].join(" | ") }
      fn iters(&self) -> String { format!("iters {}", self.p.scc_iters.iter().map(|x| x.to_string()).collect::<Vec<_>>().join(" ")) }
   }
}

#[allow(unused, non_snake_case, clippy::all)]
pub mod a2x {
   use ascent::*;
   use ascent::aggregators::*;
   use ascent::lattice::{Dual, set::Set};
   use crate::common::*;
   ascent! {
      pub struct Prog;
      relation r0(i64, i64);
      relation r1(i64);
      relation r2(i64, i64);
      relation r3(i64);
      r2(v0, v1) <-- r1(v0), r0(v100, v1), if (0 < v100.clone());
      r3(v0) <-- r2(v0, v101);
   }
   pub struct Inst { p: Prog, pool: Option<ascent::rayon::ThreadPool> }
   pub fn make(pool: Option<usize>) -> Box<dyn Driver> {
      let pool = pool.map(|n| ascent::rayon::ThreadPoolBuilder::new().num_threads(n).build().unwrap());
      let p = match &pool { Some(pl) => pl.install(|| Default::default()), None => Default::default() };
      Box::new(Inst { p, pool })
   }
   impl Driver for Inst {
      fn load(&mut self, rel: usize, rows: &[Sexp], append: bool) -> Option<()> {
         match rel {
         0 => { let v: Vec<(i64,i64,)> = parse_rows(rows)?; if append { self.p.r0.extend(v) } else { self.p.r0 = v } },
         1 => { let v: Vec<(i64,)> = parse_rows(rows)?; if append { self.p.r1.extend(v) } else { self.p.r1 = v } },
         2 => { let v: Vec<(i64,i64,)> = parse_rows(rows)?; if append { self.p.r2.extend(v) } else { self.p.r2 = v } },
         3 => { let v: Vec<(i64,)> = parse_rows(rows)?; if append { self.p.r3.extend(v) } else { self.p.r3 = v } },
            _ => return None,
         }
         Some(())
      }
      fn run(&mut self) { match &self.pool { Some(pl) => { let p = &mut self.p; pl.install(|| p.run()) }, None => self.p.run() } }
      fn run_here(&mut self) { self.p.run() }
      fn run_timeout(&mut self, k: usize) -> Option<bool> { let _ = k; None }
      fn dump(&self) -> String { vec![dump_rel(0, self.p.r0.iter().map(Row::render).collect()), dump_rel(1, self.p.r1.iter().map(Row::render).collect()), dump_rel(2, self.p.r2.iter().map(Row::render).collect()), dump_rel(3, self.p.r3.iter().map(Row::render).collect())].join(" | ") }
      fn iters(&self) -> String { format!("iters {}", self.p.scc_iters.iter().map(|x| x.to_string()).collect::<Vec<_>>().join(" ")) }
   }
}

#[allow(unused, non_snake_case, clippy::all)]
pub mod e2x {
   use ascent::*;
   use ascent::aggregators::*;
   use ascent::lattice::{Dual, set::Set};
   use crate::common::*;
   ascent! {
      pub struct Prog;
      relation r0(i64, i64);
      relation r1(i64);
      relation r2(i64, i64);
      relation r3(i64);
      r2(v0, v1) <-- r1(v0), r0(v100, v1), if ((v0.clone() + 2) < 2);
      r3(v0) <-- r2(v0, v101);
   }
   pub struct Inst { p: Prog, pool: Option<ascent::rayon::ThreadPool> }
   pub fn make(pool: Option<usize>) -> Box<dyn Driver> {
      let pool = pool.map(|n| ascent::rayon::ThreadPoolBuilder::new().num_threads(n).build().unwrap());
      let p = match &pool { Some(pl) => pl.install(|| Default::default()), None => Default::default() };
      Box::new(Inst { p, pool })
   }
   impl Driver for Inst {
      fn load(&mut self, rel: usize, rows: &[Sexp], append: bool) -> Option<()> {
         match rel {
         0 => { let v: Vec<(i64,i64,)> = parse_rows(rows)?; if append { self.p.r0.extend(v) } else { self.p.r0 = v } },
         1 => { let v: Vec<(i64,)> = parse_rows(rows)?; if append { self.p.r1.extend(v) } else { self.p.r1 = v } },
         2 => { let v: Vec<(i64,i64,)> = parse_rows(rows)?; if append { self.p.r2.extend(v) } else { self.p.r2 = v } },
         3 => { let v: Vec<(i64,)> = parse_rows(rows)?; if append { self.p.r3.extend(v) } else { self.p.r3 = v } },
            _ => return None,
         }
         Some(())
      }
      fn run(&mut self) { match &self.pool { Some(pl) => { let p = &mut self.p; pl.install(|| p.run()) }, None => self.p.run() } }
      fn run_here(&mut self) { self.p.run() }
      fn run_timeout(&mut self, k: usize) -> Option<bool> { let _ = k; None }
      fn dump(&self) -> String { vec![dump_rel(0, self.p.r0.iter().map(Row::render).collect()), dump_rel(1, self.p.r1.iter().map(Row::render).collect()), dump_rel(2, self.p.r2.iter().map(Row::render).collect()), dump_rel(3, self.p.r3.iter().map(Row::render).collect())].join(" | ") }
      fn iters(&self) -> String { format!("iters {}", self.p.scc_iters.iter().map(|x| x.to_string()).collect::<Vec<_>>().join(" ")) }
   }
}

#[allow(unused, non_snake_case, clippy::all)]
pub mod o1x {
   use ascent::*;
   use ascent::aggregators::*;
   use ascent::lattice::{Dual, set::Set};
   use crate::common::*;
   ascent! {
      pub struct Prog;
      relation r0(i64, Option<i64>);
      relation r1(i64);
      relation r2(i64, i64);
      relation r3(i64);
      r3(v0) <-- r1(v0), r0(v100, v101) if (v100.clone() == v0.clone()) if (v101.clone() == None::<i64>);
      r2(v0, v0) <-- r3(v0);
   }
   pub struct Inst { p: Prog, pool: Option<ascent::rayon::ThreadPool> }
   pub fn make(pool: Option<usize>) -> Box<dyn Driver> {
      let pool = pool.map(|n| ascent::rayon::ThreadPoolBuilder::new().num_threads(n).build().unwrap());
      let p = match &pool { Some(pl) => pl.install(|| Default::default()), None => Default::default() };
      Box::new(Inst { p, pool })
   }
   impl Driver for Inst {
      fn load(&mut self, rel: usize, rows: &[Sexp], append: bool) -> Option<()> {
         match rel {
         0 => { let v: Vec<(i64,Option<i64>,)> = parse_rows(rows)?; if append { self.p.r0.extend(v) } else { self.p.r0 = v } },
         1 => { let v: Vec<(i64,)> = parse_rows(rows)?; if append { self.p.r1.extend(v) } else { self.p.r1 = v } },
         2 => { let v: Vec<(i64,i64,)> = parse_rows(rows)?; if append { self.p.r2.extend(v) } else { self.p.r2 = v } },
         3 => { let v: Vec<(i64,)> = parse_rows(rows)?; if append { self.p.r3.extend(v) } else { self.p.r3 = v } },
            _ => return None,
         }
         Some(())
      }
      fn run(&mut self) { match &self.pool { Some(pl) => { let p = &mut self.p; pl.install(|| p.run()) }, None => self.p.run() } }
      fn run_here(&mut self) { self.p.run() }
      fn run_timeout(&mut self, k: usize) -> Option<bool> { let _ = k; None }
      fn dump(&self) -> String { vec![dump_rel(0, self.p.r0.iter().map(Row::render).collect()), dump_rel(1, self.p.r1.iter().map(Row::render).collect()), dump_rel(2, self.p.r2.iter().map(Row::render).collect()), dump_rel(3, self.p.r3.iter().map(Row::render).collect())].join(" | ") }
      fn iters(&self) -> String { format!("iters {}", self.p.scc_iters.iter().map(|x| x.to_string()).collect::<Vec<_>>().join(" ")) }
   }
}

fn main() {
   common::main_loop(&[("h2x", h2x::make as common::Factory), ("h6x", h6x::make as common::Factory), ("h10x", h10x::make as common::Factory), ("a2x", a2x::make as common::Factory), ("e2x", e2x::make as common::Factory), ("o1x", o1x::make as common::Factory)]);
}
